#!/usr/bin/env python3
"""Rewrite the generated tables of DESIGN.md §8 (between the BEGIN/END markers) from
known_findings.jsonl, seeded/*/meta.json and checks.py."""
import glob, json, os, re, sys
V = os.path.dirname(os.path.dirname(os.path.abspath(__file__)))
sys.path.insert(0, V)
from checks import CHECKS, READY

def esc(s):
    return s.replace("|", "\\|").replace("\n", " ")

out = []
out.append("#### Findings (from known_findings.jsonl)\n")
out.append("| property | key | status | commit | what |")
out.append("|---|---|---|---|---|")
for l in open(os.path.join(V, "known_findings.jsonl")):
    if not l.strip():
        continue
    r = json.loads(l)
    w = r["what"]
    w = re.sub(r"^fixed: property=\S+ \S+ ", "", w)
    if len(w) > 420:
        w = w[:420] + "…"
    out.append("| %s | `%s` | %s | %s | %s |" % (r["property"], r["key"], r["status"], r.get("commit") or "", esc(w)))
out.append("")
out.append("#### Seeded changes (from seeded/*/meta.json; written by independent sub-agents that saw only the property text)\n")
out.append("| seeded change | property | what it needs to manifest | demo fails with / passes without, suite passes | caught by quick tier when confirmed (signatures) | re-validated against the latest /repo HEAD |")
out.append("|---|---|---|---|---|---|")
for p in sorted(glob.glob(os.path.join(V, "seeded", "*", "meta.json"))):
    m = json.load(open(p))
    c = m.get("confirmation", {})
    sigs = []
    for l in c.get("quick_check_output", []):
        mm = re.search(r"sig=(\S+)", l)
        if mm:
            sigs.append(mm.group(1))
    needs = m.get("needs", "")
    if len(needs) > 300:
        needs = needs[:300] + "…"
    ok = "yes" if c.get("confirmed") else "NO"
    caught = ("yes: " + ", ".join("`%s`" % s for s in sigs[:4])) if m.get("detected_by_quick_check") else "**no**"
    hr = m.get("head_recheck") or {}
    rec = ""
    if hr:
        rec = "%s @%s" % (hr.get("status"), hr.get("head"))
        if hr.get("status") == "caught" and hr.get("signatures"):
            rec += ": " + ", ".join("`%s`" % x for x in hr["signatures"][:2])
    out.append("| %s | %s | %s | %s | %s | %s |" % (os.path.basename(os.path.dirname(p)), m.get("property"), esc(needs), ok, caught, esc(rec)))
out.append("")
out.append("#### Registered checks\n")
out.append("| property | package | jobs (quick counts) | level |")
out.append("|---|---|---|---|")
for pid in sorted(CHECKS):
    c = CHECKS[pid]
    if pid not in READY:
        continue
    jobs = []
    for j in c["jobs"]:
        if j.get("kind") == "rapid":
            jobs.append("%s: rapid %d/%d" % (j["name"], j["checks"]["quick"], j["checks"]["thorough"]))
        elif j.get("kind") == "fuzz":
            jobs.append("%s: go fuzz %ds (thorough)" % (j["name"], j["seconds"]["thorough"]))
        else:
            jobs.append("%s: plain" % j["name"])
    out.append("| %s | %s | %s | %s |" % (pid, c.get("pkgdir") or ("harness/" + c["pkg"]), "; ".join(jobs), c.get("level")))
text = "\n".join(out) + "\n"
p = os.path.join(V, "DESIGN.md")
s = open(p).read()
b, e = "<!-- BEGIN GENERATED TABLES -->", "<!-- END GENERATED TABLES -->"
if b in s and e in s:
    s = s[:s.index(b) + len(b)] + "\n" + text + s[s.index(e):]
    open(p, "w").write(s)
    print("tables updated")
else:
    print("markers not found")
