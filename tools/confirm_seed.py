#!/usr/bin/env python3
"""Confirm a seeded defect produced by an independent sub-agent and file it under /verif/seeded/<name>/.

usage: confirm_seed.py <seed-dir (contains patch.diff, meta.json, demo*)> <name> [--no-suite] [--check-args ...]

Steps (all in a scratch worktree of /repo HEAD, removed afterwards):
  1. demo WITHOUT the patch must pass; 2. patch applies, `go build ./...` ok; 3. demo WITH the patch must fail;
  4. the repository's own test suite passes with the patch (root ExampleNew skipped: needs network);
  5. run the property's quick check against the patched tree and record whether it is detected.
"""
import json, os, shutil, subprocess, sys, time

ENV = dict(os.environ, GOFLAGS="-mod=mod", GOPROXY="off", GOSUMDB="off", GOTOOLCHAIN="local")


def sh(cmd, cwd, timeout=3000):
    p = subprocess.run(["bash", "-c", cmd], cwd=cwd, env=ENV, stdout=subprocess.PIPE, stderr=subprocess.STDOUT, text=True, timeout=timeout)
    return p.returncode, p.stdout


def verdict(out):
    bad = ("FAIL" in out) or ("panic:" in out) or ("DEMO-FAIL" in out)
    good = ("\nok " in "\n" + out) or ("PASS" in out) or ("DEMO-PASS" in out)
    if bad:
        return "fail"
    if good:
        return "pass"
    return "unknown"


def main():
    seed = os.path.abspath(sys.argv[1])
    name = sys.argv[2]
    nosuite = "--no-suite" in sys.argv
    meta = json.load(open(os.path.join(seed, "meta.json")))
    pid = meta["property"]
    W = "/var/tmp/verif-seedconf-%s-%d" % (name, os.getpid())
    subprocess.check_call(["git", "-C", "/repo", "worktree", "add", "-q", "--detach", W, "HEAD"])
    res = {"repo_head": subprocess.check_output(["git", "-C", "/repo", "rev-parse", "--short", "HEAD"], text=True).strip()}
    try:
        shutil.copytree(seed, os.path.join(W, "SEED"))
        import re
        demo = re.sub(r"/tmp/seed\d*-%s" % pid, W, meta["demo_cmd"])
        rc, out = sh(demo, W)
        res["demo_without_patch"] = verdict(out)
        print("demo without patch:", res["demo_without_patch"])
        if res["demo_without_patch"] != "pass":
            print(out[-3000:])
        rc, out = sh("git apply SEED/patch.diff && go build ./...", W)
        res["applies_and_builds"] = rc == 0
        print("applies+builds:", rc == 0)
        if rc != 0:
            print(out[-3000:])
        rc, out = sh(demo, W)
        res["demo_with_patch"] = verdict(out)
        print("demo with patch:", res["demo_with_patch"])
        if res["demo_with_patch"] != "fail":
            print(out[-3000:])
        if not nosuite:
            t0 = time.time()
            # remove whatever the demo left behind (copied demo test files), keep the patch itself
            sh("git clean -fdq -e SEED", W)
            rc, out = sh("go test -vet=off -count=1 -skip '^ExampleNew$' ./... 2>&1 | grep -v '^ok\\|no test files' | tail -40", W)
            for attempt in range(3):
                if "FAIL" not in out:
                    break
                # timing-sensitive tests of the repository (e.g. internal/cache) can fail on a loaded machine: re-run failing packages
                pkgs = sorted(set(l.split()[1] for l in out.splitlines() if l.startswith("FAIL\t")))
                if not pkgs:
                    break
                pk = " ".join("./" + p.replace("github.com/regclient/regclient", "").lstrip("/") for p in pkgs)
                res.setdefault("suite_retried_packages", []).extend(pkgs)
                rc, out = sh("go test -vet=off -count=1 -skip '^ExampleNew$' %s 2>&1 | grep -v '^ok\\|no test files' | tail -40" % pk, W)
            res["suite_with_patch"] = "pass" if "FAIL" not in out else "fail"
            print("suite with patch: %s (%.0fs)" % (res["suite_with_patch"], time.time() - t0))
            if res["suite_with_patch"] != "pass":
                print(out[-3000:])
        # our check against it
        env = dict(ENV, VERIF_REPO=W, VERIF_EVIDENCE_DIR="/verif/out/mutant-evidence")
        shutil.rmtree(os.path.join(W, "SEED"))
        t0 = time.time()
        p = subprocess.run(["/verif/run.py", pid, "--tier", "quick"], cwd="/verif", env=env, stdout=subprocess.PIPE, stderr=subprocess.STDOUT, text=True)
        res["quick_check_rc"] = p.returncode
        res["quick_check_wall_s"] = round(time.time() - t0, 1)
        res["quick_check_output"] = [l for l in p.stdout.splitlines() if l.startswith(("VIOLATION", "KNOWN", "OK", "INCONCLUSIVE"))][:10]
        print("quick check rc=%d %s" % (p.returncode, res["quick_check_output"]))
        if p.returncode != 1:
            print(p.stdout[-2500:])
    finally:
        subprocess.call(["git", "-C", "/repo", "worktree", "remove", "--force", W])
        shutil.rmtree(W, ignore_errors=True)
    ok = res.get("demo_without_patch") == "pass" and res.get("applies_and_builds") and res.get("demo_with_patch") == "fail" \
        and (nosuite or res.get("suite_with_patch") == "pass")
    res["confirmed"] = bool(ok)
    dst = os.path.join("/verif/seeded", name)
    if ok:
        os.makedirs(dst, exist_ok=True)
        for fn in os.listdir(seed):
            if os.path.isfile(os.path.join(seed, fn)) and not fn.startswith("FOREIGN"):
                shutil.copy(os.path.join(seed, fn), os.path.join(dst, fn))
        meta["confirmation"] = res
        meta["detected_by_quick_check"] = res.get("quick_check_rc") == 1
        json.dump(meta, open(os.path.join(dst, "meta.json"), "w"), indent=1)
        print("filed under", dst)
    else:
        print("NOT CONFIRMED:", res)
    return 0 if ok else 1


if __name__ == "__main__":
    sys.exit(main())
