#!/usr/bin/env python3
"""Blind-spot finder: statement coverage of the property's ANCHOR files by the generated cases of its check.

usage: coverage.py Cxx [--scale 0.3] [--tier quick] [--all-files]

Builds the check's test binaries with -cover -coverpkg=<module>/..., runs the tier (evidence redirected, so the
committed evidence is untouched), merges the shard profiles and prints, for every anchor file named in
properties.jsonl, its statement coverage and every function the generated cases never entered (0 %), plus functions
below 50 %. A function at 0 % inside an anchor file is a part of the behaviour behind the property that no generated
case reaches: a generator blind spot (or code the property does not involve - decide by reading it).
Limits: code run in child processes (C07 crash driver, CLI binaries started with exec) is not counted.
"""
import collections, json, os, re, shutil, subprocess, sys

V = os.path.dirname(os.path.dirname(os.path.abspath(__file__)))
REPO = os.environ.get("VERIF_REPO", "/repo")
MOD = "github.com/regclient/regclient/"


def main():
    pid = sys.argv[1]
    scale = sys.argv[sys.argv.index("--scale") + 1] if "--scale" in sys.argv else "0.3"
    tier = sys.argv[sys.argv.index("--tier") + 1] if "--tier" in sys.argv else "quick"
    prop = [json.loads(l) for l in open(os.path.join(V, "properties.jsonl")) if json.loads(l)["id"] == pid][0]
    anchors = prop["anchors"]["files"]
    cd = os.path.join(V, "out", "cover", pid)
    shutil.rmtree(cd, ignore_errors=True)
    os.makedirs(cd)
    env = dict(os.environ, VERIF_COVER_DIR=cd, VERIF_EVIDENCE_DIR=os.path.join(V, "out", "mutant-evidence"))
    p = subprocess.run([os.path.join(V, "run.py"), pid, "--tier", tier, "--scale", scale], cwd=V, env=env,
                       stdout=subprocess.PIPE, stderr=subprocess.STDOUT, text=True)
    print("\n".join(l for l in p.stdout.splitlines() if l.startswith(("OK", "VIOLATION", "INCONCLUSIVE"))))
    blocks = collections.defaultdict(int)  # (file, range, nstmt) -> count
    for fn in os.listdir(cd):
        if not fn.endswith(".out"):
            continue
        for line in open(os.path.join(cd, fn)):
            if line.startswith("mode:"):
                continue
            m = re.match(r"(\S+):(\S+) (\d+) (\d+)$", line.strip())
            if not m or "/zz_verif/" in m.group(1) or "verif_" in m.group(1):
                continue
            blocks[(m.group(1), m.group(2), int(m.group(3)))] += int(m.group(4))
    merged = os.path.join(cd, "merged.prof")
    with open(merged, "w") as f:
        f.write("mode: count\n")
        for (fl, rng, n), c in sorted(blocks.items()):
            f.write("%s:%s %d %d\n" % (fl, rng, n, c))
    genv = dict(os.environ, GOFLAGS="-mod=mod", GOPROXY="off", GOSUMDB="off", GOTOOLCHAIN="local")
    out = subprocess.run(["go", "tool", "cover", "-func=" + merged], cwd=REPO, env=genv, stdout=subprocess.PIPE,
                         stderr=subprocess.STDOUT, text=True).stdout
    per = collections.defaultdict(list)
    for line in out.splitlines():
        m = re.match(r"(\S+?):(\d+):\s+(\S+)\s+([\d.]+)%", line)
        if m and m.group(1).startswith(MOD):
            per[m.group(1)[len(MOD):]].append((int(m.group(2)), m.group(3), float(m.group(4))))
    stm = collections.defaultdict(lambda: [0, 0])
    for (fl, rng, n), c in blocks.items():
        k = fl[len(MOD):] if fl.startswith(MOD) else fl
        stm[k][0] += n
        stm[k][1] += n if c else 0
    files = sorted(per) if "--all-files" in sys.argv else anchors
    for a in files:
        fs = per.get(a)
        if not fs:
            print("%-40s NOT IN PROFILE (package not linked, or only run in a child process)" % a)
            continue
        tot, cov = stm[a]
        zero = [f for f in fs if f[2] == 0]
        low = [f for f in fs if 0 < f[2] < 50]
        print("%-40s %5.1f%% of %4d statements; %d/%d functions never entered" % (a, 100.0 * cov / max(tot, 1), tot, len(zero), len(fs)))
        for ln, fn, pc in zero:
            print("      0%%  %s:%d %s" % (a, ln, fn))
        for ln, fn, pc in low:
            print("   %4.0f%%  %s:%d %s" % (pc, a, ln, fn))


if __name__ == "__main__":
    main()
