#!/usr/bin/env python3
"""Apply a textual change (or a patch) in a scratch worktree of /repo and run a check against it.
usage: mutant.py ID [--patch P | --file F --old S --new S [--nth N]] [-- run.py args]"""
import argparse, os, subprocess, sys, shutil
ap = argparse.ArgumentParser()
ap.add_argument("id")
ap.add_argument("--patch")
ap.add_argument("--file")
ap.add_argument("--old")
ap.add_argument("--new")
ap.add_argument("--nth", type=int, default=1)
ap.add_argument("rest", nargs="*")
a = ap.parse_args()
W = "/var/tmp/verif-mut-%d" % os.getpid()
subprocess.check_call(["git", "-C", "/repo", "worktree", "add", "-q", "--detach", W, "HEAD"])
try:
    if a.patch:
        subprocess.check_call(["git", "-C", W, "apply", os.path.abspath(a.patch)])
    else:
        p = os.path.join(W, a.file)
        s = open(p).read()
        parts = s.split(a.old)
        if len(parts) <= a.nth:
            print("MUTANT: old string not found (%d occurrences)" % (len(parts) - 1)); sys.exit(3)
        s = a.old.join(parts[:a.nth]) + a.new + a.old.join(parts[a.nth:])
        open(p, "w").write(s)
    subprocess.call(["git", "-C", W, "--no-pager", "diff", "--stat"])
    env = dict(os.environ, GOFLAGS="-mod=mod", GOPROXY="off")
    if subprocess.call(["go", "build", "./..."], cwd=W, env=env) != 0:
        print("MUTANT DOES NOT BUILD"); sys.exit(3)
    env["VERIF_REPO"] = W
    env["VERIF_EVIDENCE_DIR"] = "/verif/out/mutant-evidence"  # never overwrite the evidence of the unchanged tree
    rc = subprocess.call(["/verif/run.py", a.id] + a.rest, cwd="/verif", env=env)
    print("mutant rc=%d" % rc)
    sys.exit(rc)
finally:
    subprocess.call(["git", "-C", "/repo", "worktree", "remove", "--force", W])
    shutil.rmtree(W, ignore_errors=True)
