#!/bin/bash
# Re-run the quick tier of every registered check on the current tree (rewrites evidence/*.json).
cd "$(dirname "$0")/.."
ids=${*:-$(python3 -c "import sys; sys.path.insert(0,'.'); from checks import READY; print(' '.join(READY))")}
rc_all=0
for id in $ids; do
  out=$(VERIF_SEED=${VERIF_SEED:-1} ./run.py $id --tier quick 2>&1)
  rc=$?
  echo "$id rc=$rc $(echo "$out" | grep -c '^KNOWN-FINDING') known; $(echo "$out" | grep '^OK\|^VIOLATION\|^INCONCLUSIVE' | cut -c1-160 | head -3)"
  [ $rc -ne 0 ] && rc_all=1
done
exit $rc_all
