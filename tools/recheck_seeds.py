#!/usr/bin/env python3
"""Re-validate every filed seeded change against the CURRENT /repo HEAD (fix commits made after a
seed was confirmed can make its patch conflict, or remove the circumstances it needs).

usage: recheck_seeds.py [name-prefix ...]

For each /verif/seeded/<name>/: scratch worktree of HEAD ->
  patch does not apply            -> status "patch-conflicts-with-later-commit"
  demo passes WITH the patch      -> status "no-longer-a-defect-on-head"
  otherwise run the quick check   -> status "caught" (rc 1) | "MISSED" (rc 0) | "inconclusive" (rc 2)
The result is stored in meta.json under "head_recheck" (the original confirmation is kept).
"""
import json, os, re, shutil, subprocess, sys, time

sys.path.insert(0, os.path.dirname(__file__))
from confirm_seed import ENV, sh, verdict  # noqa: E402


def main():
    pref = [a for a in sys.argv[1:] if not a.startswith("--")]
    stale_only = "--stale" in sys.argv  # only seeds whose head_recheck is not 'caught'/'no-longer...' at the current HEAD
    head = subprocess.check_output(["git", "-C", "/repo", "rev-parse", "--short", "HEAD"], text=True).strip()
    names = sorted(os.listdir("/verif/seeded"))
    out = []
    for name in names:
        if pref and not any(name.startswith(p) for p in pref):
            continue
        d = os.path.join("/verif/seeded", name)
        mp = os.path.join(d, "meta.json")
        if not os.path.exists(mp):
            continue
        meta = json.load(open(mp))
        pid = meta["property"]
        hr = meta.get("head_recheck", {})
        if stale_only and hr.get("head") == head and hr.get("status") in ("caught", "no-longer-a-defect-on-head"):
            continue
        W = "/var/tmp/verif-seedre-%s-%d" % (name, os.getpid())
        subprocess.check_call(["git", "-C", "/repo", "worktree", "add", "-q", "--detach", W, "HEAD"])
        res = {"head": head}
        try:
            shutil.copytree(d, os.path.join(W, "SEED"))
            rc, o = sh("git apply SEED/patch.diff", W)
            rcb = 0
            if rc == 0:
                # a build failure for environmental reasons (interrupted run, cache) must not be filed as a conflict
                for attempt in range(2):
                    rcb, ob = sh("go build ./...", W)
                    if rcb == 0:
                        break
            if rc != 0:
                res["status"] = "patch-conflicts-with-later-commit"
            elif rcb != 0:
                res["status"] = "inconclusive"
                res["note"] = "go build failed: " + ob[-300:]
            else:
                demo = re.sub(r"/tmp/seed\d*-%s" % pid, W, meta["demo_cmd"])
                rc, o = sh(demo, W)
                v = verdict(o)
                sh("git clean -fdq -e SEED", W)
                if v == "pass":
                    res["status"] = "no-longer-a-defect-on-head"
                else:
                    shutil.rmtree(os.path.join(W, "SEED"))
                    env = dict(ENV, VERIF_REPO=W, VERIF_EVIDENCE_DIR="/verif/out/mutant-evidence")
                    t0 = time.time()
                    p = subprocess.run(["/verif/run.py", pid, "--tier", "quick"], cwd="/verif", env=env, stdout=subprocess.PIPE, stderr=subprocess.STDOUT, text=True)
                    res["quick_check_rc"] = p.returncode
                    res["quick_check_wall_s"] = round(time.time() - t0, 1)
                    res["signatures"] = sorted(set(re.findall(r"sig=(\S+)", p.stdout)))[:8]
                    res["status"] = {1: "caught", 0: "MISSED"}.get(p.returncode, "inconclusive")
        finally:
            subprocess.call(["git", "-C", "/repo", "worktree", "remove", "--force", W])
            shutil.rmtree(W, ignore_errors=True)
        meta["head_recheck"] = res
        json.dump(meta, open(mp, "w"), indent=1)
        print(name, res.get("status"), res.get("signatures", ""), flush=True)
        out.append((name, res.get("status")))
    bad = [n for n, s in out if s in ("MISSED", "inconclusive")]
    print("rechecked %d seeds against %s; missed/inconclusive: %s" % (len(out), head, bad))
    return 1 if bad else 0


if __name__ == "__main__":
    sys.exit(main())
