#!/usr/bin/env python3
"""Regenerate MANIFEST.json from checks.py + properties.jsonl."""
import json, os, subprocess, sys
V = os.path.dirname(os.path.dirname(os.path.abspath(__file__)))
sys.path.insert(0, V)
from checks import CHECKS, HOOK_COMMITS, NOT_APPLICABLE, READY
props = [json.loads(l)["id"] for l in open(os.path.join(V, "properties.jsonl"))]
checks = []
for pid in props:
    if pid not in CHECKS or CHECKS[pid].get("disabled") or pid not in READY:
        continue
    c = CHECKS[pid]
    checks.append({
        "property_id": pid,
        "quick_cmd": "./run.py %s --tier quick" % pid,
        "thorough_cmd": "./run.py %s --tier thorough" % pid,
        "evidence_file": "evidence/%s.json" % pid,
        "replay_cmd_template": "./run.py %s --replay {path}" % pid,
        "engine": c.get("engine", "rapid"),
        "level_claimed": {"category": c.get("level", "exploration"), "text": c["level_text"], "design_ref": "DESIGN.md §3 " + pid},
        "level_note": c["level_note"],
        "technique": c["technique"],
    })
na = []
for pid in props:
    if pid not in [c["property_id"] for c in checks]:
        na.append({"property_id": pid, "reason": NOT_APPLICABLE.get(pid, "check not built yet (framework under construction; DESIGN.md §3 has the plan)")})
m = {
    "version": 1,
    "setup_cmd": "./setup.sh",
    "hooks": {"guard": "verif", "enable": "go test -c -tags verif -modfile build/<ID>/go.mod -overlay build/<ID>/overlay.json (done by ./run.py)",
              "baseline_off_cmd": "cd /repo && go test -mod=mod -json -vet=off -count=1 -timeout 25m ./...",
              "source_commits": HOOK_COMMITS, "add_only": True},
    "engines": [
        {"name": "run.py", "path": "run.py", "serves_properties": [c["property_id"] for c in checks],
         "kind_free_text": "driver: overlay build of harness inside /repo's module, sharded rapid runs, native go fuzz, replay tier, evidence merge, known-findings handling"},
        {"name": "evid", "path": "harness/evid", "serves_properties": [c["property_id"] for c in checks], "kind_free_text": "evidence collector / failure recorder (Go)"},
    ],
    "checks": checks,
    "notes": "Property-based testing (pgregory.net/rapid v1.3.0) and native Go fuzzing; see DESIGN.md. Exit 2 = inconclusive (infrastructure), never a violation.",
    "not_applicable": na,
}
json.dump(m, open(os.path.join(V, "MANIFEST.json"), "w"), indent=1)
print("checks:", [c["property_id"] for c in checks], "pending:", [n["property_id"] for n in na])
