// Package c19 holds the generator, world builder, monitor and oracle of C19
// ("a dry run of the scripting tool changes nothing"). The tests themselves
// live in /verif/harness/inpkg/cmd/regbot/verif_c19_test.go (package main of
// cmd/regbot, build tag c19) because one of the two drivers is the real
// `regbot once --dry-run -c <yaml>` cobra command; the other driver
// (sandbox.New(..., WithDryRun())) is in this package.
package c19

import (
	"fmt"
	"strings"

	"github.com/regclient/regclient/zz_verif/imggen"
)

// Host names of the world. Every registry reference of a generated script
// names one of the registry hosts; ProbeHost only ever receives the statement
// boundary probes (tag listings of repositories that do not exist).
const (
	HostA     = "a.example.test"
	HostB     = "b.example.test"
	ProbeHost = "probe.example.test"
	// RootToken is replaced by the per-evaluation scratch root in every script
	// (layouts live under <root>/lay, local files under <root>/scratch).
	RootToken = "@ROOT@"
)

// HostConf is the generated feature set of one registry host.
type HostConf struct {
	Name string `json:"name"`
	// RateRemain > 0: manifest responses carry RateLimit-Limit / RateLimit-Remaining headers
	RateRemain int `json:"rate_remain,omitempty"`
	// User != "": the host wants Basic authentication with these credentials (in the config's creds)
	User             string `json:"user,omitempty"`
	Pass             string `json:"pass,omitempty"`
	TagDelete        bool   `json:"tag_delete"`
	Referrers        bool   `json:"referrers"`
	TagPage          int    `json:"tag_page,omitempty"`
	CatalogPage      int    `json:"catalog_page,omitempty"`
	HeadNoDigest     bool   `json:"head_no_digest,omitempty"`
	ValidateManifest bool   `json:"validate_manifest,omitempty"`
}

// Place is one pre-populated repository (registry) or OCI layout directory.
type Place struct {
	Kind  string `json:"kind"` // reg | layout
	Host  string `json:"host,omitempty"`
	Repo  string `json:"repo,omitempty"`
	Dir   string `json:"dir,omitempty"` // layout directory name under <root>/lay
	Graph int    `json:"graph"`         // index into Case.Graphs
	Owner int    `json:"owner"`         // script that may use it (-1 = any); set when scripts run concurrently
}

// Base returns the Lua-visible name of the place without tag or digest.
func (p Place) Base() string {
	if p.Kind == "layout" {
		return "ocidir://" + RootToken + "/lay/" + p.Dir
	}
	return p.Host + "/" + p.Repo
}

// Stmt is one top-level statement of a script. Lua is authoritative (it is
// what runs); the other fields are what the generator knows about it and are
// used for attribution, the histogram and the raise clause only.
type Stmt struct {
	Kind  string   `json:"kind"`            // template label
	Mut   string   `json:"mut,omitempty"`   // the one mutating binding the statement calls ("" = read-only)
	Calls []string `json:"calls,omitempty"` // every binding the statement's text calls (names of Bindings)
	Args  []string `json:"args,omitempty"`  // argument kinds the statement passes to its mutating binding (histogram only)
	Raise bool     `json:"raise,omitempty"`
	Safe  bool     `json:"safe,omitempty"` // the whole statement is wrapped in pcall: it cannot stop the script
	// Raise: the statement unconditionally raises an unprotected error at top
	// level, i.e. when it is reached the script must stop there.
	Lua string `json:"lua"`
}

// Script is one entry of the regbot configuration.
type Script struct {
	Name    string `json:"name"`
	Timeout string `json:"timeout,omitempty"` // "" or a Go duration ("1ms": expired before / while the script runs)
	Stmts   []Stmt `json:"stmts"`
	// Kind "" = statements with markers; "empty" = the empty script; "badsyntax" =
	// a text that does not parse (the script never starts; the others must)
	Kind string `json:"kind,omitempty"`
}

// ConfOpts are dimensions of the regbot configuration file / command line that
// do not matter to `once` semantically but are ways the tool is really invoked.
type ConfOpts struct {
	LoadDockerConf bool   `json:"load_docker_conf,omitempty"` // skipDockerConfig omitted (HOME is an empty scratch dir)
	UserAgent      string `json:"user_agent,omitempty"`
	BlobLimit      int64  `json:"blob_limit,omitempty"`
	Sched          int    `json:"sched,omitempty"` // 1: defaults.interval + script interval, 2: defaults.schedule + script schedule (ignored by once)
	NoVersion      bool   `json:"no_version,omitempty"`
	XExt           bool   `json:"x_ext,omitempty"`       // an x-* user extension with a yaml anchor
	CredExtras     bool   `json:"cred_extras,omitempty"` // repoAuth, blobChunk, blobMax, priority on the creds
	ArgStyle       int    `json:"arg_style,omitempty"`   // order / spelling of the command line flags
	Stdin          bool   `json:"stdin,omitempty"`       // -c - (configuration on standard input)
}

// Case is the generated unit: a world (State), 1-4 scripts and the regbot
// configuration they run under. DryRun is always on; CompareNormal (ReadOnly)
// additionally runs the same scripts in normal mode on the same state.
type Case struct {
	Mode       string          `json:"mode"`     // direct (sandbox.New) | cobra (`regbot once --dry-run -c file`)
	Parallel   int             `json:"parallel"` // defaults.parallel (cobra: > 0 runs the scripts concurrently)
	Verbosity  string          `json:"verbosity,omitempty"`
	YAMLStyle  int             `json:"yaml_style,omitempty"`  // 0 block scalars, 1 JSON-style quoted strings
	DefTimeout string          `json:"def_timeout,omitempty"` // defaults.timeout ("" = none; always far above any run time)
	Graphs     []*imggen.Graph `json:"graphs"`
	Hosts      []HostConf      `json:"hosts"`
	Places     []Place         `json:"places"`
	Scripts    []Script        `json:"scripts"`
	ReadOnly   bool            `json:"read_only"` // no script calls a mutating binding -> differential clause applies
	Conf       ConfOpts        `json:"conf"`
	// CancelAt: the harness cancels the command context (what SIGINT does) when
	// statement CancelAt[1] of script CancelAt[0] starts. nil = never.
	CancelAt []int `json:"cancel_at,omitempty"`
}

// Prelude is put at the top of every script: j renders a listing
// deterministically, es renders a caught error value (only strings verbatim:
// tostring of a table would print an address).
const Prelude = `local function j(t)
  if type(t) ~= "table" then return tostring(t) end
  local c = {}
  for i, v in ipairs(t) do c[i] = tostring(v) end
  table.sort(c)
  return "[" .. table.concat(c, ",") .. "]"
end
local function es(e)
  if type(e) == "string" then return e end
  return type(e)
end
`

// MarkPrefix starts every marker message.
const MarkPrefix = "C19MARK"

// StepMark / EndMark are the marker messages of script si.
func StepMark(si, k int) string { return fmt.Sprintf("%s s%d k%d", MarkPrefix, si, k) }
func EndMark(si int) string     { return fmt.Sprintf("%s s%d end", MarkPrefix, si) }

// ProbeRepo is the repository whose tag listing is the statement-boundary probe.
func ProbeRepo(si, k int) string { return fmt.Sprintf("s%d/k%d", si, k) }

// Render assembles the Lua text of script si: per statement a step marker, a
// boundary probe (a tag listing on ProbeHost, which the harness observes
// synchronously) and the statement in its own block; finally the end marker.
func (c Case) Render(si int, root string) string {
	switch c.Scripts[si].Kind {
	case "empty":
		return ""
	case "badsyntax":
		return Prelude + "log(\"C19 never\"\nthis is not lua ((\n"
	}
	var sb strings.Builder
	sb.WriteString(Prelude)
	for k, st := range c.Scripts[si].Stmts {
		fmt.Fprintf(&sb, "log(%q)\n", StepMark(si, k))
		fmt.Fprintf(&sb, "tag.ls(%q)\n", ProbeHost+"/"+ProbeRepo(si, k))
		sb.WriteString("do\n")
		sb.WriteString(st.Lua)
		if !strings.HasSuffix(st.Lua, "\n") {
			sb.WriteString("\n")
		}
		sb.WriteString("end\n")
	}
	// the end is a boundary too (the probes, unlike log(), do not depend on the log level)
	fmt.Fprintf(&sb, "tag.ls(%q)\n", ProbeHost+"/"+ProbeRepo(si, len(c.Scripts[si].Stmts)))
	fmt.Fprintf(&sb, "log(%q)\n", EndMark(si))
	return strings.ReplaceAll(sb.String(), RootToken, root)
}

// Quiet tells whether the log level drops the info records log() writes (the
// marker messages): progress is then known from the boundary probes only.
func (c Case) Quiet() bool { return c.Verbosity == "warn" || c.Verbosity == "error" }

// HasMut tells whether any statement of the case calls a mutating binding.
func (c Case) HasMut() bool {
	for _, s := range c.Scripts {
		for _, st := range s.Stmts {
			if st.Mut != "" {
				return true
			}
		}
	}
	return false
}

// Bindings is every Lua function the sandbox registers, as "<table>.<name>"
// for functions of a global table and "<type>:<name>" for methods; the sanity
// job compares it with what a live sandbox reports so that a binding added to
// regbot later cannot silently stay outside the generator. The value says
// whether the binding changes external state in a normal run.
var Bindings = map[string]bool{
	"log":                    false,
	"reference.new":          false,
	"reference.close":        true, // garbage-collects a modified layout
	"reference.__tostring":   false,
	"reference:close":        true,
	"reference:digest":       false,
	"reference:tag":          false,
	"repo.ls":                false,
	"tag.delete":             true,
	"tag.ls":                 false,
	"image.config":           false,
	"image.copy":             true,
	"image.exportTar":        false, // writes the local file the script names (not a registry / layout)
	"image.importTar":        true,
	"image.manifest":         false,
	"image.manifestHead":     false,
	"image.manifestList":     false,
	"image.ratelimitWait":    false,
	"imageconfig.__tostring": false,
	"imageconfig:export":     false,
	"manifest.__tostring":    false,
	"manifest.get":           false,
	"manifest.getList":       false,
	"manifest.head":          false,
	"manifest.put":           true,
	"manifest:config":        false,
	"manifest:delete":        true,
	"manifest:export":        false,
	"manifest:get":           false,
	"manifest:head":          false,
	"manifest:put":           true,
	"manifest:ratelimit":     false,
	"manifest:ratelimitWait": false,
	"blob.get":               false,
	"blob.head":              false,
	"blob.put":               true,
	"blob:get":               false,
	"blob:head":              false,
	"blob:put":               true,
}

// EnumScript is a Lua script that logs every function the sandbox registered
// ("C19ENUM <name>"), in the naming of Bindings.
const EnumScript = `
local mods = {"reference", "repo", "tag", "image", "imageconfig", "manifest", "blob"}
for _, mn in ipairs(mods) do
  local mt = _G[mn]
  if type(mt) == "table" then
    for k, v in pairs(mt) do
      if type(v) == "function" then log("C19ENUM " .. mn .. "." .. k) end
      if k == "__index" and type(v) == "table" then
        for k2, v2 in pairs(v) do
          if type(v2) == "function" then log("C19ENUM " .. mn .. ":" .. k2) end
        end
      end
    end
  end
end
if type(log) == "function" then log("C19ENUM log") end
`
