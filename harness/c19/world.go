package c19

import (
	"bytes"
	"context"
	"crypto/sha256"
	"encoding/base64"
	"encoding/hex"
	"fmt"
	"io/fs"
	"net/http"
	"os"
	"path/filepath"
	"sort"
	"strings"
	"sync"
	"syscall"
	"time"

	"github.com/regclient/regclient/types/ref"
	"github.com/regclient/regclient/zz_verif/rcutil"
	rm "github.com/regclient/regclient/zz_verif/regmodel"
)

// World is the materialised state of one evaluation.
type World struct {
	C       Case
	Root    string // per-evaluation scratch root
	LayRoot string // <root>/lay : every layout directory lives (or would be created) below it
	Scratch string // <root>/scratch : local files a script may name (export targets, the import tar)
	Model   *rm.Model
	Hosts   map[string]*rm.Host
}

var oldTime = time.Date(2001, 2, 3, 4, 5, 6, 0, time.UTC)

// Setup materialises the case raw: registries into a fresh model, layouts into
// fresh directories (all mtimes aged), the import tar into the scratch dir.
func Setup(c Case) (*World, error) {
	root, err := os.MkdirTemp("", "c19-")
	if err != nil {
		return nil, err
	}
	if r2, err := filepath.EvalSymlinks(root); err == nil {
		root = r2
	}
	w := &World{C: c, Root: root, LayRoot: filepath.Join(root, "lay"), Scratch: filepath.Join(root, "scratch"),
		Model: rm.New(), Hosts: map[string]*rm.Host{}}
	for _, d := range []string{w.LayRoot, w.Scratch} {
		if err := os.MkdirAll(d, 0o777); err != nil {
			return w, err
		}
	}
	w.Model.Cap = 20000
	for _, hc := range c.Hosts {
		h := w.Model.AddHost(hc.Name)
		h.Feat = rm.Features{MountGrant: true, TagDelete: hc.TagDelete, Referrers: hc.Referrers, TagPage: hc.TagPage,
			CatalogPage: hc.CatalogPage, HeadNoDigest: hc.HeadNoDigest, ValidateManifest: hc.ValidateManifest}
		w.Hosts[hc.Name] = h
		if hc.User != "" {
			want := "Basic " + base64.StdEncoding.EncodeToString([]byte(hc.User+":"+hc.Pass))
			h.Intercept = func(m *rm.Model, h *rm.Host, e *rm.Entry, req *http.Request) *rm.Resp {
				if req.Header.Get("Authorization") == want {
					return nil
				}
				return &rm.Resp{Status: 401, TruncateAt: -1, Body: []byte(`{"errors":[{"code":"UNAUTHORIZED","message":"authentication required"}]}`),
					Header: http.Header{"Www-Authenticate": {`Basic realm="c19"`}, "Content-Type": {"application/json"}}}
			}
		}
	}
	w.Hosts[ProbeHost] = w.Model.AddHost(ProbeHost)
	for _, p := range c.Places {
		if p.Graph < 0 || p.Graph >= len(c.Graphs) || c.Graphs[p.Graph] == nil {
			return w, fmt.Errorf("place %v names graph %d of %d", p, p.Graph, len(c.Graphs))
		}
		g := c.Graphs[p.Graph]
		switch p.Kind {
		case "reg":
			h := w.Hosts[p.Host]
			if h == nil {
				return w, fmt.Errorf("place %v names unknown host", p)
			}
			g.PutRegistry(h, p.Repo, !h.Feat.Referrers, nil)
			canonRegistry(h.Repo(p.Repo))
		case "layout":
			if p.Dir == "" || strings.ContainsAny(p.Dir, "/\\") {
				return w, fmt.Errorf("bad layout dir %q", p.Dir)
			}
			if err := g.PutLayout(filepath.Join(w.LayRoot, p.Dir), canonLayout(), nil); err != nil {
				return w, err
			}
		default:
			return w, fmt.Errorf("bad place kind %q", p.Kind)
		}
	}
	tb, err := ImportTar()
	if err != nil {
		return w, fmt.Errorf("import tar: %w", err)
	}
	if err := os.WriteFile(filepath.Join(w.Scratch, "import.tar"), tb, 0o666); err != nil {
		return w, err
	}
	if err := os.WriteFile(filepath.Join(w.Scratch, "garbage.tar"), []byte("this is not a tar archive\n"), 0o666); err != nil {
		return w, err
	}
	return w, w.Age()
}

// Age sets every mtime below LayRoot to a fixed old instant, so that any later
// write (even one that stores identical bytes) is visible in a snapshot.
func (w *World) Age() error {
	return filepath.WalkDir(w.LayRoot, func(p string, d fs.DirEntry, err error) error {
		if err != nil {
			return err
		}
		return os.Chtimes(p, oldTime, oldTime)
	})
}

// Transport is the model as seen by the client of this world: the model itself
// plus the rate limit headers of hosts that announce one.
func (w *World) Transport() http.RoundTripper { return worldRT{w} }

type worldRT struct{ w *World }

func (t worldRT) RoundTrip(req *http.Request) (*http.Response, error) {
	resp, err := t.w.Model.RoundTrip(req)
	if err != nil || resp == nil {
		return resp, err
	}
	if (req.Method == "GET" || req.Method == "HEAD") && strings.Contains(req.URL.Path, "/manifests/") {
		for _, hc := range t.w.C.Hosts {
			if hc.Name == req.URL.Host && hc.RateRemain > 0 {
				resp.Header.Set("RateLimit-Limit", "100;w=21600")
				resp.Header.Set("RateLimit-Remaining", fmt.Sprintf("%d;w=21600", hc.RateRemain))
			}
		}
	}
	return resp, nil
}

// Close removes the scratch root.
func (w *World) Close() {
	if w.Root != "" {
		os.RemoveAll(w.Root)
	}
}

// ---------------------------------------------------------------- snapshots

// FileState is one entry of a recursive listing.
type FileState struct {
	Type  string // dir | file | link | other
	Mode  uint32
	Size  int64
	Mtime int64
	Ino   uint64
	Hash  string // files: sha256 of the content; links: the target
}

// Snap is a recursive listing keyed by the path relative to LayRoot.
type Snap map[string]FileState

// Snapshot lists LayRoot recursively. prev (optional) lets unchanged files
// (same size, mtime, inode) reuse their content hash; pass nil for a listing
// that hashes everything.
func (w *World) Snapshot(prev Snap) (Snap, error) {
	out := Snap{}
	err := filepath.WalkDir(w.LayRoot, func(p string, d fs.DirEntry, err error) error {
		if err != nil {
			if os.IsNotExist(err) {
				return nil // removed while walking (concurrent scripts)
			}
			return err
		}
		rel, _ := filepath.Rel(w.LayRoot, p)
		fi, err := os.Lstat(p)
		if err != nil {
			if os.IsNotExist(err) {
				return nil
			}
			return err
		}
		st := FileState{Mode: uint32(fi.Mode().Perm()), Size: fi.Size(), Mtime: fi.ModTime().UnixNano()}
		if sys, ok := fi.Sys().(*syscall.Stat_t); ok {
			st.Ino = sys.Ino
		}
		switch {
		case fi.Mode().IsDir():
			st.Type = "dir"
			st.Size = 0
		case fi.Mode().IsRegular():
			st.Type = "file"
			if o, ok := prev[rel]; ok && o.Type == "file" && o.Size == st.Size && o.Mtime == st.Mtime && o.Ino == st.Ino {
				st.Hash = o.Hash
			} else {
				b, err := os.ReadFile(p)
				if err != nil {
					if os.IsNotExist(err) {
						return nil
					}
					return err
				}
				s := sha256.Sum256(b)
				st.Hash = hex.EncodeToString(s[:])
			}
		case fi.Mode()&os.ModeSymlink != 0:
			st.Type = "link"
			st.Hash, _ = os.Readlink(p)
		default:
			st.Type = "other"
		}
		out[rel] = st
		return nil
	})
	return out, err
}

// Change is one difference between two listings.
type Change struct {
	Path string
	What string // created | removed | content-modified | rewritten-identical | metadata-changed
	Det  string
}

// Diff compares two listings. A directory whose only difference is its mtime
// is reported only when no entry below it was created or removed (otherwise it
// is the same event).
func Diff(a, b Snap) []Change {
	var out []Change
	paths := map[string]bool{}
	for p := range a {
		paths[p] = true
	}
	for p := range b {
		paths[p] = true
	}
	keys := make([]string, 0, len(paths))
	for p := range paths {
		keys = append(keys, p)
	}
	sort.Strings(keys)
	structural := map[string]bool{} // directories with a created/removed child
	for _, p := range keys {
		_, inA := a[p]
		_, inB := b[p]
		if inA != inB {
			structural[filepath.Dir(p)] = true
		}
	}
	for _, p := range keys {
		x, inA := a[p]
		y, inB := b[p]
		switch {
		case !inA:
			out = append(out, Change{p, "created", fmt.Sprintf("%s size=%d", y.Type, y.Size)})
		case !inB:
			out = append(out, Change{p, "removed", fmt.Sprintf("%s size=%d", x.Type, x.Size)})
		case x.Type != y.Type:
			out = append(out, Change{p, "content-modified", x.Type + " -> " + y.Type})
		case x.Type == "dir":
			if p == "." && x.Mode == y.Mode {
				// the directory that holds the layouts is not itself a layout: a layout
				// directory created / removed below it is reported as such
				continue
			}
			if x.Mode != y.Mode {
				out = append(out, Change{p, "metadata-changed", fmt.Sprintf("mode %o -> %o", x.Mode, y.Mode)})
			} else if x.Mtime != y.Mtime && !structural[p] {
				out = append(out, Change{p, "metadata-changed", "directory mtime changed"})
			}
		case x.Hash != y.Hash || x.Size != y.Size:
			out = append(out, Change{p, "content-modified", fmt.Sprintf("size %d -> %d", x.Size, y.Size)})
		case x.Mtime != y.Mtime || x.Ino != y.Ino:
			out = append(out, Change{p, "rewritten-identical", "same bytes, new mtime/inode"})
		case x.Mode != y.Mode:
			out = append(out, Change{p, "metadata-changed", fmt.Sprintf("mode %o -> %o", x.Mode, y.Mode)})
		}
	}
	return out
}

// LayoutOf returns the first path component (the layout directory name).
func LayoutOf(rel string) string {
	if i := strings.IndexByte(rel, filepath.Separator); i >= 0 {
		return rel[:i]
	}
	return rel
}

// ---------------------------------------------------------------- registry state

// RegState is a canonical rendering of every registry host's raw storage.
func (w *World) RegState() string {
	w.Model.Lock()
	defer w.Model.Unlock()
	var sb strings.Builder
	hs := make([]string, 0, len(w.Hosts))
	for n := range w.Hosts {
		hs = append(hs, n)
	}
	sort.Strings(hs)
	for _, hn := range hs {
		h := w.Hosts[hn]
		rs := make([]string, 0, len(h.Repos))
		for r := range h.Repos {
			rs = append(rs, r)
		}
		sort.Strings(rs)
		fmt.Fprintf(&sb, "host %s uploads=%d\n", hn, len(h.Uploads))
		for _, rn := range rs {
			r := h.Repos[rn]
			fmt.Fprintf(&sb, " repo %s\n", rn)
			for _, d := range sortedKeys(r.Blobs) {
				fmt.Fprintf(&sb, "  blob %s %d\n", d, len(r.Blobs[d]))
			}
			for _, d := range sortedKeys(r.Manifests) {
				s := sha256.Sum256(r.Manifests[d].Body)
				fmt.Fprintf(&sb, "  manifest %s %s %x\n", d, r.Manifests[d].MediaType, s[:6])
			}
			for _, t := range sortedKeys(r.Tags) {
				fmt.Fprintf(&sb, "  tag %s %s\n", t, r.Tags[t])
			}
		}
	}
	return sb.String()
}

func sortedKeys[V any](m map[string]V) []string {
	out := make([]string, 0, len(m))
	for k := range m {
		out = append(out, k)
	}
	sort.Strings(out)
	return out
}

// ---------------------------------------------------------------- import tar

var (
	tarOnce  sync.Once
	tarBytes []byte
	tarErr   error
)

// ImportManifestDigest is the digest of the image manifest inside the import tar.
var ImportManifestDigest = func() string { _, _, man := importImage(); return rm.Digest("sha256", man) }()

func importImage() (layer, cfg, man []byte) {
	layer = []byte("c19 import layer bytes (opaque to export/import)")
	ld := rm.Digest("sha256", layer)
	cfg = []byte(`{"architecture":"amd64","os":"linux","config":{"Env":["C19=import"]},"rootfs":{"type":"layers","diff_ids":["` + ld + `"]}}`)
	cd := rm.Digest("sha256", cfg)
	man = []byte(fmt.Sprintf(`{"schemaVersion":2,"mediaType":%q,"config":{"mediaType":%q,"digest":%q,"size":%d},"layers":[{"mediaType":%q,"digest":%q,"size":%d}]}`,
		rm.MTOCIManifest, rm.MTOCIConfig, cd, len(cfg), rm.MTOCILayerGzip, ld, len(layer)))
	return
}

// ImportTar returns (building it once per process with ImageExport from a
// private model registry) the archive that image.importTar statements read.
func ImportTar() ([]byte, error) {
	tarOnce.Do(func() {
		m := rm.New()
		h := m.AddHost("setup.example.test")
		r := h.Repo("img")
		layer, cfg, man := importImage()
		ld, cd := rm.Digest("sha256", layer), rm.Digest("sha256", cfg)
		md := rm.Digest("sha256", man)
		r.Blobs[ld], r.Blobs[cd] = layer, cfg
		r.Manifests[md] = &rm.Manifest{MediaType: rm.MTOCIManifest, Body: man}
		r.Tags["imp"] = md
		rc := rcutil.New(m, rcutil.Conf{})
		rf, err := ref.New("setup.example.test/img:imp")
		if err != nil {
			tarErr = err
			return
		}
		var buf bytes.Buffer
		ctx, cancel := context.WithTimeout(context.Background(), 60*time.Second)
		defer cancel()
		if err := rc.ImageExport(ctx, rf, &buf); err != nil {
			tarErr = err
			return
		}
		tarBytes = buf.Bytes()
	})
	return tarBytes, tarErr
}
