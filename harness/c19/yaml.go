package c19

import (
	"context"
	"encoding/json"
	"fmt"
	"log/slog"
	"sort"
	"strings"

	"github.com/regclient/regclient/cmd/regbot/sandbox"
)

// ConfigYAML renders the regbot configuration file of the case. addr maps a
// model host name to the loopback address that serves it.
func ConfigYAML(c Case, root string, addr map[string]string) string {
	var sb strings.Builder
	str := func(s string) string {
		b, _ := json.Marshal(s) // a JSON string is a valid YAML double-quoted scalar
		return string(b)
	}
	sb.WriteString("version: 1\ncreds:\n")
	names := make([]string, 0, len(addr))
	for n := range addr {
		names = append(names, n)
	}
	sort.Strings(names)
	for _, n := range names {
		fmt.Fprintf(&sb, "  - registry: %s\n    hostname: %s\n    tls: disabled\n", n, str(addr[n]))
	}
	sb.WriteString("defaults:\n")
	if c.Parallel != 0 {
		fmt.Fprintf(&sb, "  parallel: %d\n", c.Parallel)
	}
	if c.DefTimeout != "" {
		fmt.Fprintf(&sb, "  timeout: %s\n", c.DefTimeout)
	}
	sb.WriteString("  skipDockerConfig: true\n")
	sb.WriteString("scripts:\n")
	for i, s := range c.Scripts {
		fmt.Fprintf(&sb, "  - name: %s\n", str(s.Name))
		if s.Timeout != "" {
			fmt.Fprintf(&sb, "    timeout: %s\n", s.Timeout)
		}
		lua := c.Render(i, root)
		if c.YAMLStyle == 1 {
			fmt.Fprintf(&sb, "    script: %s\n", str(lua))
		} else {
			sb.WriteString("    script: |\n")
			for _, l := range strings.Split(strings.TrimRight(lua, "\n"), "\n") {
				if l == "" {
					sb.WriteString("\n")
				} else {
					sb.WriteString("      " + l + "\n")
				}
			}
		}
	}
	return sb.String()
}

// EnumBindings asks a live sandbox which Lua functions it registered.
func EnumBindings() ([]string, error) {
	h, get := NewCapHandler(slog.LevelInfo)
	sb := sandbox.New("enum", sandbox.WithContext(context.Background()), sandbox.WithSlog(slog.New(h)))
	defer sb.Close()
	if err := sb.RunScript(EnumScript); err != nil {
		return nil, err
	}
	var out []string
	for _, r := range get() {
		if m := r.Attrs["message"]; strings.HasPrefix(m, "C19ENUM ") {
			out = append(out, strings.TrimPrefix(m, "C19ENUM "))
		}
	}
	sort.Strings(out)
	return out, nil
}
