package c19

import (
	"context"
	"encoding/json"
	"fmt"
	"log/slog"
	"sort"
	"strings"

	"github.com/regclient/regclient/cmd/regbot/sandbox"
)

// ConfigYAML renders the regbot configuration file of the case. addr maps a
// model host name to the loopback address that serves it.
func ConfigYAML(c Case, root string, addr map[string]string) string {
	var sb strings.Builder
	str := func(s string) string {
		b, _ := json.Marshal(s) // a JSON string is a valid YAML double-quoted scalar
		return string(b)
	}
	if c.Conf.XExt {
		sb.WriteString("x-c19-sched: &c19sched \"15 01 * * *\"\nx-note: {owner: c19, list: [1, 2]}\n")
	}
	if !c.Conf.NoVersion {
		sb.WriteString("version: 1\n")
	}
	sb.WriteString("creds:\n")
	names := make([]string, 0, len(addr))
	for n := range addr {
		names = append(names, n)
	}
	sort.Strings(names)
	for _, n := range names {
		fmt.Fprintf(&sb, "  - registry: %s\n    hostname: %s\n    tls: disabled\n", n, str(addr[n]))
		for _, hc := range c.Hosts {
			if hc.Name == n && hc.User != "" {
				fmt.Fprintf(&sb, "    user: %s\n    pass: %s\n", str(hc.User), str(hc.Pass))
			}
		}
		if c.Conf.CredExtras && n != ProbeHost {
			sb.WriteString("    repoAuth: false\n    blobChunk: 1048576\n    blobMax: -1\n    priority: 5\n")
		}
	}
	sb.WriteString("defaults:\n")
	if c.Parallel != 0 {
		fmt.Fprintf(&sb, "  parallel: %d\n", c.Parallel)
	}
	if c.DefTimeout != "" {
		fmt.Fprintf(&sb, "  timeout: %s\n", c.DefTimeout)
	}
	if !c.Conf.LoadDockerConf {
		sb.WriteString("  skipDockerConfig: true\n")
	}
	if c.Conf.UserAgent != "" {
		fmt.Fprintf(&sb, "  userAgent: %s\n", str(c.Conf.UserAgent))
	}
	if c.Conf.BlobLimit != 0 {
		fmt.Fprintf(&sb, "  blobLimit: %d\n", c.Conf.BlobLimit)
	}
	switch c.Conf.Sched {
	case 1:
		sb.WriteString("  interval: 60m\n")
	case 2:
		if c.Conf.XExt {
			sb.WriteString("  schedule: *c19sched\n")
		} else {
			sb.WriteString("  schedule: \"15 3 * * *\"\n")
		}
	}
	sb.WriteString("scripts:\n")
	for i, s := range c.Scripts {
		fmt.Fprintf(&sb, "  - name: %s\n", str(s.Name))
		if s.Timeout != "" {
			fmt.Fprintf(&sb, "    timeout: %s\n", s.Timeout)
		}
		if c.Conf.Sched == 1 && i%2 == 0 {
			sb.WriteString("    interval: 12h\n")
		}
		if c.Conf.Sched == 2 && i%2 == 1 {
			sb.WriteString("    schedule: \"0 * * * *\"\n")
		}
		lua := c.Render(i, root)
		if c.YAMLStyle == 1 || lua == "" {
			fmt.Fprintf(&sb, "    script: %s\n", str(lua))
		} else {
			sb.WriteString("    script: |\n")
			for _, l := range strings.Split(strings.TrimRight(lua, "\n"), "\n") {
				if l == "" {
					sb.WriteString("\n")
				} else {
					sb.WriteString("      " + l + "\n")
				}
			}
		}
	}
	return sb.String()
}

// EnumBindings asks a live sandbox which Lua functions it registered.
func EnumBindings() ([]string, error) {
	h, get := NewCapHandler(slog.LevelInfo)
	sb := sandbox.New("enum", sandbox.WithContext(context.Background()), sandbox.WithSlog(slog.New(h)))
	defer sb.Close()
	if err := sb.RunScript(EnumScript); err != nil {
		return nil, err
	}
	var out []string
	for _, r := range get() {
		if m := r.Attrs["message"]; strings.HasPrefix(m, "C19ENUM ") {
			out = append(out, strings.TrimPrefix(m, "C19ENUM "))
		}
	}
	sort.Strings(out)
	return out, nil
}
