package c19

import "fmt"

// The mutating bindings, with every argument kind each of them accepts (or
// could accept: the Go side looks at the Lua type / userdata type of each
// argument). Every choice is recorded as an "arg:" histogram label.

func (b *body) arg(format string, a ...any) {
	b.args = append(b.args, b.mut+":"+fmt.Sprintf(format, a...))
}

func otherHost(h string) string {
	if h == HostA {
		return HostB
	}
	return HostA
}

// tgtFor renders where a writing call points, relative to src (the place the
// content / source image was looked up in; nil = none): the same repository, a
// different repository on the same registry, the other registry, a layout, a
// repository / layout directory that does not exist yet, a reference without
// tag. The reference then comes in every form the sandbox accepts: tag only,
// digest only, tag+digest - the digest being the one of the content that is
// written (g.match, when the caller knows it) or a different one - each as a
// string, a reference object, an object built with :tag() / :digest(), or an
// object derived from another reference's :tag() / :digest().
func (g *sgen) tgtFor(b *body, src *placeInfo, label string, forceStr bool) string {
	cs := &b.calls
	newTag := fmt.Sprintf("w%d-%d", g.si, g.k)
	other := func() *placeInfo {
		var cand []int
		for _, i := range g.usable {
			if src == nil || g.infos[i].p != src.p {
				cand = append(cand, i)
			}
		}
		if len(cand) == 0 {
			return nil
		}
		pi := g.infos[cand[g.draw(len(cand), label+"_o")]]
		return &pi
	}
	relation := func(t *placeInfo) string {
		switch {
		case t.p.Kind == "layout":
			return "other-layout"
		case src == nil || src.p.Kind == "layout":
			return "registry-repo"
		case src.p.Host == t.p.Host:
			return "other-repo-same-registry"
		default:
			return "other-registry"
		}
	}
	host := HostA
	if src != nil && src.p.Kind == "reg" {
		host = src.p.Host
	}
	if !forceStr && g.k > 0 && g.match == "" && g.draw(12, label+"_global") == 0 {
		b.arg("target=reference-left-by-earlier-statement")
		p := g.place("", label+"_gp")
		return "(G_r or " + q(p.p.Base()+":"+newTag) + ")"
	}
	var base, tag string
	var tp *placeInfo // the existing place the target is in (nil = new repository / layout)
	cls := g.draw(12, label+"_cls")
	switch {
	case cls < 2 && src != nil:
		b.arg("target=same-repo-new-tag")
		base, tag, tp = src.p.Base(), newTag, src
	case cls < 3 && src != nil:
		b.arg("target=same-repo-existing-tag")
		base, tag, tp = src.p.Base(), g.pick(src.tags, label+"_t", "v1"), src
	case cls < 7 && other() != nil:
		t := other()
		tp = t
		if g.draw(4, label+"_ex") == 0 {
			b.arg("target=%s-existing-tag", relation(t))
			base, tag = t.p.Base(), g.pick(t.tags, label+"_t", "v1")
		} else {
			b.arg("target=%s-new-tag", relation(t))
			base, tag = t.p.Base(), newTag
		}
	case cls < 8:
		b.arg("target=new-repo-same-registry")
		base, tag = host+"/"+fmt.Sprintf("new%d/r%d", g.si, g.k), "t"
	case cls < 9:
		b.arg("target=new-repo-other-registry")
		base, tag = otherHost(host)+"/"+fmt.Sprintf("new%d/r%d", g.si, g.k), "t"
	case cls < 11:
		b.arg("target=new-layout-directory")
		base, tag = "ocidir://"+RootToken+"/lay/"+fmt.Sprintf("new%d-%d", g.si, g.k), "t"
	default:
		t := g.place("", label+"_nt")
		tp = &t
		b.arg("target=no-tag")
		base, tag = t.p.Base(), ""
	}
	if len(base) > 9 && base[:9] == "ocidir://" {
		b.arg("target-scheme=ocidir")
	} else {
		b.arg("target-scheme=registry")
	}
	// digest decoration
	dig := ""
	x := g.draw(20, label+"_dg")
	if g.forceMatch && g.match != "" {
		x = 12 + g.draw(4, label+"_dgm")
	}
	switch {
	case x < 12:
		b.arg("target-digest=none")
	case x < 16:
		if d512, ok := Canon512[g.match]; ok && g.draw(5, label+"_512") == 0 {
			dig = d512
			b.arg("target-digest=matching-sha512")
		} else if g.match != "" {
			dig = g.match
			b.arg("target-digest=%s", g.matchName())
		} else {
			dig = Canon.Man1D
			if tp != nil {
				dig = g.pick(tp.mans, label+"_od", Canon.Man1D)
			}
			b.arg("target-digest=of-some-manifest")
		}
	case x < 18:
		dig = bogusDigest
		if tp != nil && g.chance(50, label+"_mm") {
			dig = g.pick(tp.mans, label+"_od", bogusDigest) // exists at the target, names other content
			if dig == g.match {
				dig = bogusDigest
			}
		}
		b.arg("target-digest=mismatching")
	default:
		dig = "sha256:not-a-digest"
		if g.match != "" && g.chance(50, label+"_512") {
			dig = g.match // kept valid half of the time, with the tag dropped below
		}
		if dig == g.match {
			b.arg("target-digest=%s", g.matchName())
		} else {
			b.arg("target-digest=malformed")
		}
	}
	if dig != "" {
		if tag == "" || x%2 == 0 {
			tag = ""
			b.arg("target-form=digest-only")
		} else {
			b.arg("target-form=tag+digest")
		}
	} else if tag != "" {
		b.arg("target-form=tag-only")
	}
	return g.refExpr(base, tag, dig, forceStr, label, cs)
}

func (g *sgen) matchName() string {
	if g.matchLabel != "" {
		return g.matchLabel
	}
	return "matching"
}

// junk is a value of a type no binding accepts.
func (g *sgen) junk(label string) (lua, name string) {
	switch g.draw(4, label) {
	case 0:
		return "nil", "nil"
	case 1:
		return "42", "number"
	case 2:
		return "{}", "table"
	default:
		return "true", "boolean"
	}
}

func (g *sgen) blobPutBody() *body {
	b := &body{kind: "blob.put", mut: "blob.put"}
	cs := &b.calls
	pi := g.place("", "spl") // where blob / config / manifest content is looked up
	d := g.pick(pi.blobs, "dig", bogusDigest)
	if g.draw(12, "bogus") == 0 {
		d = bogusDigest
	}
	// the two ways of naming the blob to look up
	lookup := func(fn string) string {
		if g.chance(30, "lk") {
			return fmt.Sprintf("blob.%s(%s)", fn, g.refExpr(pi.p.Base(), "", d, false, "lref", cs))
		}
		return fmt.Sprintf("blob.%s(%s, %s)", fn, g.refExpr(pi.p.Base(), g.pick([]string{"", "v1"}, "lt", ""), "", false, "lref", cs), q(d))
	}
	g.match, g.matchLabel = d, "blob-digest"
	text := q(fmt.Sprintf("c19 content %d %d", g.si, g.k))
	result := `log("blob put " .. tostring(d) .. " " .. tostring(n))`
	switch x := g.draw(20, "content"); {
	case x < 3:
		b.arg("content=string,ref=string")
		b.add("local d, n = blob.put(%s, %s)", g.tgtFor(b, &pi, "tgt", true), text)
		b.call("blob.put")
	case x < 4:
		b.arg("content=string,ref=object")
		b.add("local d, n = blob.put(%s, %s)", g.tgtFor(b, &pi, "tgt", false), text)
		b.call("blob.put")
	case x < 7:
		fn := "get"
		if !g.canBlobGet(pi) {
			fn = "head"
		}
		b.arg("content=blob-from-blob.%s", fn)
		b.add("local b = %s", lookup(fn))
		b.add("local d, n = blob.put(%s, b)", g.tgtFor(b, &pi, "tgt", false))
		b.call("blob."+fn, "blob.put")
	case x < 11:
		b.arg("content=blob-from-blob.head")
		if g.chance(50, "inline") {
			b.add("local d, n = blob.put(%s, %s)", g.tgtFor(b, &pi, "tgt", false), lookup("head"))
		} else {
			b.add("local b = %s", lookup("head"))
			b.add("local d, n = blob.put(%s, b)", g.tgtFor(b, &pi, "tgt", false))
		}
		b.call("blob.head", "blob.put")
	case x < 13:
		b.arg("content=config-object")
		b.add("local c = image.config(%s)", g.refExpr(pi.p.Base(), g.tagOf(pi, "ct"), "", false, "cref", cs))
		if g.chance(30, "exp") {
			b.add("c = c:export()")
			b.call("imageconfig:export")
		}
		b.add("local d, n = blob.put(%s, c)", g.tgtFor(b, &pi, "tgt", false))
		b.call("image.config", "blob.put")
	case x < 14:
		b.arg("content=manifest-object")
		b.add("local m = manifest.get(%s)", g.refExpr(pi.p.Base(), g.tagOf(pi, "mt"), "", false, "mref", cs))
		b.add("local d, n = blob.put(%s, m)", g.tgtFor(b, &pi, "tgt", false))
		b.call("manifest.get", "blob.put")
	case x < 15:
		b.arg("content=reference-object")
		b.add("local d, n = blob.put(%s, reference.new(%s))", g.tgtFor(b, &pi, "tgt", false), q(pi.p.Base()+"@"+d))
		b.call("reference.new", "blob.put")
	case x < 16:
		j, name := g.junk("junk")
		b.arg("content=%s", name)
		b.add("local d, n = blob.put(%s, %s)", g.tgtFor(b, &pi, "tgt", g.chance(50, "fs")), j)
		b.call("blob.put")
	case x < 17:
		b.arg("content=missing")
		b.add("local d, n = blob.put(%s)", g.tgtFor(b, &pi, "tgt", false))
		b.call("blob.put")
	default:
		// the documented method form <blob>:put <content>
		fn := g.pick([]string{"head", "head", "get"}, "bfn", "head")
		if fn == "get" && !g.canBlobGet(pi) {
			fn = "head"
		}
		b.add("local b = %s", lookup(fn))
		switch g.draw(3, "marg") {
		case 0:
			b.arg("method-form,blob-from-blob.%s,arg=target-ref", fn)
			b.add("local d, n = b:put(%s)", g.tgtFor(b, &pi, "tgt", false))
		case 1:
			b.arg("method-form,blob-from-blob.%s,arg=string", fn)
			b.add("local d, n = b:put(%s)", text)
		default:
			b.arg("method-form,blob-from-blob.%s,arg=target-ref+blob", fn)
			b.add("local d, n = b.put(%s, b)", g.tgtFor(b, &pi, "tgt", false))
		}
		b.call("blob."+fn, "blob:put")
	}
	b.add(result)
	return b
}

func (g *sgen) manifestPutBody() *body {
	b := &body{kind: "manifest.put", mut: "manifest.put"}
	cs := &b.calls
	pi := g.place("", "spl")
	tag := g.tagOf(pi, "st")
	if g.chance(35, "list") {
		tag = g.pick(pi.listTags, "lt", tag)
	}
	src := g.refExpr(pi.p.Base(), tag, "", false, "src", cs)
	method := false // m:put(tgt) instead of manifest.put(m, tgt)
	m := "m"
	g.match, g.matchLabel = pi.tagDig[tag], "source-manifest-digest"
	if g.chance(24, "canonical") {
		// content whose digest survives the sandbox's re-marshalling (canon.go), put
		// to a reference that carries exactly that digest
		var fn string
		switch g.draw(4, "ck") {
		case 0:
			fn = g.pick([]string{"manifest.get", "manifest.getList", "image.manifest", "image.manifestList"}, "cfn", "manifest.get")
			src = g.refExpr(pi.p.Base(), "canon", "", false, "csrc", cs)
			g.match = Canon.Man1D
		case 1:
			fn = g.pick([]string{"manifest.getList", "image.manifestList"}, "cfn", "manifest.getList")
			src = g.refExpr(pi.p.Base(), "canonlist", "", false, "csrc", cs)
			g.match = Canon.IndexD
		case 2:
			fn = g.pick([]string{"manifest.get", "manifest.getList"}, "cfn", "manifest.get")
			src = g.refExpr(pi.p.Base(), "", Canon.Man2D, false, "csrc", cs)
			g.match = Canon.Man2D
		default:
			fn = "manifest.get" // resolves this machine's platform (linux/amd64) out of the list
			src = g.refExpr(pi.p.Base(), "canonlist", "", false, "csrc", cs) + ", \"linux/amd64\""
			g.match = Canon.Man1D
		}
		g.matchLabel, g.forceMatch = "matching", true
		b.arg("manifest=canonical-from-%s", fn)
		b.add("local m = %s(%s)", fn, src)
		b.call(fn)
		if g.chance(45, "meth") {
			b.arg("form=method")
			b.add("m:put(%s)", g.tgtFor(b, &pi, "tgt", false))
			b.call("manifest:put")
		} else {
			b.arg("form=function")
			b.add("manifest.put(m, %s)", g.tgtFor(b, &pi, "tgt", false))
			b.call("manifest.put")
		}
		b.add(`log("manifest put")`)
		return b
	}
	switch x := g.draw(20, "mkind"); {
	case x < 2:
		b.arg("manifest=from-manifest.get")
		b.add("local m = manifest.get(%s)", src)
		b.call("manifest.get")
		method = g.chance(40, "meth")
	case x < 3:
		b.arg("manifest=from-manifest.get-with-platform")
		b.add("local m = manifest.get(%s, %s)", src, q(g.pick(platformsLua, "plat", "linux/amd64")))
		b.call("manifest.get")
		method = g.chance(40, "meth")
	case x < 6:
		b.arg("manifest=from-manifest.getList")
		b.add("local m = manifest.getList(%s)", src)
		b.call("manifest.getList")
		method = g.chance(40, "meth")
	case x < 8:
		fn := g.pick([]string{"manifest.head", "image.manifestHead"}, "hfn", "manifest.head")
		b.arg("manifest=from-head-request")
		b.add("local m = %s(%s)", fn, src)
		b.call(fn)
		method = g.chance(40, "meth")
	case x < 9:
		b.arg("manifest=from-head-then-get")
		b.add("local m = manifest.head(%s):get()", src)
		b.call("manifest.head", "manifest:get")
		method = g.chance(40, "meth")
	case x < 11:
		fn := g.pick([]string{"manifest", "manifestList"}, "ifn", "manifest")
		b.arg("manifest=from-image.%s", fn)
		b.add("local m = image.%s(%s)", fn, src)
		b.call("image." + fn)
		method = g.chance(40, "meth")
	case x < 13:
		b.arg("manifest=exported-after-edit")
		b.add("local m0 = manifest.getList(%s)", src)
		b.add(`if m0.annotations then m0.annotations["org.example.c19"] = "put" end`)
		b.add(`if m0.layers and m0.layers[1] then m0.layers[1].annotations = {["org.example.c19"] = "put"} end`)
		b.add(`if m0.manifests and m0.manifests[1] then m0.manifests[1].annotations = {["org.example.c19"] = "put"} end`)
		b.add("local m = m0:export()")
		b.call("manifest.getList", "manifest:export")
		method = g.chance(40, "meth")
	case x < 14:
		b.arg("manifest=string-reference")
		m = q(pi.p.Base() + ":" + tag)
	case x < 15:
		b.arg("manifest=reference-object")
		m = "reference.new(" + q(pi.p.Base()+":"+tag) + ")"
		b.call("reference.new")
	case x < 16:
		b.arg("manifest=config-object")
		b.add("local m = image.config(%s)", src)
		b.call("image.config")
	case x < 17 && g.k > 0:
		b.arg("manifest=object-left-by-earlier-statement")
		b.add("local m = G_m or manifest.getList(%s)", src)
		b.call("manifest.getList")
		method = g.chance(40, "meth")
	case x < 18:
		b.arg("manifest=blob-object")
		b.add("local m = blob.head(%s, %s)", q(pi.p.Base()), q(g.pick(pi.blobs, "bd", bogusDigest)))
		b.call("blob.head")
	default:
		j, name := g.junk("junk")
		b.arg("manifest=%s", name)
		m = j
	}
	switch {
	case method:
		b.arg("form=method")
		b.add("%s:put(%s)", m, g.tgtFor(b, &pi, "tgt", false))
		b.call("manifest:put")
	case g.draw(25, "notgt") == 0:
		b.arg("target=missing")
		b.add("manifest.put(%s)", m)
		b.call("manifest.put")
	case g.draw(25, "junktgt") == 0:
		j, name := g.junk("tjunk")
		b.arg("target=%s", name)
		b.add("manifest.put(%s, %s)", m, j)
		b.call("manifest.put")
	default:
		b.arg("form=function")
		b.add("manifest.put(%s, %s)", m, g.tgtFor(b, &pi, "tgt", false))
		b.call("manifest.put")
	}
	b.add(`log("manifest put")`)
	return b
}

func (g *sgen) copyBody() *body {
	b := &body{kind: "image.copy", mut: "image.copy"}
	cs := &b.calls
	pi := g.place("", "spl")
	tag := g.tagOf(pi, "st")
	src := g.refExpr(pi.p.Base(), tag, "", false, "src", cs)
	switch x := g.draw(12, "skind"); {
	case x < 7:
		b.arg("source=reference")
		g.match = pi.tagDig[tag] // a copy keeps the bytes: the target may name the source's digest
	case x < 8:
		b.arg("source=reference-by-digest")
		src = g.refExpr(pi.p.Base(), "", g.pick(pi.mans, "sd", bogusDigest), false, "srcd", cs)
	case x < 10:
		fn := g.pick([]string{"manifest.head", "manifest.getList", "manifest.get"}, "sfn", "manifest.head")
		b.arg("source=manifest-object")
		src = fn + "(" + src + ")"
		b.call(fn)
	case x < 11:
		b.arg("source=config-object")
		src = "image.config(" + src + ")"
		b.call("image.config")
	default:
		j, name := g.junk("sjunk")
		b.arg("source=%s", name)
		src = j
	}
	tgt := g.tgtFor(b, &pi, "tgt", false)
	switch x := g.draw(16, "opts"); {
	case x < 5:
		b.arg("options=none")
		b.add("image.copy(%s, %s)", src, tgt)
	case x < 7:
		b.arg("options=digestTags")
		b.add("image.copy(%s, %s, {digestTags = true})", src, tgt)
	case x < 9:
		b.arg("options=forceRecursive")
		b.add("image.copy(%s, %s, {forceRecursive = true})", src, tgt)
	case x < 10:
		b.arg("options=includeExternal")
		b.add("image.copy(%s, %s, {includeExternal = true})", src, tgt)
	case x < 11:
		b.arg("options=platforms")
		b.add("image.copy(%s, %s, {platforms = {\"linux/amd64\", \"linux/arm64\"}})", src, tgt)
	case x < 12:
		b.arg("options=all")
		b.add("image.copy(%s, %s, {digestTags = true, forceRecursive = true, includeExternal = true, platforms = {\"linux/amd64\"}})", src, tgt)
	case x < 13:
		b.arg("options=empty-table")
		b.add("image.copy(%s, %s, {})", src, tgt)
	case x < 14:
		b.arg("options=unknown-key-and-false")
		b.add("image.copy(%s, %s, {bogus = 1, digestTags = false})", src, tgt)
	case x < 15:
		j, name := g.junk("ojunk")
		if name == "table" {
			j, name = `"digestTags"`, "string"
		}
		b.arg("options=%s", name)
		b.add("image.copy(%s, %s, %s)", src, tgt, j)
	default:
		b.arg("options=wrong-value-types")
		b.add("image.copy(%s, %s, {digestTags = \"yes\", platforms = \"linux/amd64\"})", src, tgt)
	}
	b.add(`log("copied")`)
	b.call("image.copy")
	return b
}

func (g *sgen) tagDeleteBody() *body {
	b := &body{kind: "tag.delete", mut: "tag.delete"}
	cs := &b.calls
	pi := g.place("", "spl")
	tag := g.pick(pi.tags, "t", "v1")
	switch x := g.draw(12, "akind"); {
	case x < 4:
		b.arg("ref=string")
		b.add("tag.delete(%s)", q(pi.p.Base()+":"+tag))
	case x < 7:
		b.arg("ref=reference-object")
		b.add("tag.delete(%s)", g.refExpr(pi.p.Base(), tag, "", false, "ref", cs))
	case x < 8:
		b.arg("ref=by-digest")
		b.add("tag.delete(%s)", g.refExpr(pi.p.Base(), "", g.pick(pi.mans, "d", bogusDigest), false, "ref", cs))
	case x < 9:
		switch g.draw(3, "td") {
		case 0:
			b.arg("ref=no-tag")
			b.add("tag.delete(%s)", g.refExpr(pi.p.Base(), "", "", false, "ref", cs))
		case 1:
			b.arg("ref=tag+digest-matching")
			b.add("tag.delete(%s)", g.refExpr(pi.p.Base(), tag, pi.tagDig[tag], false, "ref", cs))
		default:
			b.arg("ref=tag+digest-mismatching")
			b.add("tag.delete(%s)", g.refExpr(pi.p.Base(), tag, g.pick(pi.mans, "od", bogusDigest), false, "ref", cs))
		}
	case x < 10:
		fn := g.pick([]string{"manifest.head", "manifest.getList"}, "fn", "manifest.head")
		b.arg("ref=manifest-object")
		b.add("tag.delete(%s(%s))", fn, q(pi.p.Base()+":"+tag))
		b.call(fn)
	case x < 11:
		b.arg("ref=missing-tag")
		b.add("tag.delete(%s)", q(pi.p.Base()+":nope"))
	default:
		j, name := g.junk("junk")
		b.arg("ref=%s", name)
		b.add("tag.delete(%s)", j)
	}
	b.add(`log("tag deleted")`)
	b.call("tag.delete")
	return b
}

func (g *sgen) manifestDeleteBody() *body {
	b := &body{kind: "manifest:delete", mut: "manifest:delete"}
	cs := &b.calls
	pi := g.place("", "spl")
	tag := g.tagOf(pi, "st")
	src := g.refExpr(pi.p.Base(), tag, "", false, "src", cs)
	switch g.draw(8, "rform") {
	case 0:
		b.arg("ref=digest-only")
		src = g.refExpr(pi.p.Base(), "", g.pick(pi.mans, "rd", bogusDigest), false, "src", cs)
	case 1:
		b.arg("ref=tag+digest-matching")
		src = g.refExpr(pi.p.Base(), tag, pi.tagDig[tag], false, "src", cs)
	case 2:
		b.arg("ref=tag+digest-mismatching")
		src = g.refExpr(pi.p.Base(), tag, g.pick(pi.mans, "rd", bogusDigest), false, "src", cs)
	default:
		b.arg("ref=tag-only")
	}
	fns := []string{"manifest.head", "manifest.getList", "manifest.get", "image.manifestHead", "image.manifestList", "image.manifest"}
	fn := g.pick(fns, "how", "manifest.head")
	b.add("local m = %s(%s)", fn, src)
	b.call(fn)
	switch x := g.draw(12, "form"); {
	case x < 7:
		b.arg("manifest=from-%s,form=method", fn)
		b.add("m:delete()")
	case x < 8:
		b.arg("manifest=exported,form=method")
		b.add("local m2 = m:export()")
		b.add("m2:delete()")
		b.call("manifest:export")
	case x < 9:
		b.arg("arg=string-reference,form=function")
		b.add("m.delete(%s)", q(pi.p.Base()+":"+g.pick(pi.tags, "t2", "v1")))
	case x < 10:
		b.arg("arg=reference-object,form=function")
		b.add("m.delete(reference.new(%s))", q(pi.p.Base()+":"+g.pick(pi.tags, "t2", "v1")))
		b.call("reference.new")
	case x < 11:
		b.arg("arg=config-object,form=function")
		b.add("m.delete(image.config(%s))", q(pi.p.Base()+":"+g.pick(pi.tags, "t2", "v1")))
		b.call("image.config")
	default:
		j, name := g.junk("junk")
		b.arg("arg=%s,form=function", name)
		b.add("m.delete(%s)", j)
	}
	b.add(`log("manifest deleted")`)
	b.call("manifest:delete")
	return b
}

func (g *sgen) importBody() *body {
	b := &body{kind: "image.importTar", mut: "image.importTar"}
	g.match = ImportManifestDigest
	tgt := g.tgtFor(b, nil, "tgt", false)
	switch x := g.draw(14, "file"); {
	case x < 9:
		b.arg("file=image-tar")
		b.add("image.importTar(%s, %s)", tgt, q(RootToken+"/scratch/import.tar"))
	case x < 10:
		b.arg("file=missing")
		b.add("image.importTar(%s, %s)", tgt, q(RootToken+"/scratch/missing.tar"))
	case x < 11:
		b.arg("file=not-a-tar")
		b.add("image.importTar(%s, %s)", tgt, q(RootToken+"/scratch/garbage.tar"))
	case x < 12:
		b.arg("file=directory")
		b.add("image.importTar(%s, %s)", tgt, q(RootToken+"/scratch"))
	case x < 13:
		b.arg("file=image-tar,extra-argument")
		b.add("image.importTar(%s, %s, {name = \"x\"})", tgt, q(RootToken+"/scratch/import.tar"))
	default:
		j, name := g.junk("junk")
		b.arg("file=%s", name)
		b.add("image.importTar(%s, %s)", tgt, j)
	}
	b.add(`log("imported")`)
	b.call("image.importTar")
	return b
}
