package c19

import "fmt"

// The mutating bindings, with every argument kind each of them accepts (or
// could accept: the Go side looks at the Lua type / userdata type of each
// argument). Every choice is recorded as an "arg:" histogram label.

func (b *body) arg(format string, a ...any) {
	b.args = append(b.args, b.mut+":"+fmt.Sprintf(format, a...))
}

func otherHost(h string) string {
	if h == HostA {
		return HostB
	}
	return HostA
}

// tgtFor renders where a writing call points, relative to src (the place the
// content / source image was looked up in; nil = none): the same repository, a
// different repository on the same registry, the other registry, a layout, a
// repository / layout directory that does not exist yet, a reference without tag.
func (g *sgen) tgtFor(b *body, src *placeInfo, label string, forceStr bool) string {
	cs := &b.calls
	newTag := fmt.Sprintf("w%d-%d", g.si, g.k)
	other := func() *placeInfo {
		var cand []int
		for _, i := range g.usable {
			if src == nil || g.infos[i].p != src.p {
				cand = append(cand, i)
			}
		}
		if len(cand) == 0 {
			return nil
		}
		pi := g.infos[cand[g.draw(len(cand), label+"_o")]]
		return &pi
	}
	relation := func(t *placeInfo) string {
		switch {
		case t.p.Kind == "layout":
			return "other-layout"
		case src == nil || src.p.Kind == "layout":
			return "registry-repo"
		case src.p.Host == t.p.Host:
			return "other-repo-same-registry"
		default:
			return "other-registry"
		}
	}
	host := HostA
	if src != nil && src.p.Kind == "reg" {
		host = src.p.Host
	}
	if !forceStr && g.k > 0 && g.draw(12, label+"_global") == 0 {
		b.arg("target=reference-left-by-earlier-statement")
		p := g.place("", label+"_gp")
		return "(G_r or " + q(p.p.Base()+":"+newTag) + ")"
	}
	cls := g.draw(12, label+"_cls")
	switch {
	case cls < 2 && src != nil:
		b.arg("target=same-repo-new-tag")
		return g.refExpr(src.p.Base(), newTag, "", forceStr, label, cs)
	case cls < 3 && src != nil:
		b.arg("target=same-repo-existing-tag")
		return g.refExpr(src.p.Base(), g.pick(src.tags, label+"_t", "v1"), "", forceStr, label, cs)
	case cls < 7:
		if t := other(); t != nil {
			if g.draw(4, label+"_ex") == 0 {
				b.arg("target=%s-existing-tag", relation(t))
				return g.refExpr(t.p.Base(), g.pick(t.tags, label+"_t", "v1"), "", forceStr, label, cs)
			}
			b.arg("target=%s-new-tag", relation(t))
			return g.refExpr(t.p.Base(), newTag, "", forceStr, label, cs)
		}
		fallthrough
	case cls < 8:
		b.arg("target=new-repo-same-registry")
		return g.refExpr(host+"/"+fmt.Sprintf("new%d/r%d", g.si, g.k), "t", "", forceStr, label, cs)
	case cls < 9:
		b.arg("target=new-repo-other-registry")
		return g.refExpr(otherHost(host)+"/"+fmt.Sprintf("new%d/r%d", g.si, g.k), "t", "", forceStr, label, cs)
	case cls < 11:
		b.arg("target=new-layout-directory")
		return g.refExpr("ocidir://"+RootToken+"/lay/"+fmt.Sprintf("new%d-%d", g.si, g.k), "t", "", forceStr, label, cs)
	default:
		t := g.place("", label+"_nt")
		b.arg("target=no-tag")
		return g.refExpr(t.p.Base(), "", "", forceStr, label, cs)
	}
}

// junk is a value of a type no binding accepts.
func (g *sgen) junk(label string) (lua, name string) {
	switch g.draw(4, label) {
	case 0:
		return "nil", "nil"
	case 1:
		return "42", "number"
	case 2:
		return "{}", "table"
	default:
		return "true", "boolean"
	}
}

func (g *sgen) blobPutBody() *body {
	b := &body{kind: "blob.put", mut: "blob.put"}
	cs := &b.calls
	pi := g.place("", "spl") // where blob / config / manifest content is looked up
	d := g.pick(pi.blobs, "dig", bogusDigest)
	if g.draw(12, "bogus") == 0 {
		d = bogusDigest
	}
	// the two ways of naming the blob to look up
	lookup := func(fn string) string {
		if g.chance(30, "lk") {
			return fmt.Sprintf("blob.%s(%s)", fn, g.refExpr(pi.p.Base(), "", d, false, "lref", cs))
		}
		return fmt.Sprintf("blob.%s(%s, %s)", fn, g.refExpr(pi.p.Base(), g.pick([]string{"", "v1"}, "lt", ""), "", false, "lref", cs), q(d))
	}
	text := q(fmt.Sprintf("c19 content %d %d", g.si, g.k))
	result := `log("blob put " .. tostring(d) .. " " .. tostring(n))`
	switch x := g.draw(20, "content"); {
	case x < 3:
		b.arg("content=string,ref=string")
		b.add("local d, n = blob.put(%s, %s)", g.tgtFor(b, &pi, "tgt", true), text)
		b.call("blob.put")
	case x < 4:
		b.arg("content=string,ref=object")
		b.add("local d, n = blob.put(%s, %s)", g.tgtFor(b, &pi, "tgt", false), text)
		b.call("blob.put")
	case x < 7:
		fn := "get"
		if !g.canBlobGet(pi) {
			fn = "head"
		}
		b.arg("content=blob-from-blob.%s", fn)
		b.add("local b = %s", lookup(fn))
		b.add("local d, n = blob.put(%s, b)", g.tgtFor(b, &pi, "tgt", false))
		b.call("blob."+fn, "blob.put")
	case x < 11:
		b.arg("content=blob-from-blob.head")
		if g.chance(50, "inline") {
			b.add("local d, n = blob.put(%s, %s)", g.tgtFor(b, &pi, "tgt", false), lookup("head"))
		} else {
			b.add("local b = %s", lookup("head"))
			b.add("local d, n = blob.put(%s, b)", g.tgtFor(b, &pi, "tgt", false))
		}
		b.call("blob.head", "blob.put")
	case x < 13:
		b.arg("content=config-object")
		b.add("local c = image.config(%s)", g.refExpr(pi.p.Base(), g.tagOf(pi, "ct"), "", false, "cref", cs))
		if g.chance(30, "exp") {
			b.add("c = c:export()")
			b.call("imageconfig:export")
		}
		b.add("local d, n = blob.put(%s, c)", g.tgtFor(b, &pi, "tgt", false))
		b.call("image.config", "blob.put")
	case x < 14:
		b.arg("content=manifest-object")
		b.add("local m = manifest.get(%s)", g.refExpr(pi.p.Base(), g.tagOf(pi, "mt"), "", false, "mref", cs))
		b.add("local d, n = blob.put(%s, m)", g.tgtFor(b, &pi, "tgt", false))
		b.call("manifest.get", "blob.put")
	case x < 15:
		b.arg("content=reference-object")
		b.add("local d, n = blob.put(%s, reference.new(%s))", g.tgtFor(b, &pi, "tgt", false), q(pi.p.Base()+"@"+d))
		b.call("reference.new", "blob.put")
	case x < 16:
		j, name := g.junk("junk")
		b.arg("content=%s", name)
		b.add("local d, n = blob.put(%s, %s)", g.tgtFor(b, &pi, "tgt", g.chance(50, "fs")), j)
		b.call("blob.put")
	case x < 17:
		b.arg("content=missing")
		b.add("local d, n = blob.put(%s)", g.tgtFor(b, &pi, "tgt", false))
		b.call("blob.put")
	default:
		// the documented method form <blob>:put <content>
		fn := g.pick([]string{"head", "head", "get"}, "bfn", "head")
		if fn == "get" && !g.canBlobGet(pi) {
			fn = "head"
		}
		b.add("local b = %s", lookup(fn))
		switch g.draw(3, "marg") {
		case 0:
			b.arg("method-form,blob-from-blob.%s,arg=target-ref", fn)
			b.add("local d, n = b:put(%s)", g.tgtFor(b, &pi, "tgt", false))
		case 1:
			b.arg("method-form,blob-from-blob.%s,arg=string", fn)
			b.add("local d, n = b:put(%s)", text)
		default:
			b.arg("method-form,blob-from-blob.%s,arg=target-ref+blob", fn)
			b.add("local d, n = b.put(%s, b)", g.tgtFor(b, &pi, "tgt", false))
		}
		b.call("blob."+fn, "blob:put")
	}
	b.add(result)
	return b
}

func (g *sgen) manifestPutBody() *body {
	b := &body{kind: "manifest.put", mut: "manifest.put"}
	cs := &b.calls
	pi := g.place("", "spl")
	tag := g.tagOf(pi, "st")
	if g.chance(35, "list") {
		tag = g.pick(pi.listTags, "lt", tag)
	}
	src := g.refExpr(pi.p.Base(), tag, "", false, "src", cs)
	method := false // m:put(tgt) instead of manifest.put(m, tgt)
	m := "m"
	switch x := g.draw(20, "mkind"); {
	case x < 2:
		b.arg("manifest=from-manifest.get")
		b.add("local m = manifest.get(%s)", src)
		b.call("manifest.get")
		method = g.chance(40, "meth")
	case x < 3:
		b.arg("manifest=from-manifest.get-with-platform")
		b.add("local m = manifest.get(%s, %s)", src, q(g.pick(platformsLua, "plat", "linux/amd64")))
		b.call("manifest.get")
		method = g.chance(40, "meth")
	case x < 6:
		b.arg("manifest=from-manifest.getList")
		b.add("local m = manifest.getList(%s)", src)
		b.call("manifest.getList")
		method = g.chance(40, "meth")
	case x < 8:
		fn := g.pick([]string{"manifest.head", "image.manifestHead"}, "hfn", "manifest.head")
		b.arg("manifest=from-head-request")
		b.add("local m = %s(%s)", fn, src)
		b.call(fn)
		method = g.chance(40, "meth")
	case x < 9:
		b.arg("manifest=from-head-then-get")
		b.add("local m = manifest.head(%s):get()", src)
		b.call("manifest.head", "manifest:get")
		method = g.chance(40, "meth")
	case x < 11:
		fn := g.pick([]string{"manifest", "manifestList"}, "ifn", "manifest")
		b.arg("manifest=from-image.%s", fn)
		b.add("local m = image.%s(%s)", fn, src)
		b.call("image." + fn)
		method = g.chance(40, "meth")
	case x < 13:
		b.arg("manifest=exported-after-edit")
		b.add("local m0 = manifest.getList(%s)", src)
		b.add(`if m0.annotations then m0.annotations["org.example.c19"] = "put" end`)
		b.add(`if m0.layers and m0.layers[1] then m0.layers[1].annotations = {["org.example.c19"] = "put"} end`)
		b.add(`if m0.manifests and m0.manifests[1] then m0.manifests[1].annotations = {["org.example.c19"] = "put"} end`)
		b.add("local m = m0:export()")
		b.call("manifest.getList", "manifest:export")
		method = g.chance(40, "meth")
	case x < 14:
		b.arg("manifest=string-reference")
		m = q(pi.p.Base() + ":" + tag)
	case x < 15:
		b.arg("manifest=reference-object")
		m = "reference.new(" + q(pi.p.Base()+":"+tag) + ")"
		b.call("reference.new")
	case x < 16:
		b.arg("manifest=config-object")
		b.add("local m = image.config(%s)", src)
		b.call("image.config")
	case x < 17 && g.k > 0:
		b.arg("manifest=object-left-by-earlier-statement")
		b.add("local m = G_m or manifest.getList(%s)", src)
		b.call("manifest.getList")
		method = g.chance(40, "meth")
	case x < 18:
		b.arg("manifest=blob-object")
		b.add("local m = blob.head(%s, %s)", q(pi.p.Base()), q(g.pick(pi.blobs, "bd", bogusDigest)))
		b.call("blob.head")
	default:
		j, name := g.junk("junk")
		b.arg("manifest=%s", name)
		m = j
	}
	switch {
	case method:
		b.arg("form=method")
		b.add("%s:put(%s)", m, g.tgtFor(b, &pi, "tgt", false))
		b.call("manifest:put")
	case g.draw(25, "notgt") == 0:
		b.arg("target=missing")
		b.add("manifest.put(%s)", m)
		b.call("manifest.put")
	case g.draw(25, "junktgt") == 0:
		j, name := g.junk("tjunk")
		b.arg("target=%s", name)
		b.add("manifest.put(%s, %s)", m, j)
		b.call("manifest.put")
	default:
		b.arg("form=function")
		b.add("manifest.put(%s, %s)", m, g.tgtFor(b, &pi, "tgt", false))
		b.call("manifest.put")
	}
	b.add(`log("manifest put")`)
	return b
}

func (g *sgen) copyBody() *body {
	b := &body{kind: "image.copy", mut: "image.copy"}
	cs := &b.calls
	pi := g.place("", "spl")
	tag := g.tagOf(pi, "st")
	src := g.refExpr(pi.p.Base(), tag, "", false, "src", cs)
	switch x := g.draw(12, "skind"); {
	case x < 7:
		b.arg("source=reference")
	case x < 8:
		b.arg("source=reference-by-digest")
		src = g.refExpr(pi.p.Base(), "", g.pick(pi.mans, "sd", bogusDigest), false, "srcd", cs)
	case x < 10:
		fn := g.pick([]string{"manifest.head", "manifest.getList", "manifest.get"}, "sfn", "manifest.head")
		b.arg("source=manifest-object")
		src = fn + "(" + src + ")"
		b.call(fn)
	case x < 11:
		b.arg("source=config-object")
		src = "image.config(" + src + ")"
		b.call("image.config")
	default:
		j, name := g.junk("sjunk")
		b.arg("source=%s", name)
		src = j
	}
	tgt := g.tgtFor(b, &pi, "tgt", false)
	switch x := g.draw(16, "opts"); {
	case x < 5:
		b.arg("options=none")
		b.add("image.copy(%s, %s)", src, tgt)
	case x < 7:
		b.arg("options=digestTags")
		b.add("image.copy(%s, %s, {digestTags = true})", src, tgt)
	case x < 9:
		b.arg("options=forceRecursive")
		b.add("image.copy(%s, %s, {forceRecursive = true})", src, tgt)
	case x < 10:
		b.arg("options=includeExternal")
		b.add("image.copy(%s, %s, {includeExternal = true})", src, tgt)
	case x < 11:
		b.arg("options=platforms")
		b.add("image.copy(%s, %s, {platforms = {\"linux/amd64\", \"linux/arm64\"}})", src, tgt)
	case x < 12:
		b.arg("options=all")
		b.add("image.copy(%s, %s, {digestTags = true, forceRecursive = true, includeExternal = true, platforms = {\"linux/amd64\"}})", src, tgt)
	case x < 13:
		b.arg("options=empty-table")
		b.add("image.copy(%s, %s, {})", src, tgt)
	case x < 14:
		b.arg("options=unknown-key-and-false")
		b.add("image.copy(%s, %s, {bogus = 1, digestTags = false})", src, tgt)
	case x < 15:
		j, name := g.junk("ojunk")
		if name == "table" {
			j, name = `"digestTags"`, "string"
		}
		b.arg("options=%s", name)
		b.add("image.copy(%s, %s, %s)", src, tgt, j)
	default:
		b.arg("options=wrong-value-types")
		b.add("image.copy(%s, %s, {digestTags = \"yes\", platforms = \"linux/amd64\"})", src, tgt)
	}
	b.add(`log("copied")`)
	b.call("image.copy")
	return b
}

func (g *sgen) tagDeleteBody() *body {
	b := &body{kind: "tag.delete", mut: "tag.delete"}
	cs := &b.calls
	pi := g.place("", "spl")
	tag := g.pick(pi.tags, "t", "v1")
	switch x := g.draw(12, "akind"); {
	case x < 4:
		b.arg("ref=string")
		b.add("tag.delete(%s)", q(pi.p.Base()+":"+tag))
	case x < 7:
		b.arg("ref=reference-object")
		b.add("tag.delete(%s)", g.refExpr(pi.p.Base(), tag, "", false, "ref", cs))
	case x < 8:
		b.arg("ref=by-digest")
		b.add("tag.delete(%s)", g.refExpr(pi.p.Base(), "", g.pick(pi.mans, "d", bogusDigest), false, "ref", cs))
	case x < 9:
		b.arg("ref=no-tag")
		b.add("tag.delete(%s)", g.refExpr(pi.p.Base(), "", "", false, "ref", cs))
	case x < 10:
		fn := g.pick([]string{"manifest.head", "manifest.getList"}, "fn", "manifest.head")
		b.arg("ref=manifest-object")
		b.add("tag.delete(%s(%s))", fn, q(pi.p.Base()+":"+tag))
		b.call(fn)
	case x < 11:
		b.arg("ref=missing-tag")
		b.add("tag.delete(%s)", q(pi.p.Base()+":nope"))
	default:
		j, name := g.junk("junk")
		b.arg("ref=%s", name)
		b.add("tag.delete(%s)", j)
	}
	b.add(`log("tag deleted")`)
	b.call("tag.delete")
	return b
}

func (g *sgen) manifestDeleteBody() *body {
	b := &body{kind: "manifest:delete", mut: "manifest:delete"}
	cs := &b.calls
	pi := g.place("", "spl")
	tag := g.tagOf(pi, "st")
	src := g.refExpr(pi.p.Base(), tag, "", false, "src", cs)
	fns := []string{"manifest.head", "manifest.getList", "manifest.get", "image.manifestHead", "image.manifestList", "image.manifest"}
	fn := g.pick(fns, "how", "manifest.head")
	b.add("local m = %s(%s)", fn, src)
	b.call(fn)
	switch x := g.draw(12, "form"); {
	case x < 7:
		b.arg("manifest=from-%s,form=method", fn)
		b.add("m:delete()")
	case x < 8:
		b.arg("manifest=exported,form=method")
		b.add("local m2 = m:export()")
		b.add("m2:delete()")
		b.call("manifest:export")
	case x < 9:
		b.arg("arg=string-reference,form=function")
		b.add("m.delete(%s)", q(pi.p.Base()+":"+g.pick(pi.tags, "t2", "v1")))
	case x < 10:
		b.arg("arg=reference-object,form=function")
		b.add("m.delete(reference.new(%s))", q(pi.p.Base()+":"+g.pick(pi.tags, "t2", "v1")))
		b.call("reference.new")
	case x < 11:
		b.arg("arg=config-object,form=function")
		b.add("m.delete(image.config(%s))", q(pi.p.Base()+":"+g.pick(pi.tags, "t2", "v1")))
		b.call("image.config")
	default:
		j, name := g.junk("junk")
		b.arg("arg=%s,form=function", name)
		b.add("m.delete(%s)", j)
	}
	b.add(`log("manifest deleted")`)
	b.call("manifest:delete")
	return b
}

func (g *sgen) importBody() *body {
	b := &body{kind: "image.importTar", mut: "image.importTar"}
	tgt := g.tgtFor(b, nil, "tgt", false)
	switch x := g.draw(14, "file"); {
	case x < 9:
		b.arg("file=image-tar")
		b.add("image.importTar(%s, %s)", tgt, q(RootToken+"/scratch/import.tar"))
	case x < 10:
		b.arg("file=missing")
		b.add("image.importTar(%s, %s)", tgt, q(RootToken+"/scratch/missing.tar"))
	case x < 11:
		b.arg("file=not-a-tar")
		b.add("image.importTar(%s, %s)", tgt, q(RootToken+"/scratch/garbage.tar"))
	case x < 12:
		b.arg("file=directory")
		b.add("image.importTar(%s, %s)", tgt, q(RootToken+"/scratch"))
	case x < 13:
		b.arg("file=image-tar,extra-argument")
		b.add("image.importTar(%s, %s, {name = \"x\"})", tgt, q(RootToken+"/scratch/import.tar"))
	default:
		j, name := g.junk("junk")
		b.arg("file=%s", name)
		b.add("image.importTar(%s, %s)", tgt, j)
	}
	b.add(`log("imported")`)
	b.call("image.importTar")
	return b
}
