package c19

import (
	"context"
	"fmt"
	"log/slog"
	"net/http"
	"regexp"
	"sort"
	"strconv"
	"strings"
	"sync"
	"time"

	"github.com/regclient/regclient"
	"github.com/regclient/regclient/cmd/regbot/sandbox"
	"github.com/regclient/regclient/config"
	"github.com/regclient/regclient/internal/pqueue"
	"github.com/regclient/regclient/scheme/reg"
	"github.com/regclient/regclient/zz_verif/rcutil"
	rm "github.com/regclient/regclient/zz_verif/regmodel"
)

// ---------------------------------------------------------------- log capture

// LogRec is one structured log record of a run (from the slog handler in
// direct mode, from the JSON lines on stderr in cobra mode).
type LogRec struct {
	Level string            // DEBUG | INFO | WARN | ERROR
	Msg   string            // record message
	Attrs map[string]string // top-level attributes rendered as strings
}

// CapHandler is a slog.Handler that stores records.
type CapHandler struct {
	mu    *sync.Mutex
	recs  *[]LogRec
	min   slog.Level
	attrs []slog.Attr
}

// NewCapHandler returns a handler and the accessor of what it captured.
func NewCapHandler(min slog.Level) (*CapHandler, func() []LogRec) {
	mu := &sync.Mutex{}
	recs := &[]LogRec{}
	h := &CapHandler{mu: mu, recs: recs, min: min}
	return h, func() []LogRec {
		mu.Lock()
		defer mu.Unlock()
		return append([]LogRec{}, *recs...)
	}
}

func (h *CapHandler) Enabled(_ context.Context, l slog.Level) bool { return l >= h.min }
func (h *CapHandler) Handle(_ context.Context, r slog.Record) error {
	rec := LogRec{Level: r.Level.String(), Msg: r.Message, Attrs: map[string]string{}}
	for _, a := range h.attrs {
		rec.Attrs[a.Key] = a.Value.String()
	}
	r.Attrs(func(a slog.Attr) bool {
		rec.Attrs[a.Key] = a.Value.String()
		return true
	})
	h.mu.Lock()
	*h.recs = append(*h.recs, rec)
	h.mu.Unlock()
	return nil
}
func (h *CapHandler) WithAttrs(as []slog.Attr) slog.Handler {
	n := *h
	n.attrs = append(append([]slog.Attr{}, h.attrs...), as...)
	return &n
}
func (h *CapHandler) WithGroup(string) slog.Handler { return h }

// ---------------------------------------------------------------- monitor

// Offense is one observed state change (a state-changing request that reached
// a model host, or a set of differences in the layout tree), attributed to the
// statement that was executing.
type Offense struct {
	Script  int // -1 = could not be attributed
	Stmt    int
	Where   string // registry | layout | throttle
	Layout  string // layout directory name (Where == layout)
	Detail  string
	Changes []Change
}

// Monitor observes one run: it is the model's OnArrive callback. Statement
// boundaries are visible to it as tag listings on ProbeHost (the script is
// blocked in that call while the monitor looks at the layout tree).
type Monitor struct {
	mu       sync.Mutex
	w        *World
	parallel bool  // scripts may run concurrently: attribute by the owner of the touched place
	cur      []int // last statement boundary seen per script (-1 = none)
	last     int   // script of the latest boundary (-1 = none)
	snap     Snap
	Offenses []Offense
	Probes   int
	Err      error // harness failure while observing
	// the sandbox throttle (direct driver: scripts run one after another, so at a
	// statement boundary and after a script nothing holds a slot)
	throttle     *pqueue.Queue[struct{}]
	throttleMax  int
	throttleFree int // slots known to be free at the last drain test
	maxProbe     []int
	cancel       func() // cancels the command context (Case.CancelAt)
	Cancelled    bool
}

// Drain is the drain test of a throttle that nothing uses any more: exactly max
// TryAcquire calls must succeed and the next one must be refused. It returns how
// many succeeded (at most max+1); everything it took is released again.
func Drain(q *pqueue.Queue[struct{}], max int) int {
	if q == nil {
		return max
	}
	var rels []func()
	for i := 0; i < max+1; i++ {
		rel, err := q.TryAcquire(context.Background(), struct{}{})
		if err != nil || rel == nil {
			break
		}
		rels = append(rels, rel)
	}
	for _, r := range rels {
		r()
	}
	return len(rels)
}

// lookAtThrottle runs the drain test (direct driver only) and attributes a
// slot that went missing since the previous test to the statement that was
// executing. Lock held.
func (mo *Monitor) lookAtThrottle() {
	if mo.throttle == nil {
		return
	}
	free := Drain(mo.throttle, mo.throttleMax)
	if free == mo.throttleFree {
		return
	}
	si, k := mo.last, -1
	if si >= 0 && si < len(mo.cur) {
		k = mo.cur[si]
	}
	what := "leaked"
	if free > mo.throttleFree {
		what = "appeared"
	}
	mo.Offenses = append(mo.Offenses, Offense{Script: si, Stmt: k, Where: "throttle",
		Detail: fmt.Sprintf("%s: drain test on the idle throttle (limit %d): %d TryAcquire succeeded, %d at the previous statement boundary", what, mo.throttleMax, free, mo.throttleFree)})
	mo.throttleFree = free
}

// SetThrottle hands the direct driver's throttle to the monitor.
func (mo *Monitor) SetThrottle(q *pqueue.Queue[struct{}], max int) {
	mo.mu.Lock()
	mo.throttle, mo.throttleMax, mo.throttleFree = q, max, max
	mo.mu.Unlock()
}

// ScriptDone is called by the direct driver after a script returned.
func (mo *Monitor) ScriptDone() {
	mo.mu.Lock()
	mo.lookAtThrottle()
	mo.mu.Unlock()
}

var probeRE = regexp.MustCompile(`^/v2/s(\d+)/k(\d+)/tags/list$`)
var newNameRE = regexp.MustCompile(`^new(\d+)`)

// NewMonitor takes the "before" listing (everything hashed) and installs
// itself on the model.
func NewMonitor(w *World, parallel bool) (*Monitor, error) {
	mo := &Monitor{w: w, parallel: parallel, last: -1, cur: make([]int, len(w.C.Scripts))}
	mo.maxProbe = make([]int, len(w.C.Scripts))
	for i := range mo.cur {
		mo.cur[i] = -1
		mo.maxProbe[i] = -1
	}
	s, err := w.Snapshot(nil)
	if err != nil {
		return nil, err
	}
	mo.snap = s
	w.Model.OnArrive = mo.onArrive
	return mo, nil
}

// ownerOf returns the script that owns a registry repository / layout
// directory when scripts run concurrently (-1 unknown).
func (mo *Monitor) ownerOf(kind, host, name string) int {
	for _, p := range mo.w.C.Places {
		if p.Kind != kind {
			continue
		}
		if kind == "reg" && p.Host == host && p.Repo == name {
			return p.Owner
		}
		if kind == "layout" && p.Dir == name {
			return p.Owner
		}
	}
	if m := newNameRE.FindStringSubmatch(name); m != nil {
		if i, err := strconv.Atoi(m[1]); err == nil && i < len(mo.cur) {
			return i
		}
	}
	return -1
}

func (mo *Monitor) onArrive(e *rm.Entry) {
	mo.mu.Lock()
	defer mo.mu.Unlock()
	if e.Host == ProbeHost && !e.Mutating() {
		if m := probeRE.FindStringSubmatch(e.Path); m != nil {
			si, _ := strconv.Atoi(m[1])
			k, _ := strconv.Atoi(m[2])
			mo.Probes++
			mo.lookAtLayouts()
			mo.lookAtThrottle()
			if ca := mo.w.C.CancelAt; len(ca) == 2 && ca[0] == si && ca[1] == k && mo.cancel != nil && !mo.Cancelled {
				mo.Cancelled = true
				mo.cancel()
			}
			if si >= 0 && si < len(mo.cur) {
				mo.cur[si] = k
				mo.last = si
				if k > mo.maxProbe[si] {
					mo.maxProbe[si] = k
				}
			}
		}
		return
	}
	if !e.Mutating() {
		return
	}
	si := mo.last
	if mo.parallel {
		si = mo.ownerOf("reg", e.Host, e.Repo)
	}
	k := -1
	if si >= 0 && si < len(mo.cur) {
		k = mo.cur[si]
	}
	q := ""
	if e.RawQuery != "" {
		q = "?" + e.RawQuery
	}
	mo.Offenses = append(mo.Offenses, Offense{Script: si, Stmt: k, Where: "registry",
		Detail: fmt.Sprintf("%s %s://%s%s%s (class %s, %d body bytes)", e.Method, e.Scheme, e.Host, e.Path, q, e.Class, len(e.Body))})
}

// lookAtLayouts lists the layout tree and attributes every difference since
// the previous listing to the statement that was executing (sequential runs:
// the latest boundary seen; concurrent runs: the owner of the layout).
func (mo *Monitor) lookAtLayouts() {
	s, err := mo.w.Snapshot(mo.snap)
	if err != nil {
		if mo.Err == nil {
			mo.Err = err
		}
		return
	}
	ch := Diff(mo.snap, s)
	mo.snap = s
	if len(ch) == 0 {
		return
	}
	by := map[string][]Change{}
	for _, c := range ch {
		l := LayoutOf(c.Path)
		by[l] = append(by[l], c)
	}
	ls := make([]string, 0, len(by))
	for l := range by {
		ls = append(ls, l)
	}
	sort.Strings(ls)
	for _, l := range ls {
		si := mo.last
		if mo.parallel {
			si = mo.ownerOf("layout", "", l)
		}
		k := -1
		if si >= 0 && si < len(mo.cur) {
			k = mo.cur[si]
		}
		var sb strings.Builder
		for i, c := range by[l] {
			if i == 12 {
				fmt.Fprintf(&sb, "  ... %d more\n", len(by[l])-i)
				break
			}
			fmt.Fprintf(&sb, "  %s %s (%s)\n", c.What, c.Path, c.Det)
		}
		mo.Offenses = append(mo.Offenses, Offense{Script: si, Stmt: k, Where: "layout", Layout: l, Detail: sb.String(), Changes: by[l]})
	}
}

// Finish takes the "after" listing (everything hashed again, so that a write
// which preserved size, mtime and inode would still be seen) and detaches.
func (mo *Monitor) Finish() {
	mo.mu.Lock()
	defer mo.mu.Unlock()
	// incremental listing first (attribution), then a full one against it
	mo.lookAtLayouts()
	full, err := mo.w.Snapshot(nil)
	if err != nil {
		if mo.Err == nil {
			mo.Err = err
		}
	} else if ch := Diff(mo.snap, full); len(ch) > 0 {
		var sb strings.Builder
		for _, c := range ch {
			fmt.Fprintf(&sb, "  %s %s (%s)\n", c.What, c.Path, c.Det)
		}
		mo.Offenses = append(mo.Offenses, Offense{Script: -1, Stmt: -1, Where: "layout", Layout: LayoutOf(ch[0].Path), Detail: sb.String(), Changes: ch})
	}
	mo.w.Model.OnArrive = nil
}

// ---------------------------------------------------------------- observations

// ScriptObs is what one script did in one run.
type ScriptObs struct {
	Msgs   []string // messages passed to log(), in order (markers included)
	Failed bool     // the tool reported the script as failed
	Err    string
	Panic  string // a Go panic left RunScript (direct mode)
}

// Cancelled tells whether the script saw a cancelled context.
func (so ScriptObs) Cancelled() bool {
	if strings.Contains(so.Err, "context canceled") {
		return true
	}
	for _, m := range so.Msgs {
		if strings.Contains(m, "context canceled") {
			return true
		}
	}
	return false
}

// TimedOut tells whether a context deadline fired in the script.
func (so ScriptObs) TimedOut() bool {
	if strings.Contains(so.Err, "context deadline exceeded") {
		return true
	}
	for _, m := range so.Msgs {
		if strings.Contains(m, "context deadline exceeded") {
			return true
		}
	}
	return false
}

// BlockedOnThrottle tells whether a binding gave up waiting for a throttle slot.
func (so ScriptObs) BlockedOnThrottle() bool {
	if strings.Contains(so.Err, "Failed to acquire throttle") {
		return true
	}
	for _, m := range so.Msgs {
		if strings.Contains(m, "Failed to acquire throttle") {
			return true
		}
	}
	return false
}

// Obs is the observation of one run.
type Obs struct {
	Scripts   []ScriptObs
	Offenses  []Offense
	Probes    int
	CmdErr    string // cobra: error returned by the command
	CmdPanic  string // cobra: a Go panic left the command
	Cancelled bool   // the harness cancelled the command context (Case.CancelAt)
	// ProbeReached: per script the highest statement boundary whose probe arrived
	// (-1 none; len(Stmts) = the boundary after the last statement)
	ProbeReached []int
	// cobra: drain test on the command's throttle after it returned (Max 0 = not run)
	ThrottleFree, ThrottleMax int
}

// BuildScriptObs distributes log records over the scripts of the case.
// failRecs says whether "Error running script" records carry the failure
// report (cobra mode); in direct mode the runner fills Failed/Err itself.
func BuildScriptObs(c Case, recs []LogRec, failRecs bool) []ScriptObs {
	idx := map[string]int{}
	for i, s := range c.Scripts {
		idx[s.Name] = i
	}
	out := make([]ScriptObs, len(c.Scripts))
	for _, r := range recs {
		i, ok := idx[r.Attrs["script"]]
		if !ok {
			continue
		}
		switch r.Msg {
		case "User script message":
			out[i].Msgs = append(out[i].Msgs, r.Attrs["message"])
		case "Error running script":
			if failRecs {
				out[i].Failed = true
				out[i].Err = r.Attrs["error"]
			}
		}
	}
	return out
}

// CobraFn runs the case through the real `regbot once` command (implemented by
// the white-box test in package main of cmd/regbot). It must route registry
// traffic to w.Model and return the parsed log records.
type CobraFn func(ctx context.Context, w *World, c Case, dry bool) (out CobraOut, infra error)

// CobraOut is what the cobra driver hands back.
type CobraOut struct {
	Recs   []LogRec
	CmdErr error
	Panic  string
	// drain test on the command's own throttle after it returned (-1 = not run)
	ThrottleFree, ThrottleMax int
}

// ErrWatchdog marks a wall-clock watchdog expiry (inconclusive, never a violation).
var ErrWatchdog = fmt.Errorf("watchdog: run did not finish in time")

const watchdog = 120 * time.Second

// Run executes all scripts of the case once (dry or normal) and observes them.
func Run(w *World, c Case, dry bool, cobra CobraFn) (*Obs, error) {
	parallel := c.Mode == "cobra" && c.Parallel > 0
	mo, err := NewMonitor(w, parallel)
	if err != nil {
		return nil, err
	}
	ctx, cancel := context.WithCancel(context.Background())
	defer cancel()
	mo.cancel = cancel
	obs := &Obs{}
	type res struct {
		so       []ScriptObs
		cmdErr   string
		cmdPanic string
		tFree    int
		tMax     int
		err      error
	}
	done := make(chan res, 1)
	go func() {
		var r res
		defer func() {
			if p := recover(); p != nil {
				r.err = fmt.Errorf("runner panic: %v", p)
			}
			done <- r
		}()
		switch c.Mode {
		case "cobra":
			if cobra == nil {
				r.err = fmt.Errorf("no cobra runner in this binary")
				return
			}
			co, ierr := cobra(ctx, w, c, dry)
			if ierr != nil {
				r.err = ierr
				return
			}
			r.so = BuildScriptObs(c, co.Recs, true)
			r.cmdPanic = co.Panic
			r.tFree, r.tMax = co.ThrottleFree, co.ThrottleMax
			if co.CmdErr != nil {
				r.cmdErr = co.CmdErr.Error()
			}
		default:
			r.so = runDirect(ctx, w, c, dry, mo)
		}
	}()
	var r res
	select {
	case r = <-done:
	case <-time.After(watchdog):
		return nil, ErrWatchdog
	}
	mo.Finish()
	if r.err != nil {
		return nil, r.err
	}
	if mo.Err != nil {
		return nil, mo.Err
	}
	obs.Scripts, obs.CmdErr, obs.CmdPanic = r.so, r.cmdErr, r.cmdPanic
	obs.ThrottleFree, obs.ThrottleMax = r.tFree, r.tMax
	obs.Offenses, obs.Probes = mo.Offenses, mo.Probes
	obs.Cancelled = mo.Cancelled
	obs.ProbeReached = append([]int{}, mo.maxProbe...)
	return obs, nil
}

// runDirect is the sandbox driver: what cmd/regbot's process() does for each
// script, in order, with one shared client and throttle.
func runDirect(base context.Context, w *World, c Case, dry bool, mo *Monitor) []ScriptObs {
	conf := rcutil.Conf{RegOpts: []reg.Opts{reg.WithHTTPClient(&http.Client{Transport: w.Transport()})}}
	for _, hc := range c.Hosts {
		if hc.User != "" {
			conf.Hosts = append(conf.Hosts, config.Host{Name: hc.Name, Hostname: hc.Name, User: hc.User, Pass: hc.Pass})
		}
	}
	if c.Conf.UserAgent != "" {
		conf.Opts = append(conf.Opts, regclient.WithUserAgent(c.Conf.UserAgent))
	}
	if c.Conf.BlobLimit != 0 {
		conf.RegOpts = append(conf.RegOpts, reg.WithBlobLimit(c.Conf.BlobLimit))
	}
	rc := rcutil.New(w.Model, conf)
	lvl := slog.LevelInfo
	switch c.Verbosity {
	case "debug", "trace":
		lvl = slog.LevelDebug
	case "warn":
		lvl = slog.LevelWarn
	case "error":
		lvl = slog.LevelError
	}
	h, get := NewCapHandler(lvl)
	logger := slog.New(h)
	conc := c.Parallel
	if conc <= 0 {
		conc = 1
	}
	throttle := pqueue.New(pqueue.Opts[struct{}]{Max: conc}) // as loadConf builds it
	mo.SetThrottle(throttle, conc)
	errs := make([]error, len(c.Scripts))
	panics := make([]string, len(c.Scripts))
	for i, s := range c.Scripts {
		func() {
			defer func() {
				if p := recover(); p != nil {
					panics[i] = fmt.Sprint(p)
				}
			}()
			ctx := base
			to := s.Timeout
			if to == "" {
				to = c.DefTimeout // what scriptSetDefaults does
			}
			if to != "" {
				if d, err := time.ParseDuration(to); err == nil && d > 0 {
					var cancel context.CancelFunc
					ctx, cancel = context.WithTimeout(ctx, d)
					defer cancel()
				}
			}
			opts := []sandbox.Opt{sandbox.WithContext(ctx), sandbox.WithRegClient(rc), sandbox.WithSlog(logger), sandbox.WithThrottle(throttle)}
			if dry {
				opts = append(opts, sandbox.WithDryRun())
			}
			sb := sandbox.New(s.Name, opts...)
			defer sb.Close()
			errs[i] = sb.RunScript(c.Render(i, w.Root))
		}()
		mo.ScriptDone()
	}
	so := BuildScriptObs(c, get(), false)
	for i, e := range errs {
		if e != nil {
			so[i].Failed = true
			so[i].Err = e.Error()
		}
		so[i].Panic = panics[i]
	}
	return so
}
