package c19

import (
	"fmt"
	"strings"
)

// junkOrString is junk or a string that is not a reference.
func (g *sgen) junkOrString(label string) (lua, name string) {
	if g.draw(5, label+"_s") == 0 {
		return q("Not A Ref !!"), "invalid-string"
	}
	return g.junk(label)
}

// wrongArgBody calls a (mostly read-only) binding with an argument of the
// wrong type in one parameter position, or with a surplus argument.
func (g *sgen) wrongArgBody() *body {
	b := &body{kind: "wrong-arg"}
	cs := &b.calls
	pi := g.place("", "pl")
	ref := g.refExpr(pi.p.Base(), g.pick(pi.tags, "t", "v1"), "", false, "ref", cs)
	host := HostA
	if pi.p.Kind == "reg" {
		host = pi.p.Host
	}
	file := q(fmt.Sprintf("%s/scratch/export-%d-%d.tar", RootToken, g.si, g.k))
	j, jn := g.junkOrString("j")
	type tpl struct {
		lua   string
		calls []string
	}
	f := fmt.Sprintf
	tpls := []tpl{
		{f("local v = manifest.get(%s)", j), []string{"manifest.get"}},
		{f("local v = manifest.getList(%s)", j), []string{"manifest.getList"}},
		{f("local v = manifest.head(%s)", j), []string{"manifest.head"}},
		{f("local v = image.manifest(%s)", j), []string{"image.manifest"}},
		{f("local v = image.manifestHead(%s)", j), []string{"image.manifestHead"}},
		{f("local v = image.config(%s)", j), []string{"image.config"}},
		{f("local v = blob.head(%s)", j), []string{"blob.head"}},
		{f("local v = blob.head(%s, %s)", ref, j), []string{"blob.head"}},
		{f("local v = tag.ls(%s)", j), []string{"tag.ls"}},
		{f("local v = repo.ls(%s)", j), []string{"repo.ls"}},
		{f("local v = repo.ls(%s, %s)", q(host), j), []string{"repo.ls"}},
		{f("local v = repo.ls(%s, {limit = \"many\", last = 5})", q(host)), []string{"repo.ls"}},
		{f("local v = repo.ls(%s, {limit = -1, bogus = true})", q(host)), []string{"repo.ls"}},
		{f("local v = reference.new(%s)", j), []string{"reference.new"}},
		{f("local r = reference.new(%s) r:tag(%s) local v = tostring(r)", q(pi.p.Base()), j), []string{"reference.new", "reference:tag", "reference.__tostring"}},
		{f("local r = reference.new(%s) r:digest(%s) local v = tostring(r)", q(pi.p.Base()), j), []string{"reference.new", "reference:digest", "reference.__tostring"}},
		{f("local v = reference.__tostring(%s)", j), []string{"reference.__tostring"}},
		{f("local v = image.ratelimitWait(%s, %s)", ref, j), []string{"image.ratelimitWait"}},
		{f("local v = image.ratelimitWait(%s, 1, \"soon\")", ref), []string{"image.ratelimitWait"}},
		{f("local v = image.ratelimitWait(%s, 1, \"1ms\", %s)", ref, j), []string{"image.ratelimitWait"}},
		{f("local v = image.ratelimitWait(%s, 1)", j), []string{"image.ratelimitWait"}},
		{f("local v = image.exportTar(%s, %s)", ref, j), []string{"image.exportTar"}},
		{f("local v = image.exportTar(%s, %s)", j, file), []string{"image.exportTar"}},
		{f("local v = log(%s)", j), nil},
		{f("local v = log(\"two\", \"arguments\")"), nil},
		{f("local v = manifest.head(%s).get(%s)", ref, j), []string{"manifest.head", "manifest:get"}},
		{f("local v = manifest.head(%s).head(%s)", ref, j), []string{"manifest.head", "manifest:head"}},
		{f("local v = manifest.head(%s).ratelimit(%s)", ref, j), []string{"manifest.head", "manifest:ratelimit"}},
		{f("local v = manifest.head(%s).config(%s)", ref, j), []string{"manifest.head", "manifest:config"}},
		{f("local v = manifest.getList(%s).export(%s)", ref, j), []string{"manifest.getList", "manifest:export"}},
		{f("local v = manifest.__tostring(%s)", j), []string{"manifest.__tostring"}},
		{f("local v = imageconfig.__tostring(%s)", j), []string{"imageconfig.__tostring"}},
		{f("local v = blob.head(%s, %s).head(%s)", q(pi.p.Base()), q(g.pick(pi.blobs, "bd", bogusDigest)), j), []string{"blob.head", "blob:head"}},
		// surplus arguments
		{f("local v = tag.ls(%s, {limit = 1, last = \"a\"})", ref), []string{"tag.ls"}},
		{f("local v = manifest.get(%s, \"linux/amd64\", \"surplus\")", ref), []string{"manifest.get"}},
		{f("local v = manifest.getList(%s, \"linux/arm64\")", ref), []string{"manifest.getList"}},
		{f("local v = manifest.head(%s, %s)", ref, j), []string{"manifest.head"}},
		{f("local v = manifest.get(%s, %s)", ref, j), []string{"manifest.get"}},
		{f("local v = reference.new(%s, %s)", q(pi.p.Base()), j), []string{"reference.new"}},
	}
	t := tpls[g.draw(len(tpls), "tpl")]
	b.add("%s", t.lua)
	b.add(`log("wrong-arg result " .. type(v))`)
	b.call(t.calls...)
	b.args = append(b.args, "wrong-arg:"+jn)
	return b
}

// missingPlaceBody reads from things that do not exist: a layout directory
// that was never created, an unknown repository, a reference that does not
// parse, a scheme the client does not serve.
func (g *sgen) missingPlaceBody() *body {
	b := &body{kind: "missing-place"}
	pi := g.place("", "pl")
	var base, what string
	switch g.draw(6, "what") {
	case 0, 1:
		base, what = "ocidir://"+RootToken+"/lay/"+fmt.Sprintf("new%d-m%d", g.si, g.k), "layout-directory-that-does-not-exist"
	case 2:
		host := HostA
		if pi.p.Kind == "reg" {
			host = pi.p.Host
		}
		base, what = host+"/"+fmt.Sprintf("new%d/none%d", g.si, g.k), "repository-that-does-not-exist"
	case 3:
		base, what = "Not A Ref !!", "unparsable-reference"
	case 4:
		base, what = "ocifile://"+RootToken+"/lay/lay0", "ocifile-scheme"
	default:
		base, what = "ocidir://"+RootToken+"/lay", "directory-that-is-not-a-layout"
	}
	b.args = append(b.args, "missing-place:"+what)
	file := q(fmt.Sprintf("%s/scratch/export-%d-%d.tar", RootToken, g.si, g.k))
	switch g.draw(8, "fn") {
	case 0:
		b.add("local v = tag.ls(%s)", q(base))
		b.add(`log("tags " .. j(v))`)
		b.call("tag.ls")
	case 1:
		b.add("local v = manifest.head(%s)", q(base+":v1"))
		b.call("manifest.head")
	case 2:
		b.add("local v = manifest.get(%s)", q(base+":v1"))
		b.call("manifest.get")
	case 3:
		b.add("local v = blob.head(%s, %s)", q(base), q(Canon.LayerD))
		b.call("blob.head")
	case 4:
		b.add("local v = image.config(%s)", q(base+":canon"))
		b.call("image.config")
	case 5:
		b.add("local v = reference.close(%s)", q(base))
		b.call("reference.close")
	case 6:
		b.add("local v = image.exportTar(%s, %s)", q(base+":v1"), file)
		b.call("image.exportTar")
	default:
		b.add("local v = manifest.getList(reference.new(%s))", q(base+":canonlist"))
		b.call("manifest.getList", "reference.new")
	}
	b.add(`log("missing-place result " .. type(v))`)
	return b
}

// moreErrorBody: further ways a script can fail at run time.
func (g *sgen) moreErrorBody() *body {
	b := &body{kind: "error", raise: true}
	switch g.draw(7, "ek2") {
	case 0:
		b.add(`assert(false, %s)`, q(fmt.Sprintf("assert s%d k%d", g.si, g.k)))
	case 1:
		b.add(`assert(nil)`)
	case 2:
		b.add(`error(%s, %d)`, q("boom with level"), g.draw(3, "lvl"))
	case 3:
		b.add(`local n = nil`)
		b.add(`local x = n + 1`)
	case 4:
		b.add(`local function f(i) return f(i + 1) + 1 end`)
		b.add(`f(1)`)
	case 5:
		// an error in the middle of a loop, after iterations that did work
		pi := g.place("", "pl")
		b.add("for i, t in ipairs(tag.ls(%s)) do", q(pi.p.Base()))
		b.add(`  log("iteration " .. i)`)
		b.add(`  if i >= 2 then error("boom in iteration " .. i) end`)
		b.add("end")
		b.add(`error("boom after the loop")`)
		b.call("tag.ls")
	default:
		b.add(`local t = setmetatable({}, {__index = function(_, k) error("boom from __index " .. k) end})`)
		b.add(`log(t.field)`)
	}
	return b
}

// failingLines is a call that fails (for "an error was caught, then ...").
func (g *sgen) failingLines(b *body) string {
	pi := g.place("", "fpl")
	switch g.draw(7, "fail") {
	case 0:
		return `error("prefix boom")`
	case 1:
		b.call("manifest.get")
		return fmt.Sprintf("manifest.get(%s)", q(pi.p.Base()+":nope"))
	case 2:
		b.call("manifest.getList", "image.config")
		return fmt.Sprintf("image.config(manifest.getList(%s))", q(pi.p.Base()+":canonlist"))
	case 3:
		b.call("tag.ls")
		return "tag.ls(42)"
	case 4:
		b.call("blob.head")
		return fmt.Sprintf("blob.head(%s, %s)", q(pi.p.Base()), q(bogusDigest))
	case 5:
		return "local x = nil x.y = 1"
	default:
		b.call("image.importTar")
		return fmt.Sprintf("image.importTar(%s, %s)", q(pi.p.Base()+":w"), q(RootToken+"/scratch/missing.tar"))
	}
}

var aliasable = []struct{ name, alias string }{
	{"manifest.put", "f_mput"}, {"blob.put", "f_bput"}, {"image.copy", "f_copy"}, {"tag.delete", "f_tdel"},
	{"image.importTar", "f_imp"}, {"manifest.get", "f_mget"}, {"manifest.getList", "f_mlist"}, {"manifest.head", "f_mhead"},
	{"tag.ls", "f_ls"}, {"image.config", "f_cfg"}, {"blob.head", "f_bhead"},
}

// aliasLines calls the bindings through local aliases (and one through unpack).
func aliasLines(lines []string) []string {
	var names, vals []string
	out := make([]string, len(lines))
	copy(out, lines)
	for _, a := range aliasable {
		used := false
		for i, l := range out {
			if strings.Contains(l, a.name+"(") {
				// "manifest.get(" must not match inside "manifest.getList(" - the "(" takes care of it
				out[i] = strings.ReplaceAll(l, a.name+"(", a.alias+"(")
				used = true
			}
		}
		if used {
			names = append(names, a.alias)
			vals = append(vals, a.name)
		}
	}
	if len(names) == 0 {
		return lines
	}
	return append([]string{"local " + strings.Join(names, ", ") + " = " + strings.Join(vals, ", ")}, out...)
}
