package c19

import (
	"fmt"

	"github.com/regclient/regclient/zz_verif/imggen"
	rm "github.com/regclient/regclient/zz_verif/regmodel"
)

// Canonical content present in EVERY place under the tags "canon" (an OCI
// image) and "canonlist" (an OCI index of two such images): bodies written
// exactly as encoding/json renders regclient's manifest types, so that the
// manifest a script retrieves and puts again has the SAME digest as the stored
// one (the sandbox re-marshals: manifest.New(WithOrig(GetOrig()))). That makes
// "put to a reference that carries the manifest's own digest" a call that
// really succeeds in a normal run (checked by the sanity job), not one the
// registry refuses for a digest mismatch.
type canonT struct {
	Layer, Cfg1, Cfg2, Man1, Man2, Index       []byte
	LayerD, Cfg1D, Cfg2D, Man1D, Man2D, IndexD string
}

// Canon is that content.
var Canon = func() canonT {
	var c canonT
	c.Layer = []byte("c19 canonical layer bytes (opaque)")
	c.LayerD = rm.Digest("sha256", c.Layer)
	cfg := func(arch string) []byte {
		return []byte(`{"architecture":"` + arch + `","os":"linux","config":{"Env":["C19=canon"]},"rootfs":{"type":"layers","diff_ids":["` + c.LayerD + `"]}}`)
	}
	man := func(cfgD string, cfgN int) []byte {
		return []byte(fmt.Sprintf(`{"schemaVersion":2,"mediaType":%q,"config":{"mediaType":%q,"digest":%q,"size":%d},"layers":[{"mediaType":%q,"digest":%q,"size":%d}]}`,
			rm.MTOCIManifest, rm.MTOCIConfig, cfgD, cfgN, rm.MTOCILayerGzip, c.LayerD, len(c.Layer)))
	}
	c.Cfg1, c.Cfg2 = cfg("amd64"), cfg("arm64")
	c.Cfg1D, c.Cfg2D = rm.Digest("sha256", c.Cfg1), rm.Digest("sha256", c.Cfg2)
	c.Man1, c.Man2 = man(c.Cfg1D, len(c.Cfg1)), man(c.Cfg2D, len(c.Cfg2))
	c.Man1D, c.Man2D = rm.Digest("sha256", c.Man1), rm.Digest("sha256", c.Man2)
	ent := func(d string, n int, arch string) string {
		return fmt.Sprintf(`{"mediaType":%q,"digest":%q,"size":%d,"platform":{"architecture":%q,"os":"linux"}}`, rm.MTOCIManifest, d, n, arch)
	}
	c.Index = []byte(fmt.Sprintf(`{"schemaVersion":2,"mediaType":%q,"manifests":[%s,%s]}`, rm.MTOCIIndex,
		ent(c.Man1D, len(c.Man1), "amd64"), ent(c.Man2D, len(c.Man2), "arm64")))
	c.IndexD = rm.Digest("sha256", c.Index)
	return c
}()

// CanonTags maps the canonical tags to their digests.
var CanonTags = map[string]string{"canon": Canon.Man1D, "canonlist": Canon.IndexD}

func canonRegistry(r *rm.Repo) {
	c := Canon
	r.Blobs[c.LayerD], r.Blobs[c.Cfg1D], r.Blobs[c.Cfg2D] = c.Layer, c.Cfg1, c.Cfg2
	r.Manifests[c.Man1D] = &rm.Manifest{MediaType: rm.MTOCIManifest, Body: c.Man1}
	r.Manifests[c.Man2D] = &rm.Manifest{MediaType: rm.MTOCIManifest, Body: c.Man2}
	r.Manifests[c.IndexD] = &rm.Manifest{MediaType: rm.MTOCIIndex, Body: c.Index}
	r.Tags["canon"], r.Tags["canonlist"] = c.Man1D, c.IndexD
}

func canonLayout() imggen.LayoutStyle {
	c := Canon
	return imggen.LayoutStyle{Extra: []imggen.ExtraEntry{
		{Tag: "canon", MediaType: rm.MTOCIManifest, Body: c.Man1, Blobs: map[string][]byte{c.LayerD: c.Layer, c.Cfg1D: c.Cfg1}},
		{Tag: "canonlist", MediaType: rm.MTOCIIndex, Body: c.Index, Blobs: map[string][]byte{
			c.LayerD: c.Layer, c.Cfg1D: c.Cfg1, c.Cfg2D: c.Cfg2, c.Man1D: c.Man1, c.Man2D: c.Man2}},
	}}
}

// Canon512 maps the sha256 digest of a canonical manifest to its sha512 digest
// (a reference may name the same content by either algorithm).
var Canon512 = map[string]string{
	Canon.Man1D:  rm.Digest("sha512", Canon.Man1),
	Canon.Man2D:  rm.Digest("sha512", Canon.Man2),
	Canon.IndexD: rm.Digest("sha512", Canon.Index),
}
