package c19

import (
	"fmt"
	"regexp"
	"sort"
	"strings"

	"github.com/regclient/regclient/zz_verif/evid"
)

// Infra is a harness failure (inconclusive, never a violation).
type Infra struct{ Err error }

func (i *Infra) Error() string { return "harness: " + i.Err.Error() }

// verdict collects the violations of one evaluation. Known findings are
// counted (the run goes on behind them); the first other one is returned.
type verdict struct {
	c      Case
	ev     *evid.Collector
	first  *evid.Violation
	labels []string
	seen   map[string]bool
	infra  error // the case itself is unusable (e.g. a hand-written script that does not parse)
}

func (vd *verdict) fail(v *evid.Violation) {
	if vd.seen[v.Sig] {
		return
	}
	vd.seen[v.Sig] = true
	if vd.ev != nil && vd.ev.IsKnown(v.Sig) {
		vd.ev.Report(v, vd.c)
		vd.labels = append(vd.labels, "known:"+v.Sig)
		return
	}
	if vd.first == nil {
		vd.first = v
	}
}

// bindingOf names the binding an offense at (script, stmt) is attributed to.
func bindingOf(c Case, si, k int) (name string, st *Stmt) {
	if si < 0 || si >= len(c.Scripts) {
		return "unattributed", nil
	}
	if k < 0 || k >= len(c.Scripts[si].Stmts) {
		return "outside-any-statement", nil
	}
	st = &c.Scripts[si].Stmts[k]
	if st.Mut != "" {
		return st.Mut, st
	}
	kind := st.Kind
	if i := strings.IndexByte(kind, '/'); i >= 0 {
		kind = kind[:i]
	}
	if kind == "" {
		kind = "unlabelled"
	}
	return "read-" + kind, st
}

func stmtText(c Case, si, k int) string {
	if si < 0 || si >= len(c.Scripts) || k < 0 || k >= len(c.Scripts[si].Stmts) {
		return "(no statement)"
	}
	return strings.TrimSpace(c.Scripts[si].Stmts[k].Lua)
}

// Validate rejects malformed (hand-written) cases.
func Validate(c Case) error {
	if c.Mode != "direct" && c.Mode != "cobra" {
		return fmt.Errorf("bad mode %q", c.Mode)
	}
	if len(c.Scripts) == 0 || len(c.Scripts) > 8 {
		return fmt.Errorf("%d scripts", len(c.Scripts))
	}
	names := map[string]bool{}
	for _, s := range c.Scripts {
		if s.Name == "" || names[s.Name] {
			return fmt.Errorf("script name %q empty or duplicate", s.Name)
		}
		names[s.Name] = true
	}
	if c.ReadOnly && c.HasMut() {
		return fmt.Errorf("read_only case with a mutating statement")
	}
	return nil
}

// Check evaluates one case. cobra may be nil in binaries without the
// white-box driver (cobra cases are then a harness failure).
func Check(c Case, ev *evid.Collector, cobra CobraFn) (*evid.Violation, *Infra) {
	if err := Validate(c); err != nil {
		return nil, &Infra{err}
	}
	w, err := Setup(c)
	if w != nil {
		defer w.Close()
	}
	if err != nil {
		return nil, &Infra{err}
	}
	vd := &verdict{c: c, ev: ev, seen: map[string]bool{}}
	regBefore := w.RegState()
	obs, err := Run(w, c, true, cobra)
	if err != nil {
		return nil, &Infra{err}
	}
	regAfter := w.RegState()

	// ---- clauses (1) and (2): nothing was changed --------------------------
	regOff := 0
	dirtyLayouts := map[string]bool{}
	for _, o := range obs.Offenses {
		name, st := bindingOf(c, o.Script, o.Stmt)
		where := "script " + scriptName(c, o.Script) + fmt.Sprintf(" statement %d", o.Stmt)
		switch o.Where {
		case "throttle":
			sig := "throttle-slot-leaked-by-script"
			if strings.HasPrefix(o.Detail, "appeared") {
				sig = "throttle-slot-count-wrong"
			}
			vd.fail(evid.V(sig,
				"%s mode: the parallelism throttle shared by all scripts lost a slot while %s (%s) was executing - nothing was running at the statement boundary, so every slot must be free; every later throttled call (image.copy, image.config, image.exportTar, image.importTar) of this and of every later script now blocks until its timeout (forever without one)\n  %s\nstatement:\n%s",
				c.Mode, where, name, o.Detail, indent(stmtText(c, o.Script, o.Stmt))))
		case "registry":
			regOff++
			vd.fail(evid.V("dryrun-write-by-"+name,
				"dry run (%s mode): a state-changing request reached a registry while %s (%s) was executing:\n  %s\nstatement:\n%s",
				c.Mode, where, name, o.Detail, indent(stmtText(c, o.Script, o.Stmt))))
		case "layout":
			onlyRemoved := true
			for _, ch := range o.Changes {
				if ch.What != "removed" && !(ch.What == "metadata-changed" && strings.Contains(ch.Det, "directory")) {
					onlyRemoved = false
				}
			}
			if st != nil && st.Mut == "reference.close" && onlyRemoved && dirtyLayouts[o.Layout] {
				// garbage collection of a layout that an earlier, already reported,
				// unguarded write of this run marked as modified: same defect
				vd.labels = append(vd.labels, "outcome:close-gc-after-reported-write")
				continue
			}
			dirtyLayouts[o.Layout] = true
			// (a file that is written again with the same bytes counts: with concurrent
			// scripts a listing may see one write of a statement in two parts, so the
			// signature must not depend on which kinds of difference one part holds)
			vd.fail(evid.V("dryrun-write-by-"+name,
				"dry run (%s mode): files of OCI layout %q were created / modified / removed while %s (%s) was executing:\n%sstatement:\n%s",
				c.Mode, o.Layout, where, name, o.Detail, indent(stmtText(c, o.Script, o.Stmt))))
		}
	}
	if obs.ThrottleMax > 0 && obs.ThrottleFree != obs.ThrottleMax {
		sig := "throttle-slot-leaked-by-script"
		if obs.ThrottleFree > obs.ThrottleMax {
			sig = "throttle-slot-count-wrong"
		}
		vd.fail(evid.V(sig, "cobra mode: after `regbot once` returned (no script is running any more) the drain test on its parallelism throttle (limit %d) let %d TryAcquire succeed: a script leaked a slot, later throttled calls of every script block until their timeout",
			obs.ThrottleMax, obs.ThrottleFree))
	}
	if regBefore != regAfter && regOff == 0 {
		return nil, &Infra{fmt.Errorf("model registry state changed without a state-changing request:\n%s", firstDiffLine(regBefore, regAfter))}
	}
	expectProbe := false
	for si, sc := range c.Scripts {
		if sc.Kind == "" && sc.Timeout != "1ms" && !obs.Scripts[si].TimedOut() && !obs.Scripts[si].Cancelled() && !obs.Cancelled {
			expectProbe = true
		}
	}
	if obs.Probes == 0 && expectProbe {
		errs := []string{}
		for _, so := range obs.Scripts {
			errs = append(errs, so.Err)
		}
		return nil, &Infra{fmt.Errorf("no statement boundary probe was observed (transport not wired to the model?) mode=%s cmdErr=%q scriptErrs=%q conf=%+v", c.Mode, obs.CmdErr, errs, c.Conf)}
	}

	// ---- clause (4): markers -------------------------------------------------
	checkMarkers(c, obs, vd)
	if vd.infra != nil {
		return nil, &Infra{vd.infra}
	}

	// ---- clause (3): read-only scripts behave as in a normal run -------------
	if c.ReadOnly && vd.first == nil && len(obs.Offenses) == 0 && len(c.CancelAt) != 2 {
		obsN, err := Run(w, c, false, cobra)
		if err != nil {
			return nil, &Infra{err}
		}
		if len(obsN.Offenses) > 0 {
			vd.labels = append(vd.labels, "outcome:readonly-script-changed-state-in-normal-run")
		}
		compareRuns(c, obs, obsN, vd)
		vd.labels = append(vd.labels, "clause:differential-run")
	}

	// ---- evidence --------------------------------------------------------------
	labels := caseLabels(c, obs)
	labels = append(labels, vd.labels...)
	if ev != nil {
		ev.Case(c.HasMut(), caseKey(c), labels...)
		ev.Sample(sampleOf(c))
	}
	return vd.first, nil
}

func scriptName(c Case, si int) string {
	if si < 0 || si >= len(c.Scripts) {
		return "?"
	}
	return fmt.Sprintf("%q (#%d)", c.Scripts[si].Name, si)
}

func indent(s string) string { return "    " + strings.ReplaceAll(s, "\n", "\n    ") }

func totalStmts(c Case) int {
	n := 0
	for _, s := range c.Scripts {
		n += len(s.Stmts)
	}
	return n
}

func firstDiffLine(a, b string) string {
	la, lb := strings.Split(a, "\n"), strings.Split(b, "\n")
	for i := 0; i < len(la) || i < len(lb); i++ {
		x, y := "", ""
		if i < len(la) {
			x = la[i]
		}
		if i < len(lb) {
			y = lb[i]
		}
		if x != y {
			return fmt.Sprintf("before: %q\nafter:  %q", x, y)
		}
	}
	return ""
}

// checkMarkers is clause (4). Per script it derives, from the log() messages,
// how far the script got: step markers k0..kJ in order, then possibly the end
// marker.
//   - a statement that unconditionally raises an unprotected error (Stmt.Raise)
//     must be the last one that starts: no later step marker, no end marker,
//     and the tool must report the script as failed;
//   - every script starts (its first marker is logged), whatever happened to
//     the scripts before it;
//   - a script gets at least as far as its first statement that is not wrapped
//     in pcall (Stmt.Safe); a script made of protected statements only reaches
//     its end marker, whatever happened to the other scripts;
//   - a script that the tool did not report as failed reached its end marker
//     (it was not cut short silently).
func checkMarkers(c Case, obs *Obs, vd *verdict) {
	if obs.CmdPanic != "" {
		vd.fail(evid.V("panic-escaped-command", "a Go panic left `regbot once`: %s", obs.CmdPanic))
		return
	}
	anyFailedBefore := false
	sequential := c.Mode != "cobra" || c.Parallel <= 0
	quiet := c.Quiet()
	// whether a script failed is the driver's return value (direct), the "Error
	// running script" warning (cobra, levels <= warn) or, at level error, only
	// known when the command returned no error at all (then nothing failed)
	failedKnown := c.Mode != "cobra" || c.Verbosity != "error" || obs.CmdErr == ""
	if quiet {
		vd.labels = append(vd.labels, "clause:markers-from-probes-only")
		if !failedKnown {
			vd.labels = append(vd.labels, "clause:script-outcome-unobservable")
			if obs.Cancelled {
				return // neither messages nor outcomes: nothing of clause (4) can be told apart from the cancellation
			}
		}
	}
	for si, s := range c.Scripts {
		so := obs.Scripts[si]
		if s.Kind != "" {
			// the empty script and a script that does not parse have no markers; what
			// matters is that the scripts after them are judged as usual
			if so.Failed {
				anyFailedBefore = true
			}
			if s.Kind == "badsyntax" && len(so.Msgs) > 0 {
				vd.fail(evid.V("unparsable-script-ran", "script %s does not parse but logged %q", scriptName(c, si), so.Msgs))
			}
			continue
		}
		if obs.Cancelled && so.Cancelled() {
			// the harness cancelled the command context (Case.CancelAt): how far this
			// script got is not judged; clauses (1), (2) and the throttle drain are
			vd.labels = append(vd.labels, "outcome:script-saw-cancelled-context-not-judged")
			if so.Failed {
				anyFailedBefore = true
			}
			continue
		}
		if so.TimedOut() {
			// Scripts run one after another here, so whenever a binding asks for a
			// throttle slot every slot must be free (Acquire then returns at once
			// without looking at the context): waiting for one until the deadline
			// means an earlier call never gave its slot back. The verdict does not
			// depend on the clock, the deadline only ends the wait.
			if sequential && so.BlockedOnThrottle() {
				sig := "script-blocked-after-own-earlier-call"
				if si > 0 {
					sig = "script-blocked-by-earlier-script"
				}
				vd.fail(evid.V(sig, "script %s waited for a slot of the parallelism throttle until its timeout although no other script was running (scripts run one after another in this configuration): an earlier call kept its slot; err=%q; last messages: %q",
					scriptName(c, si), so.Err, tail(so.Msgs, 4)))
			} else {
				// a deadline that fires for any other reason is wall clock: not judged
				vd.labels = append(vd.labels, "outcome:script-timeout-fired-not-judged")
			}
			if so.Failed {
				anyFailedBefore = true
			}
			continue
		}
		if so.Panic != "" {
			vd.fail(evid.V("panic-escaped-runscript", "a Go panic left Sandbox.RunScript of script %s: %s", scriptName(c, si), so.Panic))
			anyFailedBefore = true
			continue
		}
		if quiet && !failedKnown && s.Timeout == "1ms" {
			anyFailedBefore = true
			continue // an expired deadline cannot be recognised without the script's error
		}
		reached := -1
		end := false
		bad := ""
		if quiet && si < len(obs.ProbeReached) {
			// the log level drops log(): the boundary probes tell how far the script got
			reached = obs.ProbeReached[si]
			if reached >= len(s.Stmts) {
				reached, end = len(s.Stmts)-1, true
			}
		}
		for _, m := range so.Msgs {
			if !strings.HasPrefix(m, MarkPrefix+" ") {
				continue
			}
			var gs, gk int
			if m == EndMark(si) {
				if end {
					bad = "end marker logged twice"
				}
				end = true
				continue
			}
			if n, _ := fmt.Sscanf(m, MarkPrefix+" s%d k%d", &gs, &gk); n == 2 && gs == si {
				if gk != reached+1 || end {
					bad = fmt.Sprintf("step marker k%d after k%d (end=%v)", gk, reached, end)
				}
				reached = gk
			}
		}
		if bad != "" {
			vd.fail(evid.V("script-markers-out-of-order", "script %s: %s; messages: %q", scriptName(c, si), bad, so.Msgs))
			continue
		}
		started := reached >= 0 || end
		if !started && so.Failed && (strings.Contains(so.Err, "syntax error") || strings.Contains(so.Err, "parse error")) {
			vd.infra = fmt.Errorf("script %s does not parse: %s", scriptName(c, si), so.Err)
			return
		}
		if !started {
			sig := "script-never-started"
			if anyFailedBefore {
				sig = "script-not-run-after-earlier-script-failed"
			}
			vd.fail(evid.V(sig, "script %s produced no marker at all (failed=%v err=%q); an earlier script failed: %v; command error: %q",
				scriptName(c, si), so.Failed, so.Err, anyFailedBefore, obs.CmdErr))
			if so.Failed {
				anyFailedBefore = true
			}
			continue
		}
		if end && reached != len(s.Stmts)-1 {
			vd.fail(evid.V("script-markers-out-of-order", "script %s: end marker after step k%d of %d", scriptName(c, si), reached, len(s.Stmts)))
		}
		// the raise clause
		for k := 0; k <= reached && k < len(s.Stmts); k++ {
			if !s.Stmts[k].Raise {
				continue
			}
			if reached > k || end {
				vd.fail(evid.V("raise-did-not-stop-script", "script %s: statement %d raises an unprotected error but the script went on (reached step k%d, end marker %v)\nstatement:\n%s",
					scriptName(c, si), k, reached, end, indent(stmtText(c, si, k))))
			} else if !so.Failed {
				vd.labels = append(vd.labels, "outcome:raised-script-not-reported-failed")
			}
			break
		}
		// a script must get at least as far as its first statement that can raise
		// at top level (every statement before it is wrapped in pcall)
		must := len(s.Stmts) // index of the first statement that may stop the script (len = none: must reach the end)
		for k, st := range s.Stmts {
			if !st.Safe {
				must = k
				break
			}
		}
		if failedKnown && ((must == len(s.Stmts) && !end) || (must < len(s.Stmts) && reached < must)) {
			vd.fail(evid.V("script-stopped-without-raising", "script %s stopped after step k%d (end marker %v) although every statement before statement %d is wrapped in pcall and cannot stop it; failed=%v err=%q; an earlier script failed: %v; messages: %q",
				scriptName(c, si), reached, end, must, so.Failed, so.Err, anyFailedBefore, tail(so.Msgs, 6)))
		}
		if failedKnown && !so.Failed && !end {
			vd.fail(evid.V("script-cut-short-silently", "script %s stopped after step k%d of %d without its end marker and without being reported as failed; messages: %q",
				scriptName(c, si), reached, len(s.Stmts), tail(so.Msgs, 6)))
		}
		if so.Failed && end {
			vd.labels = append(vd.labels, "outcome:script-reported-failed-after-end-marker")
		}
		if so.Failed || !failedKnown {
			anyFailedBefore = true
		}
	}
}

func tail(s []string, n int) []string {
	if len(s) > n {
		return s[len(s)-n:]
	}
	return s
}

var addrRE = regexp.MustCompile(`0x[0-9a-f]+`)

// compareRuns is clause (3): per script, the sequence of log() messages and
// the failed / not failed outcome of the dry run equal those of the normal run.
func compareRuns(c Case, dry, nor *Obs, vd *verdict) {
	for si := range c.Scripts {
		a, b := dry.Scripts[si], nor.Scripts[si]
		if c.Scripts[si].Kind != "" {
			continue
		}
		if a.TimedOut() || b.TimedOut() {
			continue // wall clock (checkMarkers has judged a wait for the throttle)
		}
		k := -1 // statement in which the first difference lies
		diffAt := -1
		for i := 0; i < len(a.Msgs) || i < len(b.Msgs); i++ {
			x, y := "<nothing>", "<nothing>"
			if i < len(a.Msgs) {
				x = a.Msgs[i]
			}
			if i < len(b.Msgs) {
				y = b.Msgs[i]
			}
			if x != y {
				diffAt = i
				break
			}
			var gs, gk int
			if n, _ := fmt.Sscanf(x, MarkPrefix+" s%d k%d", &gs, &gk); n == 2 {
				k = gk
			}
		}
		// an error value that is a table prints as its address: mask addresses
		// (a deadline is wall clock: where the script's error is not observable a
		// script with any timeout is left out, one with an expired deadline always)
		errSeen := c.Mode != "cobra" || c.Verbosity != "error"
		hasTimeout := c.Scripts[si].Timeout != "" || c.DefTimeout != ""
		// ratelimitWait's own timeout argument is a deadline as well (its HEAD request
		// fails with it on a slow machine): same rule
		for _, st := range c.Scripts[si].Stmts {
			for _, cl := range st.Calls {
				if cl == "image.ratelimitWait" || cl == "manifest:ratelimitWait" {
					hasTimeout = true
				}
			}
		}
		if diffAt < 0 && c.Scripts[si].Timeout != "1ms" && (errSeen || !hasTimeout) &&
			si < len(dry.ProbeReached) && si < len(nor.ProbeReached) && dry.ProbeReached[si] != nor.ProbeReached[si] {
			vd.fail(evid.V("dryrun-progress-differs-from-normal-run", "read-only script %s: the dry run got to statement boundary %d, the normal run on identical state to %d (same messages)",
				scriptName(c, si), dry.ProbeReached[si], nor.ProbeReached[si]))
			continue
		}
		if diffAt < 0 && a.Failed == b.Failed && addrRE.ReplaceAllString(a.Err, "0x?") == addrRE.ReplaceAllString(b.Err, "0x?") {
			continue
		}
		name, _ := bindingOf(c, si, k)
		if diffAt >= 0 {
			x, y := "<nothing>", "<nothing>"
			if diffAt < len(a.Msgs) {
				x = a.Msgs[diffAt]
			}
			if diffAt < len(b.Msgs) {
				y = b.Msgs[diffAt]
			}
			vd.fail(evid.V("dryrun-differs-from-normal-run-in-"+name,
				"read-only script %s: log message %d differs between the dry run and the normal run on identical state (statement %d, %s)\n  dry run: %q\n  normal:  %q\nstatement:\n%s",
				scriptName(c, si), diffAt, k, name, x, y, indent(stmtText(c, si, k))))
			continue
		}
		vd.fail(evid.V("dryrun-outcome-differs-from-normal-run-in-"+name,
			"read-only script %s: same messages but different outcome: dry run failed=%v err=%q, normal run failed=%v err=%q",
			scriptName(c, si), a.Failed, a.Err, b.Failed, b.Err))
	}
}

// ---------------------------------------------------------------- evidence

func caseKey(c Case) string {
	var sb strings.Builder
	sb.WriteString(c.Mode)
	for _, s := range c.Scripts {
		sb.WriteString("\x00")
		for _, st := range s.Stmts {
			sb.WriteString(st.Lua)
			sb.WriteString("\x01")
		}
	}
	return sb.String()
}

func caseLabels(c Case, obs *Obs) []string {
	set := map[string]bool{}
	set["mode:"+c.Mode] = true
	set[fmt.Sprintf("scripts:%d", len(c.Scripts))] = true
	if c.Mode == "cobra" {
		if c.Parallel > 0 {
			set["cobra:concurrent-scripts"] = true
		} else {
			set["cobra:sequential-scripts"] = true
		}
	}
	if c.ReadOnly {
		set["case:read-only"] = true
	}
	if len(c.CancelAt) == 2 {
		set["ctx:harness-cancels-command-context"] = true
	}
	if c.DefTimeout != "" {
		set["conf:defaults.timeout"] = true
	}
	set["conf:verbosity="+c.Verbosity] = true
	if c.Mode == "cobra" {
		set[fmt.Sprintf("conf:cli-arg-style-%d", c.Conf.ArgStyle)] = true
		if c.Conf.Stdin {
			set["conf:config-on-stdin"] = true
		}
		set[fmt.Sprintf("conf:yaml-style-%d", c.YAMLStyle)] = true
	}
	for l, on := range map[string]bool{"conf:docker-config-loaded": c.Conf.LoadDockerConf, "conf:userAgent": c.Conf.UserAgent != "", "conf:blobLimit": c.Conf.BlobLimit != 0,
		"conf:interval": c.Conf.Sched == 1, "conf:schedule": c.Conf.Sched == 2, "conf:no-version": c.Conf.NoVersion, "conf:x-extension+anchor": c.Conf.XExt, "conf:cred-extras": c.Conf.CredExtras} {
		if on {
			set[l] = true
		}
	}
	for _, hc := range c.Hosts {
		if hc.RateRemain > 0 {
			set["host:ratelimit-headers"] = true
		}
		if hc.User != "" {
			set["host:basic-auth"] = true
		}
	}
	for _, p := range c.Places {
		set["place:"+p.Kind] = true
	}
	for _, g := range c.Graphs {
		if g == nil {
			continue
		}
		for _, l := range g.Labels {
			set["graph:"+l] = true
		}
	}
	cfgRaiseBefore := false // a config-on-list statement in an earlier script
	for si, s := range c.Scripts {
		raised := false
		cfgRaiseHere := false
		if s.Kind != "" {
			set["script:"+s.Kind] = true
			if si < len(c.Scripts)-1 {
				set["script:"+s.Kind+"-with-later-scripts"] = true
			}
		}
		if s.Timeout == "1ms" {
			set["ctx:script-timeout-1ms"] = true
		}
		for k, st := range s.Stmts {
			thr := false
			for _, cl := range st.Calls {
				thr = thr || Throttled[cl]
			}
			if thr && cfgRaiseHere {
				set["class:config-raise-then-throttled-call-same-script"] = true
			}
			if thr && cfgRaiseBefore {
				set["class:config-raise-then-throttled-call-later-script"] = true
			}
			if st.Kind == "image.config/on-list" {
				cfgRaiseHere = true
				if st.Safe {
					set["class:config-raise-under-pcall"] = true
				} else {
					set["class:config-raise-unprotected"] = true
				}
			}
			set["stmt:"+st.Kind] = true
			if st.Mut != "" {
				set["MUTATING:"+st.Mut] = true
				if strings.Contains(st.Lua, "ocidir://") {
					set["MUTATING-on-layout:"+st.Mut] = true
				}
			}
			for _, cl := range st.Calls {
				set["call:"+cl] = true
			}
			for _, a := range st.Args {
				set["arg:"+a] = true
			}
			if st.Raise {
				set["script:has-unprotected-raise"] = true
				if k < len(s.Stmts)-1 {
					set["script:raise-before-last-statement"] = true
				}
			}
			if strings.Contains(st.Lua, "pcall(") {
				set["ctl:pcall"] = true
			}
			if strings.Contains(st.Lua, "xpcall(") {
				set["ctl:xpcall"] = true
			}
			if strings.Contains(st.Lua, "coroutine.wrap") {
				set["ctl:coroutine.wrap"] = true
			}
			if strings.Contains(st.Lua, "coroutine.resume") {
				set["ctl:coroutine.resume"] = true
			}
			if strings.Contains(st.Lua, "local f_") {
				set["ctl:binding-called-through-alias"] = true
			}
			if strings.Contains(st.Lua, "ok0") {
				set["ctl:caught-error-then-call-in-same-statement"] = true
				if st.Mut != "" {
					set["ctl:caught-error-then-MUTATING-call-in-same-statement"] = true
				}
			}
			if strings.Contains(st.Lua, "for _, ") {
				set["ctl:loop-over-listing"] = true
			}
			if strings.Contains(st.Lua, "if ") {
				set["ctl:conditional"] = true
			}
		}
		cfgRaiseBefore = cfgRaiseBefore || cfgRaiseHere
		if obs != nil && si < len(obs.Scripts) {
			for _, m := range append([]string{obs.Scripts[si].Err}, obs.Scripts[si].Msgs...) {
				if strings.Contains(m, "Image methods are not available") {
					set["outcome:config-call-raised-after-taking-throttle"] = true
				}
			}
			if obs.Scripts[si].Failed {
				raised = true
				set["outcome:script-failed"] = true
				if si < len(c.Scripts)-1 {
					set["outcome:script-failed-with-later-scripts"] = true
				}
			} else {
				set["outcome:script-completed"] = true
			}
		}
		_ = raised
	}
	out := make([]string, 0, len(set))
	for l := range set {
		out = append(out, l)
	}
	sort.Strings(out)
	return out
}

// sampleOf is the written-out form kept in the evidence (graphs elided).
func sampleOf(c Case) any {
	type ss struct {
		Name  string   `json:"name"`
		Stmts []string `json:"stmts"`
	}
	var scripts []ss
	for _, s := range c.Scripts {
		x := ss{Name: s.Name}
		for _, st := range s.Stmts {
			x.Stmts = append(x.Stmts, st.Lua)
		}
		scripts = append(scripts, x)
	}
	return map[string]any{"mode": c.Mode, "parallel": c.Parallel, "read_only": c.ReadOnly, "places": c.Places, "hosts": c.Hosts, "scripts": scripts}
}
