package c19

import (
	"fmt"
	"sort"
	"strconv"
	"strings"

	"pgregory.net/rapid"

	"github.com/regclient/regclient/zz_verif/imggen"
)

// placeInfo is what the generator knows about the content of a place.
type placeInfo struct {
	p        Place
	tags     []string
	mans     []string          // manifest digests
	blobs    []string          // blob digests
	tagDig   map[string]string // tag -> manifest digest
	listTags []string          // tags of indexes / manifest lists
	artTags  []string          // tags of artifact manifests (no image methods)
}

// Throttled is the set of bindings that take a slot of the parallelism
// throttle shared by all scripts (defaults.parallel).
var Throttled = map[string]bool{"image.config": true, "manifest:config": true, "image.copy": true, "image.exportTar": true, "image.importTar": true}

type sgen struct {
	t      *rapid.T
	c      *Case
	si, k  int
	infos  []placeInfo
	usable []int // indices into infos this script may use
	ro     bool
	// blobGets is the number of blob.get calls each registry host may still
	// receive in this case. Implicit precondition of the tool, not of the
	// property: the reader blob.get returns is never closed by the sandbox and
	// keeps one of the host's 3 request slots (config reqConcurrent) for the life
	// of the client, so a 4th request to that host would block until the script's
	// timeout (forever without one). Termination is not what C19 states; the
	// generator keeps every case below that limit.
	blobGets map[string]int
	// afterCfg is set once a statement whose image.config call is expected to
	// raise after it took the throttle was generated: later statements of this and
	// of later scripts are then biased towards throttled calls.
	afterCfg *bool
	// match is the digest of the content the statement under construction writes
	// (when known); forceMatch makes tgtFor use it.
	match      string
	matchLabel string
	forceMatch bool
}

// canBlobGet reserves one blob.get on the place's host (layouts are unlimited).
func (g *sgen) canBlobGet(pi placeInfo) bool {
	if pi.p.Kind != "reg" {
		return true
	}
	if g.blobGets[pi.p.Host] <= 0 {
		return false
	}
	g.blobGets[pi.p.Host]--
	return true
}

func q(s string) string { return strconv.Quote(s) }

// uniform draws 0..n-1 (nearly) uniformly. rapid's integer generators are
// deliberately biased towards small values, which would make the first
// template of every switch dominate the distribution; a value assembled from
// unbiased boolean draws is not (and still shrinks towards 0).
func uniform(t *rapid.T, n int, label string) int {
	if n <= 1 {
		return 0
	}
	bits := 3
	for 1<<(bits-3) < n {
		bits++
	}
	v := 0
	for i := 0; i < bits; i++ {
		v <<= 1
		if rapid.Bool().Draw(t, label) {
			v |= 1
		}
	}
	return v % n
}

func (g *sgen) draw(n int, label string) int { return uniform(g.t, n, label) }

func (g *sgen) chance(pct int, label string) bool { return uniform(g.t, 100, label) < pct }

func (g *sgen) pick(list []string, label, dflt string) string {
	if len(list) == 0 {
		return dflt
	}
	return list[g.draw(len(list), label)]
}

// place picks a usable place; kind "" = any.
func (g *sgen) place(kind, label string) placeInfo {
	var cand []int
	for _, i := range g.usable {
		if kind == "" || g.infos[i].p.Kind == kind {
			cand = append(cand, i)
		}
	}
	if len(cand) == 0 {
		cand = g.usable
	}
	return g.infos[cand[g.draw(len(cand), label)]]
}

// tagOf picks a tag: mostly one that exists.
func (g *sgen) tagOf(pi placeInfo, label string) string {
	switch x := g.draw(20, label+"_tk"); {
	case x < 16:
		return g.pick(pi.tags, label+"_t", "v1")
	case x < 18:
		return "nope"
	default:
		return fmt.Sprintf("w%d-%d", g.si, g.k)
	}
}

const bogusDigest = "sha256:00000000000000000000000000000000000000000000000000000000000000c1"

// refExpr renders a reference to base (+ tag / digest) in one of the forms the
// API accepts: a string, a reference object, a reference object whose tag /
// digest was set afterwards. forceStr forces the string form.
func (g *sgen) refExpr(base, tag, dig string, forceStr bool, label string, calls *[]string) string {
	full := base
	if tag != "" {
		full += ":" + tag
	}
	if dig != "" {
		full += "@" + dig
	}
	form := g.draw(6, label+"_form")
	if forceStr || form <= 1 {
		return q(full)
	}
	*calls = append(*calls, "reference.new")
	if form == 5 && (tag != "" || dig != "") {
		// derived through the reference methods of another reference
		var sb strings.Builder
		sb.WriteString("(function() local s = reference.new(" + q(full) + ") local r = reference.new(" + q(base) + ")")
		if tag != "" {
			sb.WriteString(" r:tag(s:tag())")
			*calls = append(*calls, "reference:tag")
		}
		if dig != "" {
			sb.WriteString(" r:digest(s:digest())")
			*calls = append(*calls, "reference:digest")
		}
		sb.WriteString(" return r end)()")
		return sb.String()
	}
	if form == 2 || (tag == "" && dig == "") {
		return "reference.new(" + q(full) + ")"
	}
	// object with setters
	var sb strings.Builder
	sb.WriteString("(function() local r = reference.new(" + q(base) + ")")
	if tag != "" {
		sb.WriteString(" r:tag(" + q(tag) + ")")
		*calls = append(*calls, "reference:tag")
	}
	if dig != "" {
		sb.WriteString(" r:digest(" + q(dig) + ")")
		*calls = append(*calls, "reference:digest")
	}
	sb.WriteString(" return r end)()")
	return sb.String()
}

// srcRef is a reference to (mostly) existing content of a usable place.
func (g *sgen) srcRef(kind, label string, forceStr bool, calls *[]string) (string, placeInfo) {
	pi := g.place(kind, label+"_pl")
	if g.draw(8, label+"_bydig") == 0 {
		d := g.pick(pi.mans, label+"_d", bogusDigest)
		return g.refExpr(pi.p.Base(), "", d, forceStr, label, calls), pi
	}
	return g.refExpr(pi.p.Base(), g.tagOf(pi, label), "", forceStr, label, calls), pi
}

// tgtRef is where a writing statement points: a new or existing tag of a
// usable place, a layout directory that does not exist yet, or a new repository.
func (g *sgen) tgtRef(label string, forceStr bool, calls *[]string) string {
	pi := g.place("", label+"_pl")
	if !forceStr && g.k > 0 && g.draw(8, label+"_global") == 0 {
		return "(G_r or " + q(pi.p.Base()+fmt.Sprintf(":w%d-%d", g.si, g.k)) + ")"
	}
	switch x := g.draw(20, label+"_tk"); {
	case x < 11:
		return g.refExpr(pi.p.Base(), fmt.Sprintf("w%d-%d", g.si, g.k), "", forceStr, label, calls)
	case x < 16:
		return g.refExpr(pi.p.Base(), g.pick(pi.tags, label+"_t", "v1"), "", forceStr, label, calls)
	case x < 18:
		return g.refExpr("ocidir://"+RootToken+"/lay/"+fmt.Sprintf("new%d-%d", g.si, g.k), "t", "", forceStr, label, calls)
	case x < 19 && pi.p.Kind == "reg":
		return g.refExpr(pi.p.Host+"/"+fmt.Sprintf("new%d/r%d", g.si, g.k), "t", "", forceStr, label, calls)
	default:
		return g.refExpr(pi.p.Base(), "", "", forceStr, label, calls) // no tag: "latest"
	}
}

type body struct {
	kind  string
	mut   string
	lua   []string
	calls []string
	args  []string // argument-kind labels ("<binding>:<what>=<kind>")
	raise bool     // raises unconditionally when unprotected
}

func (b *body) add(format string, a ...any) { b.lua = append(b.lua, fmt.Sprintf(format, a...)) }

func (b *body) call(names ...string) { b.calls = append(b.calls, names...) }

var platformsLua = []string{"linux/amd64", "linux/arm64", "linux/arm/v7", "windows/amd64", "not a platform"}

// getManifest emits `local m = <some way of retrieving a full manifest>(src)`.
func (g *sgen) getManifest(b *body, src, label string, allowHead bool) {
	n := 6
	if allowHead {
		n = 8
	}
	if g.k > 0 && g.draw(5, label+"_global") == 0 {
		// data flow across statements: an object left behind by an earlier statement
		b.add("local m = G_m or manifest.get(%s)", src)
		b.call("manifest.get")
		return
	}
	switch g.draw(n, label+"_how") {
	case 0, 1:
		b.add("local m = manifest.get(%s)", src)
		b.call("manifest.get")
	case 2:
		b.add("local m = manifest.get(%s, %s)", src, q(g.pick(platformsLua, label+"_plat", "linux/amd64")))
		b.call("manifest.get")
	case 3:
		b.add("local m = manifest.getList(%s)", src)
		b.call("manifest.getList")
	case 4:
		fn := g.pick([]string{"manifest", "manifestList"}, label+"_imgfn", "manifest")
		b.add("local m = image.%s(%s)", fn, src)
		b.call("image." + fn)
	case 5:
		b.add("local m = manifest.head(%s):get()", src)
		b.call("manifest.head", "manifest:get")
	case 6:
		b.add("local m = manifest.head(%s)", src)
		b.call("manifest.head")
	default:
		b.add("local m = image.manifestHead(%s)", src)
		b.call("image.manifestHead")
	}
}

// ---------------------------------------------------------------- read-only bodies

func (g *sgen) readBody() *body {
	b := &body{}
	cs := &b.calls
	switch x := g.draw(100, "rk"); {
	case x < 10:
		b.kind = "tag.ls"
		pi := g.place("", "pl")
		b.add("local tags = tag.ls(%s)", g.refExpr(pi.p.Base(), "", "", false, "ref", cs))
		b.add(`log("tags " .. #tags .. " " .. j(tags))`)
		b.call("tag.ls")
	case x < 16:
		b.kind = "repo.ls"
		host := g.pick([]string{HostA, HostB}, "host", HostA)
		switch g.draw(4, "opts") {
		case 0:
			b.add("local rs = repo.ls(%s, {limit = %d})", q(host), 1+g.draw(3, "lim"))
		case 1:
			b.add("local rs = repo.ls(%s, {limit = %d, last = %s})", q(host), 1+g.draw(3, "lim"), q(g.pick([]string{"a", "lib/base", "proj/app", "zz"}, "last", "a")))
		default:
			b.add("local rs = repo.ls(%s)", q(host))
		}
		b.add(`log("repos " .. j(rs))`)
		b.call("repo.ls")
	case x < 30:
		b.kind = "manifest.get"
		src, _ := g.srcRef("", "src", false, cs)
		g.getManifest(b, src, "gm", true)
		b.add(`log("manifest " .. tostring(m))`)
		b.call("manifest.__tostring")
		if g.chance(40, "keep") {
			b.add(`G_m = m`)
		}
		if g.chance(50, "fields") {
			b.add(`log("fields " .. tostring(m.mediaType) .. " " .. tostring(m.schemaVersion) .. " layers=" .. tostring(m.layers and #m.layers) .. " manifests=" .. tostring(m.manifests and #m.manifests))`)
			b.add(`if m.manifests then for i, d in ipairs(m.manifests) do log("entry " .. i .. " " .. tostring(d.digest) .. " " .. tostring(d.platform and d.platform.architecture)) end end`)
			b.add(`if m.config then log("config " .. tostring(m.config.digest) .. " " .. tostring(m.config.size)) end`)
		}
	case x < 38:
		b.kind = "manifest.head"
		src, _ := g.srcRef("", "src", false, cs)
		if g.chance(50, "imgfn") {
			b.add("local m = image.manifestHead(%s)", src)
			b.call("image.manifestHead")
		} else {
			b.add("local m = manifest.head(%s)", src)
			b.call("manifest.head")
		}
		switch g.draw(4, "then") {
		case 0:
			b.add(`local rl = m:ratelimit()`)
			b.add(`log("ratelimit " .. tostring(rl.Set) .. " " .. tostring(rl.Remain) .. " " .. tostring(rl.Limit))`)
			b.call("manifest:ratelimit")
		case 1:
			b.add(`local full = m:get()`)
			b.add(`log("full " .. tostring(full))`)
			b.call("manifest:get", "manifest.__tostring")
		case 2:
			b.add(`local h2 = m:head()`)
			b.add(`log("head again " .. tostring(h2))`)
			b.call("manifest:head", "manifest.__tostring")
		default:
			b.add(`log("head " .. tostring(m))`)
			b.call("manifest.__tostring")
		}
	case x < 48:
		b.kind = "image.config"
		src, _ := g.srcRef("", "src", false, cs)
		switch g.draw(3, "how") {
		case 0:
			b.add("local c = image.config(%s)", src)
			b.call("image.config")
		case 1:
			b.add("local c = manifest.get(%s):config()", src)
			b.call("manifest.get", "manifest:config")
		default:
			b.add("local c = image.config(manifest.get(%s, %s))", src, q(g.pick(platformsLua, "plat", "linux/amd64")))
			b.call("manifest.get", "image.config")
		}
		b.add(`log("config " .. tostring(c))`)
		b.add(`log("arch " .. tostring(c.architecture) .. "/" .. tostring(c.os) .. " env=" .. j(c.config and c.config.Env))`)
		b.call("imageconfig.__tostring")
		if g.chance(50, "export") {
			b.add(`if c.config and c.config.Env then c.config.Env[#c.config.Env + 1] = "C19=%d" end`, g.k)
			b.add(`local c2 = c:export()`)
			b.add(`log("exported " .. tostring(c2))`)
			b.call("imageconfig:export")
		}
	case x < 58:
		b.kind = g.pick([]string{"blob.get", "blob.head"}, "fn", "blob.get")
		pi := g.place("", "pl")
		if b.kind == "blob.get" && !g.canBlobGet(pi) {
			b.kind = "blob.head"
		}
		d := g.pick(pi.blobs, "dig", bogusDigest)
		if g.draw(8, "bogus") == 0 {
			d = bogusDigest
		}
		switch g.draw(4, "how") {
		case 0:
			b.add("local b = %s(%s)", b.kind, g.refExpr(pi.p.Base(), "", d, false, "ref", cs))
		case 1:
			b.add("local m = manifest.get(%s)", g.refExpr(pi.p.Base(), g.tagOf(pi, "mt"), "", false, "mref", cs))
			b.add("local b = %s(m, m.config.digest)", b.kind)
			b.call("manifest.get")
		default:
			b.add("local b = %s(%s, %s)", b.kind, g.refExpr(pi.p.Base(), g.pick([]string{"", "v1", "nope"}, "bt", ""), "", false, "ref", cs), q(d))
		}
		b.add(`log("blob " .. type(b))`)
		b.call(b.kind)
		if g.draw(3, "method") == 0 {
			fn := g.pick([]string{"get", "head"}, "mfn", "get")
			b.add(`local b2 = b:%s(%s)`, fn, q(d))
			b.add(`log("blob method " .. type(b2))`)
			b.call("blob:" + fn)
		}
	case x < 66:
		b.kind = "manifest:export"
		src, _ := g.srcRef("", "src", false, cs)
		g.getManifest(b, src, "gm", false)
		switch g.draw(4, "edit") {
		case 0:
			b.add(`if m.annotations then m.annotations["org.example.c19"] = "edited" end`)
		case 1:
			b.add(`if m.layers and m.layers[1] then m.layers[1].annotations = {["org.example.c19"] = "layer"} end`)
		case 2:
			b.add(`if m.manifests and m.manifests[1] then m.manifests[1].annotations = {["org.example.c19"] = "entry"} end`)
		default:
			b.add(`m.annotations = {["org.example.c19"] = "top"}`)
		}
		b.add(`local m2 = m:export()`)
		b.add(`log("exported " .. tostring(m2))`)
		b.call("manifest:export", "manifest.__tostring")
	case x < 74:
		b.kind = "reference"
		pi := g.place("", "pl")
		tag := g.tagOf(pi, "tag")
		b.add("local r = reference.new(%s)", q(pi.p.Base()+":"+tag))
		b.add(`log("ref " .. tostring(r) .. " tag=" .. r:tag() .. " digest=" .. r:digest())`)
		b.add(`r:tag(string.upper(%s) .. "-x")`, q(g.pick([]string{"ab", "v2", "rc"}, "nt", "ab")))
		b.add(`log("retagged " .. tostring(r) .. " " .. string.len(r:tag()))`)
		if g.chance(40, "keep") {
			b.add(`G_r = r`)
		}
		if g.chance(50, "dig") {
			b.add(`r:digest(%s)`, q(g.pick(pi.mans, "d", bogusDigest)))
			b.add(`log("with digest " .. tostring(r) .. " " .. string.sub(r:digest(), 1, 12))`)
		}
		b.call("reference.new", "reference.__tostring", "reference:tag", "reference:digest")
	case x < 79:
		b.kind = "image.ratelimitWait"
		src, _ := g.srcRef("", "src", false, cs)
		if g.chance(50, "method") {
			lim := g.rateLimitArg()
			b.add(`local ok = manifest.head(%s):ratelimitWait(%d, "1ms", %s)`, src, lim, q(rateTimeout(lim)))
			b.call("manifest.head", "manifest:ratelimitWait")
		} else {
			switch g.draw(4, "rlargs") {
			case 0:
				b.add(`local ok = image.ratelimitWait(%s, %d)`, src, 1+g.draw(50, "lim")) // default poll 5m / timeout 6h: never waits, the limit is below what any host announces
			case 1:
				b.add(`local ok = image.ratelimitWait(%s, %d, "1ms")`, src, 1+g.draw(50, "lim"))
			default:
				lim := g.rateLimitArg()
				b.add(`local ok = image.ratelimitWait(%s, %d, "1ms", %s)`, src, lim, q(rateTimeout(lim)))
			}
			b.call("image.ratelimitWait")
		}
		b.add(`log("ratelimitWait " .. tostring(ok))`)
	case x < 85:
		b.kind = "image.exportTar"
		src, _ := g.srcRef("", "src", false, cs)
		b.add(`image.exportTar(%s, %s)`, src, q(fmt.Sprintf("%s/scratch/export-%d-%d.tar", RootToken, g.si, g.k)))
		b.add(`log("exported tar")`)
		b.call("image.exportTar")
	case x < 93:
		b.kind = "loop-read"
		pi := g.place("", "pl")
		b.add("local base = %s", q(pi.p.Base()))
		b.add("for _, t in ipairs(tag.ls(base)) do")
		b.add("  local r = reference.new(base)")
		b.add("  r:tag(t)")
		switch g.draw(3, "inner") {
		case 0:
			b.add(`  if string.find(t, "^v") then log("tag " .. t .. " -> " .. tostring(manifest.head(r))) else log("skip " .. t) end`)
			b.call("manifest.head", "manifest.__tostring")
		case 1:
			b.add(`  local m = manifest.getList(r)`)
			b.add(`  log("tag " .. t .. " " .. tostring(m.mediaType) .. " " .. string.len(tostring(m)))`)
			b.call("manifest.getList", "manifest.__tostring")
		default:
			b.add(`  local ok, err = pcall(image.config, r)`)
			b.add(`  log("tag " .. t .. " config " .. tostring(ok) .. " " .. (ok and tostring(err.architecture) or es(err)))`)
			b.call("image.config")
		}
		b.add("end")
		b.call("tag.ls", "reference.new", "reference:tag")
	default:
		return g.errorBody()
	}
	return b
}

// configOnListBody calls image.config / <manifest>:config with a manifest that
// has no image methods (a manifest list, an artifact manifest): the binding
// raises after it has taken its throttle slot.
func (g *sgen) configOnListBody() *body {
	b := &body{kind: "image.config/on-list"}
	cs := &b.calls
	pi := g.place("", "pl")
	for try := 0; try < 3 && len(pi.listTags) == 0; try++ {
		pi = g.place("", "pl2")
	}
	tag := g.pick(pi.listTags, "lt", g.pick(pi.tags, "anyt", "v1"))
	ref := g.refExpr(pi.p.Base(), tag, "", false, "ref", cs)
	switch x := g.draw(5, "how"); {
	case x == 0:
		b.add("local c = image.config(manifest.getList(%s))", ref)
		b.call("manifest.getList", "image.config")
	case x == 1:
		b.add("local m = manifest.getList(%s)", ref)
		b.add("local c = m:config()")
		b.call("manifest.getList", "manifest:config")
	case x == 2:
		b.add("local c = image.config(image.manifestList(%s))", ref)
		b.call("image.manifestList", "image.config")
	case x == 3 && len(pi.artTags) > 0:
		b.add("local c = image.config(%s)", g.refExpr(pi.p.Base(), g.pick(pi.artTags, "at", "v1"), "", false, "aref", cs))
		b.call("image.config")
	default:
		b.add("local m = manifest.getList(%s)", ref)
		b.add(`log("list " .. tostring(m.mediaType))`)
		b.add("local c = image.config(m)")
		b.call("manifest.getList", "image.config")
	}
	b.add(`log("config " .. tostring(c))`)
	*g.afterCfg = true
	return b
}

// followBody is a throttled call (used after a configOnListBody somewhere before).
func (g *sgen) followBody() *body {
	b := &body{}
	cs := &b.calls
	n := 2
	if !g.ro {
		n = 5
	}
	src, _ := g.srcRef("", "src", false, cs)
	switch g.draw(n, "fk") {
	case 0:
		b.kind = "image.config"
		b.add("local c = image.config(%s)", src)
		b.add(`log("arch " .. tostring(c.architecture) .. "/" .. tostring(c.os))`)
		b.call("image.config")
	case 1:
		b.kind = "image.exportTar"
		b.add(`image.exportTar(%s, %s)`, src, q(fmt.Sprintf("%s/scratch/export-%d-%d.tar", RootToken, g.si, g.k)))
		b.add(`log("exported tar")`)
		b.call("image.exportTar")
	case 2, 3:
		b.kind, b.mut = "image.copy", "image.copy"
		b.add("image.copy(%s, %s)", src, g.tgtRef("tgt", false, cs))
		b.add(`log("copied")`)
		b.call("image.copy")
	default:
		b.kind, b.mut = "image.importTar", "image.importTar"
		b.add("image.importTar(%s, %s)", g.tgtRef("tgt", false, cs), q(RootToken+"/scratch/import.tar"))
		b.add(`log("imported")`)
		b.call("image.importTar")
	}
	return b
}

func (g *sgen) errorBody() *body {
	b := &body{kind: "error", raise: true}
	switch g.draw(6, "ek") {
	case 0, 1:
		b.add(`error(%s)`, q(fmt.Sprintf("boom s%d k%d", g.si, g.k)))
	case 2:
		b.add(`error({code = %d})`, g.k)
	case 3:
		b.add(`local f = nil`)
		b.add(`f()`)
	case 4:
		b.add(`tag.ls(42)`)
		b.call("tag.ls")
	default:
		b.add(`log(nil)`)
	}
	return b
}

// ---------------------------------------------------------------- mutating bodies

func (g *sgen) mutBody() *body {
	b := &body{}
	cs := &b.calls
	switch x := g.draw(100, "mk"); {
	case x < 12:
		return g.copyBody()
	case x < 22:
		return g.tagDeleteBody()
	case x < 32:
		return g.manifestDeleteBody()
	case x < 50:
		return g.manifestPutBody()
	case x < 72:
		return g.blobPutBody()
	case x < 82:
		return g.importBody()
	case x < 88:
		b.kind, b.mut = "reference.close", "reference.close"
		pi := g.place("", "pl")
		switch g.draw(3, "how") {
		case 0:
			b.add("reference.close(%s)", g.refExpr(pi.p.Base(), g.tagOf(pi, "t"), "", false, "ref", cs))
			b.call("reference.close")
		case 1:
			b.add("local r = reference.new(%s)", q(pi.p.Base()))
			b.add("r:close()")
			b.call("reference.new", "reference:close")
		default:
			b.add("reference.close(manifest.head(%s))", q(pi.p.Base()+":"+g.pick(pi.tags, "t", "v1")))
			b.call("manifest.head", "reference.close")
		}
		b.add(`log("closed")`)
	default:
		// a loop over a tag listing with a mutating call inside
		pi := g.place("", "pl")
		b.add("local base = %s", q(pi.p.Base()))
		b.add("for _, t in ipairs(tag.ls(base)) do")
		b.add("  local r = reference.new(base)")
		b.add("  r:tag(t)")
		b.call("tag.ls", "reference.new", "reference:tag")
		pre, post := "  ", ""
		switch g.draw(3, "cond") {
		case 0:
			pre, post = `  if string.find(t, "^v") then `, " end"
		case 1:
			pre, post = `  if t ~= "other" and string.len(t) < 40 then `, " end"
		}
		inner := g.draw(7, "inner")
		if inner >= 5 {
			// walk a manifest list and put every platform manifest by its digest
			b = &body{kind: "loop-manifest.put-by-digest", mut: "manifest.put"}
			tp := g.place("", "tpl")
			lt := "canonlist"
			if g.chance(30, "anylist") {
				lt = g.pick(pi.listTags, "lt", "canonlist")
			}
			b.arg("walk-list-entries,target-digest=matching")
			b.add("local base = %s", q(pi.p.Base()))
			b.add("local l = manifest.getList(base .. %s)", q(":"+lt))
			b.add("for i, d in ipairs(l.manifests or {}) do")
			b.add("  local r = reference.new(base)")
			b.add("  r:digest(d.digest)")
			b.add("  local m = manifest.get(r)")
			b.add("  local tgt = reference.new(%s)", q(tp.p.Base()))
			if g.chance(40, "wtag") {
				b.add(`  tgt:tag("p%d-" .. i)`, g.k)
			}
			b.add("  tgt:digest(r:digest())")
			if g.chance(50, "meth") {
				b.add("  m:put(tgt)")
				b.call("manifest:put")
			} else {
				b.add("  manifest.put(m, tgt)")
				b.call("manifest.put")
			}
			b.add(`  log("put " .. i .. " " .. tostring(tgt))`)
			b.add("end")
			b.call("manifest.getList", "manifest.get", "reference.new", "reference:digest", "reference:tag", "reference.__tostring")
			return b
		}
		switch inner {
		case 0:
			b.kind, b.mut = "loop-tag.delete", "tag.delete"
			b.add(pre + "tag.delete(r)" + post)
			b.call("tag.delete")
		case 1:
			b.kind, b.mut = "loop-manifest:delete", "manifest:delete"
			b.add(pre + "manifest.head(r):delete()" + post)
			b.call("manifest.head", "manifest:delete")
		case 2:
			b.kind, b.mut = "loop-manifest.put", "manifest.put"
			tp := g.place("", "tpl")
			b.add("  local tgt = reference.new(%s)", q(tp.p.Base()))
			b.add(`  tgt:tag("c%d-" .. string.sub(string.gsub(t, "[^a-z0-9]", "_"), 1, 20))`, g.k)
			b.add(pre + "manifest.put(manifest.getList(r), tgt)" + post)
			b.call("manifest.getList", "manifest.put")
		case 3:
			b.kind, b.mut = "loop-image.copy", "image.copy"
			tp := g.place("", "tpl")
			b.add("  local tgt = reference.new(%s)", q(tp.p.Base()))
			b.add(`  tgt:tag("c%d-" .. string.sub(string.gsub(t, "[^a-z0-9]", "_"), 1, 20))`, g.k)
			b.add(pre + "image.copy(r, tgt)" + post)
			b.call("image.copy")
		default:
			b.kind, b.mut = "loop-blob.put", "blob.put"
			tp := g.place("", "tpl")
			b.add(pre+"blob.put(%s, \"c19 \" .. t)"+post, q(tp.p.Base()))
			b.call("blob.put")
		}
		b.add(`  log("did " .. t)`)
		b.add("end")
	}
	return b
}

// rateLimitArg is a limit below (returns true at once) or, sometimes, above
// (polls until the 150ms timeout, returns false) the 60 / 1000 remaining
// requests a host with rate limit headers announces.
func (g *sgen) rateLimitArg() int {
	if g.draw(4, "rlbig") == 0 {
		return 500
	}
	return 1 + g.draw(50, "lim")
}

// rateTimeout: a limit no host's announcement is below never waits, so its
// timeout only bounds the HEAD request and is generous; only the limit that
// does wait (500 against 60 remaining) gets the short one.
func rateTimeout(limit int) string {
	if limit >= 500 {
		return "150ms"
	}
	return "30s"
}

// stmt draws one top-level statement.
func (g *sgen) stmt() Stmt {
	g.match, g.matchLabel, g.forceMatch = "", "", false
	var b *body
	protected := g.chance(70, "pcall")
	switch x := g.draw(100, "cat"); {
	case *g.afterCfg && x >= 60:
		b = g.followBody()
	case x < 7:
		if g.chance(40, "more") {
			b = g.moreErrorBody()
		} else {
			b = g.errorBody()
		}
		protected = g.chance(40, "epcall")
	case x >= 94:
		if g.chance(55, "wa") {
			b = g.wrongArgBody()
		} else {
			b = g.missingPlaceBody()
		}
	case x < 15:
		b = g.configOnListBody()
		protected = g.chance(50, "cpcall")
	case !g.ro && x < 64:
		b = g.mutBody()
	default:
		b = g.readBody()
	}
	cond := ""
	if g.draw(6, "cond") == 0 {
		pi := g.place("", "cpl")
		switch g.draw(3, "condk") {
		case 0:
			cond = fmt.Sprintf("#tag.ls(%s) > 0", q(pi.p.Base()))
		case 1:
			cond = fmt.Sprintf("#tag.ls(%s) > 100", q(pi.p.Base()))
		default:
			cond = fmt.Sprintf(`string.find(%s, "example") or string.find(%s, "ocidir")`, q(pi.p.Base()), q(pi.p.Base()))
		}
		if strings.Contains(cond, "tag.ls") {
			b.call("tag.ls")
		}
	}
	lines := b.lua
	// an error is caught, then the statement goes on (with its mutating call)
	if b.kind != "error" && g.chance(15, "prefix") {
		fl := g.failingLines(b)
		if g.chance(30, "xp") {
			lines = append([]string{"local ok0, e0 = xpcall(function() " + fl + " end, function(e) return \"handled: \" .. es(e) end)",
				`log("caught first " .. tostring(ok0) .. " " .. es(e0))`}, lines...)
		} else {
			lines = append([]string{"local ok0, e0 = pcall(function() " + fl + " end)", `log("caught first " .. tostring(ok0) .. " " .. es(e0))`}, lines...)
		}
	}
	if g.chance(10, "alias") {
		lines = aliasLines(lines)
	}
	coResume := false
	if cond != "" {
		in := make([]string, 0, len(lines)+3)
		in = append(in, "if "+cond+" then")
		for _, l := range lines {
			in = append(in, "  "+l)
		}
		in = append(in, "else", `  log("condition false")`, "end")
		lines = in
	}
	switch g.draw(12, "co") {
	case 0:
		// inside a coroutine, with yields around the calls; errors propagate through wrap
		in := []string{"local co = coroutine.wrap(function()", `  coroutine.yield("first")`}
		for _, l := range lines {
			in = append(in, "  "+l)
		}
		in = append(in, `  coroutine.yield("second")`, `  return "done"`, "end)", `log("co " .. tostring(co()))`, `log("co " .. tostring(co()))`, `log("co " .. tostring(co()))`)
		lines = in
	case 1:
		// resume reports an error of the coroutine as a value: the statement cannot raise
		in := []string{"local co = coroutine.create(function(a)", `  local b2 = coroutine.yield(a .. "-yielded")`}
		for _, l := range lines {
			in = append(in, "  "+l)
		}
		in = append(in, `  return "done"`, "end)", `local r1, v1 = coroutine.resume(co, "arg")`, `log("resume " .. tostring(r1) .. " " .. es(v1))`,
			`local r2, v2 = coroutine.resume(co, "again")`, `log("resume " .. tostring(r2) .. " " .. es(v2) .. " " .. coroutine.status(co))`)
		lines = in
		coResume = true
	}
	if protected {
		in := make([]string, 0, len(lines)+3)
		in = append(in, "local ok, err = pcall(function()")
		for _, l := range lines {
			in = append(in, "  "+l)
		}
		in = append(in, "end)", `log("pcall " .. tostring(ok) .. " " .. es(err))`)
		lines = in
	}
	st := Stmt{Kind: b.kind, Mut: b.mut, Lua: strings.Join(lines, "\n") + "\n", Safe: protected || coResume}
	st.Raise = b.raise && !protected && cond == "" && !coResume
	st.Args = b.args
	seen := map[string]bool{}
	for _, cl := range b.calls {
		if !seen[cl] {
			seen[cl] = true
			st.Calls = append(st.Calls, cl)
		}
	}
	sort.Strings(st.Calls)
	return st
}

// Gen draws a case.
func Gen(t *rapid.T) Case {
	c := Case{}
	c.Mode = []string{"direct", "cobra"}[uniform(t, 2, "mode")]
	if rapid.Bool().Draw(t, "par") {
		c.Parallel = 1 + uniform(t, 3, "parallel")
	}
	// the full range -v accepts; at warn / error the log() markers are dropped and
	// clause (4) is judged from the boundary probes (see checkMarkers)
	c.Verbosity = []string{"info", "info", "info", "debug", "trace", "warn", "error", "info", "debug", "warn"}[uniform(t, 10, "verbosity")]
	c.YAMLStyle = uniform(t, 2, "yaml")
	c.ReadOnly = uniform(t, 4, "readonly") == 0
	c.DefTimeout = []string{"", "", "600s"}[uniform(t, 3, "deftimeout")]
	nScripts := 1 + uniform(t, 4, "nscripts")
	concurrent := c.Mode == "cobra" && c.Parallel > 0

	// world
	opt := imggen.DefaultOptions()
	opt.MaxDepth, opt.Foreign, opt.MaxLayers, opt.MaxEntries = 2, false, 3, 3
	opt.Sha512 = uniform(t, 3, "sha512") == 0
	nG := rapid.IntRange(1, 2).Draw(t, "ngraphs")
	for i := 0; i < nG; i++ {
		c.Graphs = append(c.Graphs, imggen.Gen(t, opt))
	}
	for _, hn := range []string{HostA, HostB} {
		c.Hosts = append(c.Hosts, HostConf{Name: hn,
			TagDelete:        rapid.Bool().Draw(t, "tagdelete"),
			Referrers:        rapid.Bool().Draw(t, "referrers"),
			TagPage:          rapid.SampledFrom([]int{0, 0, 1, 2}).Draw(t, "tagpage"),
			CatalogPage:      rapid.SampledFrom([]int{0, 0, 1}).Draw(t, "catpage"),
			HeadNoDigest:     rapid.IntRange(0, 5).Draw(t, "headnodigest") == 0,
			ValidateManifest: rapid.IntRange(0, 3).Draw(t, "validate") == 0,
			RateRemain:       []int{0, 0, 60, 1000}[uniform(t, 4, "rate")],
		})
	}
	if uniform(t, 6, "auth") == 0 {
		c.Hosts[1].User, c.Hosts[1].Pass = "c19user", "c19 pa$$:word"
	}
	gi := func(l string) int { return rapid.IntRange(0, nG-1).Draw(t, l) }
	if concurrent {
		// every script gets places of its own (attribution of an effect to a script is by place)
		for i := 0; i < nScripts; i++ {
			c.Places = append(c.Places, Place{Kind: "reg", Host: HostA, Repo: fmt.Sprintf("p%d/app", i), Graph: gi("g"), Owner: i})
			if rapid.Bool().Draw(t, "hasB") {
				c.Places = append(c.Places, Place{Kind: "reg", Host: HostB, Repo: fmt.Sprintf("p%d/mirror", i), Graph: gi("g"), Owner: i})
			}
			if rapid.IntRange(0, 4).Draw(t, "haslay") != 0 {
				c.Places = append(c.Places, Place{Kind: "layout", Dir: fmt.Sprintf("lay%d", i), Graph: gi("g"), Owner: i})
			}
		}
	} else {
		c.Places = append(c.Places, Place{Kind: "reg", Host: HostA, Repo: "proj/app", Graph: gi("g"), Owner: -1})
		if rapid.Bool().Draw(t, "hasA2") {
			c.Places = append(c.Places, Place{Kind: "reg", Host: HostA, Repo: "lib/base", Graph: gi("g"), Owner: -1})
		}
		if rapid.Bool().Draw(t, "hasB") {
			c.Places = append(c.Places, Place{Kind: "reg", Host: HostB, Repo: "mirror/app", Graph: gi("g"), Owner: -1})
		}
		if rapid.IntRange(0, 4).Draw(t, "haslay") != 0 {
			c.Places = append(c.Places, Place{Kind: "layout", Dir: "lay0", Graph: gi("g"), Owner: -1})
			if rapid.Bool().Draw(t, "haslay2") {
				c.Places = append(c.Places, Place{Kind: "layout", Dir: "lay1", Graph: gi("g"), Owner: -1})
			}
		}
	}
	infos := make([]placeInfo, len(c.Places))
	for i, p := range c.Places {
		g := c.Graphs[p.Graph]
		pi := placeInfo{p: p, tagDig: map[string]string{}}
		for tg := range g.Tags {
			pi.tags = append(pi.tags, tg)
		}
		sort.Strings(pi.tags)
		for _, n := range g.Nodes {
			pi.mans = append(pi.mans, n.Digest)
		}
		for _, tg := range pi.tags {
			pi.tagDig[tg] = g.Nodes[g.Tags[tg]].Digest
			switch g.Nodes[g.Tags[tg]].Kind {
			case "index":
				pi.listTags = append(pi.listTags, tg)
			case "artifact":
				pi.artTags = append(pi.artTags, tg)
			}
		}
		for d := range g.Blobs {
			pi.blobs = append(pi.blobs, d)
		}
		sort.Strings(pi.blobs)
		// the canonical image and index every place holds (canon.go)
		pi.tags = append(pi.tags, "canon", "canonlist")
		pi.listTags = append(pi.listTags, "canonlist")
		pi.tagDig["canon"], pi.tagDig["canonlist"] = Canon.Man1D, Canon.IndexD
		pi.mans = append(pi.mans, Canon.Man1D, Canon.Man2D, Canon.IndexD)
		pi.blobs = append(pi.blobs, Canon.Cfg1D, Canon.LayerD)
		infos[i] = pi
	}

	blobGets := map[string]int{HostA: 2, HostB: 2}
	afterCfg := false
	for si := 0; si < nScripts; si++ {
		s := Script{Name: fmt.Sprintf("s%d", si)}
		if sfx := rapid.SampledFrom([]string{"", "", " nightly copy", "-cleanup", " Retag #2"}).Draw(t, "namesfx"); sfx != "" {
			s.Name += sfx
		}
		s.Timeout = rapid.SampledFrom([]string{"", "", "300s", "10m"}).Draw(t, "timeout")
		g := &sgen{t: t, c: &c, si: si, infos: infos, ro: c.ReadOnly, blobGets: blobGets, afterCfg: &afterCfg}
		for i, pi := range infos {
			if pi.p.Owner < 0 || pi.p.Owner == si {
				g.usable = append(g.usable, i)
			}
		}
		switch uniform(t, 30, "skind") {
		case 0:
			s.Kind = "empty"
		case 1, 2:
			s.Kind = "badsyntax"
		}
		n := uniform(t, 7, "nstmts")
		if s.Kind != "" {
			n = 0
		}
		for k := 0; k < n; k++ {
			g.k = k
			s.Stmts = append(s.Stmts, g.stmt())
		}
		c.Scripts = append(c.Scripts, s)
	}
	// Two or more throttled calls: should one of them keep its slot, a later one
	// would wait for it until its script's timeout - forever without one. Such
	// cases always run with short timeouts so that the wait ends in a failure the
	// oracle can judge instead of in the harness watchdog. (A deadline that fires
	// for any other reason is not judged.)
	short := make([]string, len(c.Scripts))
	for i := range short {
		short[i] = []string{"", "2s", "3s"}[uniform(t, 3, "shorttimeout")]
	}
	if ThrottledCalls(c) >= 2 {
		c.DefTimeout = "3s"
		for i := range c.Scripts {
			c.Scripts[i].Timeout = short[i]
		}
	}
	// context states: a deadline that has expired before / while the script runs,
	// and a command context cancelled (SIGINT) at a chosen statement boundary
	for i := range c.Scripts {
		if uniform(t, 25, "expired") == 0 {
			c.Scripts[i].Timeout = "1ms"
		}
	}
	if uniform(t, 16, "cancel") == 0 {
		si := uniform(t, len(c.Scripts), "cancel_s")
		if n := len(c.Scripts[si].Stmts); n > 0 && c.Scripts[si].Kind == "" {
			c.CancelAt = []int{si, uniform(t, n, "cancel_k")}
		}
	}
	// configuration file / command line dimensions
	c.Conf = ConfOpts{
		LoadDockerConf: uniform(t, 4, "dockerconf") == 0,
		Sched:          []int{0, 0, 1, 2}[uniform(t, 4, "sched")],
		NoVersion:      uniform(t, 4, "noversion") == 0,
		XExt:           uniform(t, 4, "xext") == 0,
		CredExtras:     uniform(t, 4, "credextras") == 0,
		ArgStyle:       uniform(t, 3, "argstyle"),
		Stdin:          uniform(t, 5, "stdin") == 0,
	}
	if uniform(t, 4, "ua") == 0 {
		c.Conf.UserAgent = "c19-agent/1.0 (test)"
	}
	if uniform(t, 4, "bloblimit") == 0 {
		c.Conf.BlobLimit = 1 << 30
	}
	return c
}

// ThrottledCalls counts the statements of the case that take the parallelism
// throttle (a statement with a loop counts twice).
func ThrottledCalls(c Case) int {
	n := 0
	for _, s := range c.Scripts {
		for _, st := range s.Stmts {
			for _, cl := range st.Calls {
				if Throttled[cl] {
					n++
					if strings.Contains(st.Lua, "for _, ") {
						n++
					}
					break
				}
			}
		}
	}
	return n
}
