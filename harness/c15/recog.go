// Package c15 decides C15: image references parse canonically, round-trip and
// reject malformed names. recog.go is an independent hand-written scanner for
// the reference grammar (no regexp), used as the reference model.
package c15

import "strings"

// Parsed is what the reference model says about a string.
type Parsed struct {
	OK         bool
	Scheme     string
	Registry   string
	Repository string
	Tag        string
	Digest     string
	Path       string
	Why        string // reason for rejection
}

func isLower(c byte) bool  { return c >= 'a' && c <= 'z' }
func isUpper(c byte) bool  { return c >= 'A' && c <= 'Z' }
func isDigit(c byte) bool  { return c >= '0' && c <= '9' }
func isAlpha(c byte) bool  { return isLower(c) || isUpper(c) }
func isAlnum(c byte) bool  { return isAlpha(c) || isDigit(c) }
func isHex(c byte) bool    { return isDigit(c) || (c >= 'a' && c <= 'f') || (c >= 'A' && c <= 'F') }
func isLowNum(c byte) bool { return isLower(c) || isDigit(c) }

// hostPart: alnum, optionally followed by alnum/hyphen ending in alnum.
func isHostPart(s string) bool {
	if s == "" {
		return false
	}
	if !isAlnum(s[0]) || !isAlnum(s[len(s)-1]) {
		return false
	}
	for i := 0; i < len(s); i++ {
		if !isAlnum(s[i]) && s[i] != '-' {
			return false
		}
	}
	return true
}

func allDigits(s string) bool {
	if s == "" {
		return false
	}
	for i := 0; i < len(s); i++ {
		if !isDigit(s[i]) {
			return false
		}
	}
	return true
}

// dotted: hostPart(.hostPart)* with optional trailing dot. Returns number of
// parts and whether there is a trailing dot; ok=false when malformed.
func dotted(s string) (parts int, trailing bool, ok bool) {
	if s == "" {
		return 0, false, false
	}
	if strings.HasSuffix(s, ".") {
		trailing = true
		s = s[:len(s)-1]
	}
	for _, p := range strings.Split(s, ".") {
		if !isHostPart(p) {
			return 0, false, false
		}
		parts++
	}
	return parts, trailing, true
}

// isHostUpper: a single label containing an upper-case letter (the "single
// label upper-case host" form). Exact shape: over [alnum-], at least 2 chars,
// and there is an upper-case position p such that either everything before p is
// alnum and what follows is [alnum-]* ending in alnum (non-empty), or the label
// starts with alnum, everything before p is [alnum-] and everything after p is
// alnum.
func isHostUpper(s string) bool {
	n := len(s)
	if n < 2 {
		return false
	}
	for i := 0; i < n; i++ {
		if !isAlnum(s[i]) && s[i] != '-' {
			return false
		}
	}
	allAlnum := func(t string) bool {
		for i := 0; i < len(t); i++ {
			if !isAlnum(t[i]) {
				return false
			}
		}
		return true
	}
	for p := 0; p < n; p++ {
		if !isUpper(s[p]) {
			continue
		}
		// form 1
		if allAlnum(s[:p]) && p+1 < n && isAlnum(s[n-1]) {
			return true
		}
		// form 2
		if p >= 1 && isAlnum(s[0]) && allAlnum(s[p+1:]) {
			return true
		}
	}
	return false
}

// IsRegistry implements the registry sub-grammar.
func IsRegistry(s string) bool {
	if s == "" || strings.ContainsAny(s, "/@") {
		return false
	}
	// localhost[:port]
	if s == "localhost" {
		return true
	}
	if strings.HasPrefix(s, "localhost:") && allDigits(s[len("localhost:"):]) {
		return true
	}
	// host:port (short names allowed)
	if i := strings.LastIndexByte(s, ':'); i >= 0 {
		host, port := s[:i], s[i+1:]
		if strings.Contains(host, ":") {
			return false
		}
		if !allDigits(port) {
			return false
		}
		_, _, ok := dotted(host)
		return ok
	}
	// domain: needs a dot
	if strings.Contains(s, ".") {
		parts, trailing, ok := dotted(s)
		if !ok {
			return false
		}
		return parts >= 2 || trailing
	}
	return isHostUpper(s)
}

// repoPart: [a-z0-9]+ ( ( "." | "_" | "__" | "-"+ ) [a-z0-9]+ )*
func isRepoPart(s string) bool {
	i, n := 0, len(s)
	run := func() bool {
		j := i
		for i < n && isLowNum(s[i]) {
			i++
		}
		return i > j
	}
	if !run() {
		return false
	}
	for i < n {
		switch {
		case s[i] == '.':
			i++
		case s[i] == '_':
			i++
			if i < n && s[i] == '_' {
				i++
			}
		case s[i] == '-':
			for i < n && s[i] == '-' {
				i++
			}
		default:
			return false
		}
		if !run() {
			return false
		}
	}
	return true
}

func isRepo(s string) bool {
	if s == "" {
		return false
	}
	for _, p := range strings.Split(s, "/") {
		if !isRepoPart(p) {
			return false
		}
	}
	return true
}

func isTag(s string) bool {
	if len(s) < 1 || len(s) > 128 {
		return false
	}
	if !isAlnum(s[0]) && s[0] != '_' {
		return false
	}
	for i := 1; i < len(s); i++ {
		c := s[i]
		if !isAlnum(c) && c != '.' && c != '_' && c != '-' {
			return false
		}
	}
	return true
}

// digest: alg-component (sep alg-component)* ":" hex{32,}; alg-component is a
// letter followed by alnum; sep is one of - _ + .
func isDigest(s string) bool {
	i := strings.IndexByte(s, ':')
	if i < 0 {
		return false
	}
	alg, hex := s[:i], s[i+1:]
	if len(hex) < 32 {
		return false
	}
	for j := 0; j < len(hex); j++ {
		if !isHex(hex[j]) {
			return false
		}
	}
	if alg == "" {
		return false
	}
	start := true
	for j := 0; j < len(alg); j++ {
		c := alg[j]
		if start {
			if !isAlpha(c) {
				return false
			}
			start = false
			continue
		}
		if isAlnum(c) {
			continue
		}
		if c == '-' || c == '_' || c == '+' || c == '.' {
			start = true
			continue
		}
		return false
	}
	return !start
}

func isPathChars(s string) bool {
	if s == "" {
		return false
	}
	for i := 0; i < len(s); i++ {
		c := s[i]
		if isAlnum(c) || c == '/' || c == '_' || c == '-' || c == '.' || c == ' ' || c == '~' || c == '+' {
			continue
		}
		return false
	}
	return true
}

func reject(why string) Parsed { return Parsed{Why: why} }

// splitScheme: ^([a-z]+)://(.+)$ — "." does not match a newline.
func splitScheme(s string) (scheme, tail string, has bool) {
	i := strings.Index(s, "://")
	if i <= 0 {
		return "", s, false
	}
	for j := 0; j < i; j++ {
		if !isLower(s[j]) {
			return "", s, false
		}
	}
	tail = s[i+3:]
	if tail == "" || strings.ContainsRune(tail, '\n') {
		return "", s, false
	}
	return s[:i], tail, true
}

// splitTagDigest splits name[:tag][@digest] where name has no ':' or '@'
// (the caller handles the registry, which may contain ':').
func splitTagDigest(s string) (name, tag, dig string, hasTag, hasDig bool) {
	if i := strings.IndexByte(s, '@'); i >= 0 {
		dig = s[i+1:]
		hasDig = true
		s = s[:i]
	}
	if i := strings.IndexByte(s, ':'); i >= 0 {
		tag = s[i+1:]
		hasTag = true
		s = s[:i]
	}
	return s, tag, dig, hasTag, hasDig
}

// Recognise is the reference model of ref.New.
func Recognise(s string) Parsed {
	scheme, tail, has := splitScheme(s)
	if has {
		switch scheme {
		case "ocidir", "ocifile":
			p, tag, dig, hasTag, hasDig := splitTagDigest(tail)
			if !isPathChars(p) {
				return reject("path")
			}
			if hasTag && !isTag(tag) {
				return reject("tag")
			}
			if hasDig && !isDigest(dig) {
				return reject("digest")
			}
			return Parsed{OK: true, Scheme: scheme, Path: p, Tag: tag, Digest: dig}
		default:
			return reject("unknown scheme")
		}
	}
	// registry scheme
	try := func(reg, rest string) (Parsed, bool) {
		repo, tag, dig, hasTag, hasDig := splitTagDigest(rest)
		if !isRepo(repo) {
			return Parsed{}, false
		}
		if hasTag && !isTag(tag) {
			return Parsed{}, false
		}
		if hasDig && !isDigest(dig) {
			return Parsed{}, false
		}
		return Parsed{OK: true, Scheme: "reg", Registry: reg, Repository: repo, Tag: tag, Digest: dig}, true
	}
	var p Parsed
	ok := false
	if i := strings.IndexByte(tail, '/'); i > 0 && IsRegistry(tail[:i]) {
		p, ok = try(tail[:i], tail[i+1:])
	}
	if !ok {
		p, ok = try("", tail)
	}
	if !ok {
		return reject("not in grammar")
	}
	// bare "localhost..." is a registry without a repository
	if p.Registry == "" {
		parts := strings.Split(p.Repository, "/")
		if parts[0] == "localhost" {
			p.Registry = "localhost"
			p.Repository = strings.Join(parts[1:], "/")
		}
	}
	switch p.Registry {
	case "", "registry-1.docker.io", "index.docker.io":
		p.Registry = "docker.io"
	}
	if p.Registry == "docker.io" && !strings.Contains(p.Repository, "/") {
		p.Repository = "library/" + p.Repository
	}
	if p.Tag == "" && p.Digest == "" {
		p.Tag = "latest"
	}
	if p.Repository == "" || p.Repository == "library/" {
		return reject("empty repository")
	}
	return p
}

// RecogniseHost is the reference model of ref.NewHost.
func RecogniseHost(s string) Parsed {
	scheme, tail, has := splitScheme(s)
	if has {
		switch scheme {
		case "ocidir", "ocifile":
			p, tag, dig, hasTag, hasDig := splitTagDigest(tail)
			if !isPathChars(p) || (hasTag && !isTag(tag)) || (hasDig && !isDigest(dig)) {
				return reject("path")
			}
			return Parsed{OK: true, Scheme: scheme, Path: p}
		default:
			return reject("unknown scheme")
		}
	}
	if !IsRegistry(tail) {
		return reject("registry")
	}
	return Parsed{OK: true, Scheme: "reg", Registry: tail}
}
