package c15

// Generators of C15 (grammar, single grammar-leaving mutations, arbitrary bytes). They live in a non-test
// file so that the CLI engine in cmd/regctl (harness/inpkg/cmd/regctl/verif_c15_cli_test.go) can use them.

import (
	"fmt"
	"strings"

	"pgregory.net/rapid"
)

// Case is one generated input.
type Case struct {
	Input  string `json:"input"`
	Origin string `json:"origin"` // grammar | mutation:<kind> | bytes
	NewTag string `json:"new_tag,omitempty"`
	NewDig string `json:"new_dig,omitempty"`
}

// ---------------------------------------------------------------- generators

var lowNum = []rune("abcdefghijklmnopqrstuvwxyz0123456789")
var alnum = []rune("abcdefghijklmnopqrstuvwxyzABCDEFGHIJKLMNOPQRSTUVWXYZ0123456789")

func genStr(t *rapid.T, alphabet []rune, min, max int, label string) string {
	n := rapid.IntRange(min, max).Draw(t, label+"_n")
	var sb strings.Builder
	for i := 0; i < n; i++ {
		sb.WriteRune(rapid.SampledFrom(alphabet).Draw(t, label))
	}
	return sb.String()
}

func genHostPart(t *rapid.T, upper bool) string {
	al := lowNum
	if upper {
		al = alnum
	}
	s := genStr(t, al, 1, 6, "hp")
	if rapid.IntRange(0, 5).Draw(t, "hyph") == 0 {
		s = s + "-" + genStr(t, al, 1, 3, "hp2")
	}
	return s
}

func genRegistry(t *rapid.T) string {
	switch rapid.IntRange(0, 9).Draw(t, "regkind") {
	case 0:
		return "localhost"
	case 1:
		return "localhost:" + genStr(t, []rune("0123456789"), 1, 5, "port")
	case 2: // ipv4
		return fmt.Sprintf("%d.%d.%d.%d", rapid.IntRange(0, 255).Draw(t, "a"), rapid.IntRange(0, 255).Draw(t, "b"),
			rapid.IntRange(0, 255).Draw(t, "c"), rapid.IntRange(0, 255).Draw(t, "d"))
	case 3: // ipv4:port
		return fmt.Sprintf("127.0.0.%d:%d", rapid.IntRange(0, 255).Draw(t, "d"), rapid.IntRange(1, 65535).Draw(t, "p"))
	case 4: // short host with port
		return genHostPart(t, rapid.Bool().Draw(t, "up")) + ":" + genStr(t, []rune("0123456789"), 1, 5, "port")
	case 5: // upper case single label
		s := genHostPart(t, true)
		if !strings.ContainsAny(s, "ABCDEFGHIJKLMNOPQRSTUVWXYZ") {
			s = s + "X" + genStr(t, alnum, 0, 2, "tail")
		}
		return s
	case 6: // trailing dot
		return genHostPart(t, false) + "."
	case 7:
		return rapid.SampledFrom([]string{"docker.io", "index.docker.io", "registry-1.docker.io", "ghcr.io", "quay.io", "registry.example.com:5000"}).Draw(t, "known")
	default: // dotted domain, optional trailing dot and port
		n := rapid.IntRange(2, 4).Draw(t, "nparts")
		parts := make([]string, n)
		for i := range parts {
			parts[i] = genHostPart(t, rapid.IntRange(0, 4).Draw(t, "up") == 0)
		}
		s := strings.Join(parts, ".")
		if rapid.IntRange(0, 5).Draw(t, "tdot") == 0 {
			s += "."
		}
		if rapid.IntRange(0, 2).Draw(t, "hasport") == 0 {
			s += ":" + genStr(t, []rune("0123456789"), 1, 5, "port")
		}
		return s
	}
}

func genRepoPart(t *rapid.T) string {
	if rapid.IntRange(0, 12).Draw(t, "lh") == 0 {
		return "localhost"
	}
	s := genStr(t, lowNum, 1, 5, "rp")
	n := rapid.IntRange(0, 2).Draw(t, "seps")
	for i := 0; i < n; i++ {
		sep := rapid.SampledFrom([]string{".", "_", "__", "-", "--", "---"}).Draw(t, "sep")
		s += sep + genStr(t, lowNum, 1, 4, "rp")
	}
	return s
}

func genRepo(t *rapid.T) string {
	n := rapid.IntRange(1, 4).Draw(t, "nrepo")
	parts := make([]string, n)
	for i := range parts {
		parts[i] = genRepoPart(t)
	}
	return strings.Join(parts, "/")
}

var tagFirst = []rune("abcdefghijklmnopqrstuvwxyzABCDEFGHIJKLMNOPQRSTUVWXYZ0123456789_")
var tagRest = []rune("abcdefghijklmnopqrstuvwxyzABCDEFGHIJKLMNOPQRSTUVWXYZ0123456789_.-")

func genTag(t *rapid.T) string {
	switch rapid.IntRange(0, 9).Draw(t, "tagkind") {
	case 0:
		return "latest"
	case 1: // exactly 128
		return genStr(t, tagFirst, 1, 1, "t0") + strings.Repeat(rapid.SampledFrom([]string{"a", ".", "-", "_", "Z", "9"}).Draw(t, "fill"), 127)
	case 2:
		return rapid.SampledFrom([]string{"5000", "v1.2.3", "_", "1", "sha256-abc.sig", "a--b", "A.B_C-d"}).Draw(t, "tconst")
	default:
		return genStr(t, tagFirst, 1, 1, "t0") + genStr(t, tagRest, 0, 12, "t1")
	}
}

var hexl = []rune("0123456789abcdef")
var hexm = []rune("0123456789abcdefABCDEF")

func genDigest(t *rapid.T) string {
	alg := rapid.SampledFrom([]string{"sha256", "sha256", "sha512", "sha384", "blake3", "sha256+b64u", "multi.part-alg_x", "SHA256", "a"}).Draw(t, "alg")
	n := rapid.SampledFrom([]int{32, 33, 64, 64, 64, 128, 40, 96}).Draw(t, "hexlen")
	al := hexl
	if rapid.IntRange(0, 6).Draw(t, "mixhex") == 0 {
		al = hexm
	}
	return alg + ":" + genStr(t, al, n, n, "hex")
}

var pathChars = []rune("abcXYZ019_-. ~+/")

func genPath(t *rapid.T) string {
	switch rapid.IntRange(0, 7).Draw(t, "pathkind") {
	case 0:
		return rapid.SampledFrom([]string{".", "..", "/", "./", "../..", "~", "~/x", "a b", "/tmp/x y/z", "./a+b", "a/", "//a", "a..b", " "}).Draw(t, "pconst")
	case 1:
		return "/" + genStr(t, pathChars, 1, 12, "p")
	default:
		return genStr(t, pathChars, 1, 14, "p")
	}
}

// genGrammar draws a string from the reference grammar, component-wise.
func genGrammar(t *rapid.T) string {
	if rapid.IntRange(0, 3).Draw(t, "isoci") == 0 {
		s := rapid.SampledFrom([]string{"ocidir://", "ocidir://", "ocidir://", "ocifile://"}).Draw(t, "scheme") + genPath(t)
		if rapid.Bool().Draw(t, "hastag") {
			s += ":" + genTag(t)
		}
		if rapid.Bool().Draw(t, "hasdig") {
			s += "@" + genDigest(t)
		}
		return s
	}
	s := ""
	if rapid.IntRange(0, 2).Draw(t, "hasreg") > 0 {
		s = genRegistry(t) + "/"
	}
	s += genRepo(t)
	if rapid.Bool().Draw(t, "hastag") {
		s += ":" + genTag(t)
	}
	if rapid.IntRange(0, 2).Draw(t, "hasdig") == 0 {
		s += "@" + genDigest(t)
	}
	return s
}

var mutKinds = []string{"upper-repo", "empty-component", "double-slash", "trail-slash", "trail-colon", "trail-at",
	"bad-tag-char", "long-tag", "short-hex", "unknown-scheme", "ocifile", "prefix-junk", "suffix-junk", "insert-byte",
	"delete-byte", "dup-at", "dup-colon", "underscore-host", "lead-sep", "nonhex", "newline", "space", "upper-scheme",
	"empty-alg", "lead-dash-tag", "empty-scheme", "scheme-variant", "scheme-sep-variant", "pad-outer-whitespace"}

// genMutation applies one grammar-leaving edit to a grammar string. (Whether
// the result really is outside the grammar is decided by the reference model,
// not assumed.)
func genMutation(t *rapid.T) (string, string) {
	s := genGrammar(t)
	kind := rapid.SampledFrom(mutKinds).Draw(t, "mut")
	pos := func() int {
		if len(s) == 0 {
			return 0
		}
		return rapid.IntRange(0, len(s)-1).Draw(t, "pos")
	}
	switch kind {
	case "upper-repo":
		// upper-case one lower-case letter
		idx := []int{}
		for i := 0; i < len(s); i++ {
			if isLower(s[i]) {
				idx = append(idx, i)
			}
		}
		if len(idx) > 0 {
			i := rapid.SampledFrom(idx).Draw(t, "i")
			s = s[:i] + strings.ToUpper(s[i:i+1]) + s[i+1:]
		}
	case "empty-component":
		i := strings.IndexByte(s, '/')
		if i >= 0 {
			s = s[:i] + "/" + s[i:]
		} else {
			s = "/" + s
		}
	case "double-slash":
		p := pos()
		s = s[:p] + "//" + s[p:]
	case "trail-slash":
		s += "/"
	case "trail-colon":
		s += ":"
	case "trail-at":
		s += "@"
	case "bad-tag-char":
		c := rapid.SampledFrom([]string{"!", "$", "*", "%", "é", "\x00", "\\", "?", "#", "="}).Draw(t, "c")
		if i := strings.LastIndexByte(s, ':'); i >= 0 && !strings.Contains(s, "@") {
			s = s[:i+1] + c + s[i+1:]
		} else {
			s = s + ":" + "a" + c
		}
	case "long-tag":
		at := ""
		if i := strings.IndexByte(s, '@'); i >= 0 {
			s, at = s[:i], s[i:]
		}
		if strings.HasPrefix(s, "oci") {
			i := strings.LastIndexByte(s, ':')
			if i > 8 {
				s = s[:i]
			}
		}
		s = s + ":" + strings.Repeat("t", 129) + at
	case "short-hex":
		n := rapid.SampledFrom([]int{0, 1, 16, 31}).Draw(t, "n")
		if i := strings.IndexByte(s, '@'); i >= 0 {
			s = s[:i]
		}
		s += "@sha256:" + strings.Repeat("a", n)
	case "unknown-scheme":
		sc := rapid.SampledFrom([]string{"http", "https", "oci", "docker", "file", "ocidirx", "reg", "o"}).Draw(t, "sc")
		if i := strings.Index(s, "://"); i >= 0 {
			s = sc + s[i:]
		} else {
			s = sc + "://" + s
		}
	case "ocifile":
		if i := strings.Index(s, "://"); i >= 0 {
			s = "ocifile" + s[i:]
		} else {
			s = "ocifile://" + s
		}
	case "prefix-junk":
		s = rapid.SampledFrom([]string{" ", "-", ".", "_", "@", ":", "/", "\t", "é", "!"}).Draw(t, "j") + s
	case "suffix-junk":
		s = s + rapid.SampledFrom([]string{" ", "-", ".", "_", "!", "\n", "\t", "é", "/x y", "\x00"}).Draw(t, "j")
	case "insert-byte":
		p := pos()
		b := rapid.SampledFrom([]string{" ", "A", "_", "-", ".", ":", "@", "/", "\x00", "\n", "é", "+", "~", "%"}).Draw(t, "b")
		s = s[:p] + b + s[p:]
	case "delete-byte":
		if len(s) > 1 {
			p := pos()
			s = s[:p] + s[p+1:]
		}
	case "dup-at":
		s += "@" + genDigest(t)
	case "dup-colon":
		s += ":" + genTag(t)
	case "underscore-host":
		if i := strings.IndexByte(s, '/'); i > 0 {
			s = s[:i/2] + "_" + s[i/2:]
		} else {
			s = "a_b.c/" + s
		}
	case "lead-sep":
		s = rapid.SampledFrom([]string{".", "-", "_", "__"}).Draw(t, "ls") + s
	case "nonhex":
		if i := strings.IndexByte(s, '@'); i >= 0 {
			s = s[:i]
		}
		s += "@sha256:" + strings.Repeat("a", 63) + rapid.SampledFrom([]string{"g", "z", "-", " ", "G"}).Draw(t, "nh")
	case "newline":
		p := pos()
		s = s[:p] + "\n" + s[p:]
	case "space":
		p := pos()
		s = s[:p] + " " + s[p:]
	case "pad-outer-whitespace":
		// what a reference read from a file or another command carries: padding, a stray CR/LF, a tab
		w := rapid.SampledFrom([]string{" ", "  ", "\t", "\n", "\r\n", "\u00a0", "\v"}).Draw(t, "ws")
		switch rapid.IntRange(0, 2).Draw(t, "wsside") {
		case 0:
			s = w + s
		case 1:
			s = s + w
		default:
			s = w + s + w
		}
	case "upper-scheme":
		if i := strings.Index(s, "://"); i >= 0 {
			s = strings.ToUpper(s[:1]) + s[1:]
		} else {
			s = "Ocidir://" + s
		}
	case "empty-alg":
		if i := strings.IndexByte(s, '@'); i >= 0 {
			s = s[:i]
		}
		s += "@" + rapid.SampledFrom([]string{":", "1sha:", "sha-:", "-sha:", "sha..x:", "sha256"}).Draw(t, "ea") + strings.Repeat("b", 64)
	case "empty-scheme":
		// an empty scheme in front of something that is itself a reference or host
		if i := strings.Index(s, "://"); i >= 0 {
			s = s[i:]
		} else {
			s = "://" + s
		}
	case "scheme-variant":
		sc := rapid.SampledFrom([]string{"oci2", "ocidir2", "oci-dir", "oci.dir", "oci+dir", "oci_dir", "OciDir", "ocidiR", "0", "é", " ocidir", "ocidir ", "reg", "docker"}).Draw(t, "scv")
		if i := strings.Index(s, "://"); i >= 0 {
			s = sc + s[i:]
		} else {
			s = sc + "://" + s
		}
	case "scheme-sep-variant":
		sep := rapid.SampledFrom([]string{":/", ":", ":///", "//", ":\\/", "://://", " ://", ":// "}).Draw(t, "ssv")
		if i := strings.Index(s, "://"); i >= 0 {
			s = s[:i] + sep + s[i+3:]
		} else {
			s = rapid.SampledFrom([]string{"ocidir", "ocifile", "x", ""}).Draw(t, "ssc") + sep + s
		}
	case "lead-dash-tag":
		if i := strings.IndexByte(s, '@'); i >= 0 {
			s = s[:i]
		}
		s += ":" + rapid.SampledFrom([]string{"-a", ".a", "-", "."}).Draw(t, "ldt")
	}
	return s, kind
}

func gen(t *rapid.T) Case {
	var c Case
	switch k := rapid.IntRange(0, 9).Draw(t, "origin"); {
	case k < 4:
		c.Input, c.Origin = genGrammar(t), "grammar"
	case k < 8:
		s, kind := genMutation(t)
		c.Input, c.Origin = s, "mutation:"+kind
	default:
		c.Input, c.Origin = string(rapid.SliceOfN(rapid.Byte(), 0, 40).Draw(t, "bytes")), "bytes"
	}
	c.NewTag = genTag(t)
	c.NewDig = genDigest(t)
	return c
}

// Gen draws one case (exported for the CLI engine).
func Gen(t *rapid.T) Case { return gen(t) }
