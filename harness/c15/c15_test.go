package c15

import (
	"fmt"
	"os"
	"strings"
	"testing"

	"pgregory.net/rapid"

	"github.com/regclient/regclient/types/ref"
	"github.com/regclient/regclient/zz_verif/evid"
)

const prop = "C15"

func TestMain(m *testing.M) {
	code := m.Run()
	evid.Flush(code)
	os.Exit(code)
}

// Case is one generated input.
type Case struct {
	Input  string `json:"input"`
	Origin string `json:"origin"` // grammar | mutation:<kind> | bytes
	NewTag string `json:"new_tag,omitempty"`
	NewDig string `json:"new_dig,omitempty"`
}

// ---------------------------------------------------------------- generators

var lowNum = []rune("abcdefghijklmnopqrstuvwxyz0123456789")
var alnum = []rune("abcdefghijklmnopqrstuvwxyzABCDEFGHIJKLMNOPQRSTUVWXYZ0123456789")

func genStr(t *rapid.T, alphabet []rune, min, max int, label string) string {
	n := rapid.IntRange(min, max).Draw(t, label+"_n")
	var sb strings.Builder
	for i := 0; i < n; i++ {
		sb.WriteRune(rapid.SampledFrom(alphabet).Draw(t, label))
	}
	return sb.String()
}

func genHostPart(t *rapid.T, upper bool) string {
	al := lowNum
	if upper {
		al = alnum
	}
	s := genStr(t, al, 1, 6, "hp")
	if rapid.IntRange(0, 5).Draw(t, "hyph") == 0 {
		s = s + "-" + genStr(t, al, 1, 3, "hp2")
	}
	return s
}

func genRegistry(t *rapid.T) string {
	switch rapid.IntRange(0, 9).Draw(t, "regkind") {
	case 0:
		return "localhost"
	case 1:
		return "localhost:" + genStr(t, []rune("0123456789"), 1, 5, "port")
	case 2: // ipv4
		return fmt.Sprintf("%d.%d.%d.%d", rapid.IntRange(0, 255).Draw(t, "a"), rapid.IntRange(0, 255).Draw(t, "b"),
			rapid.IntRange(0, 255).Draw(t, "c"), rapid.IntRange(0, 255).Draw(t, "d"))
	case 3: // ipv4:port
		return fmt.Sprintf("127.0.0.%d:%d", rapid.IntRange(0, 255).Draw(t, "d"), rapid.IntRange(1, 65535).Draw(t, "p"))
	case 4: // short host with port
		return genHostPart(t, rapid.Bool().Draw(t, "up")) + ":" + genStr(t, []rune("0123456789"), 1, 5, "port")
	case 5: // upper case single label
		s := genHostPart(t, true)
		if !strings.ContainsAny(s, "ABCDEFGHIJKLMNOPQRSTUVWXYZ") {
			s = s + "X" + genStr(t, alnum, 0, 2, "tail")
		}
		return s
	case 6: // trailing dot
		return genHostPart(t, false) + "."
	case 7:
		return rapid.SampledFrom([]string{"docker.io", "index.docker.io", "registry-1.docker.io", "ghcr.io", "quay.io", "registry.example.com:5000"}).Draw(t, "known")
	default: // dotted domain, optional trailing dot and port
		n := rapid.IntRange(2, 4).Draw(t, "nparts")
		parts := make([]string, n)
		for i := range parts {
			parts[i] = genHostPart(t, rapid.IntRange(0, 4).Draw(t, "up") == 0)
		}
		s := strings.Join(parts, ".")
		if rapid.IntRange(0, 5).Draw(t, "tdot") == 0 {
			s += "."
		}
		if rapid.IntRange(0, 2).Draw(t, "hasport") == 0 {
			s += ":" + genStr(t, []rune("0123456789"), 1, 5, "port")
		}
		return s
	}
}

func genRepoPart(t *rapid.T) string {
	if rapid.IntRange(0, 12).Draw(t, "lh") == 0 {
		return "localhost"
	}
	s := genStr(t, lowNum, 1, 5, "rp")
	n := rapid.IntRange(0, 2).Draw(t, "seps")
	for i := 0; i < n; i++ {
		sep := rapid.SampledFrom([]string{".", "_", "__", "-", "--", "---"}).Draw(t, "sep")
		s += sep + genStr(t, lowNum, 1, 4, "rp")
	}
	return s
}

func genRepo(t *rapid.T) string {
	n := rapid.IntRange(1, 4).Draw(t, "nrepo")
	parts := make([]string, n)
	for i := range parts {
		parts[i] = genRepoPart(t)
	}
	return strings.Join(parts, "/")
}

var tagFirst = []rune("abcdefghijklmnopqrstuvwxyzABCDEFGHIJKLMNOPQRSTUVWXYZ0123456789_")
var tagRest = []rune("abcdefghijklmnopqrstuvwxyzABCDEFGHIJKLMNOPQRSTUVWXYZ0123456789_.-")

func genTag(t *rapid.T) string {
	switch rapid.IntRange(0, 9).Draw(t, "tagkind") {
	case 0:
		return "latest"
	case 1: // exactly 128
		return genStr(t, tagFirst, 1, 1, "t0") + strings.Repeat(rapid.SampledFrom([]string{"a", ".", "-", "_", "Z", "9"}).Draw(t, "fill"), 127)
	case 2:
		return rapid.SampledFrom([]string{"5000", "v1.2.3", "_", "1", "sha256-abc.sig", "a--b", "A.B_C-d"}).Draw(t, "tconst")
	default:
		return genStr(t, tagFirst, 1, 1, "t0") + genStr(t, tagRest, 0, 12, "t1")
	}
}

var hexl = []rune("0123456789abcdef")
var hexm = []rune("0123456789abcdefABCDEF")

func genDigest(t *rapid.T) string {
	alg := rapid.SampledFrom([]string{"sha256", "sha256", "sha512", "sha384", "blake3", "sha256+b64u", "multi.part-alg_x", "SHA256", "a"}).Draw(t, "alg")
	n := rapid.SampledFrom([]int{32, 33, 64, 64, 64, 128, 40, 96}).Draw(t, "hexlen")
	al := hexl
	if rapid.IntRange(0, 6).Draw(t, "mixhex") == 0 {
		al = hexm
	}
	return alg + ":" + genStr(t, al, n, n, "hex")
}

var pathChars = []rune("abcXYZ019_-. ~+/")

func genPath(t *rapid.T) string {
	switch rapid.IntRange(0, 7).Draw(t, "pathkind") {
	case 0:
		return rapid.SampledFrom([]string{".", "..", "/", "./", "../..", "~", "~/x", "a b", "/tmp/x y/z", "./a+b", "a/", "//a", "a..b", " "}).Draw(t, "pconst")
	case 1:
		return "/" + genStr(t, pathChars, 1, 12, "p")
	default:
		return genStr(t, pathChars, 1, 14, "p")
	}
}

// genGrammar draws a string from the reference grammar, component-wise.
func genGrammar(t *rapid.T) string {
	if rapid.IntRange(0, 3).Draw(t, "isoci") == 0 {
		s := rapid.SampledFrom([]string{"ocidir://", "ocidir://", "ocidir://", "ocifile://"}).Draw(t, "scheme") + genPath(t)
		if rapid.Bool().Draw(t, "hastag") {
			s += ":" + genTag(t)
		}
		if rapid.Bool().Draw(t, "hasdig") {
			s += "@" + genDigest(t)
		}
		return s
	}
	s := ""
	if rapid.IntRange(0, 2).Draw(t, "hasreg") > 0 {
		s = genRegistry(t) + "/"
	}
	s += genRepo(t)
	if rapid.Bool().Draw(t, "hastag") {
		s += ":" + genTag(t)
	}
	if rapid.IntRange(0, 2).Draw(t, "hasdig") == 0 {
		s += "@" + genDigest(t)
	}
	return s
}

var mutKinds = []string{"upper-repo", "empty-component", "double-slash", "trail-slash", "trail-colon", "trail-at",
	"bad-tag-char", "long-tag", "short-hex", "unknown-scheme", "ocifile", "prefix-junk", "suffix-junk", "insert-byte",
	"delete-byte", "dup-at", "dup-colon", "underscore-host", "lead-sep", "nonhex", "newline", "space", "upper-scheme",
	"empty-alg", "lead-dash-tag", "empty-scheme", "scheme-variant", "scheme-sep-variant"}

// genMutation applies one grammar-leaving edit to a grammar string. (Whether
// the result really is outside the grammar is decided by the reference model,
// not assumed.)
func genMutation(t *rapid.T) (string, string) {
	s := genGrammar(t)
	kind := rapid.SampledFrom(mutKinds).Draw(t, "mut")
	pos := func() int {
		if len(s) == 0 {
			return 0
		}
		return rapid.IntRange(0, len(s)-1).Draw(t, "pos")
	}
	switch kind {
	case "upper-repo":
		// upper-case one lower-case letter
		idx := []int{}
		for i := 0; i < len(s); i++ {
			if isLower(s[i]) {
				idx = append(idx, i)
			}
		}
		if len(idx) > 0 {
			i := rapid.SampledFrom(idx).Draw(t, "i")
			s = s[:i] + strings.ToUpper(s[i:i+1]) + s[i+1:]
		}
	case "empty-component":
		i := strings.IndexByte(s, '/')
		if i >= 0 {
			s = s[:i] + "/" + s[i:]
		} else {
			s = "/" + s
		}
	case "double-slash":
		p := pos()
		s = s[:p] + "//" + s[p:]
	case "trail-slash":
		s += "/"
	case "trail-colon":
		s += ":"
	case "trail-at":
		s += "@"
	case "bad-tag-char":
		c := rapid.SampledFrom([]string{"!", "$", "*", "%", "é", "\x00", "\\", "?", "#", "="}).Draw(t, "c")
		if i := strings.LastIndexByte(s, ':'); i >= 0 && !strings.Contains(s, "@") {
			s = s[:i+1] + c + s[i+1:]
		} else {
			s = s + ":" + "a" + c
		}
	case "long-tag":
		at := ""
		if i := strings.IndexByte(s, '@'); i >= 0 {
			s, at = s[:i], s[i:]
		}
		if strings.HasPrefix(s, "oci") {
			i := strings.LastIndexByte(s, ':')
			if i > 8 {
				s = s[:i]
			}
		}
		s = s + ":" + strings.Repeat("t", 129) + at
	case "short-hex":
		n := rapid.SampledFrom([]int{0, 1, 16, 31}).Draw(t, "n")
		if i := strings.IndexByte(s, '@'); i >= 0 {
			s = s[:i]
		}
		s += "@sha256:" + strings.Repeat("a", n)
	case "unknown-scheme":
		sc := rapid.SampledFrom([]string{"http", "https", "oci", "docker", "file", "ocidirx", "reg", "o"}).Draw(t, "sc")
		if i := strings.Index(s, "://"); i >= 0 {
			s = sc + s[i:]
		} else {
			s = sc + "://" + s
		}
	case "ocifile":
		if i := strings.Index(s, "://"); i >= 0 {
			s = "ocifile" + s[i:]
		} else {
			s = "ocifile://" + s
		}
	case "prefix-junk":
		s = rapid.SampledFrom([]string{" ", "-", ".", "_", "@", ":", "/", "\t", "é", "!"}).Draw(t, "j") + s
	case "suffix-junk":
		s = s + rapid.SampledFrom([]string{" ", "-", ".", "_", "!", "\n", "\t", "é", "/x y", "\x00"}).Draw(t, "j")
	case "insert-byte":
		p := pos()
		b := rapid.SampledFrom([]string{" ", "A", "_", "-", ".", ":", "@", "/", "\x00", "\n", "é", "+", "~", "%"}).Draw(t, "b")
		s = s[:p] + b + s[p:]
	case "delete-byte":
		if len(s) > 1 {
			p := pos()
			s = s[:p] + s[p+1:]
		}
	case "dup-at":
		s += "@" + genDigest(t)
	case "dup-colon":
		s += ":" + genTag(t)
	case "underscore-host":
		if i := strings.IndexByte(s, '/'); i > 0 {
			s = s[:i/2] + "_" + s[i/2:]
		} else {
			s = "a_b.c/" + s
		}
	case "lead-sep":
		s = rapid.SampledFrom([]string{".", "-", "_", "__"}).Draw(t, "ls") + s
	case "nonhex":
		if i := strings.IndexByte(s, '@'); i >= 0 {
			s = s[:i]
		}
		s += "@sha256:" + strings.Repeat("a", 63) + rapid.SampledFrom([]string{"g", "z", "-", " ", "G"}).Draw(t, "nh")
	case "newline":
		p := pos()
		s = s[:p] + "\n" + s[p:]
	case "space":
		p := pos()
		s = s[:p] + " " + s[p:]
	case "upper-scheme":
		if i := strings.Index(s, "://"); i >= 0 {
			s = strings.ToUpper(s[:1]) + s[1:]
		} else {
			s = "Ocidir://" + s
		}
	case "empty-alg":
		if i := strings.IndexByte(s, '@'); i >= 0 {
			s = s[:i]
		}
		s += "@" + rapid.SampledFrom([]string{":", "1sha:", "sha-:", "-sha:", "sha..x:", "sha256"}).Draw(t, "ea") + strings.Repeat("b", 64)
	case "empty-scheme":
		// an empty scheme in front of something that is itself a reference or host
		if i := strings.Index(s, "://"); i >= 0 {
			s = s[i:]
		} else {
			s = "://" + s
		}
	case "scheme-variant":
		sc := rapid.SampledFrom([]string{"oci2", "ocidir2", "oci-dir", "oci.dir", "oci+dir", "oci_dir", "OciDir", "ocidiR", "0", "é", " ocidir", "ocidir ", "reg", "docker"}).Draw(t, "scv")
		if i := strings.Index(s, "://"); i >= 0 {
			s = sc + s[i:]
		} else {
			s = sc + "://" + s
		}
	case "scheme-sep-variant":
		sep := rapid.SampledFrom([]string{":/", ":", ":///", "//", ":\\/", "://://", " ://", ":// "}).Draw(t, "ssv")
		if i := strings.Index(s, "://"); i >= 0 {
			s = s[:i] + sep + s[i+3:]
		} else {
			s = rapid.SampledFrom([]string{"ocidir", "ocifile", "x", ""}).Draw(t, "ssc") + sep + s
		}
	case "lead-dash-tag":
		if i := strings.IndexByte(s, '@'); i >= 0 {
			s = s[:i]
		}
		s += ":" + rapid.SampledFrom([]string{"-a", ".a", "-", "."}).Draw(t, "ldt")
	}
	return s, kind
}

func gen(t *rapid.T) Case {
	var c Case
	switch k := rapid.IntRange(0, 9).Draw(t, "origin"); {
	case k < 4:
		c.Input, c.Origin = genGrammar(t), "grammar"
	case k < 8:
		s, kind := genMutation(t)
		c.Input, c.Origin = s, "mutation:"+kind
	default:
		c.Input, c.Origin = string(rapid.SliceOfN(rapid.Byte(), 0, 40).Draw(t, "bytes")), "bytes"
	}
	c.NewTag = genTag(t)
	c.NewDig = genDigest(t)
	return c
}

// --------------------------------------------------------------------- check

func fieldsEq(r ref.Ref, p Parsed) bool {
	return r.Scheme == p.Scheme && r.Registry == p.Registry && r.Repository == p.Repository &&
		r.Tag == p.Tag && r.Digest == p.Digest && r.Path == p.Path
}

func sameRef(a, b ref.Ref) bool {
	return a.Scheme == b.Scheme && a.Registry == b.Registry && a.Repository == b.Repository &&
		a.Tag == b.Tag && a.Digest == b.Digest && a.Path == b.Path
}

func show(r ref.Ref) string {
	return fmt.Sprintf("{scheme=%q reg=%q repo=%q tag=%q dig=%q path=%q}", r.Scheme, r.Registry, r.Repository, r.Tag, r.Digest, r.Path)
}

func roundTrip(what string, r ref.Ref) *evid.Violation {
	cn := r.CommonName()
	r2, err := ref.New(cn)
	if err != nil {
		sig := "roundtrip-reparse-fails"
		if r.Scheme == "ocifile" {
			sig = "ocifile-commonname-empty"
		}
		return evid.V(sig, "%s: CommonName()=%q of %s does not parse: %v", what, cn, show(r), err)
	}
	if !sameRef(r, r2) {
		return evid.V("roundtrip-differs", "%s: CommonName()=%q of %s re-parses to %s", what, cn, show(r), show(r2))
	}
	return nil
}

func check(c Case, ev *evid.Collector) *evid.Violation {
	want := Recognise(c.Input)
	got, err := ref.New(c.Input)
	accepted := err == nil
	parts := 0
	if accepted {
		for _, f := range []string{got.Registry, got.Repository, got.Tag, got.Digest, got.Path} {
			if f != "" {
				parts++
			}
		}
	}
	rejMut := !want.OK && strings.HasPrefix(c.Origin, "mutation:")
	cls := "rejected"
	if want.OK {
		cls = "accepted:" + want.Scheme
	}
	ev.Case((accepted && parts >= 3) || rejMut, c.Input, "origin:"+c.Origin, cls)
	ev.Sample(c)

	// (1)/(4) accept/reject and fields agree with the reference model
	if want.OK != accepted {
		if accepted {
			return evid.V("accepts-outside-grammar", "ref.New(%q) accepted as %s but the string is outside the reference grammar (%s)", c.Input, show(got), want.Why)
		}
		return evid.V("rejects-inside-grammar", "ref.New(%q) rejected (%v) but the grammar parses it as %+v", c.Input, err, want)
	}
	if !accepted {
		return nil
	}
	if !fieldsEq(got, want) {
		return evid.V("fields-differ", "ref.New(%q) = %s, reference model says %+v", c.Input, show(got), want)
	}
	// (2) round trip
	if v := roundTrip("New", got); v != nil {
		return v
	}
	// (3) setters change only what they name, result round-trips
	st := got.SetTag(c.NewTag)
	if st.Tag != c.NewTag || st.Digest != "" || st.Scheme != got.Scheme || st.Registry != got.Registry || st.Repository != got.Repository || st.Path != got.Path {
		return evid.V("settag-changes-other", "SetTag(%q) on %s gave %s", c.NewTag, show(got), show(st))
	}
	if v := roundTrip("SetTag", st); v != nil {
		return v
	}
	sd := got.SetDigest(c.NewDig)
	if sd.Digest != c.NewDig || sd.Tag != "" || sd.Scheme != got.Scheme || sd.Registry != got.Registry || sd.Repository != got.Repository || sd.Path != got.Path {
		return evid.V("setdigest-changes-other", "SetDigest(%q) on %s gave %s", c.NewDig, show(got), show(sd))
	}
	if v := roundTrip("SetDigest", sd); v != nil {
		return v
	}
	ad := got.AddDigest(c.NewDig)
	if ad.Digest != c.NewDig || ad.Tag != got.Tag || ad.Scheme != got.Scheme || ad.Registry != got.Registry || ad.Repository != got.Repository || ad.Path != got.Path {
		return evid.V("adddigest-changes-other", "AddDigest(%q) on %s gave %s", c.NewDig, show(got), show(ad))
	}
	if v := roundTrip("AddDigest", ad); v != nil {
		return v
	}
	return nil
}

// checkHost: (5) NewHost agrees with the registry sub-grammar.
func checkHost(s string) *evid.Violation {
	want := RecogniseHost(s)
	got, err := ref.NewHost(s)
	if want.OK != (err == nil) {
		if err == nil {
			return evid.V("newhost-accepts-outside-grammar", "ref.NewHost(%q) accepted as %s", s, show(got))
		}
		return evid.V("newhost-rejects-inside-grammar", "ref.NewHost(%q) rejected: %v", s, err)
	}
	if err == nil && (got.Scheme != want.Scheme || got.Registry != want.Registry || got.Path != want.Path || got.Repository != "" || got.Tag != "" || got.Digest != "") {
		return evid.V("newhost-fields-differ", "ref.NewHost(%q) = %s, model %+v", s, show(got), want)
	}
	return nil
}

func checkAll(c Case, ev *evid.Collector) *evid.Violation {
	if v := check(c, ev); v != nil {
		return v
	}
	// host form: the input itself and its first path component
	if v := checkHost(c.Input); v != nil {
		return v
	}
	if i := strings.IndexByte(c.Input, '/'); i > 0 && !strings.Contains(c.Input, "://") {
		if v := checkHost(c.Input[:i]); v != nil {
			return v
		}
	}
	return nil
}

func TestVerifProp(t *testing.T) {
	ev := evid.For(prop)
	rapid.Check(t, func(rt *rapid.T) {
		c := gen(rt)
		v := evid.Guard(func() *evid.Violation { return checkAll(c, ev) })
		if ev.Report(v, c) {
			rt.Fatalf("%v", v)
		}
	})
}

// TestVerifReplayDir runs every committed replay case (plain regression form).
func TestVerifReplayDir(t *testing.T) {
	ev := evid.For(prop)
	for _, f := range evid.ReplayFiles() {
		var c Case
		if err := evid.LoadCaseFile(f, &c); err != nil {
			t.Fatalf("%s: %v", f, err)
		}
		v := evid.Guard(func() *evid.Violation { return checkAll(c, ev) })
		if ev.Report(v, c) {
			t.Errorf("%s: %v", f, v)
		}
	}
}

func TestVerifReplay(t *testing.T) {
	ev := evid.For(prop)
	var c Case
	ok, err := evid.LoadReplay(&c)
	if !ok {
		t.Skip("no VERIF_REPLAY")
	}
	if err != nil {
		t.Fatal(err)
	}
	v := evid.Guard(func() *evid.Violation { return checkAll(c, ev) })
	if ev.Report(v, c) {
		t.Fatalf("%v", v)
	}
}

// FuzzVerifRef: native coverage-guided fuzzing over raw strings with the same
// oracle.
func FuzzVerifRef(f *testing.F) {
	ev := evid.For(prop)
	for _, s := range []string{"ocidir://", "ocifile://a", "ocidir://a:b@sha256:" + strings.Repeat("a", 64), "localhost", "localhost:5000/a",
		"a.b/c:d@sha256:" + strings.Repeat("0", 64), "@", ":", "A/b", "a-B-c/d", "docker.io/x", "index.docker.io/x/y", "registry-1.docker.io/x",
		"a_b.c/d", "a.:1/b", "a./b", "x://y", "://alpine", "://a.b/c:d", "://localhost:5000", "ocidir:/x", "ocidir:x", "://", "oci2://x", "Ocidir://x", "sha512:" + strings.Repeat("f", 128)} {
		f.Add(s)
	}
	f.Fuzz(func(t *testing.T, s string) {
		if len(s) > 512 {
			return
		}
		c := Case{Input: s, Origin: "fuzz", NewTag: "t", NewDig: "sha256:" + strings.Repeat("a", 64)}
		v := evid.Guard(func() *evid.Violation { return checkAll(c, ev) })
		if ev.Report(v, c) {
			t.Fatalf("%v", v)
		}
	})
}
