package c15

import (
	"fmt"
	"os"
	"strings"
	"testing"

	"pgregory.net/rapid"

	"github.com/regclient/regclient/types/ref"
	"github.com/regclient/regclient/zz_verif/evid"
)

const prop = "C15"

func TestMain(m *testing.M) {
	code := m.Run()
	evid.Flush(code)
	os.Exit(code)
}

// --------------------------------------------------------------------- check

func fieldsEq(r ref.Ref, p Parsed) bool {
	return r.Scheme == p.Scheme && r.Registry == p.Registry && r.Repository == p.Repository &&
		r.Tag == p.Tag && r.Digest == p.Digest && r.Path == p.Path
}

func sameRef(a, b ref.Ref) bool {
	return a.Scheme == b.Scheme && a.Registry == b.Registry && a.Repository == b.Repository &&
		a.Tag == b.Tag && a.Digest == b.Digest && a.Path == b.Path
}

func show(r ref.Ref) string {
	return fmt.Sprintf("{scheme=%q reg=%q repo=%q tag=%q dig=%q path=%q}", r.Scheme, r.Registry, r.Repository, r.Tag, r.Digest, r.Path)
}

func roundTrip(what string, r ref.Ref) *evid.Violation {
	cn := r.CommonName()
	r2, err := ref.New(cn)
	if err != nil {
		sig := "roundtrip-reparse-fails"
		if r.Scheme == "ocifile" {
			sig = "ocifile-commonname-empty"
		}
		return evid.V(sig, "%s: CommonName()=%q of %s does not parse: %v", what, cn, show(r), err)
	}
	if !sameRef(r, r2) {
		return evid.V("roundtrip-differs", "%s: CommonName()=%q of %s re-parses to %s", what, cn, show(r), show(r2))
	}
	return nil
}

func check(c Case, ev *evid.Collector) *evid.Violation {
	want := Recognise(c.Input)
	got, err := ref.New(c.Input)
	accepted := err == nil
	parts := 0
	if accepted {
		for _, f := range []string{got.Registry, got.Repository, got.Tag, got.Digest, got.Path} {
			if f != "" {
				parts++
			}
		}
	}
	rejMut := !want.OK && strings.HasPrefix(c.Origin, "mutation:")
	cls := "rejected"
	if want.OK {
		cls = "accepted:" + want.Scheme
	}
	ev.Case((accepted && parts >= 3) || rejMut, c.Input, "origin:"+c.Origin, cls)
	ev.Sample(c)

	// (1)/(4) accept/reject and fields agree with the reference model
	if want.OK != accepted {
		if accepted {
			return evid.V("accepts-outside-grammar", "ref.New(%q) accepted as %s but the string is outside the reference grammar (%s)", c.Input, show(got), want.Why)
		}
		return evid.V("rejects-inside-grammar", "ref.New(%q) rejected (%v) but the grammar parses it as %+v", c.Input, err, want)
	}
	if !accepted {
		return nil
	}
	if !fieldsEq(got, want) {
		return evid.V("fields-differ", "ref.New(%q) = %s, reference model says %+v", c.Input, show(got), want)
	}
	// (2) round trip
	if v := roundTrip("New", got); v != nil {
		return v
	}
	// (3) setters change only what they name, result round-trips
	st := got.SetTag(c.NewTag)
	if st.Tag != c.NewTag || st.Digest != "" || st.Scheme != got.Scheme || st.Registry != got.Registry || st.Repository != got.Repository || st.Path != got.Path {
		return evid.V("settag-changes-other", "SetTag(%q) on %s gave %s", c.NewTag, show(got), show(st))
	}
	if v := roundTrip("SetTag", st); v != nil {
		return v
	}
	sd := got.SetDigest(c.NewDig)
	if sd.Digest != c.NewDig || sd.Tag != "" || sd.Scheme != got.Scheme || sd.Registry != got.Registry || sd.Repository != got.Repository || sd.Path != got.Path {
		return evid.V("setdigest-changes-other", "SetDigest(%q) on %s gave %s", c.NewDig, show(got), show(sd))
	}
	if v := roundTrip("SetDigest", sd); v != nil {
		return v
	}
	ad := got.AddDigest(c.NewDig)
	if ad.Digest != c.NewDig || ad.Tag != got.Tag || ad.Scheme != got.Scheme || ad.Registry != got.Registry || ad.Repository != got.Repository || ad.Path != got.Path {
		return evid.V("adddigest-changes-other", "AddDigest(%q) on %s gave %s", c.NewDig, show(got), show(ad))
	}
	if v := roundTrip("AddDigest", ad); v != nil {
		return v
	}
	return nil
}

// checkHost: (5) NewHost agrees with the registry sub-grammar.
func checkHost(s string) *evid.Violation {
	want := RecogniseHost(s)
	got, err := ref.NewHost(s)
	if want.OK != (err == nil) {
		if err == nil {
			return evid.V("newhost-accepts-outside-grammar", "ref.NewHost(%q) accepted as %s", s, show(got))
		}
		return evid.V("newhost-rejects-inside-grammar", "ref.NewHost(%q) rejected: %v", s, err)
	}
	if err == nil && (got.Scheme != want.Scheme || got.Registry != want.Registry || got.Path != want.Path || got.Repository != "" || got.Tag != "" || got.Digest != "") {
		return evid.V("newhost-fields-differ", "ref.NewHost(%q) = %s, model %+v", s, show(got), want)
	}
	return nil
}

func checkAll(c Case, ev *evid.Collector) *evid.Violation {
	if v := check(c, ev); v != nil {
		return v
	}
	// host form: the input itself and its first path component
	if v := checkHost(c.Input); v != nil {
		return v
	}
	if i := strings.IndexByte(c.Input, '/'); i > 0 && !strings.Contains(c.Input, "://") {
		if v := checkHost(c.Input[:i]); v != nil {
			return v
		}
	}
	return nil
}

func TestVerifProp(t *testing.T) {
	ev := evid.For(prop)
	rapid.Check(t, func(rt *rapid.T) {
		c := gen(rt)
		v := evid.Guard(func() *evid.Violation { return checkAll(c, ev) })
		if ev.Report(v, c) {
			rt.Fatalf("%v", v)
		}
	})
}

// TestVerifReplayDir runs every committed replay case (plain regression form).
func TestVerifReplayDir(t *testing.T) {
	ev := evid.For(prop)
	for _, f := range evid.ReplayFiles() {
		var c Case
		if err := evid.LoadCaseFile(f, &c); err != nil {
			t.Fatalf("%s: %v", f, err)
		}
		v := evid.Guard(func() *evid.Violation { return checkAll(c, ev) })
		if ev.Report(v, c) {
			t.Errorf("%s: %v", f, v)
		}
	}
}

func TestVerifReplay(t *testing.T) {
	ev := evid.For(prop)
	var c Case
	ok, err := evid.LoadReplay(&c)
	if !ok {
		t.Skip("no VERIF_REPLAY")
	}
	if err != nil {
		t.Fatal(err)
	}
	v := evid.Guard(func() *evid.Violation { return checkAll(c, ev) })
	if ev.Report(v, c) {
		t.Fatalf("%v", v)
	}
}

// FuzzVerifRef: native coverage-guided fuzzing over raw strings with the same
// oracle.
func FuzzVerifRef(f *testing.F) {
	ev := evid.For(prop)
	for _, s := range []string{"ocidir://", "ocifile://a", "ocidir://a:b@sha256:" + strings.Repeat("a", 64), "localhost", "localhost:5000/a",
		"a.b/c:d@sha256:" + strings.Repeat("0", 64), "@", ":", "A/b", "a-B-c/d", "docker.io/x", "index.docker.io/x/y", "registry-1.docker.io/x",
		"a_b.c/d", "a.:1/b", "a./b", "x://y", "://alpine", "://a.b/c:d", "://localhost:5000", "ocidir:/x", "ocidir:x", "://", "oci2://x", "Ocidir://x", "sha512:" + strings.Repeat("f", 128)} {
		f.Add(s)
	}
	f.Fuzz(func(t *testing.T, s string) {
		if len(s) > 512 {
			return
		}
		c := Case{Input: s, Origin: "fuzz", NewTag: "t", NewDig: "sha256:" + strings.Repeat("a", 64)}
		v := evid.Guard(func() *evid.Violation { return checkAll(c, ev) })
		if ev.Report(v, c) {
			t.Fatalf("%v", v)
		}
	})
}
