package c06

import (
	"bytes"
	"context"
	"encoding/json"
	"fmt"
	"net/http"
	"net/url"
	"os"
	"path/filepath"
	"sort"
	"strconv"
	"strings"
	"sync"
	"testing"
	"time"

	"pgregory.net/rapid"

	"github.com/opencontainers/go-digest"
	"github.com/regclient/regclient"
	"github.com/regclient/regclient/scheme"
	"github.com/regclient/regclient/scheme/reg"

	"github.com/regclient/regclient/types/descriptor"
	"github.com/regclient/regclient/types/manifest"
	"github.com/regclient/regclient/types/ref"
	"github.com/regclient/regclient/zz_verif/audit"
	"github.com/regclient/regclient/zz_verif/evid"
	"github.com/regclient/regclient/zz_verif/rcutil"
	rm "github.com/regclient/regclient/zz_verif/regmodel"
)

const prop = "C06"

func TestMain(m *testing.M) {
	code := m.Run()
	evid.Flush(code)
	os.Exit(code)
}

// ---- case ---------------------------------------------------------------------

// Feat is the generated registry / client configuration.
type Feat struct {
	TagDelete    bool  `json:"tag_delete"`       // registry implements DELETE /manifests/<tag>
	TagPage      int   `json:"tag_page"`         // server-side cap of the tag-list page size (0 = none)
	HeadNoDigest bool  `json:"head_no_digest"`   // manifest HEAD answers without Docker-Content-Digest
	Cache        bool  `json:"cache"`            // client-side manifest cache enabled
	Delays       []int `json:"delays,omitempty"` // request latency plan in microseconds (cyclic)
	// PageMode "tomb": the registry cuts a page from its tag directory FIRST and filters deleted tags
	// afterwards (deleted tags leave tombstones that occupy page slots): pages come back short or
	// EMPTY and still carry Link rel="next" while directory entries follow. Tomb lists tags that
	// were created and deleted before the history starts; EmptyNull answers an empty page with "tags":null.
	// Order is the order in which the registry lists (and pages) tags: "" = byte order, "ci" =
	// case-insensitive (the distribution spec's "lexical order"), "push" = order of first push,
	// "rev" = reverse byte order. Link/last are handed out in that order.
	Order     string `json:"order,omitempty"`
	PageMode  string `json:"page_mode,omitempty"`
	Tomb      []int  `json:"tomb,omitempty"`
	EmptyNull bool   `json:"empty_null,omitempty"`
	NoRepo404 bool   `json:"no_repo_404,omitempty"` // tags/list of a repository that was never written answers 404 NAME_UNKNOWN (and the seedless repository does not exist yet)
}

// Step is one operation of a history.
type Step struct {
	Op       string `json:"op"` // put | tagdel | mandel | list | head | get | close | batch
	Tag      int    `json:"tag"`
	Man      int    `json:"man"`
	ByDigest bool   `json:"by_digest,omitempty"`
	Src      string `json:"src,omitempty"` // put: "" = manifest object built from the pool body; "same" = object returned by ManifestGet of tag SrcTag of the system under test; "side" = object returned by ManifestGet of tag SrcTag of another layout
	SrcTag   int    `json:"src_tag,omitempty"`
	CheckRef bool   `json:"check_ref,omitempty"` // mandel: WithManifestCheckReferrers
	Limit    int    `json:"limit,omitempty"`     // list: client-side limit (0 = none)
	Last     int    `json:"last,omitempty"`      // list: 0 = none, else 1+index of the tag passed as "last"
	Batch    []Step `json:"batch,omitempty"`     // batch: operations issued concurrently on one client
	// race: Batch holds one tagdel and one or two puts on ONE tag (operations that do not commute), issued concurrently;
	// operation Late (a put) starts when the others have sent At requests, and the request after that is held back until
	// the late operation's first request was answered (registry systems; a layout has no requests to count)
	Late int `json:"late,omitempty"`
	At   int `json:"at,omitempty"`
	// Force (saved cases only, never generated): issue the race concurrently even while the root cause it shows is
	// listed as a known finding (the generator's cases then run one operation after the other)
	Force bool `json:"force,omitempty"`
	// Var is a variant of how the operation is issued (ways /repo itself reaches the API):
	//   tagdig  reference carries tag AND digest (regctl manifest delete --force-tag-dereference, "repo:tag@digest" arguments)
	//   bare    reference without tag (means "latest"; only drawn for that tag)
	//   child   put by digest with WithManifestChild (what image copy does for index entries)
	//   delman  manifest delete with WithManifest(m)
	//   noreq   head without WithManifestRequireDigest
	//   withref manifest object built with manifest.WithRef(target) like regctl manifest put
	//   cancel  the call gets an already cancelled context (either outcome; an error must be a no-op)
	Var string `json:"var,omitempty"`
}

// Case is one generated history on one system.
type Case struct {
	System string `json:"system"` // reg | layout
	Feat   Feat   `json:"feat"`
	Seed   Seed   `json:"seed"`
	Hist   []Step `json:"hist"`
	// Pool selects the 5 manifests of the universe this case works with (nil = M0..M4)
	Pool []int `json:"pool,omitempty"`
	// CloseEach: every mutating operation is followed by Close (what every regctl command does)
	CloseEach bool `json:"close_each,omitempty"`
	// Fresh: every step uses a new client (one CLI process per command)
	Fresh bool `json:"fresh,omitempty"`
}

var fullNames = []string{"docker.io/library/app", "localhost:5000/team/app", "app"}

func genSeed(t *rapid.T, layout bool) Seed {
	k := rapid.IntRange(0, 9).Draw(t, "seed_kind")
	switch {
	case k == 0:
		return Seed{Kind: "absent"}
	case k <= 2 && layout:
		return Seed{Kind: "empty", NoMediaType: rapid.Bool().Draw(t, "seed_nomt")}
	case k <= 2:
		return Seed{Kind: "absent"}
	}
	s := Seed{Kind: "entries"}
	foreign := layout && rapid.IntRange(0, 2).Draw(t, "seed_foreign") != 0
	if foreign {
		s.FullName = rapid.SampledFrom(fullNames).Draw(t, "seed_fullname")
		s.NoMediaType = rapid.Bool().Draw(t, "seed_nomt")
	}
	n := rapid.IntRange(1, 6).Draw(t, "seed_n")
	used := map[int]bool{}
	for i := 0; i < n; i++ {
		l := fmt.Sprintf("seed%d", i)
		e := SeedEntry{Tag: rapid.IntRange(0, len(Tags)-1).Draw(t, l+"_tag"), Man: rapid.IntRange(0, len(pool.Mans)-1).Draw(t, l+"_man")}
		if !foreign {
			if used[e.Tag] {
				continue
			}
			used[e.Tag] = true
			s.Entries = append(s.Entries, e)
			continue
		}
		switch rapid.IntRange(0, 9).Draw(t, l+"_style") {
		case 0, 1:
			e.Tag = -1 // untagged entry
		case 2, 3, 4:
			e.Full = true
		case 5:
			e.Ctrd = true
		case 6:
			e.Full, e.Ctrd = true, true
		}
		s.Entries = append(s.Entries, e)
		// duplicate entry for the same tag (adjacent), mostly with another manifest
		if e.Tag >= 0 && rapid.IntRange(0, 3).Draw(t, l+"_dup") == 0 {
			d := e
			d.Man = rapid.IntRange(0, len(pool.Mans)-1).Draw(t, l+"_dupman")
			if rapid.IntRange(0, 3).Draw(t, l+"_dupstyle") == 0 {
				d.Full = !d.Full
			}
			s.Entries = append(s.Entries, d)
		}
	}
	return s
}

var opKinds = []string{
	"put", "put", "put", "put", "put", "put", "put",
	"putdig", "putdig",
	"putsrc", "putsrc",
	"tagdel", "tagdel", "tagdel", "tagdel",
	"mandel", "mandel",
	"list", "list",
	"head", "get",
	"close",
	"batch", "batch", "batch",
	"race", "race",
}

var batchKinds = []string{"put", "put", "put", "tagdel", "tagdel", "putdig", "head", "get", "mandel"}

func genStep(t *rapid.T, l string, kinds []string, tagIdx int) Step {
	k := rapid.SampledFrom(kinds).Draw(t, l+"_op")
	tg := tagIdx
	if tg < 0 {
		tg = rapid.IntRange(0, len(Tags)-1).Draw(t, l+"_tag")
	}
	// low manifest indices are favoured so that tags share manifests often
	mn := rapid.SampledFrom([]int{0, 0, 0, 1, 1, 2, 2, 3, 4}).Draw(t, l+"_man")
	variant := func(choices ...string) string {
		if tagIdx >= 0 || rapid.IntRange(0, 4).Draw(t, l+"_hasvar") != 0 {
			return "" // operations of a batch are issued plainly
		}
		return rapid.SampledFrom(choices).Draw(t, l+"_var")
	}
	switch k {
	case "put":
		s := Step{Op: "put", Tag: tg, Man: mn, Var: variant("tagdig", "tagdig", "bare", "withref", "cancel")}
		if s.Var == "bare" {
			s.Tag = 1 // "latest"
		}
		return s
	case "putdig":
		return Step{Op: "put", ByDigest: true, Man: mn, Var: variant("child", "child", "withref", "cancel")}
	case "putsrc":
		s := Step{Op: "put", Tag: tg, Man: mn, ByDigest: rapid.IntRange(0, 2).Draw(t, l+"_bydig") != 0,
			Src: rapid.SampledFrom([]string{"same", "same", "side"}).Draw(t, l+"_src"), SrcTag: rapid.IntRange(0, len(Tags)-1).Draw(t, l+"_srctag")}
		return s
	case "tagdel":
		return Step{Op: "tagdel", Tag: tg, Var: variant("cancel")}
	case "mandel":
		return Step{Op: "mandel", Tag: tg, Man: mn, CheckRef: rapid.Bool().Draw(t, l+"_checkref"), Var: variant("tagdig", "tagdig", "delman", "delman", "cancel")}
	case "list":
		s := Step{Op: "list"}
		if rapid.Bool().Draw(t, l+"_haslimit") {
			s.Limit = rapid.IntRange(1, 5).Draw(t, l+"_limit")
		}
		if rapid.IntRange(0, 2).Draw(t, l+"_haslast") == 0 {
			s.Last = 1 + rapid.IntRange(0, len(Tags)-1).Draw(t, l+"_last")
		}
		return s
	case "head", "get":
		s := Step{Op: k, Tag: tg, Man: mn, ByDigest: rapid.IntRange(0, 2).Draw(t, l+"_bydig") == 0}
		if k == "head" {
			s.Var = variant("tagdig", "bare", "noreq", "noreq")
		} else {
			s.Var = variant("tagdig", "bare")
		}
		switch s.Var {
		case "tagdig":
			s.ByDigest = true // the digest of a tag+digest reference decides
		case "bare":
			s.ByDigest, s.Tag = false, 1
		}
		return s
	case "close":
		return Step{Op: "close"}
	case "race":
		// one tag delete against one or two pushes to the SAME tag; any manifest (shared with other tags or not)
		s := Step{Op: "race", Tag: tg}
		np := rapid.IntRange(1, 2).Draw(t, l+"_rputs")
		pos := rapid.IntRange(0, np).Draw(t, l+"_rdelpos")
		for i := 0; i <= np; i++ {
			if i == pos {
				s.Batch = append(s.Batch, Step{Op: "tagdel", Tag: tg})
				continue
			}
			s.Batch = append(s.Batch, Step{Op: "put", Tag: tg, Man: rapid.SampledFrom([]int{0, 0, 0, 1, 1, 2, 2, 3, 4}).Draw(t, fmt.Sprintf("%s_rman%d", l, i))})
		}
		if rapid.IntRange(0, 2).Draw(t, l+"_rmandel") == 0 {
			// the deleter is a manifest delete of the very manifest one of the pushes writes
			victim := 0
			if pos == 0 {
				victim = 1
			}
			s.Batch[pos] = Step{Op: "mandel", Tag: tg, Man: s.Batch[victim].Man, CheckRef: rapid.Bool().Draw(t, l+"_rcheckref")}
		}
		s.Late = rapid.IntRange(0, np-1).Draw(t, l+"_rlate")
		if s.Late >= pos {
			s.Late++ // index of a put
		}
		s.At = rapid.IntRange(0, 14).Draw(t, l+"_rat")
		return s
	}
	// batch: 2-4 operations on pairwise distinct tags
	n := rapid.IntRange(2, 4).Draw(t, l+"_bn")
	perm := rapid.Permutation([]int{0, 1, 2, 3, 4}).Draw(t, l+"_btags")
	s := Step{Op: "batch"}
	for i := 0; i < n; i++ {
		s.Batch = append(s.Batch, genStep(t, fmt.Sprintf("%s_b%d", l, i), batchKinds, perm[i]))
	}
	return s
}

func gen(t *rapid.T) Case {
	c := Case{System: rapid.SampledFrom([]string{"reg", "layout", "layout"}).Draw(t, "system")}
	if c.System == "reg" {
		c.Feat.TagDelete = rapid.Bool().Draw(t, "tag_delete")
		c.Feat.TagPage = rapid.SampledFrom([]int{0, 1, 1, 2, 2, 3, 4, 5}).Draw(t, "tag_page")
		c.Feat.HeadNoDigest = rapid.IntRange(0, 3).Draw(t, "head_no_digest") == 0
		c.Feat.Cache = rapid.IntRange(0, 3).Draw(t, "cache") == 0
		if rapid.IntRange(0, 2).Draw(t, "has_delays") == 0 {
			c.Feat.Delays = rapid.SliceOfN(rapid.SampledFrom([]int{0, 0, 30, 200}), 1, 5).Draw(t, "delays")
		}
		c.Feat.NoRepo404 = rapid.IntRange(0, 2).Draw(t, "no_repo_404") == 0
		c.Feat.Order = rapid.SampledFrom([]string{"", "", "ci", "ci", "push", "rev"}).Draw(t, "list_order")
		if rapid.IntRange(0, 2).Draw(t, "page_tomb") == 0 {
			c.Feat.PageMode = "tomb"
			c.Feat.TagPage = rapid.SampledFrom([]int{1, 1, 1, 2, 2, 3}).Draw(t, "tomb_page")
			for i := range Tags {
				if rapid.IntRange(0, 2).Draw(t, fmt.Sprintf("tomb%d", i)) == 0 {
					c.Feat.Tomb = append(c.Feat.Tomb, i)
				}
			}
			c.Feat.EmptyNull = rapid.IntRange(0, 3).Draw(t, "empty_null") == 0
		}
	}
	// M0 and M1 (shared layers) always, plus three of the other seven
	if rapid.Bool().Draw(t, "pool_default") {
		c.Pool = append([]int{}, DefaultPool...)
	} else {
		c.Pool = append([]int{0, 1}, rapid.Permutation([]int{2, 3, 4, 5, 6, 7, 8}).Draw(t, "pool")[:3]...)
	}
	c.CloseEach = c.System == "layout" && rapid.IntRange(0, 3).Draw(t, "close_each") == 0
	c.Fresh = rapid.IntRange(0, 4).Draw(t, "fresh") == 0
	c.Seed = genSeed(t, c.System == "layout")
	n := rapid.IntRange(1, 25).Draw(t, "n")
	for i := 0; i < n; i++ {
		c.Hist = append(c.Hist, genStep(t, fmt.Sprintf("s%d", i), opKinds, -1))
	}
	return c
}

// ---- environment ---------------------------------------------------------------

const (
	regHost = "reg.example.test"
	regRepo = "proj/app"
)

type env struct {
	c    Case
	ev   *evid.Collector
	ctx  context.Context
	m    *rm.Model
	h    *rm.Host
	dir  string // layout under test
	side string // side layout (source of fetched manifests)
	rc   *regclient.RegClient
	base ref.Ref
	sref ref.Ref
	conf rcutil.Conf
	mod  *model
	lay  bool

	prevRaw rawIndex // layout: index.json after the previous step

	// evidence
	classes    map[string]bool
	ntShared   bool
	ntConc     bool
	ntPaged    bool
	lastOfPage string // evidence only: last live tag of the previous linked page
	firstKnown *evid.Violation
	explained  bool // the violation just returned is completely explained by one specific root cause
}

func (e *env) class(s string) { e.classes[s] = true }

// newMan builds a fresh manifest object (never shared between goroutines).
func newMan(pm PoolMan, withRef *ref.Ref) (manifest.Manifest, error) {
	opts := []manifest.Opts{manifest.WithRaw(append([]byte{}, pm.Body...))}
	if pm.NeedDesc {
		opts = append(opts, manifest.WithDesc(descriptor.Descriptor{MediaType: pm.MediaType, Digest: digest.Digest(pm.Digest), Size: int64(len(pm.Body))}))
	}
	if withRef != nil {
		opts = append(opts, manifest.WithRef(*withRef))
	}
	return manifest.New(opts...)
}

func (e *env) tagRef(t string) ref.Ref { return e.base.SetTag(t) }
func (e *env) digRef(d string) ref.Ref { return e.base.SetDigest(d) }

func setup(c Case, ev *evid.Collector) (*env, error) {
	e := &env{c: c, ev: ev, lay: c.System == "layout", classes: map[string]bool{}}
	e.mod = newModel(e.lay)
	tmp, err := os.MkdirTemp("", "c06-")
	if err != nil {
		return nil, err
	}
	e.dir = filepath.Join(tmp, "lay")
	e.side = filepath.Join(tmp, "side")
	// side layout: pool manifest i under pool tag i (written raw, regclient's own style)
	sideSeed := Seed{Kind: "entries"}
	for i := range pool.Mans {
		sideSeed.Entries = append(sideSeed.Entries, SeedEntry{Tag: i, Man: i})
	}
	if err := writeSeedLayout(e.side, sideSeed); err != nil {
		return nil, err
	}
	e.sref, err = ref.New("ocidir://" + e.side)
	if err != nil {
		return nil, err
	}
	e.m = rm.New()
	e.m.Cap = 20000
	conf := rcutil.Conf{}
	if e.lay {
		if err := writeSeedLayout(e.dir, c.Seed); err != nil {
			return nil, err
		}
		e.base, err = ref.New("ocidir://" + e.dir)
		if err != nil {
			return nil, err
		}
	} else {
		e.h = e.m.AddHost(regHost)
		e.h.Feat = rm.Features{TagDelete: c.Feat.TagDelete, TagPage: c.Feat.TagPage, HeadNoDigest: c.Feat.HeadNoDigest, TagListNoRepo404: c.Feat.NoRepo404}
		for _, d := range c.Feat.Delays {
			e.h.Delays = append(e.h.Delays, time.Duration(d)*time.Microsecond)
		}
		if !(c.Feat.NoRepo404 && len(c.Seed.Entries) == 0) {
			r := e.h.Repo(regRepo)
			for d, b := range pool.Blobs {
				r.Blobs[d] = b
			}
		}
		for _, se := range c.Seed.Entries {
			r := e.h.Repo(regRepo)
			pm := pool.Mans[se.Man]
			r.Manifests[pm.Digest] = &rm.Manifest{MediaType: pm.MediaType, Body: pm.Body}
			if se.Tag >= 0 {
				r.Tags[Tags[se.Tag]] = pm.Digest
			}
		}
		if c.Feat.PageMode == "tomb" || c.Feat.Order != "" {
			e.listIntercept()
		}
		e.base, err = ref.New(regHost + "/" + regRepo)
		if err != nil {
			return nil, err
		}
		if c.Feat.Cache {
			conf.RegOpts = append(conf.RegOpts, reg.WithCache(time.Minute, 100))
		}
	}
	e.conf = conf
	e.rc = rcutil.New(e.m, conf)
	return e, nil
}

// listIntercept answers tags/list in the case's listing order and paging mode.
//
// Order: the registry keeps its tag directory in byte order, case-insensitive order, order
// of first push or reverse byte order and pages through it in that order; Link rel="next"
// carries the last directory entry of the page as "last" and the client has to follow it
// as handed out.
//
// PageMode "tomb" (cut first, filter afterwards): the directory holds every tag name that
// ever existed (live tags and tombstones of deleted ones); the page is cut from it first,
// deleted names are dropped afterwards and Link rel="next" is sent whenever directory
// entries follow the cut — a page may be short or empty and still have a successor.
// Otherwise only live tags are paged (pages are full). All of this is within the
// distribution spec (a page may hold fewer than n results; Link decides about more).
func (e *env) listIntercept() {
	tomb := e.c.Feat.PageMode == "tomb"
	known := map[string]bool{}
	var dir []string // every name ever seen, in order of first appearance
	add := func(t string) {
		if !known[t] {
			known[t] = true
			dir = append(dir, t)
		}
	}
	if tomb {
		for _, i := range e.c.Feat.Tomb {
			if i >= 0 && i < len(Tags) {
				add(Tags[i])
			}
		}
	}
	for _, se := range e.c.Seed.Entries {
		if se.Tag >= 0 {
			add(Tags[se.Tag])
		}
	}
	less := func(a, b string) bool { return a < b }
	switch e.c.Feat.Order {
	case "ci":
		less = func(a, b string) bool {
			la, lb := strings.ToLower(a), strings.ToLower(b)
			if la != lb {
				return la < lb
			}
			return a < b
		}
	case "rev":
		less = func(a, b string) bool { return a > b }
	}
	e.h.Intercept = func(m *rm.Model, h *rm.Host, en *rm.Entry, req *http.Request) *rm.Resp {
		repo, ok := h.Repos[regRepo]
		if !ok {
			return nil
		}
		// called before every request is applied: no name is ever missed (several new names at once
		// cannot happen: one request creates at most one tag)
		fresh := []string{}
		for t := range repo.Tags {
			if !known[t] {
				fresh = append(fresh, t)
			}
		}
		sort.Strings(fresh)
		for _, t := range fresh {
			add(t)
		}
		if en.Class != "tags-list" || en.Repo != regRepo {
			return nil
		}
		names := []string{}
		for _, t := range dir {
			if _, live := repo.Tags[t]; live || tomb {
				names = append(names, t)
			}
		}
		if e.c.Feat.Order != "push" {
			sort.SliceStable(names, func(i, j int) bool { return less(names[i], names[j]) })
		}
		q := req.URL.Query()
		n := e.c.Feat.TagPage
		if v, err := strconv.Atoi(q.Get("n")); err == nil && v > 0 && (n <= 0 || v < n) {
			n = v
		}
		if last := q.Get("last"); last != "" {
			start := -1
			for i, t := range names {
				if t == last {
					start = i + 1
				}
			}
			if start < 0 {
				start = 0
				if e.c.Feat.Order != "push" {
					for start < len(names) && !less(last, names[start]) {
						start++
					}
				} else if known[last] {
					// push order, the name is known but not listed (deleted, no tombstones kept): continue
					// behind the names pushed before it
					for i, t := range dir {
						if t == last {
							cnt := 0
							for _, x := range dir[:i] {
								if _, live := repo.Tags[x]; live {
									cnt++
								}
							}
							start = cnt
						}
					}
				}
			}
			names = names[start:]
		}
		r := &rm.Resp{Status: 200, Header: http.Header{}, TruncateAt: -1}
		if n > 0 && len(names) > n {
			names = names[:n]
			nq := url.Values{}
			nq.Set("n", strconv.Itoa(n))
			nq.Set("last", names[len(names)-1])
			r.Header.Set("Link", "</v2/"+regRepo+"/tags/list?"+nq.Encode()+">; rel=\"next\"")
			e.ntPaged = true
		}
		live := []string{}
		for _, t := range names {
			if _, ok := repo.Tags[t]; ok {
				live = append(live, t)
			}
		}
		if r.Header.Get("Link") != "" {
			switch {
			case len(live) == 0:
				e.class("state:empty-page-with-next-link")
			case len(live) < len(names):
				e.class("state:short-page-with-next-link")
			}
			if len(live) > 0 {
				e.lastOfPage = live[len(live)-1]
			}
		}
		if q.Get("last") != "" && len(live) > 0 && e.lastOfPage != "" && live[0] <= e.lastOfPage {
			e.class("state:next-page-starts-bytewise-before-previous-end")
		}
		var body []byte
		if len(live) == 0 && e.c.Feat.EmptyNull {
			body = []byte(`{"name":"` + regRepo + `","tags":null}`)
		} else {
			body, _ = json.Marshal(map[string]any{"name": regRepo, "tags": live})
		}
		r.Header.Set("Content-Type", "application/json")
		r.Body = body
		return r
	}
}

func (e *env) cleanup() {
	if e.dir != "" {
		os.RemoveAll(filepath.Dir(e.dir))
	}
}

// initModel derives the initial reference state from the seed. Where another
// tool left several entries for one tag the map's initial value is whichever of
// them the client reports (it must be one of them).
func (e *env) initModel() *evid.Violation {
	c := e.c
	if !e.lay {
		for _, se := range c.Seed.Entries {
			d := pool.Mans[se.Man].Digest
			e.mod.file[d] = present
			if se.Tag >= 0 {
				e.mod.tags[Tags[se.Tag]] = d
			}
		}
		return nil
	}
	cands := map[string][]string{}
	for _, se := range c.Seed.Entries {
		d := pool.Mans[se.Man].Digest
		e.mod.file[d] = present
		if se.Tag < 0 {
			e.mod.untagged[d] = true
			continue
		}
		cands[Tags[se.Tag]] = append(cands[Tags[se.Tag]], d)
	}
	for _, t := range Tags {
		l := cands[t]
		switch len(l) {
		case 0:
		case 1:
			e.mod.tags[t] = l[0]
		default:
			e.class("seed:duplicate-entries")
			got := ""
			if m, err := e.rc.ManifestHead(e.ctx, e.tagRef(t)); err == nil {
				got = m.GetDescriptor().Digest.String()
			}
			e.mod.reprobe[t] = l
			if got == "" || !e.mod.resolveReprobe(t, got) {
				return evid.V("seed/tag-with-several-entries-not-resolved", "seeded layout has entries %v for tag %q but the client resolves it to %q", names(l), t, manName(got))
			}
		}
	}
	e.mod.settle()
	e.prevRaw = readRawIndex(e.dir)
	return nil
}

func names(l []string) []string {
	out := make([]string, len(l))
	for i, d := range l {
		out[i] = manName(d)
	}
	return out
}

// ---- operations ---------------------------------------------------------------

type opResult struct {
	err  error
	viol *evid.Violation // a judgement made while executing (wrong content returned)
}

func isTimeout(ctx context.Context) bool { return ctx.Err() != nil }

func (e *env) getTags(opts ...scheme.TagOpts) ([]string, error) {
	tl, err := e.rc.TagList(e.ctx, e.base, opts...)
	if err != nil {
		return nil, err
	}
	return tl.GetTags()
}

// fetch performs head or get and returns digest, body (get only).
func (e *env) fetch(r ref.Ref, get bool, noReq ...bool) (string, []byte, string, error) {
	if get {
		m, err := e.rc.ManifestGet(e.ctx, r)
		if err != nil {
			return "", nil, "", err
		}
		b, err := m.RawBody()
		if err != nil {
			return "", nil, "", err
		}
		return m.GetDescriptor().Digest.String(), b, manifest.GetMediaType(m), nil
	}
	hopts := []regclient.ManifestOpts{regclient.WithManifestRequireDigest()}
	if len(noReq) > 0 && noReq[0] {
		hopts = nil
	}
	m, err := e.rc.ManifestHead(e.ctx, r, hopts...)
	if err != nil {
		return "", nil, "", err
	}
	return m.GetDescriptor().Digest.String(), nil, manifest.GetMediaType(m), nil
}

// opCtx is the context an operation is issued with.
func (e *env) opCtx(s Step) context.Context {
	if s.Var == "cancel" {
		ctx, cancel := context.WithCancel(e.ctx)
		cancel()
		return ctx
	}
	return e.ctx
}

// judgeFetch compares a head/get outcome with what the model says about want
// ("" = must not resolve; st = file state of want).
func judgeFetch(what string, get bool, want string, st int, dig string, body []byte, mt string, err error) (string, string) {
	verb := "head"
	if get {
		verb = "get"
	}
	if want == "" || st == absent {
		if err == nil {
			return "still-resolves", fmt.Sprintf("%s of %s succeeded (%s) although the model holds nothing there", verb, what, manName(dig))
		}
		return "", ""
	}
	if err != nil {
		if st == maybe {
			return "", ""
		}
		return "not-found", fmt.Sprintf("%s of %s failed (%v), model says %s", verb, what, err, manName(want))
	}
	if dig != want {
		return "wrong-digest", fmt.Sprintf("%s of %s returned digest %s (%s), model says %s", verb, what, dig, manName(dig), manName(want))
	}
	i := manIndex(want)
	if i >= 0 {
		if get && !bytes.Equal(body, pool.Mans[i].Body) {
			return "body-differs", fmt.Sprintf("get of %s returned %d bytes that differ from the stored manifest %s", what, len(body), manName(want))
		}
		if mt != pool.Mans[i].MediaType {
			return "media-type-differs", fmt.Sprintf("%s of %s reports media type %q, stored manifest %s has %q", verb, what, mt, manName(want), pool.Mans[i].MediaType)
		}
	}
	return "", ""
}

// run executes one plain (non batch) step against the client and returns the
// error of the mutating / reading call. Content judgements of reads are made
// against mod (the model before the step).
func (e *env) run(s Step, mod *model) opResult {
	switch s.Op {
	case "put":
		var m manifest.Manifest
		var err error
		dig := pool.Mans[s.Man].Digest
		switch s.Src {
		case "same":
			t := Tags[s.SrcTag]
			want, has := mod.tags[t]
			m, err = e.rc.ManifestGet(e.ctx, e.tagRef(t))
			if err != nil {
				if has {
					return opResult{viol: evid.V("get/tag-not-found", "ManifestGet of tag %q failed (%v), model says %s", t, err, manName(want))}
				}
				m, err = newMan(pool.Mans[s.Man], nil) // made total: nothing to fetch, push a fresh object
			} else {
				dig = m.GetDescriptor().Digest.String()
				if !has || dig != want {
					return opResult{viol: evid.V("get/tag-wrong-digest", "ManifestGet of tag %q returned %s, model says %s", t, manName(dig), manName(want))}
				}
			}
		case "side":
			m, err = e.rc.ManifestGet(e.ctx, e.sref.SetTag(Tags[s.SrcTag]))
			dig = pool.Mans[s.SrcTag].Digest
			if err == nil && m.GetDescriptor().Digest.String() != dig {
				err = fmt.Errorf("side layout returned %s for %s", m.GetDescriptor().Digest, Tags[s.SrcTag])
			}
			if err != nil {
				return opResult{viol: &evid.Violation{Sig: "harness-side-layout", Msg: err.Error()}}
			}
		}
		r := e.tagRef(Tags[s.Tag])
		if s.ByDigest {
			r = e.digRef(dig)
		}
		popts := []regclient.ManifestOpts{}
		switch s.Var {
		case "tagdig":
			r = e.tagRef(Tags[s.Tag]).AddDigest(dig)
		case "bare":
			if !s.ByDigest && Tags[s.Tag] == "latest" {
				r = e.base // ocidir: no tag at all; registry: ref.New already filled in "latest"
			}
		case "child":
			if s.ByDigest {
				popts = append(popts, regclient.WithManifestChild())
			}
		}
		if m == nil && err == nil {
			if s.Var == "withref" {
				m, err = newMan(pool.Mans[s.Man], &r)
			} else {
				m, err = newMan(pool.Mans[s.Man], nil)
			}
		}
		if err != nil {
			return opResult{viol: &evid.Violation{Sig: "harness-manifest-new", Msg: err.Error()}}
		}
		return opResult{err: e.rc.ManifestPut(e.opCtx(s), r, m, popts...)}
	case "tagdel":
		return opResult{err: e.rc.TagDelete(e.opCtx(s), e.tagRef(Tags[s.Tag]))}
	case "mandel":
		opts := []regclient.ManifestOpts{}
		if s.CheckRef {
			opts = append(opts, regclient.WithManifestCheckReferrers())
		}
		r := e.digRef(pool.Mans[s.Man].Digest)
		switch s.Var {
		case "tagdig":
			r = e.tagRef(Tags[s.Tag]).AddDigest(pool.Mans[s.Man].Digest)
		case "delman":
			dm, err := newMan(pool.Mans[s.Man], nil)
			if err != nil {
				return opResult{viol: &evid.Violation{Sig: "harness-manifest-new", Msg: err.Error()}}
			}
			opts = append(opts, regclient.WithManifest(dm))
		}
		return opResult{err: e.rc.ManifestDelete(e.opCtx(s), r, opts...)}
	case "close":
		return opResult{err: e.rc.Close(e.ctx, e.base)}
	case "head", "get":
		var r ref.Ref
		var want, what string
		st := present
		if s.ByDigest {
			want = pool.Mans[s.Man].Digest
			st = mod.file[want]
			r, what = e.digRef(want), "digest "+manName(want)
			if s.Var == "tagdig" {
				r, what = e.tagRef(Tags[s.Tag]).AddDigest(want), fmt.Sprintf("%s@%s", Tags[s.Tag], manName(want))
			}
		} else {
			t := Tags[s.Tag]
			want = mod.tags[t]
			if want != "" {
				st = mod.file[want]
			}
			r, what = e.tagRef(t), fmt.Sprintf("tag %q", t)
			if s.Var == "bare" && t == "latest" {
				r, what = e.base, "the reference without tag (latest)"
			}
		}
		dig, body, mt, err := e.fetch(r, s.Op == "get", s.Var == "noreq")
		if s.Var == "noreq" && err == nil && dig == "" {
			dig = want // without WithManifestRequireDigest a registry that sends no digest header leaves it empty
		}
		if sym, msg := judgeFetch(what, s.Op == "get", want, st, dig, body, mt, err); sym != "" {
			kind := "tag-"
			if s.ByDigest {
				kind = "manifest-"
			}
			return opResult{err: err, viol: evid.V(s.Op+"/"+kind+sym, "%s", msg)}
		}
		return opResult{}
	case "list":
		opts := []scheme.TagOpts{}
		if s.Limit > 0 {
			opts = append(opts, scheme.WithTagLimit(s.Limit))
		}
		last := ""
		if s.Last > 0 {
			last = Tags[s.Last-1]
			opts = append(opts, scheme.WithTagLast(last))
		}
		got, err := e.getTags(opts...)
		if err != nil {
			if len(mod.tags) == 0 && ((e.lay && !e.prevRaw.Exists) || e.repoAbsent()) {
				return opResult{} // not yet a layout (no index.json) / a repository the registry does not know yet: nothing to list
			}
			return opResult{err: err, viol: evid.V("list/taglist-error", "TagList(limit=%d,last=%q) failed: %v", s.Limit, last, err)}
		}
		// required: the first min(limit, remaining) tags after last in byte order (a backend may
		// ignore limit and last and return more); nothing outside the map; no tag twice
		all := mod.sortedTags()
		rem := []string{}
		for _, t := range all {
			if last == "" || t > last {
				rem = append(rem, t)
			}
		}
		if s.Limit > 0 && len(rem) > s.Limit {
			rem = rem[:s.Limit]
		}
		minCount := 0
		if !e.lay && e.c.Feat.Order != "" {
			// the registry lists in another order: which tags come first is its business; without
			// "last" at least min(limit, all) tags must come back, with "last" only the subset and
			// no-duplicate clauses are judged
			rem = nil
			if last == "" {
				minCount = len(all)
				if s.Limit > 0 && s.Limit < minCount {
					minCount = s.Limit
				}
			}
		}
		if len(got) < minCount {
			return opResult{viol: evid.V("list/taglist-missing-tag", "TagList(limit=%d) = %v holds fewer than min(limit, %d) tags (model tags %v, page cap %d, order %q)", s.Limit, got, len(all), all, e.c.Feat.TagPage, e.c.Feat.Order)}
		}
		seen := map[string]bool{}
		for _, t := range got {
			if seen[t] {
				return opResult{viol: evid.V("list/taglist-duplicate", "TagList(limit=%d,last=%q) reports %q twice: %v", s.Limit, last, t, got)}
			}
			seen[t] = true
			if _, ok := mod.tags[t]; !ok {
				return opResult{viol: evid.V("list/taglist-phantom-tag", "TagList(limit=%d,last=%q) reports %q which the model does not hold: %v vs %v", s.Limit, last, t, got, all)}
			}
		}
		for _, t := range rem {
			if !seen[t] {
				return opResult{viol: evid.V("list/taglist-missing-tag", "TagList(limit=%d,last=%q) = %v lacks %q (model tags %v, page cap %d)", s.Limit, last, got, t, all, e.c.Feat.TagPage)}
			}
		}
		if !e.lay && e.c.Feat.TagPage > 0 && len(rem) > e.c.Feat.TagPage {
			e.ntPaged = true
		}
		return opResult{}
	}
	return opResult{viol: &evid.Violation{Sig: "harness-unknown-op", Msg: s.Op}}
}

// apply advances the model by one plain step and returns what the call must do.
func apply(mod *model, s Step) expect {
	switch s.Op {
	case "put":
		dig := pool.Mans[s.Man].Digest
		switch s.Src {
		case "same":
			if d, ok := mod.tags[Tags[s.SrcTag]]; ok {
				dig = d
			}
		case "side":
			dig = pool.Mans[s.SrcTag].Digest
		}
		if s.ByDigest && s.Var == "child" {
			return mod.putChild(dig)
		}
		if s.ByDigest {
			return mod.putDigest(dig)
		}
		return mod.putTag(Tags[s.Tag], dig)
	case "tagdel":
		return mod.tagDel(Tags[s.Tag])
	case "mandel":
		return mod.manDel(pool.Mans[s.Man].Digest)
	}
	return mustOK // close and reads: judged in run
}

func describe(s Step) string {
	if s.Var != "" {
		v := s.Var
		s.Var = ""
		return describe(s) + " [" + v + "]"
	}
	switch s.Op {
	case "put":
		src := fmt.Sprintf("M%d", s.Man)
		if s.Src != "" {
			src = fmt.Sprintf("fetched(%s:%s, else M%d)", s.Src, Tags[s.SrcTag], s.Man)
		}
		if s.ByDigest {
			return "put " + src + " by digest"
		}
		return fmt.Sprintf("put %s to tag %q", src, Tags[s.Tag])
	case "tagdel":
		return fmt.Sprintf("tagdel %q", Tags[s.Tag])
	case "mandel":
		return fmt.Sprintf("mandel M%d (checkref=%v)", s.Man, s.CheckRef)
	case "head", "get":
		if s.ByDigest {
			return fmt.Sprintf("%s M%d by digest", s.Op, s.Man)
		}
		return fmt.Sprintf("%s tag %q", s.Op, Tags[s.Tag])
	case "list":
		return fmt.Sprintf("list limit=%d last=%d", s.Limit, s.Last)
	case "batch", "race":
		parts := []string{}
		for _, b := range s.Batch {
			parts = append(parts, describe(b))
		}
		if s.Op == "race" {
			return fmt.Sprintf("race{%s; #%d starts after %d requests of the others}", strings.Join(parts, " | "), s.Late, s.At)
		}
		return "batch{" + strings.Join(parts, " | ") + "}"
	}
	return s.Op
}

func judgeResult(s Step, ex expect, err error) *evid.Violation {
	if s.Op == "head" || s.Op == "get" || s.Op == "list" {
		return nil
	}
	op := s.Op
	if s.Op == "put" && s.ByDigest {
		op = "putdig"
	}
	switch {
	case ex == mustOK && err != nil:
		return evid.V(op+"/unexpected-error", "%s failed on a conforming backend: %v", describe(s), err)
	case ex == mustFail && err == nil:
		return evid.V(op+"/unexpected-success", "%s returned nil although the model holds nothing to delete", describe(s))
	}
	return nil
}

// commute tells whether the operations of a batch commute in the current state
// (so that the expected final state and every result are unique).
func commute(mod *model, batch []Step, layout bool) bool {
	tags := map[int]bool{}
	pushes := map[int]int{} // manifest -> 1 by tag, 2 by digest (bit set)
	for _, s := range batch {
		switch s.Op {
		case "put":
			if s.ByDigest {
				pushes[s.Man] |= 2
			} else {
				pushes[s.Man] |= 1
			}
		}
		if (s.Op == "put" && !s.ByDigest) || s.Op == "tagdel" || ((s.Op == "head" || s.Op == "get") && !s.ByDigest) {
			if tags[s.Tag] {
				return false
			}
			tags[s.Tag] = true
		}
	}
	if layout {
		for _, p := range pushes {
			if p == 3 {
				return false // untagged root vs tagged entry of one digest: order decides the raw index
			}
		}
	}
	dels := map[int]bool{}
	for _, s := range batch {
		if s.Op != "mandel" {
			continue
		}
		d := pool.Mans[s.Man].Digest
		if dels[s.Man] || pushes[s.Man] != 0 || mod.file[d] == maybe {
			return false
		}
		dels[s.Man] = true
		for t := range tags {
			if mod.tags[Tags[t]] == d {
				return false
			}
		}
		for _, o := range batch {
			if (o.Op == "head" || o.Op == "get") && o.ByDigest && o.Man == s.Man {
				return false
			}
		}
	}
	// a tag delete / overwrite that makes a layout manifest unreferenced races with a read of it by digest
	if layout {
		for _, o := range batch {
			if (o.Op == "head" || o.Op == "get") && o.ByDigest {
				d := pool.Mans[o.Man].Digest
				for t := range tags {
					if mod.tags[Tags[t]] == d {
						return false
					}
				}
				if pushes[o.Man] != 0 && mod.file[d] != present {
					return false
				}
			}
		}
	} else {
		for _, o := range batch {
			if (o.Op == "head" || o.Op == "get") && o.ByDigest && pushes[o.Man] != 0 && mod.file[pool.Mans[o.Man].Digest] != present {
				return false
			}
		}
	}
	return true
}

// ---- verification after every step ------------------------------------------------

// verify compares the client's view and raw storage with the model. ownTag /
// ownMan name what the step itself addressed (for the symptom names).
func (e *env) verify(ownTag string, ownMan string) (string, string) {
	mod := e.mod
	// tags whose manifest was deleted while another tool's further entries exist
	for _, t := range Tags {
		if _, ok := mod.reprobe[t]; !ok {
			continue
		}
		cands := mod.reprobe[t]
		got := ""
		if m, err := e.rc.ManifestHead(e.ctx, e.tagRef(t)); err == nil {
			got = m.GetDescriptor().Digest.String()
		}
		if !mod.resolveReprobe(t, got) {
			return "tag-resolves-outside-entries", fmt.Sprintf("tag %q resolves to %s, the remaining index entries for it are %v", t, manName(got), names(cands))
		}
	}
	// 1. tag listing, all pages
	got, err := e.getTags()
	if err != nil {
		if !(len(mod.tags) == 0 && ((e.lay && !readRawIndex(e.dir).Exists) || e.repoAbsent())) {
			return "taglist-error", fmt.Sprintf("TagList failed: %v", err)
		}
	}
	seen := map[string]bool{}
	for _, t := range got {
		if seen[t] {
			return "taglist-duplicate", fmt.Sprintf("TagList reports %q twice: %v", t, got)
		}
		seen[t] = true
	}
	all := mod.sortedTags()
	for _, t := range all {
		if !seen[t] {
			return own("taglist-missing-tag", t == ownTag), fmt.Sprintf("TagList = %v lacks tag %q (model %v, page cap %d)", got, t, all, e.c.Feat.TagPage)
		}
	}
	for _, t := range got {
		if _, ok := mod.tags[t]; !ok {
			return own("taglist-phantom-tag", t == ownTag), fmt.Sprintf("TagList = %v reports %q which the model does not hold (model %v)", got, t, all)
		}
	}
	if !e.lay && e.c.Feat.TagPage > 0 && len(all) > e.c.Feat.TagPage {
		e.ntPaged = true
	}
	// 2. every pool tag: head and get
	for _, t := range Tags {
		want := mod.tags[t]
		st := present
		for _, get := range []bool{false, true} {
			dig, body, mt, err := e.fetch(e.tagRef(t), get)
			if sym, msg := judgeFetch(fmt.Sprintf("tag %q", t), get, want, st, dig, body, mt, err); sym != "" {
				return own("tag-"+sym, t == ownTag), msg
			}
		}
	}
	// 3. every pool manifest by digest
	for _, pm := range pool.Mans {
		st := mod.file[pm.Digest]
		for _, get := range []bool{false, true} {
			dig, body, mt, err := e.fetch(e.digRef(pm.Digest), get)
			if sym, msg := judgeFetch("digest "+manName(pm.Digest), get, pm.Digest, st, dig, body, mt, err); sym != "" {
				return own("manifest-"+sym, pm.Digest == ownMan), msg
			}
		}
	}
	// 4. raw storage
	if !e.lay {
		e.m.Lock()
		defer e.m.Unlock()
		r := e.h.Repos[regRepo]
		if r == nil {
			r = &rm.Repo{}
		}
		rt := []string{}
		for t, d := range r.Tags {
			rt = append(rt, t+"="+manName(d))
		}
		mt := []string{}
		for t, d := range mod.tags {
			mt = append(mt, t+"="+manName(d))
		}
		sort.Strings(rt)
		sort.Strings(mt)
		if strings.Join(rt, ",") != strings.Join(mt, ",") {
			return "raw-tag-map-differs", fmt.Sprintf("registry storage holds tags %v, model %v", rt, mt)
		}
		rmans, mmans := []string{}, []string{}
		for d, mf := range r.Manifests {
			rmans = append(rmans, manName(d))
			if i := manIndex(d); i >= 0 && !bytes.Equal(mf.Body, pool.Mans[i].Body) {
				return "raw-manifest-body-differs", fmt.Sprintf("registry stores other bytes under %s", manName(d))
			}
		}
		for d, st := range mod.file {
			if st != absent {
				mmans = append(mmans, manName(d))
			}
		}
		sort.Strings(rmans)
		sort.Strings(mmans)
		if strings.Join(rmans, ",") != strings.Join(mmans, ",") {
			return "raw-manifest-set-differs", fmt.Sprintf("registry storage holds manifests %v, model %v", rmans, mmans)
		}
		return "", ""
	}
	ri := readRawIndex(e.dir)
	if !ri.Exists {
		if len(mod.tags) > 0 {
			return "layout-index-missing", "index.json does not exist although the model holds tags"
		}
		return "", ""
	}
	if ri.Problem != "" {
		return "layout-index-invalid", ri.Problem + " " + ri.String()
	}
	if len(ri.Entries) == 0 {
		e.class("state:verified-while-layout-index-empty")
		if ownTag != "" || ownMan != "" {
			e.class("state:layout-emptied-by-a-delete")
		}
	}
	for _, t := range Tags {
		ents := ri.forTag(t)
		want, has := mod.tags[t]
		if !has {
			if len(ents) > 0 {
				return own("layout-index-entry-for-absent-tag", t == ownTag), fmt.Sprintf("index.json still has an entry for tag %q which the model does not hold: %s", t, ri)
			}
			continue
		}
		// entries must be a sub-multiset of {resolved} + shadow that contains the resolved one
		allowed := append([]string{want}, mod.shadow[t]...)
		foundWant := false
		rest := []string{}
		for _, en := range ents {
			ok := false
			for i, a := range allowed {
				if a == en.Digest {
					allowed = append(allowed[:i:i], allowed[i+1:]...)
					ok = true
					break
				}
			}
			if !ok {
				if len(ents) > 1 {
					return own("layout-index-duplicate-entries", t == ownTag), fmt.Sprintf("index.json has %d entries for tag %q (model: %s + seeded leftovers %v): %s", len(ents), t, manName(want), names(mod.shadow[t]), ri)
				}
				return own("layout-index-entry-wrong-digest", t == ownTag), fmt.Sprintf("index.json entry for tag %q names %s, model says %s: %s", t, manName(en.Digest), manName(want), ri)
			}
			if en.Digest == want && !foundWant {
				foundWant = true
			} else {
				rest = append(rest, en.Digest)
			}
		}
		if !foundWant {
			return own("layout-index-entry-missing", t == ownTag), fmt.Sprintf("index.json has no entry %q -> %s: %s", t, manName(want), ri)
		}
		// leftovers may only shrink
		if len(rest) > 0 {
			mod.shadow[t] = rest
		} else {
			delete(mod.shadow, t)
		}
	}
	mod.settle()
	for _, en := range ri.Entries {
		if en.Name != "" && !inPool(en.Tag) {
			return "layout-index-foreign-tag", fmt.Sprintf("index.json has an entry named %q which no operation created: %s", en.Name, ri)
		}
		if b, ok := readBlobFile(e.dir, en.Digest); ok && en.HasSize && en.Size != int64(len(b)) {
			return "layout-index-invalid", fmt.Sprintf("index.json entry for %s declares size %d, file has %d bytes", manName(en.Digest), en.Size, len(b))
		}
	}
	for _, pm := range pool.Mans {
		b, ok := readBlobFile(e.dir, pm.Digest)
		switch st := mod.file[pm.Digest]; {
		case st == present && !ok:
			return "layout-manifest-file-missing", fmt.Sprintf("blobs/ has no file for %s which the model holds", manName(pm.Digest))
		case st == absent && ok:
			return own("layout-manifest-file-left", pm.Digest == ownMan), fmt.Sprintf("blobs/ still has the file of %s which the model does not hold", manName(pm.Digest))
		case ok && !bytes.Equal(b, pm.Body):
			return "layout-manifest-file-differs", fmt.Sprintf("blobs/ file of %s has other bytes", manName(pm.Digest))
		}
	}
	probs, _ := audit.LayoutProblems(e.dir)
	for _, p := range probs {
		if strings.Contains(p, "entries for tag") {
			continue // judged above with the client's reading of full image names
		}
		return "layout-invalid", p
	}
	e.prevRaw = ri
	return "", ""
}

// repoAbsent: the registry answers tags/list of an unknown repository with 404 and
// nothing was ever written to this one.
func (e *env) repoAbsent() bool {
	if e.lay || !e.c.Feat.NoRepo404 {
		return false
	}
	e.m.Lock()
	defer e.m.Unlock()
	_, ok := e.h.Repos[regRepo]
	return !ok
}

func inPool(t string) bool {
	for _, x := range Tags {
		if x == t {
			return true
		}
	}
	return false
}

func own(sym string, isOwn bool) string {
	if isOwn {
		return sym
	}
	return "other-" + sym
}

// ---- known root causes on layouts: narrow allowances ---------------------------------
//
// A step is always judged against the strict model first. Only when that fails AND
// the raw index before the step shows the trigger of one specific root cause is the
// step judged a second time against a model that contains exactly what that root
// cause explains (nothing else is relaxed: result, tag list, head/get of every tag
// and digest and raw storage are all verified against it). If that verification
// passes completely the finding carries the root cause's signature and the history
// goes on from that model; otherwise the strict violation is reported under its own
// signature and is never folded into a known finding.

const (
	sigFullName = "layout-fullname-entry-ignored-by-write"
	sigAdjacent = "layout-tagdelete-skips-adjacent-duplicate"
	// reg.WithCache: ManifestDelete drops the cache entry BEFORE its DELETE request, ManifestPut (and ManifestGet) set
	// it after theirs: a push of the same manifest that is answered in between leaves the deleted manifest in the cache
	sigCacheStale = "race:manifest-cache-stale-after-push-raced-delete"
	sigDigPush    = "layout-digest-push-adds-tagged-entry"
)

type deviation struct {
	sig string
	why string
	mod *model
}

// pushedDigest is the digest a put step pushes in state mod.
func pushedDigest(mod *model, s Step) string {
	dig := pool.Mans[s.Man].Digest
	switch s.Src {
	case "same":
		if d, ok := mod.tags[Tags[s.SrcTag]]; ok {
			dig = d
		}
	case "side":
		dig = pool.Mans[s.SrcTag].Digest
	}
	return dig
}

func deviations(s Step, pre rawIndex, preMod *model, err error) []deviation {
	var out []deviation
	switch {
	case s.Op == "put" && !s.ByDigest && err == nil:
		// full-name entries for the tag are not replaced: they stay behind the pushed entry.
		// What the client reports for the tag must still be the pushed manifest.
		t := Tags[s.Tag]
		full := []string{}
		for _, en := range pre.forTag(t) {
			if en.Full {
				full = append(full, en.Digest)
			}
		}
		if len(full) > 0 {
			m := preMod.clone()
			dig := pushedDigest(preMod, s)
			m.tags[t] = dig
			m.shadow[t] = full
			m.file[dig] = present
			delete(m.untagged, dig)
			m.settle()
			out = append(out, deviation{sigFullName, fmt.Sprintf("%s on a layout whose index.json names the tag with a full image name (ref.name \"<name>:%s\", as other tools write it): the client lists and "+
				"resolves that tag, but indexSet matches ref.name exactly, so the pushed entry is appended and the full-name entry stays (index %s)", describe(s), t, pre), m})
		}
	case s.Op == "tagdel":
		t := Tags[s.Tag]
		full, bare := []string{}, 0
		for _, en := range pre.forTag(t) {
			if en.Full {
				full = append(full, en.Digest)
			} else {
				bare++
			}
		}
		if len(full) > 0 && bare == 0 && err != nil {
			// only full-name entries: TagDelete says not found and nothing changes
			out = append(out, deviation{sigFullName, fmt.Sprintf("%s on a layout whose index.json names the tag only with a full image name: the client lists and resolves the tag but TagDelete matches "+
				"ref.name exactly, answers %q and leaves it (index %s)", describe(s), err.Error(), pre), preMod.clone()})
		}
		if len(full) > 0 && bare > 0 && err == nil {
			// the exact entries go, the full-name entries come back under the tag
			m := preMod.clone()
			delete(m.tags, t)
			delete(m.shadow, t)
			m.reprobe[t] = full
			m.settle()
			out = append(out, deviation{sigFullName, fmt.Sprintf("%s on a layout whose index.json also names the tag with a full image name: TagDelete matches ref.name exactly, removes the exact entry only and "+
				"the tag now resolves to the full-name entry again (index %s)", describe(s), pre), m})
		}
		if bare >= 2 && err == nil {
			// forward range with slices.Delete: the entry sliding into the freed position is skipped
			l := append([]rawEntry{}, pre.Entries...)
			n := len(l)
			for i := 0; i < n; i++ {
				if i < len(l) && l[i].Name == t {
					l = append(l[:i:i], l[i+1:]...)
				}
			}
			rest := []string{}
			for _, en := range l {
				if en.Name != "" && en.Tag == t {
					rest = append(rest, en.Digest)
				}
			}
			if len(rest) > len(full) {
				m := preMod.clone()
				delete(m.tags, t)
				delete(m.shadow, t)
				m.reprobe[t] = rest
				m.settle()
				out = append(out, deviation{sigAdjacent, fmt.Sprintf("%s on an index with adjacent entries for that tag removes some but not all of them (delete inside a forward range over the same "+
					"slice skips the entry that slides into the freed position) (index %s)", describe(s), pre), m})
			}
		}
	case s.Op == "put" && s.ByDigest && s.Src != "" && err == nil:
		// the fetched object's descriptor carries ref.name of its source entry; a push by digest keeps it
		if _, has := preMod.tags[Tags[s.SrcTag]]; s.Src == "side" || has {
			t := Tags[s.SrcTag]
			dig := pushedDigest(preMod, s)
			m := preMod.clone()
			m.file[dig] = present
			if _, ok := m.tags[t]; ok {
				m.shadow[t] = append(m.shadow[t], dig)
			} else {
				m.tags[t] = dig
			}
			m.settle()
			out = append(out, deviation{sigDigPush, fmt.Sprintf("%s adds a TAGGED entry %q to index.json (a manifest object fetched from a tagged reference carries the org.opencontainers.image.ref.name "+
				"annotation of its source index entry in its descriptor, and a push by digest keeps it) (index before %s)", describe(s), t, pre), m})
		}
	}
	return out
}

// ---- the check ------------------------------------------------------------------

func check(c Case, ev *evid.Collector) (viol *evid.Violation) {
	pool = viewPool(c.Pool)
	e, err := setup(c, ev)
	if err != nil {
		return &evid.Violation{Sig: "harness-setup", Msg: err.Error()}
	}
	defer e.cleanup()
	ctx, cancel := context.WithTimeout(context.Background(), 120*time.Second)
	defer cancel()
	e.ctx = ctx

	e.class("system:" + c.System)
	e.class("seed:" + c.Seed.Kind)
	for _, pm := range pool.Mans[2:] {
		e.class("pool:" + pm.Name + "-" + pm.MediaType[strings.LastIndex(pm.MediaType, ".")+1:] + "-" + pm.Digest[:6])
	}
	if c.CloseEach {
		e.class("case:close-after-each-op")
	}
	if c.Fresh {
		e.class("case:fresh-client-per-step")
	}
	if c.Feat.NoRepo404 && !e.lay {
		e.class("reg:no-repo-404")
	}
	if e.lay {
		adj := false
		for i, se := range c.Seed.Entries {
			if se.Full && se.Tag >= 0 {
				e.class("seed:full-name")
			}
			if se.Ctrd && se.Tag >= 0 {
				e.class("seed:containerd-name")
			}
			if se.Tag < 0 {
				e.class("seed:untagged-entry")
			}
			if i > 0 && se.Tag >= 0 && c.Seed.Entries[i-1].Tag == se.Tag && c.Seed.Entries[i-1].Full == se.Full {
				adj = true
			}
			for _, o := range c.Seed.Entries[:i] {
				if o.Tag >= 0 && o.Tag != se.Tag && o.Man == se.Man && se.Tag >= 0 {
					e.class("seed:shared-manifest")
				}
			}
		}
		if adj {
			e.class("seed:adjacent-duplicate")
		}
	} else {
		if c.Feat.TagDelete {
			e.class("reg:tag-delete-api")
		} else {
			e.class("reg:placeholder-fallback")
		}
		e.class(fmt.Sprintf("reg:tag-page-%d", c.Feat.TagPage))
		if c.Feat.PageMode == "tomb" {
			e.class("reg:paging-cut-first-filter-afterwards")
		}
		if c.Feat.Order != "" {
			e.class("reg:list-order-" + c.Feat.Order)
		}
		if c.Feat.HeadNoDigest {
			e.class("reg:head-no-digest")
		}
		if c.Feat.Cache {
			e.class("reg:client-cache")
		}
	}
	defer func() {
		nt := e.ntShared || e.ntConc || e.ntPaged
		if e.ntShared {
			e.class("nt:delete-after-shared-manifest")
		}
		if e.ntConc {
			e.class("nt:concurrent-batch")
		}
		if e.ntPaged {
			e.class("nt:tag-list-2+pages")
		}
		if viol != nil {
			e.class("outcome:finding")
		}
		cl := make([]string, 0, len(e.classes))
		for k := range e.classes {
			cl = append(cl, k)
		}
		sort.Strings(cl)
		kb, _ := json.Marshal(c)
		ev.Case(nt, string(kb), cl...)
		ev.Sample(c)
	}()

	finish := func(v *evid.Violation) *evid.Violation {
		if isTimeout(ctx) {
			return &evid.Violation{Sig: "watchdog", Msg: "case exceeded 120 s"}
		}
		if e.m.CapHit() {
			e.class("outcome:request-cap")
			return e.firstKnown
		}
		return v
	}

	if v := e.initModel(); v != nil {
		return finish(v)
	}
	if sym, msg := e.verify("", ""); sym != "" {
		return finish(evid.V("seed/"+sym, "initial state (seed %+v): %s", c.Seed, msg))
	}

	for i, s := range c.Hist {
		e.explained = false
		v := e.step(s)
		if v != nil && strings.HasPrefix(v.Sig, "harness-") {
			return finish(v)
		}
		if v != nil {
			v.Msg = fmt.Sprintf("step %d (%s): %s", i, describe(s), v.Msg)
			// only a finding that is completely explained by one known root cause (the step was
			// re-verified against the model containing exactly that cause's effect) lets the
			// history go on; everything else is reported at once under its own signature
			if !(e.explained && ev.IsKnown(v.Sig)) {
				return finish(v)
			}
			if e.firstKnown == nil {
				e.firstKnown = v
			}
			e.class("outcome:continued-behind-known-finding")
		}
		if isTimeout(ctx) || e.m.CapHit() {
			return finish(nil)
		}
	}
	return finish(e.firstKnown)
}

// step executes one step (plain or batch), advances the model, judges the
// result and verifies the whole state.
func (e *env) step(s Step) *evid.Violation {
	if e.c.Fresh {
		e.rc = rcutil.New(e.m, e.conf)
	}
	if s.Op == "race" {
		return e.race(s)
	}
	if s.Op != "batch" {
		return e.plain(s)
	}
	if !commute(e.mod, s.Batch, e.lay) || e.blockedByKnown(s.Batch) {
		// made total: operations that do not commute in this state are issued one after the other
		e.class("batch:sequential-fallback")
		for _, b := range s.Batch {
			if v := e.plain(b); v != nil {
				return v
			}
		}
		return nil
	}
	e.ntConc = true
	e.class(fmt.Sprintf("batch:concurrent-%d", len(s.Batch)))
	pre := e.mod.clone()
	res := make([]opResult, len(s.Batch))
	var wg sync.WaitGroup
	start := make(chan struct{})
	for i := range s.Batch {
		wg.Add(1)
		go func(i int) {
			defer wg.Done()
			defer func() {
				if r := recover(); r != nil {
					res[i] = opResult{viol: evid.V("panic", "panic in %s: %v", describe(s.Batch[i]), r)}
				}
			}()
			<-start
			res[i] = e.run(s.Batch[i], pre)
		}(i)
	}
	close(start)
	wg.Wait()
	if e.lay && e.c.CloseEach {
		if err := e.rc.Close(e.ctx, e.base); err != nil {
			return evid.V("batch:close/unexpected-error", "Close after the concurrent batch failed: %v", err)
		}
	}
	for i, b := range s.Batch {
		e.note(b, e.mod)
		ex := apply(e.mod, b)
		if res[i].viol != nil {
			res[i].viol.Sig = "batch:" + res[i].viol.Sig
			return res[i].viol
		}
		if v := judgeResult(b, ex, res[i].err); v != nil {
			v.Sig = "batch:" + v.Sig
			return v
		}
	}
	if sym, msg := e.verify("", ""); sym != "" {
		return evid.V("batch:"+sym, "after the concurrent batch: %s", msg)
	}
	return nil
}

// ---- operations on one tag that do not commute -----------------------------------------

type raceKey struct{}

// raceGate owns the one scheduling decision of a race step: when the late operation starts.
type raceGate struct {
	mu            sync.Mutex
	cond          *sync.Cond
	late, at      int
	arrivals      int
	released      bool // the late operation may start
	lateAnswered  bool // its first request was answered (or it ended without one)
	others, ended int
}

func (g *raceGate) onArrive(en *rm.Entry) {
	op, ok := en.Ctx.Value(raceKey{}).(int)
	if !ok || op == g.late {
		return
	}
	g.mu.Lock()
	defer g.mu.Unlock()
	for g.released && !g.lateAnswered {
		g.cond.Wait()
	}
	g.arrivals++
	if g.arrivals >= g.at && !g.released {
		g.released = true
		g.cond.Broadcast()
	}
}

func (g *raceGate) onDone(en *rm.Entry) {
	if op, ok := en.Ctx.Value(raceKey{}).(int); ok && op == g.late {
		g.mu.Lock()
		g.lateAnswered = true
		g.cond.Broadcast()
		g.mu.Unlock()
	}
}

// race issues one tag delete and one or two pushes for the SAME tag concurrently. The operations do not commute, so
// the oracle is serialisability against the map model: the results of the calls and the state found afterwards must be
// those of SOME order of the operations (a tag is a register: whichever write the backend took last wins, a delete
// that found the tag removes that tag alone), and everything the operations did not address - the other tags, every
// stored manifest - must be exactly what that order leaves. Two concurrent deletes of one tag are not generated: the
// placeholder fall-back of a registry without tag deletion legitimately lets both succeed.
func (e *env) race(s Step) *evid.Violation {
	if e.blockedByKnown(s.Batch) {
		e.class("race:sequential-fallback")
		for _, b := range s.Batch {
			if v := e.plain(b); v != nil {
				return v
			}
		}
		return nil
	}
	e.ntConc = true
	pre := e.mod.clone()
	delKind := "tagdel"
	for _, b := range s.Batch {
		if b.Op == "mandel" {
			delKind = "mandel"
			if pre.file[pool.Mans[b.Man].Digest] == maybe {
				// an unreferenced layout manifest that may or may not still exist: its delete may fail or succeed,
				// nothing can be concluded from the outcome; issued one after the other
				e.class("race:sequential-fallback")
				for _, x := range s.Batch {
					if v := e.plain(x); v != nil {
						return v
					}
				}
				return nil
			}
		}
	}
	if delKind == "mandel" && !s.Force {
		seq := ""
		switch {
		case len(pre.shadow) > 0 || len(pre.reprobe) > 0:
			// entries other tools left for a tag: the model follows them step by step (verify resolves what a
			// manifest delete uncovered before the next operation), not through a whole order at once
			seq = "race:sequential-fallback-foreign-entries"
		case !e.lay && e.c.Feat.Cache && e.ev.IsKnown(sigCacheStale):
			seq = "race:sequential-fallback-known-cache-finding"
		}
		if seq != "" {
			e.class(seq)
			for _, x := range s.Batch {
				if v := e.plain(x); v != nil {
					return v
				}
			}
			return nil
		}
	}
	e.class(fmt.Sprintf("race:put-vs-%s-%d", delKind, len(s.Batch)))
	if !e.lay && !e.c.Feat.TagDelete {
		e.class("race:placeholder-fallback-delete")
	}
	if _, ok := pre.tags[Tags[s.Tag]]; ok {
		e.class("race:tag-present-before")
		if pre.sharers(pre.tags[Tags[s.Tag]]) > 1 {
			e.class("race:tag-shares-manifest-before")
		}
	}
	g := &raceGate{late: s.Late, at: s.At, others: len(s.Batch) - 1}
	g.cond = sync.NewCond(&g.mu)
	if e.lay || s.At == 0 {
		g.released = true
		g.lateAnswered = e.lay // a layout sends no requests: nothing to hold back
	}
	if !e.lay {
		e.m.Lock()
		e.m.OnArrive, e.m.OnDone = g.onArrive, g.onDone
		e.m.Unlock()
		defer func() {
			e.m.Lock()
			e.m.OnArrive, e.m.OnDone = nil, nil
			e.m.Unlock()
		}()
	}
	res := make([]opResult, len(s.Batch))
	var wg sync.WaitGroup
	start := make(chan struct{})
	base := e.ctx
	for i := range s.Batch {
		wg.Add(1)
		go func(i int) {
			defer wg.Done()
			defer func() {
				if r := recover(); r != nil {
					res[i] = opResult{viol: evid.V("panic", "panic in %s: %v", describe(s.Batch[i]), r)}
				}
				g.mu.Lock()
				if i == g.late {
					g.lateAnswered = true
				} else {
					g.ended++
				}
				g.cond.Broadcast()
				g.mu.Unlock()
			}()
			<-start
			if i == g.late {
				g.mu.Lock()
				for !g.released && g.ended < g.others {
					g.cond.Wait()
				}
				g.released = true
				g.mu.Unlock()
			}
			ctx := context.WithValue(base, raceKey{}, i)
			b := s.Batch[i]
			switch b.Op {
			case "put":
				m, err := newMan(pool.Mans[b.Man], nil)
				if err != nil {
					res[i] = opResult{viol: &evid.Violation{Sig: "harness-manifest-new", Msg: err.Error()}}
					return
				}
				res[i] = opResult{err: e.rc.ManifestPut(ctx, e.tagRef(Tags[b.Tag]), m)}
			case "tagdel":
				res[i] = opResult{err: e.rc.TagDelete(ctx, e.tagRef(Tags[b.Tag]))}
			case "mandel":
				opts := []regclient.ManifestOpts{}
				if b.CheckRef {
					opts = append(opts, regclient.WithManifestCheckReferrers())
				}
				res[i] = opResult{err: e.rc.ManifestDelete(ctx, e.digRef(pool.Mans[b.Man].Digest), opts...)}
			}
		}(i)
	}
	close(start)
	wg.Wait()
	if e.lay && e.c.CloseEach {
		if err := e.rc.Close(e.ctx, e.base); err != nil {
			return evid.V("race:close/unexpected-error", "Close after the concurrent operations failed: %v", err)
		}
	}
	for i := range res {
		if res[i].viol != nil {
			res[i].viol.Sig = "race:" + res[i].viol.Sig
			return res[i].viol
		}
	}
	// what the tag resolves to now
	got := ""
	if m, err := e.rc.ManifestHead(e.ctx, e.tagRef(Tags[s.Tag]), regclient.WithManifestRequireDigest()); err == nil {
		got = m.GetDescriptor().Digest.String()
	}
	// every order of the operations whose results and final tag value agree with what happened
	n := len(s.Batch)
	idx := make([]int, n)
	for i := range idx {
		idx[i] = i
	}
	var chosen *model
	chosenOrder := ""
	var firstMismatch string
	var permute func(k int)
	permute = func(k int) {
		if chosen != nil {
			return
		}
		if k == n {
			mod := pre.clone()
			for _, i := range idx {
				ex := apply(mod, s.Batch[i])
				if v := judgeResult(s.Batch[i], ex, res[i].err); v != nil {
					if firstMismatch == "" {
						firstMismatch = v.Msg
					}
					return
				}
			}
			if mod.tags[Tags[s.Tag]] != got {
				return
			}
			// the stored manifests the operations addressed must be those this order leaves
			for _, b := range s.Batch {
				d := pool.Mans[b.Man].Digest
				has := e.rawHas(d)
				if (mod.file[d] == present && !has) || (mod.file[d] == absent && has) {
					return
				}
			}
			chosen = mod
			chosenOrder = fmt.Sprint(idx)
			return
		}
		for j := k; j < n; j++ {
			idx[k], idx[j] = idx[j], idx[k]
			permute(k + 1)
			idx[k], idx[j] = idx[j], idx[k]
		}
	}
	permute(0)
	if chosen == nil {
		outs := []string{}
		for i := range res {
			outs = append(outs, fmt.Sprintf("%s -> %v", describe(s.Batch[i]), res[i].err))
		}
		return evid.V("race:outcome-matches-no-order", "%s: results [%s], the tag then resolves to %s (before: %s): no order of the operations explains this (%s)",
			describe(s), strings.Join(outs, "; "), manName(got), manName(pre.tags[Tags[s.Tag]]), firstMismatch)
	}
	e.class("race:explained-by-an-order")
	_ = chosenOrder
	for _, b := range s.Batch {
		e.note(b, pre)
	}
	e.mod = chosen
	if sym, msg := e.verify("", ""); sym != "" {
		if delKind == "mandel" && !e.lay && e.c.Feat.Cache && strings.Contains(sym, "manifest-still-resolves") {
			for _, b := range s.Batch {
				if d := pool.Mans[b.Man].Digest; b.Op == "mandel" && chosen.file[d] == absent && !e.rawHas(d) && strings.Contains(msg, manName(d)) {
					return evid.V(sigCacheStale, "after %s (explained as order %s) the registry no longer stores %s, but the client (reg.WithCache) still answers for it: %s", describe(s), chosenOrder, manName(d), msg)
				}
			}
		}
		return evid.V("race:"+sym, "after %s (explained as order %s): %s", describe(s), chosenOrder, msg)
	}
	return nil
}

// rawHas: raw storage holds manifest d (registry map / blob file of the layout).
func (e *env) rawHas(d string) bool {
	if e.lay {
		_, ok := readBlobFile(e.dir, d)
		return ok
	}
	e.m.Lock()
	defer e.m.Unlock()
	r := e.h.Repos[regRepo]
	if r == nil {
		return false
	}
	_, ok := r.Manifests[d]
	return ok
}

// blockedByKnown: while a root cause is listed as a known finding, a batch that
// touches its trigger (a tag with a full-name entry / with several entries) is
// issued sequentially so that each operation can be judged against the narrow
// allowance of that cause. With the finding fixed the batch runs concurrently again.
func (e *env) blockedByKnown(batch []Step) bool {
	if !e.lay {
		return false
	}
	kFull, kAdj := e.ev.IsKnown(sigFullName), e.ev.IsKnown(sigAdjacent)
	if !kFull && !kAdj {
		return false
	}
	ri := readRawIndex(e.dir)
	for _, b := range batch {
		if !((b.Op == "put" && !b.ByDigest) || b.Op == "tagdel") {
			continue
		}
		ents := ri.forTag(Tags[b.Tag])
		for _, en := range ents {
			if en.Full && kFull {
				return true
			}
		}
		if kAdj && b.Op == "tagdel" && len(ents) >= 2 {
			return true
		}
	}
	return false
}

// note records evidence classes of a step about to be applied to mod.
func (e *env) note(s Step, mod *model) {
	if s.Var != "" {
		e.class("var:" + s.Op + "-" + s.Var)
	}
	switch s.Op {
	case "tagdel":
		if d, ok := mod.tags[Tags[s.Tag]]; ok {
			if mod.sharedPair() {
				e.ntShared = true
			}
			if mod.sharers(d) > 1 {
				e.class("op:tagdel-with-sibling-tags")
			}
			if !e.lay && !e.c.Feat.TagDelete {
				e.class("op:tagdel-through-placeholder")
			}
		} else {
			e.class("op:tagdel-absent-tag")
		}
	case "mandel":
		d := pool.Mans[s.Man].Digest
		if mod.file[d] != absent {
			if mod.sharedPair() {
				e.ntShared = true
			}
			switch n := mod.sharers(d); {
			case n > 1:
				e.class("op:mandel-with-2+tags")
			case n == 1:
				e.class("op:mandel-with-1-tag")
			default:
				e.class("op:mandel-untagged")
			}
		} else {
			e.class("op:mandel-absent")
		}
	case "put":
		if s.Src != "" {
			if s.ByDigest {
				e.class("op:put-fetched-by-digest")
			} else {
				e.class("op:put-fetched-by-tag")
			}
		}
		if !s.ByDigest {
			if old, ok := mod.tags[Tags[s.Tag]]; ok && old != pool.Mans[s.Man].Digest {
				e.class("op:put-moves-tag")
			}
		} else {
			e.class("op:put-by-digest")
		}
	case "close":
		e.class("op:close")
	case "list":
		if s.Limit > 0 {
			e.class("op:list-limit")
		}
		if s.Last > 0 {
			e.class("op:list-last")
		}
	}
}

func (e *env) plain(s Step) *evid.Violation {
	e.note(s, e.mod)
	preMod := e.mod.clone()
	var pre rawIndex
	if e.lay {
		pre = readRawIndex(e.dir)
	}
	res := e.run(s, e.mod)
	if res.viol != nil {
		return res.viol
	}
	ownTag, ownMan := "", ""
	op := s.Op
	switch s.Op {
	case "put":
		if s.ByDigest {
			op = "putdig"
		} else {
			ownTag = Tags[s.Tag]
		}
	case "tagdel":
		ownTag = Tags[s.Tag]
	case "mandel":
		ownMan = pool.Mans[s.Man].Digest
	}
	// strict judgement
	strict := preMod.clone()
	var v *evid.Violation
	switch {
	case s.Var == "cancel":
		// an already cancelled context: either outcome; an error must have been a no-op
		if res.err == nil {
			apply(strict, s)
		}
	case s.Op == "put" && s.Var == "tagdig":
		// "repo:tag@digest": the manifest must be stored; whether the tag moves too differs between
		// the schemes and is not stated — it either keeps its value or names the pushed manifest
		as := s
		as.Var, as.ByDigest = "", true
		if res.err == nil {
			if got, _, _, err := e.fetch(e.tagRef(ownTag), false); err == nil && got == pushedDigest(preMod, s) {
				as.ByDigest = false
			}
		}
		v = judgeResult(as, apply(strict, as), res.err)
	default:
		v = judgeResult(s, apply(strict, s), res.err)
	}
	e.mod = strict
	if v == nil && e.lay && e.c.CloseEach && (s.Op == "put" || s.Op == "tagdel" || s.Op == "mandel") {
		if err := e.rc.Close(e.ctx, e.base); err != nil {
			v = evid.V("close/unexpected-error", "Close after %s failed: %v", describe(s), err)
		}
	}
	if v == nil {
		if sym, msg := e.verify(ownTag, ownMan); sym != "" {
			v = evid.V(op+"/"+sym, "%s", msg)
		}
	}
	if v == nil || !e.lay || s.Var != "" {
		return v
	}
	// does exactly one specific root cause explain everything that is observable?
	for _, d := range deviations(s, pre, preMod, res.err) {
		e.mod = d.mod
		if sym, _ := e.verify(ownTag, ownMan); sym == "" {
			e.explained = true
			return evid.V(d.sig, "%s — the strict model says: %s", d.why, v.Msg)
		}
	}
	e.mod = strict
	return v
}

// ---- tests ----------------------------------------------------------------------

func runCase(c Case, ev *evid.Collector) (*evid.Violation, bool) {
	v := evid.Guard(func() *evid.Violation { return check(c, ev) })
	if v != nil && v.Sig == "watchdog" {
		return v, true
	}
	return v, false
}

func TestVerifProp(t *testing.T) {
	ev := evid.For(prop)
	rapid.Check(t, func(rt *rapid.T) {
		c := gen(rt)
		v, wd := runCase(c, ev)
		if wd {
			rt.Fatalf("inconclusive: %v", v)
		}
		if ev.Report(v, c) {
			rt.Fatalf("%v", v)
		}
	})
}

// TestVerifConc is the same property restricted to histories that are mostly
// concurrent batches (run under the race detector in the thorough tier).
func TestVerifConc(t *testing.T) {
	ev := evid.For(prop)
	rapid.Check(t, func(rt *rapid.T) {
		c := gen(rt)
		n := rapid.IntRange(2, 12).Draw(rt, "conc_n")
		c.Hist = nil
		for i := 0; i < n; i++ {
			kinds := []string{"batch", "batch", "batch", "put", "tagdel"}
			c.Hist = append(c.Hist, genStep(rt, fmt.Sprintf("c%d", i), kinds, -1))
		}
		v, wd := runCase(c, ev)
		if wd {
			rt.Fatalf("inconclusive: %v", v)
		}
		if ev.Report(v, c) {
			rt.Fatalf("%v", v)
		}
	})
}

func TestVerifReplayDir(t *testing.T) {
	ev := evid.For(prop)
	for _, f := range evid.ReplayFiles() {
		var c Case
		if err := evid.LoadCaseFile(f, &c); err != nil {
			t.Fatalf("%s: %v", f, err)
		}
		for i := 0; i < 5; i++ {
			v, wd := runCase(c, ev)
			if wd {
				t.Fatalf("inconclusive: %v", v)
			}
			if ev.Report(v, c) {
				t.Errorf("%s: %v", f, v)
				break
			}
		}
	}
}

func TestVerifReplay(t *testing.T) {
	ev := evid.For(prop)
	var c Case
	ok, err := evid.LoadReplay(&c)
	if !ok {
		t.Skip("no VERIF_REPLAY")
	}
	if err != nil {
		t.Fatal(err)
	}
	for i := 0; i < 50; i++ {
		v, wd := runCase(c, ev)
		if wd {
			t.Fatalf("inconclusive: %v", v)
		}
		if v != nil {
			t.Logf("%v", v)
		}
		if ev.Report(v, c) {
			t.Fatalf("%v", v)
		}
	}
}
