package c06

// rawlayout.go: raw (client independent) writer and reader of OCI layout
// directories: seeds in the styles other tools write, and the parsed view of
// index.json the oracle judges.

import (
	"encoding/json"
	"fmt"
	"os"
	"path/filepath"
	"strings"

	"github.com/regclient/regclient/zz_verif/audit"
	rm "github.com/regclient/regclient/zz_verif/regmodel"
)

const (
	annRefName = "org.opencontainers.image.ref.name"
	annCtrd    = "io.containerd.image.name"
)

// SeedEntry is one raw index.json entry of a pre-seeded layout (or one initial
// tag of a pre-seeded registry repository).
type SeedEntry struct {
	Tag  int  `json:"tag"`  // index into Tags; -1 = untagged entry
	Man  int  `json:"man"`  // index into the manifest pool
	Full bool `json:"full"` // ref.name is "<FullName>:<tag>" (other tools' style)
	Ctrd bool `json:"ctrd"` // additionally io.containerd.image.name
}

// Seed is the pre-state of the system under test.
type Seed struct {
	Kind        string      `json:"kind"` // absent (no directory / empty repository) | empty (valid empty layout) | entries
	FullName    string      `json:"full_name,omitempty"`
	NoMediaType bool        `json:"no_media_type,omitempty"` // index.json without the optional top-level mediaType
	Entries     []SeedEntry `json:"entries,omitempty"`
}

func writeBlobFile(dir, dig string, data []byte) error {
	alg, hx, _ := strings.Cut(dig, ":")
	p := filepath.Join(dir, "blobs", alg)
	if err := os.MkdirAll(p, 0o777); err != nil {
		return err
	}
	return os.WriteFile(filepath.Join(p, hx), data, 0o666)
}

// writeSeedLayout materialises a seed raw. Blobs of the whole pool are stored
// (the images' content is "pre-pushed"); manifests only where an entry names them.
func writeSeedLayout(dir string, s Seed) error {
	if s.Kind == "absent" {
		return nil
	}
	if err := os.MkdirAll(filepath.Join(dir, "blobs", "sha256"), 0o777); err != nil {
		return err
	}
	for d, b := range pool.Blobs {
		if err := writeBlobFile(dir, d, b); err != nil {
			return err
		}
	}
	items := []string{}
	for _, e := range s.Entries {
		pm := pool.Mans[e.Man]
		if err := writeBlobFile(dir, pm.Digest, pm.Body); err != nil {
			return err
		}
		ann := ""
		if e.Tag >= 0 {
			name := Tags[e.Tag]
			if e.Full {
				name = s.FullName + ":" + name
			}
			parts := []string{}
			if e.Ctrd {
				fn := s.FullName
				if fn == "" {
					fn = "docker.io/library/app"
				}
				parts = append(parts, fmt.Sprintf("%q:%q", annCtrd, fn+":"+Tags[e.Tag]))
			}
			parts = append(parts, fmt.Sprintf("%q:%q", annRefName, name))
			ann = `,"annotations":{` + strings.Join(parts, ",") + `}`
		}
		items = append(items, fmt.Sprintf(`{"mediaType":%q,"digest":%q,"size":%d%s}`, pm.MediaType, pm.Digest, len(pm.Body), ann))
	}
	if err := os.WriteFile(filepath.Join(dir, "oci-layout"), []byte(`{"imageLayoutVersion":"1.0.0"}`), 0o666); err != nil {
		return err
	}
	mt := `"mediaType":"` + rm.MTOCIIndex + `",`
	if s.NoMediaType {
		mt = ""
	}
	idx := `{"schemaVersion":2,` + mt + `"manifests":[` + strings.Join(items, ",") + `]}`
	return os.WriteFile(filepath.Join(dir, "index.json"), []byte(idx), 0o666)
}

// rawEntry is one parsed entry of index.json.
type rawEntry struct {
	Name      string // ref.name annotation ("" = untagged)
	Tag       string // the tag a client-side reader sees: Name, or the part after the last ':' of a full image name
	Full      bool   // Name is a full image name (contains ':')
	Digest    string
	MediaType string
	Size      int64
	HasSize   bool
}

// rawIndex is the parsed index.json.
type rawIndex struct {
	Exists  bool
	Entries []rawEntry
	Problem string // structural problem ("" = valid OCI index)
}

func readRawIndex(dir string) rawIndex {
	b, err := os.ReadFile(filepath.Join(dir, "index.json"))
	if err != nil {
		if os.IsNotExist(err) {
			return rawIndex{}
		}
		return rawIndex{Exists: true, Problem: "index.json unreadable: " + err.Error()}
	}
	ri := rawIndex{Exists: true}
	// raw JSON against the OCI image-index schema (shared engine + the members it leaves out)
	if ps := audit.IndexSchemaProblems(b); len(ps) > 0 {
		ri.Problem = "violates the OCI image-index schema: " + ps[0]
	} else if prob := extraIndexSchema(b); prob != "" {
		ri.Problem = "index.json violates the OCI image-index schema: " + prob
	}
	var idx struct {
		SchemaVersion *int   `json:"schemaVersion"`
		MediaType     string `json:"mediaType"`
		Manifests     []struct {
			MediaType   string            `json:"mediaType"`
			Digest      string            `json:"digest"`
			Size        *int64            `json:"size"`
			Annotations map[string]string `json:"annotations"`
		} `json:"manifests"`
	}
	if err := json.Unmarshal(b, &idx); err != nil {
		if ri.Problem == "" {
			ri.Problem = "index.json is not valid JSON: " + err.Error()
		}
		return ri
	}
	if idx.SchemaVersion == nil || *idx.SchemaVersion != 2 {
		ri.Problem = "index.json schemaVersion is not 2"
	}
	if idx.MediaType != "" && idx.MediaType != rm.MTOCIIndex {
		ri.Problem = "index.json mediaType is " + idx.MediaType
	}
	for i, m := range idx.Manifests {
		e := rawEntry{Digest: m.Digest, MediaType: m.MediaType}
		if m.Size != nil {
			e.Size, e.HasSize = *m.Size, true
		}
		if n, ok := m.Annotations[annRefName]; ok && n != "" {
			e.Name, e.Tag = n, n
			if j := strings.LastIndex(n, ":"); j >= 0 {
				e.Tag, e.Full = n[j+1:], true
			}
		}
		if !rm.ValidDigest(e.Digest) {
			ri.Problem = fmt.Sprintf("index.json entry %d has invalid digest %q", i, e.Digest)
		} else if e.MediaType == "" {
			ri.Problem = fmt.Sprintf("index.json entry %d (%s) has no mediaType", i, manName(e.Digest))
		} else if !e.HasSize || e.Size < 0 {
			ri.Problem = fmt.Sprintf("index.json entry %d (%s) has no size", i, manName(e.Digest))
		}
		ri.Entries = append(ri.Entries, e)
	}
	return ri
}

// forTag returns the entries a client-side reader attributes to tag t.
func (ri rawIndex) forTag(t string) []rawEntry {
	var out []rawEntry
	for _, e := range ri.Entries {
		if e.Name != "" && e.Tag == t {
			out = append(out, e)
		}
	}
	return out
}

// tagged renders the tagged entries in order (used to detect any change).
func (ri rawIndex) tagged() string {
	var sb strings.Builder
	for _, e := range ri.Entries {
		if e.Name != "" {
			sb.WriteString(e.Name + "=" + manName(e.Digest) + ";")
		}
	}
	return sb.String()
}

func (ri rawIndex) String() string {
	if !ri.Exists {
		return "(no index.json)"
	}
	var sb strings.Builder
	sb.WriteString("[")
	for i, e := range ri.Entries {
		if i > 0 {
			sb.WriteString(" ")
		}
		n := e.Name
		if n == "" {
			n = "<untagged>"
		}
		sb.WriteString(n + "->" + manName(e.Digest))
	}
	sb.WriteString("]")
	return sb.String()
}

// fileState reads blobs/<alg>/<hex> raw.
func readBlobFile(dir, dig string) ([]byte, bool) {
	alg, hx, _ := strings.Cut(dig, ":")
	b, err := os.ReadFile(filepath.Join(dir, "blobs", alg, hx))
	if err != nil {
		return nil, false
	}
	return b, true
}

// ---- raw JSON schema checks (no Go struct in between: null / missing / wrongly typed members stay visible) ----

func jsonKind(raw json.RawMessage) string {
	t := strings.TrimSpace(string(raw))
	switch {
	case t == "":
		return "missing"
	case t == "null":
		return "null"
	case t[0] == '{':
		return "object"
	case t[0] == '[':
		return "array"
	case t[0] == '"':
		return "string"
	case t == "true" || t == "false":
		return "bool"
	}
	return "number"
}

func jsonObject(raw json.RawMessage) (map[string]json.RawMessage, string) {
	if k := jsonKind(raw); k != "object" {
		return nil, "is " + k + ", not an object"
	}
	var m map[string]json.RawMessage
	if err := json.Unmarshal(raw, &m); err != nil {
		return nil, "is not valid JSON: " + err.Error()
	}
	return m, ""
}

func jsonString(raw json.RawMessage) (string, bool) {
	if jsonKind(raw) != "string" {
		return "", false
	}
	var s string
	return s, json.Unmarshal(raw, &s) == nil
}

func checkStringMap(raw json.RawMessage) string {
	m, prob := jsonObject(raw)
	if prob != "" {
		return prob
	}
	for k, v := range m {
		if _, ok := jsonString(v); !ok {
			return fmt.Sprintf("member %q is %s, not a string", k, jsonKind(v))
		}
	}
	return ""
}

// extraIndexSchema extends audit.IndexSchemaProblems (shared engine: top-level object,
// schemaVersion 2, "manifests" an array, entries with string mediaType / digest, integer
// size >= 0, annotations object of strings) by the remaining typed members of the OCI
// image-index / descriptor schema: top-level annotations and artifactType, subject, and
// per entry urls, platform, data, artifactType.
func extraIndexSchema(b []byte) string {
	top, prob := jsonObject(b)
	if prob != "" {
		return "document " + prob
	}
	if v, has := top["artifactType"]; has {
		if _, ok := jsonString(v); !ok {
			return "artifactType is " + jsonKind(v) + ", not a string"
		}
	}
	if a, has := top["annotations"]; has {
		if prob := checkStringMap(a); prob != "" {
			return "annotations " + prob
		}
	}
	descExtras := func(raw json.RawMessage) string {
		d, prob := jsonObject(raw)
		if prob != "" {
			return prob
		}
		if u, has := d["urls"]; has {
			var l []json.RawMessage
			if jsonKind(u) != "array" || json.Unmarshal(u, &l) != nil {
				return "urls is " + jsonKind(u) + ", not an array"
			}
			for _, x := range l {
				if _, ok := jsonString(x); !ok {
					return "urls holds a non-string"
				}
			}
		}
		for _, k := range []string{"artifactType", "data"} {
			if v, has := d[k]; has {
				if _, ok := jsonString(v); !ok {
					return k + " is " + jsonKind(v) + ", not a string"
				}
			}
		}
		if pl, has := d["platform"]; has {
			if _, prob := jsonObject(pl); prob != "" {
				return "platform " + prob
			}
		}
		return ""
	}
	var l []json.RawMessage
	if json.Unmarshal(top["manifests"], &l) == nil {
		for i, e := range l {
			if prob := descExtras(e); prob != "" {
				return fmt.Sprintf("manifests[%d]: %s", i, prob)
			}
		}
	}
	if sj, has := top["subject"]; has {
		if prob := descExtras(sj); prob != "" {
			return "subject: " + prob
		}
	}
	return ""
}
