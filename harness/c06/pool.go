// Package c06 decides C06: tags behave as a name->digest map; deleting a tag
// removes only that tag.
//
// pool.go: the fixed universe of the histories — a small pool of tags and of
// manifests (distinct small images whose blobs are pre-stored raw; two of them
// share their layers; one OCI index and one Docker manifest list so that every
// placeholder branch of the registry tag-delete fall-back is reachable).
// Bodies are written by hand here, never through regclient's types, and the
// digests are computed with crypto/sha256.
package c06

import (
	"fmt"

	rm "github.com/regclient/regclient/zz_verif/regmodel"
)

// Tags is the tag pool. The byte order (used by registries for paging) differs
// from the index order on purpose.
// Mixed case on purpose: byte order, case-insensitive order and push order disagree
// (byte: Beta RC1 alpha latest v1; case-insensitive: alpha Beta latest RC1 v1).
var Tags = []string{"v1", "latest", "Beta", "RC1", "alpha"}

// PoolMan is one manifest of the pool.
type PoolMan struct {
	Name      string // M0.. (position in the full pool)
	MediaType string
	Body      []byte
	Digest    string
	NeedDesc  bool // the manifest object must be built with an explicit descriptor (non canonical digest algorithm / no mediaType field)
}

// Pool is the manifest pool plus the blobs the manifests reference.
type Pool struct {
	Mans  []PoolMan
	Blobs map[string][]byte
}

// fullPool is the whole universe (9 manifests); pool is the view of the case
// being executed: 5 of them (M0 and M1 always), so that the per-step
// verification cost does not depend on the size of the universe.
var fullPool = buildPool()
var pool = viewPool(nil)

// DefaultPool is the pool of cases saved before the universe was extended.
var DefaultPool = []int{0, 1, 2, 3, 4}

func viewPool(idx []int) *Pool {
	if len(idx) != 5 {
		idx = DefaultPool
	}
	p := &Pool{Blobs: fullPool.Blobs}
	for _, i := range idx {
		if i < 0 || i >= len(fullPool.Mans) {
			i = 0
		}
		p.Mans = append(p.Mans, fullPool.Mans[i])
	}
	return p
}

func desc(mt, dig string, size int, extra string) string {
	return fmt.Sprintf(`{"mediaType":%q,"digest":%q,"size":%d%s}`, mt, dig, size, extra)
}

func buildPool() *Pool {
	p := &Pool{Blobs: map[string][]byte{}}
	blob := func(b []byte) string {
		d := rm.Digest("sha256", b)
		p.Blobs[d] = b
		return d
	}
	cfg := func(seed int, arch string) []byte {
		return []byte(fmt.Sprintf(`{"architecture":%q,"os":"linux","config":{"Env":["SEED=%d"]},"rootfs":{"type":"layers","diff_ids":[]}}`, arch, seed))
	}
	layerA := []byte("c06-layer-A-\x00\x01\x02 shared by M0 and M1")
	layerB := []byte("c06-layer-B shared by M0 and M1")
	layerC := []byte("c06-layer-C of the docker image")
	dA, dB, dC := blob(layerA), blob(layerB), blob(layerC)
	c0, c1, c2 := cfg(0, "amd64"), cfg(1, "arm64"), cfg(2, "amd64")
	dc0, dc1, dc2 := blob(c0), blob(c1), blob(c2)

	add := func(mt string, body string) PoolMan {
		m := PoolMan{Name: fmt.Sprintf("M%d", len(p.Mans)), MediaType: mt, Body: []byte(body), Digest: rm.Digest("sha256", []byte(body))}
		p.Mans = append(p.Mans, m)
		return m
	}
	// M0: OCI image
	m0 := add(rm.MTOCIManifest, fmt.Sprintf(`{"schemaVersion":2,"mediaType":%q,"config":%s,"layers":[%s,%s]}`, rm.MTOCIManifest,
		desc(rm.MTOCIConfig, dc0, len(c0), ""), desc(rm.MTOCILayerGzip, dA, len(layerA), ""), desc(rm.MTOCILayerGzip, dB, len(layerB), "")))
	// M1: OCI image sharing both layers with M0, different config, annotations, other whitespace
	m1 := add(rm.MTOCIManifest, fmt.Sprintf(`{ "schemaVersion": 2, "mediaType": %q, "config": %s, "layers": [%s, %s], "annotations": {"org.example.c06": "m1"} }`, rm.MTOCIManifest,
		desc(rm.MTOCIConfig, dc1, len(c1), ""), desc(rm.MTOCILayerGzip, dA, len(layerA), ""), desc(rm.MTOCILayerGzip, dB, len(layerB), "")))
	// M2: Docker schema2 image
	m2 := add(rm.MTDocker2, fmt.Sprintf(`{"schemaVersion":2,"mediaType":%q,"config":%s,"layers":[%s]}`, rm.MTDocker2,
		desc(rm.MTDockerConfig, dc2, len(c2), ""), desc(rm.MTDockerLayer, dC, len(layerC), "")))
	// M3: OCI index over M0 and M1
	add(rm.MTOCIIndex, fmt.Sprintf(`{"schemaVersion":2,"mediaType":%q,"manifests":[%s,%s]}`, rm.MTOCIIndex,
		desc(m0.MediaType, m0.Digest, len(m0.Body), `,"platform":{"architecture":"amd64","os":"linux"}`),
		desc(m1.MediaType, m1.Digest, len(m1.Body), `,"platform":{"architecture":"arm64","os":"linux"}`)))
	// M4: Docker manifest list over M2
	add(rm.MTDocker2List, fmt.Sprintf(`{"schemaVersion":2,"mediaType":%q,"manifests":[%s]}`, rm.MTDocker2List,
		desc(m2.MediaType, m2.Digest, len(m2.Body), `,"platform":{"architecture":"amd64","os":"linux"}`)))
	// M5: OCI image addressed by a sha512 digest (regctl image mod --digest-algo sha512 produces such manifests)
	m5 := add(rm.MTOCIManifest, fmt.Sprintf(`{"schemaVersion":2,"mediaType":%q,"config":%s,"layers":[%s],"annotations":{"org.example.c06":"m5-sha512"}}`, rm.MTOCIManifest,
		desc(rm.MTOCIConfig, dc0, len(c0), ""), desc(rm.MTOCILayerGzip, dA, len(layerA), "")))
	p.Mans[len(p.Mans)-1].Digest = rm.Digest("sha512", m5.Body)
	p.Mans[len(p.Mans)-1].NeedDesc = true
	// M6: OCI artifact manifest (the deprecated artifact media type)
	add(rm.MTOCIArtifact, fmt.Sprintf(`{"mediaType":%q,"artifactType":"application/vnd.example.sbom","blobs":[%s]}`, rm.MTOCIArtifact,
		desc("application/octet-stream", dC, len(layerC), "")))
	// M7: unsigned Docker schema1 manifest (no mediaType field by definition)
	add(rm.MTDocker1, fmt.Sprintf(`{"schemaVersion":1,"name":"proj/app","tag":"latest","architecture":"amd64","fsLayers":[{"blobSum":%q}],"history":[{"v1Compatibility":"{\"id\":\"0\",\"created\":\"2020-01-01T00:00:00Z\"}"}]}`, dC))
	// M8: OCI image whose body has no mediaType field (valid OCI 1.0)
	add(rm.MTOCIManifest, fmt.Sprintf(`{"schemaVersion":2,"config":%s,"layers":[%s]}`,
		desc(rm.MTOCIConfig, dc1, len(c1), ""), desc(rm.MTOCILayerGzip, dB, len(layerB), "")))
	p.Mans[len(p.Mans)-1].NeedDesc = true
	return p
}

// manIndex returns the pool index of a digest (-1 if it is not a pool manifest).
func manIndex(d string) int {
	for i, m := range pool.Mans {
		if m.Digest == d {
			return i
		}
	}
	return -1
}

func manName(d string) string {
	for _, m := range fullPool.Mans {
		if m.Digest == d {
			return m.Name
		}
	}
	if d == "" {
		return "-"
	}
	if len(d) > 19 {
		return d[:19]
	}
	return d
}
