package c06

// model.go: the reference model — a map tag->digest plus a set of stored
// manifests. For layouts three details of DESIGN §3 C06 N are modelled (never
// asserted against): untagged root entries, manifests that became unreferenced
// ("may exist" until some Close collects them), and — for layouts seeded by
// other tools — further index entries for one tag that the client has not yet
// had a reason to prune ("shadow" entries).

import "sort"

const (
	absent  = 0
	maybe   = 1 // layout only: unreferenced, readable until a Close collects it
	present = 2
)

type expect int

const (
	mustOK expect = iota
	mustFail
	either
)

type model struct {
	layout   bool
	tags     map[string]string
	shadow   map[string][]string // layout: digests of further seeded entries for the tag
	untagged map[string]bool     // layout: digest has an untagged root entry
	file     map[string]int      // digest -> absent | maybe | present
	reprobe  map[string][]string // layout: tags whose manifest was deleted while shadow entries exist: candidates
}

func newModel(layout bool) *model {
	return &model{layout: layout, tags: map[string]string{}, shadow: map[string][]string{}, untagged: map[string]bool{},
		file: map[string]int{}, reprobe: map[string][]string{}}
}

func (m *model) referenced(d string) bool {
	for _, x := range m.tags {
		if x == d {
			return true
		}
	}
	if m.untagged[d] {
		return true
	}
	for _, l := range m.shadow {
		for _, x := range l {
			if x == d {
				return true
			}
		}
	}
	for _, l := range m.reprobe {
		for _, x := range l {
			if x == d {
				return true
			}
		}
	}
	return false
}

// settle demotes unreferenced layout manifests to "maybe".
func (m *model) settle() {
	if !m.layout {
		return
	}
	for d, st := range m.file {
		if st == present && !m.referenced(d) {
			m.file[d] = maybe
		}
	}
}

func (m *model) putTag(t, d string) expect {
	m.tags[t] = d
	delete(m.shadow, t)
	m.file[d] = present
	if m.layout {
		delete(m.untagged, d)
	}
	m.settle()
	return mustOK
}

func (m *model) putDigest(d string) expect {
	m.file[d] = present
	if m.layout {
		m.untagged[d] = true
	}
	return mustOK
}

// putChild: a push by digest with WithManifestChild — stored, but (layout) not listed in index.json.
func (m *model) putChild(d string) expect {
	m.file[d] = present
	m.settle()
	return mustOK
}

func (m *model) tagDel(t string) expect {
	if _, ok := m.tags[t]; !ok {
		return mustFail
	}
	delete(m.tags, t)
	delete(m.shadow, t)
	m.settle()
	return mustOK
}

func (m *model) manDel(d string) expect {
	ex := mustOK
	switch m.file[d] {
	case absent:
		return mustFail
	case maybe:
		ex = either
	}
	// shadow entries with this digest go too
	for t, l := range m.shadow {
		keep := l[:0:0]
		for _, x := range l {
			if x != d {
				keep = append(keep, x)
			}
		}
		if len(keep) == 0 {
			delete(m.shadow, t)
		} else {
			m.shadow[t] = keep
		}
	}
	for t, x := range m.tags {
		if x != d {
			continue
		}
		delete(m.tags, t)
		if l := m.shadow[t]; len(l) > 0 {
			// another tool left further entries for this tag: the tag may fall to one of them
			m.reprobe[t] = l
			delete(m.shadow, t)
		}
	}
	delete(m.untagged, d)
	delete(m.file, d)
	m.settle()
	return ex
}

// resolveReprobe fixes a tag that was left ambiguous by manDel: got is the digest
// the client reports now ("" = not found). ok is false when got is not a candidate.
func (m *model) resolveReprobe(t, got string) bool {
	cands := m.reprobe[t]
	delete(m.reprobe, t)
	if got == "" {
		// the tag is gone; remaining entries (if any) would be caught by the raw comparison
		m.settle()
		return true
	}
	idx := -1
	for i, x := range cands {
		if x == got {
			idx = i
			break
		}
	}
	if idx < 0 {
		m.settle()
		return false
	}
	m.tags[t] = got
	rest := append(append([]string{}, cands[:idx]...), cands[idx+1:]...)
	if len(rest) > 0 {
		m.shadow[t] = rest
	}
	m.settle()
	return true
}

func (m *model) sortedTags() []string {
	out := make([]string, 0, len(m.tags))
	for t := range m.tags {
		out = append(out, t)
	}
	sort.Strings(out)
	return out
}

// sharedPair tells whether two tags currently share a manifest.
func (m *model) sharedPair() bool {
	seen := map[string]bool{}
	for _, d := range m.tags {
		if seen[d] {
			return true
		}
		seen[d] = true
	}
	return false
}

// sharers counts the tags that point at d.
func (m *model) sharers(d string) int {
	n := 0
	for _, x := range m.tags {
		if x == d {
			n++
		}
	}
	return n
}

func (m *model) clone() *model {
	c := newModel(m.layout)
	for k, v := range m.tags {
		c.tags[k] = v
	}
	for k, v := range m.shadow {
		c.shadow[k] = append([]string{}, v...)
	}
	for k, v := range m.untagged {
		c.untagged[k] = v
	}
	for k, v := range m.file {
		c.file[k] = v
	}
	for k, v := range m.reprobe {
		c.reprobe[k] = append([]string{}, v...)
	}
	return c
}
