package c07

// Independent OCI-layout reader used as the oracle of C07. Plain os /
// encoding/json / crypto only: nothing from regclient is used to judge a
// directory.

import (
	"crypto/sha256"
	"crypto/sha512"
	"encoding/hex"
	"encoding/json"
	"fmt"
	"os"
	"path/filepath"
	"sort"
	"strings"
)

const refNameAnnot = "org.opencontainers.image.ref.name"

// State is what the independent reader sees in a directory.
type State struct {
	DirExists bool
	// oci-layout
	Marker    string // ok | missing | empty | partial | badversion
	MarkerRaw string
	MarkerOK  bool
	// index.json
	Index    string // ok | missing | incomplete | invalid
	IndexErr string
	IndexOK  bool
	Tags     map[string]string // ref.name -> digest (first entry wins, like every reader of a layout)
	Untagged map[string]bool   // digests of entries without ref.name
	Entries  int
	// blobs/<alg>/<hex>
	Files    map[string]bool // digest -> content hashes to the name
	FileSize map[string]int64
	TmpFiles int
	Other    []string // unexpected names under blobs/
	cache    map[string][]byte
	dir      string
}

// Valid reports whether the directory is a complete, readable layout.
func (s *State) Valid() bool { return s.MarkerOK && s.IndexOK }

func wellFormedHex(alg, name string) bool {
	want := 0
	switch alg {
	case "sha256":
		want = 64
	case "sha512":
		want = 128
	default:
		return false
	}
	if len(name) != want {
		return false
	}
	for _, c := range name {
		if !(c >= '0' && c <= '9' || c >= 'a' && c <= 'f') {
			return false
		}
	}
	return true
}

func wellFormedDigest(d string) bool {
	i := strings.IndexByte(d, ':')
	return i > 0 && wellFormedHex(d[:i], d[i+1:])
}

func hashOf(alg string, b []byte) string {
	switch alg {
	case "sha256":
		h := sha256.Sum256(b)
		return hex.EncodeToString(h[:])
	case "sha512":
		h := sha512.Sum512(b)
		return hex.EncodeToString(h[:])
	}
	return ""
}

func digestOf(alg string, b []byte) string { return alg + ":" + hashOf(alg, b) }

// readState inspects a directory.
func readState(dir string) *State {
	s := &State{Tags: map[string]string{}, Untagged: map[string]bool{}, Files: map[string]bool{},
		FileSize: map[string]int64{}, cache: map[string][]byte{}, dir: dir}
	if fi, err := os.Stat(dir); err != nil || !fi.IsDir() {
		s.Marker, s.Index = "missing", "missing"
		return s
	}
	s.DirExists = true
	// ---- oci-layout
	mb, err := os.ReadFile(filepath.Join(dir, "oci-layout"))
	switch {
	case err != nil:
		s.Marker = "missing"
	case len(mb) == 0:
		s.Marker = "empty"
	default:
		s.MarkerRaw = string(mb)
		var m map[string]any
		if json.Unmarshal(mb, &m) != nil {
			s.Marker = "partial"
		} else if v, _ := m["imageLayoutVersion"].(string); v != "1.0.0" {
			s.Marker = "badversion"
		} else {
			s.Marker, s.MarkerOK = "ok", true
		}
	}
	// ---- index.json
	ib, err := os.ReadFile(filepath.Join(dir, "index.json"))
	if err != nil {
		s.Index = "missing"
	} else {
		s.parseIndex(ib)
	}
	// ---- blobs
	algs, _ := os.ReadDir(filepath.Join(dir, "blobs"))
	for _, a := range algs {
		if !a.IsDir() {
			s.Other = append(s.Other, a.Name())
			continue
		}
		ents, _ := os.ReadDir(filepath.Join(dir, "blobs", a.Name()))
		for _, e := range ents {
			name := e.Name()
			if strings.HasSuffix(name, ".tmp") {
				s.TmpFiles++
				continue
			}
			if !wellFormedHex(a.Name(), name) {
				s.Other = append(s.Other, a.Name()+"/"+name)
				continue
			}
			b, err := os.ReadFile(filepath.Join(dir, "blobs", a.Name(), name))
			d := a.Name() + ":" + name
			if err != nil {
				s.Files[d] = false
				continue
			}
			s.FileSize[d] = int64(len(b))
			ok := hashOf(a.Name(), b) == name
			s.Files[d] = ok
			if ok && len(b) < 1<<21 {
				s.cache[d] = b
			}
		}
	}
	return s
}

func (s *State) parseIndex(ib []byte) {
	var top map[string]json.RawMessage
	if err := json.Unmarshal(ib, &top); err != nil {
		s.Index, s.IndexErr = "incomplete", fmt.Sprintf("%v (%d bytes)", err, len(ib))
		return
	}
	bad := func(f string, a ...any) { s.Index, s.IndexErr = "invalid", fmt.Sprintf(f, a...) }
	var sv int
	if json.Unmarshal(top["schemaVersion"], &sv) != nil || sv != 2 {
		bad("schemaVersion is %s", string(top["schemaVersion"]))
		return
	}
	var ents []map[string]json.RawMessage
	if raw, ok := top["manifests"]; ok && string(raw) != "null" {
		if err := json.Unmarshal(raw, &ents); err != nil {
			bad("manifests: %v", err)
			return
		}
	}
	for i, e := range ents {
		var dg, mt string
		var size int64 = -1
		_ = json.Unmarshal(e["digest"], &dg)
		_ = json.Unmarshal(e["mediaType"], &mt)
		if raw, ok := e["size"]; ok {
			_ = json.Unmarshal(raw, &size)
		}
		if !wellFormedDigest(dg) {
			bad("manifests[%d].digest %q is not a digest", i, dg)
			return
		}
		if mt == "" {
			bad("manifests[%d] has no mediaType", i)
			return
		}
		if size < 0 {
			bad("manifests[%d] has no valid size", i)
			return
		}
		var ann map[string]string
		if raw, ok := e["annotations"]; ok && string(raw) != "null" {
			if err := json.Unmarshal(raw, &ann); err != nil {
				bad("manifests[%d].annotations: %v", i, err)
				return
			}
		}
		if name, ok := ann[refNameAnnot]; ok && name != "" {
			if _, dup := s.Tags[name]; !dup {
				s.Tags[name] = dg
			}
		} else {
			s.Untagged[dg] = true
		}
	}
	s.Entries = len(ents)
	s.Index, s.IndexOK = "ok", true
}

func (s *State) blob(d string) ([]byte, bool) {
	if ok := s.Files[d]; !ok {
		return nil, false
	}
	if b, ok := s.cache[d]; ok {
		return b, true
	}
	i := strings.IndexByte(d, ':')
	b, err := os.ReadFile(filepath.Join(s.dir, "blobs", d[:i], d[i+1:]))
	if err != nil {
		return nil, false
	}
	return b, true
}

// Preload reads every manifest-sized file into memory so that the State stays
// usable after the directory has been changed or removed.
func (s *State) Preload() {
	for d, ok := range s.Files {
		if ok {
			if b, ok2 := s.blob(d); ok2 && len(b) < 1<<21 {
				s.cache[d] = b
			}
		}
	}
	s.dir = "/nonexistent"
}

func isManifestType(mt string) bool {
	switch mt {
	case "application/vnd.oci.image.manifest.v1+json", "application/vnd.oci.image.index.v1+json",
		"application/vnd.docker.distribution.manifest.v2+json", "application/vnd.docker.distribution.manifest.list.v2+json",
		"application/vnd.oci.artifact.manifest.v1+json":
		return true
	}
	return false
}

// Missing walks the closure of a manifest digest (manifest -> config, layers,
// blobs, nested manifests; the subject is NOT part of it) and returns the
// sorted list of parts that are absent or whose bytes do not hash to their
// name. A nil result means the image is complete.
func (s *State) Missing(d string) []string {
	miss := map[string]bool{}
	seen := map[string]bool{}
	var walk func(d string, depth int)
	walk = func(d string, depth int) {
		if seen[d] || depth > 8 {
			return
		}
		seen[d] = true
		b, ok := s.blob(d)
		if !ok {
			if _, present := s.Files[d]; present {
				miss["manifest-corrupt "+d] = true
			} else {
				miss["manifest-absent "+d] = true
			}
			return
		}
		var m struct {
			Manifests []struct {
				MediaType string `json:"mediaType"`
				Digest    string `json:"digest"`
			} `json:"manifests"`
			Config *struct {
				Digest string `json:"digest"`
			} `json:"config"`
			Layers []struct {
				Digest string   `json:"digest"`
				URLs   []string `json:"urls"`
			} `json:"layers"`
			Blobs []struct {
				Digest string `json:"digest"`
			} `json:"blobs"`
		}
		if err := json.Unmarshal(b, &m); err != nil {
			miss["manifest-unparsable "+d] = true
			return
		}
		leaf := func(ld string) {
			if ld == "" {
				return
			}
			if ok, present := s.Files[ld]; !present {
				miss["blob-absent "+ld] = true
			} else if !ok {
				miss["blob-corrupt "+ld] = true
			}
		}
		for _, c := range m.Manifests {
			if isManifestType(c.MediaType) {
				walk(c.Digest, depth+1)
			} else {
				leaf(c.Digest)
			}
		}
		if m.Config != nil {
			leaf(m.Config.Digest)
		}
		for _, l := range m.Layers {
			if len(l.URLs) > 0 {
				continue
			}
			leaf(l.Digest)
		}
		for _, l := range m.Blobs {
			leaf(l.Digest)
		}
	}
	walk(d, 0)
	if len(miss) == 0 {
		return nil
	}
	out := make([]string, 0, len(miss))
	for k := range miss {
		out = append(out, k)
	}
	sort.Strings(out)
	return out
}

// Reach adds every digest named by the closure of manifest d (d included,
// present or not) to into; it descends only into manifests that are present.
func (s *State) Reach(d string, into map[string]bool) {
	if into[d] {
		return
	}
	into[d] = true
	b, ok := s.blob(d)
	if !ok {
		return
	}
	var m struct {
		Manifests []struct {
			MediaType string `json:"mediaType"`
			Digest    string `json:"digest"`
		} `json:"manifests"`
		Config *struct {
			Digest string `json:"digest"`
		} `json:"config"`
		Layers []struct {
			Digest string `json:"digest"`
		} `json:"layers"`
		Blobs []struct {
			Digest string `json:"digest"`
		} `json:"blobs"`
	}
	if json.Unmarshal(b, &m) != nil {
		return
	}
	for _, c := range m.Manifests {
		if isManifestType(c.MediaType) {
			s.Reach(c.Digest, into)
		} else if c.Digest != "" {
			into[c.Digest] = true
		}
	}
	if m.Config != nil && m.Config.Digest != "" {
		into[m.Config.Digest] = true
	}
	for _, l := range m.Layers {
		if l.Digest != "" {
			into[l.Digest] = true
		}
	}
	for _, l := range m.Blobs {
		if l.Digest != "" {
			into[l.Digest] = true
		}
	}
}

// ReachIndex is everything reachable from the entries of index.json.
func (s *State) ReachIndex() map[string]bool {
	out := map[string]bool{}
	for _, d := range s.Tags {
		s.Reach(d, out)
	}
	for d := range s.Untagged {
		s.Reach(d, out)
	}
	return out
}

// isFallbackTag recognises the referrers fallback tag "<alg>-<hex>" (no suffix).
func isFallbackTag(t string) bool {
	i := strings.IndexByte(t, '-')
	if i <= 0 {
		return false
	}
	// the hex part is cut to 64 characters (sha512 subjects)
	return wellFormedHex(t[:i], t[i+1:]) || (t[:i] == "sha512" && wellFormedHex("sha256", t[i+1:]))
}

// Referrers returns the sorted digests listed by a referrers fallback tag.
func (s *State) Referrers(tag string) ([]string, bool) {
	d, ok := s.Tags[tag]
	if !ok || !isFallbackTag(tag) {
		return nil, false
	}
	b, ok := s.blob(d)
	if !ok {
		return nil, false
	}
	var m struct {
		Manifests []struct {
			Digest string `json:"digest"`
		} `json:"manifests"`
	}
	if json.Unmarshal(b, &m) != nil {
		return nil, false
	}
	out := []string{}
	for _, e := range m.Manifests {
		out = append(out, e.Digest)
	}
	sort.Strings(out)
	return out, true
}

// TagValue is what a tag means: the digest it names, or - for a referrers
// fallback tag, whose list order depends on the order in which concurrent
// pushes arrive - the set of referrers it lists.
func (s *State) TagValue(tag string) string {
	if refs, ok := s.Referrers(tag); ok {
		return "referrers{" + strings.Join(refs, ",") + "}"
	}
	return s.Tags[tag]
}

// TagValues renders the whole tag table by meaning.
func (s *State) TagValues() string {
	var sb strings.Builder
	for _, t := range sortedKeys(s.Tags) {
		sb.WriteString(t + "=" + s.TagValue(t) + ";")
	}
	return sb.String()
}

// MissingRel is Missing with the top-level digest written as TOP, so that two
// differently ordered referrer lists can be compared.
func (s *State) MissingRel(d string) []string {
	var out []string
	for _, m := range s.Missing(d) {
		out = append(out, strings.ReplaceAll(m, d, "TOP"))
	}
	return out
}

func sortedKeys[V any](m map[string]V) []string {
	out := make([]string, 0, len(m))
	for k := range m {
		out = append(out, k)
	}
	sort.Strings(out)
	return out
}

// Summary is a short description for messages.
func (s *State) Summary() string {
	var tags []string
	for _, t := range sortedKeys(s.Tags) {
		tags = append(tags, t+"="+short(s.Tags[t]))
	}
	nOK := 0
	for _, ok := range s.Files {
		if ok {
			nOK++
		}
	}
	return fmt.Sprintf("{oci-layout:%s index.json:%s tags:[%s] untagged:%d files:%d/%d tmp:%d}",
		s.Marker, s.Index, strings.Join(tags, " "), len(s.Untagged), nOK, len(s.Files), s.TmpFiles)
}

func short(d string) string {
	if i := strings.IndexByte(d, ':'); i > 0 && len(d) > i+9 {
		return d[i+1 : i+9]
	}
	return d
}
