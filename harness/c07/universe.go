package c07

// The content universe of C07: every blob, image, index and artifact is a
// pure function of a small integer, serialised by this file's own JSON writer
// (never by regclient's types) and hashed with crypto/sha256|sha512.
// Also: raw writers for a source layout (ImageCopy) and layout tars
// (ImageImport), again without regclient.

import (
	"archive/tar"
	"bytes"
	"compress/gzip"
	"encoding/base64"
	"fmt"
	"os"
	"path/filepath"
	"sort"
	"strings"
)

const (
	mtOCIManifest   = "application/vnd.oci.image.manifest.v1+json"
	mtOCIIndex      = "application/vnd.oci.image.index.v1+json"
	mtOCIConfig     = "application/vnd.oci.image.config.v1+json"
	mtOCILayer      = "application/vnd.oci.image.layer.v1.tar"
	mtDockerMan     = "application/vnd.docker.distribution.manifest.v2+json"
	mtDockerConfig  = "application/vnd.docker.container.image.v1+json"
	mtDockerLayerGz = "application/vnd.docker.image.rootfs.diff.tar.gzip"
	mtEmpty         = "application/vnd.oci.empty.v1+json"
	mtPayload       = "application/vnd.verif.payload"
	mtDockerList    = "application/vnd.docker.distribution.manifest.list.v2+json"
	mtOCIArtifact   = "application/vnd.oci.artifact.manifest.v1+json"

	// the first 8/6/4/4 objects are the original universe (committed replays name them)
	nBlobs     = 12
	nImages    = 9
	nIndexes   = 8
	nArtifacts = 8
)

// Obj names one object of the universe.
type Obj struct {
	T string `json:"t"` // blob | config | empty | payload | image | index | artifact
	N int    `json:"n"`
}

func (o Obj) String() string { return fmt.Sprintf("%s%d", o.T, o.N) }

func mod(n, m int) int {
	n %= m
	if n < 0 {
		n += m
	}
	return n
}

// norm maps any Obj (e.g. a shrunk one) into the universe.
func norm(o Obj) Obj {
	switch o.T {
	case "blob":
		o.N = mod(o.N, nBlobs)
	case "config", "image":
		o.N = mod(o.N, nImages)
	case "index":
		o.N = mod(o.N, nIndexes)
	case "payload", "artifact":
		o.N = mod(o.N, nArtifacts)
	case "empty":
		o.N = 0
	default:
		o = Obj{T: "image", N: mod(o.N, nImages)}
	}
	return o
}

func isManifestObj(o Obj) bool { return o.T == "image" || o.T == "index" || o.T == "artifact" }

// sizes: empty, tiny, around io.Copy's 32 KiB buffer (one byte less is 8: 1 byte; 9..11: exactly one
// buffer, one byte more, exactly two buffers), multi-write; blob 6 is sha512-addressed
var blobSizes = [nBlobs]int{0, 16, 300, 5000, 33000, 70000, 64, 2000, 1, 32768, 32769, 65536}

// image 5 is a Docker schema2 image, image 6 lists the same layer twice (and a layer of exactly one
// copy buffer), image 7 is addressed by a sha512 digest (its manifest lives under blobs/sha512)
// image 8: every descriptor (config, layers of 1 and 16 bytes) carries its content inline ("data")
var imageLayers = [nImages][]int{{1}, {2, 3}, {1, 4}, {0, 5}, {6, 7}, {7, 1}, {1, 9, 1}, {6, 8}, {8, 1}}

var indexKids = [nIndexes][]Obj{
	{{"image", 0}, {"image", 1}},
	{{"image", 2}},
	{{"image", 0}, {"image", 3}},
	{{"index", 1}, {"image", 4}},
	{{"image", 5}, {"image", 0}}, // 4: Docker manifest list
	{{"image", 1}, {"image", 1}}, // 5: the same child twice
	{{"image", 7}, {"image", 0}}, // 6: a sha512-addressed child
	{{"image", 8}, {"image", 0}}, // 7: a child whose descriptors carry inline data
}

// artifact 7 carries the empty config and its payload inline ("data":"e30=" as ORAS / regctl write it);
// artifact 4 is of the (deprecated, still supported) OCI artifact manifest type, artifact 5 is an
// INDEX with a subject (its child is image 1), artifact 6 refers to the sha512-addressed image 7
var artifactSubject = [nArtifacts]Obj{{"image", 0}, {"image", 0}, {"index", 0}, {"artifact", 0},
	{"image", 1}, {"image", 0}, {"image", 7}, {"image", 1}}

func pattern(tag string, size int) []byte {
	var b bytes.Buffer
	for i := 0; b.Len() < size; i++ {
		fmt.Fprintf(&b, "%s:%06d\n", tag, i)
	}
	return b.Bytes()[:size]
}

type leaf struct {
	Digest    string
	Data      []byte
	MediaType string
}

func algOf(o Obj) string {
	if (o.T == "blob" && o.N == 6) || (o.T == "image" && o.N == 7) {
		return "sha512"
	}
	return "sha256"
}

var rawCache = map[Obj][]byte{}

// objRaw returns the bytes and media type of an object.
func objRaw(o Obj) ([]byte, string) {
	o = norm(o)
	mt := objMediaType(o)
	if b, ok := rawCache[o]; ok {
		return b, mt
	}
	var b []byte
	switch o.T {
	case "blob":
		b = pattern(fmt.Sprintf("blob-%d", o.N), blobSizes[o.N])
	case "config":
		b = []byte(fmt.Sprintf(`{"architecture":"amd64","os":"linux","config":{},"rootfs":{"type":"layers","diff_ids":[]},"verif":"image-%d"}`, o.N))
	case "empty":
		b = []byte(`{}`)
	case "payload":
		b = []byte(fmt.Sprintf("payload of artifact %d\n", o.N))
	case "image":
		b = imageManifest(o.N)
	case "index":
		b = indexManifest(o.N)
	case "artifact":
		b = artifactManifest(o.N)
	}
	rawCache[o] = b
	return b, mt
}

func objMediaType(o Obj) string {
	switch o.T {
	case "blob":
		return mtOCILayer
	case "config":
		if o.N == 5 {
			return mtDockerConfig
		}
		return mtOCIConfig
	case "empty":
		return mtEmpty
	case "payload":
		return mtPayload
	case "image":
		if o.N == 5 {
			return mtDockerMan
		}
		return mtOCIManifest
	case "index":
		if o.N == 4 {
			return mtDockerList
		}
		return mtOCIIndex
	case "artifact":
		switch o.N {
		case 4:
			return mtOCIArtifact
		case 5:
			return mtOCIIndex
		}
		return mtOCIManifest
	}
	return ""
}

func objDigest(o Obj) string {
	b, _ := objRaw(o)
	return digestOf(algOf(norm(o)), b)
}

func descJSON(o Obj, mtOverride string, extra string) string {
	b, mt := objRaw(o)
	if mtOverride != "" {
		mt = mtOverride
	}
	return fmt.Sprintf(`{"mediaType":%q,"digest":%q,"size":%d%s}`, mt, objDigest(o), len(b), extra)
}

// dataExtra is the inline copy of an object's content for its descriptor.
func dataExtra(o Obj) string {
	b, _ := objRaw(o)
	return fmt.Sprintf(`,"data":%q`, base64.StdEncoding.EncodeToString(b))
}

// inlineData tells whether the descriptors inside a manifest object carry inline data.
func inlineData(o Obj) bool {
	o = norm(o)
	return (o.T == "image" && o.N == 8) || (o.T == "artifact" && o.N == 7) || (o.T == "index" && o.N == 7)
}

func imageManifest(j int) []byte {
	var layers []string
	for _, l := range imageLayers[j] {
		lmt := ""
		if j == 5 {
			lmt = mtDockerLayerGz
		}
		extra := ""
		if j == 8 {
			extra = dataExtra(Obj{"blob", l})
		}
		layers = append(layers, descJSON(Obj{"blob", l}, lmt, extra))
	}
	if j == 8 {
		return []byte(fmt.Sprintf(`{"schemaVersion":2,"mediaType":%q,"config":%s,"layers":[%s],"annotations":{"verif.image":"%d"}}`,
			mtOCIManifest, descJSON(Obj{"config", j}, "", dataExtra(Obj{"config", j})), strings.Join(layers, ","), j))
	}
	if j == 5 {
		return []byte(fmt.Sprintf(`{"schemaVersion":2,"mediaType":%q,"config":%s,"layers":[%s]}`,
			mtDockerMan, descJSON(Obj{"config", j}, "", ""), strings.Join(layers, ",")))
	}
	return []byte(fmt.Sprintf(`{"schemaVersion":2,"mediaType":%q,"config":%s,"layers":[%s],"annotations":{"verif.image":"%d"}}`,
		mtOCIManifest, descJSON(Obj{"config", j}, "", ""), strings.Join(layers, ","), j))
}

func indexManifest(x int) []byte {
	var kids []string
	archs := []string{"amd64", "arm64", "ppc64le"}
	for i, k := range indexKids[x] {
		kids = append(kids, descJSON(k, "", fmt.Sprintf(`,"platform":{"architecture":%q,"os":"linux"}`, archs[i%len(archs)])))
	}
	if x == 4 {
		return []byte(fmt.Sprintf(`{"schemaVersion":2,"mediaType":%q,"manifests":[%s]}`, mtDockerList, strings.Join(kids, ",")))
	}
	return []byte(fmt.Sprintf(`{"schemaVersion":2,"mediaType":%q,"manifests":[%s],"annotations":{"verif.index":"%d"}}`,
		mtOCIIndex, strings.Join(kids, ","), x))
}

func artifactManifest(a int) []byte {
	switch a {
	case 4:
		return []byte(fmt.Sprintf(`{"mediaType":%q,"artifactType":"application/vnd.verif.a%d","blobs":[%s],"subject":%s,"annotations":{"verif.artifact":"%d"}}`,
			mtOCIArtifact, a, descJSON(Obj{"payload", a}, "", ""), descJSON(artifactSubject[a], "", ""), a))
	case 5:
		return []byte(fmt.Sprintf(`{"schemaVersion":2,"mediaType":%q,"artifactType":"application/vnd.verif.a%d","manifests":[%s],"subject":%s,"annotations":{"verif.artifact":"%d"}}`,
			mtOCIIndex, a, descJSON(Obj{"image", 1}, "", `,"platform":{"architecture":"amd64","os":"linux"}`), descJSON(artifactSubject[a], "", ""), a))
	}
	ce, pe := "", ""
	if a == 7 {
		ce, pe = dataExtra(Obj{"empty", 0}), dataExtra(Obj{"payload", a})
	}
	return []byte(fmt.Sprintf(`{"schemaVersion":2,"mediaType":%q,"artifactType":"application/vnd.verif.a%d","config":%s,"layers":[%s],"subject":%s,"annotations":{"verif.artifact":"%d"}}`,
		mtOCIManifest, a, descJSON(Obj{"empty", 0}, "", ce), descJSON(Obj{"payload", a}, "", pe),
		descJSON(artifactSubject[a], "", ""), a))
}

// parts returns the direct blob leaves and the direct child manifests.
func parts(o Obj) (leaves []Obj, kids []Obj) {
	o = norm(o)
	switch o.T {
	case "image":
		leaves = append(leaves, Obj{"config", o.N})
		for _, l := range imageLayers[o.N] {
			leaves = append(leaves, Obj{"blob", l})
		}
	case "index":
		kids = append(kids, indexKids[o.N]...)
	case "artifact":
		switch o.N {
		case 4:
			leaves = append(leaves, Obj{"payload", o.N})
		case 5:
			kids = append(kids, Obj{"image", 1})
		default:
			leaves = append(leaves, Obj{"empty", 0}, Obj{"payload", o.N})
		}
	}
	return
}

// closureFiles adds every file of the closure of o (o itself included).
func closureFiles(o Obj, into map[string][]byte) {
	o = norm(o)
	b, _ := objRaw(o)
	into[objDigest(o)] = b
	leaves, kids := parts(o)
	for _, l := range leaves {
		lb, _ := objRaw(l)
		into[objDigest(l)] = lb
	}
	for _, k := range kids {
		closureFiles(k, into)
	}
}

// ---------------------------------------------------------------- driver ops

// DrvOp mirrors c07drv's Op (one public-API call).
type DrvOp struct {
	Op         string `json:"op"`
	Tag        string `json:"tag,omitempty"`
	Digest     string `json:"digest,omitempty"`
	MediaType  string `json:"media_type,omitempty"`
	Data       []byte `json:"data,omitempty"`
	NoDesc     bool   `json:"no_desc,omitempty"`
	Child      bool   `json:"child,omitempty"`
	Src        string `json:"src,omitempty"`
	Referrers  bool   `json:"referrers,omitempty"`
	DigestTags bool   `json:"digest_tags,omitempty"`
	Tar        string `json:"tar,omitempty"`
	RefForm    string `json:"ref_form,omitempty"`  // "" | tag+digest | bare | digest
	DescMode   string `json:"desc_mode,omitempty"` // blob: "" | none | digest-only | size-only | wrong-digest | wrong-size
	Ctx        string `json:"ctx,omitempty"`       // "" | cancelled
	Force      bool   `json:"force,omitempty"`     // copy: ImageWithForceRecursive
	Fast       bool   `json:"fast,omitempty"`      // copy: ImageWithFastCheck
	Platform   string `json:"platform,omitempty"`  // copy: ImageWithPlatforms
	ImportName string `json:"import_name,omitempty"`
	CheckRefs  bool   `json:"check_refs,omitempty"` // mandel: WithManifestCheckReferrers
	what       string
}

func blobOp(o Obj, noDesc bool) DrvOp {
	b, _ := objRaw(o)
	return DrvOp{Op: "blob", Digest: objDigest(o), Data: b, NoDesc: noDesc, what: "blob " + norm(o).String()}
}

func manifestOp(o Obj, tag string, child bool) DrvOp {
	b, mt := objRaw(o)
	return DrvOp{Op: "manifest", Tag: tag, Digest: objDigest(o), MediaType: mt, Data: b, Child: child && tag == "",
		what: fmt.Sprintf("manifest %s tag=%q child=%v", norm(o), tag, child && tag == "")}
}

// prereqOps pushes everything a manifest refers to (children first), without
// the manifest itself.
func prereqOps(o Obj, seen map[string]bool) []DrvOp {
	var out []DrvOp
	leaves, kids := parts(o)
	for _, k := range kids {
		if seen[objDigest(k)] {
			continue
		}
		out = append(out, prereqOps(k, seen)...)
		out = append(out, manifestOp(k, "", true))
		seen[objDigest(k)] = true
	}
	for _, l := range leaves {
		if seen[objDigest(l)] {
			continue
		}
		seen[objDigest(l)] = true
		out = append(out, blobOp(l, false))
	}
	return out
}

// ---------------------------------------------------------------- raw writers

type rawEntry struct {
	Tag  string
	Name string // raw ref.name annotation when it is not just the tag (full image name)
	Ctrd string // io.containerd.image.name annotation
	Obj  Obj
	// for entries that are not universe objects (referrer lists)
	Raw []byte
	MT  string
}

func writeFile(p string, b []byte) error {
	if err := os.MkdirAll(filepath.Dir(p), 0o777); err != nil {
		return err
	}
	return os.WriteFile(p, b, 0o666)
}

func blobPath(d string) string {
	i := strings.IndexByte(d, ':')
	return filepath.Join("blobs", d[:i], d[i+1:])
}

func indexJSON(entries []rawEntry) []byte {
	var ents []string
	for _, e := range entries {
		var dg, mt string
		var size int
		if e.Raw != nil {
			dg, mt, size = digestOf("sha256", e.Raw), e.MT, len(e.Raw)
		} else {
			b, m := objRaw(e.Obj)
			dg, mt, size = objDigest(e.Obj), m, len(b)
		}
		ann := ""
		name := e.Tag
		if e.Name != "" {
			name = e.Name
		}
		switch {
		case e.Ctrd != "" && name != "":
			ann = fmt.Sprintf(`,"annotations":{"io.containerd.image.name":%q,%q:%q}`, e.Ctrd, refNameAnnot, name)
		case name != "":
			ann = fmt.Sprintf(`,"annotations":{%q:%q}`, refNameAnnot, name)
		}
		ents = append(ents, fmt.Sprintf(`{"mediaType":%q,"digest":%q,"size":%d%s}`, mt, dg, size, ann))
	}
	return []byte(fmt.Sprintf(`{"schemaVersion":2,"mediaType":%q,"manifests":[%s]}`, mtOCIIndex, strings.Join(ents, ",")))
}

func layoutFiles(entries []rawEntry) map[string][]byte {
	files := map[string][]byte{}
	for _, e := range entries {
		if e.Raw != nil {
			files[digestOf("sha256", e.Raw)] = e.Raw
		} else {
			closureFiles(e.Obj, files)
		}
	}
	return files
}

// writeRawLayout materialises a spec-conformant layout with plain file writes.
func writeRawLayout(dir string, entries []rawEntry, extra map[string][]byte) error {
	if err := writeFile(filepath.Join(dir, "oci-layout"), []byte(`{"imageLayoutVersion":"1.0.0"}`)); err != nil {
		return err
	}
	if err := writeFile(filepath.Join(dir, "index.json"), indexJSON(entries)); err != nil {
		return err
	}
	files := layoutFiles(entries)
	for d, b := range extra {
		files[d] = b
	}
	for d, b := range files {
		if err := writeFile(filepath.Join(dir, blobPath(d)), b); err != nil {
			return err
		}
	}
	return nil
}

// referrersIndex is the content of a referrers fallback tag.
func referrersIndex(arts []Obj) []byte {
	var ents []string
	for _, a := range arts {
		a = norm(a)
		b, mt := objRaw(a)
		ents = append(ents, fmt.Sprintf(`{"mediaType":%q,"digest":%q,"size":%d,"annotations":{"verif.artifact":"%d"},"artifactType":"application/vnd.verif.a%d"}`,
			mt, objDigest(a), len(b), a.N, a.N))
	}
	return []byte(fmt.Sprintf(`{"schemaVersion":2,"mediaType":%q,"manifests":[%s]}`, mtOCIIndex, strings.Join(ents, ",")))
}

// fallbackTag is the referrers fallback tag of a subject digest: "<alg>-<first 64 hex characters>".
func fallbackTag(d string) string {
	i := strings.IndexByte(d, ':')
	h := d[i+1:]
	if len(h) > 64 {
		h = h[:64]
	}
	return d[:i] + "-" + h
}

// sourceTags lists the tags of the copy source layout.
func sourceTags() []string {
	var out []string
	for j := 0; j < nImages; j++ {
		out = append(out, fmt.Sprintf("i%d", j))
	}
	for x := 0; x < nIndexes; x++ {
		out = append(out, fmt.Sprintf("x%d", x))
	}
	for a := 0; a < nArtifacts; a++ {
		out = append(out, fmt.Sprintf("a%d", a))
	}
	return out
}

// writeSourceLayout builds the layout ImageCopy reads from: every image,
// index and artifact under a tag (i<n>, x<n>, a<n>), referrers (fallback tags) for image0, index0 and
// artifact0, and one digest tag.
func writeSourceLayout(dir string) error {
	var ents []rawEntry
	for j := 0; j < nImages; j++ {
		ents = append(ents, rawEntry{Tag: fmt.Sprintf("i%d", j), Obj: Obj{"image", j}})
	}
	for x := 0; x < nIndexes; x++ {
		ents = append(ents, rawEntry{Tag: fmt.Sprintf("x%d", x), Obj: Obj{"index", x}})
	}
	for a := 0; a < nArtifacts; a++ {
		ents = append(ents, rawEntry{Tag: fmt.Sprintf("a%d", a), Obj: Obj{"artifact", a}})
	}
	extra := map[string][]byte{}
	bySubject := map[string][]Obj{}
	var subjects []string
	for a := 0; a < nArtifacts; a++ {
		sd := objDigest(artifactSubject[a])
		if _, ok := bySubject[sd]; !ok {
			subjects = append(subjects, sd)
		}
		bySubject[sd] = append(bySubject[sd], Obj{"artifact", a})
		closureFiles(Obj{"artifact", a}, extra)
	}
	sort.Strings(subjects)
	for _, sd := range subjects {
		ents = append(ents, rawEntry{Tag: fallbackTag(sd), Raw: referrersIndex(bySubject[sd]), MT: mtOCIIndex})
	}
	// a cosign-style digest tag on image1 -> image2
	ents = append(ents, rawEntry{Tag: fallbackTag(objDigest(Obj{"image", 1})) + ".sig", Obj: Obj{"image", 2}})
	return writeRawLayout(dir, ents, extra)
}

// writeLayoutTar writes a tar holding one tagged object.
// style: "" (oci-layout, index.json, blobs in name order), "reversed" (blobs in
// descending order first, control files last: the importer needs several passes),
// "gzip" (the whole archive gzip-compressed), "multi" (index.json lists a second
// image under the tag "other" first: the importer selects by name), "docker"
// (docker-save form of an image: manifest.json + config + layer files, no OCI files).
func writeLayoutTar(path string, o Obj, tag string, style string) error {
	o = norm(o)
	type ent struct {
		name string
		b    []byte
	}
	var list []ent
	if style == "docker" {
		if o.T != "image" {
			o = Obj{"image", mod(o.N, nImages)}
		}
		cfg, _ := objRaw(Obj{"config", o.N})
		var layers []string
		list = append(list, ent{"config.json", cfg})
		for i, l := range imageLayers[o.N] {
			lb, _ := objRaw(Obj{"blob", l})
			name := fmt.Sprintf("layer%d/layer.tar", i)
			// a layer listed twice shares its file, as docker save does
			for j := 0; j < i; j++ {
				if imageLayers[o.N][j] == l {
					name = fmt.Sprintf("layer%d/layer.tar", j)
				}
			}
			if name == fmt.Sprintf("layer%d/layer.tar", i) {
				list = append(list, ent{name, lb})
			}
			layers = append(layers, fmt.Sprintf("%q", name))
		}
		list = append(list, ent{"manifest.json", []byte(fmt.Sprintf(`[{"Config":"config.json","RepoTags":["verif.example/app:%s"],"Layers":[%s]}]`,
			tag, strings.Join(layers, ",")))})
	} else {
		ents := []rawEntry{{Tag: tag, Obj: o}}
		if style == "multi" {
			other := Obj{"image", mod(o.N+3, nImages)}
			ents = []rawEntry{{Tag: "other", Obj: other}, {Tag: tag, Obj: o}}
		}
		files := layoutFiles(ents)
		list = append(list, ent{"oci-layout", []byte(`{"imageLayoutVersion":"1.0.0"}`)}, ent{"index.json", indexJSON(ents)})
		for _, d := range sortedKeys(files) {
			list = append(list, ent{filepath.ToSlash(blobPath(d)), files[d]})
		}
		if style == "reversed" {
			for i, j := 0, len(list)-1; i < j; i, j = i+1, j-1 {
				list[i], list[j] = list[j], list[i]
			}
		}
	}
	var buf bytes.Buffer
	tw := tar.NewWriter(&buf)
	for _, e := range list {
		if err := tw.WriteHeader(&tar.Header{Name: e.name, Mode: 0o644, Size: int64(len(e.b)), Typeflag: tar.TypeReg}); err != nil {
			return err
		}
		if _, err := tw.Write(e.b); err != nil {
			return err
		}
	}
	if err := tw.Close(); err != nil {
		return err
	}
	out := buf.Bytes()
	if style == "gzip" {
		var gz bytes.Buffer
		zw := gzip.NewWriter(&gz)
		if _, err := zw.Write(out); err != nil {
			return err
		}
		if err := zw.Close(); err != nil {
			return err
		}
		out = gz.Bytes()
	}
	return os.WriteFile(path, out, 0o644)
}

// ---------------------------------------------------------------- seed layouts

// seedStyles are the layouts "another tool" may have left before the first operation.
var seedStyles = []string{"plain", "fullname", "containerd", "dup", "untagged-all", "leftovers"}

const seedRepo = "registry.example.test/team/app"

// writeSeedLayout materialises a spec-conformant layout in the style of another tool
// (plain file writes). Tags v1 -> image0 and v2 -> index0 exist in every style.
func writeSeedLayout(dir, style string) error {
	var ents []rawEntry
	extra := map[string][]byte{}
	marker := `{"imageLayoutVersion":"1.0.0"}`
	switch style {
	case "fullname": // full image name in ref.name (podman / skopeo / buildx style)
		ents = []rawEntry{{Tag: "v1", Name: seedRepo + ":v1", Obj: Obj{"image", 0}}, {Tag: "v2", Name: seedRepo + ":v2", Obj: Obj{"index", 0}}}
	case "containerd": // ctr image export: both annotations
		ents = []rawEntry{{Tag: "v1", Ctrd: seedRepo + ":v1", Obj: Obj{"image", 0}}, {Tag: "v2", Ctrd: seedRepo + ":v2", Obj: Obj{"index", 0}}}
	case "dup": // the same ref.name twice (append-only writers), an untagged entry
		ents = []rawEntry{{Tag: "v1", Obj: Obj{"image", 0}}, {Tag: "v1", Obj: Obj{"image", 1}}, {Obj: Obj{"image", 2}}, {Tag: "v2", Obj: Obj{"index", 0}}}
	case "untagged-all": // every manifest, children included, has its own entry
		ents = []rawEntry{{Tag: "v1", Obj: Obj{"image", 0}}, {Tag: "v2", Obj: Obj{"index", 0}}, {Obj: Obj{"image", 0}}, {Obj: Obj{"image", 1}}, {Obj: Obj{"image", 2}}}
	default:
		ents = []rawEntry{{Tag: "v1", Obj: Obj{"image", 0}}, {Tag: "v2", Obj: Obj{"index", 0}}}
	}
	if err := writeRawLayout(dir, ents, extra); err != nil {
		return err
	}
	if style == "leftovers" {
		// marker and index in another tool's spelling, stale temp files, an unreferenced blob,
		// an empty algorithm directory
		marker = "{\n  \"imageLayoutVersion\": \"1.0.0\"\n}\n"
		ix := fmt.Sprintf("{\n  \"schemaVersion\": 2,\n  \"manifests\": [\n    %s,\n    %s\n  ],\n  \"annotations\": {\"verif.seed\": \"leftovers\"}\n}\n",
			descJSON(Obj{"image", 0}, "", fmt.Sprintf(`,"annotations":{%q:"v1"}`, refNameAnnot)),
			descJSON(Obj{"index", 0}, "", fmt.Sprintf(`,"annotations":{%q:"v2"}`, refNameAnnot)))
		garbage, _ := objRaw(Obj{"blob", 7})
		for name, b := range map[string][]byte{
			"oci-layout":            []byte(marker),
			"index.json":            []byte(ix),
			"index.json.4242.tmp":   []byte(`{"schemaVersion":2,"manifests":[`),
			"oci-layout.4242.tmp":   {},
			"blobs/sha256/4242.tmp": []byte("partial"),
			"blobs/sha256/" + strings.Repeat("ab", 32) + ".4242.tmp": []byte("{"),
			blobPath(objDigest(Obj{"blob", 7})):                      garbage,
		} {
			if err := writeFile(filepath.Join(dir, name), b); err != nil {
				return err
			}
		}
		if err := os.MkdirAll(filepath.Join(dir, "blobs", "sha512"), 0o777); err != nil {
			return err
		}
	}
	return nil
}
