package c07

// The content universe of C07: every blob, image, index and artifact is a
// pure function of a small integer, serialised by this file's own JSON writer
// (never by regclient's types) and hashed with crypto/sha256|sha512.
// Also: raw writers for a source layout (ImageCopy) and layout tars
// (ImageImport), again without regclient.

import (
	"archive/tar"
	"bytes"
	"fmt"
	"os"
	"path/filepath"
	"sort"
	"strings"
)

const (
	mtOCIManifest   = "application/vnd.oci.image.manifest.v1+json"
	mtOCIIndex      = "application/vnd.oci.image.index.v1+json"
	mtOCIConfig     = "application/vnd.oci.image.config.v1+json"
	mtOCILayer      = "application/vnd.oci.image.layer.v1.tar"
	mtDockerMan     = "application/vnd.docker.distribution.manifest.v2+json"
	mtDockerConfig  = "application/vnd.docker.container.image.v1+json"
	mtDockerLayerGz = "application/vnd.docker.image.rootfs.diff.tar.gzip"
	mtEmpty         = "application/vnd.oci.empty.v1+json"
	mtPayload       = "application/vnd.verif.payload"

	nBlobs     = 8
	nImages    = 6
	nIndexes   = 4
	nArtifacts = 4
)

// Obj names one object of the universe.
type Obj struct {
	T string `json:"t"` // blob | config | empty | payload | image | index | artifact
	N int    `json:"n"`
}

func (o Obj) String() string { return fmt.Sprintf("%s%d", o.T, o.N) }

func mod(n, m int) int {
	n %= m
	if n < 0 {
		n += m
	}
	return n
}

// norm maps any Obj (e.g. a shrunk one) into the universe.
func norm(o Obj) Obj {
	switch o.T {
	case "blob":
		o.N = mod(o.N, nBlobs)
	case "config", "image":
		o.N = mod(o.N, nImages)
	case "index":
		o.N = mod(o.N, nIndexes)
	case "payload", "artifact":
		o.N = mod(o.N, nArtifacts)
	case "empty":
		o.N = 0
	default:
		o = Obj{T: "image", N: mod(o.N, nImages)}
	}
	return o
}

func isManifestObj(o Obj) bool { return o.T == "image" || o.T == "index" || o.T == "artifact" }

var blobSizes = [nBlobs]int{0, 16, 300, 5000, 33000, 70000, 64, 2000}

var imageLayers = [nImages][]int{{1}, {2, 3}, {1, 4}, {0, 5}, {6, 7}, {7, 1}}

var indexKids = [nIndexes][]Obj{
	{{"image", 0}, {"image", 1}},
	{{"image", 2}},
	{{"image", 0}, {"image", 3}},
	{{"index", 1}, {"image", 4}},
}

var artifactSubject = [nArtifacts]Obj{{"image", 0}, {"image", 0}, {"index", 0}, {"artifact", 0}}

func pattern(tag string, size int) []byte {
	var b bytes.Buffer
	for i := 0; b.Len() < size; i++ {
		fmt.Fprintf(&b, "%s:%06d\n", tag, i)
	}
	return b.Bytes()[:size]
}

type leaf struct {
	Digest    string
	Data      []byte
	MediaType string
}

func algOf(o Obj) string {
	if o.T == "blob" && o.N == 6 {
		return "sha512"
	}
	return "sha256"
}

var rawCache = map[Obj][]byte{}

// objRaw returns the bytes and media type of an object.
func objRaw(o Obj) ([]byte, string) {
	o = norm(o)
	mt := objMediaType(o)
	if b, ok := rawCache[o]; ok {
		return b, mt
	}
	var b []byte
	switch o.T {
	case "blob":
		b = pattern(fmt.Sprintf("blob-%d", o.N), blobSizes[o.N])
	case "config":
		b = []byte(fmt.Sprintf(`{"architecture":"amd64","os":"linux","config":{},"rootfs":{"type":"layers","diff_ids":[]},"verif":"image-%d"}`, o.N))
	case "empty":
		b = []byte(`{}`)
	case "payload":
		b = []byte(fmt.Sprintf("payload of artifact %d\n", o.N))
	case "image":
		b = imageManifest(o.N)
	case "index":
		b = indexManifest(o.N)
	case "artifact":
		b = artifactManifest(o.N)
	}
	rawCache[o] = b
	return b, mt
}

func objMediaType(o Obj) string {
	switch o.T {
	case "blob":
		return mtOCILayer
	case "config":
		if o.N == 5 {
			return mtDockerConfig
		}
		return mtOCIConfig
	case "empty":
		return mtEmpty
	case "payload":
		return mtPayload
	case "image":
		if o.N == 5 {
			return mtDockerMan
		}
		return mtOCIManifest
	case "index":
		return mtOCIIndex
	case "artifact":
		return mtOCIManifest
	}
	return ""
}

func objDigest(o Obj) string {
	b, _ := objRaw(o)
	return digestOf(algOf(norm(o)), b)
}

func descJSON(o Obj, mtOverride string, extra string) string {
	b, mt := objRaw(o)
	if mtOverride != "" {
		mt = mtOverride
	}
	return fmt.Sprintf(`{"mediaType":%q,"digest":%q,"size":%d%s}`, mt, objDigest(o), len(b), extra)
}

func imageManifest(j int) []byte {
	var layers []string
	for _, l := range imageLayers[j] {
		lmt := ""
		if j == 5 {
			lmt = mtDockerLayerGz
		}
		layers = append(layers, descJSON(Obj{"blob", l}, lmt, ""))
	}
	if j == 5 {
		return []byte(fmt.Sprintf(`{"schemaVersion":2,"mediaType":%q,"config":%s,"layers":[%s]}`,
			mtDockerMan, descJSON(Obj{"config", j}, "", ""), strings.Join(layers, ",")))
	}
	return []byte(fmt.Sprintf(`{"schemaVersion":2,"mediaType":%q,"config":%s,"layers":[%s],"annotations":{"verif.image":"%d"}}`,
		mtOCIManifest, descJSON(Obj{"config", j}, "", ""), strings.Join(layers, ","), j))
}

func indexManifest(x int) []byte {
	var kids []string
	archs := []string{"amd64", "arm64", "ppc64le"}
	for i, k := range indexKids[x] {
		kids = append(kids, descJSON(k, "", fmt.Sprintf(`,"platform":{"architecture":%q,"os":"linux"}`, archs[i%len(archs)])))
	}
	return []byte(fmt.Sprintf(`{"schemaVersion":2,"mediaType":%q,"manifests":[%s],"annotations":{"verif.index":"%d"}}`,
		mtOCIIndex, strings.Join(kids, ","), x))
}

func artifactManifest(a int) []byte {
	return []byte(fmt.Sprintf(`{"schemaVersion":2,"mediaType":%q,"artifactType":"application/vnd.verif.a%d","config":%s,"layers":[%s],"subject":%s,"annotations":{"verif.artifact":"%d"}}`,
		mtOCIManifest, a, descJSON(Obj{"empty", 0}, "", ""), descJSON(Obj{"payload", a}, "", ""),
		descJSON(artifactSubject[a], "", ""), a))
}

// parts returns the direct blob leaves and the direct child manifests.
func parts(o Obj) (leaves []Obj, kids []Obj) {
	o = norm(o)
	switch o.T {
	case "image":
		leaves = append(leaves, Obj{"config", o.N})
		for _, l := range imageLayers[o.N] {
			leaves = append(leaves, Obj{"blob", l})
		}
	case "index":
		kids = append(kids, indexKids[o.N]...)
	case "artifact":
		leaves = append(leaves, Obj{"empty", 0}, Obj{"payload", o.N})
	}
	return
}

// closureFiles adds every file of the closure of o (o itself included).
func closureFiles(o Obj, into map[string][]byte) {
	o = norm(o)
	b, _ := objRaw(o)
	into[objDigest(o)] = b
	leaves, kids := parts(o)
	for _, l := range leaves {
		lb, _ := objRaw(l)
		into[objDigest(l)] = lb
	}
	for _, k := range kids {
		closureFiles(k, into)
	}
}

// ---------------------------------------------------------------- driver ops

// DrvOp mirrors c07drv's Op (one public-API call).
type DrvOp struct {
	Op         string `json:"op"`
	Tag        string `json:"tag,omitempty"`
	Digest     string `json:"digest,omitempty"`
	MediaType  string `json:"media_type,omitempty"`
	Data       []byte `json:"data,omitempty"`
	NoDesc     bool   `json:"no_desc,omitempty"`
	Child      bool   `json:"child,omitempty"`
	Src        string `json:"src,omitempty"`
	Referrers  bool   `json:"referrers,omitempty"`
	DigestTags bool   `json:"digest_tags,omitempty"`
	Tar        string `json:"tar,omitempty"`
	what       string
}

func blobOp(o Obj, noDesc bool) DrvOp {
	b, _ := objRaw(o)
	return DrvOp{Op: "blob", Digest: objDigest(o), Data: b, NoDesc: noDesc, what: "blob " + norm(o).String()}
}

func manifestOp(o Obj, tag string, child bool) DrvOp {
	b, mt := objRaw(o)
	return DrvOp{Op: "manifest", Tag: tag, Digest: objDigest(o), MediaType: mt, Data: b, Child: child && tag == "",
		what: fmt.Sprintf("manifest %s tag=%q child=%v", norm(o), tag, child && tag == "")}
}

// prereqOps pushes everything a manifest refers to (children first), without
// the manifest itself.
func prereqOps(o Obj, seen map[string]bool) []DrvOp {
	var out []DrvOp
	leaves, kids := parts(o)
	for _, k := range kids {
		if seen[objDigest(k)] {
			continue
		}
		out = append(out, prereqOps(k, seen)...)
		out = append(out, manifestOp(k, "", true))
		seen[objDigest(k)] = true
	}
	for _, l := range leaves {
		if seen[objDigest(l)] {
			continue
		}
		seen[objDigest(l)] = true
		out = append(out, blobOp(l, false))
	}
	return out
}

// ---------------------------------------------------------------- raw writers

type rawEntry struct {
	Tag string
	Obj Obj
	// for entries that are not universe objects (referrer lists)
	Raw []byte
	MT  string
}

func writeFile(p string, b []byte) error {
	if err := os.MkdirAll(filepath.Dir(p), 0o777); err != nil {
		return err
	}
	return os.WriteFile(p, b, 0o666)
}

func blobPath(d string) string {
	i := strings.IndexByte(d, ':')
	return filepath.Join("blobs", d[:i], d[i+1:])
}

func indexJSON(entries []rawEntry) []byte {
	var ents []string
	for _, e := range entries {
		var dg, mt string
		var size int
		if e.Raw != nil {
			dg, mt, size = digestOf("sha256", e.Raw), e.MT, len(e.Raw)
		} else {
			b, m := objRaw(e.Obj)
			dg, mt, size = objDigest(e.Obj), m, len(b)
		}
		ann := ""
		if e.Tag != "" {
			ann = fmt.Sprintf(`,"annotations":{%q:%q}`, refNameAnnot, e.Tag)
		}
		ents = append(ents, fmt.Sprintf(`{"mediaType":%q,"digest":%q,"size":%d%s}`, mt, dg, size, ann))
	}
	return []byte(fmt.Sprintf(`{"schemaVersion":2,"mediaType":%q,"manifests":[%s]}`, mtOCIIndex, strings.Join(ents, ",")))
}

func layoutFiles(entries []rawEntry) map[string][]byte {
	files := map[string][]byte{}
	for _, e := range entries {
		if e.Raw != nil {
			files[digestOf("sha256", e.Raw)] = e.Raw
		} else {
			closureFiles(e.Obj, files)
		}
	}
	return files
}

// writeRawLayout materialises a spec-conformant layout with plain file writes.
func writeRawLayout(dir string, entries []rawEntry, extra map[string][]byte) error {
	if err := writeFile(filepath.Join(dir, "oci-layout"), []byte(`{"imageLayoutVersion":"1.0.0"}`)); err != nil {
		return err
	}
	if err := writeFile(filepath.Join(dir, "index.json"), indexJSON(entries)); err != nil {
		return err
	}
	files := layoutFiles(entries)
	for d, b := range extra {
		files[d] = b
	}
	for d, b := range files {
		if err := writeFile(filepath.Join(dir, blobPath(d)), b); err != nil {
			return err
		}
	}
	return nil
}

// referrersIndex is the content of a referrers fallback tag.
func referrersIndex(arts []Obj) []byte {
	var ents []string
	for _, a := range arts {
		a = norm(a)
		b, mt := objRaw(a)
		ents = append(ents, fmt.Sprintf(`{"mediaType":%q,"digest":%q,"size":%d,"annotations":{"verif.artifact":"%d"},"artifactType":"application/vnd.verif.a%d"}`,
			mt, objDigest(a), len(b), a.N, a.N))
	}
	return []byte(fmt.Sprintf(`{"schemaVersion":2,"mediaType":%q,"manifests":[%s]}`, mtOCIIndex, strings.Join(ents, ",")))
}

func fallbackTag(d string) string { return strings.Replace(d, ":", "-", 1) }

// sourceTags lists the tags of the copy source layout.
func sourceTags() []string {
	var out []string
	for j := 0; j < nImages; j++ {
		out = append(out, fmt.Sprintf("i%d", j))
	}
	for x := 0; x < nIndexes; x++ {
		out = append(out, fmt.Sprintf("x%d", x))
	}
	for a := 0; a < nArtifacts; a++ {
		out = append(out, fmt.Sprintf("a%d", a))
	}
	return out
}

// writeSourceLayout builds the layout ImageCopy reads from: every image,
// index and artifact under a tag (i<n>, x<n>, a<n>), referrers (fallback tags) for image0, index0 and
// artifact0, and one digest tag.
func writeSourceLayout(dir string) error {
	var ents []rawEntry
	for j := 0; j < nImages; j++ {
		ents = append(ents, rawEntry{Tag: fmt.Sprintf("i%d", j), Obj: Obj{"image", j}})
	}
	for x := 0; x < nIndexes; x++ {
		ents = append(ents, rawEntry{Tag: fmt.Sprintf("x%d", x), Obj: Obj{"index", x}})
	}
	for a := 0; a < nArtifacts; a++ {
		ents = append(ents, rawEntry{Tag: fmt.Sprintf("a%d", a), Obj: Obj{"artifact", a}})
	}
	extra := map[string][]byte{}
	bySubject := map[string][]Obj{}
	var subjects []string
	for a := 0; a < nArtifacts; a++ {
		sd := objDigest(artifactSubject[a])
		if _, ok := bySubject[sd]; !ok {
			subjects = append(subjects, sd)
		}
		bySubject[sd] = append(bySubject[sd], Obj{"artifact", a})
		closureFiles(Obj{"artifact", a}, extra)
	}
	sort.Strings(subjects)
	for _, sd := range subjects {
		ents = append(ents, rawEntry{Tag: fallbackTag(sd), Raw: referrersIndex(bySubject[sd]), MT: mtOCIIndex})
	}
	// a cosign-style digest tag on image1 -> image2
	ents = append(ents, rawEntry{Tag: fallbackTag(objDigest(Obj{"image", 1})) + ".sig", Obj: Obj{"image", 2}})
	return writeRawLayout(dir, ents, extra)
}

// writeLayoutTar writes an OCI-layout tar holding one tagged object.
func writeLayoutTar(path string, o Obj, tag string) error {
	ents := []rawEntry{{Tag: tag, Obj: o}}
	files := layoutFiles(ents)
	var buf bytes.Buffer
	tw := tar.NewWriter(&buf)
	add := func(name string, b []byte) error {
		if err := tw.WriteHeader(&tar.Header{Name: name, Mode: 0o644, Size: int64(len(b)), Typeflag: tar.TypeReg}); err != nil {
			return err
		}
		_, err := tw.Write(b)
		return err
	}
	if err := add("oci-layout", []byte(`{"imageLayoutVersion":"1.0.0"}`)); err != nil {
		return err
	}
	if err := add("index.json", indexJSON(ents)); err != nil {
		return err
	}
	for _, d := range sortedKeys(files) {
		if err := add(filepath.ToSlash(blobPath(d)), files[d]); err != nil {
			return err
		}
	}
	if err := tw.Close(); err != nil {
		return err
	}
	return os.WriteFile(path, buf.Bytes(), 0o644)
}
