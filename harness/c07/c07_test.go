package c07

// C07 — An OCI layout survives a crash at any point of any write.
//
// A script (pre-history + 1..3 victim operations, all executed through the
// public regclient API by the separate driver binary c07drv) is run
//   - once uninterrupted in step mode: the independent reader (layout.go)
//     snapshots the directory at every operation boundary (S_0 = pre … S_m),
//   - once under the ptrace supervisor crashrun in count mode: N = number of
//     file-system mutating system calls of the victim and their descriptions,
//   - once per chosen crash position k in kill mode: SIGKILL on entry to the
//     k-th mutating call. The surviving directory is judged by the independent
//     reader (clauses 1-4, 6), by a fresh client process (clause 5) and by
//     re-running the interrupted suffix (clause 7).

import (
	"bufio"
	"bytes"
	"context"
	"encoding/json"
	"errors"
	"fmt"
	"io"
	"os"
	"os/exec"
	"path/filepath"
	"sort"
	"strconv"
	"strings"
	"testing"
	"time"

	"pgregory.net/rapid"

	"github.com/regclient/regclient/zz_verif/evid"
)

const prop = "C07"

func TestMain(m *testing.M) {
	code := m.Run()
	if theEnv != nil {
		_ = os.RemoveAll(theEnv.work)
	}
	evid.Flush(code)
	os.Exit(code)
}

// ------------------------------------------------------------------ the Case

// Op is one generated operation (data only; interpreted by expand).
type Op struct {
	Kind       string `json:"kind"` // blob | put | tagdel | mandel | close | copy | import | blobdel
	Obj        Obj    `json:"obj"`
	Tag        string `json:"tag,omitempty"`         // put: "" = by digest; tagdel; copy/import: target tag
	Child      bool   `json:"child,omitempty"`       // put by digest WithManifestChild (no index entry)
	Deep       bool   `json:"deep,omitempty"`        // pre-history only: push the closure first
	NoDesc     bool   `json:"no_desc,omitempty"`     // blob put with an empty descriptor
	Src        string `json:"src,omitempty"`         // copy: tag in the source layout
	Referrers  bool   `json:"referrers,omitempty"`   // copy option
	DigestTags bool   `json:"digest_tags,omitempty"` // copy option
	// dimensions added by the generator-domain audit
	RefForm   string `json:"ref_form,omitempty"`   // put: tag+digest | bare (default tag latest); mandel: tag+digest; copy/import: digest
	Ctx       string `json:"ctx,omitempty"`        // cancelled: the call gets an already cancelled context
	Desc      string `json:"desc,omitempty"`       // blob: none | digest-only | size-only | wrong-digest | wrong-size
	Force     bool   `json:"force,omitempty"`      // copy: ImageWithForceRecursive
	Fast      bool   `json:"fast,omitempty"`       // copy: ImageWithFastCheck
	Platform  string `json:"platform,omitempty"`   // copy: ImageWithPlatforms
	Self      bool   `json:"self,omitempty"`       // copy: the source is a tag (Src) of the layout itself (retag)
	TarStyle  string `json:"tar_style,omitempty"`  // import: reversed | gzip | multi | docker
	CheckRefs bool   `json:"check_refs,omitempty"` // mandel: WithManifestCheckReferrers
}

// KSel selects the crash positions.
type KSel struct {
	Mode  string `json:"mode"`            // all | sample | exact
	Ks    []int  `json:"ks,omitempty"`    // exact
	Picks []int  `json:"picks,omitempty"` // sample: every targeted position (bounded) + these (1 + p mod N)
}

// Case is one script plus its crash positions.
type Case struct {
	Pre       []Op   `json:"pre"`
	Victim    []Op   `json:"victim"`
	Prep      bool   `json:"prep"`       // push what the victim's manifests refer to at the end of the pre-history
	DirExists bool   `json:"dir_exists"` // the layout directory exists (empty) before the first operation
	K         KSel   `json:"k"`
	Seed      string `json:"seed,omitempty"`     // a layout written by another tool exists before the first operation (seedStyles)
	RelPath   bool   `json:"rel_path,omitempty"` // the client names the layout by a relative path (ocidir://lay)
}

var tagPool = []string{"v1", "v2", "latest", "a.b-c_d"}

func kindOf(op Op) string {
	switch op.Kind {
	case "put":
		o := norm(op.Obj)
		if o.T == "artifact" {
			return "put-referrer"
		}
		if op.Tag != "" || op.RefForm == "bare" {
			return "put-tagged"
		}
		if op.Child {
			return "put-child"
		}
		return "put-untagged"
	case "blob", "tagdel", "mandel", "close", "copy", "import", "blobdel":
		return op.Kind
	}
	return "close"
}

// ------------------------------------------------------------------ generator

// pick draws an index in [0,n) that is close to uniform. rapid's own integer
// and SampledFrom draws are deliberately biased towards small values (about
// 40% of IntRange(0,99) draws are below 10), which would starve the later
// alternatives of every weighted choice; a multiplicative hash of a drawn
// word spreads them out again and still shrinks to alternative 0.
func pick(t *rapid.T, label string, n int) int {
	x := rapid.Uint64().Draw(t, label)
	return int(((x * 0x9E3779B97F4A7C15) >> 33) % uint64(n))
}

// weighted picks an alternative by weight.
func weighted(t *rapid.T, label string, names []string, weights []int) string {
	total := 0
	for _, w := range weights {
		total += w
	}
	x := pick(t, label, total)
	for i, w := range weights {
		if x < w {
			return names[i]
		}
		x -= w
	}
	return names[0]
}

func genObj(t *rapid.T) Obj {
	switch weighted(t, "objtype", []string{"image", "index", "artifact"}, []int{45, 25, 30}) {
	case "image":
		return Obj{"image", pick(t, "img", nImages)}
	case "index":
		return Obj{"index", pick(t, "idx", nIndexes)}
	}
	return Obj{"artifact", pick(t, "art", nArtifacts)}
}

func genOp(t *rapid.T, pre bool, seenTags []string, seenObjs []Obj) Op {
	pickTag := func() string {
		if len(seenTags) > 0 && pick(t, "usetag", 10) < 7 {
			return seenTags[pick(t, "seentag", len(seenTags))]
		}
		return tagPool[pick(t, "tag", len(tagPool))]
	}
	kinds := []string{"put", "blob", "tagdel", "mandel", "close", "copy", "import", "blobdel"}
	w := []int{36, 9, 9, 10, 7, 14, 12, 3}
	if pre {
		w = []int{50, 6, 7, 7, 4, 14, 10, 2}
	}
	var op Op
	switch weighted(t, "kind", kinds, w) {
	case "blob":
		o := Obj{"blob", pick(t, "blob", nBlobs)}
		if pick(t, "cfgblob", 6) == 0 {
			o = Obj{"config", pick(t, "cfg", nImages)}
		}
		switch pick(t, "smallblob", 8) {
		case 0:
			o = Obj{"empty", 0}
		case 1:
			o = Obj{"payload", pick(t, "payload", nArtifacts)}
		}
		op = Op{Kind: "blob", Obj: o, Desc: weighted(t, "blobdesc",
			[]string{"", "none", "digest-only", "size-only", "wrong-digest", "wrong-size", "inline"}, []int{34, 18, 10, 10, 7, 7, 14})}
	case "blobdel":
		op = Op{Kind: "blobdel", Obj: Obj{"blob", pick(t, "blob", nBlobs)}}
	case "put":
		op = Op{Kind: "put", Obj: genObj(t), Deep: pre}
		switch weighted(t, "putmode", []string{"tag", "digest", "child", "tag+digest", "bare"}, []int{50, 16, 16, 11, 7}) {
		case "tag":
			op.Tag = pickTag()
		case "child":
			op.Child = true
		case "tag+digest":
			op.Tag, op.RefForm = pickTag(), "tag+digest"
		case "bare":
			op.RefForm = "bare"
		}
	case "tagdel":
		op = Op{Kind: "tagdel", Tag: pickTag()}
	case "mandel":
		var o Obj
		if len(seenObjs) > 0 && pick(t, "useobj", 10) < 8 {
			o = seenObjs[pick(t, "seenobj", len(seenObjs))]
		} else {
			o = genObj(t)
		}
		op = Op{Kind: "mandel", Obj: o, CheckRefs: pick(t, "checkrefs", 5) == 0}
		if pick(t, "mandelref", 7) == 0 {
			op.Tag, op.RefForm = pickTag(), "tag+digest"
		}
	case "close":
		op = Op{Kind: "close"}
	case "copy":
		src := sourceTags()
		op = Op{Kind: "copy", Src: src[pick(t, "src", len(src))], Tag: pickTag(),
			Referrers: pick(t, "referrers", 3) == 0, DigestTags: pick(t, "digesttags", 5) == 0,
			Force: pick(t, "force", 5) == 0, Fast: pick(t, "fast", 10) == 0}
		if pick(t, "platform", 10) == 0 {
			op.Platform = "linux/amd64"
		}
		switch weighted(t, "copyform", []string{"", "self", "digest"}, []int{80, 12, 8}) {
		case "self":
			op.Self, op.Src = true, pickTag()
		case "digest":
			op.RefForm = "digest"
		}
	default:
		o := Obj{"image", pick(t, "img", nImages)}
		if pick(t, "impidx", 3) == 0 {
			o = Obj{"index", pick(t, "idx", nIndexes)}
		}
		op = Op{Kind: "import", Obj: o, Tag: pickTag(),
			TarStyle: weighted(t, "tarstyle", []string{"", "reversed", "gzip", "multi", "docker"}, []int{40, 15, 15, 15, 15})}
		if op.TarStyle != "docker" && pick(t, "importref", 12) == 0 {
			op.RefForm = "digest"
		}
	}
	// A cancelled context is only drawn for the single-call operations: what ImageCopy / ImageImport do
	// with one depends on which goroutine notices it first, so an uninterrupted run is no reference for them.
	if !pre && op.Kind != "copy" && op.Kind != "import" && pick(t, "ctx", 15) == 0 {
		op.Ctx = "cancelled"
	}
	return op
}

// srcObj maps a tag of the copy source layout to its object.
func srcObj(src string) (Obj, bool) {
	if len(src) < 2 {
		return Obj{}, false
	}
	var n int
	if _, err := fmt.Sscanf(src[1:], "%d", &n); err != nil {
		return Obj{}, false
	}
	switch src[0] {
	case 'i':
		return norm(Obj{"image", n}), true
	case 'x':
		return norm(Obj{"index", n}), true
	case 'a':
		return norm(Obj{"artifact", n}), true
	}
	return Obj{}, false
}

func gen(t *rapid.T) Case {
	c := Case{
		Prep:      pick(t, "prep", 10) != 0,
		DirExists: rapid.Bool().Draw(t, "direxists"),
		RelPath:   pick(t, "relpath", 4) == 0,
	}
	var tags []string
	var objs []Obj
	if pick(t, "seeded", 4) == 0 {
		c.Seed = seedStyles[pick(t, "seedstyle", len(seedStyles))]
		tags = append(tags, "v1", "v2")
		objs = append(objs, Obj{"image", 0}, Obj{"index", 0}, Obj{"image", 1})
	}
	note := func(op Op) {
		if op.Tag != "" && op.Kind != "tagdel" {
			tags = append(tags, op.Tag)
		}
		if op.Kind == "put" || op.Kind == "import" {
			objs = append(objs, op.Obj)
		}
		if op.Kind == "copy" && !op.Self {
			if o, ok := srcObj(op.Src); ok {
				objs = append(objs, o)
			}
		}
	}
	nPre := []int{0, 1, 2, 2, 3, 3, 4, 4, 5, 6}[pick(t, "npre", 10)]
	for i := 0; i < nPre; i++ {
		op := genOp(t, true, tags, objs)
		c.Pre = append(c.Pre, op)
		note(op)
	}
	nVic := []int{1, 1, 1, 2, 2, 3}[pick(t, "nvictim", 6)]
	for i := 0; i < nVic; i++ {
		op := genOp(t, false, tags, objs)
		c.Victim = append(c.Victim, op)
		note(op)
	}
	// every regctl / regsync / regbot command ends with rc.Close (GC) in the same process
	if last := c.Victim[len(c.Victim)-1]; last.Kind != "close" && len(c.Victim) < 3 && pick(t, "thenclose", 4) == 0 {
		c.Victim = append(c.Victim, Op{Kind: "close"})
	}
	if evid.Tier() == "thorough" {
		c.K = KSel{Mode: "all"}
	} else {
		c.K = KSel{Mode: "sample"}
		for i := 0; i < 5; i++ {
			c.K.Picks = append(c.K.Picks, pick(t, "kpick", 10000))
		}
	}
	return c
}

// dims lists the audited dimensions a case exercises (evidence labels).
func dims(c Case) []string {
	set := map[string]bool{}
	if c.Seed != "" {
		set["dim:seed="+c.Seed] = true
	} else {
		set["dim:seed=none"] = true
	}
	if c.RelPath {
		set["dim:relative-path"] = true
	}
	for i, op := range c.Victim {
		if i > 0 && op.Kind == "close" && c.Victim[i-1].Kind != "close" {
			set["dim:victim-op-then-close"] = true
		}
	}
	all := append(append([]Op{}, c.Pre...), c.Victim...)
	for i, op := range all {
		vic := i >= len(c.Pre)
		o := norm(op.Obj)
		add := func(l string) {
			if vic {
				set["dim:"+l] = true
			}
		}
		if op.Ctx != "" {
			add("ctx=" + op.Ctx)
		}
		switch op.Kind {
		case "blob":
			d := op.Desc
			if op.NoDesc {
				d = "none"
			}
			if d == "" {
				d = "full"
			}
			add("blob-desc=" + d)
			if o.T == "blob" {
				add(fmt.Sprintf("blob-size=%d", blobSizes[mod(o.N, nBlobs)]))
				if algOf(o) == "sha512" {
					add("blob-sha512")
				}
			}
		case "put":
			switch {
			case op.RefForm != "":
				add("put-ref=" + op.RefForm)
			case op.Tag != "":
				add("put-ref=tag")
			case op.Child:
				add("put-ref=digest-child")
			default:
				add("put-ref=digest")
			}
			add("put-mediatype=" + strings.TrimPrefix(objMediaType(o), "application/vnd."))
			if o.T == "artifact" {
				add("referrer-subject=" + norm(artifactSubject[o.N]).T)
			}
			if algOf(o) == "sha512" {
				add("manifest-sha512")
			}
			if (o.T == "image" && o.N == 6) || (o.T == "index" && o.N == 5) {
				add("duplicate-entries-in-manifest")
			}
			if inlineData(o) {
				add("inline-data-descriptors:put")
			}
		case "mandel":
			if op.RefForm != "" {
				add("mandel-ref=" + op.RefForm)
			}
			if op.CheckRefs {
				add("mandel-check-referrers")
			}
			add("mandel-of=" + o.T)
		case "copy":
			for _, f := range []struct {
				on bool
				l  string
			}{{op.Referrers, "referrers"}, {op.DigestTags, "digest-tags"}, {op.Force, "force-recursive"}, {op.Fast, "fast-check"},
				{op.Platform != "", "platforms"}, {op.Self, "self-retag"}, {op.RefForm == "digest", "to-digest"}} {
				if f.on {
					add("copy-" + f.l)
				}
			}
			if so, ok := srcObj(op.Src); ok && !op.Self {
				add("copy-of=" + so.T)
				if inlineData(so) {
					add("inline-data-descriptors:copy")
				}
			}
		case "import":
			st := op.TarStyle
			if st == "" {
				st = "oci-ordered"
			}
			add("import-tar=" + st)
			if op.RefForm == "digest" {
				add("import-to-digest")
			}
			if inlineData(o) && op.TarStyle != "docker" {
				add("inline-data-descriptors:import")
			}
		}
	}
	return sortedKeys(set)
}

// ------------------------------------------------------------------ environment

type env struct {
	drv, crashrun string
	work          string // scratch root
	src           string // source layout for ImageCopy
	tars          map[string]string
	n             int
}

var (
	theEnv *env
	envErr error
)

func getEnv() (*env, error) {
	if theEnv != nil || envErr != nil {
		return theEnv, envErr
	}
	e := &env{drv: os.Getenv("VERIF_BIN_DRV"), crashrun: os.Getenv("VERIF_BIN_CRASHRUN"), tars: map[string]string{}}
	if e.drv == "" || e.crashrun == "" {
		envErr = errors.New("VERIF_BIN_DRV / VERIF_BIN_CRASHRUN not set (run through run.py)")
		return nil, envErr
	}
	w, err := os.MkdirTemp("", "c07-")
	if err != nil {
		envErr = err
		return nil, err
	}
	// the supervisor compares path prefixes: use the canonical name
	if w2, err := filepath.EvalSymlinks(w); err == nil {
		w = w2
	}
	e.work = w
	// private copies of the tools: another run.py of this property may rebuild
	// (remove + re-link) the shared binaries while this process is still running
	for _, b := range []*string{&e.drv, &e.crashrun} {
		data, err := os.ReadFile(*b)
		if err != nil {
			envErr = err
			return nil, err
		}
		p := filepath.Join(w, "bin-"+filepath.Base(*b))
		if err := os.WriteFile(p, data, 0o755); err != nil {
			envErr = err
			return nil, err
		}
		*b = p
	}
	e.src = filepath.Join(w, "source")
	if err := writeSourceLayout(e.src); err != nil {
		envErr = err
		return nil, err
	}
	theEnv = e
	return e, nil
}

func (e *env) tarFor(o Obj, tag string, style string) (string, error) {
	o = norm(o)
	key := o.String() + "@" + tag + "/" + style
	if p, ok := e.tars[key]; ok {
		return p, nil
	}
	p := filepath.Join(e.work, fmt.Sprintf("tar-%d.tar", len(e.tars)))
	if err := writeLayoutTar(p, o, tag, style); err != nil {
		return "", err
	}
	e.tars[key] = p
	return p, nil
}

// expand turns generated ops into public-API calls. dir is the layout as the
// client names it (absolute or relative).
func expand(c Case, e *env, dir string) (pre, victim []DrvOp, kinds []string, err error) {
	one := func(op Op, deep bool) ([]DrvOp, error) {
		var out []DrvOp
		var last DrvOp
		switch op.Kind {
		case "blob":
			o := norm(op.Obj)
			if isManifestObj(o) {
				o = Obj{"blob", mod(o.N, nBlobs)}
			}
			last = blobOp(o, op.NoDesc)
			switch op.Desc {
			case "none", "digest-only", "size-only", "wrong-digest", "wrong-size", "inline":
				last.DescMode = op.Desc
				last.what += " desc=" + op.Desc
			}
		case "blobdel":
			o := norm(op.Obj)
			if isManifestObj(o) {
				o = Obj{"blob", mod(o.N, nBlobs)}
			}
			last = DrvOp{Op: "blobdel", Digest: objDigest(o), what: "blobdel " + o.String()}
		case "put":
			o := norm(op.Obj)
			if !isManifestObj(o) {
				o = Obj{"image", mod(o.N, nImages)}
			}
			if deep {
				out = append(out, prereqOps(o, map[string]bool{})...)
			}
			last = manifestOp(o, op.Tag, op.Child)
			switch {
			case op.RefForm == "tag+digest" && op.Tag != "":
				last.RefForm = "tag+digest"
				last.what += " ref=tag+digest"
			case op.RefForm == "bare" && op.Tag == "":
				last.RefForm, last.Child = "bare", false
				last.what += " ref=bare(latest)"
			}
		case "tagdel":
			tag := op.Tag
			if tag == "" {
				tag = "latest"
			}
			last = DrvOp{Op: "tagdel", Tag: tag, what: "tagdel " + tag}
		case "mandel":
			o := norm(op.Obj)
			if !isManifestObj(o) {
				o = Obj{"image", mod(o.N, nImages)}
			}
			last = DrvOp{Op: "mandel", Digest: objDigest(o), CheckRefs: op.CheckRefs, what: "mandel " + o.String()}
			if op.RefForm == "tag+digest" && op.Tag != "" {
				last.Tag, last.RefForm = op.Tag, "tag+digest"
				last.what += " ref=" + op.Tag + "+digest"
			}
		case "copy":
			tag := op.Tag
			if tag == "" {
				tag = "latest"
			}
			src := op.Src
			var from string
			if op.Self {
				if src == "" {
					src = "latest"
				}
				from = "ocidir://" + dir + ":" + src
			} else {
				if _, ok := srcObj(src); !ok {
					src = "i0"
				}
				ok := false
				for _, s := range sourceTags() {
					ok = ok || s == src
				}
				if !ok {
					src = "i0"
				}
				from = "ocidir://" + e.src + ":" + src
			}
			last = DrvOp{Op: "copy", Src: from, Tag: tag, Referrers: op.Referrers, DigestTags: op.DigestTags,
				Force: op.Force, Fast: op.Fast, Platform: op.Platform,
				what: fmt.Sprintf("copy %s->%s referrers=%v digesttags=%v force=%v fast=%v platform=%q self=%v", src, tag, op.Referrers, op.DigestTags, op.Force, op.Fast, op.Platform, op.Self)}
			if so, ok := srcObj(src); ok && !op.Self && op.RefForm == "digest" {
				last.RefForm, last.Digest = "digest", objDigest(so)
				last.what += " to-digest"
			}
		case "import":
			o := norm(op.Obj)
			if o.T != "image" && o.T != "index" {
				o = Obj{"image", mod(o.N, nImages)}
			}
			tag := op.Tag
			if tag == "" {
				tag = "latest"
			}
			style := ""
			switch op.TarStyle {
			case "reversed", "gzip", "multi":
				style = op.TarStyle
			case "docker":
				if o.T == "image" {
					style = "docker"
				}
			}
			p, err := e.tarFor(o, tag, style)
			if err != nil {
				return nil, err
			}
			last = DrvOp{Op: "import", Tar: p, Tag: tag, what: fmt.Sprintf("import %s as %s tar=%q", o, tag, style)}
			if style == "multi" {
				last.ImportName = tag
			}
			if style != "docker" && op.RefForm == "digest" {
				last.RefForm, last.Digest = "digest", objDigest(o)
				last.what += " to-digest"
			}
		default:
			last = DrvOp{Op: "close", what: "close"}
		}
		if op.Ctx == "cancelled" && op.Kind != "copy" && op.Kind != "import" {
			last.Ctx = "cancelled"
			last.what += " ctx=cancelled"
		}
		return append(out, last), nil
	}
	for _, op := range c.Pre {
		ops, err := one(op, op.Deep)
		if err != nil {
			return nil, nil, nil, err
		}
		pre = append(pre, ops...)
	}
	if c.Prep {
		seen := map[string]bool{}
		for _, op := range c.Victim {
			if op.Kind == "put" {
				o := norm(op.Obj)
				if isManifestObj(o) {
					pre = append(pre, prereqOps(o, seen)...)
				}
			}
		}
	}
	for _, op := range c.Victim {
		ops, err := one(op, false)
		if err != nil {
			return nil, nil, nil, err
		}
		victim = append(victim, ops[len(ops)-1])
		kinds = append(kinds, kindOf(op))
	}
	return pre, victim, kinds, nil
}

// ------------------------------------------------------------------ process runs

type script struct {
	Dir       string  `json:"dir"`
	Pre       []DrvOp `json:"pre"`
	Victim    []DrvOp `json:"victim"`
	From      int     `json:"from"`
	Step      bool    `json:"step"`
	ReadCheck bool    `json:"readcheck"`
}

type outcome struct {
	Idx int
	OK  bool
	Msg string
}

type readCheck struct {
	ListErr string            `json:"list_err"`
	Tags    map[string]string `json:"tags"`
	GetErr  map[string]string `json:"get_err"`
}

type drvResult struct {
	Started  bool
	Outcomes []outcome
	PreErrs  []string
	RC       *readCheck
	Ended    bool
	Stderr   string
	Raw      string
}

type call struct {
	N     int    `json:"n"`
	Tid   int    `json:"tid"`
	Kind  string `json:"kind"`
	Path  string `json:"path"`
	Path2 string `json:"path2"`
	Flags string `json:"flags"`
	Len   int64  `json:"len"`
}

func (c call) String() string {
	s := c.Kind + " " + c.Path
	if c.Path2 != "" {
		s += " -> " + c.Path2
	}
	if c.Flags != "" {
		s += " [" + c.Flags + "]"
	}
	if c.Kind == "write" {
		s += fmt.Sprintf(" len=%d", c.Len)
	}
	return s
}

type supResult struct {
	Calls    []call
	Killed   bool
	KilledAt int
	Count    int
	Marker   bool
	Exit     int
	Note     string
}

// errInconclusive marks infrastructure trouble (timeouts, tools dying): never a violation.
type errInconclusive struct{ msg string }

func (e *errInconclusive) Error() string { return "INCONCLUSIVE: " + e.msg }

func inconclusive(f string, a ...any) error { return &errInconclusive{fmt.Sprintf(f, a...)} }

const procTimeout = 150 * time.Second

func parseDrv(out string, res *drvResult) {
	res.Raw = out
	for _, line := range strings.Split(out, "\n") {
		f := strings.SplitN(line, " ", 3)
		switch f[0] {
		case "START-VICTIM":
			res.Started = true
		case "END":
			res.Ended = true
		case "DONE", "ERR":
			if len(f) < 2 {
				continue
			}
			i, _ := strconv.Atoi(f[1])
			o := outcome{Idx: i, OK: f[0] == "DONE"}
			if len(f) > 2 {
				o.Msg = f[2]
			}
			res.Outcomes = append(res.Outcomes, o)
		case "PRE-ERR":
			res.PreErrs = append(res.PreErrs, line)
		case "READCHECK":
			var rc readCheck
			if json.Unmarshal([]byte(strings.TrimPrefix(line, "READCHECK ")), &rc) == nil {
				res.RC = &rc
			}
		}
	}
}

func drvEnv() []string {
	return append(os.Environ(), "GOMAXPROCS=2", "GOGC=off")
}

func (e *env) writeScript(sc script) (string, error) {
	e.n++
	p := filepath.Join(e.work, "script.json")
	b, err := json.Marshal(sc)
	if err != nil {
		return "", err
	}
	return p, os.WriteFile(p, b, 0o644)
}

// runPlain runs the driver without supervisor and without stepping.
func (e *env) runPlain(sc script) (*drvResult, error) {
	p, err := e.writeScript(sc)
	if err != nil {
		return nil, err
	}
	ctx, cancel := context.WithTimeout(context.Background(), procTimeout)
	defer cancel()
	cmd := exec.CommandContext(ctx, e.drv, p)
	cmd.Env = drvEnv()
	cmd.Dir = e.work
	var so, se bytes.Buffer
	cmd.Stdout, cmd.Stderr = &so, &se
	err = cmd.Run()
	if ctx.Err() != nil {
		return nil, inconclusive("driver timed out after %v", procTimeout)
	}
	res := &drvResult{Stderr: tail(se.String(), 1500)}
	parseDrv(so.String(), res)
	if err != nil && !res.Started {
		return nil, inconclusive("driver failed before the victim: %v\n%s", err, res.Stderr)
	}
	return res, nil
}

// runStep runs the driver uninterrupted and calls snap at START-VICTIM and
// after every victim op.
func (e *env) runStep(sc script, snap func()) (*drvResult, error) {
	sc.Step = true
	p, err := e.writeScript(sc)
	if err != nil {
		return nil, err
	}
	ctx, cancel := context.WithTimeout(context.Background(), procTimeout)
	defer cancel()
	cmd := exec.CommandContext(ctx, e.drv, p)
	cmd.Env = drvEnv()
	cmd.Dir = e.work
	var se bytes.Buffer
	cmd.Stderr = &se
	stdin, err := cmd.StdinPipe()
	if err != nil {
		return nil, err
	}
	stdout, err := cmd.StdoutPipe()
	if err != nil {
		return nil, err
	}
	if err := cmd.Start(); err != nil {
		return nil, inconclusive("cannot start driver: %v", err)
	}
	var all strings.Builder
	rd := bufio.NewReader(stdout)
	for {
		line, err := rd.ReadString('\n')
		all.WriteString(line)
		if strings.HasPrefix(line, "START-VICTIM") || strings.HasPrefix(line, "DONE ") || strings.HasPrefix(line, "ERR ") {
			snap()
			_, _ = io.WriteString(stdin, "\n")
		}
		if err != nil {
			break
		}
	}
	_ = stdin.Close()
	werr := cmd.Wait()
	if ctx.Err() != nil {
		return nil, inconclusive("driver (step mode) timed out after %v", procTimeout)
	}
	res := &drvResult{Stderr: tail(se.String(), 1500)}
	parseDrv(all.String(), res)
	if werr != nil || !res.Ended {
		return nil, inconclusive("uninterrupted reference run did not finish: %v\n%s\n%s", werr, tail(all.String(), 800), res.Stderr)
	}
	return res, nil
}

// runSupervised runs the driver under crashrun (k = 0: count mode).
func (e *env) runSupervised(sc script, k int) (*drvResult, *supResult, error) {
	p, err := e.writeScript(sc)
	if err != nil {
		return nil, nil, err
	}
	rep := filepath.Join(e.work, "report.jsonl")
	_ = os.Remove(rep)
	ctx, cancel := context.WithTimeout(context.Background(), procTimeout)
	defer cancel()
	cmd := exec.CommandContext(ctx, e.crashrun, "-dir", filepath.Join(e.work, filepath.Base(sc.Dir)), "-k", strconv.Itoa(k), "-report", rep, "--", e.drv, p)
	cmd.Env = drvEnv()
	cmd.Dir = e.work
	var so, se bytes.Buffer
	cmd.Stdout, cmd.Stderr = &so, &se
	err = cmd.Run()
	if ctx.Err() != nil {
		return nil, nil, inconclusive("supervised run timed out after %v (k=%d)", procTimeout, k)
	}
	if err != nil {
		return nil, nil, inconclusive("supervisor failed: %v\n%s", err, tail(se.String(), 1500))
	}
	res := &drvResult{Stderr: tail(se.String(), 1500)}
	parseDrv(so.String(), res)
	sup := &supResult{}
	rb, err := os.ReadFile(rep)
	if err != nil {
		return nil, nil, inconclusive("no supervisor report: %v", err)
	}
	gotEnd := false
	for _, line := range bytes.Split(rb, []byte("\n")) {
		if len(line) == 0 {
			continue
		}
		var probe struct {
			End      bool   `json:"end"`
			Killed   bool   `json:"killed"`
			KilledAt int    `json:"killed_at"`
			Count    int    `json:"count"`
			Marker   bool   `json:"marker_seen"`
			Exit     int    `json:"exit_code"`
			Note     string `json:"note"`
		}
		if json.Unmarshal(line, &probe) != nil {
			return nil, nil, inconclusive("bad supervisor report line %q", line)
		}
		if probe.End {
			gotEnd = true
			sup.Killed, sup.KilledAt, sup.Count, sup.Marker, sup.Exit, sup.Note = probe.Killed, probe.KilledAt, probe.Count, probe.Marker, probe.Exit, probe.Note
			continue
		}
		var c call
		_ = json.Unmarshal(line, &c)
		sup.Calls = append(sup.Calls, c)
	}
	if !gotEnd || !sup.Marker {
		return nil, nil, inconclusive("supervisor report incomplete (end=%v marker=%v note=%q)\n%s\n%s", gotEnd, sup.Marker, sup.Note, tail(so.String(), 500), res.Stderr)
	}
	if !sup.Killed && (!res.Ended || sup.Exit != 0) {
		return nil, nil, inconclusive("driver under supervisor did not finish (exit=%d)\n%s\n%s", sup.Exit, tail(so.String(), 500), res.Stderr)
	}
	return res, sup, nil
}

func tail(s string, n int) string {
	if len(s) > n {
		return "…" + s[len(s)-n:]
	}
	return s
}

func copyTree(src, dst string) error {
	return filepath.Walk(src, func(p string, fi os.FileInfo, err error) error {
		if err != nil {
			return err
		}
		rel, _ := filepath.Rel(src, p)
		if fi.IsDir() {
			return os.MkdirAll(filepath.Join(dst, rel), 0o777)
		}
		b, err := os.ReadFile(p)
		if err != nil {
			return err
		}
		return os.WriteFile(filepath.Join(dst, rel), b, 0o666)
	})
}

// ------------------------------------------------------------------ crash-position selection

func fileClass(p string) string {
	switch {
	case p == "oci-layout":
		return "oci-layout"
	case p == "index.json":
		return "index.json"
	case strings.HasPrefix(p, "index.json.") && strings.HasSuffix(p, ".tmp"):
		return "index-tmp"
	case p == "." || p == "blobs" || p == "blobs/sha256" || p == "blobs/sha512":
		return "dir"
	case strings.HasPrefix(p, "blobs/") && strings.HasSuffix(p, ".tmp"):
		return "blob-tmp"
	case strings.HasPrefix(p, "blobs/"):
		f := strings.Split(p, "/")
		if len(f) == 3 && wellFormedHex(f[1], f[2]) {
			return "blob"
		}
	}
	return "other"
}

func sysClass(c call) string {
	cl := fileClass(c.Path)
	if c.Kind == "rename" {
		cl = fileClass(c.Path2)
	}
	k := c.Kind
	if k == "open" {
		switch {
		case strings.Contains(c.Flags, "O_TRUNC"):
			k = "open-trunc"
		case strings.Contains(c.Flags, "O_CREAT"):
			k = "open-creat"
		default:
			k = "open-write"
		}
	}
	return k + ":" + cl
}

// windowOf names the crash window a kill on entry to calls[k-1] falls into.
func windowOf(calls []call, k int) string {
	if k < 1 || k > len(calls) {
		return ""
	}
	cur := calls[k-1]
	if k >= 2 {
		prev := calls[k-2]
		if prev.Kind == "open" && cur.Kind == "write" && prev.Path == cur.Path {
			switch fileClass(prev.Path) {
			case "oci-layout":
				return "marker-open..write"
			case "index.json":
				return "index-open..write"
			case "index-tmp":
				return "indextmp-open..write"
			case "blob-tmp":
				return "blobtmp-open..write"
			case "blob":
				return "blob-open..write"
			}
		}
		if prev.Kind == "write" && cur.Kind == "write" && prev.Path == cur.Path {
			return "mid-write:" + fileClass(cur.Path)
		}
	}
	if cur.Kind == "rename" && fileClass(cur.Path2) == "index.json" {
		// anything renamed into blobs/ since the previous index rename?
		for i := k - 2; i >= 0; i-- {
			if calls[i].Kind == "rename" && fileClass(calls[i].Path2) == "index.json" {
				break
			}
			if calls[i].Kind == "rename" && fileClass(calls[i].Path2) == "blob" {
				return "blob-rename..index-rename"
			}
		}
		return "before-index-rename"
	}
	if k >= 2 && calls[k-2].Kind == "rename" && fileClass(calls[k-2].Path2) == "blob" {
		return "after-blob-rename"
	}
	if k >= 2 && calls[k-2].Kind == "rename" && fileClass(calls[k-2].Path2) == "index.json" {
		return "after-index-rename"
	}
	if cur.Kind == "unlink" {
		return "before-unlink"
	}
	return ""
}

func chooseKs(sel KSel, calls []call) []int {
	n := len(calls)
	set := map[int]bool{}
	switch sel.Mode {
	case "all":
		for k := 1; k <= n; k++ {
			set[k] = true
		}
	case "exact":
		for _, k := range sel.Ks {
			if k >= 1 {
				set[k] = true
			}
		}
	default:
		var must, more []int
		for k := 1; k <= n; k++ {
			switch w := windowOf(calls, k); {
			case w == "marker-open..write" || w == "index-open..write" || w == "blob-rename..index-rename" || w == "blob-open..write":
				must = append(must, k)
			case w != "":
				more = append(more, k)
			}
		}
		// bound the work per script; which ones survive is decided by the drawn picks
		take := func(list []int, max int, salt int) {
			for len(list) > max {
				i := 0
				if len(sel.Picks) > 0 {
					i = (sel.Picks[(len(list)+salt)%len(sel.Picks)] + len(list)) % len(list)
				}
				list = append(list[:i], list[i+1:]...)
			}
			for _, k := range list {
				set[k] = true
			}
		}
		take(must, 8, 0)
		take(more, 5, 1)
		if n > 0 {
			for _, p := range sel.Picks {
				set[1+mod(p, n)] = true
			}
		}
	}
	var out []int
	for k := range set {
		out = append(out, k)
	}
	sort.Ints(out)
	return out
}

// ------------------------------------------------------------------ the oracle

type finding struct {
	V *evid.Violation
	K int
}

type refRun struct {
	S        []*State // S[0] = pre, S[i] = after victim op i
	Outcomes []outcome
}

func preClass(s *State) string {
	switch {
	case !s.DirExists:
		return "absent"
	case !s.MarkerOK && s.Index == "missing" && len(s.Files) == 0:
		return "emptydir"
	case !s.IndexOK:
		return "blobs-only"
	case len(s.Tags) == 0:
		return "index-no-tags"
	}
	for t := range s.Tags {
		if strings.HasPrefix(t, "sha256-") {
			return "populated+referrers"
		}
	}
	return "populated"
}

func missSig(top string, m string) string {
	switch {
	case m == "manifest-absent "+top:
		return "tag-names-absent-manifest"
	case m == "manifest-corrupt "+top, m == "manifest-unparsable "+top:
		return "tag-names-corrupt-manifest"
	case strings.HasPrefix(m, "manifest-absent "):
		return "tag-closure-missing-manifest"
	case strings.HasPrefix(m, "manifest-"):
		return "tag-closure-corrupt-manifest"
	case strings.HasPrefix(m, "blob-absent "):
		return "tag-closure-missing-blob"
	}
	return "tag-closure-corrupt-blob"
}

// judgeCrash evaluates clauses (1)-(4) and (6) on the directory state C left
// by a kill during victim op d (0-based; d ops had printed DONE/ERR).
func judgeCrash(ref *refRun, d int, C *State, explicit map[string]bool) []*evid.Violation {
	var vs []*evid.Violation
	add := func(sig, f string, a ...any) { vs = append(vs, evid.V(sig, f, a...)) }
	Sd := ref.S[d]
	Sn := Sd
	if d+1 < len(ref.S) {
		Sn = ref.S[d+1]
	}
	// (1) control files. "the index is complete JSON" holds unconditionally.
	if C.Index == "incomplete" {
		add("index-json-incomplete", "index.json is not complete JSON: %s", C.IndexErr)
	} else if C.Index == "invalid" {
		add("index-json-invalid", "index.json is not a valid index: %s", C.IndexErr)
	}
	if Sd.Valid() {
		switch C.Marker {
		case "ok":
		case "empty":
			add("oci-layout-marker-truncated", "the layout was valid before the interrupted operation, now oci-layout is an EMPTY file (0 bytes)")
		default:
			add("oci-layout-marker-"+C.Marker, "the layout was valid before the interrupted operation, now oci-layout is %s %q", C.Marker, C.MarkerRaw)
		}
		if C.Index == "missing" {
			add("index-json-missing", "the layout was valid before the interrupted operation, now index.json does not exist")
		}
	}
	// (2) every file stored under a digest name has that digest
	for _, dg := range sortedKeys(C.Files) {
		if !C.Files[dg] {
			sig := "digest-named-file-wrong-content"
			if C.FileSize[dg] == 0 {
				sig = "digest-named-file-empty"
			}
			add(sig, "blobs/%s holds %d bytes that do not hash to its name", strings.Replace(dg, ":", "/", 1), C.FileSize[dg])
		}
	}
	if C.IndexOK {
		// (3) untargeted tags keep their digest
		for _, t := range sortedKeys(Sd.Tags) {
			if _, ok := Sn.Tags[t]; !ok || Sn.TagValue(t) != Sd.TagValue(t) {
				continue // the interrupted operation changes this tag: it is a target
			}
			_, ok := C.Tags[t]
			if !ok {
				add("untargeted-tag-lost", "tag %q (%s) existed before the interrupted operation, is not changed by it, and is gone", t, short(Sd.Tags[t]))
			} else if C.TagValue(t) != Sd.TagValue(t) {
				add("untargeted-tag-changed", "tag %q was %s before the interrupted operation, is not changed by it, and now is %s", t, Sd.TagValue(t), C.TagValue(t))
			}
		}
		// (4) every tag present resolves to a complete image
		for _, t := range sortedKeys(C.Tags) {
			dg := C.Tags[t]
			// An image that the operations themselves leave incomplete at either boundary of
			// the interrupted operation (manifest pushed without its blobs, child deleted on
			// purpose, GC run before the manifest that needs the blobs) is not the crash's doing.
			exempt := false
			for _, S := range []*State{Sd, Sn} {
				if sd, ok := S.Tags[t]; ok && S.TagValue(t) == C.TagValue(t) && len(S.Missing(sd)) > 0 {
					exempt = true
				}
			}
			if exempt {
				continue
			}
			// A referrers fallback tag passes through intermediate values while a copy adds referrers
			// one by one (neither the old nor the new list). A part that is already missing from this
			// tag's closure at a boundary of the interrupted operation (a referrer manifest that was
			// pushed without its blobs) is still the operations' doing, whatever the list's value.
			allowed := map[string]bool{}
			for _, S := range []*State{Sd, Sn} {
				if sd, ok := S.Tags[t]; ok {
					for _, m := range S.MissingRel(sd) {
						allowed[m] = true
					}
				}
			}
			var miss []string
			for _, m := range C.MissingRel(dg) {
				if !allowed[m] {
					miss = append(miss, strings.ReplaceAll(m, "TOP", dg))
				}
			}
			if len(miss) > 0 {
				add(missSig(dg, miss[0]), "tag %q -> %s is present but its image is incomplete: %s", t, short(dg), strings.Join(miss, "; "))
			}
		}
		// (6) index entries of completed operations
		for _, dg := range sortedKeys(Sd.Untagged) {
			if !Sn.Untagged[dg] || C.Untagged[dg] {
				continue
			}
			tagged := false
			for _, td := range C.Tags {
				tagged = tagged || td == dg
			}
			if !tagged {
				add("committed-untagged-entry-lost", "index entry for %s (no tag) was committed before the interrupted operation, is kept by it, and is gone", short(dg))
			}
		}
	}
	// (6) content explicitly pushed by operations that had returned
	for _, dg := range sortedKeys(Sd.Files) {
		if !explicit[dg] || !Sd.Files[dg] || !Sn.Files[dg] {
			continue
		}
		if ok, present := C.Files[dg]; !present {
			add("committed-file-lost", "blobs/%s was committed before the interrupted operation, is kept by it, and is gone", strings.Replace(dg, ":", "/", 1))
		} else if !ok {
			add("committed-file-corrupted", "blobs/%s was committed before the interrupted operation and no longer hashes to its name", strings.Replace(dg, ":", "/", 1))
		}
	}
	return vs
}

// judgeFresh evaluates clause (5): what a fresh client process saw on state C.
func judgeFresh(C *State, rc *readCheck) []*evid.Violation {
	var vs []*evid.Violation
	add := func(sig, f string, a ...any) { vs = append(vs, evid.V(sig, f, a...)) }
	if !C.Valid() {
		return nil
	}
	if rc == nil {
		add("fresh-client-no-answer", "a fresh client process produced no tag listing at all")
		return vs
	}
	if rc.ListErr != "" {
		add("fresh-client-taglist-fails", "the directory is a valid layout for an independent reader, but a fresh client cannot list tags: %s", rc.ListErr)
		return vs
	}
	// A ref.name may be a full image name ("registry/repo:tag", written by other tools): a
	// client lists and resolves it by the part after the last colon. When two different
	// ref.names share that part, which entry a client must prefer is not this property's
	// business (C06): then only "listed and retrievable" is required.
	tagOf := func(name string) string {
		if i := strings.LastIndexByte(name, ':'); i >= 0 {
			return name[i+1:]
		}
		return name
	}
	byTag := map[string][]string{}
	for _, n := range sortedKeys(C.Tags) {
		byTag[tagOf(n)] = append(byTag[tagOf(n)], n)
	}
	for _, t := range sortedKeys(byTag) {
		names := byTag[t]
		anyOK := false
		for _, n := range names {
			anyOK = anyOK || C.Files[C.Tags[n]]
		}
		if !anyOK {
			continue // judged by clause (4)
		}
		got, ok := rc.Tags[t]
		switch {
		case ok && len(names) == 1 && got != C.Tags[names[0]]:
			add("fresh-client-digest-differs", "tag %q: independent reader sees %s, fresh client got %s", t, short(C.Tags[names[0]]), short(got))
		case ok:
		case rc.GetErr[t] != "":
			if len(names) == 1 {
				add("fresh-client-manifestget-fails", "tag %q -> %s: fresh client cannot get the manifest: %s", t, short(C.Tags[names[0]]), rc.GetErr[t])
			}
		default:
			add("fresh-client-tag-not-listed", "tag %q (ref.name %q) is in index.json but a fresh client does not list it", t, names)
		}
	}
	for _, t := range sortedKeys(rc.Tags) {
		if _, ok := byTag[t]; !ok {
			add("fresh-client-lists-unknown-tag", "fresh client lists tag %q which the independent reader does not find", t)
		}
	}
	return vs
}

// judgeRerun evaluates clause (7): state R after re-running victim ops d.. on
// the crashed directory, against the final state of the uninterrupted run.
func judgeRerun(ref *refRun, d int, C, R *State, res *drvResult, victim []DrvOp, explicit map[string]bool) []*evid.Violation {
	var vs []*evid.Violation
	add := func(sig, f string, a ...any) { vs = append(vs, evid.V(sig, f, a...)) }
	Sm := ref.S[len(ref.S)-1]
	unlisted := map[string]bool{}   // referrers left out of their subject's list by the repeated copy (see below)
	incMissing := map[string]bool{} // parts named by a rerun-leaves-incomplete-image finding of this execution
	if !res.Ended {
		add("rerun-driver-died", "re-running victim ops %d.. on the crashed directory: the client process died\n%s\n%s", d, tail(res.Raw, 400), res.Stderr)
		return vs
	}
	got := map[int]outcome{}
	for _, o := range res.Outcomes {
		got[o.Idx] = o
	}
	for i := d; i < len(victim); i++ {
		if i < len(ref.Outcomes) && ref.Outcomes[i].OK && !got[i].OK {
			add("rerun-op-fails", "repeating victim op %d (%s) after the crash fails (it succeeds uninterrupted): %s", i, victim[i].what, got[i].Msg)
		}
	}
	if Sm.Valid() && !R.Valid() {
		add("rerun-leaves-invalid-layout", "after repeating the interrupted operation(s): oci-layout is %s, index.json is %s %s (uninterrupted run: valid layout)", R.Marker, R.Index, R.IndexErr)
	} else if Sm.MarkerOK && !R.MarkerOK {
		add("rerun-leaves-marker-"+R.Marker, "after repeating the interrupted operation(s) oci-layout is %s %q (uninterrupted run: valid marker)", R.Marker, R.MarkerRaw)
	} else if R.Index == "incomplete" || R.Index == "invalid" {
		add("rerun-leaves-index-"+R.Index, "after repeating the interrupted operation(s) index.json is %s: %s", R.Index, R.IndexErr)
	}
	for _, t := range sortedKeys(Sm.Tags) {
		rd, ok := R.Tags[t]
		if want, isRef := Sm.Referrers(t); isRef {
			// referrers fallback tag: compare the set of listed referrers
			have, _ := R.Referrers(t)
			hs := map[string]bool{}
			for _, h := range have {
				hs[h] = true
			}
			ws := map[string]bool{}
			for _, w := range want {
				ws[w] = true
				if !hs[w] && C.Files[w] {
					// the mechanism of this finding: the referrer's manifest file was already
					// there when the operation was repeated, so the copy skipped its ManifestPut
					unlisted[w] = true
				}
				if !hs[w] {
					// A referrer that a repeated ManifestPut of the suffix itself pushes must be listed by
					// that very call; only a referrer reached through an image copy falls under the copy's
					// "target already has it" shortcut (the known rerun-referrer-not-listed).
					sig := "rerun-referrer-not-listed"
					for i := d; i < len(victim); i++ {
						if victim[i].Op == "manifest" && victim[i].Digest == w && i < len(ref.Outcomes) && ref.Outcomes[i].OK {
							sig = "rerun-manifest-put-does-not-list-referrer"
							delete(unlisted, w)
						}
					}
					add(sig, "after repeating the interrupted operation(s) the referrers list %q (exists: %v) does not list %s, which the uninterrupted run lists; manifest file of that referrer present: %v",
						t, ok, short(w), R.Files[w])
				}
			}
			for _, h := range have {
				if !ws[h] {
					add("rerun-referrer-extra-listed", "after repeating the interrupted operation(s) the referrers list %q lists %s, which the uninterrupted run does not", t, short(h))
				}
			}
			if ok && len(Sm.Missing(Sm.Tags[t])) == 0 {
				if miss := R.Missing(rd); len(miss) > 0 {
					add("rerun-leaves-incomplete-image", "after repeating the interrupted operation(s) tag %q -> %s is incomplete (complete in the uninterrupted run): %s", t, short(rd), strings.Join(miss, "; "))
				}
			}
			continue
		}
		if !ok {
			add("rerun-tag-lost", "after repeating the interrupted operation(s) tag %q (%s in the uninterrupted run) does not exist", t, short(Sm.Tags[t]))
			continue
		}
		if rd != Sm.Tags[t] {
			add("rerun-tag-differs", "after repeating the interrupted operation(s) tag %q names %s, uninterrupted run: %s", t, short(rd), short(Sm.Tags[t]))
			continue
		}
		if len(Sm.Missing(rd)) == 0 {
			if miss := R.Missing(rd); len(miss) > 0 {
				add("rerun-leaves-incomplete-image", "after repeating the interrupted operation(s) tag %q -> %s is incomplete (complete in the uninterrupted run): %s", t, short(rd), strings.Join(miss, "; "))
				for _, m := range miss {
					if f := strings.Fields(m); len(f) == 2 {
						incMissing[f[1]] = true
					}
				}
			}
		}
	}
	for _, t := range sortedKeys(R.Tags) {
		if _, ok := Sm.Tags[t]; !ok {
			add("rerun-extra-tag", "after repeating the interrupted operation(s) tag %q -> %s exists, the uninterrupted run has no such tag", t, short(R.Tags[t]))
		}
	}
	lostUntagged := map[string]bool{}
	for _, dg := range sortedKeys(Sm.Untagged) {
		if R.Untagged[dg] {
			continue
		}
		tagged := false
		for _, td := range R.Tags {
			tagged = tagged || td == dg
		}
		if !tagged {
			add("rerun-untagged-entry-lost", "after repeating the interrupted operation(s) the index entry for %s (no tag) is missing", short(dg))
			lostUntagged[dg] = true
		}
	}
	// Narrow attribution (3): an image whose untagged entry the repeated copy never wrote is unreachable from
	// index.json, so a Close later in the repeated suffix collects it: its files missing afterwards are a consequence
	// of rerun-untagged-entry-lost in THIS execution, not a separate behaviour.
	viaLostEntry := map[string]bool{}
	for _, w := range sortedKeys(lostUntagged) {
		Sm.Reach(w, viaLostEntry)
	}
	// Narrow attribution: a referrer that the repeated copy left unlisted (manifest present in
	// the crashed state, entry absent from its subject's list after the re-run) is unreachable
	// from index.json, so a Close later in the repeated suffix garbage-collects it together with
	// whatever only it refers to. That is a consequence of rerun-referrer-not-listed in THIS
	// execution, not a separate behaviour.
	viaUnlisted := map[string]bool{}
	for _, w := range sortedKeys(unlisted) {
		Sm.Reach(w, viaUnlisted)
	}
	closeInSuffix := false
	for i := d; i < len(victim); i++ {
		closeInSuffix = closeInSuffix || victim[i].Op == "close"
	}
	// Narrow attribution (2): the interrupted operation was Close (GC). A file that the sweep had
	// already unlinked (present before the Close, absent in the crashed state) while a garbage
	// manifest naming it survived (present in the crashed state, unreachable from index.json before
	// the Close), and that a rerun-leaves-incomplete-image finding of THIS execution names as the
	// missing part, is the same behaviour seen from the file side: the repeated copy trusted the
	// surviving manifest and did not bring the file back.
	Sd := ref.S[d]
	sweptUnderSurvivor := func(dg string) bool {
		if d >= len(victim) || victim[d].Op != "close" || !Sd.Files[dg] {
			return false
		}
		if _, present := C.Files[dg]; present {
			return false
		}
		live := Sd.ReachIndex()
		survivors := map[string]bool{}
		for _, m := range sortedKeys(C.Files) {
			if m == dg || !C.Files[m] || live[m] {
				continue
			}
			r := map[string]bool{}
			C.Reach(m, r)
			if r[dg] {
				survivors[m] = true
			}
		}
		if len(survivors) == 0 {
			return false
		}
		if incMissing[dg] {
			return true
		}
		// ... or the image is not tagged any more at the end: then the repeated suffix must itself
		// have pushed a parent (present after the re-run, absent in the crashed state) that lists
		// the surviving manifest, i.e. a copy went past that manifest without looking at its parts
		for _, p := range sortedKeys(R.Files) {
			if _, inC := C.Files[p]; inC || !R.Files[p] || survivors[p] {
				continue
			}
			r := map[string]bool{}
			R.Reach(p, r)
			for m := range survivors {
				if r[m] {
					return true
				}
			}
		}
		return false
	}
	var reachR map[string]bool
	for _, dg := range sortedKeys(Sm.Files) {
		if explicit[dg] && Sm.Files[dg] && !R.Files[dg] {
			if sweptUnderSurvivor(dg) {
				add("rerun-leaves-incomplete-image", "consequence in the same execution: blobs/%s (present in the uninterrupted run) was unlinked by the interrupted sweep while a garbage manifest naming it survived; the repeated copy trusted that manifest and did not bring the file back",
					strings.Replace(dg, ":", "/", 1))
				continue
			}
			if _, present := R.Files[dg]; !present && closeInSuffix && viaUnlisted[dg] {
				if reachR == nil {
					reachR = R.ReachIndex()
				}
				if !reachR[dg] {
					add("rerun-referrer-not-listed", "consequence in the same execution: blobs/%s (present in the uninterrupted run) belongs to the unlisted referrer(s) %v, is not reachable from index.json after the re-run, and was garbage-collected by the Close of the repeated suffix",
						strings.Replace(dg, ":", "/", 1), sortedKeys(unlisted))
					continue
				}
			}
			if _, present := R.Files[dg]; !present && closeInSuffix && viaLostEntry[dg] {
				if reachR == nil {
					reachR = R.ReachIndex()
				}
				if !reachR[dg] {
					add("rerun-untagged-entry-lost", "consequence in the same execution: blobs/%s (present in the uninterrupted run) belongs to the image(s) %v whose untagged index entry the repeated operation never wrote, is not reachable from index.json after the re-run, and was garbage-collected by the Close of the repeated suffix",
						strings.Replace(dg, ":", "/", 1), sortedKeys(lostUntagged))
					continue
				}
			}
			add("rerun-file-missing", "after repeating the interrupted operation(s) blobs/%s is missing or wrong (present in the uninterrupted run)", strings.Replace(dg, ":", "/", 1))
		}
	}
	for _, dg := range sortedKeys(R.Files) {
		if !R.Files[dg] {
			if ok, present := C.Files[dg]; present && !ok {
				continue // already reported by clause (2) on the crashed state
			}
			add("rerun-digest-named-file-wrong-content", "after repeating the interrupted operation(s) blobs/%s does not hash to its name", strings.Replace(dg, ":", "/", 1))
		}
	}
	return vs
}

var stop error // first inconclusive condition: everything after it is skipped

// check runs one script. It returns the findings of every evaluated crash
// position (known ones included) or an error for inconclusive conditions.
func check(c Case, ev *evid.Collector) ([]finding, error) {
	return checkSharded(c, ev, 0, 1)
}

func checkSharded(c Case, ev *evid.Collector, shard, nshards int) ([]finding, error) {
	if stop != nil {
		return nil, stop
	}
	fs, err := checkInner(c, ev, shard, nshards)
	var inc *errInconclusive
	if err != nil && errors.As(err, &inc) {
		stop = err
	}
	return fs, err
}

func checkInner(c Case, ev *evid.Collector, shard, nshards int) ([]finding, error) {
	e, err := getEnv()
	if err != nil {
		return nil, inconclusive("%v", err)
	}
	if len(c.Victim) == 0 {
		ev.Case(false, "", "empty-victim")
		return nil, nil
	}
	if len(c.Victim) > 3 {
		c.Victim = c.Victim[:3]
	}
	lay := filepath.Join(e.work, "lay")
	// the name the client uses for the layout (driver processes run in e.work)
	name := func(abs string) string {
		if c.RelPath {
			return filepath.Base(abs)
		}
		return abs
	}
	pre, victim, kinds, err := expand(c, e, name(lay))
	if err != nil {
		return nil, inconclusive("expand: %v", err)
	}
	seedDir := ""
	if c.Seed != "" {
		style := "plain"
		for _, st := range seedStyles {
			if st == c.Seed {
				style = st
			}
		}
		seedDir = filepath.Join(e.work, "seed-"+style)
		if _, err := os.Stat(seedDir); err != nil {
			if err := writeSeedLayout(seedDir, style); err != nil {
				return nil, inconclusive("seed layout: %v", err)
			}
		}
	}
	fresh := func() error {
		if err := os.RemoveAll(lay); err != nil {
			return err
		}
		_ = os.RemoveAll(lay + ".raw")
		if seedDir != "" {
			return copyTree(seedDir, lay)
		}
		if c.DirExists {
			return os.MkdirAll(lay, 0o777)
		}
		return nil
	}
	sc := script{Dir: name(lay), Pre: pre, Victim: victim}

	// ---- uninterrupted reference run, snapshots at operation boundaries
	if err := fresh(); err != nil {
		return nil, inconclusive("%v", err)
	}
	ref := &refRun{}
	rres, err := e.runStep(sc, func() {
		s := readState(lay)
		s.Preload()
		ref.S = append(ref.S, s)
	})
	if err != nil {
		return nil, err
	}
	ref.Outcomes = rres.Outcomes
	if len(ref.S) != len(victim)+1 || len(ref.Outcomes) != len(victim) {
		return nil, inconclusive("reference run: %d snapshots / %d outcomes for %d victim ops", len(ref.S), len(ref.Outcomes), len(victim))
	}
	pcl := preClass(ref.S[0])
	populated := strings.HasPrefix(pcl, "populated")

	// ---- count run
	if err := fresh(); err != nil {
		return nil, inconclusive("%v", err)
	}
	_, cnt, err := e.runSupervised(sc, 0)
	if err != nil {
		return nil, err
	}
	N := cnt.Count
	if os.Getenv("VERIF_C07_DEBUG") != "" && shard == 0 {
		var sb strings.Builder
		for i, v := range victim {
			fmt.Fprintf(&sb, " [%s => ok=%v %s]", v.what, ref.Outcomes[i].OK, tail(ref.Outcomes[i].Msg, 160))
		}
		fmt.Fprintf(os.Stderr, "C07DEBUG seed=%q rel=%v pre=%d(%d pre-errors) N=%d victim:%s\n", c.Seed, c.RelPath, len(pre), len(rres.PreErrs), N, sb.String())
		for _, pe := range rres.PreErrs {
			fmt.Fprintf(os.Stderr, "C07DEBUG   %s\n", tail(pe, 200))
		}
	}
	if shard == 0 {
		ev.Sample(c)
		ev.Add("scripts", 1)
		ev.Add("crash_points_available", N)
		ev.Class("script-pre:" + pcl)
		for _, dl := range dims(c) {
			ev.Class(dl)
		}
		for i, k := range kinds {
			lab := "script-victim:" + k
			if !ref.Outcomes[i].OK {
				lab += ":expected-error"
			}
			ev.Class(lab)
		}
	}
	// determinism of the script: the supervised uninterrupted run ends where the reference ended
	{
		F := readState(lay)
		Sm := ref.S[len(ref.S)-1]
		if F.TagValues() != Sm.TagValues() || F.Marker != Sm.Marker || F.Index != Sm.Index {
			return nil, inconclusive("script is not deterministic: reference run ends in %s, supervised run in %s", Sm.Summary(), F.Summary())
		}
	}
	if N == 0 {
		ev.Case(false, "", "script-without-mutating-call")
		return nil, nil
	}
	ks := chooseKs(c.K, cnt.Calls)
	if c.K.Mode == "all" && shard == 0 {
		ev.Add("scripts_with_every_k_executed", 1)
		ev.Add("crash_points_of_those_scripts", N)
	}

	var out []finding
	for _, k := range ks {
		if nshards > 1 && mod(k, nshards) != shard {
			continue
		}
		if err := fresh(); err != nil {
			return out, inconclusive("%v", err)
		}
		kres, sup, err := e.runSupervised(sc, k)
		if err != nil {
			return out, err
		}
		ev.Add("executions", 1)
		if !sup.Killed {
			// fewer mutating calls than in the count run (concurrent copy): nothing was interrupted
			ev.Case(false, "", "k-beyond-end")
			continue
		}
		if len(sup.Calls) == 0 || sup.Calls[len(sup.Calls)-1].N != k {
			return out, inconclusive("kill run report does not end at call %d", k)
		}
		d := len(kres.Outcomes)
		if d >= len(victim) {
			return out, inconclusive("kill at k=%d but all %d victim ops had returned", k, len(victim))
		}
		// the operations that had returned must have ended as in the reference run, else the
		// reference states do not describe this execution (timing-dependent operation)
		same := true
		for i := 0; i < d; i++ {
			same = same && kres.Outcomes[i].OK == ref.Outcomes[i].OK
		}
		if !same {
			ev.Case(false, "", "outcome-differs-from-reference-run")
			continue
		}
		at := sup.Calls[len(sup.Calls)-1]
		win := windowOf(sup.Calls, k)
		C := readState(lay)
		crashSummary := C.Summary()
		// digests explicitly pushed (blob / manifest put) by operations that had returned
		explicit := map[string]bool{}
		for _, op := range pre {
			if op.Op == "blob" || op.Op == "manifest" {
				explicit[op.Digest] = true
			}
		}
		for i := 0; i < d; i++ {
			if (victim[i].Op == "blob" || victim[i].Op == "manifest") && ref.Outcomes[i].OK {
				explicit[victim[i].Digest] = true
			}
		}
		vs := judgeCrash(ref, d, C, explicit)
		markerDefect := ref.S[d].Valid() && C.Marker == "empty"
		consequence := ""
		if markerDefect {
			// Document what the empty marker leads to on an untouched copy, then repair the
			// marker (independent writer) so that clauses (5) and (7) still search for
			// anything that is NOT explained by it.
			raw := lay + ".raw"
			if err := copyTree(lay, raw); err != nil {
				return out, inconclusive("%v", err)
			}
			r2, err := e.runPlain(script{Dir: name(raw), Victim: victim, From: d, ReadCheck: true})
			if err != nil {
				return out, err
			}
			R2 := readState(raw)
			var lost []string
			Sm := ref.S[len(ref.S)-1]
			for _, t := range sortedKeys(Sm.Tags) {
				if _, ok := R2.Tags[t]; !ok || R2.TagValue(t) != Sm.TagValue(t) {
					lost = append(lost, t)
				}
			}
			le := "(listing worked)"
			if r2.RC != nil && r2.RC.ListErr != "" {
				le = r2.RC.ListErr
			}
			consequence = fmt.Sprintf("\nconsequences on the directory as the crash left it: a fresh client lists tags -> %s; after repeating the interrupted operation the layout is %s, uninterrupted run %s; tags lost or different: %v",
				le, R2.Summary(), Sm.Summary(), lost)
			_ = os.RemoveAll(raw)
			if err := os.WriteFile(filepath.Join(lay, "oci-layout"), []byte(`{"imageLayoutVersion":"1.0.0"}`), 0o666); err != nil {
				return out, inconclusive("%v", err)
			}
			C = readState(lay)
			ev.Class("marker-repaired-to-continue")
		}
		C.Preload()
		// (5) + (7): one fresh client process lists/gets, then repeats the interrupted suffix
		fres, err := e.runPlain(script{Dir: name(lay), Victim: victim, From: d, ReadCheck: true})
		if err != nil {
			return out, err
		}
		vs = append(vs, judgeFresh(C, fres.RC)...)
		R := readState(lay)
		for i := d; i < len(victim); i++ {
			if (victim[i].Op == "blob" || victim[i].Op == "manifest") && ref.Outcomes[i].OK {
				explicit[victim[i].Digest] = true
			}
		}
		for _, v := range judgeRerun(ref, d, C, R, fres, victim, explicit) {
			if v.Sig == "rerun-leaves-incomplete-image" || v.Sig == "rerun-untagged-entry-lost" {
				// which kind of operation was interrupted is part of the specific behaviour
				v.Sig += "-after-interrupted-" + kinds[d]
			}
			vs = append(vs, v)
		}

		nt := populated
		key := kinds[d] + "|" + sysClass(at) + "|" + pcl
		labels := []string{"victim:" + kinds[d], "sys:" + sysClass(at), "pre:" + pcl, fmt.Sprintf("done-before-kill:%d", d)}
		if win != "" {
			labels = append(labels, "window:"+win)
		}
		if len(vs) == 0 {
			labels = append(labels, "verdict:holds")
		} else {
			labels = append(labels, "verdict:violation")
		}
		ev.Case(nt, key, labels...)
		for _, v := range vs {
			v.Msg = fmt.Sprintf("%s\n  crash position k=%d of %d: SIGKILL on entry to [%s] (window %q), during victim op %d = %s (%d op(s) had returned)\n  before the op: %s\n  after the crash: %s%s",
				v.Msg, k, N, at, win, d, victim[d].what, d, ref.S[d].Summary(), crashSummary, map[bool]string{true: consequence}[v.Sig == "oci-layout-marker-truncated"])
			out = append(out, finding{V: v, K: k})
		}
	}
	return out, nil
}

// verbose, when set, receives every finding (known ones included).
var verbose func(string)

// report hands every finding to the collector (known signatures are counted
// there) and returns the first one that is not known.
func report(ev *evid.Collector, c Case, fs []finding) *evid.Violation {
	if verbose != nil {
		for _, f := range fs {
			verbose(fmt.Sprintf("finding (known=%v) %s: %s", ev.IsKnown(f.V.Sig), f.V.Sig, f.V.Msg))
		}
	}
	var first *evid.Violation
	seen := map[string]bool{}
	// unknown signatures first, in clause order; one record per signature and script
	for pass := 0; pass < 2; pass++ {
		for _, f := range fs {
			known := ev.IsKnown(f.V.Sig)
			if (pass == 0) == known {
				continue
			}
			if !known && seen[f.V.Sig] {
				continue
			}
			seen[f.V.Sig] = true
			c2 := c
			c2.K = KSel{Mode: "exact", Ks: []int{f.K}}
			for _, op := range c.Victim {
				if op.Kind == "copy" {
					// concurrent blob copies: the position of a window moves by a few calls between runs
					c2.K.Ks = []int{f.K - 3, f.K - 2, f.K - 1, f.K, f.K + 1, f.K + 2, f.K + 3}
					break
				}
			}
			if ev.Report(f.V, c2) && first == nil {
				first = f.V
			}
		}
	}
	return first
}

func runCase(ev *evid.Collector, c Case, shard, nshards int) (*evid.Violation, error) {
	var fs []finding
	var err error
	v := evid.Guard(func() *evid.Violation {
		fs, err = checkSharded(c, ev, shard, nshards)
		return nil
	})
	if v != nil { // a panic in the harness itself
		return nil, inconclusive("%v", v)
	}
	return report(ev, c, fs), err
}

// ------------------------------------------------------------------ tests

func TestVerifProp(t *testing.T) {
	ev := evid.For(prop)
	rapid.Check(t, func(rt *rapid.T) {
		c := gen(rt)
		v, err := runCase(ev, c, 0, 1)
		if v != nil {
			rt.Fatalf("%v", v)
		}
		if err != nil {
			rt.Fatalf("%v", err)
		}
	})
}

// TestVerifKinds: the quantifier's operation kinds, each from an empty and
// from a populated layout, every crash position (exhaustive over k).
func TestVerifKinds(t *testing.T) {
	ev := evid.For(prop)
	shard, _ := strconv.Atoi(os.Getenv("VERIF_SHARD_INDEX"))
	nshards, _ := strconv.Atoi(os.Getenv("VERIF_NSHARDS"))
	if nshards < 1 {
		nshards = 1
	}
	for i, c := range kindMatrix() {
		heavy := false
		for _, op := range c.Victim {
			heavy = heavy || op.Kind == "copy" || op.Kind == "import"
		}
		var v *evid.Violation
		var err error
		if heavy {
			// many crash positions: every shard takes a residue class of k (rotated per script)
			v, err = runCase(ev, c, mod(shard+i, nshards), nshards)
		} else if mod(i, nshards) == shard {
			v, err = runCase(ev, c, 0, 1)
		}
		if v != nil {
			t.Errorf("matrix case %d: %v", i, v)
		}
		if err != nil {
			t.Fatalf("matrix case %d: %v", i, err)
		}
	}
	if shard == 0 {
		ev.Set("kind_matrix_scripts", len(kindMatrix()))
		ev.Set("exhaustive_k_kind_matrix", true)
		ev.Set("exhaustive_k_kind_matrix_space", "every crash position k in 1..N of every script of the fixed kind matrix (and, in the thorough tier, of every generated script)")
	}
}

func TestVerifReplayDir(t *testing.T) {
	ev := evid.For(prop)
	for _, f := range evid.ReplayFiles() {
		var c Case
		if err := evid.LoadCaseFile(f, &c); err != nil {
			t.Fatalf("%s: %v", f, err)
		}
		v, err := runCase(ev, c, 0, 1)
		if v != nil {
			t.Errorf("%s: %v", f, v)
		}
		if err != nil {
			t.Fatalf("%s: %v", f, err)
		}
	}
}

func TestVerifReplay(t *testing.T) {
	ev := evid.For(prop)
	var c Case
	ok, err := evid.LoadReplay(&c)
	if !ok {
		t.Skip("no VERIF_REPLAY")
	}
	if err != nil {
		t.Fatal(err)
	}
	verbose = func(s string) { t.Log(s) }
	defer func() { verbose = nil }()
	// crash positions of concurrent operations (image copy) can move between runs
	reps := 1
	for _, op := range c.Victim {
		if op.Kind == "copy" && c.K.Mode == "exact" {
			reps = 5
		}
	}
	for i := 0; i < reps; i++ {
		v, err := runCase(ev, c, 0, 1)
		if v != nil {
			t.Fatalf("%v", v)
		}
		if err != nil {
			t.Fatal(err)
		}
	}
}

// ------------------------------------------------------------------ the fixed kind matrix

func populatedPre() []Op {
	return []Op{
		{Kind: "put", Obj: Obj{"image", 0}, Tag: "v1", Deep: true},
		{Kind: "put", Obj: Obj{"index", 0}, Tag: "v2", Deep: true},
		{Kind: "put", Obj: Obj{"artifact", 0}, Deep: true},              // referrer of image0, by digest
		{Kind: "put", Obj: Obj{"image", 2}, Tag: "old", Deep: true},     // becomes garbage:
		{Kind: "put", Obj: Obj{"image", 3}, Tag: "old", Deep: true},     // ... overwritten
		{Kind: "put", Obj: Obj{"image", 4}, Tag: "a.b-c_d", Deep: true}, // sha512 layer
	}
}

func kindMatrix() []Case {
	victims := [][]Op{
		{{Kind: "blob", Obj: Obj{"blob", 5}}},
		{{Kind: "blob", Obj: Obj{"blob", 6}, NoDesc: false}},
		{{Kind: "blob", Obj: Obj{"blob", 2}, NoDesc: true}},
		{{Kind: "put", Obj: Obj{"image", 1}, Tag: "v3"}},
		{{Kind: "put", Obj: Obj{"image", 1}, Tag: "v1"}}, // overwrite an existing tag
		{{Kind: "put", Obj: Obj{"image", 1}}},            // untagged, by digest
		{{Kind: "put", Obj: Obj{"image", 1}, Child: true}},
		{{Kind: "put", Obj: Obj{"index", 3}, Tag: "v3"}},
		{{Kind: "put", Obj: Obj{"artifact", 1}}},             // second referrer of image0
		{{Kind: "put", Obj: Obj{"artifact", 2}, Tag: "sig"}}, // tagged referrer of index0
		{{Kind: "tagdel", Tag: "v1"}},
		{{Kind: "mandel", Obj: Obj{"image", 4}}},
		{{Kind: "mandel", Obj: Obj{"artifact", 0}}},
		{{Kind: "close"}},
		{{Kind: "tagdel", Tag: "v2"}, {Kind: "close"}},
		{{Kind: "copy", Src: "i1", Tag: "c1"}},
		{{Kind: "copy", Src: "x0", Tag: "c2", Referrers: true}},
		{{Kind: "copy", Src: "i1", Tag: "v1", DigestTags: true}},
		{{Kind: "copy", Src: "a0", Tag: "sig", Referrers: true}},
		{{Kind: "import", Obj: Obj{"image", 1}, Tag: "t1"}},
		{{Kind: "import", Obj: Obj{"index", 2}, Tag: "v1"}},
		{{Kind: "put", Obj: Obj{"image", 5}, Tag: "v1"}, {Kind: "tagdel", Tag: "old"}, {Kind: "close"}},
	}
	var out []Case
	for i, v := range victims {
		// from a populated layout
		out = append(out, Case{Pre: populatedPre(), Victim: v, Prep: true, K: KSel{Mode: "all"}})
		// from nothing at all (directory absent / present but empty)
		out = append(out, Case{Victim: v, Prep: false, DirExists: i%2 == 1, K: KSel{Mode: "all"}})
		// from a directory that holds only the blobs the victim's manifest refers to (no index yet)
		for _, op := range v {
			if op.Kind == "put" {
				out = append(out, Case{Victim: v, Prep: true, K: KSel{Mode: "all"}})
				break
			}
		}
	}
	// ---- dimensions added by the generator-domain audit (each from the populated pre-history
	// unless it names its own pre-state), every crash position
	all := KSel{Mode: "all"}
	pp := populatedPre
	audit := []Case{
		// reference forms
		{Pre: pp(), Victim: []Op{{Kind: "put", Obj: Obj{"image", 1}, Tag: "v1", RefForm: "tag+digest"}}, Prep: true},
		{Pre: pp(), Victim: []Op{{Kind: "put", Obj: Obj{"image", 1}, RefForm: "bare"}}, Prep: true, RelPath: true},
		{Pre: pp(), Victim: []Op{{Kind: "mandel", Obj: Obj{"image", 4}, Tag: "a.b-c_d", RefForm: "tag+digest", CheckRefs: true}}},
		{Pre: pp(), Victim: []Op{{Kind: "mandel", Obj: Obj{"image", 0}}}}, // a subject that has a referrer, and a child of index0
		{Pre: pp(), Victim: []Op{{Kind: "copy", Src: "i5", Tag: "x", RefForm: "digest"}}},
		{Pre: pp(), Victim: []Op{{Kind: "import", Obj: Obj{"image", 1}, Tag: "x", RefForm: "digest"}}},
		// digest algorithms, media types, duplicates
		{Pre: pp(), Victim: []Op{{Kind: "put", Obj: Obj{"image", 7}, Tag: "s512"}, {Kind: "close"}}, Prep: true},
		{Pre: pp(), Victim: []Op{{Kind: "put", Obj: Obj{"artifact", 6}}}, Prep: true}, // referrer of a sha512 subject
		{Pre: pp(), Victim: []Op{{Kind: "copy", Src: "x6", Tag: "s512", Referrers: true}}},
		{Pre: pp(), Victim: []Op{{Kind: "put", Obj: Obj{"artifact", 4}}}, Prep: true},             // OCI artifact manifest type
		{Pre: pp(), Victim: []Op{{Kind: "put", Obj: Obj{"artifact", 5}, Tag: "att"}}, Prep: true}, // index with a subject
		{Pre: pp(), Victim: []Op{{Kind: "put", Obj: Obj{"index", 4}, Tag: "dl"}}, Prep: true},     // Docker manifest list
		{Pre: pp(), Victim: []Op{{Kind: "copy", Src: "x5", Tag: "dup"}}},                          // the same child twice
		{Pre: pp(), Victim: []Op{{Kind: "copy", Src: "i6", Tag: "dup"}}},                          // the same layer twice
		// blob put variants and sizes at the copy buffer boundary
		{Pre: pp(), Victim: []Op{{Kind: "blob", Obj: Obj{"blob", 9}, Desc: "size-only"}}},
		{Victim: []Op{{Kind: "blob", Obj: Obj{"blob", 10}, Desc: "digest-only"}}},
		{Pre: pp(), Victim: []Op{{Kind: "blob", Obj: Obj{"blob", 11}, Desc: "none"}}},
		{Pre: pp(), Victim: []Op{{Kind: "blob", Obj: Obj{"blob", 8}, Desc: "wrong-digest"}, {Kind: "blob", Obj: Obj{"blob", 8}}}},
		{Victim: []Op{{Kind: "blob", Obj: Obj{"blob", 4}, Desc: "wrong-size"}, {Kind: "blob", Obj: Obj{"blob", 4}}}},
		{Pre: pp(), Victim: []Op{{Kind: "blob", Obj: Obj{"blob", 1}}}}, // the blob is already there
		{Pre: pp(), Victim: []Op{{Kind: "blobdel", Obj: Obj{"blob", 1}}}},
		// descriptors that carry their content inline ("data"): direct put, copy, import; the blob
		// absent (fresh) and already stored (the populated pre-history holds {} and blob 1)
		{Victim: []Op{{Kind: "blob", Obj: Obj{"empty", 0}, Desc: "inline"}, {Kind: "blob", Obj: Obj{"empty", 0}, Desc: "inline"}}},
		{Pre: pp(), Victim: []Op{{Kind: "blob", Obj: Obj{"empty", 0}, Desc: "inline"}, {Kind: "blob", Obj: Obj{"blob", 8}, Desc: "inline"}}},
		{Pre: pp(), Victim: []Op{{Kind: "copy", Src: "i8", Tag: "inl"}}},
		{Victim: []Op{{Kind: "copy", Src: "a7", Tag: "inl", Referrers: true}}},
		{Pre: pp(), Victim: []Op{{Kind: "copy", Src: "a7", Tag: "inl"}, {Kind: "close"}}},
		{Pre: pp(), Victim: []Op{{Kind: "copy", Src: "x7", Tag: "inl"}}},
		{Pre: pp(), Victim: []Op{{Kind: "import", Obj: Obj{"image", 8}, Tag: "inl"}}},
		{Victim: []Op{{Kind: "import", Obj: Obj{"image", 8}, Tag: "inl", TarStyle: "reversed"}}},
		{Pre: pp(), Victim: []Op{{Kind: "put", Obj: Obj{"artifact", 7}, Tag: "inl"}}, Prep: true},
		// copy options
		{Pre: append(pp(), Op{Kind: "copy", Src: "a0", Tag: "sig"}), Victim: []Op{{Kind: "copy", Src: "a0", Tag: "sig", Referrers: true, Force: true}}},
		{Pre: pp(), Victim: []Op{{Kind: "copy", Src: "x0", Tag: "v1", Fast: true, DigestTags: true}}},
		{Pre: pp(), Victim: []Op{{Kind: "copy", Src: "x2", Tag: "plat", Platform: "linux/amd64"}}},
		{Pre: pp(), Victim: []Op{{Kind: "copy", Self: true, Src: "v2", Tag: "retag"}, {Kind: "close"}}, RelPath: true},
		// import variants
		{Pre: pp(), Victim: []Op{{Kind: "import", Obj: Obj{"index", 0}, Tag: "t", TarStyle: "reversed"}}},
		{Victim: []Op{{Kind: "import", Obj: Obj{"image", 3}, Tag: "t", TarStyle: "gzip"}}},
		{Pre: pp(), Victim: []Op{{Kind: "import", Obj: Obj{"image", 1}, Tag: "t", TarStyle: "multi"}}},
		{Pre: pp(), Victim: []Op{{Kind: "import", Obj: Obj{"image", 6}, Tag: "v1", TarStyle: "docker"}, {Kind: "close"}}},
		{Victim: []Op{{Kind: "import", Obj: Obj{"image", 1}, Tag: "t", TarStyle: "docker"}}, RelPath: true},
		// what every CLI command does: one operation, then Close (GC) in the same process
		{Pre: pp(), Victim: []Op{{Kind: "put", Obj: Obj{"image", 1}, Tag: "old"}, {Kind: "close"}}, Prep: true},
		{Pre: pp(), Victim: []Op{{Kind: "mandel", Obj: Obj{"artifact", 0}}, {Kind: "close"}}},
		// a cancelled context
		{Pre: pp(), Victim: []Op{{Kind: "blob", Obj: Obj{"blob", 3}, Ctx: "cancelled"}, {Kind: "put", Obj: Obj{"image", 1}, Tag: "v1", Ctx: "cancelled"}, {Kind: "close", Ctx: "cancelled"}}, Prep: true},
	}
	// layouts written by other tools: operations that hit their entries
	for _, st := range seedStyles {
		audit = append(audit, Case{Seed: st, Victim: []Op{{Kind: "put", Obj: Obj{"image", 1}, Tag: "v1"}, {Kind: "tagdel", Tag: "v2"}, {Kind: "close"}}, Prep: true})
	}
	audit = append(audit,
		Case{Seed: "fullname", Victim: []Op{{Kind: "mandel", Obj: Obj{"image", 0}}, {Kind: "copy", Src: "x1", Tag: "v2", Referrers: true}}},
		Case{Seed: "dup", Victim: []Op{{Kind: "mandel", Obj: Obj{"image", 0}}, {Kind: "import", Obj: Obj{"image", 3}, Tag: "v1"}}},
		Case{Seed: "leftovers", Victim: []Op{{Kind: "put", Obj: Obj{"artifact", 0}}, {Kind: "close"}}, Prep: true},
	)
	for _, c := range audit {
		c.K = all
		out = append(out, c)
	}
	return out
}
