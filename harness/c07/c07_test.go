package c07

// C07 — An OCI layout survives a crash at any point of any write.
//
// A script (pre-history + 1..3 victim operations, all executed through the
// public regclient API by the separate driver binary c07drv) is run
//   - once uninterrupted in step mode: the independent reader (layout.go)
//     snapshots the directory at every operation boundary (S_0 = pre … S_m),
//   - once under the ptrace supervisor crashrun in count mode: N = number of
//     file-system mutating system calls of the victim and their descriptions,
//   - once per chosen crash position k in kill mode: SIGKILL on entry to the
//     k-th mutating call. The surviving directory is judged by the independent
//     reader (clauses 1-4, 6), by a fresh client process (clause 5) and by
//     re-running the interrupted suffix (clause 7).

import (
	"bufio"
	"bytes"
	"context"
	"encoding/json"
	"errors"
	"fmt"
	"io"
	"os"
	"os/exec"
	"path/filepath"
	"sort"
	"strconv"
	"strings"
	"testing"
	"time"

	"pgregory.net/rapid"

	"github.com/regclient/regclient/zz_verif/evid"
)

const prop = "C07"

func TestMain(m *testing.M) {
	code := m.Run()
	if theEnv != nil {
		_ = os.RemoveAll(theEnv.work)
	}
	evid.Flush(code)
	os.Exit(code)
}

// ------------------------------------------------------------------ the Case

// Op is one generated operation (data only; interpreted by expand).
type Op struct {
	Kind       string `json:"kind"` // blob | put | tagdel | mandel | close | copy | import
	Obj        Obj    `json:"obj"`
	Tag        string `json:"tag,omitempty"`         // put: "" = by digest; tagdel; copy/import: target tag
	Child      bool   `json:"child,omitempty"`       // put by digest WithManifestChild (no index entry)
	Deep       bool   `json:"deep,omitempty"`        // pre-history only: push the closure first
	NoDesc     bool   `json:"no_desc,omitempty"`     // blob put with an empty descriptor
	Src        string `json:"src,omitempty"`         // copy: tag in the source layout
	Referrers  bool   `json:"referrers,omitempty"`   // copy option
	DigestTags bool   `json:"digest_tags,omitempty"` // copy option
}

// KSel selects the crash positions.
type KSel struct {
	Mode  string `json:"mode"`            // all | sample | exact
	Ks    []int  `json:"ks,omitempty"`    // exact
	Picks []int  `json:"picks,omitempty"` // sample: every targeted position (bounded) + these (1 + p mod N)
}

// Case is one script plus its crash positions.
type Case struct {
	Pre       []Op `json:"pre"`
	Victim    []Op `json:"victim"`
	Prep      bool `json:"prep"`       // push what the victim's manifests refer to at the end of the pre-history
	DirExists bool `json:"dir_exists"` // the layout directory exists (empty) before the first operation
	K         KSel `json:"k"`
}

var tagPool = []string{"v1", "v2", "latest", "a.b-c_d"}

func kindOf(op Op) string {
	switch op.Kind {
	case "put":
		o := norm(op.Obj)
		if o.T == "artifact" {
			return "put-referrer"
		}
		if op.Tag != "" {
			return "put-tagged"
		}
		if op.Child {
			return "put-child"
		}
		return "put-untagged"
	case "blob", "tagdel", "mandel", "close", "copy", "import":
		return op.Kind
	}
	return "close"
}

// ------------------------------------------------------------------ generator

// pick draws an index in [0,n) that is close to uniform. rapid's own integer
// and SampledFrom draws are deliberately biased towards small values (about
// 40% of IntRange(0,99) draws are below 10), which would starve the later
// alternatives of every weighted choice; a multiplicative hash of a drawn
// word spreads them out again and still shrinks to alternative 0.
func pick(t *rapid.T, label string, n int) int {
	x := rapid.Uint64().Draw(t, label)
	return int(((x * 0x9E3779B97F4A7C15) >> 33) % uint64(n))
}

// weighted picks an alternative by weight.
func weighted(t *rapid.T, label string, names []string, weights []int) string {
	total := 0
	for _, w := range weights {
		total += w
	}
	x := pick(t, label, total)
	for i, w := range weights {
		if x < w {
			return names[i]
		}
		x -= w
	}
	return names[0]
}

func genObj(t *rapid.T) Obj {
	switch weighted(t, "objtype", []string{"image", "index", "artifact"}, []int{45, 25, 30}) {
	case "image":
		return Obj{"image", pick(t, "img", nImages)}
	case "index":
		return Obj{"index", pick(t, "idx", nIndexes)}
	}
	return Obj{"artifact", pick(t, "art", nArtifacts)}
}

func genOp(t *rapid.T, pre bool, seenTags []string, seenObjs []Obj) Op {
	pickTag := func() string {
		if len(seenTags) > 0 && pick(t, "usetag", 10) < 7 {
			return seenTags[pick(t, "seentag", len(seenTags))]
		}
		return tagPool[pick(t, "tag", len(tagPool))]
	}
	kinds := []string{"put", "blob", "tagdel", "mandel", "close", "copy", "import"}
	w := []int{38, 8, 10, 10, 8, 14, 12}
	if pre {
		w = []int{50, 6, 7, 7, 5, 14, 11}
	}
	switch weighted(t, "kind", kinds, w) {
	case "blob":
		o := Obj{"blob", pick(t, "blob", nBlobs)}
		if pick(t, "cfgblob", 6) == 0 {
			o = Obj{"config", pick(t, "cfg", nImages)}
		}
		return Op{Kind: "blob", Obj: o, NoDesc: pick(t, "nodesc", 4) == 0}
	case "put":
		op := Op{Kind: "put", Obj: genObj(t), Deep: pre}
		switch weighted(t, "putmode", []string{"tag", "digest", "child"}, []int{6, 2, 2}) {
		case "tag":
			op.Tag = pickTag()
		case "child":
			op.Child = true
		}
		return op
	case "tagdel":
		return Op{Kind: "tagdel", Tag: pickTag()}
	case "mandel":
		var o Obj
		if len(seenObjs) > 0 && pick(t, "useobj", 10) < 8 {
			o = seenObjs[pick(t, "seenobj", len(seenObjs))]
		} else {
			o = genObj(t)
		}
		return Op{Kind: "mandel", Obj: o}
	case "close":
		return Op{Kind: "close"}
	case "copy":
		src := sourceTags()
		return Op{Kind: "copy", Src: src[pick(t, "src", len(src))], Tag: pickTag(),
			Referrers: pick(t, "referrers", 3) == 0, DigestTags: pick(t, "digesttags", 5) == 0}
	default:
		o := Obj{"image", pick(t, "img", nImages)}
		if pick(t, "impidx", 3) == 0 {
			o = Obj{"index", pick(t, "idx", nIndexes)}
		}
		return Op{Kind: "import", Obj: o, Tag: pickTag()}
	}
}

func gen(t *rapid.T) Case {
	c := Case{
		Prep:      pick(t, "prep", 10) != 0,
		DirExists: rapid.Bool().Draw(t, "direxists"),
	}
	var tags []string
	var objs []Obj
	note := func(op Op) {
		if op.Tag != "" && op.Kind != "tagdel" {
			tags = append(tags, op.Tag)
		}
		if op.Kind == "put" || op.Kind == "import" {
			objs = append(objs, op.Obj)
		}
		if op.Kind == "copy" {
			var n int
			fmt.Sscanf(op.Src[1:], "%d", &n)
			switch op.Src[0] {
			case 'i':
				objs = append(objs, Obj{"image", n})
			case 'x':
				objs = append(objs, Obj{"index", n})
			default:
				objs = append(objs, Obj{"artifact", n})
			}
		}
	}
	nPre := []int{0, 1, 2, 2, 3, 3, 4, 4, 5, 6}[pick(t, "npre", 10)]
	for i := 0; i < nPre; i++ {
		op := genOp(t, true, tags, objs)
		c.Pre = append(c.Pre, op)
		note(op)
	}
	nVic := []int{1, 1, 1, 2, 2, 3}[pick(t, "nvictim", 6)]
	for i := 0; i < nVic; i++ {
		op := genOp(t, false, tags, objs)
		c.Victim = append(c.Victim, op)
		note(op)
	}
	if evid.Tier() == "thorough" {
		c.K = KSel{Mode: "all"}
	} else {
		c.K = KSel{Mode: "sample"}
		for i := 0; i < 5; i++ {
			c.K.Picks = append(c.K.Picks, pick(t, "kpick", 10000))
		}
	}
	return c
}

// ------------------------------------------------------------------ environment

type env struct {
	drv, crashrun string
	work          string // scratch root
	src           string // source layout for ImageCopy
	tars          map[string]string
	n             int
}

var (
	theEnv *env
	envErr error
)

func getEnv() (*env, error) {
	if theEnv != nil || envErr != nil {
		return theEnv, envErr
	}
	e := &env{drv: os.Getenv("VERIF_BIN_DRV"), crashrun: os.Getenv("VERIF_BIN_CRASHRUN"), tars: map[string]string{}}
	if e.drv == "" || e.crashrun == "" {
		envErr = errors.New("VERIF_BIN_DRV / VERIF_BIN_CRASHRUN not set (run through run.py)")
		return nil, envErr
	}
	w, err := os.MkdirTemp("", "c07-")
	if err != nil {
		envErr = err
		return nil, err
	}
	// the supervisor compares path prefixes: use the canonical name
	if w2, err := filepath.EvalSymlinks(w); err == nil {
		w = w2
	}
	e.work = w
	// private copies of the tools: another run.py of this property may rebuild
	// (remove + re-link) the shared binaries while this process is still running
	for _, b := range []*string{&e.drv, &e.crashrun} {
		data, err := os.ReadFile(*b)
		if err != nil {
			envErr = err
			return nil, err
		}
		p := filepath.Join(w, "bin-"+filepath.Base(*b))
		if err := os.WriteFile(p, data, 0o755); err != nil {
			envErr = err
			return nil, err
		}
		*b = p
	}
	e.src = filepath.Join(w, "source")
	if err := writeSourceLayout(e.src); err != nil {
		envErr = err
		return nil, err
	}
	theEnv = e
	return e, nil
}

func (e *env) tarFor(o Obj, tag string) (string, error) {
	o = norm(o)
	key := o.String() + "@" + tag
	if p, ok := e.tars[key]; ok {
		return p, nil
	}
	p := filepath.Join(e.work, fmt.Sprintf("tar-%d.tar", len(e.tars)))
	if err := writeLayoutTar(p, o, tag); err != nil {
		return "", err
	}
	e.tars[key] = p
	return p, nil
}

// expand turns generated ops into public-API calls.
func expand(c Case, e *env) (pre, victim []DrvOp, kinds []string, err error) {
	one := func(op Op, deep bool) ([]DrvOp, error) {
		var out []DrvOp
		switch op.Kind {
		case "blob":
			o := norm(op.Obj)
			if isManifestObj(o) {
				o = Obj{"blob", mod(o.N, nBlobs)}
			}
			out = append(out, blobOp(o, op.NoDesc))
		case "put":
			o := norm(op.Obj)
			if !isManifestObj(o) {
				o = Obj{"image", mod(o.N, nImages)}
			}
			if deep {
				out = append(out, prereqOps(o, map[string]bool{})...)
			}
			out = append(out, manifestOp(o, op.Tag, op.Child))
		case "tagdel":
			tag := op.Tag
			if tag == "" {
				tag = "latest"
			}
			out = append(out, DrvOp{Op: "tagdel", Tag: tag, what: "tagdel " + tag})
		case "mandel":
			o := norm(op.Obj)
			if !isManifestObj(o) {
				o = Obj{"image", mod(o.N, nImages)}
			}
			out = append(out, DrvOp{Op: "mandel", Digest: objDigest(o), what: "mandel " + o.String()})
		case "copy":
			src := op.Src
			ok := false
			for _, s := range sourceTags() {
				ok = ok || s == src
			}
			if !ok {
				src = "i0"
			}
			tag := op.Tag
			if tag == "" {
				tag = "latest"
			}
			out = append(out, DrvOp{Op: "copy", Src: "ocidir://" + e.src + ":" + src, Tag: tag, Referrers: op.Referrers,
				DigestTags: op.DigestTags, what: fmt.Sprintf("copy %s->%s referrers=%v digesttags=%v", src, tag, op.Referrers, op.DigestTags)})
		case "import":
			o := norm(op.Obj)
			if o.T != "image" && o.T != "index" {
				o = Obj{"image", mod(o.N, nImages)}
			}
			tag := op.Tag
			if tag == "" {
				tag = "latest"
			}
			p, err := e.tarFor(o, tag)
			if err != nil {
				return nil, err
			}
			out = append(out, DrvOp{Op: "import", Tar: p, Tag: tag, what: fmt.Sprintf("import %s as %s", o, tag)})
		default:
			out = append(out, DrvOp{Op: "close", what: "close"})
		}
		return out, nil
	}
	for _, op := range c.Pre {
		ops, err := one(op, op.Deep)
		if err != nil {
			return nil, nil, nil, err
		}
		pre = append(pre, ops...)
	}
	if c.Prep {
		seen := map[string]bool{}
		for _, op := range c.Victim {
			if op.Kind == "put" {
				o := norm(op.Obj)
				if isManifestObj(o) {
					pre = append(pre, prereqOps(o, seen)...)
				}
			}
		}
	}
	for _, op := range c.Victim {
		ops, err := one(op, false)
		if err != nil {
			return nil, nil, nil, err
		}
		victim = append(victim, ops[len(ops)-1])
		kinds = append(kinds, kindOf(op))
	}
	return pre, victim, kinds, nil
}

// ------------------------------------------------------------------ process runs

type script struct {
	Dir       string  `json:"dir"`
	Pre       []DrvOp `json:"pre"`
	Victim    []DrvOp `json:"victim"`
	From      int     `json:"from"`
	Step      bool    `json:"step"`
	ReadCheck bool    `json:"readcheck"`
}

type outcome struct {
	Idx int
	OK  bool
	Msg string
}

type readCheck struct {
	ListErr string            `json:"list_err"`
	Tags    map[string]string `json:"tags"`
	GetErr  map[string]string `json:"get_err"`
}

type drvResult struct {
	Started  bool
	Outcomes []outcome
	PreErrs  []string
	RC       *readCheck
	Ended    bool
	Stderr   string
	Raw      string
}

type call struct {
	N     int    `json:"n"`
	Tid   int    `json:"tid"`
	Kind  string `json:"kind"`
	Path  string `json:"path"`
	Path2 string `json:"path2"`
	Flags string `json:"flags"`
	Len   int64  `json:"len"`
}

func (c call) String() string {
	s := c.Kind + " " + c.Path
	if c.Path2 != "" {
		s += " -> " + c.Path2
	}
	if c.Flags != "" {
		s += " [" + c.Flags + "]"
	}
	if c.Kind == "write" {
		s += fmt.Sprintf(" len=%d", c.Len)
	}
	return s
}

type supResult struct {
	Calls    []call
	Killed   bool
	KilledAt int
	Count    int
	Marker   bool
	Exit     int
	Note     string
}

// errInconclusive marks infrastructure trouble (timeouts, tools dying): never a violation.
type errInconclusive struct{ msg string }

func (e *errInconclusive) Error() string { return "INCONCLUSIVE: " + e.msg }

func inconclusive(f string, a ...any) error { return &errInconclusive{fmt.Sprintf(f, a...)} }

const procTimeout = 150 * time.Second

func parseDrv(out string, res *drvResult) {
	res.Raw = out
	for _, line := range strings.Split(out, "\n") {
		f := strings.SplitN(line, " ", 3)
		switch f[0] {
		case "START-VICTIM":
			res.Started = true
		case "END":
			res.Ended = true
		case "DONE", "ERR":
			if len(f) < 2 {
				continue
			}
			i, _ := strconv.Atoi(f[1])
			o := outcome{Idx: i, OK: f[0] == "DONE"}
			if len(f) > 2 {
				o.Msg = f[2]
			}
			res.Outcomes = append(res.Outcomes, o)
		case "PRE-ERR":
			res.PreErrs = append(res.PreErrs, line)
		case "READCHECK":
			var rc readCheck
			if json.Unmarshal([]byte(strings.TrimPrefix(line, "READCHECK ")), &rc) == nil {
				res.RC = &rc
			}
		}
	}
}

func drvEnv() []string {
	return append(os.Environ(), "GOMAXPROCS=2", "GOGC=off")
}

func (e *env) writeScript(sc script) (string, error) {
	e.n++
	p := filepath.Join(e.work, "script.json")
	b, err := json.Marshal(sc)
	if err != nil {
		return "", err
	}
	return p, os.WriteFile(p, b, 0o644)
}

// runPlain runs the driver without supervisor and without stepping.
func (e *env) runPlain(sc script) (*drvResult, error) {
	p, err := e.writeScript(sc)
	if err != nil {
		return nil, err
	}
	ctx, cancel := context.WithTimeout(context.Background(), procTimeout)
	defer cancel()
	cmd := exec.CommandContext(ctx, e.drv, p)
	cmd.Env = drvEnv()
	var so, se bytes.Buffer
	cmd.Stdout, cmd.Stderr = &so, &se
	err = cmd.Run()
	if ctx.Err() != nil {
		return nil, inconclusive("driver timed out after %v", procTimeout)
	}
	res := &drvResult{Stderr: tail(se.String(), 1500)}
	parseDrv(so.String(), res)
	if err != nil && !res.Started {
		return nil, inconclusive("driver failed before the victim: %v\n%s", err, res.Stderr)
	}
	return res, nil
}

// runStep runs the driver uninterrupted and calls snap at START-VICTIM and
// after every victim op.
func (e *env) runStep(sc script, snap func()) (*drvResult, error) {
	sc.Step = true
	p, err := e.writeScript(sc)
	if err != nil {
		return nil, err
	}
	ctx, cancel := context.WithTimeout(context.Background(), procTimeout)
	defer cancel()
	cmd := exec.CommandContext(ctx, e.drv, p)
	cmd.Env = drvEnv()
	var se bytes.Buffer
	cmd.Stderr = &se
	stdin, err := cmd.StdinPipe()
	if err != nil {
		return nil, err
	}
	stdout, err := cmd.StdoutPipe()
	if err != nil {
		return nil, err
	}
	if err := cmd.Start(); err != nil {
		return nil, inconclusive("cannot start driver: %v", err)
	}
	var all strings.Builder
	rd := bufio.NewReader(stdout)
	for {
		line, err := rd.ReadString('\n')
		all.WriteString(line)
		if strings.HasPrefix(line, "START-VICTIM") || strings.HasPrefix(line, "DONE ") || strings.HasPrefix(line, "ERR ") {
			snap()
			_, _ = io.WriteString(stdin, "\n")
		}
		if err != nil {
			break
		}
	}
	_ = stdin.Close()
	werr := cmd.Wait()
	if ctx.Err() != nil {
		return nil, inconclusive("driver (step mode) timed out after %v", procTimeout)
	}
	res := &drvResult{Stderr: tail(se.String(), 1500)}
	parseDrv(all.String(), res)
	if werr != nil || !res.Ended {
		return nil, inconclusive("uninterrupted reference run did not finish: %v\n%s\n%s", werr, tail(all.String(), 800), res.Stderr)
	}
	return res, nil
}

// runSupervised runs the driver under crashrun (k = 0: count mode).
func (e *env) runSupervised(sc script, k int) (*drvResult, *supResult, error) {
	p, err := e.writeScript(sc)
	if err != nil {
		return nil, nil, err
	}
	rep := filepath.Join(e.work, "report.jsonl")
	_ = os.Remove(rep)
	ctx, cancel := context.WithTimeout(context.Background(), procTimeout)
	defer cancel()
	cmd := exec.CommandContext(ctx, e.crashrun, "-dir", sc.Dir, "-k", strconv.Itoa(k), "-report", rep, "--", e.drv, p)
	cmd.Env = drvEnv()
	var so, se bytes.Buffer
	cmd.Stdout, cmd.Stderr = &so, &se
	err = cmd.Run()
	if ctx.Err() != nil {
		return nil, nil, inconclusive("supervised run timed out after %v (k=%d)", procTimeout, k)
	}
	if err != nil {
		return nil, nil, inconclusive("supervisor failed: %v\n%s", err, tail(se.String(), 1500))
	}
	res := &drvResult{Stderr: tail(se.String(), 1500)}
	parseDrv(so.String(), res)
	sup := &supResult{}
	rb, err := os.ReadFile(rep)
	if err != nil {
		return nil, nil, inconclusive("no supervisor report: %v", err)
	}
	gotEnd := false
	for _, line := range bytes.Split(rb, []byte("\n")) {
		if len(line) == 0 {
			continue
		}
		var probe struct {
			End      bool   `json:"end"`
			Killed   bool   `json:"killed"`
			KilledAt int    `json:"killed_at"`
			Count    int    `json:"count"`
			Marker   bool   `json:"marker_seen"`
			Exit     int    `json:"exit_code"`
			Note     string `json:"note"`
		}
		if json.Unmarshal(line, &probe) != nil {
			return nil, nil, inconclusive("bad supervisor report line %q", line)
		}
		if probe.End {
			gotEnd = true
			sup.Killed, sup.KilledAt, sup.Count, sup.Marker, sup.Exit, sup.Note = probe.Killed, probe.KilledAt, probe.Count, probe.Marker, probe.Exit, probe.Note
			continue
		}
		var c call
		_ = json.Unmarshal(line, &c)
		sup.Calls = append(sup.Calls, c)
	}
	if !gotEnd || !sup.Marker {
		return nil, nil, inconclusive("supervisor report incomplete (end=%v marker=%v note=%q)\n%s\n%s", gotEnd, sup.Marker, sup.Note, tail(so.String(), 500), res.Stderr)
	}
	if !sup.Killed && (!res.Ended || sup.Exit != 0) {
		return nil, nil, inconclusive("driver under supervisor did not finish (exit=%d)\n%s\n%s", sup.Exit, tail(so.String(), 500), res.Stderr)
	}
	return res, sup, nil
}

func tail(s string, n int) string {
	if len(s) > n {
		return "…" + s[len(s)-n:]
	}
	return s
}

func copyTree(src, dst string) error {
	return filepath.Walk(src, func(p string, fi os.FileInfo, err error) error {
		if err != nil {
			return err
		}
		rel, _ := filepath.Rel(src, p)
		if fi.IsDir() {
			return os.MkdirAll(filepath.Join(dst, rel), 0o777)
		}
		b, err := os.ReadFile(p)
		if err != nil {
			return err
		}
		return os.WriteFile(filepath.Join(dst, rel), b, 0o666)
	})
}

// ------------------------------------------------------------------ crash-position selection

func fileClass(p string) string {
	switch {
	case p == "oci-layout":
		return "oci-layout"
	case p == "index.json":
		return "index.json"
	case strings.HasPrefix(p, "index.json.") && strings.HasSuffix(p, ".tmp"):
		return "index-tmp"
	case p == "." || p == "blobs" || p == "blobs/sha256" || p == "blobs/sha512":
		return "dir"
	case strings.HasPrefix(p, "blobs/") && strings.HasSuffix(p, ".tmp"):
		return "blob-tmp"
	case strings.HasPrefix(p, "blobs/"):
		f := strings.Split(p, "/")
		if len(f) == 3 && wellFormedHex(f[1], f[2]) {
			return "blob"
		}
	}
	return "other"
}

func sysClass(c call) string {
	cl := fileClass(c.Path)
	if c.Kind == "rename" {
		cl = fileClass(c.Path2)
	}
	k := c.Kind
	if k == "open" {
		switch {
		case strings.Contains(c.Flags, "O_TRUNC"):
			k = "open-trunc"
		case strings.Contains(c.Flags, "O_CREAT"):
			k = "open-creat"
		default:
			k = "open-write"
		}
	}
	return k + ":" + cl
}

// windowOf names the crash window a kill on entry to calls[k-1] falls into.
func windowOf(calls []call, k int) string {
	if k < 1 || k > len(calls) {
		return ""
	}
	cur := calls[k-1]
	if k >= 2 {
		prev := calls[k-2]
		if prev.Kind == "open" && cur.Kind == "write" && prev.Path == cur.Path {
			switch fileClass(prev.Path) {
			case "oci-layout":
				return "marker-open..write"
			case "index.json":
				return "index-open..write"
			case "index-tmp":
				return "indextmp-open..write"
			case "blob-tmp":
				return "blobtmp-open..write"
			case "blob":
				return "blob-open..write"
			}
		}
		if prev.Kind == "write" && cur.Kind == "write" && prev.Path == cur.Path {
			return "mid-write:" + fileClass(cur.Path)
		}
	}
	if cur.Kind == "rename" && fileClass(cur.Path2) == "index.json" {
		// anything renamed into blobs/ since the previous index rename?
		for i := k - 2; i >= 0; i-- {
			if calls[i].Kind == "rename" && fileClass(calls[i].Path2) == "index.json" {
				break
			}
			if calls[i].Kind == "rename" && fileClass(calls[i].Path2) == "blob" {
				return "blob-rename..index-rename"
			}
		}
		return "before-index-rename"
	}
	if k >= 2 && calls[k-2].Kind == "rename" && fileClass(calls[k-2].Path2) == "blob" {
		return "after-blob-rename"
	}
	if k >= 2 && calls[k-2].Kind == "rename" && fileClass(calls[k-2].Path2) == "index.json" {
		return "after-index-rename"
	}
	if cur.Kind == "unlink" {
		return "before-unlink"
	}
	return ""
}

func chooseKs(sel KSel, calls []call) []int {
	n := len(calls)
	set := map[int]bool{}
	switch sel.Mode {
	case "all":
		for k := 1; k <= n; k++ {
			set[k] = true
		}
	case "exact":
		for _, k := range sel.Ks {
			if k >= 1 {
				set[k] = true
			}
		}
	default:
		var must, more []int
		for k := 1; k <= n; k++ {
			switch w := windowOf(calls, k); {
			case w == "marker-open..write" || w == "index-open..write" || w == "blob-rename..index-rename" || w == "blob-open..write":
				must = append(must, k)
			case w != "":
				more = append(more, k)
			}
		}
		// bound the work per script; which ones survive is decided by the drawn picks
		take := func(list []int, max int, salt int) {
			for len(list) > max {
				i := 0
				if len(sel.Picks) > 0 {
					i = (sel.Picks[(len(list)+salt)%len(sel.Picks)] + len(list)) % len(list)
				}
				list = append(list[:i], list[i+1:]...)
			}
			for _, k := range list {
				set[k] = true
			}
		}
		take(must, 8, 0)
		take(more, 5, 1)
		if n > 0 {
			for _, p := range sel.Picks {
				set[1+mod(p, n)] = true
			}
		}
	}
	var out []int
	for k := range set {
		out = append(out, k)
	}
	sort.Ints(out)
	return out
}

// ------------------------------------------------------------------ the oracle

type finding struct {
	V *evid.Violation
	K int
}

type refRun struct {
	S        []*State // S[0] = pre, S[i] = after victim op i
	Outcomes []outcome
}

func preClass(s *State) string {
	switch {
	case !s.DirExists:
		return "absent"
	case !s.MarkerOK && s.Index == "missing" && len(s.Files) == 0:
		return "emptydir"
	case !s.IndexOK:
		return "blobs-only"
	case len(s.Tags) == 0:
		return "index-no-tags"
	}
	for t := range s.Tags {
		if strings.HasPrefix(t, "sha256-") {
			return "populated+referrers"
		}
	}
	return "populated"
}

func missSig(top string, m string) string {
	switch {
	case m == "manifest-absent "+top:
		return "tag-names-absent-manifest"
	case m == "manifest-corrupt "+top, m == "manifest-unparsable "+top:
		return "tag-names-corrupt-manifest"
	case strings.HasPrefix(m, "manifest-absent "):
		return "tag-closure-missing-manifest"
	case strings.HasPrefix(m, "manifest-"):
		return "tag-closure-corrupt-manifest"
	case strings.HasPrefix(m, "blob-absent "):
		return "tag-closure-missing-blob"
	}
	return "tag-closure-corrupt-blob"
}

// judgeCrash evaluates clauses (1)-(4) and (6) on the directory state C left
// by a kill during victim op d (0-based; d ops had printed DONE/ERR).
func judgeCrash(ref *refRun, d int, C *State, explicit map[string]bool) []*evid.Violation {
	var vs []*evid.Violation
	add := func(sig, f string, a ...any) { vs = append(vs, evid.V(sig, f, a...)) }
	Sd := ref.S[d]
	Sn := Sd
	if d+1 < len(ref.S) {
		Sn = ref.S[d+1]
	}
	// (1) control files. "the index is complete JSON" holds unconditionally.
	if C.Index == "incomplete" {
		add("index-json-incomplete", "index.json is not complete JSON: %s", C.IndexErr)
	} else if C.Index == "invalid" {
		add("index-json-invalid", "index.json is not a valid index: %s", C.IndexErr)
	}
	if Sd.Valid() {
		switch C.Marker {
		case "ok":
		case "empty":
			add("oci-layout-marker-truncated", "the layout was valid before the interrupted operation, now oci-layout is an EMPTY file (0 bytes)")
		default:
			add("oci-layout-marker-"+C.Marker, "the layout was valid before the interrupted operation, now oci-layout is %s %q", C.Marker, C.MarkerRaw)
		}
		if C.Index == "missing" {
			add("index-json-missing", "the layout was valid before the interrupted operation, now index.json does not exist")
		}
	}
	// (2) every file stored under a digest name has that digest
	for _, dg := range sortedKeys(C.Files) {
		if !C.Files[dg] {
			sig := "digest-named-file-wrong-content"
			if C.FileSize[dg] == 0 {
				sig = "digest-named-file-empty"
			}
			add(sig, "blobs/%s holds %d bytes that do not hash to its name", strings.Replace(dg, ":", "/", 1), C.FileSize[dg])
		}
	}
	if C.IndexOK {
		// (3) untargeted tags keep their digest
		for _, t := range sortedKeys(Sd.Tags) {
			if _, ok := Sn.Tags[t]; !ok || Sn.TagValue(t) != Sd.TagValue(t) {
				continue // the interrupted operation changes this tag: it is a target
			}
			_, ok := C.Tags[t]
			if !ok {
				add("untargeted-tag-lost", "tag %q (%s) existed before the interrupted operation, is not changed by it, and is gone", t, short(Sd.Tags[t]))
			} else if C.TagValue(t) != Sd.TagValue(t) {
				add("untargeted-tag-changed", "tag %q was %s before the interrupted operation, is not changed by it, and now is %s", t, Sd.TagValue(t), C.TagValue(t))
			}
		}
		// (4) every tag present resolves to a complete image
		for _, t := range sortedKeys(C.Tags) {
			dg := C.Tags[t]
			// An image that the operations themselves leave incomplete at either boundary of
			// the interrupted operation (manifest pushed without its blobs, child deleted on
			// purpose, GC run before the manifest that needs the blobs) is not the crash's doing.
			exempt := false
			for _, S := range []*State{Sd, Sn} {
				if sd, ok := S.Tags[t]; ok && S.TagValue(t) == C.TagValue(t) && len(S.Missing(sd)) > 0 {
					exempt = true
				}
			}
			if exempt {
				continue
			}
			if miss := C.Missing(dg); len(miss) > 0 {
				add(missSig(dg, miss[0]), "tag %q -> %s is present but its image is incomplete: %s", t, short(dg), strings.Join(miss, "; "))
			}
		}
		// (6) index entries of completed operations
		for _, dg := range sortedKeys(Sd.Untagged) {
			if !Sn.Untagged[dg] || C.Untagged[dg] {
				continue
			}
			tagged := false
			for _, td := range C.Tags {
				tagged = tagged || td == dg
			}
			if !tagged {
				add("committed-untagged-entry-lost", "index entry for %s (no tag) was committed before the interrupted operation, is kept by it, and is gone", short(dg))
			}
		}
	}
	// (6) content explicitly pushed by operations that had returned
	for _, dg := range sortedKeys(Sd.Files) {
		if !explicit[dg] || !Sd.Files[dg] || !Sn.Files[dg] {
			continue
		}
		if ok, present := C.Files[dg]; !present {
			add("committed-file-lost", "blobs/%s was committed before the interrupted operation, is kept by it, and is gone", strings.Replace(dg, ":", "/", 1))
		} else if !ok {
			add("committed-file-corrupted", "blobs/%s was committed before the interrupted operation and no longer hashes to its name", strings.Replace(dg, ":", "/", 1))
		}
	}
	return vs
}

// judgeFresh evaluates clause (5): what a fresh client process saw on state C.
func judgeFresh(C *State, rc *readCheck) []*evid.Violation {
	var vs []*evid.Violation
	add := func(sig, f string, a ...any) { vs = append(vs, evid.V(sig, f, a...)) }
	if !C.Valid() {
		return nil
	}
	if rc == nil {
		add("fresh-client-no-answer", "a fresh client process produced no tag listing at all")
		return vs
	}
	if rc.ListErr != "" {
		add("fresh-client-taglist-fails", "the directory is a valid layout for an independent reader, but a fresh client cannot list tags: %s", rc.ListErr)
		return vs
	}
	for _, t := range sortedKeys(C.Tags) {
		dg := C.Tags[t]
		if !C.Files[dg] {
			continue // judged by clause (4)
		}
		got, ok := rc.Tags[t]
		switch {
		case ok && got != dg:
			add("fresh-client-digest-differs", "tag %q: independent reader sees %s, fresh client got %s", t, short(dg), short(got))
		case ok:
		case rc.GetErr[t] != "":
			add("fresh-client-manifestget-fails", "tag %q -> %s: fresh client cannot get the manifest: %s", t, short(dg), rc.GetErr[t])
		default:
			add("fresh-client-tag-not-listed", "tag %q -> %s is in index.json but a fresh client does not list it", t, short(dg))
		}
	}
	for _, t := range sortedKeys(rc.Tags) {
		if _, ok := C.Tags[t]; !ok {
			add("fresh-client-lists-unknown-tag", "fresh client lists tag %q which the independent reader does not find", t)
		}
	}
	return vs
}

// judgeRerun evaluates clause (7): state R after re-running victim ops d.. on
// the crashed directory, against the final state of the uninterrupted run.
func judgeRerun(ref *refRun, d int, C, R *State, res *drvResult, victim []DrvOp, explicit map[string]bool) []*evid.Violation {
	var vs []*evid.Violation
	add := func(sig, f string, a ...any) { vs = append(vs, evid.V(sig, f, a...)) }
	Sm := ref.S[len(ref.S)-1]
	unlisted := map[string]bool{} // referrers left out of their subject's list by the repeated copy (see below)
	if !res.Ended {
		add("rerun-driver-died", "re-running victim ops %d.. on the crashed directory: the client process died\n%s\n%s", d, tail(res.Raw, 400), res.Stderr)
		return vs
	}
	got := map[int]outcome{}
	for _, o := range res.Outcomes {
		got[o.Idx] = o
	}
	for i := d; i < len(victim); i++ {
		if i < len(ref.Outcomes) && ref.Outcomes[i].OK && !got[i].OK {
			add("rerun-op-fails", "repeating victim op %d (%s) after the crash fails (it succeeds uninterrupted): %s", i, victim[i].what, got[i].Msg)
		}
	}
	if Sm.Valid() && !R.Valid() {
		add("rerun-leaves-invalid-layout", "after repeating the interrupted operation(s): oci-layout is %s, index.json is %s %s (uninterrupted run: valid layout)", R.Marker, R.Index, R.IndexErr)
	} else if Sm.MarkerOK && !R.MarkerOK {
		add("rerun-leaves-marker-"+R.Marker, "after repeating the interrupted operation(s) oci-layout is %s %q (uninterrupted run: valid marker)", R.Marker, R.MarkerRaw)
	} else if R.Index == "incomplete" || R.Index == "invalid" {
		add("rerun-leaves-index-"+R.Index, "after repeating the interrupted operation(s) index.json is %s: %s", R.Index, R.IndexErr)
	}
	for _, t := range sortedKeys(Sm.Tags) {
		rd, ok := R.Tags[t]
		if want, isRef := Sm.Referrers(t); isRef {
			// referrers fallback tag: compare the set of listed referrers
			have, _ := R.Referrers(t)
			hs := map[string]bool{}
			for _, h := range have {
				hs[h] = true
			}
			ws := map[string]bool{}
			for _, w := range want {
				ws[w] = true
				if !hs[w] && C.Files[w] {
					// the mechanism of this finding: the referrer's manifest file was already
					// there when the operation was repeated, so the copy skipped its ManifestPut
					unlisted[w] = true
				}
				if !hs[w] {
					add("rerun-referrer-not-listed", "after repeating the interrupted operation(s) the referrers list %q (exists: %v) does not list %s, which the uninterrupted run lists; manifest file of that referrer present: %v",
						t, ok, short(w), R.Files[w])
				}
			}
			for _, h := range have {
				if !ws[h] {
					add("rerun-referrer-extra-listed", "after repeating the interrupted operation(s) the referrers list %q lists %s, which the uninterrupted run does not", t, short(h))
				}
			}
			if ok && len(Sm.Missing(Sm.Tags[t])) == 0 {
				if miss := R.Missing(rd); len(miss) > 0 {
					add("rerun-leaves-incomplete-image", "after repeating the interrupted operation(s) tag %q -> %s is incomplete (complete in the uninterrupted run): %s", t, short(rd), strings.Join(miss, "; "))
				}
			}
			continue
		}
		if !ok {
			add("rerun-tag-lost", "after repeating the interrupted operation(s) tag %q (%s in the uninterrupted run) does not exist", t, short(Sm.Tags[t]))
			continue
		}
		if rd != Sm.Tags[t] {
			add("rerun-tag-differs", "after repeating the interrupted operation(s) tag %q names %s, uninterrupted run: %s", t, short(rd), short(Sm.Tags[t]))
			continue
		}
		if len(Sm.Missing(rd)) == 0 {
			if miss := R.Missing(rd); len(miss) > 0 {
				add("rerun-leaves-incomplete-image", "after repeating the interrupted operation(s) tag %q -> %s is incomplete (complete in the uninterrupted run): %s", t, short(rd), strings.Join(miss, "; "))
			}
		}
	}
	for _, t := range sortedKeys(R.Tags) {
		if _, ok := Sm.Tags[t]; !ok {
			add("rerun-extra-tag", "after repeating the interrupted operation(s) tag %q -> %s exists, the uninterrupted run has no such tag", t, short(R.Tags[t]))
		}
	}
	for _, dg := range sortedKeys(Sm.Untagged) {
		if R.Untagged[dg] {
			continue
		}
		tagged := false
		for _, td := range R.Tags {
			tagged = tagged || td == dg
		}
		if !tagged {
			add("rerun-untagged-entry-lost", "after repeating the interrupted operation(s) the index entry for %s (no tag) is missing", short(dg))
		}
	}
	// Narrow attribution: a referrer that the repeated copy left unlisted (manifest present in
	// the crashed state, entry absent from its subject's list after the re-run) is unreachable
	// from index.json, so a Close later in the repeated suffix garbage-collects it together with
	// whatever only it refers to. That is a consequence of rerun-referrer-not-listed in THIS
	// execution, not a separate behaviour.
	viaUnlisted := map[string]bool{}
	for _, w := range sortedKeys(unlisted) {
		Sm.Reach(w, viaUnlisted)
	}
	closeInSuffix := false
	for i := d; i < len(victim); i++ {
		closeInSuffix = closeInSuffix || victim[i].Op == "close"
	}
	var reachR map[string]bool
	for _, dg := range sortedKeys(Sm.Files) {
		if explicit[dg] && Sm.Files[dg] && !R.Files[dg] {
			if _, present := R.Files[dg]; !present && closeInSuffix && viaUnlisted[dg] {
				if reachR == nil {
					reachR = R.ReachIndex()
				}
				if !reachR[dg] {
					add("rerun-referrer-not-listed", "consequence in the same execution: blobs/%s (present in the uninterrupted run) belongs to the unlisted referrer(s) %v, is not reachable from index.json after the re-run, and was garbage-collected by the Close of the repeated suffix",
						strings.Replace(dg, ":", "/", 1), sortedKeys(unlisted))
					continue
				}
			}
			add("rerun-file-missing", "after repeating the interrupted operation(s) blobs/%s is missing or wrong (present in the uninterrupted run)", strings.Replace(dg, ":", "/", 1))
		}
	}
	for _, dg := range sortedKeys(R.Files) {
		if !R.Files[dg] {
			if ok, present := C.Files[dg]; present && !ok {
				continue // already reported by clause (2) on the crashed state
			}
			add("rerun-digest-named-file-wrong-content", "after repeating the interrupted operation(s) blobs/%s does not hash to its name", strings.Replace(dg, ":", "/", 1))
		}
	}
	return vs
}

var stop error // first inconclusive condition: everything after it is skipped

// check runs one script. It returns the findings of every evaluated crash
// position (known ones included) or an error for inconclusive conditions.
func check(c Case, ev *evid.Collector) ([]finding, error) {
	return checkSharded(c, ev, 0, 1)
}

func checkSharded(c Case, ev *evid.Collector, shard, nshards int) ([]finding, error) {
	if stop != nil {
		return nil, stop
	}
	fs, err := checkInner(c, ev, shard, nshards)
	var inc *errInconclusive
	if err != nil && errors.As(err, &inc) {
		stop = err
	}
	return fs, err
}

func checkInner(c Case, ev *evid.Collector, shard, nshards int) ([]finding, error) {
	e, err := getEnv()
	if err != nil {
		return nil, inconclusive("%v", err)
	}
	if len(c.Victim) == 0 {
		ev.Case(false, "", "empty-victim")
		return nil, nil
	}
	if len(c.Victim) > 3 {
		c.Victim = c.Victim[:3]
	}
	pre, victim, kinds, err := expand(c, e)
	if err != nil {
		return nil, inconclusive("expand: %v", err)
	}
	lay := filepath.Join(e.work, "lay")
	fresh := func() error {
		if err := os.RemoveAll(lay); err != nil {
			return err
		}
		_ = os.RemoveAll(lay + ".raw")
		if c.DirExists {
			return os.MkdirAll(lay, 0o777)
		}
		return nil
	}
	sc := script{Dir: lay, Pre: pre, Victim: victim}

	// ---- uninterrupted reference run, snapshots at operation boundaries
	if err := fresh(); err != nil {
		return nil, inconclusive("%v", err)
	}
	ref := &refRun{}
	rres, err := e.runStep(sc, func() {
		s := readState(lay)
		s.Preload()
		ref.S = append(ref.S, s)
	})
	if err != nil {
		return nil, err
	}
	ref.Outcomes = rres.Outcomes
	if len(ref.S) != len(victim)+1 || len(ref.Outcomes) != len(victim) {
		return nil, inconclusive("reference run: %d snapshots / %d outcomes for %d victim ops", len(ref.S), len(ref.Outcomes), len(victim))
	}
	pcl := preClass(ref.S[0])
	populated := strings.HasPrefix(pcl, "populated")

	// ---- count run
	if err := fresh(); err != nil {
		return nil, inconclusive("%v", err)
	}
	_, cnt, err := e.runSupervised(sc, 0)
	if err != nil {
		return nil, err
	}
	N := cnt.Count
	if shard == 0 {
		ev.Sample(c)
		ev.Add("scripts", 1)
		ev.Add("crash_points_available", N)
		ev.Class("script-pre:" + pcl)
		for i, k := range kinds {
			lab := "script-victim:" + k
			if !ref.Outcomes[i].OK {
				lab += ":expected-error"
			}
			ev.Class(lab)
		}
	}
	// determinism of the script: the supervised uninterrupted run ends where the reference ended
	{
		F := readState(lay)
		Sm := ref.S[len(ref.S)-1]
		if F.TagValues() != Sm.TagValues() || F.Marker != Sm.Marker || F.Index != Sm.Index {
			return nil, inconclusive("script is not deterministic: reference run ends in %s, supervised run in %s", Sm.Summary(), F.Summary())
		}
	}
	if N == 0 {
		ev.Case(false, "", "script-without-mutating-call")
		return nil, nil
	}
	ks := chooseKs(c.K, cnt.Calls)
	if c.K.Mode == "all" && shard == 0 {
		ev.Add("scripts_with_every_k_executed", 1)
		ev.Add("crash_points_of_those_scripts", N)
	}

	var out []finding
	for _, k := range ks {
		if nshards > 1 && mod(k, nshards) != shard {
			continue
		}
		if err := fresh(); err != nil {
			return out, inconclusive("%v", err)
		}
		kres, sup, err := e.runSupervised(sc, k)
		if err != nil {
			return out, err
		}
		ev.Add("executions", 1)
		if !sup.Killed {
			// fewer mutating calls than in the count run (concurrent copy): nothing was interrupted
			ev.Case(false, "", "k-beyond-end")
			continue
		}
		if len(sup.Calls) == 0 || sup.Calls[len(sup.Calls)-1].N != k {
			return out, inconclusive("kill run report does not end at call %d", k)
		}
		d := len(kres.Outcomes)
		if d >= len(victim) {
			return out, inconclusive("kill at k=%d but all %d victim ops had returned", k, len(victim))
		}
		at := sup.Calls[len(sup.Calls)-1]
		win := windowOf(sup.Calls, k)
		C := readState(lay)
		crashSummary := C.Summary()
		// digests explicitly pushed (blob / manifest put) by operations that had returned
		explicit := map[string]bool{}
		for _, op := range pre {
			if op.Op == "blob" || op.Op == "manifest" {
				explicit[op.Digest] = true
			}
		}
		for i := 0; i < d; i++ {
			if (victim[i].Op == "blob" || victim[i].Op == "manifest") && ref.Outcomes[i].OK {
				explicit[victim[i].Digest] = true
			}
		}
		vs := judgeCrash(ref, d, C, explicit)
		markerDefect := ref.S[d].Valid() && C.Marker == "empty"
		consequence := ""
		if markerDefect {
			// Document what the empty marker leads to on an untouched copy, then repair the
			// marker (independent writer) so that clauses (5) and (7) still search for
			// anything that is NOT explained by it.
			raw := lay + ".raw"
			if err := copyTree(lay, raw); err != nil {
				return out, inconclusive("%v", err)
			}
			r2, err := e.runPlain(script{Dir: raw, Victim: victim, From: d, ReadCheck: true})
			if err != nil {
				return out, err
			}
			R2 := readState(raw)
			var lost []string
			Sm := ref.S[len(ref.S)-1]
			for _, t := range sortedKeys(Sm.Tags) {
				if _, ok := R2.Tags[t]; !ok || R2.TagValue(t) != Sm.TagValue(t) {
					lost = append(lost, t)
				}
			}
			le := "(listing worked)"
			if r2.RC != nil && r2.RC.ListErr != "" {
				le = r2.RC.ListErr
			}
			consequence = fmt.Sprintf("\nconsequences on the directory as the crash left it: a fresh client lists tags -> %s; after repeating the interrupted operation the layout is %s, uninterrupted run %s; tags lost or different: %v",
				le, R2.Summary(), Sm.Summary(), lost)
			_ = os.RemoveAll(raw)
			if err := os.WriteFile(filepath.Join(lay, "oci-layout"), []byte(`{"imageLayoutVersion":"1.0.0"}`), 0o666); err != nil {
				return out, inconclusive("%v", err)
			}
			C = readState(lay)
			ev.Class("marker-repaired-to-continue")
		}
		C.Preload()
		// (5) + (7): one fresh client process lists/gets, then repeats the interrupted suffix
		fres, err := e.runPlain(script{Dir: lay, Victim: victim, From: d, ReadCheck: true})
		if err != nil {
			return out, err
		}
		vs = append(vs, judgeFresh(C, fres.RC)...)
		R := readState(lay)
		for i := d; i < len(victim); i++ {
			if (victim[i].Op == "blob" || victim[i].Op == "manifest") && ref.Outcomes[i].OK {
				explicit[victim[i].Digest] = true
			}
		}
		for _, v := range judgeRerun(ref, d, C, R, fres, victim, explicit) {
			if v.Sig == "rerun-leaves-incomplete-image" {
				// which kind of operation was interrupted is part of the specific behaviour
				v.Sig += "-after-interrupted-" + kinds[d]
			}
			vs = append(vs, v)
		}

		nt := populated
		key := kinds[d] + "|" + sysClass(at) + "|" + pcl
		labels := []string{"victim:" + kinds[d], "sys:" + sysClass(at), "pre:" + pcl, fmt.Sprintf("done-before-kill:%d", d)}
		if win != "" {
			labels = append(labels, "window:"+win)
		}
		if len(vs) == 0 {
			labels = append(labels, "verdict:holds")
		} else {
			labels = append(labels, "verdict:violation")
		}
		ev.Case(nt, key, labels...)
		for _, v := range vs {
			v.Msg = fmt.Sprintf("%s\n  crash position k=%d of %d: SIGKILL on entry to [%s] (window %q), during victim op %d = %s (%d op(s) had returned)\n  before the op: %s\n  after the crash: %s%s",
				v.Msg, k, N, at, win, d, victim[d].what, d, ref.S[d].Summary(), crashSummary, map[bool]string{true: consequence}[v.Sig == "oci-layout-marker-truncated"])
			out = append(out, finding{V: v, K: k})
		}
	}
	return out, nil
}

// verbose, when set, receives every finding (known ones included).
var verbose func(string)

// report hands every finding to the collector (known signatures are counted
// there) and returns the first one that is not known.
func report(ev *evid.Collector, c Case, fs []finding) *evid.Violation {
	if verbose != nil {
		for _, f := range fs {
			verbose(fmt.Sprintf("finding (known=%v) %s: %s", ev.IsKnown(f.V.Sig), f.V.Sig, f.V.Msg))
		}
	}
	var first *evid.Violation
	seen := map[string]bool{}
	// unknown signatures first, in clause order; one record per signature and script
	for pass := 0; pass < 2; pass++ {
		for _, f := range fs {
			known := ev.IsKnown(f.V.Sig)
			if (pass == 0) == known {
				continue
			}
			if !known && seen[f.V.Sig] {
				continue
			}
			seen[f.V.Sig] = true
			c2 := c
			c2.K = KSel{Mode: "exact", Ks: []int{f.K}}
			for _, op := range c.Victim {
				if op.Kind == "copy" {
					// concurrent blob copies: the position of a window moves by a few calls between runs
					c2.K.Ks = []int{f.K - 3, f.K - 2, f.K - 1, f.K, f.K + 1, f.K + 2, f.K + 3}
					break
				}
			}
			if ev.Report(f.V, c2) && first == nil {
				first = f.V
			}
		}
	}
	return first
}

func runCase(ev *evid.Collector, c Case, shard, nshards int) (*evid.Violation, error) {
	var fs []finding
	var err error
	v := evid.Guard(func() *evid.Violation {
		fs, err = checkSharded(c, ev, shard, nshards)
		return nil
	})
	if v != nil { // a panic in the harness itself
		return nil, inconclusive("%v", v)
	}
	return report(ev, c, fs), err
}

// ------------------------------------------------------------------ tests

func TestVerifProp(t *testing.T) {
	ev := evid.For(prop)
	rapid.Check(t, func(rt *rapid.T) {
		c := gen(rt)
		v, err := runCase(ev, c, 0, 1)
		if v != nil {
			rt.Fatalf("%v", v)
		}
		if err != nil {
			rt.Fatalf("%v", err)
		}
	})
}

// TestVerifKinds: the quantifier's operation kinds, each from an empty and
// from a populated layout, every crash position (exhaustive over k).
func TestVerifKinds(t *testing.T) {
	ev := evid.For(prop)
	shard, _ := strconv.Atoi(os.Getenv("VERIF_SHARD_INDEX"))
	nshards, _ := strconv.Atoi(os.Getenv("VERIF_NSHARDS"))
	if nshards < 1 {
		nshards = 1
	}
	for i, c := range kindMatrix() {
		heavy := false
		for _, op := range c.Victim {
			heavy = heavy || op.Kind == "copy" || op.Kind == "import"
		}
		var v *evid.Violation
		var err error
		if heavy {
			// many crash positions: every shard takes a residue class of k (rotated per script)
			v, err = runCase(ev, c, mod(shard+i, nshards), nshards)
		} else if mod(i, nshards) == shard {
			v, err = runCase(ev, c, 0, 1)
		}
		if v != nil {
			t.Errorf("matrix case %d: %v", i, v)
		}
		if err != nil {
			t.Fatalf("matrix case %d: %v", i, err)
		}
	}
	if shard == 0 {
		ev.Set("kind_matrix_scripts", len(kindMatrix()))
		ev.Set("exhaustive_k_kind_matrix", true)
		ev.Set("exhaustive_k_kind_matrix_space", "every crash position k in 1..N of every script of the fixed kind matrix (and, in the thorough tier, of every generated script)")
	}
}

func TestVerifReplayDir(t *testing.T) {
	ev := evid.For(prop)
	for _, f := range evid.ReplayFiles() {
		var c Case
		if err := evid.LoadCaseFile(f, &c); err != nil {
			t.Fatalf("%s: %v", f, err)
		}
		v, err := runCase(ev, c, 0, 1)
		if v != nil {
			t.Errorf("%s: %v", f, v)
		}
		if err != nil {
			t.Fatalf("%s: %v", f, err)
		}
	}
}

func TestVerifReplay(t *testing.T) {
	ev := evid.For(prop)
	var c Case
	ok, err := evid.LoadReplay(&c)
	if !ok {
		t.Skip("no VERIF_REPLAY")
	}
	if err != nil {
		t.Fatal(err)
	}
	verbose = func(s string) { t.Log(s) }
	defer func() { verbose = nil }()
	// crash positions of concurrent operations (image copy) can move between runs
	reps := 1
	for _, op := range c.Victim {
		if op.Kind == "copy" && c.K.Mode == "exact" {
			reps = 5
		}
	}
	for i := 0; i < reps; i++ {
		v, err := runCase(ev, c, 0, 1)
		if v != nil {
			t.Fatalf("%v", v)
		}
		if err != nil {
			t.Fatal(err)
		}
	}
}

// ------------------------------------------------------------------ the fixed kind matrix

func populatedPre() []Op {
	return []Op{
		{Kind: "put", Obj: Obj{"image", 0}, Tag: "v1", Deep: true},
		{Kind: "put", Obj: Obj{"index", 0}, Tag: "v2", Deep: true},
		{Kind: "put", Obj: Obj{"artifact", 0}, Deep: true},              // referrer of image0, by digest
		{Kind: "put", Obj: Obj{"image", 2}, Tag: "old", Deep: true},     // becomes garbage:
		{Kind: "put", Obj: Obj{"image", 3}, Tag: "old", Deep: true},     // ... overwritten
		{Kind: "put", Obj: Obj{"image", 4}, Tag: "a.b-c_d", Deep: true}, // sha512 layer
	}
}

func kindMatrix() []Case {
	victims := [][]Op{
		{{Kind: "blob", Obj: Obj{"blob", 5}}},
		{{Kind: "blob", Obj: Obj{"blob", 6}, NoDesc: false}},
		{{Kind: "blob", Obj: Obj{"blob", 2}, NoDesc: true}},
		{{Kind: "put", Obj: Obj{"image", 1}, Tag: "v3"}},
		{{Kind: "put", Obj: Obj{"image", 1}, Tag: "v1"}}, // overwrite an existing tag
		{{Kind: "put", Obj: Obj{"image", 1}}},            // untagged, by digest
		{{Kind: "put", Obj: Obj{"image", 1}, Child: true}},
		{{Kind: "put", Obj: Obj{"index", 3}, Tag: "v3"}},
		{{Kind: "put", Obj: Obj{"artifact", 1}}},             // second referrer of image0
		{{Kind: "put", Obj: Obj{"artifact", 2}, Tag: "sig"}}, // tagged referrer of index0
		{{Kind: "tagdel", Tag: "v1"}},
		{{Kind: "mandel", Obj: Obj{"image", 4}}},
		{{Kind: "mandel", Obj: Obj{"artifact", 0}}},
		{{Kind: "close"}},
		{{Kind: "tagdel", Tag: "v2"}, {Kind: "close"}},
		{{Kind: "copy", Src: "i1", Tag: "c1"}},
		{{Kind: "copy", Src: "x0", Tag: "c2", Referrers: true}},
		{{Kind: "copy", Src: "i1", Tag: "v1", DigestTags: true}},
		{{Kind: "copy", Src: "a0", Tag: "sig", Referrers: true}},
		{{Kind: "import", Obj: Obj{"image", 1}, Tag: "t1"}},
		{{Kind: "import", Obj: Obj{"index", 2}, Tag: "v1"}},
		{{Kind: "put", Obj: Obj{"image", 5}, Tag: "v1"}, {Kind: "tagdel", Tag: "old"}, {Kind: "close"}},
	}
	var out []Case
	for i, v := range victims {
		// from a populated layout
		out = append(out, Case{Pre: populatedPre(), Victim: v, Prep: true, K: KSel{Mode: "all"}})
		// from nothing at all (directory absent / present but empty)
		out = append(out, Case{Victim: v, Prep: false, DirExists: i%2 == 1, K: KSel{Mode: "all"}})
		// from a directory that holds only the blobs the victim's manifest refers to (no index yet)
		for _, op := range v {
			if op.Kind == "put" {
				out = append(out, Case{Victim: v, Prep: true, K: KSel{Mode: "all"}})
				break
			}
		}
	}
	return out
}
