// Package c03 decides C03: a successful image copy leaves the complete,
// byte-identical image at the target.
package c03

import (
	"bytes"
	"context"
	"fmt"
	"os"
	"strings"
	"testing"

	"pgregory.net/rapid"

	"github.com/regclient/regclient/zz_verif/audit"
	"github.com/regclient/regclient/zz_verif/copysc"
	"github.com/regclient/regclient/zz_verif/evid"
	rm "github.com/regclient/regclient/zz_verif/regmodel"
)

const prop = "C03"

func TestMain(m *testing.M) {
	code := m.Run()
	evid.Flush(code)
	os.Exit(code)
}

type Case = copysc.Case

func gen(t *rapid.T) Case {
	o := copysc.DefaultGen()
	o.Cancel = true // a caller that gives up mid-copy: the copy may fail, but a nil return still has to mean a complete image
	o.Damage = true // a layout target whose index lists the image while the manifest file is missing
	o.Align = true  // requests released in pairs in a quarter of the cases: the per-child goroutines reach the shared bookkeeping together
	return copysc.Gen(t, o)
}

func optKey(o copysc.CopyOpts) string {
	return fmt.Sprintf("f%v,r%v/%s/%s=%s,d%v,x%v,q%v,c%v", o.ForceRecursive, o.Referrers, o.RefArtifactType, o.RefAnnotKey, o.RefAnnotVal, o.DigestTags, o.IncludeExternal, o.FastCheck, o.Callback)
}

// verify checks clauses (1) and (2) against raw target storage.
func verify(e *copysc.Env, stage string) *evid.Violation {
	c := e.C
	tv := e.Tgt.View()
	// (1) the target reference resolves to the source digest
	if !c.TgtByDigest {
		d, ok := tv.Tag(e.TgtTag)
		if !ok {
			return evid.V("target-tag-absent", "%s: copy returned nil but target tag %q does not exist (pairing %s)", stage, e.TgtTag, c.Pairing)
		}
		if d != e.RootDig {
			return evid.V("target-tag-wrong-digest", "%s: target tag %q resolves to %s, source is %s (pairing %s)", stage, e.TgtTag, d, e.RootDig, c.Pairing)
		}
	}
	if _, _, ok := tv.Get(e.RootDig); !ok && !(stage == "after-close" && e.PreHas[e.RootDig] && e.ExemptLevel(e.RootDig) > 0) {
		return evid.V("target-root-manifest-absent", "%s: root manifest %s absent at target (pairing %s)", stage, e.RootDig, c.Pairing)
	}
	// (2) the required closure is present with identical bytes
	req, mans, probs := e.Required()
	if len(probs) > 0 {
		// the source itself must be complete (generator soundness)
		return &evid.Violation{Sig: "harness-source-incomplete", Msg: fmt.Sprintf("source closure has problems: %v", probs)}
	}
	for _, d := range copysc.SortedKeys(req) {
		got, _, ok := tv.Get(d)
		kind := "blob"
		if _, isM := mans[d]; isM {
			kind = "manifest"
		}
		if !ok && stage == "after-close" && e.PreHas[d] && e.ExemptLevel(d) > 0 {
			// a manifest that pre-existed unreferenced in the target layout and was trusted
			// (not pushed again) is garbage to the layout's collector; not required after Close
			continue
		}
		if !ok && e.UnderUnknownEntry(d, mans) {
			return evid.V("unknown-type-index-entry-error-swallowed", "%s: %s %s is required through an index entry of a media type the copy does not know as a manifest (e.g. OCI artifact manifest) "+
				"and is absent at the target although the copy returned nil: a failure while copying that entry's subtree is swallowed by the blob-copy fall-back (pairing %s, opts %s, pre %s)", stage, kind, d, c.Pairing, optKey(c.Opts), c.Pre.Mode)
		}
		if !ok {
			return evid.V("closure-"+kind+"-missing", "%s: %s %s of the source closure is absent at the target (pairing %s, opts %s, pre %s)", stage, kind, d, c.Pairing, optKey(c.Opts), c.Pre.Mode)
		}
		if !bytes.Equal(got, req[d]) {
			return evid.V("closure-"+kind+"-differs", "%s: %s %s differs at the target", stage, kind, d)
		}
	}
	// digest tags of every required manifest
	if c.Opts.DigestTags && c.Pairing != "same-repo" {
		sv := e.Src.View()
		for _, md := range copysc.SortedKeys(mans) {
			prefix := strings.Replace(md, ":", "-", 1)
			for _, t := range sv.Tags() {
				if !strings.HasPrefix(t, prefix) || t == prefix {
					continue
				}
				if _, isReq := req[md]; !isReq {
					continue
				}
				if ex := e.ExemptLevel(md); ex >= 2 {
					continue
				}
				sd, _ := sv.Tag(t)
				td, ok := tv.Tag(t)
				if !ok && e.UnderUnknownEntry(md, mans) {
					return evid.V("unknown-type-index-entry-error-swallowed", "%s: digest tag %q of %s (an index entry of a media type the copy does not know as a manifest) is absent at the target although the copy returned nil", stage, t, md)
				}
				if !ok {
					return evid.V("digest-tag-missing", "%s: digest tag %q of %s not present at the target", stage, t, md)
				}
				if td != sd {
					return evid.V("digest-tag-differs", "%s: digest tag %q resolves to %s at target, %s at source", stage, t, td, sd)
				}
			}
		}
	}
	// referrers are listed at a target without the referrers API through the fallback tag
	if c.Opts.Referrers && e.Tgt.Kind == "reg" && !e.Tgt.Host.Feat.Referrers && c.Pairing != "same-repo" {
		for _, md := range copysc.SortedKeys(mans) {
			if e.ExemptLevel(md) >= 2 {
				continue
			}
			want := []string{}
			for _, rd := range audit.RawReferrers(e.Src.View(), md) {
				if !e.RefMatch(rd) {
					continue
				}
				// a referrer manifest that already existed at the target is "trusted to be
				// complete": the client does not push it again, so its listing is not required
				if e.ExemptLevel(rd["digest"].(string)) > 0 {
					continue
				}
				want = append(want, rd["digest"].(string))
			}
			if len(want) == 0 {
				continue
			}
			ft := rm.FallbackTag(md)
			fd, ok := tv.Tag(ft)
			if !ok {
				return evid.V("referrers-fallback-tag-missing", "%s: target has no fallback tag %s although referrers %v were copied", stage, ft, want)
			}
			body, _, _ := tv.Get(fd)
			pm, err := rm.ParseManifest(body)
			if err != nil {
				return evid.V("referrers-fallback-unparsable", "%s: fallback index %s unparsable", stage, fd)
			}
			have := map[string]bool{}
			for _, rf := range pm.Refs {
				have[rf.Digest] = true
			}
			for _, w := range want {
				if !have[w] {
					return evid.V("referrers-fallback-incomplete", "%s: fallback index for %s at target lacks referrer %s", stage, md, w)
				}
			}
		}
	}
	if e.Tgt.Kind == "layout" {
		probs, _ := audit.LayoutProblems(e.Tgt.Dir)
		keep := probs[:0]
		for _, p := range probs {
			// "at most one entry per tag" is C06's statement, not C03's
			if !strings.Contains(p, "entries for tag") {
				keep = append(keep, p)
			}
		}
		if len(keep) > 0 {
			return evid.V("target-layout-invalid", "%s: %v", stage, keep)
		}
	}
	return nil
}

func check(c Case, ev *evid.Collector) *evid.Violation {
	e, err := copysc.Setup(c)
	if err != nil {
		return &evid.Violation{Sig: "harness-setup", Msg: err.Error()}
	}
	defer e.Close()
	g := c.Graph
	nt := g.HasLabel("has-index") || g.HasLabel("shared-blob") || g.HasLabel("duplicate-layer") || (c.Pre.Mode != "empty" && len(c.Pre.Keep) > 0)
	classes := []string{"pairing:" + c.Pairing, "pre:" + c.Pre.Mode}
	for _, l := range g.Labels {
		classes = append(classes, "graph:"+l)
	}
	if c.Opts.ForceRecursive {
		classes = append(classes, "opt:force-recursive")
	}
	if c.Opts.Referrers {
		classes = append(classes, "opt:referrers")
	}
	if c.Opts.DigestTags {
		classes = append(classes, "opt:digest-tags")
	}
	if c.Opts.IncludeExternal {
		classes = append(classes, "opt:include-external")
	}
	if c.Opts.FastCheck {
		classes = append(classes, "opt:fast-check")
	}
	if c.Opts.RefAnnotKey != "" {
		classes = append(classes, "opt:referrers-annotation-filter")
	}
	if c.Opts.Callback {
		classes = append(classes, "opt:callback")
	}
	if c.SrcForm != "" {
		classes = append(classes, "src-form:"+c.SrcForm)
	}
	classes = append(classes, c.ClientClasses()...)
	if g.Nodes[g.Root].Digest[:6] == "sha512" {
		classes = append(classes, "root-digest:sha512")
	}
	ctx := context.Background()
	cerr, timedOut := e.Copy(ctx)
	if timedOut {
		classes = append(classes, "outcome:watchdog")
		ev.Case(false, "", classes...)
		return nil
	}
	if cerr == nil && c.CancelAt > 0 {
		classes = append(classes, "outcome:success-although-the-caller-cancelled")
	}
	if cerr != nil {
		msg := cerr.Error()
		if len(msg) > 60 {
			msg = msg[:60]
		}
		classes = append(classes, "outcome:copy-error")
		ev.Case(false, "", classes...)
		ev.Class("copy-error:" + errClass(cerr.Error()))
		return nil
	}
	classes = append(classes, "outcome:success")
	ev.Case(nt, g.Shape()+"|"+c.Pairing+"|"+optKey(c.Opts)+"|"+c.Pre.Mode, classes...)
	ev.Sample(map[string]any{"pairing": c.Pairing, "pre": c.Pre.Mode, "pre_keep": len(c.Pre.Keep), "opts": c.Opts, "shape": g.Shape(), "requests": e.M.Requests()})
	if e.M.CapHit() {
		return nil
	}
	if v := verify(e, "after-copy"); v != nil {
		if os.Getenv("VERIF_DEBUG") != "" {
			fmt.Fprintf(os.Stderr, "%v\nroot=%s pre=%v pretag=%s bydigest=%v\n%s", v, e.RootDig, c.Pre, e.PreTag, c.TgtByDigest, e.DumpLog())
			for _, n := range c.Graph.Nodes {
				fmt.Fprintf(os.Stderr, "node %d %s %s subject=%s children=%v blobs=%v foreign=%v\n", n.ID, n.Kind, n.Digest, n.Subject, n.Children, n.Blobs, n.Foreign)
			}
			fmt.Fprintf(os.Stderr, "tags=%v\n", c.Graph.Tags)
			if e.Tgt.Kind == "layout" {
				b, _ := os.ReadFile(e.Tgt.Dir + "/index.json")
				fmt.Fprintf(os.Stderr, "index.json: %s\n", b)
			}
		}
		return v
	}
	// (3) layout targets: the same holds after Close (GC must not eat it)
	if e.Tgt.Kind == "layout" {
		if err := e.RC.Close(ctx, e.TgtRef); err != nil {
			return evid.V("close-error", "Close(target) failed: %v", err)
		}
		if v := verify(e, "after-close"); v != nil {
			v.Sig = "after-close-" + v.Sig
			if os.Getenv("VERIF_DEBUG") != "" {
				b, _ := os.ReadFile(e.Tgt.Dir + "/index.json")
				fmt.Fprintf(os.Stderr, "%v\nroot=%s pre=%v pretag=%s bydigest=%v opts=%+v\nindex.json: %s\n", v, e.RootDig, c.Pre, e.PreTag, c.TgtByDigest, c.Opts, b)
				for _, n := range c.Graph.Nodes {
					fmt.Fprintf(os.Stderr, "node %d %s %s subject=%s children=%v\n", n.ID, n.Kind, n.Digest, n.Subject, n.Children)
				}
			}
			return v
		}
	}
	return nil
}

func errClass(s string) string {
	for _, k := range []string{"not found", "unsupported", "digest mismatch", "unauthorized", "loop", "size", "canceled", "media type", "failed to mount", "manifest"} {
		if strings.Contains(strings.ToLower(s), k) {
			return k
		}
	}
	return "other"
}

func TestVerifProp(t *testing.T) {
	ev := evid.For(prop)
	rapid.Check(t, func(rt *rapid.T) {
		c := gen(rt)
		v := evid.Guard(func() *evid.Violation { return check(c, ev) })
		if ev.Report(v, c) {
			rt.Fatalf("%v", v)
		}
	})
}

func TestVerifReplayDir(t *testing.T) {
	ev := evid.For(prop)
	for _, f := range evid.ReplayFiles() {
		var c Case
		if err := evid.LoadCaseFile(f, &c); err != nil {
			t.Fatalf("%s: %v", f, err)
		}
		v := evid.Guard(func() *evid.Violation { return check(c, ev) })
		if ev.Report(v, c) {
			t.Errorf("%s: %v", f, v)
		}
	}
}

func TestVerifReplay(t *testing.T) {
	ev := evid.For(prop)
	var c Case
	ok, err := evid.LoadReplay(&c)
	if !ok {
		t.Skip("no VERIF_REPLAY")
	}
	if err != nil {
		t.Fatal(err)
	}
	for i := 0; i < 20; i++ {
		v := evid.Guard(func() *evid.Violation { return check(c, ev) })
		if ev.Report(v, c) {
			t.Fatalf("%v", v)
		}
	}
}
