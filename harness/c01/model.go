// Package c01 decides C01: a blob read completes cleanly only on content that
// matches the descriptor (digest, and size when stated) - for registries, OCI
// layouts, inline data, every slicing of the reads and after rewinds.
//
// model.go: the Case record (plain data), the generator (written against a
// small "chooser" interface so that rapid draws and native-fuzz bytes produce
// the same Case struct), content expansion and corruption functions, and the
// independent digest computation (crypto/* directly).
package c01

import (
	"archive/tar"
	"bytes"
	"compress/gzip"
	"crypto/sha256"
	"crypto/sha512"
	"encoding/hex"
	"fmt"
	"strings"
	"sync"

	"github.com/klauspost/compress/zstd"
	"github.com/ulikunitz/xz"
)

// ---------------------------------------------------------------- Case

// Case is one generated scenario.
type Case struct {
	Entry     string  `json:"entry"`                // reader | reg | ocidir | data
	Algo      string  `json:"algo"`                 // sha256 | sha512
	SizeKnown bool    `json:"size_known"`           // descriptor states a size (false: Size 0 = unknown)
	SizeDelta int     `json:"size_delta,omitempty"` // descriptor size = len(content)+SizeDelta (a descriptor whose size disagrees with its digest)
	Content   Content `json:"content"`              // the content the descriptor's digest names
	Passes    []Pass  `json:"passes"`               // pass 0, then one pass per rewind
	Mode      string  `json:"mode"`                 // loop | readall | copy | copy-direct | copybuf | copybuffer | copy-file | writeto | rawbody | ociconfig | tar-rawbody | tar-readfile | tar-walk
	ReadBufs  []int   `json:"read_bufs,omitempty"`  // loop mode: cyclic sequence of buffer sizes (0 = zero-length read)
	PostReads int     `json:"post_reads,omitempty"` // extra Read calls after the terminal result of every pass
	Tell      int     `json:"tell,omitempty"`       // loop mode: every Tell-th read is preceded by Seek(0, SeekCurrent) (0 = never)
	// entry reader
	Unseekable bool `json:"unseekable,omitempty"` // the generated io.Reader hides its Seek method
	// entry data
	Data    *Corruption `json:"data,omitempty"`    // inline Data = this corruption applied to the content
	Backing string      `json:"backing,omitempty"` // what BlobGet falls back to when the inline data is rejected: none | reg | ocidir
	// entry reg (and data backed by reg)
	RetryLimit    int  `json:"retry_limit,omitempty"`
	ReqConcurrent int  `json:"req_concurrent,omitempty"` // 0 = client default
	Redirect      bool `json:"redirect,omitempty"`       // blob GET answered by a redirect to a storage host
	RedirectStatus int         `json:"redirect_status,omitempty"` // 0 = 307
	External       int         `json:"external,omitempty"`        // k > 0: the registry does not hold the blob; the descriptor carries k URLs on an external host, the last one serves the stream (foreign layer fall-back)
	Mirror         *Corruption `json:"mirror,omitempty"`          // a mirror of the registry is configured and serves this corruption of the content (resumes may be stitched across hosts)
	// descriptor / reference / construction variants
	MediaType string `json:"media_type,omitempty"` // descriptor media type ("" = none, as regctl blob get passes it)
	RefForm   int    `json:"ref_form,omitempty"`   // 0 repository only, 1 :tag, 2 @digest, 3 :tag@digest
	ViaResp   bool   `json:"via_resp,omitempty"`   // entry reader: blob.WithResp(&http.Response{Body, Header}) instead of WithReader
	TarDirect bool   `json:"tar_direct,omitempty"` // entry reader, tar modes: blob.NewTarReader(WithReader, WithDesc) instead of BReader.ToTarReader
	// context state and seek noise
	Cancel  int  `json:"cancel,omitempty"`   // 0 live context; 1 cancelled before the blob is requested; 2 cancelled before the first rewind (or after the only pass); k >= 3 cancelled after k-3 Read calls of pass 0 (loop mode)
	BadSeek bool `json:"bad_seek,omitempty"` // loop mode: Seek(5, SeekStart) and Seek(-1, SeekEnd) are attempted before the second Read (documented to fail without effect)
}

// Content describes the intended blob content (expanded deterministically).
type Content struct {
	Kind  string    `json:"kind"` // raw | zeros | tar | json
	N     int       `json:"n,omitempty"`
	Seed  int       `json:"seed,omitempty"`
	Gzip  bool      `json:"gzip,omitempty"`
	Comp  string    `json:"comp,omitempty"` // tar: "" (see Gzip) | zstd | xz
	Files []TarFile `json:"files,omitempty"`
}

// TarFile is one regular file of a generated tar archive.
type TarFile struct {
	Name string `json:"name"`
	Size int    `json:"size"`
}

// Corruption turns the content into the stream that is actually served.
type Corruption struct {
	Kind string `json:"kind"` // none | flip | truncate | append | prepend | substitute | swap | rotate
	Pos  int    `json:"pos,omitempty"`
	N    int    `json:"n,omitempty"`
	Seed int    `json:"seed,omitempty"`
}

// Get prescribes the answer to one GET of the blob (entry reg).
type Get struct {
	Kind   string `json:"kind"`             // ok | status | full200 | full200-cr | wrong-off | wrong-bytes | other-blob | no-cr | 416 | alt2xx
	Status int    `json:"status,omitempty"` // kind status; kind alt2xx: a conforming answer sent with this 2xx status instead of 200/206
	Off    int    `json:"off,omitempty"`    // wrong-off: offset delta; wrong-bytes: position of the flipped byte
	LieCR  bool   `json:"lie_cr,omitempty"` // wrong-off: Content-Range claims the requested offset
	Fault  string `json:"fault,omitempty"`  // regmodel fault kind applied to this response: truncate | truncate-clean | stall | lie-cl | no-cl
	At     int    `json:"at,omitempty"`     // truncate offset within this response body / lie-cl delta
}

// Pass describes what the source does during one pass over the stream.
type Pass struct {
	Corr Corruption `json:"corr"`
	// delivery shaping (generated io.Reader, and HTTP response bodies)
	Chunks      []int `json:"chunks,omitempty"`        // cyclic maximum bytes per underlying Read (0 = a (0,nil) read)
	EOFWithData bool  `json:"eof_with_data,omitempty"` // the terminal result arrives together with the last bytes
	// entry reader only
	Terminal     string `json:"terminal,omitempty"`        // "" = io.EOF | ueof = io.ErrUnexpectedEOF | err = other error
	Transient    int    `json:"transient,omitempty"`       // k > 0: one transient error is returned at offset k-1, the stream then continues
	ZeroNilAtEnd bool   `json:"zero_nil_at_end,omitempty"` // a zero-length Read at the end returns (0, nil) like os.File
	// entries reader and reg: the headers (reader: blob.WithHeader) state the digest and length of the
	// stream that is actually served instead of the requested digest (a source vouching for its own bytes)
	HdrOfServed bool `json:"hdr_of_served,omitempty"`
	// HdrKind (takes precedence when set): none = no digest header | malformed = unparsable digest header |
	// otheralgo = digest of the served stream under the other algorithm | served | req
	HdrKind string `json:"hdr_kind,omitempty"`
	// entry reg only
	Gets []Get `json:"gets,omitempty"` // answers to the successive GETs of this pass (further GETs are answered correctly)
	// entry ocidir only
	Replace string `json:"replace,omitempty"` // how the blob file gets this pass' stream before the rewind: "" = rewritten in place | rename | keep
	// when another pass follows
	Stop int `json:"stop,omitempty"` // 0 = rewind after the end of this pass; k > 0 = rewind after k-1 Read calls
}

// ---------------------------------------------------------------- chooser

// chooser is the only source of choices of the generator.
type chooser interface {
	Int(lo, hi int, label string) int // inclusive
}

func chance(ch chooser, label string, num, den int) bool {
	return ch.Int(0, den-1, label) >= den-num
}

// weighted returns an index drawn with the given weights (index 0 is the
// simplest choice: shrinking moves towards it).
func weighted(ch chooser, label string, w ...int) int {
	tot := 0
	for _, x := range w {
		tot += x
	}
	v := ch.Int(0, tot-1, label)
	for i, x := range w {
		if v < x {
			return i
		}
		v -= x
	}
	return len(w) - 1
}

// bytesChooser decodes choices from a byte string (native fuzzing).
type bytesChooser struct {
	b []byte
	i int
}

func (c *bytesChooser) next() int {
	if c.i >= len(c.b) {
		return 0
	}
	v := int(c.b[c.i])
	c.i++
	return v
}

func (c *bytesChooser) Int(lo, hi int, _ string) int {
	n := hi - lo + 1
	if n <= 1 {
		return lo
	}
	v := c.next()
	if n > 256 {
		v = v<<8 | c.next()
	}
	if n > 65536 {
		v = v<<8 | c.next()
	}
	return lo + v%n
}

// ---------------------------------------------------------------- generator

var entrySets = map[string][]string{
	"mem": {"reader", "data"},
	"io":  {"reg", "ocidir"},
	"all": {"reader", "data", "reg", "ocidir"},
}

func genContent(ch chooser, mode string) Content {
	tarish := strings.HasPrefix(mode, "tar-")
	w := []int{60, 6, 8, 5, 6} // raw, zeros, tar, json, boundary/big raw
	if tarish {
		w = []int{25, 12, 50, 3, 10}
	}
	if mode == "ociconfig" {
		w = []int{30, 3, 3, 60, 4}
	}
	switch weighted(ch, "content", w...) {
	case 1:
		return Content{Kind: "zeros", N: []int{1024, 0, 1, 511, 512, 1536, 4608, 10240}[ch.Int(0, 7, "zeros")]}
	case 2:
		c := Content{Kind: "tar", Seed: ch.Int(0, 50, "cseed")}
		switch weighted(ch, "comp", 60, 30, 5, 5) {
		case 1:
			c.Gzip = true
		case 2:
			c.Comp = "zstd"
		case 3:
			c.Comp = "xz"
		}
		n := ch.Int(0, 3, "nfiles")
		for i := 0; i < n; i++ {
			c.Files = append(c.Files, TarFile{Name: fmt.Sprintf("d%d/f%d.txt", i%2, i), Size: []int{0, 1, 10, 511, 512, 700}[ch.Int(0, 5, "fsize")]})
		}
		return c
	case 3:
		return Content{Kind: "json", N: ch.Int(0, 40, "pad"), Seed: ch.Int(0, 50, "cseed")}
	case 4:
		return Content{Kind: "raw", Seed: ch.Int(0, 50, "cseed"),
			N: []int{511, 512, 513, 4095, 4096, 4097, 32767, 32768, 32769, 65536, 65537}[ch.Int(0, 10, "bign")]}
	}
	n := 0
	switch weighted(ch, "lenclass", 50, 10, 8, 32) {
	case 0:
		n = ch.Int(2, 40, "len")
	case 1:
		n = 0
	case 2:
		n = 1
	case 3:
		n = ch.Int(41, 300, "len")
	}
	return Content{Kind: "raw", N: n, Seed: ch.Int(0, 50, "cseed")}
}

// genPos draws a position by class {0, 1, mid, last, last+1, any}.
func genPos(ch chooser, label string, n int) int {
	if n <= 0 {
		return 0
	}
	switch weighted(ch, label+"_cls", 20, 10, 20, 25, 10, 15) {
	case 0:
		return 0
	case 1:
		return min(1, n)
	case 2:
		return n / 2
	case 3:
		return n - 1
	case 4:
		return n
	}
	return ch.Int(0, n, label)
}

func genCorruption(ch chooser, label string, n int, pNone int) Corruption {
	k := weighted(ch, label, pNone, 14, 14, 10, 4, 8, 4, 4)
	kind := []string{"none", "flip", "truncate", "append", "prepend", "substitute", "swap", "rotate"}[k]
	c := Corruption{Kind: kind}
	switch kind {
	case "flip":
		c.Pos = genPos(ch, label+"_pos", n-1)
		c.N = ch.Int(0, 7, label+"_bit")
	case "truncate":
		c.Pos = genPos(ch, label+"_pos", n-1)
	case "append", "prepend":
		c.N = []int{1, 1, 2, 5, 512, 40000}[weighted(ch, label+"_n", 30, 20, 20, 20, 7, 3)]
		c.Seed = ch.Int(0, 9, label+"_seed")
	case "substitute":
		c.N = []int{-1, -1, 0, 1, 7}[ch.Int(0, 4, label+"_n")] // -1 = same length
		c.Seed = ch.Int(0, 9, label+"_seed")
	case "swap", "rotate":
		c.Pos = genPos(ch, label+"_pos", n-2)
	}
	return c
}

func genChunks(ch chooser, n int) []int {
	k := ch.Int(0, 3, "nchunks")
	var out []int
	for i := 0; i < k; i++ {
		switch weighted(ch, "chunk", 25, 20, 15, 15, 15, 6, 4) {
		case 0:
			out = append(out, 1)
		case 1:
			out = append(out, ch.Int(2, 7, "chunkn"))
		case 2:
			out = append(out, max(1, n/2))
		case 3:
			out = append(out, max(1, n))
		case 4:
			out = append(out, max(1, n-1))
		case 5:
			out = append(out, 1<<20)
		case 6:
			out = append(out, 0)
		}
	}
	return out
}

var getKinds = []string{"ok", "status", "full200", "full200-cr", "wrong-off", "wrong-bytes", "other-blob", "no-cr", "416", "alt2xx"}

// genGet draws the answer to one GET. profile: 0 = first GET of a pass
// (mostly conforming), 1 = free form, 2 = answer to a range resume (hostile
// kinds are frequent).
func genGet(ch chooser, profile int, n int) Get {
	var g Get
	wk := []int{55, 12, 5, 3, 8, 7, 4, 3, 3, 3}
	switch profile {
	case 0:
		wk = []int{78, 12, 1, 1, 2, 2, 2, 0, 0, 4}
	case 2:
		wk = []int{36, 11, 8, 6, 12, 12, 5, 5, 5, 4}
	}
	g.Kind = getKinds[weighted(ch, "getkind", wk...)]
	switch g.Kind {
	case "status":
		g.Status = []int{500, 502, 504, 429, 408, 503, 404, 403, 416}[weighted(ch, "status", 30, 15, 15, 10, 10, 8, 4, 4, 4)]
		return g
	case "416":
		return g
	case "alt2xx":
		g.Status = []int{206, 203, 201, 202, 200}[ch.Int(0, 4, "alt2xx")]
	case "wrong-off":
		g.Off = []int{1, -1, 2, -2, 7, -7}[ch.Int(0, 5, "off")]
		g.LieCR = chance(ch, "liecr", 1, 2)
	case "wrong-bytes":
		g.Off = genPos(ch, "wb", n)
	}
	switch weighted(ch, "fault", 42, 35, 9, 5, 6, 3) {
	case 1:
		g.Fault = "truncate"
		g.At = genPos(ch, "at", n)
	case 2:
		g.Fault = "truncate-clean"
		g.At = genPos(ch, "at", n)
	case 3:
		g.Fault = "lie-cl"
		g.At = []int{-1, 1, -2, 2, -5, 5}[ch.Int(0, 5, "cld")]
	case 4:
		g.Fault = "no-cl"
	case 5:
		g.Fault = "stall"
		g.At = genPos(ch, "at", n)
	}
	return g
}

// genDrop is a conforming first answer whose body breaks strictly inside the
// stream (so that the client resumes with a Range request).
func genDrop(ch chooser, n int) Get {
	g := Get{Kind: "ok", Fault: []string{"truncate", "truncate-clean"}[weighted(ch, "dropkind", 80, 20)]}
	if n >= 2 {
		switch weighted(ch, "dropat", 25, 25, 25, 25) {
		case 0:
			g.At = 1
		case 1:
			g.At = n / 2
		case 2:
			g.At = n - 1
		case 3:
			g.At = ch.Int(1, n-1, "dropatn")
		}
		g.At = min(max(g.At, 1), n-1)
	}
	return g
}

func genPass(ch chooser, c *Case, idx int, n int) Pass {
	var p Pass
	pNone := 45
	if idx > 0 {
		pNone = 55
	}
	p.Corr = genCorruption(ch, "corr", n, pNone)
	p.Chunks = genChunks(ch, n)
	p.EOFWithData = chance(ch, "eofdata", 1, 3)
	p.HdrKind = []string{"", "served", "none", "malformed", "otheralgo"}[weighted(ch, "hdrkind", 60, 16, 8, 8, 8)]
	entry := c.Entry
	if entry == "data" {
		entry = c.Backing
	}
	switch entry {
	case "reader":
		p.Terminal = []string{"", "ueof", "err"}[weighted(ch, "terminal", 80, 12, 8)]
		if chance(ch, "transient", 1, 12) {
			p.Transient = 1 + genPos(ch, "transat", n)
		}
		p.ZeroNilAtEnd = chance(ch, "zeronil", 1, 4)
	case "reg":
		switch weighted(ch, "script", 30, 45, 25) {
		case 0: // conforming server, no faults
		case 1: // a connection drop inside the body, then the answers to the range resumes
			p.Gets = append(p.Gets, genDrop(ch, n))
			k := 1 + weighted(ch, "nresume", 55, 30, 15)
			for i := 0; i < k; i++ {
				p.Gets = append(p.Gets, genGet(ch, 2, n))
			}
		case 2: // free form
			k := 1 + weighted(ch, "ngets", 40, 30, 20, 10)
			for i := 0; i < k; i++ {
				prof := 1
				if i == 0 {
					prof = 0
				}
				p.Gets = append(p.Gets, genGet(ch, prof, n))
			}
		}
	case "ocidir":
		p.Replace = []string{"", "rename", "keep"}[weighted(ch, "replace", 55, 28, 17)]
	}
	return p
}

// gen draws a case. set selects the entry points ("mem", "io", "all").
func gen(ch chooser, set string) Case {
	var c Case
	entries := entrySets[set]
	if entries == nil {
		entries = entrySets["all"]
	}
	c.Entry = entries[ch.Int(0, len(entries)-1, "entry")]
	c.Algo = []string{"sha256", "sha512"}[weighted(ch, "algo", 65, 35)]
	c.SizeKnown = !chance(ch, "sizeunknown", 35, 100)
	c.Mode = []string{"loop", "readall", "copy", "copybuf", "rawbody", "ociconfig", "tar-rawbody", "tar-readfile", "tar-walk", "copy-direct", "copybuffer", "copy-file", "writeto"}[weighted(ch, "mode", 40, 8, 5, 4, 5, 4, 8, 9, 6, 3, 3, 2, 3)]
	c.Content = genContent(ch, c.Mode)
	n := len(expand(c.Content))
	if c.SizeKnown && chance(ch, "sizelie", 1, 16) {
		c.SizeDelta = []int{1, -1, 2, -2, 100}[ch.Int(0, 4, "sizedelta")]
	}
	if c.Mode == "loop" || c.Mode == "copybuffer" {
		k := ch.Int(1, 5, "nbufs")
		for i := 0; i < k; i++ {
			var b int
			switch weighted(ch, "buf", 22, 8, 25, 10, 10, 10, 5, 5, 5) {
			case 0:
				b = 1
			case 1:
				b = 0
			case 2:
				b = ch.Int(2, 9, "bufn")
			case 3:
				b = max(n-1, 1)
			case 4:
				b = max(n, 1)
			case 5:
				b = n + 1
			case 6:
				b = n + 2
			case 7:
				b = []int{512, 4096, 32768}[ch.Int(0, 2, "bufbig")]
			case 8:
				b = max(n/2, 1)
			}
			c.ReadBufs = append(c.ReadBufs, b)
		}
		if chance(ch, "tell", 1, 6) {
			c.Tell = ch.Int(1, 3, "telln")
		}
	}
	c.PostReads = []int{0, 1, 2, 3}[weighted(ch, "post", 40, 30, 20, 10)]
	switch c.Entry {
	case "reader":
		c.Unseekable = chance(ch, "unseekable", 1, 12)
	case "data":
		d := genCorruption(ch, "data", n, 45)
		c.Data = &d
		c.Backing = []string{"reg", "ocidir", "none"}[weighted(ch, "backing", 50, 30, 20)]
	}
	if c.Entry == "reg" || c.Backing == "reg" {
		c.RetryLimit = []int{3, 1, 2, 4, 6}[weighted(ch, "retry", 40, 5, 15, 22, 18)]
		c.ReqConcurrent = []int{50, 0, 1, 2}[weighted(ch, "conc", 60, 25, 5, 10)]
		switch weighted(ch, "topology", 60, 16, 12, 12) {
		case 1:
			c.Redirect = true
			c.RedirectStatus = []int{0, 302, 301, 303, 308}[weighted(ch, "rstatus", 50, 20, 10, 10, 10)]
		case 2:
			c.External = 1 + weighted(ch, "nurls", 70, 30)
		case 3:
			m := genCorruption(ch, "mirror", n, 40)
			c.Mirror = &m
		}
	}
	c.MediaType = []string{"application/octet-stream", "", "application/vnd.oci.image.layer.v1.tar+gzip", "application/vnd.oci.image.config.v1+json"}[weighted(ch, "mt", 40, 30, 15, 15)]
	c.RefForm = weighted(ch, "refform", 55, 15, 15, 15)
	if c.Entry == "reader" {
		c.ViaResp = chance(ch, "viaresp", 1, 5)
		c.TarDirect = strings.HasPrefix(c.Mode, "tar-") && chance(ch, "tardirect", 1, 3)
	}
	switch weighted(ch, "cancel", 88, 3, 4, 5) {
	case 1:
		c.Cancel = 1
	case 2:
		c.Cancel = 2
	case 3:
		c.Cancel = 3 + ch.Int(0, 6, "cancelat")
	}
	c.BadSeek = c.Mode == "loop" && chance(ch, "badseek", 1, 10)
	np := 1
	if !strings.HasPrefix(c.Mode, "tar-") && c.Mode != "ociconfig" {
		np = 1 + weighted(ch, "npasses", 62, 30, 8)
	}
	for i := 0; i < np; i++ {
		p := genPass(ch, &c, i, n)
		if i < np-1 {
			if c.Mode == "loop" {
				p.Stop = []int{0, 1, 2, 3, 4, 6, 9}[weighted(ch, "stop", 40, 8, 12, 12, 10, 10, 8)]
			} else {
				p.Stop = []int{0, 1}[weighted(ch, "stop", 85, 15)]
			}
		}
		c.Passes = append(c.Passes, p)
	}
	return c
}

// normalise clamps every field to its domain so that replayed / fuzz-decoded /
// hand-written cases are always interpretable (total).
func normalise(c *Case) {
	switch c.Entry {
	case "reader", "reg", "ocidir", "data":
	default:
		c.Entry = "reader"
	}
	if c.Algo != "sha512" {
		c.Algo = "sha256"
	}
	switch c.Mode {
	case "loop", "readall", "copy", "copybuf", "rawbody", "ociconfig", "tar-rawbody", "tar-readfile", "tar-walk", "copy-direct", "copybuffer", "copy-file", "writeto":
	default:
		c.Mode = "loop"
	}
	if c.External < 0 || c.External > 3 {
		c.External = 0
	}
	if c.External > 0 {
		c.Redirect, c.Mirror = false, nil
	}
	if c.Mirror != nil {
		c.Redirect = false
	}
	switch c.RedirectStatus {
	case 0, 301, 302, 303, 307, 308:
	default:
		c.RedirectStatus = 0
	}
	if c.RefForm < 0 || c.RefForm > 3 {
		c.RefForm = 0
	}
	if c.Cancel < 0 || c.Cancel > 40 {
		c.Cancel = 0
	}
	if len(c.MediaType) > 100 {
		c.MediaType = ""
	}
	if c.Entry != "reader" {
		c.ViaResp, c.TarDirect = false, false
	}
	if c.Content.N < 0 {
		c.Content.N = 0
	}
	if c.Content.N > 70000 {
		c.Content.N = 70000
	}
	if len(c.Content.Files) > 6 {
		c.Content.Files = c.Content.Files[:6]
	}
	for i := range c.Content.Files {
		f := &c.Content.Files[i]
		if f.Size < 0 || f.Size > 5000 {
			f.Size = 0
		}
		if f.Name == "" || len(f.Name) > 90 || f.Name == absentFile {
			f.Name = fmt.Sprintf("f%d", i)
		}
	}
	if len(c.Passes) == 0 {
		c.Passes = []Pass{{}}
	}
	if len(c.Passes) > 4 {
		c.Passes = c.Passes[:4]
	}
	if strings.HasPrefix(c.Mode, "tar-") || c.Mode == "ociconfig" {
		c.Passes = c.Passes[:1]
	}
	if len(c.ReadBufs) > 16 {
		c.ReadBufs = c.ReadBufs[:16]
	}
	for i, b := range c.ReadBufs {
		if b < 0 || b > 1<<20 {
			c.ReadBufs[i] = 1
		}
	}
	if len(c.ReadBufs) == 0 {
		c.ReadBufs = []int{7}
	}
	if c.PostReads < 0 || c.PostReads > 8 {
		c.PostReads = 0
	}
	if c.Tell < 0 {
		c.Tell = 0
	}
	if !c.SizeKnown {
		c.SizeDelta = 0
	}
	if c.Entry == "data" {
		if c.Data == nil {
			c.Data = &Corruption{Kind: "none"}
		}
		if c.Backing != "reg" && c.Backing != "ocidir" {
			c.Backing = "none"
		}
	} else {
		c.Data = nil
		c.Backing = ""
	}
	if c.RetryLimit < 1 || c.RetryLimit > 8 {
		c.RetryLimit = 3
	}
	if c.ReqConcurrent < 0 || c.ReqConcurrent > 100 {
		c.ReqConcurrent = 0
	}
	for i := range c.Passes {
		p := &c.Passes[i]
		if len(p.Chunks) > 8 {
			p.Chunks = p.Chunks[:8]
		}
		pos := false
		for j, x := range p.Chunks {
			if x < 0 {
				p.Chunks[j] = 1
				x = 1
			}
			if x > 0 {
				pos = true
			}
		}
		if !pos {
			p.Chunks = append(p.Chunks, 1<<20)
		}
		if len(p.Gets) > 8 {
			p.Gets = p.Gets[:8]
		}
		if p.Stop < 0 {
			p.Stop = 0
		}
		if p.Transient < 0 {
			p.Transient = 0
		}
		if p.Corr.Kind == "" {
			p.Corr.Kind = "none"
		}
		if p.Corr.N > 70000 {
			p.Corr.N = 70000
		}
	}
}

// ---------------------------------------------------------------- content

func fillByte(seed, i int) byte {
	x := uint64(seed+1)*0x9E3779B97F4A7C15 + uint64(i)*0xBF58476D1CE4E5B9
	x ^= x >> 31
	x *= 0x94D049BB133111EB
	x ^= x >> 29
	return byte(x >> 24)
}

func fill(seed, n int) []byte {
	b := make([]byte, n)
	for i := range b {
		b[i] = fillByte(seed, i)
	}
	return b
}

var (
	zstdOnce sync.Once
	zstdEnc  *zstd.Encoder
)

// zstdEncoder is one shared single-threaded encoder (creating one per content is expensive).
func zstdEncoder() *zstd.Encoder {
	zstdOnce.Do(func() {
		zstdEnc, _ = zstd.NewWriter(nil, zstd.WithEncoderConcurrency(1), zstd.WithEncoderLevel(zstd.SpeedFastest))
	})
	return zstdEnc
}

// expand builds the content bytes of a Content description (pure).
func expand(c Content) []byte {
	switch c.Kind {
	case "zeros":
		return make([]byte, c.N)
	case "json":
		return []byte(fmt.Sprintf(`{"architecture":"amd64","os":"linux","config":{"Env":["S=%d"]},"rootfs":{"type":"layers","diff_ids":[]},"pad":"%s"}`,
			c.Seed, strings.Repeat("x", c.N)))
	case "tar":
		var buf bytes.Buffer
		tw := tar.NewWriter(&buf)
		for i, f := range c.Files {
			_ = tw.WriteHeader(&tar.Header{Name: f.Name, Mode: 0o644, Size: int64(f.Size), Typeflag: tar.TypeReg, Format: tar.FormatUSTAR})
			_, _ = tw.Write(fill(c.Seed+i, f.Size))
		}
		_ = tw.Close()
		switch c.Comp {
		case "zstd":
			if enc := zstdEncoder(); enc != nil {
				return enc.EncodeAll(buf.Bytes(), nil)
			}
		case "xz":
			var xb bytes.Buffer
			if xw, err := (xz.WriterConfig{DictCap: 1 << 16}).NewWriter(&xb); err == nil {
				_, _ = xw.Write(buf.Bytes())
				_ = xw.Close()
				return xb.Bytes()
			}
		}
		if !c.Gzip {
			return buf.Bytes()
		}
		var gz bytes.Buffer
		zw, _ := gzip.NewWriterLevel(&gz, gzip.BestSpeed)
		_, _ = zw.Write(buf.Bytes())
		_ = zw.Close()
		return gz.Bytes()
	}
	return fill(c.Seed, c.N)
}

// apply returns the served stream: the corruption applied to content. Every
// kind is total; on an empty content the positional kinds degrade to "append".
func (k Corruption) apply(content []byte) []byte {
	n := len(content)
	out := append([]byte{}, content...)
	mod := func(x, m int) int {
		if m <= 0 {
			return 0
		}
		x %= m
		if x < 0 {
			x += m
		}
		return x
	}
	extra := func(cnt int) []byte {
		if cnt < 1 {
			cnt = 1
		}
		return fill(1000+k.Seed, cnt)
	}
	switch k.Kind {
	case "flip":
		if n == 0 {
			return extra(1)
		}
		out[mod(k.Pos, n)] ^= 1 << uint(mod(k.N, 8))
	case "truncate":
		if n == 0 {
			return extra(1)
		}
		return out[:mod(k.Pos, n)]
	case "append":
		return append(out, extra(k.N)...)
	case "prepend":
		return append(extra(k.N), out...)
	case "substitute":
		l := k.N
		if l < 0 {
			l = n
		}
		return fill(2000+k.Seed, l)
	case "swap":
		if n < 2 {
			return append(out, extra(1)...)
		}
		i := mod(k.Pos, n-1)
		out[i], out[i+1] = out[i+1], out[i]
	case "rotate":
		if n < 2 {
			return append(out, extra(1)...)
		}
		r := 1 + mod(k.Pos, n-1)
		return append(append([]byte{}, content[r:]...), content[:r]...)
	}
	return out
}

// posClass labels a position for the distinctness key.
func posClass(pos, n int) string {
	switch {
	case n <= 0:
		return "empty"
	case pos <= 0:
		return "0"
	case pos >= n:
		return "last+1"
	case pos == n-1:
		return "last"
	}
	return "mid"
}

// digestOf computes "<algo>:<hex>" with crypto/* directly.
func digestOf(algo string, b []byte) string {
	if algo == "sha512" {
		s := sha512.Sum512(b)
		return "sha512:" + hex.EncodeToString(s[:])
	}
	s := sha256.Sum256(b)
	return "sha256:" + hex.EncodeToString(s[:])
}

const absentFile = "verif-no-such-file"
