//go:build !verif

package c01

func setThrottleHook(w *regWorld) {}
func clearThrottleHook()          {}

const throttleHookAvailable = false
