package c01

import (
	"bytes"
	"context"
	"encoding/json"
	"errors"
	"fmt"
	"io"
	"math/bits"
	"os"
	"path/filepath"
	"runtime"
	"sort"
	"strconv"
	"strings"
	"sync/atomic"
	"testing"
	"time"

	"pgregory.net/rapid"

	"github.com/regclient/regclient/types/blob"
	"github.com/regclient/regclient/types/descriptor"
	"github.com/regclient/regclient/types/errs"
	"github.com/regclient/regclient/zz_verif/evid"
)

const prop = "C01"

func TestMain(m *testing.M) {
	go watchdog()
	code := m.Run()
	evid.Flush(code)
	os.Exit(code)
}

// ---------------------------------------------------------------- watchdog (inconclusive, never a violation)

var caseStart atomic.Int64 // unix nanos of the running case, 0 = idle

func watchdog() {
	for {
		time.Sleep(2 * time.Second)
		st := caseStart.Load()
		if st != 0 && time.Since(time.Unix(0, st)) > 150*time.Second {
			buf := make([]byte, 1<<16)
			n := runtime.Stack(buf, true)
			fmt.Fprintf(os.Stderr, "WATCHDOG: one case has been running for more than 150 s (inconclusive)\n%s\n", buf[:n])
			os.Exit(3)
		}
	}
}

// ---------------------------------------------------------------- rapid chooser

type rapidChooser struct{ t *rapid.T }

// Int composes the value from fair coin flips: rapid.IntRange is strongly
// biased towards small values (42% of IntRange(0,99) falls into the first
// decile), which would distort every weight of the generator. Bools are
// uniform and shrink to false, i.e. the value still shrinks towards lo (the
// simplest choice of every alternative).
func (r rapidChooser) Int(lo, hi int, label string) int {
	n := hi - lo + 1
	if n <= 1 {
		return lo
	}
	nbits := bits.Len(uint(n-1)) + 6
	v := 0
	for i := 0; i < nbits; i++ {
		v <<= 1
		if rapid.Bool().Draw(r.t, label) {
			v |= 1
		}
	}
	return lo + v%n
}

// ---------------------------------------------------------------- oracle

// verify is clause (1)/(2): the bytes hash to the descriptor's digest and,
// when the descriptor states a size, number exactly that many.
func verify(algo, dig string, declSize int, got []byte) (ok bool, what string) {
	if digestOf(algo, got) != dig {
		return false, "wrong-bytes"
	}
	if declSize > 0 && len(got) != declSize {
		return false, "wrong-size"
	}
	return true, ""
}

type passOutcome struct {
	got         []byte
	errMsgs     []string
	firstErr    error
	cleanAt     []int  // len(got) at every clean end (bare io.EOF / nil from the whole-stream helpers)
	cleanAfter  []bool // whether an error had been returned earlier in the pass
	interrupted bool   // stopped for the rewind before the stream ended
	noProgress  bool   // the consumer gave up on a reader that returns (0, nil) forever
	reads       int
	noBytes     bool // the mode hands no bytes to the caller (tar-readfile, ociconfig, tar-walk)
	walk        bool // tar-walk: the clean end is only judged when the source was drained
	seekWorked  bool // an arbitrary Seek succeeded: the bytes handed out are no longer the whole stream
	usedWriterTo bool
	infraErr     string
}

// loopHooks are actions interleaved with the Read calls of pass 0 (loop mode).
type loopHooks struct {
	cancelAt int // >= 0: cancel() before that Read call
	cancel   func()
	badSeek  bool
}

func (o *passOutcome) clean(afterErr bool) {
	o.cleanAt = append(o.cleanAt, len(o.got))
	o.cleanAfter = append(o.cleanAfter, afterErr)
}

func (o *passOutcome) fail(err error) {
	if o.firstErr == nil {
		o.firstErr = err
	}
	if len(o.errMsgs) < 4 {
		o.errMsgs = append(o.errMsgs, err.Error())
	}
}

// readLoop performs Read calls with the case's buffer sizes. It stops for a
// rewind after stopAfter calls (if >= 0 and the stream has not ended), and
// performs post extra calls after the first terminal result.
func readLoop(br *blob.BReader, o *passOutcome, bufs []int, tell int, stopAfter int, post int, startIdx int, hk *loopHooks) {
	maxb := 1
	for _, b := range bufs {
		maxb = max(maxb, b)
	}
	buf := make([]byte, maxb)
	terminal := o.firstErr != nil || len(o.cleanAt) > 0
	zero := 0
	for i := startIdx; ; i++ {
		if !terminal && stopAfter >= 0 && i >= stopAfter {
			o.interrupted = true
			return
		}
		if terminal {
			if post <= 0 {
				return
			}
			post--
		}
		if hk != nil && hk.cancelAt >= 0 && i == hk.cancelAt && hk.cancel != nil {
			hk.cancel()
		}
		if hk != nil && hk.badSeek && i == 1 {
			// arbitrary seeks are documented to fail and must leave the stream alone
			_, e1 := br.Seek(5, io.SeekStart)
			_, e2 := br.Seek(-1, io.SeekEnd)
			if e1 == nil || e2 == nil {
				o.seekWorked = true
				return
			}
		}
		if tell > 0 && i%tell == tell-1 {
			_, _ = br.Seek(0, io.SeekCurrent)
		}
		size := bufs[i%len(bufs)]
		n, err := br.Read(buf[:size])
		o.reads++
		if n < 0 || n > size {
			panic(fmt.Sprintf("Read returned n=%d for a buffer of %d bytes", n, size))
		}
		o.got = append(o.got, buf[:n]...)
		switch {
		case err == io.EOF:
			o.clean(o.firstErr != nil)
			terminal = true
		case err != nil:
			o.fail(err)
			terminal = true
		case n == 0:
			zero++
			if zero > 3*spinLimit {
				o.noProgress = true
				return
			}
		default:
			zero = 0
		}
	}
}

// spinGuard passes Read through unchanged and only breaks a consumer that
// would loop forever on a reader returning (0, nil) without end.
type spinGuard struct {
	r    io.Reader
	zero int
	o    *passOutcome
}

func (g *spinGuard) Read(p []byte) (int, error) {
	n, err := g.r.Read(p)
	if n == 0 && err == nil {
		g.zero++
		if g.zero > 3*spinLimit {
			g.o.noProgress = true
			return 0, errSpin
		}
	} else {
		g.zero = 0
	}
	return n, err
}

type plainWriter struct{ w io.Writer }

func (p plainWriter) Write(b []byte) (int, error) { return p.w.Write(b) }

// consume runs pass p of the case over the reader.
func consume(c *Case, p int, br *blob.BReader, last bool, w world, desc descriptor.Descriptor, cancel func()) *passOutcome {
	o := &passOutcome{}
	var hk *loopHooks
	if p == 0 && (c.Cancel >= 3 || c.BadSeek) {
		hk = &loopHooks{cancelAt: -1, cancel: cancel, badSeek: c.BadSeek}
		if c.Cancel >= 3 {
			hk.cancelAt = c.Cancel - 3
		}
	}
	stopAfter := -1
	if !last && c.Passes[p].Stop > 0 {
		stopAfter = c.Passes[p].Stop - 1
	}
	whole := func(b []byte, err error) {
		o.got = append(o.got, b...)
		if err == nil {
			o.clean(false)
		} else {
			o.fail(err)
		}
	}
	switch c.Mode {
	case "loop":
		readLoop(br, o, c.ReadBufs, c.Tell, stopAfter, c.PostReads, 0, hk)
		return o
	case "tar-rawbody", "tar-readfile", "tar-walk":
		var tr *blob.BTarReader
		if rw, ok := w.(*readerWorld); ok && c.TarDirect {
			tr = rw.tarDirect(desc)
		} else {
			var err error
			tr, err = br.ToTarReader()
			if err != nil {
				o.fail(err)
				return o
			}
		}
		if c.Mode == "tar-walk" {
			// what regctl blob diff-layer does: walk every entry of the archive to its end, then Close
			o.noBytes, o.walk = true, true
			trd, err := tr.GetTarReader()
			if err != nil {
				o.fail(err)
				return o
			}
			for k := 0; k < 10000; k++ {
				_, err := trd.Next()
				if err == io.EOF {
					if err := tr.Close(); err != nil {
						o.fail(err)
					} else {
						o.clean(false)
					}
					return o
				}
				if err != nil {
					o.fail(err)
					return o
				}
				if _, err := io.Copy(io.Discard, trd); err != nil {
					o.fail(err)
					return o
				}
			}
			o.fail(errors.New("harness: archive has more than 10000 entries"))
			return o
		}
		if c.Mode == "tar-rawbody" {
			b, err := tr.RawBody()
			whole(b, err)
			return o
		}
		o.noBytes = true
		_, _, err := tr.ReadFile(absentFile)
		switch {
		case err == errs.ErrFileNotFound:
			// the designated result of a completed scan (the whole blob was read and verified)
			o.clean(false)
		case err == nil:
			o.fail(errors.New("harness: ReadFile found the absent file"))
		default:
			o.fail(err)
		}
		return o
	case "ociconfig":
		o.noBytes = true
		_, err := br.ToOCIConfig()
		if err == nil {
			o.clean(false)
		} else {
			o.fail(err)
		}
		return o
	}
	if stopAfter >= 0 {
		// whole-stream helpers: the only earlier rewind point is before the first read
		o.interrupted = true
		return o
	}
	switch c.Mode {
	case "readall":
		whole(io.ReadAll(&spinGuard{r: br, o: o}))
	case "rawbody":
		whole(br.RawBody())
	// The copy consumers hand io.Copy the very value the API returned (never a wrapper), so that any
	// io.WriterTo / io.ReaderFrom fast path of the reader type or of the destination is taken as in
	// real callers (regctl blob get: io.Copy(os.Stdout, blob)).
	case "copy": // destination without ReadFrom: only a WriterTo of the source can short-cut
		var buf bytes.Buffer
		_, err := io.Copy(plainWriter{&buf}, br)
		whole(buf.Bytes(), err)
	case "copy-direct": // destination with ReadFrom (bytes.Buffer)
		var buf bytes.Buffer
		_, err := io.Copy(&buf, br)
		whole(buf.Bytes(), err)
	case "copybuf": // the destination's ReadFrom called directly
		var buf bytes.Buffer
		_, err := buf.ReadFrom(br)
		whole(buf.Bytes(), err)
	case "copybuffer": // io.CopyBuffer with a caller-supplied buffer
		var buf bytes.Buffer
		size := 1
		if len(c.ReadBufs) > 0 && c.ReadBufs[0] > 0 {
			size = c.ReadBufs[0]
		}
		_, err := io.CopyBuffer(plainWriter{&buf}, br, make([]byte, size))
		whole(buf.Bytes(), err)
	case "copy-file": // *os.File destination (its ReadFrom / the source's WriteTo, whichever io.Copy picks)
		f, ferr := os.CreateTemp("", "c01-copy-")
		if ferr != nil {
			o.infraErr = ferr.Error()
			return o
		}
		_, err := io.Copy(f, br)
		_ = f.Close()
		b, rerr := os.ReadFile(f.Name())
		_ = os.Remove(f.Name())
		if rerr != nil {
			o.infraErr = rerr.Error()
			return o
		}
		whole(b, err)
	case "writeto": // the reader's own WriteTo, when the returned type offers one (resolved dynamically)
		var buf bytes.Buffer
		if wt, ok := any(br).(io.WriterTo); ok {
			o.usedWriterTo = true
			_, err := wt.WriteTo(plainWriter{&buf})
			whole(buf.Bytes(), err)
		} else {
			_, err := io.Copy(plainWriter{&buf}, br)
			whole(buf.Bytes(), err)
		}
	}
	// reads continuing after the end
	readLoop(br, o, []int{16, 1, 0}, 0, -1, c.PostReads, 0, nil)
	return o
}

func entryClass(c *Case) string {
	if c.Entry == "data" {
		return "data+" + c.Backing
	}
	return c.Entry
}

func progressPossible(c *Case) bool {
	if c.Mode != "loop" {
		return true
	}
	for _, b := range c.ReadBufs {
		if b > 0 {
			return true
		}
	}
	return false
}

// tarScannable: ReadFile(absent) can only complete on something archive/tar
// accepts (the non-vacuity clause is restricted to those contents).
func tarScannable(ct Content) bool {
	switch ct.Kind {
	case "tar":
		return true
	case "zeros":
		return ct.N%512 == 0
	case "raw":
		return ct.N == 0
	}
	return false
}

// xzOverZeroReads: github.com/ulikunitz/xz fails with "no data" when its source returns (0, nil)
// (allowed by io.Reader, but that decoder does not tolerate it): an intact xz layer over a source
// that produces such reads legitimately ends in an error, so the non-vacuity clause is not applied.
func xzOverZeroReads(c *Case, w world) bool {
	if c.Content.Comp != "xz" {
		return false
	}
	// reghttp's Resp.Read itself returns (0, nil) when a dropped body had delivered nothing in that
	// call and the range resume succeeded
	var rw *regWorld
	switch x := w.(type) {
	case *regWorld:
		rw = x
	case *dataWorld:
		rw, _ = x.backing.(*regWorld)
	}
	if rw != nil {
		for _, r := range rw.recs {
			if r.effective {
				return true
			}
		}
	}
	for _, p := range c.Passes {
		for _, x := range p.Chunks {
			if x == 0 {
				return true
			}
		}
	}
	return false
}

func shortErr(err error) string {
	if err == nil {
		return "<nil>"
	}
	s := err.Error()
	if len(s) > 300 {
		s = s[:300] + "…"
	}
	return s
}

// check interprets one case against the code under test and judges it.
func check(c Case, ev *evid.Collector) *evid.Violation {
	caseStart.Store(time.Now().UnixNano())
	defer caseStart.Store(0)
	normalise(&c)
	content := expand(c.Content)
	dig := digestOf(c.Algo, content)
	declSize := 0
	if c.SizeKnown {
		declSize = len(content) + c.SizeDelta
		if declSize <= 0 {
			declSize = len(content) + 1
		}
	}
	desc := descFor(dig, int64(declSize))
	desc.MediaType = c.MediaType
	descConsistent := declSize == 0 || declSize == len(content)

	var w world
	switch c.Entry {
	case "reg":
		w = newRegWorld(&c, content, dig)
	case "ocidir":
		w = newOcidirWorld(&c, content, dig)
	case "data":
		w = newDataWorld(&c, content, dig)
	default:
		w = newReaderWorld(&c, content)
	}
	defer w.close()

	// RegClient.BlobGet serves a descriptor from its inline Data when that data is
	// exactly what the descriptor names (Descriptor.GetData) - which includes the
	// empty blob with size 0 and no data at all: the store is then never read.
	// Predicted here independently (bytes equal to the content, length equal to the stated size).
	var inlineData []byte
	if dw, ok := w.(*dataWorld); ok {
		inlineData = dw.data
	}
	inlineUsed := c.Entry != "reader" && len(inlineData) == declSize && bytes.Equal(inlineData, content)
	stream := func(p int) []byte {
		if inlineUsed {
			return content
		}
		return w.stream(p)
	}
	isBenign := func() (bool, string) {
		if inlineUsed {
			return true, ""
		}
		return w.benign()
	}
	delivered := func() ([]byte, bool) {
		if inlineUsed {
			return content, true
		}
		return w.delivered()
	}

	drained := func() (bool, bool) {
		if inlineUsed {
			return true, true
		}
		return w.drained()
	}

	labels := []string{"entry:" + entryClass(&c), "mode:" + c.Mode, "algo:" + c.Algo, "content:" + c.Content.Kind,
		"passes:" + strconv.Itoa(len(c.Passes)), "refform:" + strconv.Itoa(c.RefForm)}
	if c.MediaType == "" {
		labels = append(labels, "desc:no-media-type")
	}
	if c.Content.Kind == "tar" {
		switch {
		case c.Content.Comp != "":
			labels = append(labels, "tar:"+c.Content.Comp)
		case c.Content.Gzip:
			labels = append(labels, "tar:gzip")
		default:
			labels = append(labels, "tar:plain")
		}
	}
	if c.ViaResp {
		labels = append(labels, "reader:via-WithResp")
	}
	if c.TarDirect {
		labels = append(labels, "reader:NewTarReader-direct")
	}
	if c.Unseekable {
		labels = append(labels, "reader:unseekable")
	}
	if c.BadSeek {
		labels = append(labels, "reads:arbitrary-seek-attempted")
	}
	switch {
	case c.Cancel == 1:
		labels = append(labels, "ctx:cancelled-before-request")
	case c.Cancel == 2 || (c.Cancel >= 3 && c.Mode != "loop"):
		labels = append(labels, "ctx:cancelled-before-rewind")
	case c.Cancel >= 3:
		labels = append(labels, "ctx:cancelled-between-reads")
	}
	if hk := c.Passes[0].hdrKind(); hk != "req" && (c.Entry == "reader" || c.Entry == "reg" || c.Backing == "reg") {
		labels = append(labels, "hdr-digest:"+hk)
	}
	if c.SizeKnown {
		labels = append(labels, "size:known")
	} else {
		labels = append(labels, "size:unknown")
	}
	nontrivial := false
	if !descConsistent {
		labels = append(labels, "desc:size-disagrees-with-digest")
		nontrivial = true
	}
	switch n := len(content); {
	case n == 0:
		labels = append(labels, "len:0")
	case n == 1:
		labels = append(labels, "len:1")
	case n > 4000:
		labels = append(labels, "len:big")
	}
	var violation *evid.Violation
	keyParts := []string{entryClass(&c), c.Mode, c.Algo, fmt.Sprint(c.SizeKnown), fmt.Sprint(descConsistent)}
	finish := func() *evid.Violation {
		labels = append(labels, w.notes()...)
		for _, l := range w.notes() {
			if strings.HasPrefix(l, "resume") || strings.HasPrefix(l, "fault:") {
				nontrivial = true
				keyParts = append(keyParts, l)
			}
		}
		if c.Mode == "loop" {
			d := map[int]bool{}
			for _, b := range c.ReadBufs {
				d[b] = true
			}
			if len(d) >= 2 {
				nontrivial = true
				labels = append(labels, "reads:unequal-sizes")
			}
			if d[0] {
				labels = append(labels, "reads:zero-length")
			}
			if d[1] {
				labels = append(labels, "reads:one-byte")
			}
			for b := range d {
				if b > len(content) {
					labels = append(labels, "reads:larger-than-blob")
					break
				}
			}
		}
		ev.Case(nontrivial, strings.Join(keyParts, "|"), labels...)
		ev.Sample(c)
		return violation
	}

	// direct Descriptor.GetData check (entry d)
	if dw, ok := w.(*dataWorld); ok {
		d := desc
		d.Data = dw.data
		if b, err := d.GetData(); err == nil {
			if ok, what := verify(c.Algo, dig, declSize, b); !ok {
				violation = evid.V("getdata-accepted-"+what, "Descriptor.GetData returned %d bytes without error although they do not match the descriptor (%s; digest %s size %d, data corruption %s)",
					len(b), what, dig, declSize, c.Data.Kind)
				return finish()
			}
			labels = append(labels, "getdata:accepted")
		} else {
			labels = append(labels, "getdata:rejected")
			if inlineUsed && descConsistent {
				violation = evid.V("getdata-rejected-intact-data", "Descriptor.GetData rejected inline data that is exactly the content the descriptor names: %v", err)
				return finish()
			}
		}
		if c.Data.Kind != "none" {
			nontrivial = true
			keyParts = append(keyParts, "data:"+c.Data.Kind, posClass(c.Data.Pos, len(content)))
		}
	}

	ctx, cancelCtx := context.WithCancel(context.Background())
	defer cancelCtx()
	if c.Cancel == 1 {
		cancelCtx()
	}
	br, err := w.open(ctx, desc)
	if err != nil && strings.HasPrefix(err.Error(), "harness:") {
		violation = &evid.Violation{Sig: "harness-infra", Msg: err.Error()}
		return finish()
	}
	defer func() {
		if br != nil {
			_ = br.Close()
		}
	}()
	intactSoFar := true
	for p := range c.Passes {
		last := p == len(c.Passes)-1
		ps := c.Passes[p]
		S := stream(p)
		intact := bytes.Equal(S, content)
		intactSoFar = intactSoFar && intact
		if !intact {
			nontrivial = true
			labels = append(labels, "corr:"+ps.Corr.Kind, "corrpos:"+posClass(ps.Corr.Pos, len(content)))
			keyParts = append(keyParts, fmt.Sprintf("p%d:%s@%s", p, ps.Corr.Kind, posClass(ps.Corr.Pos, len(content))))
			if p > 0 {
				labels = append(labels, "rewind:later-pass-corrupted")
			}
		} else {
			labels = append(labels, "corr:none")
		}
		if ps.EOFWithData {
			labels = append(labels, "delivery:terminal-with-data")
		}
		if p > 0 && !bytes.Equal(S, stream(p-1)) {
			labels = append(labels, "rewind:pass-delivers-different-bytes")
		}
		suffix := ""
		if p > 0 {
			suffix = "-after-rewind"
		}

		var o *passOutcome
		if err != nil {
			// opening (or rewinding) failed: the stream ended in an error before any byte
			o = &passOutcome{}
			o.fail(err)
			labels = append(labels, "outcome:open-error")
		} else {
			o = consume(&c, p, br, last, w, desc, cancelCtx)
		}
		if o.infraErr != "" {
			violation = &evid.Violation{Sig: "harness-infra", Msg: o.infraErr}
			return finish()
		}
		if o.usedWriterTo {
			labels = append(labels, "reader:offers-WriterTo")
		}
		if o.seekWorked {
			// an arbitrary seek succeeded: the caller no longer reads the whole stream, nothing is judged
			labels = append(labels, "reads:arbitrary-seek-succeeded-unjudged")
			return finish()
		}

		// ---- clauses (1) and (2): every clean end is judged on the bytes of this pass alone
		for i, at := range o.cleanAt {
			judged := o.got[:at]
			src := "bytes handed to the caller"
			if o.walk && os.Getenv("VERIF_C01_NO_WALK_JUDGE") != "" {
				labels = append(labels, "walk:judgement-disabled-by-env")
				continue
			}
			if o.walk {
				// walking the archive stops at its end-of-archive marker; the library has only seen the whole
				// stream when the source handed out everything including its EOF - only then is Close judged
				if done, ok := drained(); !ok || !done {
					labels = append(labels, "walk:clean-but-source-not-drained-unjudged")
					continue
				}
				labels = append(labels, "walk:clean-and-source-drained-judged")
			}
			if o.noBytes {
				if d, ok := delivered(); ok {
					judged, src = d, "bytes pulled from the source"
				} else {
					judged, src = S, "bytes of the blob file / inline data"
				}
			}
			if ok, what := verify(c.Algo, dig, declSize, judged); !ok {
				sig := "clean-end-on-" + what + "-" + c.Mode + suffix
				if o.cleanAfter[i] {
					sig = "clean-eof-after-error-on-" + what + suffix
				}

				if strings.HasPrefix(c.Mode, "tar-") && !descConsistent && (what == "wrong-size" || o.noBytes) {
					// specific behaviour: BTarReader verifies the digest but not the stated size. With a
					// descriptor whose size disagrees with its digest no stream can match, so every clean
					// end has this cause (ReadFile may also stop at the swallowed limit error before the
					// end of the file, which the harness cannot observe on a layout).
					sig = "tar-reader-ignores-stated-size"
				}
				if o.walk {
					// GetTarReader + walk to the end of the archive + Close: nothing verifies the blob
					sig = "tar-walk-and-close-never-verify"
				}
				violation = evid.V(sig, "entry %s, mode %s, pass %d: the read ended cleanly (%s) although the %s (%d bytes, %s) do not match the descriptor {digest %s (content of %d bytes), size %d}: %s; served stream: %s of %d bytes; earlier errors in this pass: %v",
					entryClass(&c), c.Mode, p, map[string]string{"tar-readfile": "errs.ErrFileNotFound", "tar-walk": "io.EOF from the archive walk, nil from Close", "ociconfig": "nil from ToOCIConfig"}[c.Mode] + map[bool]string{true: "", false: "io.EOF / nil"}[o.noBytes], src, len(judged), digestOf(c.Algo, judged), dig, len(content), declSize, what,
					ps.Corr.Kind, len(S), o.errMsgs)
				return finish()
			}
		}

		// ---- clause (1b): an over-long stream must not end cleanly even when the bytes handed out are
		// exactly the content: a pass that ends cleanly without any earlier error must have consumed the
		// source up to and including its end (registry / generated reader: observed at the source; layout
		// file and inline data: the bytes handed out must be the whole file / data)
		if len(o.cleanAt) > 0 && !o.cleanAfter[0] && !o.noBytes {
			short := false
			if done, ok := drained(); ok {
				short = !done
			} else {
				short = !bytes.Equal(o.got[:o.cleanAt[0]], S)
			}
			if short {
				violation = evid.V("clean-end-before-end-of-stream"+suffix, "entry %s, mode %s, pass %d: the read ended cleanly after %d bytes although the source had not reached the end of its stream (%s of %d bytes; descriptor size %d): trailing bytes of an over-long stream go unnoticed; GETs: %s",
					entryClass(&c), c.Mode, p, o.cleanAt[0], ps.Corr.Kind, len(S), declSize, describeGets(w))
				return finish()
			}
		}

		// ---- clause (3): non-vacuity
		cleanFirst := len(o.cleanAt) > 0 && !o.cleanAfter[0]
		switch {
		case o.interrupted:
			labels = append(labels, "outcome:interrupted-for-rewind")
		case cleanFirst:
			labels = append(labels, "outcome:clean")
		case o.noProgress || w.spun():
			labels = append(labels, "outcome:no-progress")
		default:
			labels = append(labels, "outcome:error")
		}
		benign, why := isBenign()
		nv := !o.interrupted && intactSoFar && descConsistent && benign && progressPossible(&c) && c.Cancel == 0 &&
			((c.Mode != "tar-readfile" && c.Mode != "tar-walk") || (tarScannable(c.Content) && !xzOverZeroReads(&c, w)))
		if nv {
			labels = append(labels, "nonvacuity:applied"+suffix)
			if isBlocked(w) {
				violation = evid.V("intact-read-blocks-on-own-throttle-slot", "entry %s, mode %s, pass %d: intact content, conforming answers, faults within the retry limit %d - but the read had to wait for a host throttle slot (reqConcurrent %d) that only its own earlier requests hold, i.e. it blocks forever (the harness cancelled the context); GETs so far: %s",
					entryClass(&c), c.Mode, p, c.RetryLimit, c.ReqConcurrent, describeGets(w))
				return finish()
			}
			if !cleanFirst || o.noProgress {
				violation = evid.V("intact-blob-read-failed-"+c.Entry+suffix, "entry %s, mode %s, pass %d: nothing was corrupted and every answer was conforming and within the retry limit, but the read did not complete: %s (got %d of %d bytes; size known %v; GETs: %s)",
					entryClass(&c), c.Mode, p, shortErr(o.firstErr), len(o.got), len(content), c.SizeKnown, describeGets(w))
				return finish()
			}
			if !o.noBytes && !bytes.Equal(o.got[:o.cleanAt[0]], content) {
				violation = evid.V("intact-blob-read-differs"+suffix, "entry %s, mode %s, pass %d: read completed but returned %d bytes that differ from the content (%d bytes)",
					entryClass(&c), c.Mode, p, o.cleanAt[0], len(content))
				return finish()
			}
		} else if !benign {
			_ = why
			labels = append(labels, "nonvacuity:not-applicable-delivery")
		}

		if last || err != nil {
			break
		}
		// ---- rewind
		nontrivial = true
		switch {
		case o.interrupted && o.reads == 0:
			labels = append(labels, "rewind:before-first-read")
			keyParts = append(keyParts, "rw0")
		case o.interrupted:
			labels = append(labels, "rewind:mid-stream")
			keyParts = append(keyParts, "rwmid")
		case cleanFirst:
			labels = append(labels, "rewind:after-clean-pass")
			keyParts = append(keyParts, "rwclean")
		default:
			labels = append(labels, "rewind:after-failed-pass")
			keyParts = append(keyParts, "rwfail")
		}
		w.nextPass(p + 1)
		if p == 0 && c.Cancel >= 2 {
			cancelCtx()
		}
		pos, serr := br.Seek(0, io.SeekStart)
		if serr != nil || pos != 0 {
			labels = append(labels, "rewind:refused")
			benign, _ := isBenign()
			if serr != nil && intactSoFar && descConsistent && bytes.Equal(stream(p+1), content) && benign && !c.Unseekable && !o.noProgress && !w.spun() && c.Cancel == 0 &&
				(o.interrupted || cleanFirst) {
				if isBlocked(w) {
					violation = evid.V("intact-read-blocks-on-own-throttle-slot", "entry %s, pass %d: the rewind of an intact stream had to wait for a host throttle slot (reqConcurrent %d) that only the read's own earlier requests hold, i.e. it blocks forever; GETs so far: %s",
						entryClass(&c), p, c.ReqConcurrent, describeGets(w))
					return finish()
				}
				violation = evid.V("rewind-of-intact-stream-failed-"+c.Entry, "entry %s, pass %d: Seek(0, SeekStart) failed although nothing was corrupted and every answer was conforming: %v (GETs: %s)",
					entryClass(&c), p, serr, describeGets(w))
				return finish()
			}
			break
		}
	}
	if inlineUsed {
		labels = append(labels, "inline:served-from-descriptor")
	}
	return finish()
}

func isBlocked(w world) bool {
	switch x := w.(type) {
	case *regWorld:
		return x != nil && x.blocked
	case *dataWorld:
		return isBlocked(x.backing)
	}
	return false
}

func describeGets(w world) string {
	var rw *regWorld
	switch x := w.(type) {
	case *regWorld:
		rw = x
	case *dataWorld:
		rw, _ = x.backing.(*regWorld)
	}
	if rw == nil {
		return "-"
	}
	var sb strings.Builder
	for i, r := range rw.recs {
		if i > 0 {
			sb.WriteString(", ")
		}
		fmt.Fprintf(&sb, "p%d %s→%d", r.pass, r.kind, r.status)
		if r.hasRange {
			sb.WriteString("(range)")
		}
		if r.fault != "" {
			fmt.Fprintf(&sb, "+%s", r.fault)
			if !r.effective {
				sb.WriteString("(no effect)")
			}
		}
	}
	return sb.String()
}

// ---------------------------------------------------------------- tests

func report(ev *evid.Collector, v *evid.Violation, c Case, fatal func(string, ...any)) {
	if v != nil && v.Sig == "harness-infra" {
		// infrastructure trouble is inconclusive: fail without a failure record
		fatal("INCONCLUSIVE (harness infrastructure): %s", v.Msg)
		return
	}
	if ev.Report(v, c) {
		fatal("%v", v)
	}
}

func entrySet() string {
	if s := os.Getenv("VERIF_C01_SET"); s != "" {
		return s
	}
	return "all"
}

func TestVerifProp(t *testing.T) {
	ev := evid.For(prop)
	set := entrySet()
	rapid.Check(t, func(rt *rapid.T) {
		c := gen(rapidChooser{rt}, set)
		v := evid.Guard(func() *evid.Violation { return check(c, ev) })
		report(ev, v, c, rt.Fatalf)
	})
}

// TestVerifReplayDir runs every committed replay case (plain regression form).
func TestVerifReplayDir(t *testing.T) {
	ev := evid.For(prop)
	for _, f := range evid.ReplayFiles() {
		var c Case
		if err := evid.LoadCaseFile(f, &c); err != nil {
			t.Fatalf("%s: %v", f, err)
		}
		v := evid.Guard(func() *evid.Violation { return check(c, ev) })
		report(ev, v, c, func(format string, a ...any) { t.Errorf(f+": "+format, a...) })
	}
}

func TestVerifReplay(t *testing.T) {
	ev := evid.For(prop)
	var c Case
	ok, err := evid.LoadReplay(&c)
	if !ok {
		t.Skip("no VERIF_REPLAY")
	}
	if err != nil {
		t.Fatal(err)
	}
	v := evid.Guard(func() *evid.Violation { return check(c, ev) })
	if v == nil {
		t.Logf("case passes")
	}
	report(ev, v, c, t.Fatalf)
}

// TestVerifBoundary: a plain, deterministic sweep of the alignments the
// statement names explicitly (every truncation offset / flipped position /
// 1-byte overrun x every constant read-buffer size 0..len+2 x terminal result
// with and without data x size known/unknown x both algorithms) on the direct
// reader, the tar readers and inline data. Exhaustive for that sub-space.
func TestVerifBoundary(t *testing.T) {
	ev := evid.For(prop)
	lens := []int{0, 1, 2, 3, 7}
	if evid.Tier() == "thorough" {
		lens = []int{0, 1, 2, 3, 4, 5, 7, 8, 16, 33}
	}
	nsh, _ := strconv.Atoi(os.Getenv("VERIF_NSHARDS"))
	shi, _ := strconv.Atoi(os.Getenv("VERIF_SHARD_INDEX"))
	if nsh < 1 {
		nsh = 1
	}
	count := 0
	run := func(c Case) bool {
		count++
		if count%nsh != shi {
			return true
		}
		v := evid.Guard(func() *evid.Violation { return check(c, ev) })
		failed := false
		report(ev, v, c, func(format string, a ...any) { failed = true; t.Errorf(format, a...) })
		return !failed
	}
	for _, n := range lens {
		var corrs []Corruption
		corrs = append(corrs, Corruption{Kind: "none"}, Corruption{Kind: "append", N: 1}, Corruption{Kind: "append", N: 2}, Corruption{Kind: "prepend", N: 1},
			Corruption{Kind: "substitute", N: -1})
		for i := 0; i < n; i++ {
			corrs = append(corrs, Corruption{Kind: "truncate", Pos: i}, Corruption{Kind: "flip", Pos: i, N: i % 8})
		}
		for _, algo := range []string{"sha256", "sha512"} {
			for _, known := range []bool{true, false} {
				for _, corr := range corrs {
					for _, withData := range []bool{false, true} {
						for _, chunk := range []int{1, 2, 1 << 20} {
							base := Case{Entry: "reader", Algo: algo, SizeKnown: known, Content: Content{Kind: "raw", N: n, Seed: 3},
								Passes: []Pass{{Corr: corr, Chunks: []int{chunk}, EOFWithData: withData}}}
							for b := 0; b <= n+2; b++ {
								c := base
								c.Mode = "loop"
								c.ReadBufs = []int{b}
								if b == 0 {
									c.ReadBufs = []int{0, 1}
								}
								c.PostReads = 1
								if !run(c) {
									return
								}
							}
							for _, mode := range []string{"readall", "copy", "copy-direct", "writeto", "tar-rawbody", "tar-readfile", "ociconfig"} {
								c := base
								c.Mode = mode
								if !run(c) {
									return
								}
							}
							// rewind after the complete pass and mid-stream, second pass intact / corrupted
							for _, stop := range []int{0, 2} {
								for _, second := range []Corruption{{Kind: "none"}, corr} {
									c := base
									c.Mode = "loop"
									c.ReadBufs = []int{max(1, n/2)}
									c.Passes = []Pass{{Corr: corr, Chunks: []int{chunk}, EOFWithData: withData, Stop: stop}, {Corr: second, Chunks: []int{chunk}, EOFWithData: withData}}
									if !run(c) {
										return
									}
									c.Passes[0].Corr = Corruption{Kind: "none"}
									if !run(c) {
										return
									}
								}
							}
						}
					}
					// inline data
					d := corr
					c := Case{Entry: "data", Algo: algo, SizeKnown: known, Content: Content{Kind: "raw", N: n, Seed: 3}, Data: &d, Backing: "none",
						Mode: "readall", Passes: []Pass{{}}}
					if !run(c) {
						return
					}
				}
			}
		}
	}
	ev.Set("boundary_sweep_exhaustive", true)
	ev.Add("boundary_sweep_cases", count/nsh)
}

// ---------------------------------------------------------------- native fuzzing

// FuzzVerifBlobRead decodes the input bytes into the same Case struct the
// rapid generator produces (same generator code, byte-backed chooser).
func FuzzVerifBlobRead(f *testing.F) {
	ev := evid.For(prop)
	for _, s := range fuzzSeeds {
		f.Add([]byte(s))
	}
	f.Fuzz(func(t *testing.T, b []byte) {
		if len(b) > 512 {
			return
		}
		c := gen(&bytesChooser{b: b}, "all")
		v := evid.Guard(func() *evid.Violation { return check(c, ev) })
		report(ev, v, c, t.Fatalf)
	})
}

var fuzzSeeds = []string{"", "\x00", "\x01\x01\x01", "\x02\x00\x00\x00\x00\x05\x01\x02\x03\x04\x05\x06\x07\x08\x09", "\x03\x01\x00\x07\x02\xff\xfe\x10\x20\x30\x40\x50"}

// TestVerifMakeCorpus (manual tool, VERIF_C01_MAKE_CORPUS=<dir>): searches byte
// strings whose decoded Case covers the boundary classes and writes them in
// go fuzz corpus file format. Not part of any tier.
func TestVerifMakeCorpus(t *testing.T) {
	dir := os.Getenv("VERIF_C01_MAKE_CORPUS")
	if dir == "" {
		t.Skip("VERIF_C01_MAKE_CORPUS not set")
	}
	_ = os.MkdirAll(dir, 0o755)
	seen := map[string]int{}
	x := uint64(88172645463325252)
	next := func() uint64 { x ^= x << 13; x ^= x >> 7; x ^= x << 17; return x }
	written := 0
	for iter := 0; iter < 600000 && written < 450; iter++ {
		n := 8 + int(next()%72)
		b := make([]byte, n)
		for i := range b {
			b[i] = byte(next() >> 32)
			if next()%3 == 0 {
				b[i] = byte(next() % 4) // bias to the simple choices
			}
		}
		c := gen(&bytesChooser{b: b}, "all")
		normalise(&c)
		feats := caseFeatures(&c)
		fresh := false
		for _, ft := range feats {
			if seen[ft] < 2 {
				fresh = true
			}
		}
		if !fresh {
			continue
		}
		for _, ft := range feats {
			seen[ft]++
		}
		name := fmt.Sprintf("seed-%03d", written)
		body := fmt.Sprintf("go test fuzz v1\n[]byte(%q)\n", string(b))
		if err := os.WriteFile(filepath.Join(dir, name), []byte(body), 0o644); err != nil {
			t.Fatal(err)
		}
		written++
	}
	keys := make([]string, 0, len(seen))
	for k := range seen {
		keys = append(keys, k)
	}
	sort.Strings(keys)
	t.Logf("wrote %d corpus files covering %d features", written, len(keys))
}

// caseFeatures lists boundary features (pairs) of a case for corpus selection.
func caseFeatures(c *Case) []string {
	var out []string
	e := entryClass(c)
	out = append(out, e+"/"+c.Mode, e+"/"+c.Algo+"/"+fmt.Sprint(c.SizeKnown), e+"/passes"+strconv.Itoa(len(c.Passes)))
	n := len(expand(c.Content))
	out = append(out, e+"/content:"+c.Content.Kind)
	if n == 0 || n == 1 || n > 4000 {
		out = append(out, fmt.Sprintf("%s/len%d", e, min(n, 4001)))
	}
	if c.SizeDelta != 0 {
		out = append(out, e+"/sizedelta")
	}
	for i, p := range c.Passes {
		out = append(out, fmt.Sprintf("%s/p%d/%s@%s", e, min(i, 1), p.Corr.Kind, posClass(p.Corr.Pos, n)))
		if p.EOFWithData {
			out = append(out, e+"/eofdata/"+c.Mode)
		}
		if p.Terminal != "" {
			out = append(out, "terminal:"+p.Terminal)
		}
		if i < len(c.Passes)-1 {
			out = append(out, fmt.Sprintf("%s/stop%d", e, min(p.Stop, 3)))
		}
		for j, g := range p.Gets {
			out = append(out, fmt.Sprintf("get%d:%s+%s", min(j, 2), g.Kind, g.Fault))
			if g.Kind == "status" {
				out = append(out, fmt.Sprintf("status:%d", g.Status))
			}
		}
		if p.Replace != "" {
			out = append(out, "replace:"+p.Replace)
		}
	}
	if c.Data != nil {
		out = append(out, "data:"+c.Data.Kind+"/"+c.Backing)
	}
	for _, b := range c.ReadBufs {
		switch {
		case b == 0:
			out = append(out, e+"/buf0")
		case b == 1:
			out = append(out, e+"/buf1")
		case b > n:
			out = append(out, e+"/buf>len")
		}
	}
	if c.Redirect {
		out = append(out, "redirect")
	}
	out = append(out, fmt.Sprintf("retry%d/conc%d", c.RetryLimit, c.ReqConcurrent))
	out = append(out, fmt.Sprintf("%s/ref%d", e, c.RefForm), fmt.Sprintf("%s/cancel%d", e, min(c.Cancel, 3)), "mt:"+c.MediaType,
		fmt.Sprintf("ext%d/redir%d/mirror%v", c.External, c.RedirectStatus, c.Mirror != nil), "hdr:"+c.Passes[0].hdrKind()+"/"+e,
		fmt.Sprintf("viaresp%v/tardirect%v/badseek%v", c.ViaResp, c.TarDirect, c.BadSeek), "comp:"+c.Content.Comp)
	return out
}

var _ = json.Marshal
var _ descriptor.Descriptor
