//go:build verif

package c01

import (
	"sync/atomic"

	"github.com/regclient/regclient/internal/pqueue"
)

// The registry client throttles requests per host with internal/pqueue. A blob
// read is one goroutine; if it ever has to *wait* for a throttle slot while no
// other request of the case is in flight, the slots can only be held by the
// read itself, i.e. it would block forever. The pqueue hook (build tag verif)
// reports that state without a clock: the harness notes it and cancels the
// case's context so that the call returns.
var hookWorld atomic.Pointer[regWorld]

func init() {
	pqueue.VerifHook = func(point string, wake <-chan struct{}, done <-chan struct{}) {
		if point != "wait" {
			return
		}
		if w := hookWorld.Load(); w != nil {
			w.blocked = true
			if w.cancel != nil {
				w.cancel()
			}
		}
	}
}

func setThrottleHook(w *regWorld) { hookWorld.Store(w) }
func clearThrottleHook()          { hookWorld.Store(nil) }

const throttleHookAvailable = true
