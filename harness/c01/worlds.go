package c01

// worlds.go: the four entry points. Each "world" opens a blob reader through
// the code under test, knows which stream the source serves in every pass,
// records (where it can observe them) the bytes actually pulled from the
// source, and says whether the delivery of a pass was benign (for the
// non-vacuity clause).

import (
	"bytes"
	"context"
	"errors"
	"fmt"
	"io"
	"log/slog"
	"net/http"
	"os"
	"path/filepath"
	"strconv"
	"strings"
	"time"

	"github.com/opencontainers/go-digest"

	"github.com/regclient/regclient"
	"github.com/regclient/regclient/config"
	"github.com/regclient/regclient/scheme/reg"
	"github.com/regclient/regclient/types/blob"
	"github.com/regclient/regclient/types/descriptor"
	"github.com/regclient/regclient/types/ref"
	"github.com/regclient/regclient/zz_verif/rcutil"
	rm "github.com/regclient/regclient/zz_verif/regmodel"
)

var (
	errInjected  = errors.New("harness: injected read error")
	errTransient = errors.New("harness: transient read error")
	errSpin      = errors.New("harness: consumer makes no progress (zero-byte reads only)")
)

const spinLimit = 20000

type world interface {
	// open returns the reader for pass 0.
	open(ctx context.Context, d descriptor.Descriptor) (*blob.BReader, error)
	// nextPass is called right before the rewind that starts pass p (p >= 1).
	nextPass(p int)
	// stream is what the source serves in pass p when read completely without delivery faults.
	stream(p int) []byte
	// delivered returns the bytes pulled from the source during the current pass (ok=false: not observable).
	delivered() ([]byte, bool)
	// benign tells whether everything the source did up to now (all passes) was
	// spec-conforming and within the client's retry budget; why names the first reason it was not.
	benign() (ok bool, why string)
	// drained tells whether the source has handed out every byte of the current pass' stream
	// including its end-of-stream result (ok=false: not observable).
	drained() (done bool, ok bool)
	// spun tells whether the source broke a no-progress loop of the consumer.
	spun() bool
	// notes returns class labels observed while running.
	notes() []string
	close()
}

// ---------------------------------------------------------------- entry (a): generated io.Reader

type srcPlan struct {
	data         []byte
	chunks       []int
	eofWithData  bool
	terminal     error
	transient    int // offset+1, 0 = none
	zeroNilAtEnd bool
}

// source is the generated io.ReadSeeker.
type source struct {
	plans     []srcPlan
	cur       int
	pos       int
	step      int
	transDone bool
	out       []byte
	zeroRun   int
	didSpin   bool
	usedTrans bool
	sawEnd    bool // the terminal result of the current pass was returned at least once
	closed    bool
}

// Close lets the source act as an http.Response body (blob.WithResp).
func (s *source) Close() error { s.closed = true; return nil }

func (s *source) plan() *srcPlan { return &s.plans[min(s.cur, len(s.plans)-1)] }

func (s *source) zero() (int, error) {
	s.zeroRun++
	if s.zeroRun > spinLimit {
		s.didSpin = true
		return 0, errSpin
	}
	return 0, nil
}

func (s *source) Read(p []byte) (int, error) {
	pl := s.plan()
	atEnd := s.pos >= len(pl.data)
	if len(p) == 0 {
		if atEnd && !pl.zeroNilAtEnd {
			s.sawEnd = true
			return 0, pl.terminal
		}
		return s.zero()
	}
	if pl.transient > 0 && s.pos == pl.transient-1 && !s.transDone {
		s.transDone = true
		s.usedTrans = true
		return 0, errTransient
	}
	if atEnd {
		s.sawEnd = true
		return 0, pl.terminal
	}
	c := pl.chunks[s.step%len(pl.chunks)]
	s.step++
	if c == 0 {
		return s.zero()
	}
	n := min(c, len(p), len(pl.data)-s.pos)
	copy(p, pl.data[s.pos:s.pos+n])
	s.out = append(s.out, pl.data[s.pos:s.pos+n]...)
	s.pos += n
	s.zeroRun = 0
	if s.pos >= len(pl.data) && pl.eofWithData {
		s.sawEnd = true
		return n, pl.terminal
	}
	return n, nil
}

func (s *source) Seek(offset int64, whence int) (int64, error) {
	if offset != 0 || whence != io.SeekStart {
		return int64(s.pos), errors.New("harness: only Seek(0, SeekStart) is supported")
	}
	// the pass index was advanced by nextPass
	s.pos, s.step, s.transDone, s.out, s.zeroRun, s.sawEnd = 0, 0, false, nil, 0, false
	return 0, nil
}

type readerWorld struct {
	c       *Case
	content []byte
	src     *source
	streams [][]byte
}

func newReaderWorld(c *Case, content []byte) *readerWorld {
	w := &readerWorld{c: c, content: content, src: &source{}}
	for _, p := range c.Passes {
		s := p.Corr.apply(content)
		w.streams = append(w.streams, s)
		pl := srcPlan{data: s, chunks: p.Chunks, eofWithData: p.EOFWithData, terminal: io.EOF, transient: p.Transient, zeroNilAtEnd: p.ZeroNilAtEnd}
		switch p.Terminal {
		case "ueof":
			pl.terminal = io.ErrUnexpectedEOF
		case "err":
			pl.terminal = errInjected
		}
		w.src.plans = append(w.src.plans, pl)
	}
	return w
}

func (w *readerWorld) open(ctx context.Context, d descriptor.Descriptor) (*blob.BReader, error) {
	var rdr io.Reader = w.src
	if w.c.Unseekable {
		rdr = struct{ io.Reader }{w.src}
	}
	// headers (of whatever the source claims about the served stream); the caller's descriptor must win
	var h http.Header
	if hk := w.c.Passes[0].hdrKind(); hk != "req" || w.c.ViaResp {
		h = http.Header{}
		h.Set("Content-Type", "application/octet-stream")
		h.Set("Content-Length", strconv.Itoa(len(w.streams[0])))
		if v := hdrDigest(hk, w.c.Algo, d.Digest.String(), w.streams[0]); v != "" {
			h.Set("Docker-Content-Digest", v)
		}
	}
	if w.c.ViaResp {
		var body io.ReadCloser = w.src
		if w.c.Unseekable {
			body = struct {
				io.Reader
				io.Closer
			}{w.src, w.src}
		}
		return blob.NewReader(blob.WithResp(&http.Response{StatusCode: 200, Header: h, Body: body}), blob.WithDesc(d)), nil
	}
	opts := []blob.Opts{blob.WithReader(rdr), blob.WithDesc(d)}
	if h != nil {
		opts = append(opts, blob.WithHeader(h))
	}
	return blob.NewReader(opts...), nil
}

// tarDirect builds the tar reader with the public constructor instead of ToTarReader.
func (w *readerWorld) tarDirect(d descriptor.Descriptor) *blob.BTarReader {
	var rdr io.Reader = w.src
	if w.c.Unseekable {
		rdr = struct{ io.Reader }{w.src}
	}
	return blob.NewTarReader(blob.WithReader(rdr), blob.WithDesc(d))
}
func (w *readerWorld) drained() (bool, bool) {
	pl := w.src.plan()
	return w.src.sawEnd && w.src.pos >= len(pl.data) && pl.terminal == io.EOF, true
}

// hdrKind is the effective header variant of a pass.
func (p Pass) hdrKind() string {
	switch p.HdrKind {
	case "served", "none", "malformed", "otheralgo", "req":
		return p.HdrKind
	}
	if p.HdrOfServed {
		return "served"
	}
	return "req"
}

// hdrDigest is the Docker-Content-Digest value a source sends ("" = header absent).
func hdrDigest(kind, algo, requested string, served []byte) string {
	switch kind {
	case "served":
		return digestOf(algo, served)
	case "none":
		return ""
	case "malformed":
		return "sha256:not-a-digest"
	case "otheralgo":
		if algo == "sha512" {
			return digestOf("sha256", served)
		}
		return digestOf("sha512", served)
	}
	return requested
}
func (w *readerWorld) nextPass(p int)      { w.src.cur = p }
func (w *readerWorld) stream(p int) []byte { return w.streams[p] }
func (w *readerWorld) delivered() ([]byte, bool) {
	return w.src.out, true
}
func (w *readerWorld) benign() (bool, string) {
	for i := 0; i <= w.src.cur && i < len(w.c.Passes); i++ {
		p := w.c.Passes[i]
		if p.Terminal != "" {
			return false, "source ends with an error"
		}
		if p.Transient > 0 {
			return false, "source returns a transient error"
		}
	}
	return true, ""
}
func (w *readerWorld) spun() bool { return w.src.didSpin }
func (w *readerWorld) notes() []string {
	if w.src.usedTrans {
		return []string{"reader:transient-error-hit"}
	}
	return nil
}
func (w *readerWorld) close() {}

// ---------------------------------------------------------------- entry (b): registry (regmodel)

const (
	regHost    = "reg.example.test"
	storeHost  = "store.example.test"
	mirrorHost = "mirror.example.test"
	extHost    = "ext.example.test"
	extPath    = "/files/blob"
	regRepo    = "proj/app"
)

// getRec is what one GET of the blob content was answered with.
type getRec struct {
	pass      int
	kind      string
	status    int
	hasRange  bool
	fault     string
	bodyLen   int
	effective bool // the delivery fault changed what was delivered
}

type regWorld struct {
	c        *Case
	content  []byte
	dig      string
	streams  [][]byte
	m        *rm.Model
	rc       *regclient.RegClient
	pass     int
	perPass  []int
	pending  map[int]Get // request ordinal -> prescribed answer
	recs     []getRec
	out      []byte // bytes pulled by the client from content responses in the current pass
	didSpin  bool
	ctx      context.Context
	cancel   context.CancelFunc
	blocked  bool // the client blocked on its own throttle slot (see hook.go)
	stallAt  int  // >= 0: the body of the response being built stalls after that many bytes
	mirrorStream []byte
	lastEOF      bool // the last thing a content body returned was io.EOF and no GET followed
	hostsUsed    map[string]bool
}

func newRegWorld(c *Case, content []byte, dig string) *regWorld {
	w := &regWorld{c: c, content: content, dig: dig, pending: map[int]Get{}, perPass: make([]int, len(c.Passes))}
	for _, p := range c.Passes {
		w.streams = append(w.streams, p.Corr.apply(content))
	}
	w.stallAt = -1
	w.hostsUsed = map[string]bool{}
	if c.Mirror != nil {
		w.mirrorStream = c.Mirror.apply(content)
	}
	return w
}

// isContentReq tells whether a GET of host/path is answered with the blob's bytes.
func (w *regWorld) isContentReq(host, path string) bool {
	switch {
	case w.c.External > 0:
		return host == extHost && path == extPath
	case w.c.Redirect:
		return host == storeHost && strings.HasSuffix(path, "/"+w.dig)
	case w.c.Mirror != nil && host == mirrorHost:
		return strings.HasSuffix(path, "/blobs/"+w.dig)
	}
	return host == regHost && strings.HasSuffix(path, "/blobs/"+w.dig)
}

func (w *regWorld) isContentGet(e *rm.Entry) bool {
	return e.Method == "GET" && w.isContentReq(e.Host, e.Path)
}

// onArrive picks the scripted answer for a content GET and registers its
// delivery fault with the model's fault plan (exactly this request ordinal).
func (w *regWorld) onArrive(e *rm.Entry) {
	if !w.isContentGet(e) {
		return
	}
	p := min(w.pass, len(w.c.Passes)-1)
	i := w.perPass[p]
	w.perPass[p]++
	w.hostsUsed[e.Host] = true
	g := Get{Kind: "ok"}
	if i < len(w.c.Passes[p].Gets) {
		g = w.c.Passes[p].Gets[i]
	}
	w.pending[e.Seq] = g
	// delivery faults are executed by the model's fault plan; a stall (body blocks
	// until the request context ends) is executed by the body wrapper, which ends
	// the context itself at the stall point so that no clock is involved
	if g.Fault != "" && g.Fault != "stall" && g.Kind != "status" && g.Kind != "416" {
		f := rm.NewFault(g.Fault)
		f.AtSeq = e.Seq
		f.At = g.At
		if g.Fault != "lie-cl" && f.At < 0 {
			f.At = 0
		}
		w.m.AddFault(f)
	}
}

func parseRangeStart(req *http.Request) (int, bool) {
	rng := req.Header.Get("Range")
	if rng == "" {
		return 0, false
	}
	spec := strings.TrimPrefix(rng, "bytes=")
	parts := strings.SplitN(spec, "-", 2)
	a, err := strconv.Atoi(parts[0])
	if err != nil || a < 0 {
		return 0, false
	}
	return a, true
}

// intercept serves exactly the bytes / headers the case prescribes for this GET.
func (w *regWorld) intercept(m *rm.Model, h *rm.Host, e *rm.Entry, req *http.Request) *rm.Resp {
	if !w.isContentGet(e) {
		return nil
	}
	g, ok := w.pending[e.Seq]
	if !ok {
		g = Get{Kind: "ok"}
	}
	delete(w.pending, e.Seq)
	p := min(w.pass, len(w.c.Passes)-1)
	S := w.streams[p]
	if e.Host == mirrorHost {
		S = w.mirrorStream
	}
	a, hasRange := parseRangeStart(req)
	rec := getRec{pass: p, kind: g.Kind, hasRange: hasRange, fault: g.Fault}
	mk := func(status int, body []byte) *rm.Resp {
		r := &rm.Resp{Status: status, Header: http.Header{}, Body: body, TruncateAt: -1}
		r.Header.Set("Content-Type", "application/octet-stream")
		if !w.c.Redirect && w.c.External == 0 {
			if v := hdrDigest(w.c.Passes[p].hdrKind(), w.c.Algo, w.dig, S); v != "" {
				r.Header.Set("Docker-Content-Digest", v)
			}
		}
		return r
	}
	errR := func(status int) *rm.Resp {
		r := mk(status, []byte(fmt.Sprintf(`{"errors":[{"code":"INJECTED","message":"scripted %d"}]}`, status)))
		r.Header.Set("Content-Type", "application/json")
		return r
	}
	cr := func(r *rm.Resp, from int) {
		r.Header.Set("Content-Range", fmt.Sprintf("bytes %d-%d/%d", from, len(S)-1, len(S)))
	}
	var r *rm.Resp
	switch g.Kind {
	case "status":
		r = errR(g.Status)
		rec.fault = ""
	case "416":
		r = errR(416)
		r.Header.Set("Content-Range", fmt.Sprintf("bytes */%d", len(S)))
		rec.fault = ""
	case "full200":
		r = mk(200, S)
	case "full200-cr":
		r = mk(200, S)
		if hasRange {
			cr(r, a)
		}
	case "wrong-off":
		from := min(max(a+g.Off, 0), len(S))
		st := 206
		if !hasRange {
			st = 200
		}
		r = mk(st, S[from:])
		if hasRange {
			if g.LieCR {
				cr(r, a)
			} else {
				cr(r, from)
			}
		}
	case "wrong-bytes", "other-blob":
		from := min(a, len(S))
		body := append([]byte{}, S[from:]...)
		if g.Kind == "other-blob" {
			body = fill(3000, len(S))[from:]
		} else if len(body) > 0 {
			body[((g.Off%len(body))+len(body))%len(body)] ^= 0x20
		}
		st := 206
		if !hasRange {
			st = 200
		}
		r = mk(st, body)
		if hasRange {
			cr(r, from)
		}
	case "no-cr":
		from := min(a, len(S))
		st := 206
		if !hasRange {
			st = 200
		}
		r = mk(st, S[from:])
	case "alt2xx":
		// a conforming answer under another 2xx status
		if hasRange && a < len(S) {
			r = mk(g.Status, S[a:])
			cr(r, a)
		} else {
			r = mk(g.Status, S)
		}
		if (hasRange && g.Status == 206) || (!hasRange && g.Status == 200) {
			rec.kind = "ok"
		}
	default: // ok: a conforming server
		rec.kind = "ok"
		if hasRange {
			if a >= len(S) {
				r = errR(416)
				r.Header.Set("Content-Range", fmt.Sprintf("bytes */%d", len(S)))
				rec.kind = "ok-416"
			} else {
				r = mk(206, S[a:])
				cr(r, a)
			}
		} else {
			r = mk(200, S)
		}
	}
	rec.status = r.Status
	rec.bodyLen = len(r.Body)
	switch rec.fault {
	case "truncate", "truncate-clean":
		rec.effective = g.At < len(r.Body)
	case "stall":
		rec.effective = true
		w.stallAt = min(max(g.At, 0), len(r.Body))
	case "lie-cl":
		rec.effective = true
	}
	w.recs = append(w.recs, rec)
	return r
}

// shaper wraps the model transport: bodies of successful content responses are
// delivered in the case's chunk sizes, optionally with the terminal result
// arriving together with the last bytes, and are recorded.
type shaper struct {
	w *regWorld
}

func (s *shaper) RoundTrip(req *http.Request) (*http.Response, error) {
	resp, err := s.w.m.RoundTrip(req)
	if err != nil || resp == nil {
		return resp, err
	}
	w := s.w
	if req.Method == "GET" && resp.StatusCode >= 200 && resp.StatusCode < 300 && w.isContentReq(req.URL.Host, req.URL.Path) {
		p := w.c.Passes[min(w.pass, len(w.c.Passes)-1)]
		resp.Body = &shapedBody{w: w, inner: resp.Body, chunks: p.Chunks, withData: p.EOFWithData, stallAt: w.stallAt}
	}
	w.stallAt = -1
	return resp, nil
}

type shapedBody struct {
	w        *regWorld
	inner    io.ReadCloser
	chunks   []int
	withData bool
	buf      []byte
	err      error
	step     int
	zeroRun  int
	closed   bool
	stallAt  int // >= 0: after that many bytes the body blocks until the context ends (the harness ends it)
	sent     int
	started  bool
}

func (b *shapedBody) fillBuf() {
	if b.err != nil {
		return
	}
	tmp := make([]byte, 8192)
	n, err := b.inner.Read(tmp)
	b.buf = append(b.buf, tmp[:n]...)
	if err != nil {
		b.err = err
	}
}

func (b *shapedBody) zero() (int, error) {
	b.zeroRun++
	if b.zeroRun > spinLimit {
		b.w.didSpin = true
		return 0, errSpin
	}
	return 0, nil
}

func (b *shapedBody) Read(p []byte) (int, error) {
	if b.closed {
		return 0, errors.New("harness: read on closed response body")
	}
	if !b.started {
		// the client reads a new body: the stream continues
		b.started = true
		b.w.lastEOF = false
	}
	if b.stallAt >= 0 && b.sent >= b.stallAt {
		// stalled connection: nothing more arrives; the caller's context ends
		b.w.cancel()
		return 0, context.Canceled
	}
	for len(b.buf) == 0 && b.err == nil {
		b.fillBuf()
	}
	if len(b.buf) == 0 {
		b.w.lastEOF = b.err == io.EOF
		return 0, b.err
	}
	if len(p) == 0 {
		return b.zero()
	}
	c := b.chunks[b.step%len(b.chunks)]
	b.step++
	if c == 0 {
		return b.zero()
	}
	n := min(c, len(p), len(b.buf))
	if b.stallAt >= 0 {
		n = min(n, b.stallAt-b.sent)
	}
	copy(p, b.buf[:n])
	b.w.out = append(b.w.out, b.buf[:n]...)
	b.buf = b.buf[n:]
	b.sent += n
	b.zeroRun = 0
	if len(b.buf) == 0 && b.withData {
		for len(b.buf) == 0 && b.err == nil {
			b.fillBuf()
		}
		if len(b.buf) == 0 {
			b.w.lastEOF = b.err == io.EOF
			return n, b.err
		}
	}
	return n, nil
}

func (b *shapedBody) Close() error { b.closed = true; return b.inner.Close() }

func (w *regWorld) setup() {
	w.m = rm.New()
	w.m.Cap = 400
	h := w.m.AddHost(regHost)
	ch := h
	switch {
	case w.c.External > 0:
		// the registry does not hold the blob (404): foreign layer served from its URL
		h.Repo(regRepo)
		ch = w.m.AddExternal(extHost)
		ch.Files[extPath] = w.content
	case w.c.Redirect:
		h.Repo(regRepo).Blobs[w.dig] = w.content
		h.Feat.BlobRedirect = storeHost
		h.Feat.RedirectStatus = w.c.RedirectStatus
		ch = w.m.AddStorage(storeHost, h)
	default:
		h.Repo(regRepo).Blobs[w.dig] = w.content
	}
	ch.Intercept = w.intercept
	w.m.OnArrive = w.onArrive
	hc := config.Host{Name: regHost, Hostname: regHost}
	hosts := []config.Host{}
	if w.c.Mirror != nil {
		mh := w.m.AddHost(mirrorHost)
		mh.Repo(regRepo).Blobs[w.dig] = w.mirrorStream
		mh.Intercept = w.intercept
		hc.Mirrors = []string{mirrorHost}
		mc := config.Host{Name: mirrorHost, Hostname: mirrorHost}
		if w.c.ReqConcurrent > 0 {
			mc.ReqConcurrent = int64(w.c.ReqConcurrent)
		}
		if !throttleHookAvailable {
			mc.ReqConcurrent = 64
		}
		hosts = append(hosts, mc)
	}
	if w.c.ReqConcurrent > 0 {
		hc.ReqConcurrent = int64(w.c.ReqConcurrent)
	}
	if !throttleHookAvailable {
		// without the pqueue hook a self-blocked read cannot be observed: avoid it
		hc.ReqConcurrent = 64
	}
	w.rc = rcutil.New(w.m, rcutil.Conf{
		RetryLimit: w.c.RetryLimit, DelayInit: 50 * time.Microsecond, DelayMax: 400 * time.Microsecond,
		Hosts:   append(hosts, hc),
		RegOpts: []reg.Opts{reg.WithHTTPClient(&http.Client{Transport: &shaper{w: w}})},
	})
}

func (w *regWorld) open(ctx context.Context, d descriptor.Descriptor) (*blob.BReader, error) {
	w.setup()
	w.ctx, w.cancel = context.WithCancel(ctx)
	setThrottleHook(w)
	name := regHost + "/" + regRepo
	if w.c.RefForm&1 != 0 {
		name += ":v1"
	}
	if w.c.RefForm&2 != 0 {
		name += "@" + w.dig
	}
	r, err := ref.New(name)
	if err != nil {
		return nil, fmt.Errorf("harness: %w", err)
	}
	for i := 1; i < w.c.External; i++ {
		d.URLs = append(d.URLs, fmt.Sprintf("https://%s/files/missing-%d", extHost, i))
	}
	if w.c.External > 0 {
		d.URLs = append(d.URLs, "https://"+extHost+extPath)
	}
	return w.rc.BlobGet(w.ctx, r, d)
}
func (w *regWorld) drained() (bool, bool) { return w.lastEOF, true }

func (w *regWorld) nextPass(p int) {
	w.pass = p
	w.out = nil
}
func (w *regWorld) stream(p int) []byte       { return w.streams[p] }
func (w *regWorld) delivered() ([]byte, bool) { return w.out, true }
func (w *regWorld) spun() bool                { return w.didSpin }

// retryable statuses per reghttp (documented behaviour: 429, 408, 500, 502, 504 are retried)
func retryableStatus(st int) bool {
	return st == 429 || st == 408 || st == 500 || st == 502 || st == 504
}

// benign: every answer so far was what a conforming registry may do (correct
// bytes for the requested range, truthful framing, retryable errors, dropped
// connections) and the number of faults stayed below the retry limit.
func (w *regWorld) benign() (bool, string) {
	cost := 0
	for _, r := range w.recs {
		switch {
		case r.kind == "ok":
		case r.kind == "status" && retryableStatus(r.status):
			cost++
			continue
		default:
			return false, "hostile or fatal answer " + r.kind + "/" + strconv.Itoa(r.status)
		}
		switch r.fault {
		case "":
		case "truncate":
			if r.effective {
				cost++
			}
		case "truncate-clean", "no-cl":
			if !r.hasRange && !w.c.SizeKnown {
				return false, "no Content-Length and no stated size: the client cannot know the length"
			}
			if r.fault == "truncate-clean" && r.effective {
				cost++
			}
		default:
			return false, "fault " + r.fault
		}
	}
	if cost > w.c.RetryLimit-1 {
		return false, fmt.Sprintf("%d faults with retry limit %d", cost, w.c.RetryLimit)
	}
	if w.m != nil && w.m.CapHit() {
		return false, "request cap hit"
	}
	if w.c.Mirror != nil && !bytes.Equal(w.mirrorStream, w.content) {
		return false, "the mirror holds different bytes"
	}
	return true, ""
}

func (w *regWorld) notes() []string {
	var out []string
	seen := map[string]bool{}
	add := func(s string) {
		if !seen[s] {
			seen[s] = true
			out = append(out, s)
		}
	}
	for i, r := range w.recs {
		if r.hasRange {
			add("resume:" + r.kind)
		} else if i > 0 && r.pass == w.recs[i-1].pass {
			add("resume-from-0:" + r.kind)
		}
		if r.fault != "" && r.effective {
			add("fault:" + r.fault)
		}
		if r.kind == "status" {
			add("status:" + strconv.Itoa(r.status))
		}
	}
	if len(w.recs) > 1 {
		add("reg:multi-get")
	}
	switch {
	case w.c.External > 0:
		add("reg:external-url-" + strconv.Itoa(w.c.External))
	case w.c.Redirect:
		add("reg:redirect-" + strconv.Itoa(w.c.RedirectStatus))
	case w.c.Mirror != nil:
		add("reg:mirror")
		if len(w.hostsUsed) > 1 {
			add("reg:mirror-both-hosts-served")
		}
		if !bytes.Equal(w.mirrorStream, w.content) {
			add("reg:mirror-corrupted")
		}
	}
	for _, r := range w.recs {
		if r.kind == "alt2xx" {
			add("status:alt2xx-" + strconv.Itoa(r.status))
		}
	}
	if w.blocked {
		add("reg:blocked-on-own-throttle")
	}
	if w.m != nil && w.m.CapHit() {
		add("reg:cap-hit")
	}
	return out
}

func (w *regWorld) close() {
	clearThrottleHook()
	if w.cancel != nil {
		w.cancel()
	}
}

// ---------------------------------------------------------------- entry (c): OCI layout with a tampered blob file

type ocidirWorld struct {
	c       *Case
	content []byte
	dig     string
	streams [][]byte
	onDisk  [][]byte // what the open file descriptor delivers in pass p
	dir     string
	file    string
	pass    int
	rc      *regclient.RegClient
}

func newOcidirWorld(c *Case, content []byte, dig string) *ocidirWorld {
	w := &ocidirWorld{c: c, content: content, dig: dig}
	detached := false // after a rename the open descriptor reads the old inode; later writes go to the new file
	for i, p := range c.Passes {
		s := p.Corr.apply(content)
		w.streams = append(w.streams, s)
		if i > 0 && p.Replace == "rename" {
			detached = true
		}
		if i > 0 && (detached || p.Replace == "keep") {
			// the open descriptor keeps reading the old inode / unchanged file
			w.onDisk = append(w.onDisk, w.onDisk[i-1])
		} else {
			w.onDisk = append(w.onDisk, s)
		}
	}
	return w
}

func (w *ocidirWorld) open(ctx context.Context, d descriptor.Descriptor) (*blob.BReader, error) {
	dir, err := os.MkdirTemp("", "c01-layout-")
	if err != nil {
		return nil, fmt.Errorf("harness: %w", err)
	}
	w.dir = dir
	alg, hx, _ := strings.Cut(w.dig, ":")
	bdir := filepath.Join(dir, "blobs", alg)
	if err := os.MkdirAll(bdir, 0o755); err != nil {
		return nil, fmt.Errorf("harness: %w", err)
	}
	_ = os.WriteFile(filepath.Join(dir, "oci-layout"), []byte(`{"imageLayoutVersion":"1.0.0"}`), 0o644)
	_ = os.WriteFile(filepath.Join(dir, "index.json"), []byte(`{"schemaVersion":2,"mediaType":"application/vnd.oci.image.index.v1+json","manifests":[]}`), 0o644)
	w.file = filepath.Join(bdir, hx)
	if err := os.WriteFile(w.file, w.streams[0], 0o644); err != nil {
		return nil, fmt.Errorf("harness: %w", err)
	}
	w.rc = regclient.New(quiet())
	name := "ocidir://" + dir
	if w.c.RefForm&1 != 0 {
		name += ":v1"
	}
	if w.c.RefForm&2 != 0 {
		name += "@" + w.dig
	}
	r, err := ref.New(name)
	if err != nil {
		return nil, fmt.Errorf("harness: %w", err)
	}
	return w.rc.BlobGet(ctx, r, d)
}

func (w *ocidirWorld) nextPass(p int) {
	w.pass = p
	switch w.c.Passes[p].Replace {
	case "keep":
	case "rename":
		tmp := w.file + ".new"
		_ = os.WriteFile(tmp, w.streams[p], 0o644)
		_ = os.Rename(tmp, w.file)
	default:
		// rewritten in place (same inode: the open descriptor sees the new bytes)
		_ = os.WriteFile(w.file, w.streams[p], 0o644)
	}
}
func (w *ocidirWorld) stream(p int) []byte       { return w.onDisk[p] }
func (w *ocidirWorld) delivered() ([]byte, bool) { return nil, false }
func (w *ocidirWorld) benign() (bool, string)    { return true, "" }
func (w *ocidirWorld) drained() (bool, bool)     { return false, false }
func (w *ocidirWorld) spun() bool                { return false }
func (w *ocidirWorld) notes() []string {
	if w.pass > 0 {
		r := w.c.Passes[w.pass].Replace
		if r == "" {
			r = "inplace"
		}
		return []string{"ocidir:replace-" + r}
	}
	return nil
}
func (w *ocidirWorld) close() {
	if w.dir != "" {
		_ = os.RemoveAll(w.dir)
	}
}

// ---------------------------------------------------------------- entry (d): inline data over a backing store

// dataWorld sets Descriptor.Data and falls back to a backing world when the
// client rejects the inline data.
type dataWorld struct {
	c        *Case
	content  []byte
	data     []byte
	backing world // nil = no backing (unset reference)
}

func newDataWorld(c *Case, content []byte, dig string) *dataWorld {
	w := &dataWorld{c: c, content: content, data: c.Data.apply(content)}
	switch c.Backing {
	case "reg":
		w.backing = newRegWorld(c, content, dig)
	case "ocidir":
		w.backing = newOcidirWorld(c, content, dig)
	}
	return w
}

func (w *dataWorld) open(ctx context.Context, d descriptor.Descriptor) (*blob.BReader, error) {
	d.Data = w.data
	if w.backing != nil {
		return w.backing.open(ctx, d)
	}
	rc := regclient.New(quiet())
	return rc.BlobGet(ctx, ref.Ref{}, d)
}
func (w *dataWorld) nextPass(p int) {
	if w.backing != nil {
		w.backing.nextPass(p)
	}
}
func (w *dataWorld) stream(p int) []byte {
	if w.backing != nil {
		return w.backing.stream(p)
	}
	return nil
}
func (w *dataWorld) delivered() ([]byte, bool) {
	if w.backing == nil {
		return nil, false
	}
	return w.backing.delivered()
}
func (w *dataWorld) benign() (bool, string) {
	if w.backing == nil {
		return false, "no backing store"
	}
	return w.backing.benign()
}
func (w *dataWorld) spun() bool { return w.backing != nil && w.backing.spun() }
func (w *dataWorld) drained() (bool, bool) {
	if w.backing == nil {
		return false, false
	}
	return w.backing.drained()
}
func (w *dataWorld) notes() []string {
	out := []string{}
	if w.backing != nil {
		out = append(out, w.backing.notes()...)
	}
	return out
}
func (w *dataWorld) close() {
	if w.backing != nil {
		w.backing.close()
	}
}

func quiet() regclient.Opt {
	return regclient.WithSlog(slog.New(slog.NewTextHandler(io.Discard, &slog.HandlerOptions{Level: slog.LevelError + 8})))
}

// descFor builds the caller's descriptor with go-digest's type (string conversion only).
func descFor(dig string, size int64) descriptor.Descriptor {
	return descriptor.Descriptor{MediaType: "application/octet-stream", Digest: digest.Digest(dig), Size: size}
}
