// Command c07drv executes a JSON script of OCI-layout operations through the
// PUBLIC regclient API (regclient.New(), ocidir:// references) for the C07
// crash-point check (DESIGN.md §2.4).
//
//	c07drv <script.json>
//
// Output protocol on stdout, one unbuffered write(2) per line:
//
//	PRE-DONE i | PRE-ERR i <msg>     pre-history op i returned
//	READCHECK <json>                 (only with "readcheck") tag listing seen by this fresh client
//	START-VICTIM                     everything after this line is the victim
//	DONE i | ERR i <msg>             victim op i returned
//	END
//
// With "step":true the driver waits for one line on stdin after START-VICTIM
// and after every victim op, so that the harness can snapshot the directory
// at operation boundaries of an uninterrupted run.
package main

import (
	"bufio"
	"bytes"
	"context"
	"encoding/json"
	"fmt"
	"os"
	"sort"
	"strings"

	"github.com/opencontainers/go-digest"

	"github.com/regclient/regclient"
	"github.com/regclient/regclient/types/descriptor"
	"github.com/regclient/regclient/types/manifest"
	"github.com/regclient/regclient/types/ref"
)

// Op is one public-API call.
type Op struct {
	Op         string `json:"op"` // blob | manifest | tagdel | mandel | close | copy | import
	Tag        string `json:"tag,omitempty"`
	Digest     string `json:"digest,omitempty"`
	MediaType  string `json:"media_type,omitempty"`
	Data       []byte `json:"data,omitempty"`    // blob content / raw manifest
	NoDesc     bool   `json:"no_desc,omitempty"` // blob put with an empty descriptor
	Child      bool   `json:"child,omitempty"`   // manifest put WithManifestChild
	Src        string `json:"src,omitempty"`     // copy: full source reference
	Referrers  bool   `json:"referrers,omitempty"`
	DigestTags bool   `json:"digest_tags,omitempty"`
	Tar        string `json:"tar,omitempty"`         // import: tar file
	RefForm    string `json:"ref_form,omitempty"`    // "" (tag if given, else digest) | tag+digest | bare | digest
	DescMode   string `json:"desc_mode,omitempty"`   // blob: "" | none | digest-only | size-only | wrong-digest | wrong-size | inline
	Ctx        string `json:"ctx,omitempty"`         // "" | cancelled (the call gets an already cancelled context)
	Force      bool   `json:"force,omitempty"`       // copy: ImageWithForceRecursive
	Fast       bool   `json:"fast,omitempty"`        // copy: ImageWithFastCheck
	Platform   string `json:"platform,omitempty"`    // copy: ImageWithPlatforms
	ImportName string `json:"import_name,omitempty"` // import: ImageWithImportName
	CheckRefs  bool   `json:"check_refs,omitempty"`  // mandel: WithManifestCheckReferrers
}

// target builds the reference an operation is aimed at.
func target(r ref.Ref, op Op) ref.Ref {
	switch op.RefForm {
	case "bare":
		return r
	case "digest":
		return r.SetDigest(op.Digest)
	case "tag+digest":
		if op.Tag != "" && op.Digest != "" {
			return r.SetTag(op.Tag).AddDigest(op.Digest)
		}
	}
	if op.Tag != "" {
		return r.SetTag(op.Tag)
	}
	if op.Digest != "" {
		return r.SetDigest(op.Digest)
	}
	return r
}

// Script is the driver input.
type Script struct {
	Dir       string `json:"dir"`
	Pre       []Op   `json:"pre"`
	Victim    []Op   `json:"victim"`
	From      int    `json:"from"`      // first victim op to execute
	Step      bool   `json:"step"`      // wait for a line on stdin at op boundaries
	ReadCheck bool   `json:"readcheck"` // list tags and get every tag's manifest before the victim
}

func say(format string, a ...any) {
	s := fmt.Sprintf(format, a...)
	s = strings.ReplaceAll(s, "\n", " ") + "\n"
	_, _ = os.Stdout.WriteString(s) // os.Stdout is unbuffered: one write(2)
}

func main() {
	if len(os.Args) != 2 {
		fmt.Fprintln(os.Stderr, "usage: c07drv script.json")
		os.Exit(64)
	}
	b, err := os.ReadFile(os.Args[1])
	if err != nil {
		fmt.Fprintln(os.Stderr, err)
		os.Exit(65)
	}
	var sc Script
	if err := json.Unmarshal(b, &sc); err != nil {
		fmt.Fprintln(os.Stderr, err)
		os.Exit(65)
	}
	ctx := context.Background()
	rc := regclient.New()
	stdin := bufio.NewReader(os.Stdin)
	pause := func() {
		if sc.Step {
			_, _ = stdin.ReadString('\n')
		}
	}
	for i, op := range sc.Pre {
		if err := run(ctx, rc, sc.Dir, op); err != nil {
			say("PRE-ERR %d %v", i, err)
		} else {
			say("PRE-DONE %d", i)
		}
	}
	if sc.ReadCheck {
		say("READCHECK %s", readCheck(ctx, sc.Dir))
	}
	say("START-VICTIM")
	pause()
	for i := sc.From; i < len(sc.Victim); i++ {
		if err := run(ctx, rc, sc.Dir, sc.Victim[i]); err != nil {
			say("ERR %d %v", i, err)
		} else {
			say("DONE %d", i)
		}
		pause()
	}
	say("END")
}

func baseRef(dir string) (ref.Ref, error) {
	return ref.New("ocidir://" + dir)
}

func run(ctx context.Context, rc *regclient.RegClient, dir string, op Op) error {
	r, err := baseRef(dir)
	if err != nil {
		return err
	}
	if op.Ctx == "cancelled" {
		var cancel context.CancelFunc
		ctx, cancel = context.WithCancel(ctx)
		cancel()
	}
	switch op.Op {
	case "blob":
		d := descriptor.Descriptor{}
		mode := op.DescMode
		if op.NoDesc {
			mode = "none"
		}
		switch mode {
		case "none":
		case "digest-only":
			d.Digest = digest.Digest(op.Digest)
		case "size-only":
			d.Size = int64(len(op.Data))
		case "wrong-digest":
			d.Digest = digest.Digest(op.Digest).Algorithm().FromString("not the content")
			d.Size = int64(len(op.Data))
		case "wrong-size":
			d.Digest = digest.Digest(op.Digest)
			d.Size = int64(len(op.Data)) + 1
		case "inline": // the descriptor carries the content in its data field
			d.Digest = digest.Digest(op.Digest)
			d.Size = int64(len(op.Data))
			d.Data = op.Data
		default:
			d.Digest = digest.Digest(op.Digest)
			d.Size = int64(len(op.Data))
		}
		_, err := rc.BlobPut(ctx, r, d, bytes.NewReader(op.Data))
		return err
	case "manifest":
		m, err := manifest.New(manifest.WithRaw(op.Data), manifest.WithDesc(descriptor.Descriptor{
			MediaType: op.MediaType, Digest: digest.Digest(op.Digest), Size: int64(len(op.Data))}))
		if err != nil {
			return fmt.Errorf("manifest.New: %w", err)
		}
		var mo []regclient.ManifestOpts
		if op.Child {
			mo = append(mo, regclient.WithManifestChild())
		}
		return rc.ManifestPut(ctx, target(r, op), m, mo...)
	case "tagdel":
		return rc.TagDelete(ctx, r.SetTag(op.Tag))
	case "mandel":
		var mo []regclient.ManifestOpts
		if op.CheckRefs {
			mo = append(mo, regclient.WithManifestCheckReferrers())
		}
		return rc.ManifestDelete(ctx, target(r, op), mo...)
	case "blobdel":
		return rc.BlobDelete(ctx, r, descriptor.Descriptor{Digest: digest.Digest(op.Digest)})
	case "close":
		return rc.Close(ctx, r)
	case "copy":
		src, err := ref.New(op.Src)
		if err != nil {
			return err
		}
		var io []regclient.ImageOpts
		if op.Referrers {
			io = append(io, regclient.ImageWithReferrers())
		}
		if op.DigestTags {
			io = append(io, regclient.ImageWithDigestTags())
		}
		if op.Force {
			io = append(io, regclient.ImageWithForceRecursive())
		}
		if op.Fast {
			io = append(io, regclient.ImageWithFastCheck())
		}
		if op.Platform != "" {
			io = append(io, regclient.ImageWithPlatforms([]string{op.Platform}))
		}
		return rc.ImageCopy(ctx, src, target(r, op), io...)
	case "import":
		f, err := os.Open(op.Tar)
		if err != nil {
			return err
		}
		defer f.Close()
		var io []regclient.ImageOpts
		if op.ImportName != "" {
			io = append(io, regclient.ImageWithImportName(op.ImportName))
		}
		return rc.ImageImport(ctx, target(r, op), f, io...)
	}
	return fmt.Errorf("unknown op %q", op.Op)
}

// readCheck is oracle clause (5): what a fresh client process sees.
func readCheck(ctx context.Context, dir string) string {
	type res struct {
		ListErr string            `json:"list_err,omitempty"`
		Tags    map[string]string `json:"tags"`
		GetErr  map[string]string `json:"get_err,omitempty"`
	}
	out := res{Tags: map[string]string{}, GetErr: map[string]string{}}
	rc := regclient.New()
	r, err := baseRef(dir)
	if err != nil {
		out.ListErr = err.Error()
	} else if tl, err := rc.TagList(ctx, r); err != nil {
		out.ListErr = err.Error()
	} else if tags, err := tl.GetTags(); err != nil {
		out.ListErr = err.Error()
	} else {
		sort.Strings(tags)
		for _, t := range tags {
			m, err := rc.ManifestGet(ctx, r.SetTag(t))
			if err != nil {
				out.GetErr[t] = err.Error()
				continue
			}
			// the body must really be there and be the bytes the digest names
			body, err := m.RawBody()
			if err != nil {
				out.GetErr[t] = "RawBody: " + err.Error()
				continue
			}
			d := m.GetDescriptor().Digest
			if d.Validate() == nil && d.Algorithm().FromBytes(body) != d {
				out.GetErr[t] = fmt.Sprintf("body does not hash to %s", d)
				continue
			}
			out.Tags[t] = d.String()
		}
	}
	b, _ := json.Marshal(out)
	return string(b)
}
