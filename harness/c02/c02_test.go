package c02

import (
	"os"
	"strings"
	"testing"

	"pgregory.net/rapid"

	"github.com/regclient/regclient/zz_verif/evid"
)

const prop = "C02"

func TestMain(m *testing.M) {
	code := m.Run()
	evid.Flush(code)
	os.Exit(code)
}

// Case is the unit that is generated, saved and replayed.
type Case struct {
	Part string `json:"part"` // A | B
	A    *CaseA `json:"a,omitempty"`
	B    *CaseB `json:"b,omitempty"`
}

func check(c Case, ev *evid.Collector) []*evid.Violation {
	switch {
	case c.Part == "A" && c.A != nil:
		return checkA(*c.A, ev)
	case c.Part == "B" && c.B != nil:
		return checkB(*c.B, ev)
	}
	return []*evid.Violation{{Sig: "harness-bad-case", Msg: "case has no part"}}
}

// guard runs the check; a panic anywhere becomes a violation.
func guard(c Case, ev *evid.Collector) (vs []*evid.Violation) {
	v := evid.Guard(func() *evid.Violation {
		vs = check(c, ev)
		return nil
	})
	if v != nil {
		vs = append(vs, v)
	}
	return vs
}

// report hands every violation of the case to the collector; it returns the
// first one that is not a known finding.
func report(vs []*evid.Violation, c Case, ev *evid.Collector) *evid.Violation {
	var first *evid.Violation
	for _, v := range vs {
		if ev.Report(v, c) && first == nil {
			first = v
		}
	}
	return first
}

func TestVerifPropA(t *testing.T) {
	ev := evid.For(prop)
	rapid.Check(t, func(rt *rapid.T) {
		a := genA(rt)
		c := Case{Part: "A", A: &a}
		vs := guard(c, ev)
		if inconclusive != "" {
			rt.Fatalf("INCONCLUSIVE (not a violation): %s", inconclusive)
		}
		if v := report(vs, c, ev); v != nil {
			rt.Fatalf("%v", v)
		}
	})
}

func TestVerifPropB(t *testing.T) {
	ev := evid.For(prop)
	rapid.Check(t, func(rt *rapid.T) {
		b := genB(rt)
		c := Case{Part: "B", B: &b}
		vs := guard(c, ev)
		if inconclusive != "" {
			rt.Fatalf("INCONCLUSIVE (not a violation): %s", inconclusive)
		}
		if v := report(vs, c, ev); v != nil {
			rt.Fatalf("%v", v)
		}
	})
}

func TestVerifReplayDir(t *testing.T) {
	ev := evid.For(prop)
	for _, f := range evid.ReplayFiles() {
		var c Case
		if err := evid.LoadCaseFile(f, &c); err != nil {
			t.Fatalf("%s: %v", f, err)
		}
		if v := report(guard(c, ev), c, ev); v != nil {
			t.Errorf("%s: %v", f, v)
		}
	}
}

func TestVerifReplay(t *testing.T) {
	ev := evid.For(prop)
	var c Case
	ok, err := evid.LoadReplay(&c)
	if !ok {
		t.Skip("no VERIF_REPLAY")
	}
	if err != nil {
		t.Fatal(err)
	}
	vs := guard(c, ev)
	for _, v := range vs {
		t.Logf("violation: %v", v)
	}
	if v := report(vs, c, ev); v != nil {
		t.Fatalf("%v", v)
	}
}

// FuzzVerifManifestNew: coverage-guided fuzzing of manifest.New over raw bytes,
// a media type hint and a flag word that selects where the hint goes, the
// expected-digest sources and the digest algorithm. Same oracle as Part A.
func FuzzVerifManifestNew(f *testing.F) {
	ev := evid.For(prop)
	for _, s := range fuzzSeeds {
		for _, fl := range []uint32{0, 1, 2, 0x10, 0x123, 0x2468, 0xffff} {
			f.Add([]byte(s[1]), s[0], fl)
		}
	}
	f.Fuzz(func(t *testing.T, raw []byte, mediaType string, flags uint32) {
		if len(raw) > 4096 || len(mediaType) > 128 {
			return
		}
		a := caseFromFuzz(raw, mediaType, flags)
		c := Case{Part: "A", A: &a}
		if v := report(guard(c, ev), c, ev); v != nil {
			t.Fatalf("%v", v)
		}
	})
}

var fuzzModes = []string{"absent", "ok256", "ok512", "bad256", "bad512", "full256", "full512", "malformed"}

func caseFromFuzz(raw []byte, mediaType string, flags uint32) CaseA {
	a := CaseA{Origin: "fuzz", Entry: "new", RawB64: append([]byte{}, raw...), Repush: "none", CL: "absent", DescSize: "zero"}
	if a.RawB64 == nil {
		a.RawB64 = []byte{}
	}
	a.Family = mtFamily(strings.TrimSpace(strings.ToLower(strings.SplitN(mediaType, ";", 2)[0])))
	if a.Family == "other" {
		a.Family = "oci-image"
	}
	a.Info = BodyInfo{BodyMT: "absent", Valid: false, Style: "fuzz"}
	switch flags & 3 {
	case 1:
		a.ContentType = mediaType
	case 2:
		a.DescMT = mediaType
	case 3:
		a.ContentType, a.DescMT = mediaType, mediaType
	}
	a.RefDig = fuzzModes[(flags>>2)&7]
	a.DescDig = fuzzModes[(flags>>5)&7]
	a.HdrDig = fuzzModes[(flags>>8)&7]
	a.Prefer512 = (flags>>11)&1 == 1
	a.Tag = (flags>>12)&1 == 1
	switch (flags >> 13) & 3 {
	case 1:
		a.DescSize = "ok"
	case 2:
		a.DescSize = "wrong"
	}
	if (flags>>15)&1 == 1 {
		a.Entry = "new-orig"
	}
	return a
}

var fuzzSeeds = [][2]string{
	{mtOCIManifest, `{"schemaVersion":2,"mediaType":"application/vnd.oci.image.manifest.v1+json","config":{"mediaType":"application/vnd.oci.image.config.v1+json","digest":"sha256:44136fa355b3678a1146ad16f7e8649e94fb4fc21fe77e8310c060f61caaff8a","size":2,"data":"e30="},"layers":[{"mediaType":"application/vnd.oci.image.layer.v1.tar+gzip","digest":"sha256:e3b0c44298fc1c149afbf4c8996fb92427ae41e4649b934ca495991b7852b855","size":0,"urls":["https://x"],"annotations":{"a":"b"}}],"subject":{"mediaType":"application/vnd.oci.image.manifest.v1+json","digest":"sha256:e3b0c44298fc1c149afbf4c8996fb92427ae41e4649b934ca495991b7852b855","size":3},"annotations":{"k":"vé"}}`},
	{mtOCIManifest, "{\n  \"layers\": [ {\"mediaType\":\"application/vnd.oci.image.layer.v1.tar\",\"digest\":\"sha256:e3b0c44298fc1c149afbf4c8996fb92427ae41e4649b934ca495991b7852b855\",\"size\":0} ],\n  \"schemaVersion\": 2\n}\n"},
	{mtOCIIndex, `{"schemaVersion":2,"mediaType":"application/vnd.oci.image.index.v1+json","manifests":[{"mediaType":"application/vnd.oci.image.manifest.v1+json","digest":"sha256:e3b0c44298fc1c149afbf4c8996fb92427ae41e4649b934ca495991b7852b855","size":7,"platform":{"architecture":"arm","os":"linux","variant":"v7","os.version":"1","os.features":["a"],"features":["b"]}}]}`},
	{mtOCIArtifact, `{"mediaType":"application/vnd.oci.artifact.manifest.v1+json","artifactType":"application/vnd.example.sbom","blobs":[{"mediaType":"application/octet-stream","digest":"sha256:e3b0c44298fc1c149afbf4c8996fb92427ae41e4649b934ca495991b7852b855","size":0}],"annotations":{"":""}}`},
	{mtDocker2, `{"schemaVersion":2,"mediaType":"application/vnd.docker.distribution.manifest.v2+json","config":{"mediaType":"application/vnd.docker.container.image.v1+json","digest":"sha256:e3b0c44298fc1c149afbf4c8996fb92427ae41e4649b934ca495991b7852b855","size":0},"layers":[]}`},
	{mtDocker2List, `{"schemaVersion":2,"mediaType":"application/vnd.docker.distribution.manifest.list.v2+json","manifests":[{"mediaType":"application/vnd.docker.distribution.manifest.v2+json","digest":"sha256:e3b0c44298fc1c149afbf4c8996fb92427ae41e4649b934ca495991b7852b855","size":1,"platform":{"architecture":"amd64","os":"linux"}}]}`},
	{mtDocker1, `{"schemaVersion":1,"name":"a/b","tag":"t","architecture":"amd64","fsLayers":[{"blobSum":"sha256:e3b0c44298fc1c149afbf4c8996fb92427ae41e4649b934ca495991b7852b855"}],"history":[{"v1Compatibility":"{\"id\":\"0\"}"}]}`},
	{mtDocker1Sig, `{"schemaVersion":1,"name":"a/b","tag":"t","architecture":"amd64","fsLayers":[],"history":[],"signatures":[{"header":{"alg":"ES256"},"signature":"AAAA","protected":"eyJmb3JtYXRMZW5ndGgiOjkxLCJmb3JtYXRUYWlsIjoiZlEiLCJ0aW1lIjoiMjAyMS0xMi0xM1QxMzo0OTozNFoifQ"}]}`},
	{"", `null`},
	{"application/json", `{}`},
}
