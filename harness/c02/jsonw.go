// Package c02 decides C02: a manifest is exactly the bytes its digest names, at
// fetch and after edits.
//
// jsonw.go: the harness's own JSON writer and the generator of manifest bodies
// for every media type. Nothing in here uses regclient types; bodies are built
// as a small ordered AST and rendered with generated style choices (key order,
// whitespace, string escapes, unknown fields).
package c02

import (
	"encoding/base64"
	"fmt"
	"strconv"
	"strings"
	"unicode/utf8"

	"pgregory.net/rapid"
)

// ---------------------------------------------------------------------- AST

type jv struct {
	k   byte // 's' string, 'l' literal (number/true/false/null), 'a' array, 'o' object
	s   string
	arr []*jv
	obj []jkv
}

type jkv struct {
	k string
	v *jv
}

func jS(s string) *jv        { return &jv{k: 's', s: s} }
func jL(s string) *jv        { return &jv{k: 'l', s: s} }
func jA(items ...*jv) *jv    { return &jv{k: 'a', arr: items} }
func jO(pairs ...jkv) *jv    { return &jv{k: 'o', obj: pairs} }
func jI(n int64) *jv         { return jL(strconv.FormatInt(n, 10)) }
func kv(k string, v *jv) jkv { return jkv{k, v} }

func jStrs(ss []string) *jv {
	out := make([]*jv, len(ss))
	for i, s := range ss {
		out[i] = jS(s)
	}
	return jA(out...)
}

// -------------------------------------------------------------------- style

type style struct {
	Shuffle  int  // 0 generator order, 1 top level shuffled, 2 every object shuffled
	WS       int  // 0 compact, 1 ", " / ": ", 2 indent 2 spaces, 3 indent tab, 4 indent 3 spaces, 5 chaotic
	Esc      int  // 0 minimal, 1 non-ASCII as \uXXXX, 2 "\/" and <, 3 per character choice
	Unknown  int  // 0 none, 1 top level, 2 every object
	UpperHex bool // hex digits of \u escapes
	Lead     string
	Trail    string
}

func (s style) label() string {
	return fmt.Sprintf("sh%d-ws%d-esc%d-unk%d", s.Shuffle, s.WS, s.Esc, s.Unknown)
}

// styleClasses turns a style label into one histogram label per dimension.
func styleClasses(label string) []string {
	parts := strings.Split(label, "-")
	if len(parts) != 4 {
		return []string{"style:" + label}
	}
	return []string{"style-shuffle:" + parts[0][2:], "style-ws:" + parts[1][2:], "style-esc:" + parts[2][3:], "style-unknown:" + parts[3][3:]}
}

func genStyle(t *rapid.T, hostile bool) style {
	st := style{}
	st.Shuffle = rapid.SampledFrom([]int{0, 0, 1, 2, 2}).Draw(t, "st_shuffle")
	st.WS = rapid.SampledFrom([]int{0, 0, 1, 2, 3, 4, 5}).Draw(t, "st_ws")
	st.Esc = rapid.SampledFrom([]int{0, 0, 1, 2, 3}).Draw(t, "st_esc")
	st.Unknown = rapid.SampledFrom([]int{0, 0, 0, 1, 2}).Draw(t, "st_unknown")
	st.UpperHex = rapid.Bool().Draw(t, "st_hex")
	if rapid.IntRange(0, 4).Draw(t, "st_trail") == 0 {
		st.Trail = rapid.SampledFrom([]string{"\n", " ", "\r\n", "\n\n", "\t"}).Draw(t, "st_trailv")
	}
	if hostile && rapid.IntRange(0, 9).Draw(t, "st_lead") == 0 {
		st.Lead = rapid.SampledFrom([]string{"\n", " ", "\r\n  "}).Draw(t, "st_leadv")
	}
	return st
}

// ----------------------------------------------------------------- renderer

type renderer struct {
	t       *rapid.T
	st      style
	sb      strings.Builder
	bits    uint64
	nbits   int
	topEnds []int // offsets just after each top-level member value
}

func (r *renderer) bit() bool {
	if r.nbits == 0 {
		r.bits = rapid.Uint64().Draw(r.t, "bits")
		r.nbits = 64
	}
	b := r.bits&1 == 1
	r.bits >>= 1
	r.nbits--
	return b
}

var chaosWS = []string{"", "", " ", "\n", "\t", "\r\n", "  ", " \n "}

func (r *renderer) chaos() {
	// three bits select one of eight
	i := 0
	for k := 0; k < 3; k++ {
		i <<= 1
		if r.bit() {
			i |= 1
		}
	}
	r.sb.WriteString(chaosWS[i])
}

func (r *renderer) indent(depth int) {
	switch r.st.WS {
	case 2:
		r.sb.WriteByte('\n')
		r.sb.WriteString(strings.Repeat("  ", depth))
	case 3:
		r.sb.WriteByte('\n')
		r.sb.WriteString(strings.Repeat("\t", depth))
	case 4:
		r.sb.WriteByte('\n')
		r.sb.WriteString(strings.Repeat("   ", depth))
	case 5:
		r.chaos()
	}
}

func (r *renderer) hex4(v rune) {
	s := fmt.Sprintf("%04x", v)
	if r.st.UpperHex {
		s = strings.ToUpper(s)
	}
	r.sb.WriteString(`\u` + s)
}

// loneSurrogate is a marker rune rendered as the escape of an unpaired high
// surrogate (valid JSON text whose decoded value is U+FFFD).
const loneSurrogate = rune(0xF8FF)

func (r *renderer) str(s string) {
	r.sb.WriteByte('"')
	for _, c := range s {
		esc := false
		switch r.st.Esc {
		case 3:
			esc = r.bit()
		}
		switch {
		case c == loneSurrogate:
			r.sb.WriteString(`\ud83d`)
		case c == utf8.RuneError:
			r.sb.WriteString("\\ufffd")
		case c == '"':
			if esc {
				r.hex4(c)
			} else {
				r.sb.WriteString(`\"`)
			}
		case c == '\\':
			if esc {
				r.hex4(c)
			} else {
				r.sb.WriteString(`\\`)
			}
		case c == '\n' && !esc:
			r.sb.WriteString(`\n`)
		case c == '\t' && !esc:
			r.sb.WriteString(`\t`)
		case c == '\r' && !esc:
			r.sb.WriteString(`\r`)
		case c == '\b' && !esc:
			r.sb.WriteString(`\b`)
		case c == '\f' && !esc:
			r.sb.WriteString(`\f`)
		case c < 0x20:
			r.hex4(c)
		case c == '/':
			if r.st.Esc == 2 || esc {
				r.sb.WriteString(`\/`)
			} else {
				r.sb.WriteByte('/')
			}
		case c == '<' || c == '>' || c == '&':
			if r.st.Esc == 2 || esc {
				r.hex4(c)
			} else {
				r.sb.WriteRune(c)
			}
		case c >= 0x80:
			if r.st.Esc == 1 || esc {
				if c > 0xFFFF {
					c2 := c - 0x10000
					r.hex4(0xD800 + (c2 >> 10))
					r.hex4(0xDC00 + (c2 & 0x3FF))
				} else {
					r.hex4(c)
				}
			} else {
				r.sb.WriteRune(c)
			}
		default:
			r.sb.WriteRune(c)
		}
	}
	r.sb.WriteByte('"')
}

func (r *renderer) val(v *jv, depth int) {
	switch v.k {
	case 's':
		r.str(v.s)
	case 'l':
		r.sb.WriteString(v.s)
	case 'a':
		r.sb.WriteByte('[')
		for i, it := range v.arr {
			if i > 0 {
				r.sb.WriteByte(',')
				if r.st.WS == 1 {
					r.sb.WriteByte(' ')
				}
			}
			r.indent(depth + 1)
			r.val(it, depth+1)
		}
		if len(v.arr) > 0 {
			r.indent(depth)
		} else if r.st.WS == 5 {
			r.chaos()
		}
		r.sb.WriteByte(']')
	case 'o':
		pairs := v.obj
		if len(pairs) > 1 && (r.st.Shuffle == 2 || (r.st.Shuffle == 1 && depth == 0)) {
			pairs = rapid.Permutation(pairs).Draw(r.t, "perm")
		}
		r.sb.WriteByte('{')
		for i, p := range pairs {
			if i > 0 {
				r.sb.WriteByte(',')
				if r.st.WS == 1 {
					r.sb.WriteByte(' ')
				}
			}
			r.indent(depth + 1)
			r.str(p.k)
			if r.st.WS == 5 {
				r.chaos()
			}
			r.sb.WriteByte(':')
			switch r.st.WS {
			case 1, 2, 3, 4:
				r.sb.WriteByte(' ')
			case 5:
				r.chaos()
			}
			r.val(p.v, depth+1)
			if depth == 0 {
				r.topEnds = append(r.topEnds, r.sb.Len())
			}
		}
		if len(pairs) > 0 {
			r.indent(depth)
		} else if r.st.WS == 5 {
			r.chaos()
		}
		r.sb.WriteByte('}')
	}
}

// render serialises v with style st. topEnds (offsets relative to the returned
// string) mark the end of every top-level member value.
func render(t *rapid.T, v *jv, st style) (string, []int) {
	r := &renderer{t: t, st: st}
	r.sb.WriteString(st.Lead)
	r.val(v, 0)
	r.sb.WriteString(st.Trail)
	return r.sb.String(), r.topEnds
}

// ------------------------------------------------------------ value pools

var (
	annKeys = []string{"org.example.a", "org.example.b", "k", "org.opencontainers.image.created", "é\"q", "", "a/b<c>&d", "key with spaces", "org.opencontainers.image.ref.name"}
	annVals = []string{"v1", "v2", "2024-01-02T03:04:05Z", "é\"q\\", "", "<script>&amp;</script>", "line1\nline2\ttab", "😀 emoji", "\u2028sep\u2029", "https://example.com/a/b?c=d&e=f",
		"\x00\x01\x1f", string(loneSurrogate) + "x", strings.Repeat("long-", 30)}
	layerMTsOCI    = []string{"application/vnd.oci.image.layer.v1.tar+gzip", "application/vnd.oci.image.layer.v1.tar", "application/vnd.oci.image.layer.v1.tar+zstd", "application/vnd.oci.image.layer.nondistributable.v1.tar+gzip", "application/octet-stream", "application/vnd.example.thing"}
	layerMTsDocker = []string{"application/vnd.docker.image.rootfs.diff.tar.gzip", "application/vnd.docker.image.rootfs.foreign.diff.tar.gzip", "application/vnd.docker.image.rootfs.diff.tar"}
	artTypes       = []string{"application/vnd.example.sbom", "application/vnd.example.sig+json", "application/spdx+json"}
	archs          = []string{"amd64", "arm64", "arm", "ppc64le", "386", "unknown", "riscv64"}
	oss            = []string{"linux", "windows", "darwin", "unknown", "freebsd"}
	variants       = []string{"v6", "v7", "v8", "v2"}
	osVersions     = []string{"10.0.17763.1", "10.0.20348.2"}
	featPool       = []string{"win32k", "sse4", "aes", "é", ""}
	urlPool        = []string{"https://ext.example.test/a/b", "http://mirror.example.test/blob?x=1&y=<2>", "urn:x"}

	manifestMTs = []string{mtOCIManifest, mtOCIIndex, mtOCIArtifact, mtDocker2, mtDocker2List, mtDocker1, mtDocker1Sig}
)

// media types (written out, not imported from regclient)
const (
	mtOCIManifest  = "application/vnd.oci.image.manifest.v1+json"
	mtOCIIndex     = "application/vnd.oci.image.index.v1+json"
	mtOCIArtifact  = "application/vnd.oci.artifact.manifest.v1+json"
	mtDocker2      = "application/vnd.docker.distribution.manifest.v2+json"
	mtDocker2List  = "application/vnd.docker.distribution.manifest.list.v2+json"
	mtDocker1      = "application/vnd.docker.distribution.manifest.v1+json"
	mtDocker1Sig   = "application/vnd.docker.distribution.manifest.v1+prettyjws"
	mtOCIConfig    = "application/vnd.oci.image.config.v1+json"
	mtOCIEmpty     = "application/vnd.oci.empty.v1+json"
	mtDockerConfig = "application/vnd.docker.container.image.v1+json"
)

var families = []string{"oci-image", "oci-index", "oci-artifact", "docker2-image", "docker2-list", "schema1", "schema1-signed"}

func famMT(f string) string {
	switch f {
	case "oci-image":
		return mtOCIManifest
	case "oci-index":
		return mtOCIIndex
	case "oci-artifact":
		return mtOCIArtifact
	case "docker2-image":
		return mtDocker2
	case "docker2-list":
		return mtDocker2List
	case "schema1":
		return mtDocker1
	case "schema1-signed":
		return mtDocker1Sig
	}
	return ""
}

func mtFamily(mt string) string {
	for _, f := range families {
		if famMT(f) == mt {
			return f
		}
	}
	return "other"
}

// ------------------------------------------------------------- body builder

type bgen struct {
	t       *rapid.T
	hostile bool
	st      style
	invalid bool // a deliberately malformed element was produced
}

// chance is true with a probability of roughly 0.5/n … 1/n. rapid's integers are
// biased to 0, 1 and the maximum, so an interior value is tested (and shrinking
// moves towards "false").
func (g *bgen) chance(n int, label string) bool {
	v := rapid.IntRange(0, n-1).Draw(g.t, label)
	if n >= 4 {
		return v == n-2
	}
	return v == n-1
}

func (g *bgen) unknown(depth int) jkv {
	t := g.t
	switch rapid.IntRange(0, 5).Draw(t, "unk_kind") {
	case 0:
		return kv("x-verif-unknown", jO(kv("a", jA(jL("1"), jL("2.5e3"), jO(kv("b", jL("null"))))), kv("c", jS("é"))))
	case 1:
		return kv("Z", jA(jL("true"), jL("false"), jL("null"), jL("-0"), jL("1E2")))
	case 2:
		return kv("", jS(""))
	case 3:
		return kv("io.example/ünknown", jS(rapid.SampledFrom(annVals).Draw(t, "unk_val")))
	case 4:
		return kv("x-nested", jO(kv("mediaType", jS("application/x-nested")), kv("digest", jS("sha256:zz")), kv("size", jL("1"))))
	default:
		return kv("x-num", jL(rapid.SampledFrom([]string{"0", "12345678901234567890", "1.5", "-7"}).Draw(t, "unk_num")))
	}
}

func (g *bgen) withUnknown(pairs []jkv, depth int) []jkv {
	if g.st.Unknown == 0 || (g.st.Unknown == 1 && depth > 0) {
		return pairs
	}
	if depth > 0 && !g.chance(3, "unk_here") {
		return pairs
	}
	n := rapid.IntRange(1, 2).Draw(g.t, "unk_n")
	for i := 0; i < n; i++ {
		u := g.unknown(depth)
		dup := false
		for _, p := range pairs {
			if strings.EqualFold(p.k, u.k) {
				dup = true
			}
		}
		if dup {
			continue
		}
		pos := rapid.IntRange(0, len(pairs)).Draw(g.t, "unk_pos")
		pairs = append(pairs[:pos:pos], append([]jkv{u}, pairs[pos:]...)...)
	}
	return pairs
}

func (g *bgen) annotations(label string) *jv {
	t := g.t
	n := rapid.IntRange(0, 3).Draw(t, label+"_n")
	pairs := []jkv{}
	seen := map[string]bool{}
	for i := 0; i < n; i++ {
		k := rapid.SampledFrom(annKeys).Draw(t, label+"_k")
		if seen[k] {
			continue
		}
		seen[k] = true
		pairs = append(pairs, kv(k, jS(rapid.SampledFrom(annVals).Draw(t, label+"_v"))))
	}
	return jO(pairs...)
}

func (g *bgen) platform() *jv {
	t := g.t
	pairs := []jkv{
		kv("architecture", jS(rapid.SampledFrom(archs).Draw(t, "p_arch"))),
		kv("os", jS(rapid.SampledFrom(oss).Draw(t, "p_os"))),
	}
	if g.chance(3, "p_hasver") {
		pairs = append(pairs, kv("os.version", jS(rapid.SampledFrom(osVersions).Draw(t, "p_ver"))))
	}
	if g.chance(4, "p_hasosf") {
		pairs = append(pairs, kv("os.features", jStrs(rapid.SliceOfN(rapid.SampledFrom(featPool), 0, 2).Draw(t, "p_osf"))))
	}
	if g.chance(3, "p_hasvar") {
		pairs = append(pairs, kv("variant", jS(rapid.SampledFrom(variants).Draw(t, "p_var"))))
	}
	if g.chance(5, "p_hasfeat") {
		pairs = append(pairs, kv("features", jStrs(rapid.SliceOfN(rapid.SampledFrom(featPool), 0, 2).Draw(t, "p_feat"))))
	}
	if g.hostile && g.chance(12, "p_null") {
		return jL("null")
	}
	return jO(g.withUnknown(pairs, 2)...)
}

// desc builds one descriptor object. role: config | layer | manifest | subject | blob
func (g *bgen) desc(role string, docker bool) *jv {
	t := g.t
	content := rapid.SliceOfN(rapid.Byte(), 0, 24).Draw(t, "d_content")
	alg := "sha256"
	if g.chance(6, "d_512") {
		alg = "sha512"
	}
	dig := hashOf(alg, content)
	size := int64(len(content))
	var mt string
	switch role {
	case "config":
		mt = mtOCIConfig
		if docker {
			mt = mtDockerConfig
		} else if g.chance(4, "d_emptycfg") {
			mt = mtOCIEmpty
			content = []byte("{}")
			dig, size = hashOf(alg, content), 2
		} else if g.chance(6, "d_artcfg") {
			mt = rapid.SampledFrom(artTypes).Draw(t, "d_artcfgv")
		}
	case "layer":
		if docker {
			mt = rapid.SampledFrom(layerMTsDocker).Draw(t, "d_lmt")
		} else {
			mt = rapid.SampledFrom(layerMTsOCI).Draw(t, "d_lmt")
		}
	case "manifest", "subject":
		if docker {
			mt = rapid.SampledFrom([]string{mtDocker2, mtDocker2, mtDocker2List, mtDocker1}).Draw(t, "d_mmt")
		} else {
			mt = rapid.SampledFrom([]string{mtOCIManifest, mtOCIManifest, mtOCIIndex, mtDocker2, mtOCIArtifact, "application/vnd.example.blob"}).Draw(t, "d_mmt")
		}
	default:
		mt = rapid.SampledFrom([]string{"application/octet-stream", "application/vnd.example.thing", "text/plain"}).Draw(t, "d_bmt")
	}
	sizeLit := strconv.FormatInt(size, 10)
	if g.chance(12, "d_oddsize") {
		sizeLit = rapid.SampledFrom([]string{"0", "9223372036854775807", "-1", "1234567"}).Draw(t, "d_oddsizev")
	}
	if g.hostile && g.chance(60, "d_badsize") {
		sizeLit = rapid.SampledFrom([]string{"1.0", "1e2", `"12"`, "9223372036854775808"}).Draw(t, "d_badsizev")
		g.invalid = true
	}
	pairs := []jkv{kv("mediaType", jS(mt)), kv("digest", jS(dig)), kv("size", jL(sizeLit))}
	if g.hostile && g.chance(25, "d_dropfield") {
		i := rapid.IntRange(0, 2).Draw(t, "d_dropi")
		pairs = append(pairs[:i:i], pairs[i+1:]...)
	}
	if g.hostile && g.chance(25, "d_oddigest") {
		for i := range pairs {
			if pairs[i].k == "digest" {
				pairs[i].v = jS(rapid.SampledFrom([]string{"", "sha256:zz", "sha256:" + strings.Repeat("A", 64), "md5:d41d8cd98f00b204e9800998ecf8427e", "sha256-" + strings.Repeat("0", 64)}).Draw(t, "d_oddigestv"))
			}
		}
	}
	if role == "layer" && g.chance(6, "d_urls") {
		pairs = append(pairs, kv("urls", jStrs(rapid.SliceOfN(rapid.SampledFrom(urlPool), 0, 2).Draw(t, "d_urlsv"))))
	}
	if g.chance(4, "d_ann") {
		pairs = append(pairs, kv("annotations", g.annotations("d_ann")))
	}
	if g.chance(5, "d_data") {
		data := content
		if g.chance(5, "d_datawrong") {
			data = append([]byte("x"), content...)
		}
		enc := base64.StdEncoding.EncodeToString(data)
		if g.hostile && g.chance(30, "d_databad") {
			enc = "!!notbase64"
			g.invalid = true
		}
		pairs = append(pairs, kv("data", jS(enc)))
	}
	if role == "manifest" {
		if !g.chance(4, "d_noplat") {
			pairs = append(pairs, kv("platform", g.platform()))
		}
	} else if g.chance(20, "d_platodd") {
		pairs = append(pairs, kv("platform", g.platform()))
	}
	if (role == "manifest" || role == "subject") && g.chance(5, "d_at") {
		pairs = append(pairs, kv("artifactType", jS(rapid.SampledFrom(artTypes).Draw(t, "d_atv"))))
	}
	if g.hostile && g.chance(30, "d_null") {
		pairs = append(pairs, kv(rapid.SampledFrom([]string{"urls", "annotations", "data", "platform"}).Draw(t, "d_nullk"), jL("null")))
		// duplicates of an existing key are removed below
		seen := map[string]bool{}
		out := pairs[:0:0]
		for _, p := range pairs {
			if !seen[p.k] {
				seen[p.k] = true
				out = append(out, p)
			}
		}
		pairs = out
	}
	return jO(g.withUnknown(pairs, 1)...)
}

func (g *bgen) descList(role string, docker bool, max int) *jv {
	n := rapid.IntRange(0, max).Draw(g.t, role+"_n")
	items := make([]*jv, 0, n)
	for i := 0; i < n; i++ {
		if i > 0 && g.chance(6, role+"_dup") {
			items = append(items, items[rapid.IntRange(0, i-1).Draw(g.t, role+"_dupi")])
			continue
		}
		items = append(items, g.desc(role, docker))
	}
	return jA(items...)
}

// mtField decides the body's mediaType member. mode: present | absent | contradict
func (g *bgen) mtField(fam string, allowAbsent bool) (jkv, string, bool) {
	t := g.t
	k := rapid.IntRange(0, 9).Draw(t, "mt_mode")
	switch {
	case k < 2 && allowAbsent:
		return jkv{}, "absent", false
	case k == 2 && g.hostile:
		other := rapid.SampledFrom(append(append([]string{}, manifestMTs...), "application/json", strings.ToUpper(famMT(fam)), "")).Draw(t, "mt_other")
		if other == famMT(fam) {
			return kv("mediaType", jS(other)), "present", true
		}
		if other == "" {
			return kv("mediaType", jS("")), "absent", true
		}
		return kv("mediaType", jS(other)), "contradict", true
	}
	return kv("mediaType", jS(famMT(fam))), "present", true
}

// BodyInfo labels a generated body.
type BodyInfo struct {
	BodyMT string `json:"body_mt"` // present | absent | contradict
	Valid  bool   `json:"valid"`   // inside the family's grammar: non-vacuity may be demanded
	Style  string `json:"style"`
	Sign   string `json:"sign,omitempty"` // "" | hand | libtrust
}

func (g *bgen) top(fam string) (*jv, string) {
	t := g.t
	var pairs []jkv
	bodyMT := "absent"
	addMT := func(allowAbsent bool) {
		f, mode, has := g.mtField(fam, allowAbsent)
		bodyMT = mode
		if has {
			pairs = append(pairs, f)
		}
	}
	switch fam {
	case "oci-image":
		pairs = append(pairs, kv("schemaVersion", jL("2")))
		addMT(true)
		if g.chance(4, "top_at") {
			pairs = append(pairs, kv("artifactType", jS(rapid.SampledFrom(artTypes).Draw(t, "top_atv"))))
		}
		pairs = append(pairs, kv("config", g.desc("config", false)), kv("layers", g.descList("layer", false, 4)))
		if g.chance(3, "top_subj") {
			pairs = append(pairs, kv("subject", g.desc("subject", false)))
		}
		if g.chance(2, "top_ann") {
			pairs = append(pairs, kv("annotations", g.annotations("top_ann")))
		}
	case "oci-index":
		pairs = append(pairs, kv("schemaVersion", jL("2")))
		addMT(true)
		if g.chance(5, "top_at") {
			pairs = append(pairs, kv("artifactType", jS(rapid.SampledFrom(artTypes).Draw(t, "top_atv"))))
		}
		pairs = append(pairs, kv("manifests", g.descList("manifest", false, 4)))
		if g.chance(4, "top_subj") {
			pairs = append(pairs, kv("subject", g.desc("subject", false)))
		}
		if g.chance(2, "top_ann") {
			pairs = append(pairs, kv("annotations", g.annotations("top_ann")))
		}
	case "oci-artifact":
		addMT(false)
		pairs = append(pairs, kv("artifactType", jS(rapid.SampledFrom(artTypes).Draw(t, "top_atv"))))
		pairs = append(pairs, kv("blobs", g.descList("blob", false, 3)))
		if g.chance(2, "top_subj") {
			pairs = append(pairs, kv("subject", g.desc("subject", false)))
		}
		if g.chance(2, "top_ann") {
			pairs = append(pairs, kv("annotations", g.annotations("top_ann")))
		}
	case "docker2-image":
		pairs = append(pairs, kv("schemaVersion", jL("2")))
		addMT(g.hostile)
		pairs = append(pairs, kv("config", g.desc("config", true)), kv("layers", g.descList("layer", true, 4)))
		if g.chance(4, "top_ann") {
			pairs = append(pairs, kv("annotations", g.annotations("top_ann")))
		}
	case "docker2-list":
		pairs = append(pairs, kv("schemaVersion", jL("2")))
		addMT(g.hostile)
		pairs = append(pairs, kv("manifests", g.descList("manifest", true, 4)))
		if g.chance(4, "top_ann") {
			pairs = append(pairs, kv("annotations", g.annotations("top_ann")))
		}
	case "schema1", "schema1-signed":
		pairs = append(pairs, kv("schemaVersion", jL("1")))
		if g.chance(5, "top_s1mt") {
			addMT(true)
		}
		nL := rapid.IntRange(0, 3).Draw(t, "s1_n")
		fs, hist := []*jv{}, []*jv{}
		for i := 0; i < nL; i++ {
			content := rapid.SliceOfN(rapid.Byte(), 0, 8).Draw(t, "s1_blob")
			fs = append(fs, jO(kv("blobSum", jS(hashOf("sha256", content)))))
			hist = append(hist, jO(kv("v1Compatibility", jS(fmt.Sprintf(`{"id":"%d","created":"2020-01-01T00:00:00Z","container_config":{"Cmd":["/bin/sh","-c","#(nop) CMD [\"/bin/bash\"]"]},"note":%q}`, i, rapid.SampledFrom(annVals[:10]).Draw(t, "s1_note"))))))
		}
		pairs = append(pairs,
			kv("name", jS(rapid.SampledFrom([]string{"library/debian", "proj/img", "é/x"}).Draw(t, "s1_name"))),
			kv("tag", jS(rapid.SampledFrom([]string{"latest", "6", "v1.2.3"}).Draw(t, "s1_tag"))),
			kv("architecture", jS(rapid.SampledFrom(archs).Draw(t, "s1_arch"))),
			kv("fsLayers", jA(fs...)), kv("history", jA(hist...)))
	}
	if g.hostile && g.chance(40, "top_big") {
		pairs = append(pairs, kv("x-padding", jS(strings.Repeat("0123456789abcdef", 4200))))
	}
	return jO(g.withUnknown(pairs, 0)...), bodyMT
}

// jwk of the upstream schema1 fixture (a valid P-256 public key).
const fixedJWK = `{"crv":"P-256","kid":"FD6K:7VOX:ZVOM:34T7:2ZT5:753N:ZM4C:RJIF:WPOO:NPC2:7VPJ:3TVM","kty":"EC","x":"kHg6ZEbadXH4gC5ggkduHEAeJP40vdudo7tekiigA00","y":"K5r269kJQV1ERenXMuEQbY7_hrbxy1JnTnSOBR0bvTg"}`

func b64u(b []byte, pad bool) string {
	s := base64.URLEncoding.EncodeToString(b)
	if !pad {
		s = strings.TrimRight(s, "=")
	}
	return s
}

// envelope wraps a rendered payload into a hand-built pretty-JWS document.
func (g *bgen) envelope(payload string, topEnds []int) string {
	t := g.t
	closeIdx := strings.LastIndexByte(payload, '}')
	if closeIdx < 0 {
		return payload
	}
	last := closeIdx - 1
	for last >= 0 && strings.ContainsRune(" \t\r\n", rune(payload[last])) {
		last--
	}
	fl := last + 1
	// hostile: split after an earlier top-level member, so that the envelope's own
	// top level hides the remaining members (they live in formatTail only)
	if g.hostile && len(topEnds) > 1 && g.chance(8, "jws_early") {
		fl = topEnds[rapid.IntRange(0, len(topEnds)-2).Draw(t, "jws_earlyi")]
	}
	if fl <= 0 || fl > len(payload) || payload[fl-1] == '{' || payload[fl-1] == ',' {
		fl = last + 1
	}
	tail := payload[fl:]
	nsig := rapid.SampledFrom([]int{1, 1, 1, 2}).Draw(t, "jws_nsig")
	pad := g.chance(5, "jws_pad")
	blocks := []string{}
	for i := 0; i < nsig; i++ {
		var prot string
		switch rapid.IntRange(0, 2).Draw(t, "jws_protorder") {
		case 0:
			prot = fmt.Sprintf(`{"formatLength":%d,"formatTail":"%s","time":"2021-12-13T13:49:3%dZ"}`, fl, b64u([]byte(tail), false), i)
		case 1:
			prot = fmt.Sprintf(`{"time":"2021-12-13T13:49:3%dZ","formatTail":"%s","formatLength":%d}`, i, b64u([]byte(tail), pad), fl)
		default:
			prot = fmt.Sprintf("{ \"formatTail\": \"%s\",\n \"formatLength\": %d }", b64u([]byte(tail), false), fl)
		}
		sig := rapid.SliceOfN(rapid.Byte(), 64, 64).Draw(t, "jws_sig")
		hdr := `{"alg":"ES256"}`
		if rapid.Bool().Draw(t, "jws_jwk") {
			hdr = `{"jwk":` + fixedJWK + `,"alg":"ES256"}`
		}
		blocks = append(blocks, fmt.Sprintf(`{"header":%s,"signature":"%s","protected":"%s"}`, hdr, b64u(sig, false), b64u([]byte(prot), pad)))
	}
	sep := rapid.SampledFrom([]string{"", " ", "\n   ", "\n"}).Draw(t, "jws_sep")
	end := rapid.SampledFrom([]string{"", "\n", " \n"}).Draw(t, "jws_end")
	return payload[:fl] + "," + sep + `"signatures":` + strings.TrimLeft(sep, "\n") + "[" + strings.Join(blocks, ","+sep) + "]" + sep + "}" + end
}

var invalidBodies = []string{"", "null", "{}", "[]", "{", `{"schemaVersion":2`, `{"schemaVersion":2} x`, `"string"`, "\xef\xbb\xbf{}", `{"schemaVersion":"2"}`, `{"layers":{}}`, `{"manifests":[1]}`, `{"config":[]}`, `{"annotations":{"a":1}}`}

// genBody draws a manifest body of the given family.
func genBody(t *rapid.T, fam string, hostile bool) (string, BodyInfo) {
	g := &bgen{t: t, hostile: hostile}
	g.st = genStyle(t, hostile)
	info := BodyInfo{Style: g.st.label()}
	if hostile && g.chance(40, "body_invalid") {
		info.BodyMT, info.Valid = "absent", false
		info.Style = "invalid-constant"
		raw := rapid.SampledFrom(invalidBodies).Draw(t, "body_invalidv")
		if fam == "schema1-signed" {
			info.Sign = "hand"
		}
		return raw, info
	}
	v, bodyMT := g.top(fam)
	raw, topEnds := render(t, v, g.st)
	info.BodyMT = bodyMT
	info.Valid = !g.invalid && bodyMT != "contradict"
	if fam == "schema1-signed" {
		if g.st.Lead != "" {
			// formatLength counts from the first byte served; the client's decoder sees the
			// document without leading white space and rejects it. A rejection is not a
			// violation, so only the non-vacuity demand is dropped for this shape.
			info.Valid = false
		}
		if rapid.IntRange(0, 3).Draw(t, "sign_kind") == 0 {
			info.Sign = "libtrust" // raw is the payload; the envelope is produced by libtrust inside the check
			// libtrust takes leading whitespace as part of the payload but requires '{' '\n' for indent detection only
		} else {
			info.Sign = "hand"
			raw = g.envelope(raw, topEnds)
		}
	}
	return raw, info
}
