package c02

// parta.go: Part A of C02 — fetch / construct. A generated body is handed to
// the client through one of six entries together with independently chosen
// expected-digest sources; a manifest that comes back must be exactly the
// served bytes under the digest it was obtained for.

import (
	"bytes"
	"context"
	"encoding/json"
	"fmt"
	"net/http"
	"os"
	"path/filepath"
	"strings"
	"sync"
	"syscall"
	"time"

	"github.com/docker/libtrust"
	digest "github.com/opencontainers/go-digest"
	"pgregory.net/rapid"

	"github.com/regclient/regclient"
	"github.com/regclient/regclient/scheme/reg"
	"github.com/regclient/regclient/types/descriptor"
	"github.com/regclient/regclient/types/manifest"
	"github.com/regclient/regclient/types/platform"
	"github.com/regclient/regclient/types/ref"
	"github.com/regclient/regclient/zz_verif/evid"
	"github.com/regclient/regclient/zz_verif/rcutil"
	rm "github.com/regclient/regclient/zz_verif/regmodel"
)

// CaseA is one Part A case (plain data).
type CaseA struct {
	Family string   `json:"family"`
	Info   BodyInfo `json:"info"`
	Raw    string   `json:"raw"`
	RawB64 []byte   `json:"raw_b64,omitempty"` // overrides Raw (arbitrary bytes from the fuzz target)
	Origin string   `json:"origin"`            // gen | fuzz

	Entry string `json:"entry"` // new | new-orig | reg-get | reg-head | layout-get | layout-head | desc-data | desc-data-layout

	// expected-digest sources: absent | ok256 | ok512 | bad256 | bad512 | full256 | full512 | malformed
	RefDig  string `json:"ref_dig"`
	DescDig string `json:"desc_dig"`
	HdrDig  string `json:"hdr_dig"`

	DescMT      string `json:"desc_mt"`      // media type in the descriptor ("" = none)
	DescSize    string `json:"desc_size"`    // zero | ok | wrong
	ContentType string `json:"content_type"` // exact header value ("" = header absent)
	CL          string `json:"cl"`           // Content-Length header: ok | absent | wrong
	Prefer512   bool   `json:"prefer512"`
	Tag         bool   `json:"tag"`    // the reference carries a tag
	Inline      string `json:"inline"` // desc-data: ok | corrupt
	Repush      string `json:"repush"` // none | reg-tag | reg-digest | reg-digest-otheralg | layout-tag | layout-digest | layout-digest-otheralg | layout-digest-wrong
	RequireDig  bool   `json:"require_digest"`

	// dimensions added by the generator-domain audit
	Cache      bool        `json:"cache,omitempty"`       // registry client built with reg.WithCache (as regctl / regsync do)
	DefaultTag bool        `json:"default_tag,omitempty"` // the tag is the implicit "latest" (reference written without a tag)
	Platform   bool        `json:"platform,omitempty"`    // reg-get / layout-get: the body is reached through WithManifestPlatform from a wrapper index; DescDig is the wrapper's entry digest
	Again      string      `json:"again,omitempty"`       // legacy single-step form of saved cases: get | head | edit-get | edit-head | put-edit-get
	AgainProg  []AgainStep `json:"again_prog,omitempty"`  // program on the same client after a successful registry fetch
}

var digModes = []string{"absent", "absent", "absent", "ok256", "ok256", "ok512", "bad256", "bad512", "full256", "full512", "malformed"}

func genCT(t *rapid.T, fam string, label string) string {
	mt := famMT(fam)
	switch rapid.IntRange(0, 11).Draw(t, label) {
	case 0, 1:
		return ""
	case 2:
		other := rapid.SampledFrom(append(append([]string{}, manifestMTs...), "application/json", "text/plain", "application/octet-stream")).Draw(t, label+"_other")
		return other
	case 3:
		return mt + "; charset=utf-8"
	case 4:
		return strings.ToUpper(mt[:20]) + mt[20:]
	case 5:
		return " " + mt + " ;q=1"
	}
	return mt
}

func genA(t *rapid.T) CaseA {
	c := CaseA{Origin: "gen"}
	c.Family = rapid.SampledFrom(families).Draw(t, "family")
	c.Raw, c.Info = genBody(t, c.Family, true)
	c.Entry = rapid.SampledFrom([]string{"new", "new", "new", "new-orig", "reg-get", "reg-get", "reg-get", "reg-head", "layout-get", "layout-get", "desc-data",
		"reg-get", "layout-head", "desc-data-layout", "new", "reg-get"}).Draw(t, "entry")
	c.RefDig = rapid.SampledFrom(digModes).Draw(t, "ref_dig")
	c.DescDig = rapid.SampledFrom(digModes).Draw(t, "desc_dig")
	c.HdrDig = rapid.SampledFrom(digModes).Draw(t, "hdr_dig")
	switch rapid.IntRange(0, 5).Draw(t, "desc_mt") {
	case 0, 1:
		c.DescMT = famMT(c.Family)
	case 2:
		c.DescMT = rapid.SampledFrom(manifestMTs).Draw(t, "desc_mt_other")
	}
	c.DescSize = rapid.SampledFrom([]string{"zero", "zero", "ok", "ok", "wrong"}).Draw(t, "desc_size")
	c.ContentType = genCT(t, c.Family, "ct")
	c.CL = rapid.SampledFrom([]string{"ok", "ok", "ok", "absent", "wrong"}).Draw(t, "cl")
	c.Prefer512 = rapid.IntRange(0, 4).Draw(t, "prefer512") == 0
	c.Tag = rapid.Bool().Draw(t, "tag")
	c.Inline = rapid.SampledFrom([]string{"ok", "ok", "corrupt"}).Draw(t, "inline")
	c.Repush = rapid.SampledFrom([]string{"none", "reg-tag", "reg-tag", "reg-digest", "layout-tag", "layout-digest", "reg-digest-otheralg", "layout-digest-otheralg", "layout-digest-wrong"}).Draw(t, "repush")
	c.RequireDig = rapid.Bool().Draw(t, "require_digest")
	c.Cache = rapid.Bool().Draw(t, "cache")
	c.DefaultTag = rapid.IntRange(0, 3).Draw(t, "default_tag") == 3
	c.Platform = rapid.IntRange(0, 3).Draw(t, "platform") == 3
	c.AgainProg = genAgain(t)
	// normalise what an entry cannot express
	if c.Entry != "reg-get" && c.Entry != "layout-get" && c.Entry != "layout-head" {
		c.Platform = false
	}
	if c.Platform {
		// the wrapper index is fetched by tag; its entry carries the digest the body is obtained for
		c.RefDig, c.Tag = "absent", true
		if c.DescDig == "absent" {
			c.DescDig = "ok256"
		}
	}
	if c.Platform && (c.Family == "oci-index" || c.Family == "docker2-list") && rapid.IntRange(0, 2).Draw(t, "plat_hostile") == 2 {
		// a list below the wrapper whose own linux/amd64 entry cannot be followed
		dig := rapid.SampledFrom([]string{"", "", "sha256:zz", "latest", hashOf("sha256", []byte("absent"))}).Draw(t, "plat_hostile_dig")
		c.Raw = fmt.Sprintf(`{"schemaVersion":2,"mediaType":%q,"manifests":[{"mediaType":%q,"digest":%q,"size":0,"platform":{"architecture":"amd64","os":"linux"}}]}`,
			famMT(c.Family), mtOCIManifest, dig)
		c.Info = BodyInfo{BodyMT: "present", Valid: false, Style: "hostile-platform-entry"}
	}
	switch c.Entry {
	case "reg-get", "reg-head":
		if c.CL == "wrong" {
			c.CL = "ok" // a lying Content-Length is a transport fault (C01/C12), not a manifest
		}
		if c.RefDig == "absent" && (c.DescDig == "absent" || c.Entry == "reg-head") {
			c.Tag = true
		}
		if c.Entry == "reg-head" {
			c.DescDig = "absent"
		}
	case "desc-data", "desc-data-layout":
		if c.CL == "wrong" {
			c.CL = "ok"
		}
		if c.DescDig == "absent" || c.DescDig == "malformed" {
			c.DescDig = "ok256"
		}
		if c.Entry == "desc-data-layout" {
			c.HdrDig, c.ContentType, c.CL = "absent", "", "absent"
			if c.RefDig == "absent" {
				c.Tag = true
			}
		}
	case "layout-get", "layout-head":
		c.HdrDig, c.ContentType, c.CL = "absent", "", "absent"
		if c.RefDig == "absent" {
			c.Tag = true
			if c.DescDig == "absent" {
				c.DescDig = "ok256"
			}
		}
	}
	return c
}

// --------------------------------------------------------- libtrust signing

var (
	ltOnce sync.Once
	ltKey  libtrust.PrivateKey
)

func ltSign(payload []byte) ([]byte, error) {
	ltOnce.Do(func() {
		k, err := libtrust.GenerateECP256PrivateKey()
		if err == nil {
			ltKey = k
		}
	})
	if ltKey == nil {
		return nil, fmt.Errorf("no key")
	}
	js, err := libtrust.NewJSONSignature(payload)
	if err != nil {
		return nil, err
	}
	if err := js.Sign(ltKey); err != nil {
		return nil, err
	}
	return js.PrettySignature("signatures")
}

// servedBytes returns the exact bytes the entry will hand to the client.
func servedBytes(raw string, rawB64 []byte, sign string) ([]byte, bool) {
	b := []byte(raw)
	if rawB64 != nil {
		b = append([]byte{}, rawB64...)
	}
	if sign == "libtrust" {
		s, err := ltSign(b)
		if err != nil {
			return b, false
		}
		return s, true
	}
	return b, true
}

func digestFor(mode string, nm, full []byte) string {
	switch mode {
	case "ok256":
		return hashOf("sha256", nm)
	case "ok512":
		return hashOf("sha512", nm)
	case "bad256":
		return hashOf("sha256", append(append([]byte{}, nm...), ' '))
	case "bad512":
		return hashOf("sha512", append(append([]byte{}, nm...), ' '))
	case "full256":
		return hashOf("sha256", full)
	case "full512":
		return hashOf("sha512", full)
	case "malformed":
		return "sha256:" + strings.Repeat("z", 64)
	}
	return ""
}

const (
	srcHost = "src.example.test"
	tgtHost = "tgt.example.test"
	srcRepo = "repo/a"
	tgtRepo = "repo/b"
	theTag  = "tag1"
	refName = "org.opencontainers.image.ref.name"
)

// defaultTag selects the reference form without an explicit tag for mkRef.
func mkRef(base string, tag bool, dig string) (ref.Ref, bool) {
	return mkRefT(base, tag, dig, false)
}

func (c *CaseA) tagName() string {
	if c.DefaultTag {
		return "latest"
	}
	return theTag
}

// mkRefT: with deflt the reference is written without a tag (the schemes fill in "latest").
func mkRefT(base string, tag bool, dig string, deflt bool) (ref.Ref, bool) {
	name := base + ":" + theTag
	if deflt {
		name = base
	}
	r, err := ref.New(name)
	if err != nil {
		return r, false
	}
	switch {
	case dig != "" && tag:
		r = r.AddDigest(dig)
	case dig != "":
		r = r.SetDigest(dig)
	case !tag:
		return r, false
	}
	return r, true
}

type fetched struct {
	m      manifest.Manifest
	err    error
	model  *rm.Model
	rc     *regclient.RegClient
	cands  [][]byte // byte strings the manifest may legitimately consist of
	expect string   // highest-priority expected digest that was supplied ("" none)
	expSrc string   // desc | ref | header | index
	spun   bool     // the guarded call never returned and kept burning CPU
	skip   string   // non-empty: harness could not stage the case
	// new-orig: a wrong size the caller supplied (descriptor, else Content-Length); 0 = none
	suppliedSize int64
}

func descSize(mode string, n int) int64 {
	switch mode {
	case "ok":
		return int64(n)
	case "wrong":
		return int64(n) + 3
	}
	return 0
}

func newModel() (*rm.Model, *rm.Host, *rm.Host) {
	m := rm.New()
	src := m.AddHost(srcHost)
	tgt := m.AddHost(tgtHost)
	tgt.Feat.Referrers = true
	tgt.Feat.TagDelete = true
	return m, src, tgt
}

func (c *CaseA) serve(src *rm.Host, served []byte, hdrDig string) {
	src.Intercept = func(m *rm.Model, h *rm.Host, e *rm.Entry, req *http.Request) *rm.Resp {
		if (e.Class != "manifest-get" && e.Class != "manifest-head") || e.Repo != srcRepo {
			return nil
		}
		r := &rm.Resp{Status: 200, Header: http.Header{}, Body: served, TruncateAt: -1}
		if c.ContentType != "" {
			r.Header.Set("Content-Type", c.ContentType)
		}
		if hdrDig != "" {
			r.Header.Set("Docker-Content-Digest", hdrDig)
		}
		if c.CL == "absent" {
			r.NoCL = true
		}
		return r
	}
}

// run stages the case and performs the fetch / construction.
func (c *CaseA) run(served, nm []byte, tmp func() string) fetched {
	ctx := context.Background()
	refDig, descDig, hdrDig := digestFor(c.RefDig, nm, served), digestFor(c.DescDig, nm, served), digestFor(c.HdrDig, nm, served)
	f := fetched{cands: [][]byte{served}}
	chain := func(order ...[2]string) {
		for _, o := range order {
			if o[1] != "" {
				f.expect, f.expSrc = o[1], o[0]
				return
			}
		}
	}
	hdrEff := hdrDig
	if _, ok := digestAlg(hdrDig); !ok {
		hdrEff = "" // an unparsable announcement is no digest
	}
	desc := descriptor.Descriptor{MediaType: c.DescMT, Digest: digest.Digest(descDig), Size: descSize(c.DescSize, len(nm))}
	if c.Prefer512 {
		_ = desc.DigestAlgoPrefer(digest.SHA512)
	}
	useDesc := c.DescMT != "" || descDig != "" || c.DescSize != "zero" || c.Prefer512
	hdr := http.Header{}
	if c.ContentType != "" {
		hdr.Set("Content-Type", c.ContentType)
	}
	if hdrDig != "" {
		hdr.Set("Docker-Content-Digest", hdrDig)
	}
	switch c.CL {
	case "ok":
		hdr.Set("Content-Length", fmt.Sprint(len(served)))
	case "wrong":
		hdr.Set("Content-Length", fmt.Sprint(len(served)+5))
	}
	switch c.Entry {
	case "new", "new-orig":
		var opts []manifest.Opts
		if c.Entry == "new" {
			opts = append(opts, manifest.WithRaw(served))
		} else {
			o, err := origOf(c.Family, served)
			if err != nil {
				f.skip = "orig-undecodable"
				return f
			}
			// the serialisation of a value built WithOrig is whatever the client marshals;
			// digests labelled "ok" are those of encoding/json's rendering of the same value
			mj, err := json.Marshal(o)
			if err != nil {
				f.skip = "orig-unmarshalable"
				return f
			}
			onm := mj
			if c.Family == "schema1-signed" {
				onm = nm
			}
			refDig, descDig, hdrDig = digestFor(c.RefDig, onm, mj), digestFor(c.DescDig, onm, mj), digestFor(c.HdrDig, onm, mj)
			hdrEff = hdrDig
			if _, ok := digestAlg(hdrDig); !ok {
				hdrEff = ""
			}
			desc.Digest, desc.Size = digest.Digest(descDig), descSize(c.DescSize, len(onm))
			hdr.Del("Docker-Content-Digest")
			if hdrDig != "" {
				hdr.Set("Docker-Content-Digest", hdrDig)
			}
			switch c.CL {
			case "ok":
				hdr.Set("Content-Length", fmt.Sprint(len(onm)))
			case "wrong":
				hdr.Set("Content-Length", fmt.Sprint(len(onm)+5))
			}
			if c.DescSize == "wrong" {
				f.suppliedSize = desc.Size
			} else if c.DescSize == "zero" && c.CL == "wrong" {
				f.suppliedSize = int64(len(onm) + 5)
			}
			useDesc = c.DescMT != "" || descDig != "" || c.DescSize != "zero" || c.Prefer512
			f.cands = nil
			opts = append(opts, manifest.WithOrig(o))
		}
		if useDesc {
			opts = append(opts, manifest.WithDesc(desc))
		}
		if r, ok := mkRef("reg.example.test/"+srcRepo, c.Tag, refDig); ok {
			opts = append(opts, manifest.WithRef(r))
		} else {
			refDig = ""
		}
		if len(hdr) > 0 {
			opts = append(opts, manifest.WithHeader(hdr))
		}
		chain([2]string{"desc", descDig}, [2]string{"ref", refDig}, [2]string{"header", hdrEff})
		f.m, f.err = manifest.New(opts...)
	case "reg-get", "reg-head", "desc-data":
		model, src, _ := newModel()
		f.model = model
		c.serve(src, served, hdrDig)
		conf := rcutil.Conf{}
		if c.Cache {
			conf.RegOpts = []reg.Opts{reg.WithCache(5*time.Minute, 500)}
		}
		f.rc = rcutil.New(model, conf)
		r, ok := mkRefT(srcHost+"/"+srcRepo, c.Tag, refDig, c.DefaultTag)
		if !ok {
			r, _ = mkRefT(srcHost+"/"+srcRepo, true, refDig, c.DefaultTag)
		}
		var opts []regclient.ManifestOpts
		switch {
		case c.Entry == "desc-data":
			c.inlineDesc(&desc, &descDig, served, nm)
			opts = append(opts, regclient.WithManifestDesc(desc))
			chain([2]string{"desc", descDig}, [2]string{"ref", refDig}, [2]string{"header", hdrEff})
		case c.Entry == "reg-get" && c.Platform:
			// tag -> wrapper index (honest) -> entry digest -> the body
			wrapper := wrapperIndex(c.wrapperEntryMT(), descDig, descSize(c.DescSize, len(nm)))
			child := src.Intercept
			tagName := c.tagName()
			src.Intercept = func(m *rm.Model, h *rm.Host, e *rm.Entry, req *http.Request) *rm.Resp {
				if (e.Class == "manifest-get" || e.Class == "manifest-head") && e.Repo == srcRepo && e.Ref == tagName {
					rr := &rm.Resp{Status: 200, Header: http.Header{}, Body: wrapper, TruncateAt: -1}
					rr.Header.Set("Content-Type", mtOCIIndex)
					rr.Header.Set("Docker-Content-Digest", hashOf("sha256", wrapper))
					return rr
				}
				return child(m, h, e, req)
			}
			opts = append(opts, regclient.WithManifestPlatform(platform.Platform{OS: "linux", Architecture: "amd64"}))
			chain([2]string{"index-entry", descDig}, [2]string{"header", hdrEff})
		case c.Entry == "reg-get" && descDig != "":
			opts = append(opts, regclient.WithManifestDesc(desc))
			chain([2]string{"desc", descDig}, [2]string{"ref", refDig}, [2]string{"header", hdrEff})
		default:
			descDig = ""
			chain([2]string{"ref", refDig}, [2]string{"header", hdrEff})
		}
		if c.Entry == "reg-head" {
			if c.RequireDig {
				opts = append(opts, regclient.WithManifestRequireDigest())
			}
			f.m, f.err = f.rc.ManifestHead(ctx, r, opts...)
		} else if c.Platform {
			c.guarded(&f, func() (manifest.Manifest, error) { return f.rc.ManifestGet(ctx, r, opts...) })
		} else {
			f.m, f.err = f.rc.ManifestGet(ctx, r, opts...)
		}
	case "layout-get", "layout-head", "desc-data-layout":
		dir := tmp()
		if err := os.WriteFile(filepath.Join(dir, "oci-layout"), []byte(`{"imageLayoutVersion":"1.0.0"}`), 0o644); err != nil {
			f.skip = "fs"
			return f
		}
		writeBlob := func(d string, b []byte) bool {
			alg, ok := digestAlg(d)
			if !ok {
				return true
			}
			p := filepath.Join(dir, "blobs", alg)
			_ = os.MkdirAll(p, 0o755)
			return os.WriteFile(filepath.Join(p, d[len(alg)+1:]), b, 0o644) == nil
		}
		entries := []string{}
		var mopts []regclient.ManifestOpts
		switch {
		case (c.Entry == "layout-get" || c.Entry == "layout-head") && c.Platform:
			wrapper := wrapperIndex(c.wrapperEntryMT(), descDig, descSize(c.DescSize, len(nm)))
			wd := hashOf("sha256", wrapper)
			e := map[string]any{"mediaType": mtOCIIndex, "digest": wd, "size": len(wrapper), "annotations": map[string]string{refName: c.tagName()}}
			b, _ := json.Marshal(e)
			entries = append(entries, string(b))
			if !writeBlob(wd, wrapper) || !writeBlob(descDig, served) {
				f.skip = "fs"
				return f
			}
			mopts = append(mopts, regclient.WithManifestPlatform(platform.Platform{OS: "linux", Architecture: "amd64"}))
			chain([2]string{"index-entry", descDig})
		case c.Entry == "desc-data-layout":
			// the index knows the manifest under the digest of the reference (if any) only
			c.inlineDesc(&desc, &descDig, served, nm)
			e := map[string]any{"mediaType": famMT(c.Family), "digest": descDig, "size": len(served)}
			if c.Tag {
				e["annotations"] = map[string]string{refName: c.tagName()}
			}
			b, _ := json.Marshal(e)
			entries = append(entries, string(b))
			if !writeBlob(descDig, served) || !writeBlob(refDig, served) {
				f.skip = "fs"
				return f
			}
			mopts = append(mopts, regclient.WithManifestDesc(desc))
			chain([2]string{"desc", descDig}, [2]string{"ref", refDig})
		default:
			if descDig != "" {
				e := map[string]any{"digest": descDig, "size": descSize(c.DescSize, len(nm))}
				if c.DescMT != "" {
					e["mediaType"] = c.DescMT
				}
				if c.Tag {
					e["annotations"] = map[string]string{refName: c.tagName()}
				}
				b, _ := json.Marshal(e)
				entries = append(entries, string(b))
			}
			if !writeBlob(descDig, served) || !writeBlob(refDig, served) {
				f.skip = "fs"
				return f
			}
			chain([2]string{"ref", refDig}, [2]string{"index", descDig})
		}
		idx := `{"schemaVersion":2,"mediaType":"` + mtOCIIndex + `","manifests":[` + strings.Join(entries, ",") + `]}`
		if err := os.WriteFile(filepath.Join(dir, "index.json"), []byte(idx), 0o644); err != nil {
			f.skip = "fs"
			return f
		}
		r, ok := mkRefT("ocidir://"+dir, c.Tag, refDig, c.DefaultTag)
		if !ok {
			f.skip = "ref"
			return f
		}
		f.rc = regclient.New()
		call := func() (manifest.Manifest, error) {
			if c.Entry == "layout-head" {
				return f.rc.ManifestHead(ctx, r, mopts...)
			}
			return f.rc.ManifestGet(ctx, r, mopts...)
		}
		if c.Platform {
			c.guarded(&f, call)
		} else {
			f.m, f.err = call()
		}
	}
	return f
}

// inlineDesc completes the descriptor of the inline-data entries.
func (c *CaseA) inlineDesc(desc *descriptor.Descriptor, descDig *string, served, nm []byte) {
	data := served
	if c.Inline == "corrupt" {
		data = append([]byte{}, served...)
		if len(data) > 0 {
			data[len(data)/2] ^= 0x20
		} else {
			data = []byte("x")
		}
	}
	desc.Data = data
	desc.Size = descSize(c.DescSize, len(served))
	if c.DescSize == "zero" {
		desc.Size = int64(len(served))
	}
	// the inline copy is verified against the digest of the data itself
	if c.DescDig == "ok256" || c.DescDig == "ok512" {
		desc.Digest = digest.Digest(digestFor("full"+c.DescDig[2:], nm, served))
		*descDig = string(desc.Digest)
	}
}

func (c *CaseA) wrapperEntryMT() string {
	if c.DescMT != "" {
		return c.DescMT
	}
	return famMT(c.Family)
}

// wrapperIndex is an honest OCI index with one linux/amd64 entry.
func wrapperIndex(mt, dig string, size int64) []byte {
	e := map[string]any{"mediaType": mt, "digest": dig, "size": size, "platform": map[string]string{"architecture": "amd64", "os": "linux"}}
	b, _ := json.Marshal(map[string]any{"schemaVersion": 2, "mediaType": mtOCIIndex, "manifests": []any{e}})
	return b
}

// inconclusive is set by a check that could not decide (see guarded); the test
// functions fail on it without reporting a violation.
var inconclusive string

// spinCPU is the CPU time after which a call that has not returned is judged to
// loop. The process runs one case at a time, so CPU burnt while the check only
// sleeps is the call's; a starved machine delays the verdict, it cannot fake it.
const (
	spinCPU  = 3 * time.Second
	spinWall = 10 * time.Minute
)

func cpuTime() time.Duration {
	var ru syscall.Rusage
	if syscall.Getrusage(syscall.RUSAGE_SELF, &ru) != nil {
		return 0
	}
	return time.Duration(ru.Utime.Nano() + ru.Stime.Nano())
}

// guarded runs a call that must terminate under a watchdog: it is judged by the
// CPU time the process burns while the check does nothing but wait (state based),
// a pure wall-clock expiry is inconclusive.
func (c *CaseA) guarded(f *fetched, call func() (manifest.Manifest, error)) {
	type res struct {
		m   manifest.Manifest
		err error
	}
	ch := make(chan res, 1)
	cpu0, t0 := cpuTime(), time.Now()
	go func() {
		m, err := call()
		ch <- res{m, err}
	}()
	tick := time.NewTicker(20 * time.Millisecond)
	defer tick.Stop()
	for {
		select {
		case r := <-ch:
			f.m, f.err = r.m, r.err
			return
		case <-tick.C:
			if cpuTime()-cpu0 > spinCPU {
				f.spun = true
				return
			}
			if time.Since(t0) > spinWall {
				f.skip = "watchdog-wall"
				return
			}
		}
	}
}

// hasEmptyDigestEntry tells whether a body lists a manifest entry without a digest.
func hasEmptyDigestEntry(body []byte) bool {
	var x struct {
		Manifests []struct {
			Digest string `json:"digest"`
		} `json:"manifests"`
	}
	if json.Unmarshal(body, &x) != nil {
		return false
	}
	for _, e := range x.Manifests {
		if e.Digest == "" {
			return true
		}
	}
	return false
}

func srcLabel(kind, mode string) string { return kind + ":" + mode }

func (c *CaseA) ctLabel() string {
	if c.ContentType == "" {
		return "absent"
	}
	base := strings.TrimSpace(strings.ToLower(strings.SplitN(c.ContentType, ";", 2)[0]))
	if base == famMT(c.Family) {
		if c.ContentType == base {
			return "match"
		}
		return "match-decorated"
	}
	return "contradict"
}

func (c *CaseA) descMTLabel() string {
	switch c.DescMT {
	case "":
		return "absent"
	case famMT(c.Family):
		return "match"
	}
	return "contradict"
}

// checkA evaluates one Part A case.
func checkA(c CaseA, ev *evid.Collector) []*evid.Violation {
	served, signed := servedBytes(c.Raw, c.RawB64, c.Info.Sign)
	lenient := c.Origin != "gen"
	// the bytes a correct digest names, by the body's true family
	nm := served
	validBody := c.Info.Valid && signed
	if c.Family == "schema1-signed" {
		p, ok, _ := jwsPayload(served)
		if ok {
			nm = p
		} else {
			validBody = false
		}
	}
	// the media type the served document itself states at its top level (a hand-built JWS
	// envelope may keep it in formatTail only)
	sti := scanTop(served)
	bodyStatesMT := sti.HasMT && sti.DeclaredMT == famMT(c.Family)
	var dirs []string
	tmp := func() string {
		d, err := os.MkdirTemp("", "c02-")
		if err != nil {
			panic(err)
		}
		dirs = append(dirs, d)
		return d
	}
	defer func() {
		for _, d := range dirs {
			os.RemoveAll(d)
		}
	}()
	if c.Platform && c.DefaultTag && hasEmptyDigestEntry(served) {
		// the shape that made the platform resolution on a layout loop for ever before c6809d9
		ev.Class("platform:empty-digest-entry-under-latest:" + c.Entry)
	}
	f := c.run(served, nm, tmp)
	if f.spun {
		ev.Case(true, "spin|"+c.Entry+"|"+c.Raw, "part:A", "entry:"+c.Entry, "outcome:"+c.Entry+":does-not-terminate")
		return []*evid.Violation{evid.V("platform-resolution-does-not-terminate", "%s with WithManifestPlatform(linux/amd64) on %s did not return: the call burned %.1f s of CPU (a normal call needs microseconds); body reached through the wrapper index: %s", map[bool]string{true: "ManifestHead", false: "ManifestGet"}[c.Entry == "layout-head"], c.Entry, spinCPU.Seconds(), clip(served))}
	}
	if f.skip == "watchdog-wall" {
		// no CPU evidence of a loop: inconclusive, never a violation (the test fails without a failure record)
		inconclusive = "wall-clock watchdog fired on " + c.Entry + " without CPU evidence of a loop"
		return nil
	}

	// ---- classification
	hostileSrc := false
	for _, m := range []string{c.RefDig, c.DescDig, c.HdrDig} {
		if m != "absent" && m != "ok256" {
			hostileSrc = true
		}
	}
	reDiffers := false
	if o, err := origOf(c.Family, served); err == nil {
		if mj, err := json.Marshal(o); err == nil && !bytes.Equal(mj, served) {
			reDiffers = true
		}
	}
	outcome := "error"
	switch {
	case f.skip != "":
		outcome = "skipped-" + f.skip
	case f.err == nil && f.m != nil && f.m.IsSet():
		outcome = "set"
	case f.err == nil && f.m != nil:
		outcome = "unset"
	}
	classes := []string{"part:A", "entry:" + c.Entry, "family:" + c.Family, "outcome:" + c.Entry + ":" + outcome,
		srcLabel("ref", c.RefDig), srcLabel("desc", c.DescDig), srcLabel("hdr", c.HdrDig), "ct:" + c.ctLabel(), "descmt:" + c.descMTLabel(),
		"bodymt:" + c.Info.BodyMT, "descsize:" + c.DescSize, "repush:" + c.Repush}
	classes = append(classes, styleClasses(c.Info.Style)...)
	if c.Info.Sign != "" {
		classes = append(classes, "sign:"+c.Info.Sign)
	}
	if reDiffers {
		classes = append(classes, "remarshal-differs")
	}
	if c.Prefer512 {
		classes = append(classes, "prefer512")
	}
	if c.Cache && f.model != nil {
		classes = append(classes, "reg-cache:on")
	}
	if c.DefaultTag && c.Tag {
		classes = append(classes, "ref:default-tag")
	}
	if c.Platform {
		classes = append(classes, "via-platform:"+outcome)
	}
	switch {
	case c.Tag && c.RefDig != "absent":
		classes = append(classes, "refform:tag+digest")
	case c.Tag:
		classes = append(classes, "refform:tag")
	case c.RefDig != "absent":
		classes = append(classes, "refform:digest")
	default:
		classes = append(classes, "refform:none")
	}
	if !validBody {
		classes = append(classes, "body:outside-grammar")
	}
	key := c.Entry + "|" + c.Family + "|" + c.Raw + "|" + string(c.RawB64) + "|" + c.RefDig + c.DescDig + c.HdrDig + "|" + c.DescMT + "|" + c.ContentType + "|" + c.DescSize + fmt.Sprint(c.Prefer512, c.Tag)
	ev.Case(reDiffers || hostileSrc, key, classes...)
	ev.Sample(c)
	if f.skip != "" {
		return nil
	}

	tag := c.Entry + ":" + c.Family
	var vs []*evid.Violation
	add := func(sig, format string, a ...any) { vs = append(vs, evid.V(sig+":"+tag, format, a...)) }

	// ---- non-vacuity: with every supplied source correct the call must succeed
	if f.err != nil || f.m == nil {
		if f.err == nil {
			add("nil-manifest-without-error", "the call returned neither a manifest nor an error")
			return vs
		}
		if validBody && c.Origin == "gen" && c.allCorrect(bodyStatesMT) {
			add("valid-manifest-rejected", "every supplied digest and media type is correct, yet the call failed: %v (served %s)", f.err, clip(served))
		}
		ev.Class("error:" + errClass(f.err))
		return vs
	}
	m := f.m
	s := observe(m)
	if !s.IsSet {
		// an unset manifest (HEAD, empty body) must not hand out a body
		if !s.RawErr && len(s.Raw) > 0 {
			add("unset-manifest-has-rawbody", "IsSet()=false but RawBody() returned %d bytes", len(s.Raw))
		}
		if !s.MJErr && len(s.MJ) > 0 {
			add("unset-manifest-marshals", "IsSet()=false but MarshalJSON() returned %d bytes", len(s.MJ))
		}
		if validBody && c.Origin == "gen" && c.allCorrect(bodyStatesMT) && c.Entry != "reg-head" && c.Entry != "layout-head" && len(served) > 0 {
			add("valid-manifest-returned-unset", "a non-empty valid body was served but the manifest is not set")
		}
		return vs
	}

	// ---- (3) byte fidelity
	if len(f.cands) > 0 && !s.RawErr {
		match := false
		for _, cd := range f.cands {
			if bytes.Equal(cd, s.Raw) {
				match = true
			}
		}
		if !match {
			add("rawbody-not-the-served-bytes", "RawBody() differs from the bytes that were served: got %s, served %s", clip(s.Raw), clip(served))
		}
	}
	// ---- (2),(4) and value clauses
	vs = append(vs, equations(s, tag, lenient, ev)...)
	if c.Entry == "new-orig" && f.suppliedSize != 0 && s.Size == f.suppliedSize {
		// root cause: the WithOrig path keeps a size the caller supplied instead of measuring
		for _, v := range vs {
			if strings.HasPrefix(v.Sig, "descriptor-size-not-length-of-raw:") {
				v.Sig = sigOrigSize
				v.Msg = "manifest.New(WithOrig, …) with a wrong size in the descriptor / Content-Length header: " + v.Msg
			}
		}
	}

	// ---- (1) the expected digest names the bytes
	doc, ok, _ := named(s.MT, s.Raw)
	if ok && f.expect != "" {
		if alg, wf := digestAlg(f.expect); !wf {
			add("accepted-malformed-"+f.expSrc+"-digest", "a manifest was returned although the %s digest %q is not a digest", f.expSrc, f.expect)
		} else if want := hashOf(alg, doc); want != f.expect {
			add("accepted-wrong-"+f.expSrc+"-digest", "a manifest was returned for the %s digest %s but its bytes hash to %s (media type %s, %d named bytes)", f.expSrc, f.expect, want, s.MT, len(doc))
		} else if s.Digest != f.expect {
			add("reported-digest-not-requested-digest", "obtained for %s digest %s (which matches the bytes) but GetDescriptor().Digest=%s", f.expSrc, f.expect, s.Digest)
		}
		// statistics: lower-priority sources that were wrong and ignored (documented behaviour)
	}
	if blocking(vs) {
		return vs
	}
	// ---- (5) re-push
	vs = append(vs, c.repush(f, m, s, tag, tmp, ev, hasSig(vs, sigSignedTrim))...)
	if blocking(vs) {
		return vs
	}
	// ---- a second fetch by the reported digest (cache on or off, before / after the caller edits its copy)
	vs = append(vs, c.again(f, m, s, ev)...)
	return vs
}

// editManifest changes a manifest the caller holds through a setter (val makes
// repeated edits of one object distinct). It reports whether the serialisation
// really changed.
func editManifest(m manifest.Manifest, val string) bool {
	before, err := m.RawBody()
	if err != nil || !m.IsSet() {
		return false
	}
	before = append([]byte{}, before...)
	if ma, ok := m.(manifest.Annotator); ok {
		if ma.SetAnnotation("org.example.c02-audit", val) != nil {
			return false
		}
	} else if m.GetDescriptor().MediaType == mtDocker1 {
		var mm map[string]json.RawMessage
		if json.Unmarshal(before, &mm) != nil || mm == nil {
			return false // (a body such as "null" decodes to no object)
		}
		mm["tag"] = json.RawMessage(`"c02-audit-` + val + `"`)
		doc, err := json.Marshal(mm)
		if err != nil {
			return false
		}
		o, err := origOf("schema1", doc)
		if err != nil || m.SetOrig(o) != nil {
			return false
		}
	} else {
		return false
	}
	after, err := m.RawBody()
	return err == nil && !bytes.Equal(after, before)
}

// AgainStep is one step of the program that follows a successful registry fetch
// on the same client.
type AgainStep struct {
	Op  string `json:"op"`            // get-tag | get-digest | head-digest | put | edit
	Of  int    `json:"of,omitempty"`  // put / edit: which earlier result, counted back from the most recent (0 = the latest)
	Tgt bool   `json:"tgt,omitempty"` // get / head: the repository ManifestPut pushes to instead of the source
}

var againOps = []string{"get-digest", "get-digest", "get-digest", "head-digest", "head-digest", "edit", "edit", "edit", "put", "get-tag"}

func genAgain(t *rapid.T) []AgainStep {
	if rapid.IntRange(0, 3).Draw(t, "again_none") == 0 {
		return nil
	}
	n := rapid.IntRange(2, 5).Draw(t, "again_n")
	prog := make([]AgainStep, n)
	for i := range prog {
		prog[i] = AgainStep{Op: rapid.SampledFrom(againOps).Draw(t, "again_op"), Of: rapid.IntRange(0, 3).Draw(t, "again_of"),
			Tgt: rapid.IntRange(0, 2).Draw(t, "again_tgt") == 2}
	}
	return prog
}

// legacyAgain translates the single-step form of earlier saved cases.
func legacyAgain(a string) []AgainStep {
	switch a {
	case "get":
		return []AgainStep{{Op: "get-digest"}}
	case "head":
		return []AgainStep{{Op: "head-digest"}}
	case "edit-get":
		return []AgainStep{{Op: "edit"}, {Op: "get-digest"}}
	case "edit-head":
		return []AgainStep{{Op: "edit"}, {Op: "head-digest"}}
	case "put-edit-get":
		return []AgainStep{{Op: "put"}, {Op: "edit"}, {Op: "get-digest", Tgt: true}}
	}
	return nil
}

// again interprets a short program on the client that performed the fetch:
// further gets by tag / by the digest D of the fetched bytes, heads by D, puts,
// and edits (through a setter) of ANY manifest an earlier step handed out -
// including one that was served from the client's cache. Whatever a get or head
// returns for "<repo>@D" must be bytes that hash to D, and must never be an
// object that a step has edited; with reg.WithCache (regctl, regsync) that is a
// statement about what the cache stores and what a cache hit hands out.
func (c *CaseA) again(f fetched, m manifest.Manifest, s snap, ev *evid.Collector) []*evid.Violation {
	prog := c.AgainProg
	if len(prog) == 0 {
		prog = legacyAgain(c.Again)
	}
	if len(prog) == 0 || f.rc == nil || f.model == nil {
		return nil
	}
	alg, ok := digestAlg(s.Digest)
	if !ok {
		return nil
	}
	ctx := context.Background()
	cacheLbl := map[bool]string{true: "cache", false: "nocache"}[c.Cache]
	type result struct {
		m      manifest.Manifest
		step   int // -1 = the fetch under test
		edited bool
		cached bool // no request was sent for it
	}
	results := []*result{{m: m, step: -1}}
	pick := func(of int) *result { return results[len(results)-1-of%len(results)] }
	var trace []string
	for i, st := range prog {
		base := srcHost + "/" + srcRepo
		if st.Tgt {
			base = tgtHost + "/" + tgtRepo
		}
		switch st.Op {
		case "edit":
			r := pick(st.Of)
			if editManifest(r.m, fmt.Sprintf("edited-%d", i)) {
				r.edited = true
				// every result that is this very object is edited with it
				for _, o := range results {
					if o.m == r.m {
						o.edited = true
					}
				}
				trace = append(trace, fmt.Sprintf("edit(result of step %d)", r.step))
				ev.Class("again-op:edit:" + map[bool]string{true: "of-cache-served", false: "of-fetched"}[r.cached])
			} else {
				trace = append(trace, "edit(not possible)")
				ev.Class("again-op:edit:not-possible")
			}
		case "put":
			r := pick(st.Of)
			pr, _ := mkRef(tgtHost+"/"+tgtRepo, true, "")
			err := f.rc.ManifestPut(ctx, pr, r.m)
			trace = append(trace, fmt.Sprintf("put(result of step %d)->%v", r.step, err == nil))
			ev.Class("again-op:put:" + map[bool]string{true: "ok", false: "error"}[err == nil])
		case "get-tag", "get-digest", "head-digest":
			var rr ref.Ref
			if st.Op == "get-tag" {
				rr, _ = mkRef(base, true, "")
			} else {
				rr, _ = mkRef(base, false, s.Digest)
			}
			before := f.model.Requests()
			var m2 manifest.Manifest
			var err error
			if st.Op == "head-digest" {
				m2, err = f.rc.ManifestHead(ctx, rr)
			} else {
				m2, err = f.rc.ManifestGet(ctx, rr)
			}
			cached := f.model.Requests() == before
			trace = append(trace, fmt.Sprintf("%s(%s)%s", st.Op, map[bool]string{true: "tgt", false: "src"}[st.Tgt], map[bool]string{true: "[no request]", false: ""}[cached]))
			lbl := "again-op:" + st.Op + ":" + cacheLbl
			if err != nil || m2 == nil {
				ev.Class(lbl + ":error")
				continue
			}
			if cached {
				lbl += ":cache-hit"
			}
			// (b) never an object a step has edited
			for _, o := range results {
				if o.m == m2 && o.edited {
					return []*evid.Violation{evid.V("reg-cache-returns-caller-edited-manifest", "client built with reg.WithCache=%v; after %s of %s, step %d %s returned the very object that the result of step %d is and that the caller has edited (it now reports digest %s, the reference names %s; request sent: %v)",
						c.Cache, c.Entry, strings.Join(trace, ", "), i, rr.CommonName(), o.step, m2.GetDescriptor().Digest, s.Digest, !cached)}
				}
			}
			res := &result{m: m2, step: i, cached: cached}
			for _, o := range results {
				if o.m == m2 {
					res.edited = o.edited
				}
			}
			results = append(results, res)
			if !m2.IsSet() {
				ev.Class(lbl + ":unset")
				if d := m2.GetDescriptor().Digest.String(); st.Op != "get-tag" && d != "" && d != s.Digest {
					return []*evid.Violation{evid.V("refetch-head-reports-other-digest", "after %s: ManifestHead(%s) reports digest %s", strings.Join(trace, ", "), rr.CommonName(), d)}
				}
				continue
			}
			ev.Class(lbl + ":set")
			// (a) the bytes hash to the digest in the reference
			s2 := observe(m2)
			doc, ok, _ := named(s2.MT, s2.Raw)
			if !ok {
				continue
			}
			if st.Op == "get-tag" {
				// a tag names whatever the registry serves for it now (a pushed edit, a wrapper index): only
				// clause (b) above and the result's own equation apply
				if a2, ok := digestAlg(s2.Digest); ok && hashOf(a2, doc) != s2.Digest {
					return []*evid.Violation{evid.V("refetch-by-tag-digest-not-hash-of-bytes:"+cacheLbl, "after %s: %s reports %s, its bytes hash to %s", strings.Join(trace, ", "), rr.CommonName(), s2.Digest, hashOf(a2, doc))}
				}
				continue
			}
			if got := hashOf(alg, doc); got != s.Digest || s2.Digest != s.Digest {
				sig := "refetch-returns-other-bytes:" + st.Op + ":" + cacheLbl
				if c.Cache && cached {
					sig = "reg-cache-returns-caller-edited-manifest"
				}
				return []*evid.Violation{evid.V(sig, "client built with reg.WithCache=%v; after %s of %s, step %d %s returned a manifest that reports %s and whose bytes hash to %s, the reference names %s (request sent: %v): %s",
					c.Cache, c.Entry, strings.Join(trace, ", "), i, rr.CommonName(), s2.Digest, got, s.Digest, !cached, clip(s2.Raw))}
			}
		}
	}
	return nil
}

// allCorrect: every supplied digest names the bytes, every media type hint is
// absent or matching and at least one of them (or the body) states the type.
func (c *CaseA) allCorrect(bodyStatesMT bool) bool {
	okDig := func(mode string) bool {
		switch mode {
		case "absent", "ok256", "ok512":
			return true
		case "full256", "full512":
			return c.Family != "schema1-signed"
		}
		return false
	}
	ref, desc, hdr := c.RefDig, c.DescDig, c.HdrDig
	if c.Platform && (c.Family == "oci-index" || c.Family == "docker2-list") {
		return false // the platform loop goes on below a list; whether it finds an entry is not this property
	}
	switch c.Entry {
	case "reg-head":
		desc = "absent"
	case "layout-get", "layout-head":
		hdr = "absent"
	case "desc-data", "desc-data-layout":
		if c.Entry == "desc-data-layout" {
			hdr = "absent"
		}
		if c.Family == "schema1-signed" {
			return false // an inline copy is addressed by the digest of the whole data
		}
		if c.DescSize == "wrong" {
			return false // documented: inline data is used only when its length matches
		}
	}
	if !okDig(ref) || !okDig(desc) || !okDig(hdr) {
		return false
	}
	ct, dm := c.ctLabel(), c.descMTLabel()
	if ct == "contradict" || dm == "contradict" {
		return false // (a contradicting hint that happens not to reach the constructor: nothing is demanded)
	}
	// a matching hint only counts as "the type is stated" where it reaches the constructor
	switch c.Entry {
	case "layout-get", "layout-head":
		ct = "absent"
		if c.Platform || c.DescDig == "absent" || (c.RefDig != "absent" && c.RefDig != c.DescDig) {
			dm = "absent" // no index entry, or the entry is not the one the reference digest selects
		}
	case "reg-get", "reg-head":
		dm = "absent" // only the digest of WithManifestDesc / of the index entry travels to the registry
	case "desc-data":
		if c.Inline != "ok" || c.DescSize == "wrong" {
			dm = "absent" // the inline copy is unusable, the registry answers
		} else {
			ct = "absent" // the inline copy is used, the registry is never asked
		}
	case "desc-data-layout":
		ct = "absent"
		if c.Inline != "ok" || c.DescSize == "wrong" {
			dm = "match" // the layout answers; the harness wrote the index entry with the true media type
		}
	}
	if ct == "contradict" || dm == "contradict" {
		return false
	}
	if c.Entry == "new-orig" {
		return c.Info.BodyMT != "contradict"
	}
	if c.Entry == "reg-head" {
		return ct != "absent"
	}
	stated := ct != "absent" || dm != "absent" || (c.Info.BodyMT == "present" && bodyStatesMT)
	return stated
}

func errClass(err error) string {
	s := strings.ToLower(err.Error())
	for _, k := range []string{"digest mismatch", "unexpected media type", "unsupported media type", "unmarshal", "not found", "failed to parse digest", "invalid digest", "unsupported"} {
		if strings.Contains(s, k) {
			return k
		}
	}
	return "other"
}

// repush: ManifestPut of the fetched manifest must deliver the identical bytes
// under the original digest and media type.
func (c *CaseA) repush(f fetched, m manifest.Manifest, s snap, tag string, tmp func() string, ev *evid.Collector, trimKnown bool) []*evid.Violation {
	var vs []*evid.Violation
	add := func(sig, format string, a ...any) { vs = append(vs, evid.V(sig+":"+tag, format, a...)) }
	ctx := context.Background()
	alg, ok := digestAlg(s.Digest)
	if !ok || c.Repush == "none" || c.Repush == "" {
		return nil
	}
	otherAlg := "sha512"
	if alg == "sha512" {
		otherAlg = "sha256"
	}
	otherDig := ""
	if doc, ok, _ := named(s.MT, s.Raw); ok {
		otherDig = hashOf(otherAlg, doc)
	}
	switch c.Repush {
	case "reg-tag", "reg-digest", "reg-digest-otheralg":
		model, rc := f.model, f.rc
		if model == nil {
			model, _, _ = newModel()
			rc = rcutil.New(model, rcutil.Conf{})
		}
		r, _ := mkRef(tgtHost+"/"+tgtRepo, true, "")
		if c.Repush == "reg-digest" {
			r = r.SetDigest(s.Digest)
		}
		if c.Repush == "reg-digest-otheralg" {
			if otherDig == "" {
				return nil
			}
			r = r.SetDigest(otherDig)
		}
		if c.DefaultTag && c.Repush == "reg-tag" {
			r, _ = mkRefT(tgtHost+"/"+tgtRepo, true, "", true)
		}
		err := rc.ManifestPut(ctx, r, m)
		var put *rm.Entry
		for _, e := range model.Entries() {
			if e.Host == tgtHost && e.Class == "manifest-put" && e.Repo == tgtRepo {
				put = e
				break
			}
		}
		if put == nil {
			add("repush-sent-nothing", "ManifestPut(%s) of the fetched manifest sent no manifest PUT (err=%v)", r.CommonName(), err)
			return vs
		}
		if trimKnown && bytes.Equal(put.Body, s.MJ) {
			// already reported as sigSignedTrim: the PUT body is MarshalJSON()
		} else if !bytes.Equal(put.Body, s.Raw) {
			add("repush-body-differs", "ManifestPut sent %s, the fetched manifest is %s", clip(put.Body), clip(s.Raw))
		}
		if ct := put.Header.Get("Content-Type"); ct != s.MT {
			add("repush-content-type-differs", "ManifestPut sent Content-Type %q, the fetched manifest reports %q", ct, s.MT)
		}
		if c.Repush == "reg-digest-otheralg" {
			// the caller names the same bytes in the other algorithm
			if put.Ref != otherDig {
				add("repush-digest-differs", "ManifestPut to %s used path reference %q", r.CommonName(), put.Ref)
			}
			if len(vs) == 0 {
				ev.Class("repush:reg-otheralg:" + map[bool]string{true: "ok", false: "error"}[err == nil])
			}
			return vs
		} else if c.Repush == "reg-digest" {
			if put.Ref != s.Digest {
				add("repush-digest-differs", "ManifestPut by digest used path reference %q, the fetched manifest is %s", put.Ref, s.Digest)
			}
		} else {
			q := put.RawQuery
			if alg != "sha256" && !strings.Contains(q, "digest="+strings.Replace(s.Digest, ":", "%3A", 1)) && !strings.Contains(q, "digest="+s.Digest) {
				add("repush-digest-param-missing", "ManifestPut by tag of a %s manifest carries query %q: the registry would store it under another digest", alg, q)
			}
		}
		if len(vs) == 0 {
			if err != nil {
				ev.Class("repush:model-rejected:" + fmt.Sprint(put.Status))
				if os.Getenv("VERIF_DEBUG") != "" {
					fmt.Fprintf(os.Stderr, "MODEL-REJECTED %v ct=%q ref=%q q=%q body=%s\n", err, put.Header.Get("Content-Type"), put.Ref, put.RawQuery, clip(put.Body))
				}
			} else {
				ev.Class("repush:reg-ok")
				// the registry's own bookkeeping agrees
				model.Lock()
				st := model.Hosts[tgtHost].Repos[tgtRepo]
				var got *rm.Manifest
				if st != nil {
					got = st.Manifests[s.Digest]
				}
				model.Unlock()
				if got == nil {
					add("repush-stored-under-other-digest", "after a successful ManifestPut the registry holds no manifest %s", s.Digest)
				} else if !bytes.Equal(got.Body, s.Raw) && !(trimKnown && bytes.Equal(got.Body, s.MJ)) {
					add("repush-stored-body-differs", "registry stored different bytes under %s", s.Digest)
				}
			}
		}
	case "layout-tag", "layout-digest", "layout-digest-otheralg", "layout-digest-wrong":
		dir := tmp()
		rc := f.rc
		if rc == nil {
			rc = regclient.New()
		}
		r, _ := mkRef("ocidir://"+dir, true, "")
		if c.Repush == "layout-digest" {
			r = r.SetDigest(s.Digest)
		}
		if c.DefaultTag && c.Repush == "layout-tag" {
			r, _ = mkRefT("ocidir://"+dir, true, "", true)
		}
		if c.Repush == "layout-digest-otheralg" || c.Repush == "layout-digest-wrong" {
			if otherDig == "" {
				return nil
			}
			lbl := "otheralg"
			r = r.SetDigest(otherDig)
			if c.Repush == "layout-digest-wrong" {
				// a digest that does not name the bytes: the push may fail, it must not store a lie
				lbl = "wrongdigest"
				r = r.SetDigest(hashOf(alg, append(append([]byte{}, s.Raw...), ' ')))
			}
			if err := rc.ManifestPut(ctx, r, m); err != nil {
				ev.Class("repush:layout-" + lbl + ":error")
				return nil
			}
			if lbl == "wrongdigest" {
				ev.Class("repush:layout-wrongdigest:accepted") // judged by what was stored, below
			}
			// every blob file holds the bytes its name hashes to, and the manifest's bytes are among them
			found := false
			for _, a := range []string{"sha256", "sha512"} {
				des, _ := os.ReadDir(filepath.Join(dir, "blobs", a))
				for _, de := range des {
					if strings.HasSuffix(de.Name(), ".tmp") {
						continue
					}
					b, err := os.ReadFile(filepath.Join(dir, "blobs", a, de.Name()))
					if err != nil {
						continue
					}
					nmb := b
					if s.MT == mtDocker1Sig {
						if p, ok, _ := jwsPayload(b); ok {
							nmb = p
						}
					}
					if hashOf(a, nmb) != a+":"+de.Name() {
						add("repush-layout-blob-name-not-hash-of-content", "after ManifestPut(%s) blob %s/%s does not hold bytes that hash to its name", r.CommonName(), a, de.Name())
					}
					if bytes.Equal(b, s.Raw) {
						found = true
					}
				}
			}
			if !found {
				add("repush-layout-body-differs", "after ManifestPut(%s) no blob file holds the manifest's bytes", r.CommonName())
			}
			if lbl == "otheralg" {
				// the round trip: what was accepted for a reference is what that reference gives back
				m3, err := rc.ManifestGet(ctx, r)
				switch {
				case err != nil || m3 == nil || !m3.IsSet():
					add("repush-layout-not-retrievable-under-pushed-digest", "ManifestPut(%s) of a %s manifest returned nil, but ManifestGet of the same reference fails: %v", r.CommonName(), s.Digest, err)
				default:
					if b3, _ := m3.RawBody(); !bytes.Equal(b3, s.Raw) {
						add("repush-layout-roundtrip-bytes-differ", "ManifestGet(%s) after ManifestPut returns %s, pushed %s", r.CommonName(), clip(b3), clip(s.Raw))
					} else {
						ev.Class("repush:layout-otheralg:ok-readable")
					}
				}
			}
			return vs
		}
		if err := rc.ManifestPut(ctx, r, m); err != nil {
			ev.Class("repush:layout-error")
			return nil
		}
		ev.Class("repush:layout-ok")
		b, err := os.ReadFile(filepath.Join(dir, "blobs", alg, s.Digest[len(alg)+1:]))
		if err != nil {
			add("repush-layout-blob-missing", "after ManifestPut into a layout there is no blob file for %s: %v", s.Digest, err)
			return vs
		}
		if !bytes.Equal(b, s.Raw) {
			add("repush-layout-body-differs", "layout blob %s holds %s, the fetched manifest is %s", s.Digest, clip(b), clip(s.Raw))
		}
		ib, err := os.ReadFile(filepath.Join(dir, "index.json"))
		if err == nil {
			var idx struct {
				Manifests []XDesc `json:"manifests"`
			}
			if json.Unmarshal(ib, &idx) == nil {
				found := false
				for _, e := range idx.Manifests {
					if e.Digest == s.Digest {
						found = true
						if e.MediaType != s.MT {
							add("repush-layout-index-mediatype-differs", "index.json lists %s as %q, the manifest reports %q", s.Digest, e.MediaType, s.MT)
						}
					}
				}
				if !found {
					add("repush-layout-index-entry-missing", "index.json has no entry for %s after ManifestPut(%s)", s.Digest, r.CommonName())
				}
			}
		}
	}
	return vs
}
