package c02

// xparse.go: the oracle's independent view of a manifest body. Hashes come from
// crypto/* directly, the pretty-JWS payload is extracted by a parser written
// here, and values are decoded with encoding/json into structs defined here
// (never regclient's types).

import (
	"bytes"
	"crypto/sha256"
	"crypto/sha512"
	"encoding/base64"
	"encoding/hex"
	"encoding/json"
	"fmt"
	"io"
	"sort"
	"strings"
)

func hashOf(alg string, b []byte) string {
	switch alg {
	case "sha512":
		s := sha512.Sum512(b)
		return "sha512:" + hex.EncodeToString(s[:])
	case "sha384":
		s := sha512.Sum384(b)
		return "sha384:" + hex.EncodeToString(s[:])
	default:
		s := sha256.Sum256(b)
		return "sha256:" + hex.EncodeToString(s[:])
	}
}

// digestAlg returns the algorithm of a well-formed sha256/sha512 digest string.
func digestAlg(d string) (string, bool) {
	i := strings.IndexByte(d, ':')
	if i < 0 {
		return "", false
	}
	alg, hx := d[:i], d[i+1:]
	want := 0
	switch alg {
	case "sha256":
		want = 64
	case "sha512":
		want = 128
	case "sha384":
		want = 96
	default:
		return "", false
	}
	if len(hx) != want {
		return "", false
	}
	for i := 0; i < len(hx); i++ {
		c := hx[i]
		if !(c >= '0' && c <= '9' || c >= 'a' && c <= 'f') {
			return "", false
		}
	}
	return alg, true
}

// ---------------------------------------------------------------- pretty JWS

func b64urlDecodeLoose(s string) ([]byte, error) {
	s = strings.ReplaceAll(s, "\n", "")
	s = strings.ReplaceAll(s, " ", "")
	s = strings.TrimRight(s, "=")
	return base64.RawURLEncoding.DecodeString(s)
}

// jwsPayload reconstructs the signed payload of a pretty-JWS document
// (content[:formatLength] + formatTail of the protected header). ok=false: not
// a decodable pretty JWS. ambiguous=true: the signature blocks do not agree on
// one payload.
func jwsPayload(raw []byte) (payload []byte, ok bool, ambiguous bool) {
	var doc struct {
		Signatures []struct {
			Protected string `json:"protected"`
		} `json:"signatures"`
	}
	if err := json.Unmarshal(raw, &doc); err != nil || len(doc.Signatures) == 0 {
		return nil, false, false
	}
	for i, s := range doc.Signatures {
		pb, err := b64urlDecodeLoose(s.Protected)
		if err != nil {
			return nil, false, false
		}
		var prot struct {
			FormatLength *float64 `json:"formatLength"`
			FormatTail   *string  `json:"formatTail"`
		}
		if err := json.Unmarshal(pb, &prot); err != nil || prot.FormatLength == nil || prot.FormatTail == nil {
			return nil, false, false
		}
		fl := int(*prot.FormatLength)
		if float64(fl) != *prot.FormatLength || fl < 0 || fl > len(raw) {
			return nil, false, false
		}
		tail, err := b64urlDecodeLoose(*prot.FormatTail)
		if err != nil {
			return nil, false, false
		}
		p := append(append([]byte{}, raw[:fl]...), tail...)
		if i == 0 {
			payload = p
		} else if !bytes.Equal(payload, p) {
			return nil, true, true
		}
	}
	return payload, true, false
}

// ------------------------------------------------------------ top-level keys

// topInfo scans the top-level object of a document.
type topInfo struct {
	IsObject   bool
	Keys       []string
	Clean      bool   // no two keys equal under case folding
	DeclaredMT string // value of the exact-case "mediaType" member when it is a string
	HasMT      bool
	MTKnown    bool // the body's declaration is unambiguous (Clean w.r.t. mediaType)
}

func scanTop(doc []byte) topInfo {
	ti := topInfo{}
	dec := json.NewDecoder(bytes.NewReader(doc))
	dec.UseNumber()
	tok, err := dec.Token()
	if err != nil {
		return ti
	}
	if d, ok := tok.(json.Delim); !ok || d != '{' {
		return ti
	}
	ti.IsObject = true
	mtVariants := 0
	for dec.More() {
		kt, err := dec.Token()
		if err != nil {
			return ti
		}
		k, ok := kt.(string)
		if !ok {
			return ti
		}
		var val json.RawMessage
		if err := dec.Decode(&val); err != nil {
			return ti
		}
		ti.Keys = append(ti.Keys, k)
		if strings.EqualFold(k, "mediaType") {
			mtVariants++
			if k == "mediaType" {
				var s string
				if json.Unmarshal(val, &s) == nil && len(val) > 0 && val[0] == '"' {
					ti.DeclaredMT, ti.HasMT = s, true
				}
			}
		}
	}
	if _, err := dec.Token(); err != nil && err != io.EOF {
		return ti
	}
	ti.Clean = true
	low := map[string]bool{}
	for _, k := range ti.Keys {
		lk := strings.ToLower(k)
		if low[lk] {
			ti.Clean = false
		}
		low[lk] = true
	}
	ti.MTKnown = mtVariants == 0 || (mtVariants == 1 && ti.HasMT)
	return ti
}

// --------------------------------------------------------- value structures

// XPlat / XDesc / xDoc mirror the specification's field names.
type XPlat struct {
	Architecture string   `json:"architecture"`
	OS           string   `json:"os"`
	OSVersion    string   `json:"os.version,omitempty"`
	OSFeatures   []string `json:"os.features,omitempty"`
	Variant      string   `json:"variant,omitempty"`
	Features     []string `json:"features,omitempty"`
}

type XDesc struct {
	MediaType    string            `json:"mediaType"`
	Digest       string            `json:"digest"`
	Size         int64             `json:"size"`
	URLs         []string          `json:"urls,omitempty"`
	Annotations  map[string]string `json:"annotations,omitempty"`
	Data         []byte            `json:"data,omitempty"`
	Platform     *XPlat            `json:"platform,omitempty"`
	ArtifactType string            `json:"artifactType,omitempty"`
}

// xDoc holds the members of a body that the getters of its media type expose.
type xDoc struct {
	Config      *XDesc
	Layers      []XDesc
	Manifests   []XDesc
	Subject     *XDesc
	Annotations map[string]string
}

// parseDoc decodes a body with the struct of its (reported) media type; members
// that media type does not define are not looked at.
func parseDoc(mt string, doc []byte) (*xDoc, error) {
	d := &xDoc{}
	switch mt {
	case mtOCIManifest:
		var x struct {
			Config      *XDesc            `json:"config"`
			Layers      []XDesc           `json:"layers"`
			Subject     *XDesc            `json:"subject"`
			Annotations map[string]string `json:"annotations"`
		}
		if err := json.Unmarshal(doc, &x); err != nil {
			return nil, err
		}
		d.Config, d.Layers, d.Subject, d.Annotations = x.Config, x.Layers, x.Subject, x.Annotations
	case mtDocker2:
		var x struct {
			Config      *XDesc            `json:"config"`
			Layers      []XDesc           `json:"layers"`
			Annotations map[string]string `json:"annotations"`
		}
		if err := json.Unmarshal(doc, &x); err != nil {
			return nil, err
		}
		d.Config, d.Layers, d.Annotations = x.Config, x.Layers, x.Annotations
	case mtOCIIndex:
		var x struct {
			Manifests   []XDesc           `json:"manifests"`
			Subject     *XDesc            `json:"subject"`
			Annotations map[string]string `json:"annotations"`
		}
		if err := json.Unmarshal(doc, &x); err != nil {
			return nil, err
		}
		d.Manifests, d.Subject, d.Annotations = x.Manifests, x.Subject, x.Annotations
	case mtDocker2List:
		var x struct {
			Manifests   []XDesc           `json:"manifests"`
			Annotations map[string]string `json:"annotations"`
		}
		if err := json.Unmarshal(doc, &x); err != nil {
			return nil, err
		}
		d.Manifests, d.Annotations = x.Manifests, x.Annotations
	case mtOCIArtifact:
		var x struct {
			Blobs       []XDesc           `json:"blobs"`
			Subject     *XDesc            `json:"subject"`
			Annotations map[string]string `json:"annotations"`
		}
		if err := json.Unmarshal(doc, &x); err != nil {
			return nil, err
		}
		d.Layers, d.Subject, d.Annotations = x.Blobs, x.Subject, x.Annotations
	case mtDocker1, mtDocker1Sig:
		var x struct {
			FSLayers []struct {
				BlobSum string `json:"blobSum"`
			} `json:"fsLayers"`
		}
		if err := json.Unmarshal(doc, &x); err != nil {
			return nil, err
		}
		for _, f := range x.FSLayers {
			d.Layers = append(d.Layers, XDesc{Digest: f.BlobSum})
		}
	default:
		return nil, fmt.Errorf("media type %q is not a manifest type", mt)
	}
	return d, nil
}

// trimJSONSpace removes JSON insignificant whitespace around a document.
func trimJSONSpace(b []byte) []byte {
	return bytes.Trim(b, " \t\r\n")
}

// ---- normalised equality (nil and empty slices / maps / data are one value)

func eqStrs(a, b []string) bool {
	if len(a) != len(b) {
		return false
	}
	for i := range a {
		if a[i] != b[i] {
			return false
		}
	}
	return true
}

func eqMap(a, b map[string]string) bool {
	if len(a) != len(b) {
		return false
	}
	for k, v := range a {
		if w, ok := b[k]; !ok || w != v {
			return false
		}
	}
	return true
}

func eqPlat(a, b *XPlat) bool {
	if a == nil || b == nil {
		return a == nil && b == nil
	}
	return a.Architecture == b.Architecture && a.OS == b.OS && a.OSVersion == b.OSVersion && a.Variant == b.Variant &&
		eqStrs(a.OSFeatures, b.OSFeatures) && eqStrs(a.Features, b.Features)
}

func eqDesc(a, b XDesc) bool {
	return a.MediaType == b.MediaType && a.Digest == b.Digest && a.Size == b.Size && a.ArtifactType == b.ArtifactType &&
		eqStrs(a.URLs, b.URLs) && eqMap(a.Annotations, b.Annotations) && bytes.Equal(a.Data, b.Data) && eqPlat(a.Platform, b.Platform)
}

func eqDescs(a, b []XDesc) (bool, int) {
	if len(a) != len(b) {
		return false, -1
	}
	for i := range a {
		if !eqDesc(a[i], b[i]) {
			return false, i
		}
	}
	return true, 0
}

func showDesc(d XDesc) string {
	b, _ := json.Marshal(d)
	return string(b)
}

func showDescs(dl []XDesc) string {
	b, _ := json.Marshal(dl)
	if len(b) > 700 {
		return string(b[:700]) + "…"
	}
	return string(b)
}

func showMap(m map[string]string) string {
	keys := make([]string, 0, len(m))
	for k := range m {
		keys = append(keys, k)
	}
	sort.Strings(keys)
	var sb strings.Builder
	sb.WriteByte('{')
	for i, k := range keys {
		if i > 0 {
			sb.WriteByte(',')
		}
		fmt.Fprintf(&sb, "%q:%q", k, m[k])
	}
	sb.WriteByte('}')
	return sb.String()
}

func clip(b []byte) string {
	if len(b) > 600 {
		return fmt.Sprintf("%q…(%d bytes)", b[:600], len(b))
	}
	return fmt.Sprintf("%q", b)
}

func cloneDesc(d XDesc) XDesc {
	o := d
	if d.URLs != nil {
		o.URLs = append([]string{}, d.URLs...)
	}
	if d.Annotations != nil {
		o.Annotations = map[string]string{}
		for k, v := range d.Annotations {
			o.Annotations[k] = v
		}
	}
	if d.Data != nil {
		o.Data = append([]byte{}, d.Data...)
	}
	if d.Platform != nil {
		p := *d.Platform
		if p.OSFeatures != nil {
			p.OSFeatures = append([]string{}, p.OSFeatures...)
		}
		if p.Features != nil {
			p.Features = append([]string{}, p.Features...)
		}
		o.Platform = &p
	}
	return o
}

func cloneDescs(dl []XDesc) []XDesc {
	if dl == nil {
		return nil
	}
	out := make([]XDesc, len(dl))
	for i := range dl {
		out[i] = cloneDesc(dl[i])
	}
	return out
}
