package c02

// bridge.go: conversions between the harness's plain data and regclient's API
// types, the observation of a manifest through its public getters, and the
// clauses shared by Part A and Part B ("the equations").

import (
	"bytes"
	"encoding/json"
	"fmt"
	"strings"

	digest "github.com/opencontainers/go-digest"

	"github.com/regclient/regclient/types/descriptor"
	"github.com/regclient/regclient/types/docker/schema1"
	"github.com/regclient/regclient/types/docker/schema2"
	"github.com/regclient/regclient/types/manifest"
	v1 "github.com/regclient/regclient/types/oci/v1"
	"github.com/regclient/regclient/types/platform"
	"github.com/regclient/regclient/zz_verif/evid"
)

func toX(d descriptor.Descriptor) XDesc {
	x := XDesc{MediaType: d.MediaType, Digest: string(d.Digest), Size: d.Size, ArtifactType: d.ArtifactType}
	if d.URLs != nil {
		x.URLs = append([]string{}, d.URLs...)
	}
	if d.Annotations != nil {
		x.Annotations = map[string]string{}
		for k, v := range d.Annotations {
			x.Annotations[k] = v
		}
	}
	if d.Data != nil {
		x.Data = append([]byte{}, d.Data...)
	}
	if d.Platform != nil {
		p := XPlat{Architecture: d.Platform.Architecture, OS: d.Platform.OS, OSVersion: d.Platform.OSVersion, Variant: d.Platform.Variant}
		if d.Platform.OSFeatures != nil {
			p.OSFeatures = append([]string{}, d.Platform.OSFeatures...)
		}
		if d.Platform.Features != nil {
			p.Features = append([]string{}, d.Platform.Features...)
		}
		x.Platform = &p
	}
	return x
}

func toXs(dl []descriptor.Descriptor) []XDesc {
	if dl == nil {
		return nil
	}
	out := make([]XDesc, len(dl))
	for i := range dl {
		out[i] = toX(dl[i])
	}
	return out
}

// fromX builds a fresh regclient descriptor (no memory shared with x).
func fromX(x XDesc) descriptor.Descriptor {
	x = cloneDesc(x)
	d := descriptor.Descriptor{MediaType: x.MediaType, Digest: digest.Digest(x.Digest), Size: x.Size, URLs: x.URLs,
		Annotations: x.Annotations, Data: x.Data, ArtifactType: x.ArtifactType}
	if x.Platform != nil {
		d.Platform = &platform.Platform{Architecture: x.Platform.Architecture, OS: x.Platform.OS, OSVersion: x.Platform.OSVersion,
			OSFeatures: x.Platform.OSFeatures, Variant: x.Platform.Variant, Features: x.Platform.Features}
	}
	return d
}

func fromXs(xl []XDesc) []descriptor.Descriptor {
	if xl == nil {
		return nil
	}
	out := make([]descriptor.Descriptor, len(xl))
	for i := range xl {
		out[i] = fromX(xl[i])
	}
	return out
}

// origOf decodes a document into the regclient struct of a family (only a
// vehicle to obtain a value for WithOrig / SetOrig).
func origOf(fam string, doc []byte) (any, error) {
	var err error
	switch fam {
	case "oci-image":
		var o v1.Manifest
		err = json.Unmarshal(doc, &o)
		return o, err
	case "oci-index":
		var o v1.Index
		err = json.Unmarshal(doc, &o)
		return o, err
	case "oci-artifact":
		var o v1.ArtifactManifest
		err = json.Unmarshal(doc, &o)
		return o, err
	case "docker2-image":
		var o schema2.Manifest
		err = json.Unmarshal(doc, &o)
		return o, err
	case "docker2-list":
		var o schema2.ManifestList
		err = json.Unmarshal(doc, &o)
		return o, err
	case "schema1":
		var o schema1.Manifest
		err = json.Unmarshal(doc, &o)
		return o, err
	case "schema1-signed":
		var o schema1.SignedManifest
		err = json.Unmarshal(doc, &o)
		return o, err
	}
	return nil, fmt.Errorf("unknown family %q", fam)
}

// ------------------------------------------------------------- observation

type snap struct {
	IsSet   bool
	Raw     []byte
	RawErr  bool
	MJ      []byte
	MJErr   bool
	MT      string
	Digest  string
	Size    int64
	HasAnn  bool
	Ann     map[string]string
	HasCfg  bool
	Cfg     XDesc
	HasLay  bool
	Lay     []XDesc
	HasML   bool
	ML      []XDesc
	HasSubj bool
	Subj    *XDesc
}

func observe(m manifest.Manifest) snap {
	s := snap{IsSet: m.IsSet()}
	raw, err := m.RawBody()
	s.Raw, s.RawErr = append([]byte{}, raw...), err != nil
	mj, err := m.MarshalJSON()
	s.MJ, s.MJErr = append([]byte{}, mj...), err != nil
	d := m.GetDescriptor()
	s.MT, s.Digest, s.Size = d.MediaType, string(d.Digest), d.Size
	if ma, ok := m.(manifest.Annotator); ok {
		if a, err := ma.GetAnnotations(); err == nil {
			s.HasAnn = true
			s.Ann = map[string]string{}
			for k, v := range a {
				s.Ann[k] = v
			}
		}
	}
	if c, err := m.GetConfig(); err == nil {
		s.HasCfg, s.Cfg = true, toX(c)
	}
	if l, err := m.GetLayers(); err == nil {
		s.HasLay, s.Lay = true, toXs(l)
	}
	if l, err := m.GetManifestList(); err == nil {
		s.HasML, s.ML = true, toXs(l)
	}
	if ms, ok := m.(manifest.Subjecter); ok {
		if d, err := ms.GetSubject(); err == nil {
			s.HasSubj = true
			if d != nil {
				x := toX(*d)
				s.Subj = &x
			}
		}
	}
	return s
}

// sameSnap tells whether two observations are identical (used for "a failing
// setter leaves everything unchanged").
func sameSnap(a, b snap) (bool, string) {
	switch {
	case a.IsSet != b.IsSet:
		return false, "IsSet"
	case !bytes.Equal(a.Raw, b.Raw) || a.RawErr != b.RawErr:
		return false, "RawBody"
	case !bytes.Equal(a.MJ, b.MJ) || a.MJErr != b.MJErr:
		return false, "MarshalJSON"
	case a.MT != b.MT || a.Digest != b.Digest || a.Size != b.Size:
		return false, "GetDescriptor"
	case a.HasAnn != b.HasAnn || !eqMap(a.Ann, b.Ann):
		return false, "GetAnnotations"
	case a.HasCfg != b.HasCfg || !eqDesc(a.Cfg, b.Cfg):
		return false, "GetConfig"
	case a.HasLay != b.HasLay:
		return false, "GetLayers"
	case a.HasML != b.HasML:
		return false, "GetManifestList"
	case a.HasSubj != b.HasSubj || (a.Subj == nil) != (b.Subj == nil) || (a.Subj != nil && !eqDesc(*a.Subj, *b.Subj)):
		return false, "GetSubject"
	}
	if ok, _ := eqDescs(a.Lay, b.Lay); !ok {
		return false, "GetLayers"
	}
	if ok, _ := eqDescs(a.ML, b.ML); !ok {
		return false, "GetManifestList"
	}
	return true, ""
}

// ------------------------------------------------------------ the equations

// named returns the bytes the reported digest must name: the JWS payload for a
// signed schema1 manifest, the raw body otherwise.
func named(mt string, raw []byte) (b []byte, ok bool, ambiguous bool) {
	if mt == mtDocker1Sig {
		return jwsPayload(raw)
	}
	return raw, true, false
}

// equations evaluates, for a set manifest observed as s, the clauses that must
// hold at any time: RawBody == MarshalJSON; descriptor == (hash, length) of the
// named bytes; media type does not contradict the body; the body parses back to
// the getter values. tag is appended to every signature. lenient is set for
// arbitrary (fuzzed) bytes, where an ambiguous envelope is skipped.
func equations(s snap, tag string, lenient bool, ev *evid.Collector) []*evid.Violation {
	var vs []*evid.Violation
	add := func(sig, f string, a ...any) { vs = append(vs, evid.V(sig+":"+tag, f, a...)) }
	if s.RawErr || len(s.Raw) == 0 {
		add("set-manifest-without-rawbody", "IsSet()=true but RawBody() returned an error or no bytes")
		return vs
	}
	doc, ok, amb := named(s.MT, s.Raw)
	fromStruct := strings.HasPrefix(tag, "new-orig:") || strings.HasPrefix(tag, "build-orig:") || strings.HasPrefix(tag, "orig:")
	if !ok && s.MT == mtDocker1Sig && !amb && fromStruct {
		if _, mjIsJWS, _ := jwsPayload(s.MJ); mjIsJWS || (!lenient && json.Valid(s.Raw)) {
			// a signed schema1 manifest whose serialisation was produced from the struct
			// (WithOrig / SetOrig): RawBody is the plain struct rendering without signatures
			vs = append(vs, evid.V(sigSignedStruct, "media type %s, but RawBody() is not the pretty-JWS document (MarshalJSON is: %v): RawBody()=%s MarshalJSON()=%s [%s]", s.MT, mjIsJWS, clip(s.Raw), clip(s.MJ), tag))
			return vs
		}
	}
	if s.MJErr {
		add("set-manifest-marshaljson-error", "IsSet()=true but MarshalJSON() returned an error")
	} else if !bytes.Equal(s.Raw, s.MJ) {
		if s.MT == mtDocker1Sig && bytes.Equal(trimJSONSpace(s.Raw), s.MJ) {
			vs = append(vs, evid.V(sigSignedTrim, "signed schema1: MarshalJSON() is RawBody() without the white space around the document (%d vs %d bytes) [%s]", len(s.MJ), len(s.Raw), tag))
		} else {
			add("rawbody-differs-from-marshaljson", "RawBody()=%s but MarshalJSON()=%s", clip(s.Raw), clip(s.MJ))
		}
	}
	if !ok {
		if amb || lenient {
			ev.Class("skip:jws-ambiguous-or-undecodable")
			return vs
		}
		add("rawbody-not-a-pretty-jws", "media type is %s but RawBody() is not a decodable pretty-JWS document: %s", s.MT, clip(s.Raw))
		return vs
	}
	alg, valid := digestAlg(s.Digest)
	if !valid {
		add("descriptor-digest-invalid", "GetDescriptor().Digest=%q is not a well-formed sha256/sha512 digest", s.Digest)
	} else if want := hashOf(alg, doc); want != s.Digest {
		add("descriptor-digest-not-hash-of-raw", "GetDescriptor().Digest=%s but %s of the %d named bytes is %s (media type %s)", s.Digest, alg, len(doc), want, s.MT)
	}
	if s.Size != int64(len(doc)) {
		add("descriptor-size-not-length-of-raw", "GetDescriptor().Size=%d but the named bytes are %d long (media type %s, raw body %d bytes)", s.Size, len(doc), s.MT, len(s.Raw))
	}
	ti := scanTop(doc)
	if ti.MTKnown && ti.HasMT && ti.DeclaredMT != "" && ti.DeclaredMT != s.MT {
		add("mediatype-contradicts-body", "reported media type %q but the body declares %q", s.MT, ti.DeclaredMT)
	}
	if !ti.Clean {
		ev.Class("skip:values-body-has-case-variant-or-duplicate-keys")
		return vs
	}
	pd, err := parseDoc(s.MT, doc)
	if err != nil {
		add("rawbody-does-not-parse", "the serialisation does not decode: %v: %s", err, clip(doc))
		return vs
	}
	if s.HasAnn && !eqMap(s.Ann, pd.Annotations) {
		add("annotations-differ-from-rawbody", "GetAnnotations()=%s, body has %s", showMap(s.Ann), showMap(pd.Annotations))
	}
	if s.HasCfg {
		var pc XDesc
		if pd.Config != nil {
			pc = *pd.Config
		}
		if !eqDesc(s.Cfg, pc) {
			add("config-differs-from-rawbody", "GetConfig()=%s, body has %s", showDesc(s.Cfg), showDesc(pc))
		}
	}
	if s.HasLay {
		pl := pd.Layers
		if ok, i := eqDescs(s.Lay, pl); !ok {
			add("layers-differ-from-rawbody", "GetLayers() (%d entries) differs from the body (%d entries) at index %d: getter %s, body %s", len(s.Lay), len(pl), i, showDescs(s.Lay), showDescs(pl))
		}
	}
	if s.HasML {
		if ok, i := eqDescs(s.ML, pd.Manifests); !ok {
			add("manifestlist-differs-from-rawbody", "GetManifestList() (%d entries) differs from the body (%d entries) at index %d: getter %s, body %s", len(s.ML), len(pd.Manifests), i, showDescs(s.ML), showDescs(pd.Manifests))
		}
	}
	if s.HasSubj {
		switch {
		case (s.Subj == nil) != (pd.Subject == nil):
			add("subject-differs-from-rawbody", "GetSubject() nil=%v, body subject nil=%v", s.Subj == nil, pd.Subject == nil)
		case s.Subj != nil && !eqDesc(*s.Subj, *pd.Subject):
			add("subject-differs-from-rawbody", "GetSubject()=%s, body has %s", showDesc(*s.Subj), showDesc(*pd.Subject))
		}
	}
	return vs
}

// signatures of findings whose root cause is independent of entry and step
const (
	sigSignedStruct = "signed-schema1-from-struct-rawbody-is-not-the-jws"
	sigSignedTrim   = "signed-schema1-marshaljson-drops-outer-whitespace"
	sigOrigSize     = "withorig-reports-caller-supplied-size"
)

// blocking tells whether any violation other than the benign, non-cascading
// ones is present (a later clause or step would only restate it).
func blocking(vs []*evid.Violation) bool {
	for _, v := range vs {
		if v.Sig != sigSignedTrim && v.Sig != sigOrigSize {
			return true
		}
	}
	return false
}

func hasSig(vs []*evid.Violation, sig string) bool {
	for _, v := range vs {
		if v.Sig == sig {
			return true
		}
	}
	return false
}

// typeName is a short label of the concrete manifest type, by media type.
func typeName(mt string) string { return mtFamily(mt) }
