package c02

// partb.go: Part B of C02 — edit programs. A manifest of any media type is
// built (from raw bytes, from its struct, or unset and then filled by SetOrig)
// with a sha256 or sha512 descriptor, and a program of setter calls over every
// setter interface is interpreted on it. After every step the equations of
// bridge.go must hold again; a setter that reports an error must leave every
// observation unchanged.

import (
	"encoding/json"
	"fmt"
	"reflect"

	digest "github.com/opencontainers/go-digest"
	"pgregory.net/rapid"

	"github.com/regclient/regclient/types/descriptor"
	"github.com/regclient/regclient/types/manifest"
	"github.com/regclient/regclient/types/ref"
	"github.com/regclient/regclient/zz_verif/evid"
)

// Edit is one field-level change of a descriptor.
type Edit struct {
	Field string            `json:"field"`
	S     string            `json:"s,omitempty"`
	K     string            `json:"k,omitempty"`
	N     int64             `json:"n,omitempty"`
	SS    []string          `json:"ss,omitempty"`
	B     []byte            `json:"b,omitempty"`
	M     map[string]string `json:"m,omitempty"`
	P     *XPlat            `json:"p,omitempty"`
}

// ListStep is one structural change of a descriptor list.
type ListStep struct {
	Kind string `json:"kind"` // edit | drop | dup | insert | swap | reverse | rotate
	I    int    `json:"i"`
	J    int    `json:"j"`
	Edit *Edit  `json:"edit,omitempty"`
	Desc *XDesc `json:"desc,omitempty"`
}

// Op is one setter call.
type Op struct {
	Kind string `json:"kind"` // annot | config | layers | manifests | subject | orig
	Key  string `json:"key,omitempty"`
	Val  string `json:"val,omitempty"`
	// descriptor argument (config, subject)
	Base  string     `json:"base,omitempty"` // current | fresh | nil | zero   (lists: current | fresh | nil | empty)
	Fresh []XDesc    `json:"fresh,omitempty"`
	Edits []Edit     `json:"edits,omitempty"`
	Steps []ListStep `json:"steps,omitempty"`
	// SetOrig
	OrigFrom   string `json:"orig_from,omitempty"`   // current | raw | nil | string
	OrigFamily string `json:"orig_family,omitempty"` // "" = the manifest's own type
	OrigRaw    string `json:"orig_raw,omitempty"`
	OrigSign   string `json:"orig_sign,omitempty"`
	OrigMod    string `json:"orig_mod,omitempty"` // "" | drop-mediatype | wrong-mediatype | drop-annotations
	OrigPtr    bool   `json:"orig_ptr,omitempty"`
}

// CaseB is one Part B case.
type CaseB struct {
	Family  string   `json:"family"`
	Info    BodyInfo `json:"info"`
	Raw     string   `json:"raw"`
	Build   string   `json:"build"` // raw | orig | unset
	Algo    string   `json:"algo"`  // "" | prefer512 | desc512 | ref512 | desc256
	HintMT  bool     `json:"hint_mt"`
	Program []Op     `json:"program"`
}

// ------------------------------------------------------------- generators

func genXPlat(t *rapid.T) *XPlat {
	p := &XPlat{Architecture: rapid.SampledFrom(archs).Draw(t, "xp_arch"), OS: rapid.SampledFrom(oss).Draw(t, "xp_os")}
	if rapid.IntRange(0, 2).Draw(t, "xp_v") == 0 {
		p.OSVersion = rapid.SampledFrom(osVersions).Draw(t, "xp_ver")
	}
	if rapid.IntRange(0, 3).Draw(t, "xp_of") == 0 {
		p.OSFeatures = rapid.SliceOfN(rapid.SampledFrom(featPool), 0, 2).Draw(t, "xp_osf")
	}
	if rapid.IntRange(0, 2).Draw(t, "xp_va") == 0 {
		p.Variant = rapid.SampledFrom(variants).Draw(t, "xp_var")
	}
	if rapid.IntRange(0, 4).Draw(t, "xp_f") == 0 {
		p.Features = rapid.SliceOfN(rapid.SampledFrom(featPool), 0, 2).Draw(t, "xp_feat")
	}
	return p
}

func genAnnMap(t *rapid.T, label string) map[string]string {
	n := rapid.IntRange(0, 2).Draw(t, label+"_n")
	m := map[string]string{}
	for i := 0; i < n; i++ {
		m[rapid.SampledFrom(annKeys).Draw(t, label+"_k")] = rapid.SampledFrom(annVals).Draw(t, label+"_v")
	}
	return m
}

func genXDesc(t *rapid.T) XDesc {
	content := rapid.SliceOfN(rapid.Byte(), 0, 16).Draw(t, "xd_content")
	alg := rapid.SampledFrom([]string{"sha256", "sha256", "sha512"}).Draw(t, "xd_alg")
	d := XDesc{
		MediaType: rapid.SampledFrom([]string{mtOCIManifest, mtDocker2, mtOCIConfig, mtOCIEmpty, layerMTsOCI[0], layerMTsDocker[0], "application/vnd.example.thing", ""}).Draw(t, "xd_mt"),
		Digest:    hashOf(alg, content),
		Size:      int64(len(content)),
	}
	if rapid.IntRange(0, 9).Draw(t, "xd_odd") == 0 {
		d.Digest = rapid.SampledFrom([]string{"", "sha256:zz", "md5:00"}).Draw(t, "xd_oddv")
		d.Size = rapid.SampledFrom([]int64{-1, 0, 9223372036854775807}).Draw(t, "xd_oddsize")
	}
	if rapid.IntRange(0, 4).Draw(t, "xd_urls") == 0 {
		d.URLs = rapid.SliceOfN(rapid.SampledFrom(urlPool), 0, 2).Draw(t, "xd_urlsv")
	}
	if rapid.IntRange(0, 3).Draw(t, "xd_ann") == 0 {
		d.Annotations = genAnnMap(t, "xd_annv")
	}
	if rapid.IntRange(0, 4).Draw(t, "xd_data") == 0 {
		d.Data = content
		if rapid.Bool().Draw(t, "xd_dataempty") {
			d.Data = []byte{}
		}
	}
	if rapid.IntRange(0, 2).Draw(t, "xd_plat") == 0 {
		d.Platform = genXPlat(t)
	}
	if rapid.IntRange(0, 5).Draw(t, "xd_at") == 0 {
		d.ArtifactType = rapid.SampledFrom(artTypes).Draw(t, "xd_atv")
	}
	return d
}

var editFields = []string{"digest", "digest512", "size", "mediaType", "artifactType",
	"ann-set", "ann-del", "ann-nil", "ann-empty",
	"urls-set", "urls-append", "urls-nil", "urls-empty",
	"data-set", "data-nil", "data-empty",
	"plat-nil", "plat-zero", "plat-set", "plat-arch", "plat-os", "plat-osver", "plat-osfeat", "plat-variant", "plat-feat"}

func genEdit(t *rapid.T) Edit {
	e := Edit{Field: rapid.SampledFrom(editFields).Draw(t, "ed_field")}
	switch e.Field {
	case "digest":
		e.S = hashOf("sha256", rapid.SliceOfN(rapid.Byte(), 0, 4).Draw(t, "ed_dig"))
	case "digest512":
		e.S = hashOf("sha512", rapid.SliceOfN(rapid.Byte(), 0, 4).Draw(t, "ed_dig"))
	case "size":
		e.N = rapid.SampledFrom([]int64{0, 1, 2, -1, 1 << 40}).Draw(t, "ed_size")
	case "mediaType":
		e.S = rapid.SampledFrom([]string{mtOCIManifest, mtDocker2, layerMTsOCI[0], "", "x/y"}).Draw(t, "ed_mt")
	case "artifactType":
		e.S = rapid.SampledFrom(append([]string{""}, artTypes...)).Draw(t, "ed_at")
	case "ann-set":
		e.K, e.S = rapid.SampledFrom(annKeys).Draw(t, "ed_k"), rapid.SampledFrom(annVals).Draw(t, "ed_v")
	case "ann-del":
		e.K = rapid.SampledFrom(annKeys).Draw(t, "ed_k")
	case "urls-set":
		e.SS = rapid.SliceOfN(rapid.SampledFrom(urlPool), 1, 2).Draw(t, "ed_urls")
	case "urls-append":
		e.S = rapid.SampledFrom(urlPool).Draw(t, "ed_url")
	case "data-set":
		e.B = rapid.SliceOfN(rapid.Byte(), 1, 8).Draw(t, "ed_data")
	case "plat-set":
		e.P = genXPlat(t)
	case "plat-arch":
		e.S = rapid.SampledFrom(archs).Draw(t, "ed_arch")
	case "plat-os":
		e.S = rapid.SampledFrom(oss).Draw(t, "ed_os")
	case "plat-osver":
		e.S = rapid.SampledFrom(append([]string{""}, osVersions...)).Draw(t, "ed_osver")
	case "plat-osfeat", "plat-feat":
		e.SS = rapid.SliceOfN(rapid.SampledFrom(featPool), 0, 2).Draw(t, "ed_feat")
	case "plat-variant":
		e.S = rapid.SampledFrom(append([]string{""}, variants...)).Draw(t, "ed_variant")
	}
	return e
}

func applyEdit(d *XDesc, e Edit) {
	plat := func() *XPlat {
		if d.Platform == nil {
			d.Platform = &XPlat{}
		}
		return d.Platform
	}
	switch e.Field {
	case "digest", "digest512":
		d.Digest = e.S
	case "size":
		if e.N == 1 || e.N == 2 {
			d.Size += e.N
		} else {
			d.Size = e.N
		}
	case "mediaType":
		d.MediaType = e.S
	case "artifactType":
		d.ArtifactType = e.S
	case "ann-set":
		if d.Annotations == nil {
			d.Annotations = map[string]string{}
		}
		d.Annotations[e.K] = e.S
	case "ann-del":
		delete(d.Annotations, e.K)
	case "ann-nil":
		d.Annotations = nil
	case "ann-empty":
		d.Annotations = map[string]string{}
	case "urls-set":
		d.URLs = append([]string{}, e.SS...)
	case "urls-append":
		d.URLs = append(d.URLs, e.S)
	case "urls-nil":
		d.URLs = nil
	case "urls-empty":
		d.URLs = []string{}
	case "data-set":
		d.Data = append([]byte{}, e.B...)
	case "data-nil":
		d.Data = nil
	case "data-empty":
		d.Data = []byte{}
	case "plat-nil":
		d.Platform = nil
	case "plat-zero":
		d.Platform = &XPlat{}
	case "plat-set":
		if e.P != nil {
			p := *e.P
			d.Platform = &p
		}
	case "plat-arch":
		plat().Architecture = e.S
	case "plat-os":
		plat().OS = e.S
	case "plat-osver":
		plat().OSVersion = e.S
	case "plat-osfeat":
		plat().OSFeatures = append([]string{}, e.SS...)
	case "plat-variant":
		plat().Variant = e.S
	case "plat-feat":
		plat().Features = append([]string{}, e.SS...)
	}
}

func genListOp(t *rapid.T, kind string) Op {
	op := Op{Kind: kind}
	switch rapid.IntRange(0, 11).Draw(t, "l_base") {
	case 0:
		op.Base = "nil"
	case 1:
		op.Base = "empty"
	case 2, 3:
		op.Base = "fresh"
		op.Fresh = rapid.SliceOfN(rapid.Custom(genXDesc), 0, 3).Draw(t, "l_fresh")
	case 4:
		op.Base = "current" // the list equal to the current one
	default:
		op.Base = "current"
		n := rapid.SampledFrom([]int{1, 1, 1, 2, 3}).Draw(t, "l_nsteps")
		for i := 0; i < n; i++ {
			st := ListStep{Kind: rapid.SampledFrom([]string{"edit", "edit", "edit", "edit", "drop", "dup", "insert", "swap", "reverse", "rotate"}).Draw(t, "l_step"),
				I: rapid.IntRange(0, 5).Draw(t, "l_i"), J: rapid.IntRange(0, 5).Draw(t, "l_j")}
			switch st.Kind {
			case "edit":
				e := genEdit(t)
				st.Edit = &e
			case "insert":
				d := genXDesc(t)
				st.Desc = &d
			}
			op.Steps = append(op.Steps, st)
		}
	}
	return op
}

func genDescOp(t *rapid.T, kind string) Op {
	op := Op{Kind: kind}
	switch rapid.IntRange(0, 9).Draw(t, "d_base") {
	case 0:
		op.Base = "nil"
	case 1:
		op.Base = "zero"
	case 2, 3:
		op.Base = "fresh"
		op.Fresh = []XDesc{genXDesc(t)}
	case 4:
		op.Base = "current"
	default:
		op.Base = "current"
		n := rapid.SampledFrom([]int{1, 1, 2}).Draw(t, "d_nedits")
		for i := 0; i < n; i++ {
			op.Edits = append(op.Edits, genEdit(t))
		}
	}
	return op
}

func genOp(t *rapid.T, fam string) Op {
	// weights lean to the setters the family supports, but every op may hit every family
	kinds := []string{"annot", "annot", "config", "layers", "manifests", "subject", "orig", "rebuild"}
	switch fam {
	case "oci-image", "docker2-image":
		kinds = append(kinds, "config", "layers", "layers", "annot")
	case "oci-index", "docker2-list":
		kinds = append(kinds, "manifests", "manifests", "manifests", "annot")
	case "oci-artifact":
		kinds = append(kinds, "layers", "layers", "subject")
	default:
		kinds = append(kinds, "orig", "orig")
	}
	kind := rapid.SampledFrom(kinds).Draw(t, "op_kind")
	switch kind {
	case "rebuild":
		// the digest-algorithm change of the image mod code: a new manifest from the old one's
		// descriptor (digest cleared, algorithm preferred) and struct / raw body
		return Op{Kind: kind, Key: rapid.SampledFrom([]string{"sha256", "sha512", "sha512"}).Draw(t, "rb_algo"),
			Base: rapid.SampledFrom([]string{"orig", "orig", "raw"}).Draw(t, "rb_from")}
	case "annot":
		op := Op{Kind: kind, Key: rapid.SampledFrom(annKeys).Draw(t, "a_key")}
		if rapid.IntRange(0, 3).Draw(t, "a_del") != 0 {
			op.Val = rapid.SampledFrom(annVals).Draw(t, "a_val")
		}
		return op
	case "config", "subject":
		return genDescOp(t, kind)
	case "layers", "manifests":
		return genListOp(t, kind)
	}
	op := Op{Kind: "orig"}
	switch rapid.IntRange(0, 9).Draw(t, "o_from") {
	case 0:
		op.OrigFrom = "nil"
	case 1:
		op.OrigFrom = "string"
	case 2, 3, 4:
		op.OrigFrom = "raw"
		op.OrigFamily = fam
		if rapid.IntRange(0, 3).Draw(t, "o_otherfam") == 0 {
			op.OrigFamily = rapid.SampledFrom(families).Draw(t, "o_fam")
		}
		var info BodyInfo
		op.OrigRaw, info = genBody(t, op.OrigFamily, false)
		op.OrigSign = info.Sign
	default:
		op.OrigFrom = "current"
		op.OrigMod = rapid.SampledFrom([]string{"", "", "drop-mediatype", "wrong-mediatype", "drop-annotations"}).Draw(t, "o_mod")
		if rapid.IntRange(0, 5).Draw(t, "o_otherfam") == 0 {
			op.OrigFamily = rapid.SampledFrom(families).Draw(t, "o_fam")
		}
	}
	op.OrigPtr = rapid.IntRange(0, 9).Draw(t, "o_ptr") == 0
	return op
}

func genB(t *rapid.T) CaseB {
	c := CaseB{}
	c.Family = rapid.SampledFrom(families).Draw(t, "family")
	c.Raw, c.Info = genBody(t, c.Family, false)
	c.Build = rapid.SampledFrom([]string{"raw", "raw", "raw", "orig", "orig", "unset"}).Draw(t, "build")
	c.Algo = rapid.SampledFrom([]string{"", "", "prefer512", "prefer512", "desc512", "ref512", "desc256", "prefer256"}).Draw(t, "algo")
	c.HintMT = rapid.IntRange(0, 3).Draw(t, "hint_mt") != 0
	n := rapid.IntRange(0, 8).Draw(t, "nops")
	for i := 0; i < n; i++ {
		c.Program = append(c.Program, genOp(t, c.Family))
	}
	if c.Build == "unset" && n > 0 && rapid.IntRange(0, 3).Draw(t, "unset_first_orig") != 0 {
		c.Program[0] = Op{Kind: "orig", OrigFrom: "raw", OrigFamily: c.Family, OrigRaw: c.Raw, OrigSign: c.Info.Sign}
	}
	return c
}

// ------------------------------------------------------------ interpreter

func (c *CaseB) build(served, nm []byte) (manifest.Manifest, error, string) {
	desc := descriptor.Descriptor{}
	useDesc := false
	if c.HintMT || c.Build == "unset" {
		desc.MediaType, useDesc = famMT(c.Family), true
	}
	var opts []manifest.Opts
	target := nm // bytes a supplied digest must name
	switch c.Build {
	case "raw":
		opts = append(opts, manifest.WithRaw(served))
	case "orig":
		o, err := origOf(c.Family, served)
		if err != nil {
			return nil, err, "orig-undecodable"
		}
		mj, err := json.Marshal(o)
		if err != nil {
			return nil, err, "orig-unmarshalable"
		}
		if c.Family != "schema1-signed" {
			target = mj
		}
		opts = append(opts, manifest.WithOrig(o))
	}
	switch c.Algo {
	case "prefer256":
		_ = desc.DigestAlgoPrefer(digest.SHA256)
		useDesc = true
	case "prefer512":
		_ = desc.DigestAlgoPrefer(digest.SHA512)
		useDesc = true
	case "desc512":
		desc.Digest, useDesc = digest.Digest(hashOf("sha512", target)), true
	case "desc256":
		desc.Digest, useDesc = digest.Digest(hashOf("sha256", target)), true
	case "ref512":
		r, err := ref.New("reg.example.test/repo/a")
		if err == nil {
			opts = append(opts, manifest.WithRef(r.SetDigest(hashOf("sha512", target))))
		}
	}
	if useDesc {
		opts = append(opts, manifest.WithDesc(desc))
	}
	m, err := manifest.New(opts...)
	return m, err, ""
}

func modDoc(doc []byte, mod string) []byte {
	if mod == "" {
		return doc
	}
	var mm map[string]json.RawMessage
	if json.Unmarshal(doc, &mm) != nil {
		return doc
	}
	switch mod {
	case "drop-mediatype":
		delete(mm, "mediaType")
	case "wrong-mediatype":
		mm["mediaType"] = json.RawMessage(`"application/vnd.example.wrong+json"`)
	case "drop-annotations":
		delete(mm, "annotations")
	}
	b, err := json.Marshal(mm)
	if err != nil {
		return doc
	}
	return b
}

func applyList(cur []XDesc, op Op) []XDesc {
	switch op.Base {
	case "nil":
		return nil
	case "empty":
		return []XDesc{}
	case "fresh":
		return cloneDescs(op.Fresh)
	}
	l := cloneDescs(cur)
	for _, st := range op.Steps {
		n := len(l)
		switch st.Kind {
		case "edit":
			if n > 0 && st.Edit != nil {
				applyEdit(&l[st.I%n], *st.Edit)
			}
		case "drop":
			if n > 0 {
				i := st.I % n
				l = append(l[:i:i], l[i+1:]...)
			}
		case "dup":
			if n > 0 {
				l = append(l, cloneDesc(l[st.I%n]))
			}
		case "insert":
			if st.Desc != nil {
				i := st.I % (n + 1)
				l = append(l[:i:i], append([]XDesc{cloneDesc(*st.Desc)}, l[i:]...)...)
			}
		case "swap":
			if n > 1 {
				i, j := st.I%n, st.J%n
				l[i], l[j] = l[j], l[i]
			}
		case "reverse":
			for i, j := 0, n-1; i < j; i, j = i+1, j-1 {
				l[i], l[j] = l[j], l[i]
			}
		case "rotate":
			if n > 1 {
				k := 1 + st.I%(n-1)
				l = append(append([]XDesc{}, l[k:]...), l[:k]...)
			}
		}
	}
	return l
}

func applyDesc(cur *XDesc, op Op) *XDesc {
	switch op.Base {
	case "nil":
		return nil
	case "zero":
		return &XDesc{}
	case "fresh":
		if len(op.Fresh) > 0 {
			d := cloneDesc(op.Fresh[0])
			return &d
		}
		return &XDesc{}
	}
	var d XDesc
	if cur != nil {
		d = cloneDesc(*cur)
	}
	for _, e := range op.Edits {
		applyEdit(&d, e)
	}
	return &d
}

// exec performs one op. called=false: the manifest does not offer the setter.
func exec(m manifest.Manifest, cur snap, op Op) (called bool, err error, argClass string) {
	switch op.Kind {
	case "annot":
		ma, ok := m.(manifest.Annotator)
		if !ok {
			return false, nil, ""
		}
		cls := "add"
		if _, has := cur.Ann[op.Key]; has {
			cls = "overwrite"
		}
		if op.Val == "" {
			cls = "delete-" + map[bool]string{true: "present", false: "absent"}[cls == "overwrite"]
		}
		return true, ma.SetAnnotation(op.Key, op.Val), cls
	case "config":
		mi, ok := m.(manifest.Imager)
		if !ok {
			return false, nil, ""
		}
		var c *XDesc
		if cur.HasCfg {
			c = &cur.Cfg
		}
		d := applyDesc(c, op)
		if d == nil {
			d = &XDesc{}
		}
		return true, mi.SetConfig(fromX(*d)), op.Base + argDiff(op)
	case "layers":
		mi, ok := m.(manifest.Imager)
		if !ok {
			return false, nil, ""
		}
		return true, mi.SetLayers(fromXs(applyList(cur.Lay, op))), op.Base + argDiff(op)
	case "manifests":
		mi, ok := m.(manifest.Indexer)
		if !ok {
			return false, nil, ""
		}
		return true, mi.SetManifestList(fromXs(applyList(cur.ML, op))), op.Base + argDiff(op)
	case "subject":
		ms, ok := m.(manifest.Subjecter)
		if !ok {
			return false, nil, ""
		}
		d := applyDesc(cur.Subj, op)
		if d == nil {
			return true, ms.SetSubject(nil), "nil"
		}
		rd := fromX(*d)
		return true, ms.SetSubject(&rd), op.Base + argDiff(op)
	case "orig":
		var arg any
		cls := op.OrigFrom
		switch op.OrigFrom {
		case "nil":
			arg = nil
		case "string":
			arg = "not a manifest"
		case "raw":
			b, _ := servedBytes(op.OrigRaw, nil, op.OrigSign)
			o, err := origOf(op.OrigFamily, b)
			if err != nil {
				return false, nil, "undecodable"
			}
			arg = o
			if op.OrigFamily != typeName(cur.MT) {
				cls += "-other-family"
			}
		default:
			fam := op.OrigFamily
			if fam == "" {
				fam = typeName(cur.MT)
			} else if fam != typeName(cur.MT) {
				cls += "-other-family"
			}
			if !cur.IsSet || cur.RawErr {
				return false, nil, "no-current"
			}
			doc := cur.Raw
			if cur.MT != mtDocker1Sig {
				doc = modDoc(doc, op.OrigMod)
				if op.OrigMod != "" {
					cls += "-" + op.OrigMod
				}
			}
			o, err := origOf(fam, doc)
			if err != nil {
				return false, nil, "undecodable"
			}
			arg = o
		}
		if op.OrigPtr && arg != nil {
			p := reflect.New(reflect.TypeOf(arg))
			p.Elem().Set(reflect.ValueOf(arg))
			arg = p.Interface()
			cls += "-pointer"
		}
		return true, m.SetOrig(arg), cls
	}
	return false, nil, ""
}

func argDiff(op Op) string {
	if op.Base != "current" {
		return ""
	}
	if len(op.Edits) == 0 && len(op.Steps) == 0 {
		return "-equal"
	}
	parts := []string{}
	for _, e := range op.Edits {
		parts = append(parts, e.Field)
	}
	for _, s := range op.Steps {
		if s.Kind == "edit" && s.Edit != nil {
			parts = append(parts, s.Edit.Field)
		} else {
			parts = append(parts, s.Kind)
		}
	}
	if len(parts) == 1 {
		return "-one:" + parts[0]
	}
	return "-multi"
}

// checkB evaluates one Part B case.
func checkB(c CaseB, ev *evid.Collector) []*evid.Violation {
	served, _ := servedBytes(c.Raw, nil, c.Info.Sign)
	nm := served
	if c.Family == "schema1-signed" {
		if p, ok, _ := jwsPayload(served); ok {
			nm = p
		}
	}
	classes := []string{"part:B", "b-family:" + c.Family, "b-build:" + c.Build, "b-algo:" + c.Algo, fmt.Sprintf("b-len:%d", len(c.Program))}
	kinds := make([]string, len(c.Program))
	for i, op := range c.Program {
		kinds[i] = op.Kind
	}
	cj, _ := json.Marshal(c)
	m, err, skip := c.build(served, nm)
	var vs []*evid.Violation
	if skip != "" || err != nil || m == nil {
		outcome := "b-build-error"
		if skip != "" {
			outcome = "b-build-skipped:" + skip
		}
		ev.Case(false, "", append(classes, outcome)...)
		if skip == "" && c.Info.Valid && (c.HintMT || c.Info.BodyMT == "present" || c.Build != "raw") {
			vs = append(vs, evid.V("valid-manifest-rejected:build-"+c.Build+":"+c.Family, "building a valid %s manifest (%s, algo %q) failed: %v; body %s", c.Family, c.Build, c.Algo, err, clip(served)))
		}
		return vs
	}
	ev.Case(len(c.Program) >= 2, string(cj), classes...)
	ev.Sample(map[string]any{"family": c.Family, "build": c.Build, "algo": c.Algo, "ops": kinds})

	cur := observe(m)
	tn := typeName(cur.MT)
	if cur.IsSet {
		vs = append(vs, equations(cur, "build-"+c.Build+":"+tn, false, ev)...)
		if a, ok := digestAlg(cur.Digest); ok && c.Algo == "prefer512" && a != "sha512" {
			vs = append(vs, evid.V("construction-ignores-preferred-algorithm:build-"+c.Build+":"+tn, "a sha512 descriptor was preferred (DigestAlgoPrefer) and no digest was supplied, the manifest reports %s", cur.Digest))
		}
		if blocking(vs) {
			return vs
		}
	}
	for i, op := range c.Program {
		if op.Kind == "rebuild" {
			if !cur.IsSet {
				ev.Class("b-op:rebuild:not-offered-or-skipped")
				continue
			}
			desc := m.GetDescriptor()
			desc.Digest = ""
			desc.Data = nil
			_ = desc.DigestAlgoPrefer(digest.Algorithm(op.Key))
			var nm2 manifest.Manifest
			var err error
			if op.Base == "raw" {
				nm2, err = manifest.New(manifest.WithDesc(desc), manifest.WithRaw(append([]byte{}, cur.Raw...)))
			} else {
				nm2, err = manifest.New(manifest.WithDesc(desc), manifest.WithOrig(m.GetOrig()))
			}
			tag := "rebuild-" + op.Base + ":" + tn
			if err != nil || nm2 == nil {
				vs = append(vs, evid.V("valid-manifest-rejected:"+tag, "step %d: re-creating the manifest from its own descriptor (digest cleared, %s preferred) and its %s failed: %v", i, op.Key, op.Base, err))
				return vs
			}
			next := observe(nm2)
			stepVs := equations(next, tag, false, ev)
			if a1, ok := digestAlg(next.Digest); ok && a1 != op.Key {
				stepVs = append(stepVs, evid.V("construction-ignores-preferred-algorithm:"+tag, "step %d: %s was preferred and no digest supplied, the re-created manifest reports %s", i, op.Key, next.Digest))
			}
			if op.Base == "raw" && string(next.Raw) != string(cur.Raw) {
				stepVs = append(stepVs, evid.V("rawbody-not-the-served-bytes:"+tag, "step %d: re-created from RawBody() but RawBody() differs afterwards", i))
			}
			ev.Class("b-op:rebuild:" + op.Base + ":" + op.Key)
			vs = append(vs, stepVs...)
			if blocking(stepVs) {
				return vs
			}
			m, cur = nm2, next
			continue
		}
		called, err, argClass := exec(m, cur, op)
		tag := op.Kind + ":" + tn
		if !called {
			ev.Class("b-op:" + op.Kind + ":not-offered-or-skipped")
			// nothing was called; nothing may have changed
			continue
		}
		next := observe(m)
		if err != nil {
			ev.Class("b-op:" + op.Kind + ":error")
			if same, what := sameSnap(cur, next); !same {
				vs = append(vs, evid.V("failed-setter-changed-state:"+tag, "step %d: %s(%s) returned %v but %s changed", i, op.Kind, argClass, err, what))
				return vs
			}
			continue
		}
		ev.Class("b-op:" + op.Kind + ":" + argClass)
		if !next.IsSet {
			vs = append(vs, evid.V("setter-left-manifest-unset:"+tag, "step %d: %s returned nil but IsSet()=false", i, op.Kind))
			return vs
		}
		stepVs := equations(next, tag, false, ev)
		// the digest algorithm chosen at construction survives every edit
		if a0, ok0 := digestAlg(cur.Digest); ok0 {
			if a1, ok1 := digestAlg(next.Digest); ok1 && a0 != a1 {
				stepVs = append(stepVs, evid.V("edit-changes-digest-algorithm:"+tag, "step %d: descriptor digest was %s before %s and is %s after", i, a0, op.Kind, a1))
			}
		} else if cur.Digest == "" && c.Algo == "prefer512" {
			if a1, ok1 := digestAlg(next.Digest); ok1 && a1 != "sha512" {
				stepVs = append(stepVs, evid.V("edit-ignores-preferred-algorithm:"+tag, "step %d: a sha512 descriptor was preferred at construction, after %s the digest is %s", i, op.Kind, a1))
			}
		}
		for _, v := range stepVs {
			v.Msg = fmt.Sprintf("step %d (%s %s) of %v on a %s manifest built %s/%q: %s", i, op.Kind, argClass, kinds, tn, c.Build, c.Algo, v.Msg)
			if !hasSig(vs, v.Sig) {
				vs = append(vs, v)
			}
		}
		if blocking(stepVs) {
			return vs
		}
		if string(next.Raw) != string(cur.Raw) {
			ev.Class("b-effective-edit")
		}
		cur = next
	}
	return vs
}
