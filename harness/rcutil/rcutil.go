// Package rcutil builds regclient clients wired to a regmodel transport.
package rcutil

import (
	"io"
	"log/slog"
	"os"
	"time"

	"github.com/regclient/regclient"
	"github.com/regclient/regclient/config"
	"github.com/regclient/regclient/scheme/reg"
	rm "github.com/regclient/regclient/zz_verif/regmodel"
)

// Conf selects client settings.
type Conf struct {
	RetryLimit int           // 0 = 3
	DelayInit  time.Duration // 0 = 1ms
	DelayMax   time.Duration // 0 = 10ms
	Hosts      []config.Host // explicit host configs (others get defaults)
	RegOpts    []reg.Opts
	Log        io.Writer // slog output at debug level (nil = discard)
	Opts       []regclient.Opt
}

// New returns a client whose registry traffic goes through the model.
func New(m *rm.Model, c Conf) *regclient.RegClient {
	if c.RetryLimit == 0 {
		c.RetryLimit = 3
	}
	if c.DelayInit == 0 {
		c.DelayInit = time.Millisecond
	}
	if c.DelayMax == 0 {
		c.DelayMax = 10 * time.Millisecond
	}
	ro := []reg.Opts{reg.WithHTTPClient(m.Client()), reg.WithDelay(c.DelayInit, c.DelayMax), reg.WithRetryLimit(c.RetryLimit)}
	ro = append(ro, c.RegOpts...)
	opts := []regclient.Opt{regclient.WithRegOpts(ro...)}
	if c.Log == nil && os.Getenv("VERIF_DEBUG_LOG") != "" {
		c.Log = os.Stderr
	}
	if c.Log != nil {
		opts = append(opts, regclient.WithSlog(slog.New(slog.NewTextHandler(c.Log, &slog.HandlerOptions{Level: slog.LevelDebug - 4}))))
	} else {
		opts = append(opts, regclient.WithSlog(slog.New(slog.NewTextHandler(io.Discard, &slog.HandlerOptions{Level: slog.LevelError + 8}))))
	}
	if len(c.Hosts) > 0 {
		opts = append(opts, regclient.WithConfigHost(c.Hosts...))
	}
	opts = append(opts, c.Opts...)
	return regclient.New(opts...)
}
