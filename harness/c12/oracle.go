package c12

import (
	"fmt"
	"strings"
	"time"

	"github.com/regclient/regclient/zz_verif/evid"
	rm "github.com/regclient/regclient/zz_verif/regmodel"
)

// group is one logical request: the attempts [start,end) of the log.
type group struct {
	start, end int
	read       bool          // GET / HEAD offered to mirrors: clause (5) applies
	called     time.Duration // L1: harness clock when the request was handed to the client (0 = unknown)
	ended      time.Duration // L1: harness clock after the response was closed (0 = unknown)
	taint      bool          // the request's context ended: it may have left a transport error booked on a host without any log entry
}

// analysis options
type logOpts struct {
	sequential bool                    // requests were issued one after the other (clauses 4 and 5 need this)
	backsOff   func(e *rm.Entry) bool  // a failure of this request certainly triggers the back-off (not sent with IgnoreErr)
	groups     []group                 // logical requests (may be empty at L2)
	contin     func(e *rm.Entry) bool  // request sent to a URL taken from a previous response (pagination link)
}

type hostState struct {
	dirty    bool // an earlier response may have left back-off / auth state behind
	// clause (5): a host that failed is "currently backing off" at most until the configured maximum
	// delay (or the server-requested one) after the failure was booked; hard = state that does not expire
	// (answered 401, context ended, cap)
	hard   bool
	expiry time.Duration
	lastFail *rm.Entry
	lastRA   time.Duration // >0: lastFail carried a valid Retry-After (bound already reduced for fractional values)
	// clause (4)
	chain    bool
	chainEnd bool
	d1       time.Duration
	d1e      *rm.Entry
	j        int
	raOn     bool
	raUntil  time.Duration
	raFrom   *rm.Entry
}

func (w *world) raBound(ec entryClass) time.Duration {
	if ec.ra <= 0 {
		return 0
	}
	if ec.raInt {
		return ec.ra
	}
	// a fractional value is not a valid HTTP delay-seconds: a client may either
	// honour it or treat the reply as a plain 429 and use its configured delay
	if ec.ra < w.dInit {
		return ec.ra
	}
	return w.dInit
}

func short(h string) string { return strings.TrimSuffix(h, ".example.test") }

// analyseLog evaluates clauses (4) back-off and (5) mirror order over a
// request log. All bounds are one sided: a slow machine can only make
// arrivals later, which satisfies (4) and disables (5b).
func (w *world) analyseLog(es []*rm.Entry, o logOpts) []*evid.Violation {
	var out []*evid.Violation
	seen := map[string]bool{}
	add := func(v *evid.Violation) {
		if !seen[v.Sig] {
			seen[v.Sig] = true
			out = append(out, v)
		}
	}
	if !o.sequential {
		return nil
	}
	st := map[string]*hostState{}
	get := func(h string) *hostState {
		s, ok := st[h]
		if !ok {
			s = &hostState{}
			st[h] = s
		}
		return s
	}
	gAt := map[int][]group{}
	for _, g := range o.groups {
		gAt[g.start] = append(gAt[g.start], g) // (a request that sent nothing shares its index with the next one)
	}
	timingOff := false // set once a request went to a URL that bypasses per-host accounting
	endedOf := func(i int) time.Duration {
		for _, g := range o.groups {
			if i >= g.start && i < g.end {
				return g.ended
			}
		}
		return 0
	}
	for i, e := range es {
		for _, g := range gAt[i] {
			if g.read && g.end > g.start {
				// lower bound of the moment the client decided the order of this request
				decided := g.called
				if decided == 0 && len(o.groups) > 0 && o.groups[0].ended == 0 && i > 0 {
					decided = es[i-1].Arrive // sequential operation: not before the previous request was sent
				}
				for _, v := range w.checkOrder(es[g.start:g.end], st, timingOff, g.called, decided) {
					add(v)
				}
			}
			if g.taint {
				for _, n := range w.names {
					get(n).dirty = true
					get(n).hard = true
				}
			}
		}
		if _, known := w.spec[e.Host]; !known {
			continue
		}
		if o.contin != nil && o.contin(e) && w.nMirror > 0 && !timingOff {
			// A paged list is continued at the URL of the Link header while the client still walks its
			// list of mirror entries: failures of that URL are booked on whichever entry is current, so
			// from here on the client's idea of "who is backing off" cannot be inferred from the log
			// (clause 5 is skipped) and clause 4 violations are attributed to that mechanism.
			timingOff = true
			for _, n := range w.names {
				get(n).dirty = true
				get(n).hard = true
			}
		}
		s := get(e.Host)
		ec := w.classify(e)
		if ec.kind == "cap" {
			break
		}
		// ---- clause (4): what earlier failures demand of this arrival
		{
			sigRA, sigBO, note := "retry-after-not-honoured", "backoff-delay-not-observed", ""
			if timingOff {
				sigRA, sigBO = "paged-continuation-bypasses-host-backoff", "paged-continuation-bypasses-host-backoff"
				note = " [the list is being continued at a Link URL while mirrors are configured: every mirror entry re-sends the request to the SAME host and books the failure on itself]"
			}
			if s.raOn {
				if e.Arrive < s.raUntil {
					add(evid.V(sigRA, "host %s answered request #%d with %s and Retry-After at %v; the next request to it (#%d) arrived at %v, earlier than the requested delay allows (%v)%s\n%s",
						short(e.Host), s.raFrom.Seq, s.raFrom.Fault, s.raFrom.Done, e.Seq, e.Arrive, s.raUntil, note, dumpLog(es)))
				}
				s.raOn = false
			}
			if s.chain && !s.chainEnd {
				s.j++
				if need := s.d1 + time.Duration(s.j)*w.dInit; e.Arrive < need {
					add(evid.V(sigBO, "host %s failed request #%d (%s) at %v; request #%d is the %d. request to that host since then and arrived at %v, before %v = failure + %d x delayInit(%v)%s\n%s",
						short(e.Host), s.d1e.Seq, s.d1e.Fault, s.d1, e.Seq, s.j, e.Arrive, need, s.j, w.dInit, note, dumpLog(es)))
				}
				// the client lowers its failure counter after more than 5 completed requests (successful
				// ones, and failed ones whose response the caller closes): stop well before that
				if s.j >= 5 {
					s.chainEnd = true
				}
			}
		}
		// ---- when does whatever this answer left behind in the client run out
		switch ec.kind {
		case "ok", "lack", "lack-injected", "noeffect":
		default:
			base := endedOf(i) // L1: booked before the logical request was over (harness clock, like "called")
			if base == 0 {
				base = max(e.Done, e.Arrive)
				if e.Fault == "truncate" {
					s.hard = true // noticed whenever the body is consumed
				}
			}
			hold := w.dMax
			if e.RespHeader != nil {
				if ra, _ := raDuration(e.RespHeader.Get("Retry-After")); ra > hold {
					hold = ra
				}
			}
			if e.Status == 401 || e.Fault == "ctx" || e.Fault == "cap" || e.Fault == "framing" || e.Fault == "no-such-host" {
				s.hard = true
			}
			if base+hold > s.expiry {
				s.expiry = base + hold
			}
		}
		// ---- state update
		switch {
		case ec.kind == "transient" && ec.certain && o.backsOff(e):
			if rb := w.raBound(ec); rb > 0 {
				s.raOn, s.raUntil, s.raFrom = true, e.Done+rb, e
				s.lastRA = rb
			} else {
				s.lastRA = 0
				if !s.dirty && !s.chain {
					s.chain, s.d1, s.d1e, s.j = true, e.Done, e, 0
				}
			}
			s.dirty = true
			s.lastFail = e
		case ec.kind == "ok":
			s.lastFail = nil
		case ec.kind == "lack" || ec.kind == "lack-injected" || ec.kind == "noeffect":
			s.lastFail = nil
		default:
			s.dirty = true
			s.lastFail = nil
		}
	}
	return out
}

// checkOrder evaluates clause (5) for one logical read request that is offered
// to every configured host. Hosts that were never contacted count as "after"
// every contacted one.
func (w *world) checkOrder(lr []*rm.Entry, st map[string]*hostState, timingOff bool, called, decided time.Duration) []*evid.Violation {
	var out []*evid.Violation
	var firsts []string
	pos := map[string]int{}
	for _, e := range lr {
		if _, known := w.spec[e.Host]; !known {
			continue
		}
		if _, ok := pos[e.Host]; !ok {
			pos[e.Host] = len(firsts)
			firsts = append(firsts, e.Host)
		}
	}
	if len(firsts) == 0 || len(w.names) < 2 {
		return nil
	}
	// clean: never failed, or every back-off an earlier answer can have caused had run out (configured
	// maximum delay / Retry-After after the failure) before the order of this request was decided
	clean := func(h string) bool {
		s, ok := st[h]
		if !ok || !s.dirty {
			return true
		}
		return !s.hard && !timingOff && decided > 0 && decided >= s.expiry
	}
	aFirst := lr[0].Arrive
	// the client sorts its hosts again before every attempt of a logical read: what counts for the back-off clause is
	// when a host was actually contacted in this read, not when the read began (a host whose window ran out while
	// another host was being retried may legitimately come next)
	arrOf := map[string]time.Duration{}
	for _, e := range lr {
		if _, ok := arrOf[e.Host]; !ok {
			arrOf[e.Host] = e.Arrive
		}
	}
	desc := func() string {
		p := []string{}
		for _, h := range firsts {
			p = append(p, fmt.Sprintf("%s(prio %d)", short(h), w.prio(h)))
		}
		rest := []string{}
		for _, h := range w.names {
			if _, ok := pos[h]; !ok {
				rest = append(rest, fmt.Sprintf("%s(prio %d)", short(h), w.prio(h)))
			}
		}
		s := strings.Join(p, " -> ")
		if len(rest) > 0 {
			s += " [never contacted: " + strings.Join(rest, ", ") + "]"
		}
		return s
	}
	for i, a := range firsts {
		for _, b := range w.names {
			if pb, ok := pos[b]; b == a || (ok && pb < i) {
				continue
			}
			if lr[0].Method == "HEAD" && w.spec[b].NoHead {
				continue // configured not to receive HEAD requests
			}
			// a was contacted before b (or b never)
			if clean(a) && clean(b) {
				if w.prio(b) > w.prio(a) {
					out = append(out, evid.V("mirror-order-not-descending-priority", "read %s %s: first contacts %s; %s (priority %d) was tried before %s (priority %d) although neither host had failed before",
						lr[0].Method, w.normPath(lr[0]), desc(), short(a), w.prio(a), short(b), w.prio(b)))
				} else if w.prio(b) == w.prio(a) && a == upName {
					out = append(out, evid.V("upstream-before-equal-priority-mirror", "read %s %s: first contacts %s; the named registry was tried before mirror %s of the same priority %d",
						lr[0].Method, w.normPath(lr[0]), desc(), short(b), w.prio(a)))
				}
			}
			// (5b') the very first contact is a host whose server-requested delay (>= 1 s, valid
			// delay-seconds) had most of its time left when the request was handed to the client,
			// while b never failed. The client sleeps before contacting a, so no arrival precedes the
			// end of the window; this verdict therefore assumes that the client decides the order
			// within 3/4 of the delay (>= 750 ms) after being called, and is confirmed by repetition.
			if sa, ok := st[a]; ok && !timingOff && i == 0 && sa.lastFail != nil && sa.lastRA >= time.Second && clean(b) && called > 0 && w.prio(a) >= w.prio(b) {
				if called+sa.lastRA*3/4 < sa.lastFail.Done+sa.lastRA {
					out = append(out, evid.V("retry-after-host-tried-first-while-others-available", "read %s %s: first contacts %s; %s answered request #%d with Retry-After %v at %v; this request was handed to the client at %v (%v of the delay left), "+
						"%s never failed, yet the client waited for %s and contacted it first (arrival %v)",
						lr[0].Method, w.normPath(lr[0]), desc(), short(a), sa.lastFail.Seq, sa.lastRA, sa.lastFail.Done, called, sa.lastFail.Done+sa.lastRA-called, short(b), short(a), aFirst))
				}
			}
			// (5b) a is certainly inside its back-off window when the order was decided, b never failed
			if sa, ok := st[a]; ok && !timingOff && sa.lastFail != nil && clean(b) && i > 0 {
				win := w.dInit
				sig := "backing-off-host-tried-before-available-host"
				if sa.lastRA > 0 {
					win = sa.lastRA
					sig = "retry-after-host-tried-before-available-host"
				}
				if w.prio(a) < w.prio(b) {
					// b also outranks a by priority: while priorities are sorted the wrong way round this
					// order is already explained by that defect; equal / higher priority pairs isolate (5b)
					sig = "mirror-order-not-descending-priority"
				}
				if aFirst < sa.lastFail.Done+win && arrOf[a] < sa.lastFail.Done+win {
					out = append(out, evid.V(sig, "read %s %s: first contacts %s; %s failed request #%d (%s) at %v and has to be backed off from for at least %v, the order of this request was decided before %v (arrival of its first attempt), "+
						"yet %s was tried before %s, which never failed",
						lr[0].Method, w.normPath(lr[0]), desc(), short(a), sa.lastFail.Seq, sa.lastFail.Fault, sa.lastFail.Done, win, aFirst, short(a), short(b)))
				}
			}
		}
	}
	return out
}

// checkWrites evaluates clause (6): every request whose method is not
// GET/HEAD, and every upload-session request, reaches the upstream only.
func (w *world) checkWrites(es []*rm.Entry, writeHost string) *evid.Violation {
	for _, e := range es {
		if e.Host == writeHost || e.Fault == "cap" {
			continue
		}
		if e.Mutating() || strings.HasPrefix(e.Class, "upload-") {
			return evid.V(e.Class+"-sent-to-mirror", "state-changing request #%d %s %s was received by %s; only the registry named in the reference (%s) may receive it\n%s",
				e.Seq, e.Method, e.Path, short(e.Host), short(writeHost), dumpLog(es))
		}
	}
	return nil
}

// patchKey identifies "the same chunk sent to the same upload session": host,
// repository, session id, Content-Range and body. The query string and a
// relocated path suffix are left out because servers may hand out a new state
// token / location with every reply; that is not progress.
func patchKey(e *rm.Entry) string {
	id := e.Ref
	if i := strings.IndexByte(id, '/'); i >= 0 {
		id = id[:i]
	}
	return e.Host + "|" + e.Repo + "|" + id + "|" + e.Header.Get("Content-Range") + "|" + rm.Digest("sha256", e.Body)
}

// checkUploadProgress evaluates the upload part of clause (2): no
// byte-identical PATCH (same URL incl. query, same Content-Range, same body)
// more often than a fixed bound.
func (w *world) checkUploadProgress(es []*rm.Entry) *evid.Violation {
	bound := 12 * (w.limit + 1)
	type rec struct {
		n     int
		first *rm.Entry
		st    map[int]int
		locRg int
	}
	cnt := map[string]*rec{}
	for _, e := range es {
		if e.Class != "upload-patch" || e.Fault == "cap" {
			continue
		}
		k := patchKey(e)
		r, ok := cnt[k]
		if !ok {
			r = &rec{first: e, st: map[int]int{}}
			cnt[k] = r
		}
		r.n++
		r.st[e.Status]++
		if e.RespHeader != nil && e.RespHeader.Get("Location") != "" && e.RespHeader.Get("Range") != "" {
			r.locRg++
		}
	}
	for _, e := range es { // deterministic order: first offending entry in the log
		if e.Class != "upload-patch" {
			continue
		}
		r := cnt[patchKey(e)]
		if r == nil || r.n <= bound || r.first != e {
			continue
		}
		// name the reply that keeps the loop alive
		best, bn := 0, -1
		for s, n := range r.st {
			if n > bn || (n == bn && s < best) {
				best, bn = s, n
			}
		}
		sig := fmt.Sprintf("chunk-patch-%d-repeated-no-progress", best)
		switch {
		case best >= 400 && best < 500 && r.locRg*2 > r.n:
			sig = "chunk-patch-4xx-location-range-no-progress"
		case best == 202 || best == 201:
			sig = "chunk-patch-2xx-range-no-progress"
		case best >= 500:
			sig = "chunk-patch-5xx-repeated-unbounded"
		case best == 0:
			sig = "chunk-patch-transport-error-repeated-unbounded"
		}
		return evid.V(sig, "the same PATCH (session %s?%s, Content-Range %q, identical body) was sent %d times (bound %d); replies by status %v: the upload session repeats a request without making progress\n%s",
			e.Path, e.RawQuery, e.Header.Get("Content-Range"), r.n, bound, r.st, dumpLog(es[:min(len(es), 40)]))
	}
	return nil
}
