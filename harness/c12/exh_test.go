package c12

import (
	"os"
	"strconv"
	"testing"

	"github.com/regclient/regclient/zz_verif/evid"
)

// exhaustive alphabet: every class of the statement's fault alphabet once
var exhAlphabet = []Letter{
	{K: "ok"}, {K: "st", S: 500}, {K: "st", S: 502}, {K: "st", S: 504}, {K: "st", S: 408}, {K: "st", S: 429}, {K: "st", S: 429, RA: "0.004"},
	{K: "st", S: 503}, {K: "reset"}, {K: "trunc", At: 0}, {K: "trunc", At: 7}, {K: "st", S: 404}, {K: "st", S: 416}, {K: "st", S: 401},
}

func envInt(k string, def int) int {
	if v, err := strconv.Atoi(os.Getenv(k)); err == nil {
		return v
	}
	return def
}

// TestVerifExhaustive enumerates ALL fault words up to length limit+1 over the
// alphabet for one GET (L1) and one upload (L2 BlobPut) at limit 1..2 (quick)
// or 1..3 (thorough).
func TestVerifExhaustive(t *testing.T) {
	ev := evid.For(prop)
	nsh, si := envInt("VERIF_NSHARDS", 1), envInt("VERIF_SHARD_INDEX", 0)
	scale := 1.0
	if v, err := strconv.ParseFloat(os.Getenv("VERIF_SCALE"), 64); err == nil && v > 0 {
		scale = v
	}
	maxLimit := 2
	if evid.Tier() == "thorough" {
		maxLimit = 3
	}
	idx, done, total := 0, 0, 0
	complete := true
	for limit := 1; limit <= maxLimit; limit++ {
		for wl := 0; wl <= limit+1; wl++ {
			n := 1
			for i := 0; i < wl; i++ {
				n *= len(exhAlphabet)
			}
			for code := 0; code < n; code++ {
				for _, kind := range []string{"get", "upload", "delete-then-list"} {
					total++
					idx++
					if idx%nsh != si {
						continue
					}
					if scale < 1 && float64(idx%1000) >= scale*1000 {
						complete = false
						continue
					}
					word := make([]Letter, wl)
					x := code
					for i := 0; i < wl; i++ {
						word[i] = exhAlphabet[x%len(exhAlphabet)]
						x /= len(exhAlphabet)
					}
					c := Case{Limit: limit, DelayInitMs: 2, DelayMaxMs: 4, Up: HostSpec{Has: "has", Word: word}}
					if kind == "get" {
						c.Layer, c.BlobLen = "L1", 16
						c.Reqs = []L1Req{{Method: "GET", Target: "blob", ExpectLen: true}}
					} else if kind == "upload" {
						c.Layer, c.Op = "L2", "blob-put"
						c.P = L2Params{Size: 16}
					} else {
						// a referrer-aware delete on a registry with the referrers API, then a listing by the same client:
						// every fault word over the delete's own requests (manifest GET, referrers probe, DELETE)
						c.Layer, c.Op = "L2", "manifest-delete"
						c.P = L2Params{Size: 16, Subject: true, NRef: 1, ThenList: true, Feat: FeatSpec{Referrers: true}}
					}
					v, inc := report(c, ev)
					if inc != "" {
						t.Fatalf("INCONCLUSIVE: %s", inc)
					}
					if v != nil {
						t.Fatalf("%v", v)
					}
					done++
				}
			}
		}
	}
	ev.Add("exhaustive_cases", done)
	ev.Set("exhaustive_words", complete)
	if si == 0 { // numeric extras are summed over shards by the driver
		ev.Set("exhaustive_max_limit", maxLimit)
		ev.Set("exhaustive_alphabet", len(exhAlphabet))
	}
	t.Logf("exhaustive: %d of %d cases in this shard", done, total)
}
