package c12

import (
	"bytes"
	"context"
	"fmt"
	"io"
	"net/http"
	"time"

	"github.com/regclient/regclient/config"
	"github.com/regclient/regclient/internal/reghttp"
	"github.com/regclient/regclient/internal/reqmeta"
	"github.com/regclient/regclient/zz_verif/evid"
	rm "github.com/regclient/regclient/zz_verif/regmodel"
)

// L1Req is one logical request issued through internal/reghttp.
type L1Req struct {
	Method    string `json:"method"` // GET | HEAD | DELETE | PUT
	Target    string `json:"target"` // blob | manifest | missing
	NoMirrors bool   `json:"no_mirrors,omitempty"`
	IgnoreErr bool   `json:"ignore_err,omitempty"`
	ExpectLen bool   `json:"expect_len,omitempty"` // blob GET: pass the known length
	Partial   bool   `json:"partial,omitempty"`    // read only the first byte, then Close
	GapMs     int    `json:"gap_ms,omitempty"`     // pause before the request
	Ctx       string `json:"ctx,omitempty"`        // "" live | cancelled (before the call) | cancel-at (CtxK-th request of this logical request) | deadline (CtxK ms)
	CtxK      int    `json:"ctx_k,omitempty"`
}

// Case is the unit that is generated, saved and replayed.
type Case struct {
	Layer       string     `json:"layer"` // L1 | L2
	Limit       int        `json:"limit"`
	DelayInitMs int        `json:"delay_init_ms"`
	DelayMaxMs  int        `json:"delay_max_ms"` // 0 = leave unset (30 x init)
	Creds       bool       `json:"creds,omitempty"`
	RepoAuth    bool       `json:"repo_auth,omitempty"`
	Alias       string     `json:"alias,omitempty"`      // "" | names | dockerhub: configured Name differs from Hostname
	DupMirror   bool       `json:"dup_mirror,omitempty"` // the first mirror is listed twice
	Slots       int        `json:"slots,omitempty"`      // reqConcurrent (0 = 8 at L1, 100 at L2; 3 is the library default)
	ReqPerSec   int        `json:"req_per_sec,omitempty"`
	Defaults    bool       `json:"defaults,omitempty"` // L1: no WithRetryLimit / WithDelay (what every CLI does): limit 5, 100 ms, 30 s
	Up          HostSpec   `json:"up"`
	Mirrors     []HostSpec `json:"mirrors,omitempty"`
	// L1
	BlobLen int     `json:"blob_len,omitempty"`
	Reqs    []L1Req `json:"reqs,omitempty"`
	// L2
	Op          string       `json:"op,omitempty"`
	P           L2Params     `json:"p,omitempty"`
	ClassFaults []ClassFault `json:"class_faults,omitempty"`
}

func (c Case) delays() (time.Duration, time.Duration) {
	return time.Duration(c.DelayInitMs) * time.Millisecond, time.Duration(c.DelayMaxMs) * time.Millisecond
}

func detBytes(n, salt int) []byte {
	b := make([]byte, n)
	x := uint32(salt*2654435761 + 12345)
	for i := range b {
		x = x*1664525 + 1013904223
		b[i] = byte(x >> 24)
	}
	return b
}

const l1Manifest = `{"schemaVersion":2,"mediaType":"application/vnd.oci.image.manifest.v1+json","config":{"mediaType":"application/vnd.oci.image.config.v1+json","digest":"sha256:44136fa355b3678a1146ad16f7e8649e94fb4fc21fe77e8310c060f61caaff8a","size":2},"layers":[]}`
const l1Manifest2 = `{"schemaVersion":2,"mediaType":"application/vnd.oci.image.manifest.v1+json","config":{"mediaType":"application/vnd.oci.image.config.v1+json","digest":"sha256:44136fa355b3678a1146ad16f7e8649e94fb4fc21fe77e8310c060f61caaff8a","size":2},"layers":[],"annotations":{"n":"2"}}`

// l1Slots is the per-host concurrency limit used at L1 (more than one logical
// request can ever take, so a leaked slot cannot dead-lock the case itself).
const l1Slots = 8

type l1LR struct {
	req        L1Req
	start, end int
	called     time.Duration // harness clock (starts just after the model's) when Do was called
	ended      time.Duration // harness clock after the response was closed
	err        error
	status     int
	body       []byte
	readErr    error
	// model facts taken just before the request
	anyHas   bool
	hasHosts map[string]bool
	expected []byte
}

func newWorld(c Case) *world {
	w := &world{m: rm.New(), t0: time.Now(), spec: map[string]HostSpec{}, host: map[string]*rm.Host{}, blobLen: map[string]int{}, extSpec: map[string]HostSpec{}, limit: c.Limit, nMirror: len(c.Mirrors), dupFirst: c.DupMirror}
	w.dInit, w.dMax = c.delays()
	switch {
	case c.Defaults:
		w.dMax = 30 * time.Second
	case w.dMax == 0:
		w.dMax = 30 * w.dInit // WithDelay: unset = 30 x delayInit (rcutil passes 10 ms instead)
	case w.dMax < w.dInit:
		w.dMax = w.dInit
	}
	for i, ms := range c.Mirrors {
		n := mirrorName(i)
		w.names = append(w.names, n)
		w.spec[n] = ms
		w.host[n] = w.m.AddHost(n)
	}
	w.names = append(w.names, upName)
	w.spec[upName] = c.Up
	w.host[upName] = w.m.AddHost(upName)
	return w
}

// slackSigs are verdicts that rest on an upper bound of the client's reaction
// time (see checkOrder): they are only reported when three independent
// executions of the case agree.
var slackSigs = map[string]bool{"retry-after-host-tried-first-while-others-available": true}

// runL1 executes an L1 case (and repeats it to confirm a slack based verdict).
func runL1(c Case, ev *evid.Collector) (vs []*evid.Violation, inconclusive string) {
	vs, inconclusive = runL1Once(c, ev)
	for _, v := range vs {
		if !slackSigs[v.Sig] {
			continue
		}
		for k := 0; k < 2; k++ {
			again, inc := runL1Once(c, nil)
			if inc != "" {
				return nil, inc
			}
			found := false
			for _, x := range again {
				if x.Sig == v.Sig {
					found = true
				}
			}
			if !found {
				// not confirmed: drop the slack based verdict
				keep := vs[:0]
				for _, x := range vs {
					if x.Sig != v.Sig {
						keep = append(keep, x)
					}
				}
				return keep, ""
			}
		}
	}
	return vs, inconclusive
}

func runL1Once(c Case, ev *evid.Collector) (vs []*evid.Violation, inconclusive string) {
	w := newWorld(c)
	w.m.Cap = 300
	blob := detBytes(c.BlobLen, 1)
	blobDig := rm.Digest("sha256", blob)
	w.blobLen[blobDig] = len(blob)
	missDig := rm.Digest("sha256", []byte("c12-missing"))
	man := []byte(l1Manifest)
	for _, n := range w.names {
		if w.spec[n].Has == "has" {
			r := w.host[n].Repo(w.repoOn(n, repoSrc))
			r.Blobs[blobDig] = blob
			d := rm.ManifestDigest("sha256", rm.MTOCIManifest, man)
			r.Manifests[d] = &rm.Manifest{MediaType: rm.MTOCIManifest, Body: man}
			r.Tags["v1"] = d
		}
	}
	w.installFaults()

	hosts := configHosts(c, l1Slots)
	slots := l1Slots
	if c.Slots > 0 {
		slots = c.Slots
	}
	dI, dM := c.delays()
	copts := []reghttp.Opts{reghttp.WithHTTPClient(w.m.Client())}
	if !c.Defaults {
		// (every CLI of the repository builds its client WITHOUT these two options)
		copts = append(copts, reghttp.WithRetryLimit(c.Limit), reghttp.WithDelay(dI, dM))
	}
	cl := reghttp.NewClient(append(copts,
		reghttp.WithConfigHostFn(func(name string) *config.Host {
			if h, ok := hosts[name]; ok {
				return h
			}
			h := config.HostNewName(name)
			hosts[name] = h
			return h
		}))...,
	)
	ctx, cancel := context.WithTimeout(context.Background(), 240*time.Second)
	defer cancel()

	var lrs []*l1LR
	var slotLeak *evid.Violation
	for _, rq := range c.Reqs {
		if rq.GapMs > 0 {
			time.Sleep(time.Duration(rq.GapMs) * time.Millisecond)
		}
		lr := &l1LR{req: rq, hasHosts: map[string]bool{}}
		req := &reghttp.Req{MetaKind: reqmeta.Query, Host: c.cname(upName), Method: rq.Method, Repository: repoSrc, NoMirrors: rq.NoMirrors, IgnoreErr: rq.IgnoreErr}
		// what the eligible hosts hold right now (raw model state)
		eligible := w.names
		if rq.NoMirrors {
			eligible = []string{upName}
		}
		w.m.Lock()
		switch rq.Target {
		case "blob":
			req.Path = "blobs/" + blobDig
			lr.expected = blob
			for _, n := range eligible {
				if r, ok := w.host[n].Repos[w.repoOn(n, repoSrc)]; ok {
					if _, ok := r.Blobs[blobDig]; ok {
						lr.anyHas = true
						lr.hasHosts[n] = true
					}
				}
			}
		case "manifest":
			req.Path = "manifests/v1"
			req.Headers = http.Header{"Accept": {rm.MTOCIManifest}}
			lr.expected = man
			for _, n := range eligible {
				if r, ok := w.host[n].Repos[w.repoOn(n, repoSrc)]; ok {
					if _, ok := r.Tags["v1"]; ok {
						lr.anyHas = true
						lr.hasHosts[n] = true
					}
				}
			}
		default:
			req.Path = "blobs/" + missDig
		}
		w.m.Unlock()
		switch rq.Method {
		case "GET":
			if rq.Target == "blob" && rq.ExpectLen {
				req.ExpectLen = int64(len(blob))
			}
		case "DELETE":
			if rq.Target == "manifest" {
				// delete by digest
				req.Path = "manifests/" + rm.ManifestDigest("sha256", rm.MTOCIManifest, man)
			}
		case "PUT":
			body := []byte(l1Manifest2)
			req.Path = "manifests/v2"
			req.Headers = http.Header{"Content-Type": {rm.MTOCIManifest}}
			req.BodyBytes = body
			req.BodyLen = int64(len(body))
			lr.anyHas = true
			lr.expected = nil
			for _, n := range eligible {
				lr.hasHosts[n] = true
			}
		}
		lr.start = w.m.Requests()
		lr.called = time.Since(w.t0)
		// context state of this logical request
		rctx, rcancel := context.WithCancel(ctx)
		switch rq.Ctx {
		case "cancelled":
			rcancel()
		case "deadline":
			rcancel()
			rctx, rcancel = context.WithTimeout(ctx, time.Duration(max(rq.CtxK, 1))*time.Millisecond)
		case "cancel-at":
			st, k, cf := lr.start, max(rq.CtxK, 1), rcancel
			w.m.OnArrive = func(e *rm.Entry) {
				if e.Seq-st+1 >= k {
					cf()
				}
			}
		}
		resp, err := cl.Do(rctx, req)
		lr.err = err
		if err == nil {
			lr.status = resp.HTTPResponse().StatusCode
			if rq.Partial {
				one := make([]byte, 1)
				n, _ := resp.Read(one)
				lr.body = one[:n]
			} else {
				lr.body, lr.readErr = io.ReadAll(resp)
			}
		}
		if resp != nil && resp.HTTPResponse() != nil {
			_ = resp.Close()
		}
		rcancel()
		w.m.OnArrive = nil
		lr.end = w.m.Requests()
		lr.ended = time.Since(w.t0)
		lrs = append(lrs, lr)
		// state predicate behind "every operation terminates": once a logical request is
		// finished and closed, every per-host concurrency slot it took is free again
		for _, n := range w.names {
			q := cl.GetThrottle(c.cname(n))
			var rel []func()
			for k := 0; k < slots; k++ {
				fn, _ := q.TryAcquire(context.Background(), reqmeta.Data{Kind: reqmeta.Query})
				if fn == nil {
					break
				}
				rel = append(rel, fn)
			}
			for _, fn := range rel {
				fn()
			}
			if len(rel) < slots && slotLeak == nil {
				sig := "throttle-slot-leaked"
				for _, e := range w.m.Entries()[lr.start:lr.end] {
					if e.Fault == "truncate" {
						sig = "throttle-slot-leaked-after-short-read-retry"
					}
				}
				slotLeak = evid.V(sig, "after logical request %d (%s %s) had completed and was closed, host %s has only %d of its %d concurrency slots free: "+
					"a slot taken for this request was never released (with the default of 3 slots per host the 4th request would wait forever)\n%s",
					len(lrs)-1, rq.Method, rq.Target, short(n), len(rel), slots, dumpLog(w.m.Entries()[lr.start:lr.end]))
			}
		}
		if slotLeak != nil {
			break
		}
		if ctx.Err() != nil {
			return nil, "watchdog: L1 case exceeded 240 s: " + caseJSON(c)
		}
	}
	es := w.m.Entries()

	// ---- evidence
	hit := 0
	hitLetters := map[string]bool{}
	for _, e := range es {
		if e.Fault != "" && e.Fault != "cap" {
			hit++
			hitLetters[e.Fault] = true
		}
	}
	classes := []string{"layer:L1", fmt.Sprintf("limit:%d", c.Limit), fmt.Sprintf("mirrors:%d", min(len(c.Mirrors), 4)), fmt.Sprintf("lrs:%d", len(c.Reqs))}
	classes = append(classes, dimClasses(c)...)
	for f := range hitLetters {
		classes = append(classes, "hit:"+f)
	}
	if hit == 0 {
		classes = append(classes, "hit:none")
	}
	tie := false
	for i, a := range w.names {
		for _, b := range w.names[i+1:] {
			if w.prio(a) == w.prio(b) {
				tie = true
			}
		}
	}
	if tie && len(c.Mirrors) > 0 {
		classes = append(classes, "topology:priority-tie")
	}
	for _, n := range w.names {
		s := w.spec[n]
		if n != upName {
			classes = append(classes, "mirror:"+s.Has)
		}
		if s.Tail != nil {
			classes = append(classes, "tail:"+s.Tail.String())
		}
	}
	key := "L1"
	for _, rq := range c.Reqs {
		key += fmt.Sprintf("|%s %s nm%v ie%v", rq.Method, rq.Target, rq.NoMirrors, rq.IgnoreErr)
		classes = append(classes, "l1req:"+rq.Method)
	}
	for i, n := range w.names {
		s := w.spec[n]
		key += fmt.Sprintf("|h%d p%d %s %s", i, s.Prio, s.Has, wordString(s.Word, s.Tail))
	}
	key += fmt.Sprintf("|lim%d", c.Limit)
	if ev != nil {
		ev.Case(hit > 0 || len(c.Mirrors) > 0, key, classes...)
		ev.Sample(c)
	}

	// ---- oracles
	add := func(v *evid.Violation) {
		if v != nil {
			vs = append(vs, v)
		}
	}
	add(slotLeak)
	// (2) termination by count
	if w.m.CapHit() {
		add(evid.V("request-cap-exceeded", "the %d logical requests of the case issued more than %d HTTP requests\n%s", len(c.Reqs), w.m.Cap, dumpLog(es[:40])))
		return vs, ""
	}
	lrOf := func(e *rm.Entry) *l1LR {
		for _, lr := range lrs {
			if e.Seq >= lr.start && e.Seq < lr.end {
				return lr
			}
		}
		return nil
	}
	// (1) attempts per logical request
	for i, lr := range lrs {
		if n := lr.end - lr.start; n > c.Limit+1 {
			add(evid.V("attempts-exceed-retry-limit", "logical request %d (%s %s, NoMirrors=%v, IgnoreErr=%v) was attempted %d times with retry limit %d (at most %d allowed)\n%s",
				i, lr.req.Method, lr.req.Target, lr.req.NoMirrors, lr.req.IgnoreErr, n, c.Limit, c.Limit+1, dumpLog(es[lr.start:lr.end])))
			break
		}
	}
	// NoMirrors honoured by the transport layer itself
	for i, lr := range lrs {
		if !lr.req.NoMirrors {
			continue
		}
		for _, e := range es[lr.start:lr.end] {
			if e.Host != upName {
				add(evid.V("nomirrors-request-sent-to-mirror", "logical request %d (%s, NoMirrors) reached %s\n%s", i, lr.req.Method, short(e.Host), dumpLog(es[lr.start:lr.end])))
				break
			}
		}
	}
	// (4) + (5)
	var groups []group
	for _, lr := range lrs {
		groups = append(groups, group{start: lr.start, end: lr.end, called: lr.called, ended: lr.ended, taint: lr.req.Ctx != "", read: (lr.req.Method == "GET" || lr.req.Method == "HEAD") && !lr.req.NoMirrors})
	}
	for _, v := range w.analyseLog(es, logOpts{sequential: true, groups: groups, backsOff: func(e *rm.Entry) bool {
		lr := lrOf(e)
		// a body cut behind the part the caller reads is never noticed by the client
		return lr != nil && !lr.req.IgnoreErr && !(lr.req.Partial && e.Fault == "truncate")
	}}) {
		add(v)
	}
	// (3) absorption + (5) fall-back until the content is found
	fCase := 0
	spoiled := false // a non-transient fault was delivered: later results are unconstrained
	for i, lr := range lrs {
		fLR := 0
		for _, e := range es[lr.start:lr.end] {
			switch ec := w.classify(e); ec.kind {
			case "transient":
				fCase++
				fLR++
			case "lack-injected":
				// an injected 404 / 416 means "this host lacks it" for this request
				delete(lr.hasHosts, e.Host)
			case "other", "nat-err", "cap":
				if ec.kind == "nat-err" && lr.req.Target == "missing" {
					continue
				}
				spoiled = true
			}
		}
		if rq := lr.req; rq.Ctx != "" {
			// a request whose context ends is allowed to fail, and what it leaves behind in the
			// client (a transport error booked on a host) is not a delivered fault of the alphabet
			if rq.Ctx == "cancelled" && lr.err == nil {
				add(evid.V("cancelled-context-request-succeeded", "logical request %d (%s %s) was called with an already cancelled context and returned no error (status %d, %d requests sent)", i, rq.Method, rq.Target, lr.status, lr.end-lr.start))
			}
			spoiled = true
		}
		if spoiled {
			break
		}
		n := lr.end - lr.start
		if lr.req.Method == "HEAD" {
			// a host with disableHead costs an attempt without a request, and cannot serve a HEAD
			n += w.noHeadHosts()
			for _, h := range w.names {
				if w.spec[h].NoHead {
					delete(lr.hasHosts, h)
				}
			}
		}
		ok := lr.err == nil && lr.status >= 200 && lr.status < 300 && lr.readErr == nil
		if !lr.anyHas || lr.req.Target == "missing" {
			if ok && lr.req.Method != "PUT" {
				add(evid.V("success-without-content", "logical request %d (%s %s) succeeded with status %d although no eligible host holds the content\n%s", i, lr.req.Method, lr.req.Target, lr.status, dumpLog(es[lr.start:lr.end])))
			}
			continue
		}
		if len(lr.hasHosts) == 0 {
			continue
		}
		if lr.req.IgnoreErr && fLR > 0 {
			continue // requests sent with "ignore errors" are not retried by design
		}
		if fCase >= c.Limit {
			continue // (3) is stated for fewer faults than the limit
		}
		if !ok {
			if n >= c.Limit+1 {
				continue // the attempt budget of clause (1) was used up by lacking mirrors and faults
			}
			add(evid.V("transient-faults-below-limit-not-absorbed", "logical request %d (%s %s, NoMirrors=%v): %d transient faults so far (limit %d), %d attempts made (budget %d), a configured host holds the content, yet the request failed: err=%v status=%d readErr=%v\n%s",
				i, lr.req.Method, lr.req.Target, lr.req.NoMirrors, fCase, c.Limit, n, c.Limit+1, lr.err, lr.status, lr.readErr, dumpLog(es[:lr.end])))
			continue
		}
		if lr.req.Method == "GET" && !lr.req.Partial && !bytes.Equal(lr.body, lr.expected) {
			add(evid.V("read-result-differs-from-content", "logical request %d (GET %s) returned %d bytes that differ from the stored content (%d bytes) after %d transient faults\n%s",
				i, lr.req.Target, len(lr.body), len(lr.expected), fCase, dumpLog(es[lr.start:lr.end])))
		}
	}
	return vs, ""
}
