package c12

import (
	"bytes"
	"context"
	"crypto/sha256"
	"encoding/hex"
	"fmt"
	"io"
	"os"
	"runtime/debug"
	"sort"
	"strings"
	"sync"
	"time"

	"github.com/opencontainers/go-digest"

	"github.com/regclient/regclient"
	"github.com/regclient/regclient/config"
	"github.com/regclient/regclient/scheme"
	"github.com/regclient/regclient/scheme/reg"
	"github.com/regclient/regclient/types/descriptor"
	"github.com/regclient/regclient/types/manifest"
	"github.com/regclient/regclient/types/platform"
	"github.com/regclient/regclient/types/ref"
	"github.com/regclient/regclient/zz_verif/evid"
	"github.com/regclient/regclient/zz_verif/rcutil"
	rm "github.com/regclient/regclient/zz_verif/regmodel"
)

// FeatSpec is the registry behaviour set of the upstream (read related parts
// are shared by the mirrors).
type FeatSpec struct {
	LocStyle      int   `json:"loc_style,omitempty"` // 0..4
	ChunkMin      int   `json:"chunk_min,omitempty"`
	PatchAccept   []int `json:"patch_accept,omitempty"`
	PartialMode   int   `json:"partial_mode,omitempty"`
	RefuseMono    bool  `json:"refuse_mono,omitempty"`
	Early201      bool  `json:"early201,omitempty"`
	TagDelete     bool  `json:"tag_delete,omitempty"`
	Referrers     bool  `json:"referrers,omitempty"`
	ReferrersPage int   `json:"referrers_page,omitempty"`
	TagPage       int   `json:"tag_page,omitempty"`
	MountGrant    bool  `json:"mount_grant,omitempty"`
	AnonMount     int   `json:"anon_mount,omitempty"`
}

// L2Params parametrises the operation of an L2 case.
type L2Params struct {
	Size     int      `json:"size,omitempty"`    // size of the blob that is read / written
	Chunk    int      `json:"chunk,omitempty"`   // reg.WithBlobSize chunk size (0 = default)
	MaxPut   int      `json:"max_put,omitempty"` // reg.WithBlobSize max (0 = default: monolithic PUT allowed)
	NoDesc   bool     `json:"no_desc,omitempty"` // BlobPut without a descriptor (streams in chunks)
	Feat     FeatSpec `json:"feat"`
	NTags    int      `json:"ntags,omitempty"`
	TagLimit int      `json:"tag_limit,omitempty"`
	ByDigest bool     `json:"by_digest,omitempty"`
	Subject  bool     `json:"subject,omitempty"`
	// manifest-delete of a manifest with a subject: afterwards the same client lists the referrers of that subject and
	// the listing becomes part of the result (what the client remembered from the delete's own referrers requests must
	// not change a later answer)
	ThenList bool `json:"then_list,omitempty"`
	NRef     int      `json:"nref,omitempty"`
	Index    bool     `json:"index,omitempty"`
	Cross    string   `json:"cross,omitempty"` // image-copy: same | from-other | to-other
	// dimensions the CLIs / library options reach
	CancelAt      int    `json:"cancel_at,omitempty"`      // the context is cancelled when the k-th request arrives (0 = live context)
	Cache         bool   `json:"cache,omitempty"`          // reg.WithCache (regctl always, regsync by default)
	HostChunk     bool   `json:"host_chunk,omitempty"`     // chunk / max given as host settings (blobChunk, blobMax) instead of reg.WithBlobSize
	BlobLimit     int    `json:"blob_limit,omitempty"`     // reg.WithBlobLimit
	Sha512        bool   `json:"sha512,omitempty"`         // blob get/head/put addressed by a sha512 digest
	Platform      bool   `json:"platform,omitempty"`       // manifest get/head with WithManifestPlatform (index -> image: two logical requests)
	RequireDigest bool   `json:"require_digest,omitempty"` // manifest head WithManifestRequireDigest against a registry whose HEAD carries no digest
	ByTag         bool   `json:"by_tag,omitempty"`         // referrer list of a tag reference (resolved by a HEAD first)
	ArtifactType  bool   `json:"artifact_type,omitempty"`  // referrer list filtered by artifactType
	RepoLimit     int    `json:"repo_limit,omitempty"`
	Last          string `json:"last,omitempty"` // WithTagLast / WithRepoLast
	// blob get / head of a foreign layer: the descriptor carries URLs, registry and mirrors lack the blob
	ExtURLs  int        `json:"ext_urls,omitempty"`  // number of URLs in the descriptor (0 = ordinary blob)
	ExtDead  string     `json:"ext_dead,omitempty"`  // with 2 URLs the first one is dead: 404 (file gone) | nohost (name does not resolve)
	ExtHosts []HostSpec `json:"ext_hosts,omitempty"` // fault words of the external hosts (only Word / Tail are used)
}

func extName(i int) string { return fmt.Sprintf("ext%d.example.test", i+1) }

const extPath = "/layers/foreign.bin"

// (ordered so that rapid's preference for early elements favours the operations with many requests)
var l2Ops = []string{
	"image-copy", "tag-delete", "blob-put-chunked", "manifest-delete", "manifest-put", "blob-copy", "referrer-list", "tag-list",
	"blob-put", "blob-get", "manifest-get", "blob-delete", "blob-mount", "manifest-head", "blob-head", "repo-list", "ping",
}

const (
	mtArtifact = "application/vnd.example.c12.sbom"
	cfgJSON    = `{"architecture":"amd64","os":"linux","config":{},"rootfs":{"type":"layers","diff_ids":[]}}`
	cfg2JSON   = `{"architecture":"arm64","os":"linux","config":{},"rootfs":{"type":"layers","diff_ids":[]}}`
)

func dig(b []byte) string { return rm.Digest("sha256", b) }

func imageManifest(cfg []byte, layers [][]byte, note string) []byte {
	var sb strings.Builder
	fmt.Fprintf(&sb, `{"schemaVersion":2,"mediaType":%q,"config":{"mediaType":%q,"digest":%q,"size":%d},"layers":[`, rm.MTOCIManifest, rm.MTOCIConfig, dig(cfg), len(cfg))
	for i, l := range layers {
		if i > 0 {
			sb.WriteString(",")
		}
		fmt.Fprintf(&sb, `{"mediaType":%q,"digest":%q,"size":%d}`, rm.MTOCILayer, dig(l), len(l))
	}
	fmt.Fprintf(&sb, `],"annotations":{"c12.note":%q}}`, note)
	return []byte(sb.String())
}

func artifactManifest(subject []byte, note string) []byte {
	return []byte(fmt.Sprintf(`{"schemaVersion":2,"mediaType":%q,"artifactType":%q,"config":{"mediaType":%q,"digest":%q,"size":2},"layers":[],"subject":{"mediaType":%q,"digest":%q,"size":%d},"annotations":{"c12.note":%q}}`,
		rm.MTOCIManifest, mtArtifact, rm.MTOCIEmpty, dig([]byte("{}")), rm.MTOCIManifest, dig(subject), len(subject), note))
}

func indexManifest(children [][]byte, arch []string) []byte {
	var sb strings.Builder
	fmt.Fprintf(&sb, `{"schemaVersion":2,"mediaType":%q,"manifests":[`, rm.MTOCIIndex)
	for i, c := range children {
		if i > 0 {
			sb.WriteString(",")
		}
		fmt.Fprintf(&sb, `{"mediaType":%q,"digest":%q,"size":%d,"platform":{"architecture":%q,"os":"linux"}}`, rm.MTOCIManifest, dig(c), len(c), arch[i])
	}
	sb.WriteString(`]}`)
	return []byte(sb.String())
}

func fallbackIndex(refs [][]byte) []byte {
	var sb strings.Builder
	fmt.Fprintf(&sb, `{"schemaVersion":2,"mediaType":%q,"manifests":[`, rm.MTOCIIndex)
	for i, r := range refs {
		if i > 0 {
			sb.WriteString(",")
		}
		fmt.Fprintf(&sb, `{"mediaType":%q,"digest":%q,"size":%d,"artifactType":%q}`, rm.MTOCIManifest, dig(r), len(r), mtArtifact)
	}
	sb.WriteString(`]}`)
	return []byte(sb.String())
}

// content is everything an L2 world is populated with.
type content struct {
	cfg, cfg2, layer1, layer2, empty, newBlob []byte
	foreign                                   []byte // served by external hosts only
	m1, m2, idx, mOld, mNew                   []byte
	refs                                      [][]byte
	rootDig                                   string // what tag v1 points at
	tags                                      []string
}

func makeContent(p L2Params) *content {
	ct := &content{cfg: []byte(cfgJSON), cfg2: []byte(cfg2JSON), layer1: detBytes(p.Size, 2), layer2: detBytes(17, 3), empty: []byte("{}"), newBlob: detBytes(p.Size, 9)}
	ct.foreign = detBytes(max(p.Size, 1), 11)
	ct.m1 = imageManifest(ct.cfg, [][]byte{ct.layer1, ct.layer2}, "m1")
	ct.m2 = imageManifest(ct.cfg2, [][]byte{ct.layer2}, "m2")
	ct.idx = indexManifest([][]byte{ct.m1, ct.m2}, []string{"amd64", "arm64"})
	ct.mOld = imageManifest(ct.cfg, [][]byte{ct.layer2}, "old")
	ct.mNew = imageManifest(ct.cfg, [][]byte{ct.layer2}, "new")
	if p.Subject {
		ct.mOld = artifactManifest(ct.m1, "old")
		ct.mNew = artifactManifest(ct.m1, "new")
	}
	for i := 0; i < p.NRef; i++ {
		ct.refs = append(ct.refs, artifactManifest(ct.m1, fmt.Sprintf("ref%d", i)))
	}
	ct.rootDig = dig(ct.m1)
	if p.Index {
		ct.rootDig = dig(ct.idx)
	}
	return ct
}

func putManifest(r *rm.Repo, body []byte, mt string) string {
	d := rm.ManifestDigest("sha256", mt, body)
	r.Manifests[d] = &rm.Manifest{MediaType: mt, Body: body}
	return d
}

// populate fills repoSrc of a host with the case content.
func (ct *content) populate(h *rm.Host, repo string, p L2Params, op string) {
	r := h.Repo(repo)
	for _, b := range [][]byte{ct.cfg, ct.cfg2, ct.layer1, ct.layer2, ct.empty} {
		r.Blobs[dig(b)] = b
	}
	r.Blobs[rm.Digest("sha512", ct.layer1)] = ct.layer1
	putManifest(r, ct.m1, rm.MTOCIManifest)
	r.Tags["m1"] = dig(ct.m1)
	if p.Index {
		putManifest(r, ct.m2, rm.MTOCIManifest)
		putManifest(r, ct.idx, rm.MTOCIIndex)
	}
	r.Tags["v1"] = ct.rootDig
	for i := 0; i < p.NTags; i++ {
		r.Tags[fmt.Sprintf("t%02d", i)] = dig(ct.m1)
	}
	refs := append([][]byte{}, ct.refs...)
	if op == "manifest-delete" || op == "tag-delete" {
		putManifest(r, ct.mOld, rm.MTOCIManifest)
		r.Tags["old"] = dig(ct.mOld)
		if p.Subject {
			refs = append(refs, ct.mOld)
		}
	}
	for _, rf := range refs {
		putManifest(r, rf, rm.MTOCIManifest)
	}
	if !p.Feat.Referrers && len(refs) > 0 {
		fb := fallbackIndex(refs)
		putManifest(r, fb, rm.MTOCIIndex)
		r.Tags[strings.Replace(dig(ct.m1), ":", "-", 1)] = dig(fb)
	}
}

type l2Result struct {
	panicked string
	core     string // state without what exists only for the referrers of the subject
	err     error
	out     string
	state   string
	timeout bool
}

type l2env struct {
	w      *world
	ct     *content
	rc     *regclient.RegClient
	ctx    context.Context
	cancel context.CancelFunc
}

func setupL2(c Case, withFaults bool) *l2env {
	w := newWorld(c)
	w.l2 = true
	// count bound of clause (2). A server may legitimately accept one byte per PATCH (the
	// largest blob any operation pushes is the ~500 byte placeholder config of a tag delete),
	// so the cap is far above that; endless loops reach it in well under a second.
	w.m.Cap = 3000
	p := c.P
	ct := makeContent(p)
	for _, b := range [][]byte{ct.cfg, ct.cfg2, ct.layer1, ct.layer2, ct.empty, ct.newBlob} {
		w.blobLen[dig(b)] = len(b)
	}
	for _, n := range w.names {
		h := w.host[n]
		f := &h.Feat
		f.Referrers, f.ReferrersPage, f.TagPage = p.Feat.Referrers, p.Feat.ReferrersPage, p.Feat.TagPage
		f.TagListNoRepo404 = true
		if n != upName && w.spec[n].Has != "has" {
			// a mirror that lacks the repository must say so: the referrers API of the model answers
			// "200, empty list" for anything it does not know, which a client cannot tell from the truth
			f.Referrers = false
		}
		if n == upName {
			f.LocStyle, f.ChunkMin, f.PatchAccept, f.PatchPartialMode = p.Feat.LocStyle, p.Feat.ChunkMin, p.Feat.PatchAccept, p.Feat.PartialMode
			f.RefuseMono, f.Early201, f.TagDelete, f.MountGrant, f.AnonMountStatus = p.Feat.RefuseMono, p.Feat.Early201, p.Feat.TagDelete, p.Feat.MountGrant, p.Feat.AnonMount
		} else {
			// a mirror is a pull-through copy: it keeps working as a registry if a write reaches it,
			// so that a write sent to it by mistake is observable as a state change
			f.TagDelete, f.MountGrant = true, true
		}
		if n == upName || w.spec[n].Has == "has" {
			ct.populate(h, w.repoOn(n, repoSrc), p, c.Op)
		}
		f.HeadNoDigest = p.RequireDigest
		f.ReferrersFilter = p.ArtifactType && p.Feat.ReferrersPage == 0
		if p.RepoLimit > 0 {
			f.CatalogPage = 1
		}
	}
	for i := 0; i < p.ExtURLs; i++ {
		if i == 0 && p.ExtURLs > 1 && p.ExtDead == "nohost" {
			continue
		}
		n := extName(i)
		h := w.m.AddExternal(n)
		w.host[n] = h
		w.extNames = append(w.extNames, n)
		if i < len(p.ExtHosts) {
			w.extSpec[n] = p.ExtHosts[i]
		} else {
			w.extSpec[n] = HostSpec{}
		}
		if !(i == 0 && p.ExtURLs > 1 && p.ExtDead == "404") {
			h.Files[extPath] = ct.foreign
		}
	}
	w.blobLen["ext:"+extPath] = len(ct.foreign)
	w.blobLen[rm.Digest("sha512", ct.layer1)] = len(ct.layer1)
	w.blobLen[rm.Digest("sha512", ct.newBlob)] = len(ct.newBlob)
	// a second registry without mirrors for cross-registry copies
	oth := w.m.AddHost(othName)
	oth.Feat.TagListNoRepo404 = true
	oth.Feat.Referrers = p.Feat.Referrers
	if c.Op == "image-copy" && p.Cross == "from-other" {
		ct.populate(oth, repoSrc, p, c.Op)
	}
	if withFaults {
		w.cfaults = c.ClassFaults
		w.installFaults()
	}
	dI, dM := c.delays()
	hosts := []config.Host{}
	for _, h := range configHosts(c, 100) {
		hosts = append(hosts, *h)
	}
	sort.Slice(hosts, func(i, j int) bool { return hosts[i].Name < hosts[j].Name })
	var ro []reg.Opts
	if (p.Chunk > 0 || p.MaxPut > 0) && !p.HostChunk {
		ro = append(ro, reg.WithBlobSize(int64(p.Chunk), int64(p.MaxPut)))
	}
	if p.BlobLimit > 0 {
		ro = append(ro, reg.WithBlobLimit(int64(p.BlobLimit)))
	}
	if p.Cache {
		ro = append(ro, reg.WithCache(5*time.Minute, 500))
	}
	rc := rcutil.New(w.m, rcutil.Conf{RetryLimit: c.Limit, DelayInit: dI, DelayMax: dM, Hosts: hosts, RegOpts: ro})
	e := &l2env{w: w, ct: ct, rc: rc}
	e.ctx, e.cancel = context.WithCancel(context.Background())
	// An upload that keeps sending the same chunk is stopped (by cancelling the operation) soon
	// after the count bound of clause (2) is exceeded: the verdict is the count, and the
	// case does not have to sleep through thousands of backed-off repetitions.
	var mu sync.Mutex
	seen := map[string]int{}
	bound := 12*(c.Limit+1) + 3
	cancelAt := 0
	if withFaults {
		cancelAt = p.CancelAt
	}
	w.m.OnArrive = func(en *rm.Entry) {
		if cancelAt > 0 && en.Seq+1 >= cancelAt {
			e.cancel()
		}
		if en.Class != "upload-patch" {
			return
		}
		mu.Lock()
		seen[patchKey(en)]++
		over := seen[patchKey(en)] > bound
		mu.Unlock()
		if over {
			e.cancel()
		}
	}
	return e
}

func mustRef(s string) ref.Ref {
	r, err := ref.New(s)
	if err != nil {
		panic(err)
	}
	return r
}

func desc(mt string, b []byte) descriptor.Descriptor {
	return descriptor.Descriptor{MediaType: mt, Digest: digest.Digest(dig(b)), Size: int64(len(b))}
}

func sum(b []byte) string {
	s := sha256.Sum256(b)
	return fmt.Sprintf("%d:%s", len(b), hex.EncodeToString(s[:8]))
}

// semantic state of a world: per repository the tags (a referrers fall-back
// tag is rendered as the set of digests its index lists, because the index
// bytes depend on the order in which concurrent pushes happened), the presence
// of the manifests the case knows about and of its blobs. Helper objects an
// operation may create on its way (placeholder image of a tag delete,
// intermediate fall-back indexes) are not part of the result.
func (e *l2env) state() string { return e.stateOf(false) }

// stateOf(true) leaves out everything that exists only for the referrers of the subject m1: the
// referrer manifests, their (shared, empty JSON) config blob and the fall-back listings.
func (e *l2env) stateOf(sansReferrers bool) string {
	w := e.w
	w.m.Lock()
	defer w.m.Unlock()
	knownM := map[string]bool{}
	ct := e.ct
	skipM, skipB := map[string]bool{}, map[string]bool{}
	if sansReferrers {
		for _, b := range append([][]byte{ct.mOld, ct.mNew}, ct.refs...) {
			if pm, err := rm.ParseManifest(b); err == nil && pm.Subject != nil {
				skipM[rm.ManifestDigest("sha256", rm.MTOCIManifest, b)] = true
			}
		}
		skipB[dig(ct.empty)] = true
	}
	for _, b := range append([][]byte{ct.m1, ct.m2, ct.mOld, ct.mNew}, ct.refs...) {
		knownM[rm.ManifestDigest("sha256", rm.MTOCIManifest, b)] = true
	}
	knownM[rm.ManifestDigest("sha256", rm.MTOCIIndex, ct.idx)] = true
	var sb strings.Builder
	hs := append([]string{}, w.names...)
	hs = append(hs, othName)
	for _, hn := range hs {
		h := w.m.Hosts[hn]
		rns := []string{}
		for rn := range h.Repos {
			rns = append(rns, rn)
		}
		sort.Strings(rns)
		for _, rn := range rns {
			r := h.Repos[rn]
			fmt.Fprintf(&sb, "%s/%s:", short(hn), rn)
			ts := []string{}
			for t, d := range r.Tags {
				if strings.HasPrefix(t, "sha256-") && sansReferrers {
					continue
				}
				if strings.HasPrefix(t, "sha256-") {
					ds := []string{}
					if mf, ok := r.Manifests[d]; ok {
						if pm, err := rm.ParseManifest(mf.Body); err == nil {
							for _, rf := range pm.Refs {
								ds = append(ds, rf.Digest[7:15])
							}
						}
					}
					sort.Strings(ds)
					ts = append(ts, t[:15]+"={"+strings.Join(ds, " ")+"}")
					continue
				}
				ts = append(ts, t+"="+d[7:15])
			}
			sort.Strings(ts)
			ms := []string{}
			for d := range r.Manifests {
				if knownM[d] && !skipM[d] {
					ms = append(ms, d[7:15])
				}
			}
			sort.Strings(ms)
			bs := []string{}
			for d, b := range r.Blobs {
				if _, ok := w.blobLen[d]; ok && !skipB[d] {
					bs = append(bs, d[7:15]+"/"+sum(b))
				}
			}
			sort.Strings(bs)
			fmt.Fprintf(&sb, " tags%v manifests%v blobs%v\n", ts, ms, bs)
		}
	}
	return sb.String()
}

// runOp executes the operation of the case.
func (e *l2env) runOp(c Case) (res l2Result) {
	ctx, cancel := context.WithTimeout(e.ctx, 300*time.Second)
	defer cancel()
	rc, ct, p := e.rc, e.ct, c.P
	src := mustRef(c.cname(upName) + "/" + repoSrc + ":v1")
	tgt := mustRef(c.cname(upName) + "/" + repoTgt + ":v1")
	l1desc := desc(rm.MTOCILayer, ct.layer1)
	if p.Sha512 {
		l1desc.Digest = digest.Digest(rm.Digest("sha512", ct.layer1))
	}
	if p.ExtURLs > 0 {
		l1desc = desc(rm.MTDockerForeig, ct.foreign)
		for i := 0; i < p.ExtURLs; i++ {
			l1desc.URLs = append(l1desc.URLs, "https://"+extName(i)+extPath)
		}
	}
	defer func() {
		// a crash of the operation (as opposed to one of the harness) gets the operation's name
		if r := recover(); r != nil {
			st := string(debug.Stack())
			if len(st) > 3000 {
				st = st[:3000]
			}
			res.panicked = fmt.Sprintf("%v\n%s", r, st)
			res.err = fmt.Errorf("panic: %v", r)
			res.state = e.state()
	res.core = e.stateOf(true)
			res.core = e.stateOf(true)
		}
	}()
	switch c.Op {
	case "blob-get":
		br, err := rc.BlobGet(ctx, src, l1desc)
		if err == nil {
			var b []byte
			b, err = io.ReadAll(br)
			_ = br.Close()
			res.out = sum(b)
		}
		res.err = err
	case "blob-head":
		br, err := rc.BlobHead(ctx, src, l1desc)
		if err == nil {
			res.out = fmt.Sprint(br.GetDescriptor().Size)
			_ = br.Close()
		}
		res.err = err
	case "blob-put", "blob-put-chunked":
		d := desc(rm.MTOCILayer, ct.newBlob)
		if p.Sha512 {
			d.Digest = digest.Digest(rm.Digest("sha512", ct.newBlob))
		}
		if p.NoDesc {
			d = descriptor.Descriptor{}
		}
		dOut, err := rc.BlobPut(ctx, tgt, d, bytes.NewReader(ct.newBlob))
		if err == nil {
			res.out = fmt.Sprintf("%s/%d", dOut.Digest, dOut.Size)
		}
		res.err = err
	case "blob-delete":
		res.err = rc.BlobDelete(ctx, src, desc(rm.MTOCILayer, ct.layer2))
	case "blob-mount":
		res.err = rc.BlobMount(ctx, src, tgt, desc(rm.MTOCILayer, ct.layer1))
	case "blob-copy":
		res.err = rc.BlobCopy(ctx, src, tgt, desc(rm.MTOCILayer, ct.layer1))
	case "manifest-get", "manifest-head":
		r := src
		if p.ByDigest {
			r = src.SetDigest(ct.rootDig)
		}
		var m manifest.Manifest
		var err error
		var mo []regclient.ManifestOpts
		if p.Platform {
			mo = append(mo, regclient.WithManifestPlatform(platform.Platform{OS: "linux", Architecture: "amd64"}))
		}
		if p.RequireDigest {
			mo = append(mo, regclient.WithManifestRequireDigest())
		}
		if c.Op == "manifest-get" {
			m, err = rc.ManifestGet(ctx, r, mo...)
			if err == nil {
				b, _ := m.RawBody()
				res.out = m.GetDescriptor().Digest.String() + " " + sum(b)
			}
		} else {
			m, err = rc.ManifestHead(ctx, r, mo...)
			if err == nil {
				res.out = m.GetDescriptor().Digest.String() + " " + m.GetDescriptor().MediaType
			}
		}
		res.err = err
	case "manifest-put":
		m, err := manifest.New(manifest.WithRaw(ct.mNew), manifest.WithDesc(desc(rm.MTOCIManifest, ct.mNew)))
		if err == nil {
			err = rc.ManifestPut(ctx, src.SetTag("new"), m)
		}
		res.err = err
	case "manifest-delete":
		r := src.SetDigest(dig(ct.mOld))
		if p.Subject {
			res.err = rc.ManifestDelete(ctx, r, regclient.WithManifestCheckReferrers())
		} else {
			res.err = rc.ManifestDelete(ctx, r)
		}
		if p.Subject && p.ThenList && res.err == nil {
			rl, lerr := rc.ReferrerList(ctx, src.SetDigest(dig(ct.m1)))
			if lerr != nil {
				res.err = fmt.Errorf("referrer list after the delete: %w", lerr)
			} else {
				ds := []string{}
				for _, d := range rl.Descriptors {
					ds = append(ds, d.Digest.String()[7:15])
				}
				sort.Strings(ds)
				res.out = "then-list=" + strings.Join(ds, ",")
			}
		}
	case "tag-list":
		var opts []scheme.TagOpts
		if p.TagLimit > 0 {
			opts = append(opts, scheme.WithTagLimit(p.TagLimit))
		}
		if p.Last != "" {
			opts = append(opts, scheme.WithTagLast(p.Last))
		}
		tl, err := rc.TagList(ctx, src, opts...)
		if err == nil {
			ts, terr := tl.GetTags()
			err = terr
			res.out = strings.Join(ts, ",")
		}
		res.err = err
	case "tag-delete":
		res.err = rc.TagDelete(ctx, src.SetTag("old"))
	case "referrer-list":
		rr := src.SetDigest(dig(ct.m1))
		if p.ByTag {
			rr = src.SetTag("m1")
		}
		var rlo []scheme.ReferrerOpts
		if p.ArtifactType {
			rlo = append(rlo, scheme.WithReferrerMatchOpt(descriptor.MatchOpt{ArtifactType: mtArtifact}))
		}
		rl, err := rc.ReferrerList(ctx, rr, rlo...)
		if err == nil {
			ds := []string{}
			for _, d := range rl.Descriptors {
				ds = append(ds, d.Digest.String()[7:15])
			}
			sort.Strings(ds)
			res.out = strings.Join(ds, ",")
		}
		res.err = err
	case "repo-list":
		var rlo []scheme.RepoOpts
		if p.RepoLimit > 0 {
			rlo = append(rlo, scheme.WithRepoLimit(p.RepoLimit))
		}
		if p.Last != "" {
			rlo = append(rlo, scheme.WithRepoLast(p.Last))
		}
		rl, err := rc.RepoList(ctx, c.cname(upName), rlo...)
		if err == nil {
			rs, rerr := rl.GetRepos()
			err = rerr
			res.out = strings.Join(rs, ",")
		}
		res.err = err
	case "ping":
		_, res.err = rc.Ping(ctx, src)
	case "image-copy":
		s, t := src, tgt
		switch p.Cross {
		case "from-other":
			s = mustRef(othName + "/" + repoSrc + ":v1")
		case "to-other":
			t = mustRef(othName + "/" + repoTgt + ":v1")
		}
		var opts []regclient.ImageOpts
		if p.NRef > 0 {
			opts = append(opts, regclient.ImageWithReferrers())
		}
		res.err = rc.ImageCopy(ctx, s, t, opts...)
	default:
		res.err = fmt.Errorf("harness: unknown op %q", c.Op)
	}
	if ctx.Err() == context.DeadlineExceeded {
		res.timeout = true
	}
	res.state = e.state()
	return res
}

// sentIgnoreErr recognises the three probes the client sends with "ignore
// errors" (no retry, no back-off): the anonymous mount, the tag DELETE and the
// first page of the referrers API.
func sentIgnoreErr(e *rm.Entry) bool {
	switch e.Class {
	case "upload-mount":
		return !strings.Contains(e.RawQuery, "from=")
	case "manifest-delete":
		return !strings.Contains(e.Ref, ":")
	}
	return false
}

// blob-copy streams: the upload PUT/PATCH is released first and the model logs it only after it has
// read the request body, during which the source GET may be resumed - log order is not release order.
func sequentialOp(op string) bool { return op != "image-copy" && op != "blob-copy" }

var l2BackoffClasses = map[string]bool{"blob-get": true, "blob-head": true, "manifest-get": true, "manifest-head": true, "manifest-put": true}

// l2Groups splits a sequential log into logical read requests: maximal runs of
// consecutive attempts with the same method, path and query.
func (w *world) l2Groups(es []*rm.Entry) []group {
	var gs []group
	i := 0
	for i < len(es) {
		j := i + 1
		for j < len(es) && es[j].Method == es[i].Method && w.normPath(es[j]) == w.normPath(es[i]) && es[j].RawQuery == es[i].RawQuery {
			j++
		}
		e := es[i]
		read := (e.Method == "GET" || e.Method == "HEAD") && !strings.Contains(e.RawQuery, "last=") && !strings.Contains(e.RawQuery, "page=")
		switch e.Class {
		case "blob-get", "blob-head", "manifest-get", "manifest-head", "tags-list", "referrers":
		default:
			read = false // catalog, ping and upload status requests are not offered to mirrors
		}
		gs = append(gs, group{start: i, end: j, read: read})
		i = j
	}
	return gs
}

func runL2(c Case, ev *evid.Collector) (vs []*evid.Violation, inconclusive string) {
	a := setupL2(c, true)
	ra := a.runOp(c)
	if ra.timeout {
		return nil, "watchdog: L2 operation " + c.Op + " exceeded 300 s: " + caseJSON(c)
	}
	if ra.panicked != "" {
		return []*evid.Violation{evid.V("operation-panics-"+c.Op, "%s panicked while the registry answered with faults (or its context ended): %s\n%s", c.Op, ra.panicked, dumpLog(a.w.m.Entries()))}, ""
	}
	b := setupL2(c, false)
	rb := b.runOp(c)
	if rb.panicked != "" {
		return []*evid.Violation{evid.V("operation-panics-"+c.Op, "%s panicked in the fault free run: %s", c.Op, rb.panicked)}, ""
	}
	if rb.timeout {
		return nil, "watchdog: L2 operation " + c.Op + " (fault free twin) exceeded 300 s: " + caseJSON(c)
	}
	w := a.w
	es := a.w.m.Entries()
	esB := b.w.m.Entries()
	if os.Getenv("VERIF_DEBUG") != "" {
		fmt.Fprintf(os.Stderr, "faulty run: err=%v out=%q\n%sfault free run: err=%v out=%q\n%s", ra.err, ra.out, dumpLog(es), rb.err, rb.out, dumpLog(esB))
	}

	// ---- fault accounting on the faulty run
	f, lackInj, spoiled := 0, 0, false
	hit := map[string]bool{}
	for _, e := range es {
		if (e.Fault == "" || w.classify(e).kind == "noeffect") && e.Status >= 400 && e.Status != 404 && e.Status != 416 && e.Status != 401 && !sentIgnoreErr(e) {
			// a natural error status of the server (refused monolithic PUT, unsupported method ...) is
			// counted by the client's per-host back-off counter like a fault: it uses up the budget
			f++
			continue
		}
		if e.Fault == "" || e.Fault == "cap" {
			continue
		}
		hit[e.Fault] = true
		switch ec := w.classify(e); ec.kind {
		case "transient":
			f++
			if sentIgnoreErr(e) {
				// the anonymous mount and the tag DELETE are probes that are deliberately not retried: a
				// fault on them sends the operation down its fall-back path, whose outcome depends on
				// what else the server supports; nothing is promised about the result then
				spoiled = true
			}
		case "lack-injected":
			contin := strings.Contains(e.RawQuery, "page=") || strings.Contains(e.RawQuery, "last=")
			_, configured := w.spec[e.Host]
			if e.Host == upName || !configured || e.Status == 416 || contin || c.Up.NoHead {
				// (also: the continuation of a paged list is bound to the host that served the previous page,
				// and a registry that takes no HEAD cannot stand in for a mirror that "lacks" the object)
				// a 416 on a read without Range is "this host lacks it" for the walk, but when every host
				// lacks the object the caller sees the LAST error, and 416 is not a not-found error
				spoiled = true
			} else {
				lackInj++
			}
		case "noeffect":
		default:
			spoiled = true
		}
	}
	// ---- evidence
	classes := []string{"layer:L2", "op:" + c.Op, fmt.Sprintf("limit:%d", c.Limit), fmt.Sprintf("mirrors:%d", len(c.Mirrors))}
	classes = append(classes, dimClasses(c)...)
	for h := range hit {
		classes = append(classes, "hit:"+h)
	}
	if len(hit) == 0 {
		classes = append(classes, "hit:none")
	}
	if ra.err == nil {
		classes = append(classes, "outcome:success")
	} else {
		classes = append(classes, "outcome:error")
	}
	if rb.err != nil {
		classes = append(classes, "twin:error")
	}
	for _, n := range w.names {
		if n != upName {
			classes = append(classes, "mirror:"+w.spec[n].Has)
		}
	}
	if len(c.P.Feat.PatchAccept) > 0 {
		classes = append(classes, "upload:partial-accept")
	}
	if c.P.Feat.RefuseMono {
		classes = append(classes, "upload:refuse-mono")
	}
	key := "L2|" + c.Op + fmt.Sprintf("|%+v", c.P)
	for i, n := range w.names {
		s := w.spec[n]
		key += fmt.Sprintf("|h%d p%d %s %s", i, s.Prio, s.Has, wordString(s.Word, s.Tail))
	}
	for _, cf := range c.ClassFaults {
		key += fmt.Sprintf("|cf %s %d %d %s", cf.Class, cf.Nth, cf.Times, cf.L)
	}
	key += fmt.Sprintf("|lim%d", c.Limit)
	ev.Case(len(hit) > 0 || len(c.Mirrors) > 0, key, classes...)
	ev.Sample(c)

	add := func(v *evid.Violation) {
		if v != nil {
			vs = append(vs, v)
		}
	}
	// ---- (2) termination by count, in both worlds (the hostile upload behaviours are part of both)
	for _, run := range []struct {
		w    *world
		es   []*rm.Entry
		name string
	}{{a.w, es, "faulty run"}, {b.w, esB, "fault free run"}} {
		if v := run.w.checkUploadProgress(run.es); v != nil {
			add(v)
			return vs, ""
		}
		if run.w.m.CapHit() {
			add(evid.V("request-cap-exceeded", "%s of %s issued more than %d HTTP requests\n%s", run.name, c.Op, run.w.m.Cap, dumpLog(run.es[:60])))
			return vs, ""
		}
	}
	// ---- (6) writes reach the named registry only
	writeHost := upName
	if c.Op == "image-copy" && c.P.Cross == "to-other" {
		writeHost = othName
	}
	v6 := w.checkWrites(es, writeHost)
	if v6 == nil {
		v6 = b.w.checkWrites(esB, writeHost)
	}
	add(v6)
	// ---- (1) for the fall-back to a descriptor's URLs: BlobGet / BlobHead send exactly one logical
	// request per URL, so the requests one external URL receives are its attempts
	if c.P.ExtURLs > 0 && (c.Op == "blob-get" || c.Op == "blob-head") {
		for _, n := range w.extNames {
			cnt := 0
			for _, e := range es {
				if e.Host == n {
					cnt++
				}
			}
			if cnt > c.Limit+1 {
				add(evid.V("attempts-exceed-retry-limit", "%s: the external URL on %s was requested %d times with retry limit %d (at most %d attempts per logical request)\n%s", c.Op, short(n), cnt, c.Limit, c.Limit+1, dumpLog(es)))
			}
		}
	}
	// ---- (4) + (5) on sequential operations
	if sequentialOp(c.Op) {
		lo := logOpts{sequential: true, groups: w.l2Groups(es),
			backsOff: func(e *rm.Entry) bool {
				// requests that are certainly not sent with "ignore errors"
				return l2BackoffClasses[e.Class] || e.Class == "tags-list" || (e.Class == "referrers" && strings.Contains(e.RawQuery, "page="))
			},
			contin:   func(e *rm.Entry) bool { return strings.Contains(e.RawQuery, "last=") || strings.Contains(e.RawQuery, "page=") }}
		for _, v := range w.analyseLog(es, lo) {
			add(v)
		}
		lo.groups = b.w.l2Groups(esB)
		for _, v := range b.w.analyseLog(esB, lo) {
			dup := false
			for _, x := range vs {
				if x.Sig == v.Sig {
					dup = true
				}
			}
			if !dup {
				add(v)
			}
		}
	}
	// ---- (3) absorption: same result as the fault free twin
	if v6 != nil || spoiled || rb.err != nil {
		return vs, ""
	}
	L := len(c.Mirrors) + lackInj + w.noHeadHosts()
	if c.DupMirror {
		L++
	}
	if c.P.CancelAt > 0 {
		return vs, "" // an operation whose context is cancelled may fail
	}
	if f >= c.Limit || (f+1)*L+f > c.Limit {
		return vs, ""
	}
	if f == 0 && lackInj == 0 {
		// nothing was injected that reached the client: both runs are the same experiment
		if ra.err != nil || ra.out != rb.out || ra.state != rb.state {
			add(evid.V("harness-twin-nondeterministic", "op %s without delivered faults differs from its twin: err=%v out=%q/%q\n%s\n%s", c.Op, ra.err, ra.out, rb.out, ra.state, rb.state))
		}
		return vs, ""
	}
	// a fault on the first page of the referrers API (sent with "ignore errors": never retried) that
	// makes the client fall back to the tag scheme and return an incomplete answer is one root cause
	// The known residual applies iff (a) a first-page referrers request for the subject that HAS referrers met a
	// transient answer / transport fault on one configured host, (b) the same probe later got a 404 from ANOTHER
	// configured host (other requests of a concurrent copy may lie in between; a new request of that probe to
	// the first host ends the search), and (c) the result differs from the fault free run only in what exists
	// for the referrers of that subject.
	refProbe, refMasked := false, false
	subject := dig(a.ct.m1)
	for i, e := range es {
		if e.Class == "referrers" && e.Fault != "" && !strings.Contains(e.RawQuery, "page=") && w.classify(e).kind == "transient" {
			refProbe = true
			if _, configured := w.spec[e.Host]; !configured || e.Ref != subject {
				continue
			}
			for _, x := range es[i+1:] {
				if x.Class != "referrers" || w.normPath(x) != w.normPath(e) || x.RawQuery != e.RawQuery {
					continue
				}
				if x.Host == e.Host {
					break
				}
				if _, configured := w.spec[x.Host]; configured && x.Status == 404 {
					refMasked = true
				}
			}
		}
	}
	confined := ra.core == rb.core && (ra.out == rb.out || c.Op == "referrer-list")
	switch {
	case refMasked && confined && ra.err == nil && (ra.out != rb.out || ra.state != rb.state):
		add(evid.V("referrers-probe-fault-masked-by-other-host-404", "%s: %d transient faults (limit %d): the first referrers API request failed on one host with a retryable answer (not retried: sent with ignore-errors) and then reached a host that "+
			"lacks the repository (404); the caller sees only the last answer, takes the API as unsupported, falls back to the tag and returns an incomplete result with a nil error: returned %q, fault free %q\n%s",
			c.Op, f, c.Limit, ra.out, rb.out, dumpLog(es)))
	case refProbe && ra.err == nil && (ra.out != rb.out || ra.state != rb.state):
		add(evid.V("referrers-request-fault-not-retried-result-incomplete", "%s: %d transient faults (limit %d), one of them on a referrers API request; the operation returns nil but its result differs from the fault free run: returned %q, fault free %q\nfaulty:\n%sfault free:\n%s%s",
			c.Op, f, c.Limit, ra.out, rb.out, ra.state, rb.state, dumpLog(es)))
	case ra.err != nil:
		add(evid.V("transient-faults-below-limit-not-absorbed", "%s: %d transient faults were delivered (limit %d, %d mirrors), the fault free run succeeds, the faulty run fails: %v\n%s", c.Op, f, c.Limit, len(c.Mirrors), ra.err, dumpLog(es)))
	case ra.out != rb.out:
		add(evid.V("result-differs-from-fault-free-run", "%s: %d transient faults (limit %d): returned %q, fault free run returned %q\n%s", c.Op, f, c.Limit, ra.out, rb.out, dumpLog(es)))
	case ra.state != rb.state:
		add(evid.V("state-differs-from-fault-free-run", "%s: %d transient faults (limit %d): final registry state differs from the fault free run\nfaulty:\n%sfault free:\n%s%s", c.Op, f, c.Limit, ra.state, rb.state, dumpLog(es)))
	}
	return vs, ""
}
