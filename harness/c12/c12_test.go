package c12

import (
	"os"
	"testing"

	"pgregory.net/rapid"

	"github.com/regclient/regclient/zz_verif/evid"
)

const prop = "C12"

func TestMain(m *testing.M) {
	code := m.Run()
	evid.Flush(code)
	os.Exit(code)
}

// ---------------------------------------------------------------------------
// generator

var transientLetters = []Letter{
	{K: "st", S: 500}, {K: "st", S: 502}, {K: "st", S: 504}, {K: "st", S: 408}, {K: "st", S: 429},
	{K: "reset"}, {K: "reseta"},
}

func genLetter(t *rapid.T, ra string, maxAt int, l2 bool) Letter {
	switch k := rapid.IntRange(0, 99).Draw(t, "letter"); {
	case k < 23:
		return Letter{K: "ok"}
	case k < 26:
		return Letter{K: "st", S: 500, RA: ra} // Retry-After is not tied to 429
	case k < 27:
		return Letter{K: "st", S: 503, RA: ra}
	case k < 28:
		return Letter{K: "st", S: 429, RA: "Wed, 21 Oct 2037 07:28:00 GMT"} // HTTP-date form
	case k < 58:
		l := transientLetters[rapid.IntRange(0, len(transientLetters)-1).Draw(t, "tl")]
		if l.K == "reseta" && l2 {
			l.K = "reset" // "applied, response lost" is only sound for idempotent reads
		}
		return l
	case k < 66:
		return Letter{K: "st", S: 429, RA: ra}
	case k < 78:
		at := 0
		if maxAt > 0 && rapid.IntRange(0, 2).Draw(t, "at0") > 0 {
			at = rapid.IntRange(0, maxAt).Draw(t, "at")
		}
		return Letter{K: "trunc", At: at}
	case k < 84:
		return Letter{K: "st", S: 503}
	case k < 89:
		return Letter{K: "st", S: 404}
	case k < 92:
		return Letter{K: "st", S: 416}
	case k < 96:
		return Letter{K: "st", S: 401}
	case k < 98:
		return Letter{K: "st", S: 403}
	default:
		return Letter{K: "st", S: 400}
	}
}

func genTail(t *rapid.T, ra string) *Letter {
	switch k := rapid.IntRange(0, 99).Draw(t, "tail"); {
	case k < 68:
		return nil
	case k < 80:
		l := transientLetters[rapid.IntRange(0, 5).Draw(t, "tt")]
		return &l
	case k < 86:
		return &Letter{K: "st", S: 429, RA: ra}
	case k < 91:
		return &Letter{K: "st", S: 503}
	case k < 95:
		return &Letter{K: "st", S: 401}
	case k < 98:
		return &Letter{K: "trunc", At: 0}
	default:
		return &Letter{K: "st", S: 403}
	}
}

func genHost(t *rapid.T, label string, limit int, ra string, maxAt int, hasPct int, l2 bool) HostSpec {
	h := HostSpec{Prio: rapid.IntRange(0, 2).Draw(t, label+"prio"), Has: "lacks"}
	if rapid.IntRange(0, 99).Draw(t, label+"has") < hasPct {
		h.Has = "has"
	}
	n := rapid.IntRange(0, limit+3).Draw(t, label+"wlen")
	if rapid.IntRange(0, 3).Draw(t, label+"noword") == 0 {
		n = 0
	}
	for i := 0; i < n; i++ {
		h.Word = append(h.Word, genLetter(t, ra, maxAt, l2))
	}
	h.Tail = genTail(t, ra)
	return h
}

func genTopology(t *rapid.T, c *Case, maxAt int, l2 bool) {
	c.Limit = rapid.SampledFrom([]int{1, 2, 3, 4, 5, 1, 2, 3, 4, 5, 1, 2, 3, 4, 5, 7}).Draw(t, "limit")
	c.DelayInitMs = rapid.SampledFrom([]int{2, 2, 3, 5, 8, 12, 20}).Draw(t, "dinit")
	mul := rapid.SampledFrom([]int{1, 2, 2, 4, 0, -1}).Draw(t, "dmaxmul")
	if mul == 0 && c.DelayInitMs > 3 {
		mul = 3
	}
	c.DelayMaxMs = c.DelayInitMs * mul
	if mul < 0 {
		c.DelayMaxMs = max(c.DelayInitMs/2, 1) // below delayInit: WithDelay raises it to delayInit
	}
	ra := rapid.SampledFrom([]string{"0.002", "0.004", "0.01", "0.03", "0.03"}).Draw(t, "ra")
	if rapid.IntRange(0, 24).Draw(t, "ra1") == 0 {
		ra = "1"
	}
	c.Creds = rapid.IntRange(0, 9).Draw(t, "creds") < 3
	c.RepoAuth = c.Creds && rapid.IntRange(0, 2).Draw(t, "repoauth") == 0
	nm := rapid.SampledFrom([]int{0, 0, 1, 1, 2, 2, 2, 3, 3}).Draw(t, "nmirrors")
	c.Up = genHost(t, "up", c.Limit, ra, maxAt, 88, l2)
	c.Up.NoHead = rapid.IntRange(0, 39).Draw(t, "up-nohead") == 0
	for i := 0; i < nm; i++ {
		h := genHost(t, "m", c.Limit, ra, maxAt, 50, l2)
		if rapid.IntRange(0, 7).Draw(t, "m-prefix") == 0 {
			h.Prefix = rapid.SampledFrom([]string{"cache", "mirror/hub"}).Draw(t, "m-prefixv")
		}
		h.NoHead = rapid.IntRange(0, 11).Draw(t, "m-nohead") == 0
		c.Mirrors = append(c.Mirrors, h)
	}
	// host settings of "regctl registry set" and the naming of the hosts
	c.Alias = rapid.SampledFrom([]string{"", "", "", "", "", "", "names", "names", "dockerhub", "dockerhub"}).Draw(t, "alias")
	c.DupMirror = nm > 0 && rapid.IntRange(0, 11).Draw(t, "dupmirror") == 0
	c.Slots = rapid.SampledFrom([]int{0, 0, 0, 0, 3, 3, 1}).Draw(t, "slots")
	if rapid.IntRange(0, 19).Draw(t, "reqpersec") == 0 {
		c.ReqPerSec = rapid.SampledFrom([]int{500, 2000}).Draw(t, "reqpersecv")
	}
	// a good share of topologies with ties (the documented rule for equals) and
	// with the plain "mirrors above upstream" shape
	switch rapid.IntRange(0, 5).Draw(t, "prioshape") {
	case 0:
		c.Up.Prio = 0
		for i := range c.Mirrors {
			c.Mirrors[i].Prio = 0
		}
	case 1:
		c.Up.Prio = 0
		for i := range c.Mirrors {
			c.Mirrors[i].Prio = 1 + i%2
		}
	}
}

func genL1(t *rapid.T) Case {
	c := Case{Layer: "L1"}
	c.BlobLen = rapid.SampledFrom([]int{0, 1, 2, 7, 16, 33, 64}).Draw(t, "bloblen")
	genTopology(t, &c, max(c.BlobLen-1, 0), false)
	n := rapid.IntRange(1, 4).Draw(t, "nreq")
	for i := 0; i < n; i++ {
		var r L1Req
		switch k := rapid.IntRange(0, 99).Draw(t, "method"); {
		case k < 55:
			r.Method = "GET"
		case k < 75:
			r.Method = "HEAD"
		case k < 86:
			r.Method = "DELETE"
		default:
			r.Method = "PUT"
		}
		switch k := rapid.IntRange(0, 9).Draw(t, "target"); {
		case k < 6:
			r.Target = "blob"
		case k < 9:
			r.Target = "manifest"
		default:
			r.Target = "missing"
		}
		read := r.Method == "GET" || r.Method == "HEAD"
		if read {
			r.NoMirrors = rapid.IntRange(0, 9).Draw(t, "nomirrors") == 0
		} else {
			r.NoMirrors = rapid.IntRange(0, 9).Draw(t, "nomirrors") < 7
		}
		r.IgnoreErr = rapid.IntRange(0, 9).Draw(t, "ignoreerr") == 0
		r.ExpectLen = rapid.Bool().Draw(t, "expectlen")
		r.Partial = rapid.IntRange(0, 9).Draw(t, "partial") == 0
		if rapid.IntRange(0, 5).Draw(t, "gap") == 0 {
			r.GapMs = rapid.IntRange(1, 30).Draw(t, "gapms")
		}
		// context state: already cancelled / cancelled while the k-th request is in flight / deadline
		switch rapid.IntRange(0, 29).Draw(t, "ctx") {
		case 0:
			r.Ctx = "cancelled"
		case 1:
			r.Ctx, r.CtxK = "cancel-at", rapid.IntRange(1, 3).Draw(t, "ctxk")
		case 2:
			r.Ctx, r.CtxK = "deadline", rapid.IntRange(1, 15).Draw(t, "ctxms")
		}
		c.Reqs = append(c.Reqs, r)
	}
	switch rapid.IntRange(0, 59).Draw(t, "special") {
	case 0:
		// the client exactly as every CLI of the repository builds it: no retry limit, no delays given
		c.Defaults, c.Limit, c.DelayInitMs, c.DelayMaxMs = true, 5, 100, 30000
		trim := func(h *HostSpec) {
			if len(h.Word) > 2 {
				h.Word = h.Word[:2]
			}
			h.Tail = nil
		}
		trim(&c.Up)
		for i := range c.Mirrors {
			trim(&c.Mirrors[i])
		}
		if len(c.Reqs) > 2 {
			c.Reqs = c.Reqs[:2]
		}
	case 1, 2:
		// more hosts than sort.Slice sorts by insertion: the order rule must not depend on the algorithm
		p := rapid.IntRange(0, 1).Draw(t, "manyprio")
		c.Up.Prio = p
		c.Mirrors = nil
		n := rapid.IntRange(12, 15).Draw(t, "many")
		for i := 0; i < n; i++ {
			c.Mirrors = append(c.Mirrors, HostSpec{Prio: p, Has: "lacks"})
		}
		c.DupMirror = false
	}
	return c
}

// genRAOrder draws the scenario behind "hosts that are currently backing off
// after the others" for a server-requested delay: a mirror answers the first
// read with 429 + Retry-After: 2 (another host serves it), then the read is
// repeated at once. A correct client asks the other hosts first (and is done
// in microseconds); only a client that gets the order wrong sleeps.
func genRAOrder(t *rapid.T) Case {
	c := Case{Layer: "L1", Limit: rapid.IntRange(2, 5).Draw(t, "limit"), DelayInitMs: 2, DelayMaxMs: 4, BlobLen: 16}
	p := rapid.IntRange(0, 2).Draw(t, "prio")
	c.Up = HostSpec{Prio: p, Has: "has"}
	c.Mirrors = []HostSpec{{Prio: p, Has: "has", Word: []Letter{{K: "st", S: 429, RA: "2"}}}}
	if rapid.Bool().Draw(t, "second") {
		c.Mirrors = append(c.Mirrors, HostSpec{Prio: p, Has: "lacks"})
	}
	m := rapid.SampledFrom([]string{"GET", "HEAD"}).Draw(t, "method")
	tg := rapid.SampledFrom([]string{"blob", "manifest"}).Draw(t, "target")
	c.Reqs = []L1Req{{Method: m, Target: tg}, {Method: m, Target: tg}}
	return c
}

// genHistory draws a history on ONE client: an early read meets a transient
// fault on a mirror (and is served by falling back), then 1-3 more reads
// follow after pauses long enough for every recorded back-off to run out.
// From then on nobody is backing off and the plain order rule applies again.
func genHistory(t *rapid.T) Case {
	c := Case{Layer: "L1", Limit: rapid.IntRange(2, 5).Draw(t, "limit"), BlobLen: 16}
	c.DelayInitMs = rapid.IntRange(1, 5).Draw(t, "dinit")
	c.DelayMaxMs = c.DelayInitMs * rapid.IntRange(1, 2).Draw(t, "dmaxmul")
	p := rapid.IntRange(0, 2).Draw(t, "prio")
	c.Up = HostSpec{Prio: p, Has: "has"}
	nm := rapid.IntRange(1, 3).Draw(t, "nmirrors")
	hold := c.DelayMaxMs
	for i := 0; i < nm; i++ {
		h := HostSpec{Prio: p, Has: rapid.SampledFrom([]string{"has", "has", "lacks"}).Draw(t, "has")}
		if rapid.IntRange(0, 3).Draw(t, "otherprio") == 0 {
			h.Prio = rapid.IntRange(0, 2).Draw(t, "mprio")
		}
		if i == 0 || rapid.Bool().Draw(t, "fault") {
			var l Letter
			switch rapid.IntRange(0, 5).Draw(t, "fl") {
			case 0:
				l = Letter{K: "st", S: 502}
			case 1:
				l = Letter{K: "st", S: 500}
			case 2:
				l = Letter{K: "st", S: 429}
			case 3:
				l = Letter{K: "st", S: 429, RA: rapid.SampledFrom([]string{"0.004", "0.01"}).Draw(t, "ra")}
				hold = max(hold, 10)
			case 4:
				l = Letter{K: "reset"}
			default:
				l = Letter{K: "st", S: 503}
			}
			h.Word = []Letter{l}
			if rapid.IntRange(0, 3).Draw(t, "second") == 0 {
				h.Word = append([]Letter{{K: "ok"}}, l) // the fault comes with the second read
			}
		}
		c.Mirrors = append(c.Mirrors, h)
	}
	n := rapid.IntRange(2, 4).Draw(t, "reads")
	m := rapid.SampledFrom([]string{"GET", "GET", "HEAD"}).Draw(t, "method")
	for i := 0; i < n; i++ {
		r := L1Req{Method: m, Target: rapid.SampledFrom([]string{"blob", "manifest"}).Draw(t, "target")}
		if i > 0 {
			r.GapMs = hold + rapid.IntRange(2, 6).Draw(t, "gap") // every back-off has run out
			if rapid.IntRange(0, 5).Draw(t, "short") == 0 {
				r.GapMs = 0 // ... or not yet
			}
		}
		c.Reqs = append(c.Reqs, r)
	}
	return c
}

func gen(t *rapid.T) Case {
	// (rapid favours small values: the larger share goes to the lower range)
	switch k := rapid.IntRange(0, 99).Draw(t, "layer"); {
	case k < 50:
		return genL2(t)
	case k < 53:
		return genRAOrder(t)
	case k < 60:
		return genHistory(t)
	}
	return genL1(t)
}

// ---------------------------------------------------------------------------
// check

// check evaluates every clause and returns all violations found (known
// signatures are counted by the caller and the search continues behind them).
func check(c Case, ev *evid.Collector) (vs []*evid.Violation, inconclusive string) {
	if c.Limit < 1 || c.DelayInitMs < 1 {
		return []*evid.Violation{evid.V("harness-bad-case", "limit %d delay %d", c.Limit, c.DelayInitMs)}, ""
	}
	switch c.Layer {
	case "L1":
		return runL1(c, ev)
	case "L2":
		return runL2(c, ev)
	}
	return []*evid.Violation{evid.V("harness-bad-case", "unknown layer %q", c.Layer)}, ""
}

// report feeds the violations of one case to the collector; it returns the
// first one that is not a known finding.
func report(c Case, ev *evid.Collector) (*evid.Violation, string) {
	var vs []*evid.Violation
	var inc string
	if pv := evid.Guard(func() *evid.Violation { vs, inc = check(c, ev); return nil }); pv != nil {
		vs = append(vs, pv)
	}
	var first *evid.Violation
	for _, v := range vs {
		if ev.Report(v, c) && first == nil {
			first = v
		}
	}
	return first, inc
}

func TestVerifProp(t *testing.T) {
	ev := evid.For(prop)
	inconclusive := ""
	rapid.Check(t, func(rt *rapid.T) {
		c := gen(rt)
		v, inc := report(c, ev)
		if inc != "" {
			inconclusive = inc
		}
		if v != nil {
			rt.Fatalf("%v", v)
		}
	})
	if inconclusive != "" {
		t.Fatalf("INCONCLUSIVE: %s", inconclusive)
	}
}

func TestVerifReplayDir(t *testing.T) {
	ev := evid.For(prop)
	for _, f := range evid.ReplayFiles() {
		var c Case
		if err := evid.LoadCaseFile(f, &c); err != nil {
			t.Fatalf("%s: %v", f, err)
		}
		// timing-dependent observations (5b) need a quiet moment: a few tries
		for i := 0; i < 5; i++ {
			v, inc := report(c, ev)
			if inc != "" {
				t.Fatalf("INCONCLUSIVE: %s", inc)
			}
			if v != nil {
				t.Errorf("%s: %v", f, v)
				break
			}
		}
	}
}

func TestVerifReplay(t *testing.T) {
	ev := evid.For(prop)
	var c Case
	ok, err := evid.LoadReplay(&c)
	if !ok {
		t.Skip("no VERIF_REPLAY")
	}
	if err != nil {
		t.Fatal(err)
	}
	for i := 0; i < 10; i++ {
		v, inc := report(c, ev)
		if inc != "" {
			t.Fatalf("INCONCLUSIVE: %s", inc)
		}
		if v != nil {
			t.Fatalf("%v", v)
		}
	}
}

// ---------------------------------------------------------------------------
// L2 generator

func genFeat(t *rapid.T, op string) FeatSpec {
	var f FeatSpec
	f.TagDelete = rapid.Bool().Draw(t, "f-tagdelete")
	f.Referrers = rapid.Bool().Draw(t, "f-referrers")
	if f.Referrers && rapid.Bool().Draw(t, "f-refpage") {
		f.ReferrersPage = rapid.IntRange(1, 2).Draw(t, "f-refpagesize")
	}
	if rapid.Bool().Draw(t, "f-tagpage") {
		f.TagPage = rapid.IntRange(1, 3).Draw(t, "f-tagpagesize")
	}
	f.MountGrant = rapid.Bool().Draw(t, "f-mount")
	f.AnonMount = rapid.SampledFrom([]int{0, 0, 201, 405}).Draw(t, "f-anon")
	f.LocStyle = rapid.IntRange(0, 4).Draw(t, "f-loc")
	if rapid.IntRange(0, 3).Draw(t, "f-chunkmin") == 0 {
		f.ChunkMin = rapid.IntRange(2, 24).Draw(t, "f-chunkminv")
	}
	f.Early201 = rapid.IntRange(0, 5).Draw(t, "f-early") == 0
	f.RefuseMono = rapid.IntRange(0, 3).Draw(t, "f-refuse") == 0
	switch rapid.IntRange(0, 9).Draw(t, "f-accept") {
	case 0, 1, 2:
		n := rapid.IntRange(1, 3).Draw(t, "f-acceptn")
		for i := 0; i < n; i++ {
			f.PatchAccept = append(f.PatchAccept, rapid.SampledFrom([]int{-1, 1, 2, 3, 5, 0}).Draw(t, "f-acceptv"))
		}
		f.PartialMode = rapid.IntRange(0, 1).Draw(t, "f-partialmode")
	case 3:
		// a server that never accepts anything more: "4xx + Location + Range" (or 202 + Range) without progress
		f.PatchAccept = []int{0}
		f.PartialMode = rapid.IntRange(0, 1).Draw(t, "f-partialmode")
	}
	return f
}

var classesOfOp = map[string][]string{
	"blob-get":         {"blob-get"},
	"blob-head":        {"blob-head"},
	"blob-put":         {"upload-mount", "upload-post", "upload-put"},
	"blob-put-chunked": {"upload-mount", "upload-post", "upload-patch", "upload-patch", "upload-put", "upload-get"},
	"blob-delete":      {"blob-delete"},
	"blob-mount":       {"upload-mount"},
	"blob-copy":        {"blob-head", "upload-mount", "blob-get", "upload-post", "upload-put"},
	"manifest-get":     {"manifest-get"},
	"manifest-head":    {"manifest-head"},
	"manifest-put":     {"manifest-put", "manifest-get"},
	"manifest-delete":  {"manifest-delete", "manifest-get", "referrers", "manifest-put"},
	"tag-list":         {"tags-list"},
	"tag-delete":       {"manifest-delete", "manifest-head", "manifest-put", "upload-put"},
	"referrer-list":    {"referrers", "manifest-get"},
	"repo-list":        {"catalog"},
	"ping":             {"ping"},
	"image-copy":       {"manifest-get", "manifest-head", "manifest-put", "blob-get", "blob-head", "upload-mount", "upload-post", "upload-put"},
}

func genL2(t *rapid.T) Case {
	c := Case{Layer: "L2"}
	c.Op = rapid.SampledFrom(l2Ops).Draw(t, "op")
	if rapid.IntRange(0, 5).Draw(t, "morechunked") == 0 {
		c.Op = "blob-put-chunked"
	}
	if rapid.IntRange(0, 11).Draw(t, "moreblobread") == 0 {
		c.Op = rapid.SampledFrom([]string{"blob-get", "blob-head"}).Draw(t, "blobread")
	}
	p := &c.P
	p.Size = rapid.SampledFrom([]int{0, 1, 5, 16, 31, 64, 96}).Draw(t, "size")
	genTopology(t, &c, max(p.Size-1, 0), true)
	p.Feat = genFeat(t, c.Op)
	switch c.Op {
	case "blob-put-chunked":
		if p.Size < 5 {
			p.Size = 31
		}
		p.Chunk = rapid.SampledFrom([]int{3, 4, 8, 16, 40}).Draw(t, "chunk")
		switch rapid.IntRange(0, 2).Draw(t, "chunkedwhy") {
		case 0:
			p.MaxPut = rapid.IntRange(1, p.Size-1).Draw(t, "maxput")
		case 1:
			p.NoDesc = true
		default:
			p.Feat.RefuseMono = true
		}
	case "blob-put":
		p.Feat.RefuseMono = false
		if rapid.Bool().Draw(t, "chunk?") {
			p.Chunk = rapid.SampledFrom([]int{4, 16, 64}).Draw(t, "chunk")
		}
	case "tag-list":
		p.NTags = rapid.IntRange(0, 7).Draw(t, "ntags")
		if rapid.Bool().Draw(t, "taglimit?") {
			p.TagLimit = rapid.IntRange(1, 4).Draw(t, "taglimit")
		}
	case "manifest-get", "manifest-head":
		p.ByDigest = rapid.Bool().Draw(t, "bydigest")
		p.Index = rapid.Bool().Draw(t, "index")
	case "manifest-put", "manifest-delete":
		p.Subject = rapid.Bool().Draw(t, "subject")
		p.NRef = rapid.IntRange(0, 2).Draw(t, "nref")
		// (without mirrors: a mirror keeps listing the deleted referrer - reads through it legitimately differ)
		if c.Op == "manifest-delete" && p.Subject && len(c.Mirrors) == 0 && rapid.Bool().Draw(t, "thenlist") {
			p.ThenList = true
			if p.NRef == 0 {
				p.NRef = 1
			}
		}
	case "referrer-list":
		p.NRef = rapid.IntRange(0, 4).Draw(t, "nref")
	case "image-copy":
		p.Index = rapid.Bool().Draw(t, "index")
		p.NRef = rapid.SampledFrom([]int{0, 0, 1, 2}).Draw(t, "nref")
		p.Cross = rapid.SampledFrom([]string{"same", "same", "from-other", "to-other"}).Draw(t, "cross")
		if rapid.Bool().Draw(t, "chunk?") {
			p.Chunk = rapid.SampledFrom([]int{8, 32}).Draw(t, "chunk")
			p.MaxPut = rapid.SampledFrom([]int{0, 4, 40}).Draw(t, "maxput")
		}
	}
	// library options and reference forms the CLIs use
	p.Cache = rapid.IntRange(0, 4).Draw(t, "cache") < 2
	if rapid.IntRange(0, 15).Draw(t, "cancelat") == 0 {
		p.CancelAt = rapid.IntRange(1, 12).Draw(t, "cancelatk")
	}
	switch c.Op {
	case "blob-put-chunked", "blob-put", "image-copy", "tag-delete":
		p.HostChunk = (p.Chunk > 0 || p.MaxPut > 0) && rapid.IntRange(0, 2).Draw(t, "hostchunk") == 0
		if rapid.IntRange(0, 9).Draw(t, "bloblimit") == 0 {
			p.BlobLimit = rapid.SampledFrom([]int{8, 20, 64}).Draw(t, "bloblimitv")
		}
	}
	// foreign layers: the descriptor carries URLs on external hosts, registry and mirrors answer 404
	if (c.Op == "blob-get" || c.Op == "blob-head") && rapid.IntRange(0, 9).Draw(t, "ext") < 6 {
		p.ExtURLs = rapid.IntRange(1, 2).Draw(t, "exturls")
		if p.ExtURLs == 2 && rapid.IntRange(0, 2).Draw(t, "extdead?") > 0 {
			p.ExtDead = rapid.SampledFrom([]string{"404", "404", "404", "nohost"}).Draw(t, "extdead")
		}
		for i := 0; i < p.ExtURLs; i++ {
			var h HostSpec
			n := rapid.IntRange(0, c.Limit+1).Draw(t, "extwlen")
			for j := 0; j < n; j++ {
				l := genLetter(t, "0.004", max(p.Size-1, 0), true)
				if l.K == "st" && l.S == 401 {
					l = Letter{K: "st", S: 502}
				}
				h.Word = append(h.Word, l)
			}
			if rapid.IntRange(0, 5).Draw(t, "exttail") == 0 {
				h.Tail = &Letter{K: "st", S: rapid.SampledFrom([]int{500, 502, 504, 429, 503}).Draw(t, "exttails")}
			}
			p.ExtHosts = append(p.ExtHosts, h)
		}
		if len(c.Mirrors) > 1 && rapid.Bool().Draw(t, "extfewmirrors") {
			c.Mirrors = c.Mirrors[:1] // keep the attempt budget of the first (registry) request small
		}
	}
	switch c.Op {
	case "blob-put-chunked", "blob-put", "blob-get", "blob-head":
		p.Sha512 = rapid.IntRange(0, 4).Draw(t, "sha512") == 0
	case "manifest-get", "manifest-head":
		if rapid.Bool().Draw(t, "platform") {
			p.Platform, p.Index = true, true
		}
		p.RequireDigest = c.Op == "manifest-head" && rapid.Bool().Draw(t, "requiredigest")
	case "referrer-list":
		p.ByTag = rapid.Bool().Draw(t, "bytag")
		p.ArtifactType = rapid.Bool().Draw(t, "artifacttype")
	case "repo-list":
		if rapid.Bool().Draw(t, "repolimit") {
			p.RepoLimit = 1
		}
		if rapid.IntRange(0, 2).Draw(t, "repolast") == 0 {
			p.Last = "proj/a"
		}
	case "tag-list":
		if p.NTags > 1 && rapid.IntRange(0, 2).Draw(t, "taglast") == 0 {
			p.Last = "t00"
		}
	}
	// servers that answer a whole request class with 5xx for ever (upload must fail, not loop)
	if c.Op == "blob-put-chunked" && rapid.IntRange(0, 5).Draw(t, "cf-forever") == 0 {
		c.ClassFaults = append(c.ClassFaults, ClassFault{Class: rapid.SampledFrom([]string{"upload-patch", "upload-patch", "upload-put", "upload-get"}).Draw(t, "cf-fclass"),
			Nth: rapid.IntRange(0, 2).Draw(t, "cf-fnth"), Times: -1, L: Letter{K: "st", S: rapid.SampledFrom([]int{500, 502, 504}).Draw(t, "cf-fstatus")}})
	}
	// faults aimed at the request classes of the operation (upstream)
	ncf := rapid.SampledFrom([]int{0, 0, 1, 1, 2}).Draw(t, "ncf")
	cls := classesOfOp[c.Op]
	for i := 0; i < ncf && len(cls) > 0; i++ {
		cf := ClassFault{Class: rapid.SampledFrom(cls).Draw(t, "cf-class"), Nth: rapid.IntRange(0, 2).Draw(t, "cf-nth")}
		cf.Times = rapid.SampledFrom([]int{1, 1, 2, 3, -1}).Draw(t, "cf-times")
		switch rapid.IntRange(0, 9).Draw(t, "cf-letter") {
		case 0:
			cf.L = Letter{K: "st", S: 503}
		case 1:
			cf.L = Letter{K: "reset"}
		case 2:
			cf.L = Letter{K: "st", S: 429}
		default:
			cf.L = Letter{K: "st", S: rapid.SampledFrom([]int{500, 502, 504, 408}).Draw(t, "cf-status")}
		}
		c.ClassFaults = append(c.ClassFaults, cf)
	}
	return c
}
