// Package c12 decides C12: bounded retries, recovery from transient faults,
// mirror order for reads and writes that skip mirrors.
//
// Two layers: L1 drives internal/reghttp directly (one Client.Do + reading the
// body = one logical request, so attempts are counted exactly from the model
// log); L2 drives RegClient operations against regmodel.
package c12

import (
	"encoding/json"
	"fmt"
	"net/http"
	"sort"
	"strconv"
	"strings"
	"time"

	"github.com/regclient/regclient/config"
	rm "github.com/regclient/regclient/zz_verif/regmodel"
)

const (
	upName  = "up.example.test"
	othName = "other.example.test"
	repoSrc = "proj/src"
	repoTgt = "proj/tgt"
)

func mirrorName(i int) string { return fmt.Sprintf("m%d.example.test", i+1) }

// Letter is one element of a fault word.
type Letter struct {
	K  string `json:"k"`            // ok | st (status) | reset (before processing) | reseta (after processing) | trunc
	S  int    `json:"s,omitempty"`  // status code (K == st)
	RA string `json:"ra,omitempty"` // Retry-After value (K == st)
	At int    `json:"at,omitempty"` // truncation offset (K == trunc)
}

func (l Letter) String() string {
	switch l.K {
	case "st":
		if l.RA != "" {
			return fmt.Sprintf("%d+ra%s", l.S, l.RA)
		}
		return strconv.Itoa(l.S)
	case "trunc":
		return fmt.Sprintf("trunc@%d", l.At)
	}
	return l.K
}

func wordString(w []Letter, tail *Letter) string {
	p := make([]string, 0, len(w)+1)
	for _, l := range w {
		p = append(p, l.String())
	}
	s := strings.Join(p, ",")
	if tail != nil {
		s += ";" + tail.String() + "*"
	}
	return s
}

// HostSpec describes one configured host: its priority, whether it holds the
// content, and the fault word applied to the successive requests that reach it
// (letter i -> the i-th request received by this host; Tail -> every later one).
type HostSpec struct {
	Prio int      `json:"prio"`
	Has  string   `json:"has"` // has | lacks
	Word []Letter `json:"word,omitempty"`
	Tail *Letter  `json:"tail,omitempty"`
	// host configuration settings a user can give with "regctl registry set"
	Prefix string `json:"prefix,omitempty"`  // pathPrefix (mirror inside a repository namespace)
	NoHead bool   `json:"no_head,omitempty"` // apiOpts disableHead=true
}

// ClassFault targets the requests of one class on the upstream host (L2).
type ClassFault struct {
	Class string `json:"class"`
	Nth   int    `json:"nth"`
	Times int    `json:"times"` // <0 forever
	L     Letter `json:"l"`
}

func transientStatus(s int) bool {
	switch s {
	case 429, 408, 500, 502, 504:
		return true
	}
	return false
}

// raDuration parses a Retry-After value the way HTTP defines delay-seconds
// (integer) plus the fractional form some cases use to keep sleeps short.
// integer tells whether the value is a valid HTTP delay-seconds.
func raDuration(s string) (d time.Duration, integer bool) {
	if s == "" {
		return 0, false
	}
	if n, err := strconv.Atoi(s); err == nil && n > 0 {
		return time.Duration(n) * time.Second, true
	}
	if f, err := strconv.ParseFloat(s, 64); err == nil && f > 0 {
		return time.Duration(f * float64(time.Second)), false
	}
	return 0, false
}

// world is one model instance for a case.
type world struct {
	m       *rm.Model
	t0      time.Time // taken right after the model was created: time.Since(t0) <= model clock
	names   []string // mirrors..., upstream (configuration order)
	spec    map[string]HostSpec
	host    map[string]*rm.Host
	blobLen map[string]int // digest -> length of every blob the case knows
	limit   int
	dInit   time.Duration
	dMax    time.Duration // the largest back-off delay the client can apply (as configured)
	nMirror int
	cfaults []ClassFault
	// hosts named by the URLs of a descriptor (foreign layer): not part of the configured topology,
	// so clauses 4 and 5 (which reason about the client's per-host state) leave them alone
	extNames []string
	extSpec  map[string]HostSpec
	dupFirst bool // the first mirror is listed twice in the configuration
	l2      bool // RegClient layer: bodies may be consumed long after the response arrived
}

func (w *world) prio(h string) int { return w.spec[h].Prio }

func (w *world) isMirror(h string) bool { return h != upName && strings.HasPrefix(h, "m") }

// letterAt returns the word letter that applies to the per-host ordinal.
func (w *world) letterAt(host string, hostSeq int) Letter {
	s, ok := w.spec[host]
	if !ok {
		s, ok = w.extSpec[host]
	}
	if !ok {
		return Letter{K: "ok"}
	}
	if hostSeq < len(s.Word) {
		return s.Word[hostSeq]
	}
	if s.Tail != nil {
		return *s.Tail
	}
	return Letter{K: "ok"}
}

// installFaults turns the host words into a regmodel fault plan. Tails come
// first (they count every request of the host), then class faults, then the
// per-ordinal letters. 401 letters are served by an Intercept hook because the
// realm has to change with every challenge.
func (w *world) installFaults() {
	m := w.m
	all := append(append([]string{}, w.names...), w.extNames...)
	specOf := func(n string) HostSpec {
		if s, ok := w.spec[n]; ok {
			return s
		}
		return w.extSpec[n]
	}
	for _, n := range all {
		s := specOf(n)
		if s.Tail != nil && !(s.Tail.K == "st" && s.Tail.S == 401) {
			if f, ok := letterFault(*s.Tail); ok {
				f.Host = n
				f.Nth = len(s.Word)
				f.Times = -1
				m.AddFault(f)
			}
		}
	}
	for _, cf := range w.cfaults {
		if f, ok := letterFault(cf.L); ok {
			f.Host = upName
			f.Class = cf.Class
			f.Nth = cf.Nth
			f.Times = cf.Times
			m.AddFault(f)
		}
	}
	for _, n := range all {
		s := specOf(n)
		for i, l := range s.Word {
			if l.K == "st" && l.S == 401 {
				continue
			}
			if f, ok := letterFault(l); ok {
				f.Host = n
				f.AtHostSeq = i
				m.AddFault(f)
			}
		}
		name := n
		w.host[n].Intercept = func(_ *rm.Model, _ *rm.Host, e *rm.Entry, _ *http.Request) *rm.Resp {
			l := w.letterAt(name, e.HostSeq)
			if l.K == "st" && l.S == 401 {
				e.Fault = "status-401"
				r := &rm.Resp{Status: 401, Header: http.Header{}, TruncateAt: -1}
				r.Header.Set("WWW-Authenticate", fmt.Sprintf(`Basic realm="r%d"`, e.HostSeq))
				r.Body = []byte(`{"errors":[{"code":"UNAUTHORIZED","message":"injected 401"}]}`)
				return r
			}
			return nil
		}
	}
}

func letterFault(l Letter) (rm.Fault, bool) {
	switch l.K {
	case "st":
		f := rm.NewFault("status")
		f.Status = l.S
		f.RetryAfter = l.RA
		return f, true
	case "reset":
		return rm.NewFault("reset-before"), true
	case "reseta":
		return rm.NewFault("reset-after"), true
	case "trunc":
		f := rm.NewFault("truncate")
		f.At = l.At
		return f, true
	}
	return rm.Fault{}, false
}

// configHosts builds the client-side host configuration of the topology.
//
// reqConcurrent replaces the default of 3 concurrent requests per host: a
// concurrency slot that is not given back (see the slot probe of L1) must show
// up as a counted observation, not as a dead-locked case.
func configHosts(c Case, reqConcurrent int64) map[string]*config.Host {
	if c.Slots > 0 {
		reqConcurrent = int64(c.Slots)
	}
	out := map[string]*config.Host{}
	mk := func(wire string, hs HostSpec) *config.Host {
		h := config.HostNewName(c.cname(wire))
		h.Name = c.cname(wire)
		h.Hostname = wire
		h.Priority = uint(hs.Prio)
		h.ReqConcurrent = reqConcurrent
		if c.ReqPerSec > 0 {
			h.ReqPerSec = float64(c.ReqPerSec)
		}
		h.RepoAuth = c.RepoAuth
		h.PathPrefix = hs.Prefix
		if hs.NoHead {
			h.APIOpts = map[string]string{"disableHead": "true"}
		}
		if c.Creds {
			h.User, h.Pass = "user", "secret"
		}
		return h
	}
	up := mk(upName, c.Up)
	for i, ms := range c.Mirrors {
		n := mirrorName(i)
		out[c.cname(n)] = mk(n, ms)
		up.Mirrors = append(up.Mirrors, c.cname(n))
		if c.DupMirror && i == 0 {
			up.Mirrors = append(up.Mirrors, c.cname(n))
		}
	}
	if c.P.HostChunk {
		up.BlobChunk, up.BlobMax = int64(c.P.Chunk), int64(c.P.MaxPut)
	}
	out[c.cname(upName)] = up
	return out
}

// cname is the name the CLIENT knows a host by. With an alias mode the
// configured Name differs from the Hostname requests are sent to (the docs'
// own mirror example is for Docker Hub, whose name "docker.io" never appears
// on the wire).
func (c Case) cname(wire string) string {
	switch c.Alias {
	case "names":
		return "cfg-" + wire
	case "dockerhub":
		if wire == upName {
			return "docker.io"
		}
		return "cfg-" + wire
	}
	return wire
}

// repoOn is the repository path a host serves repo under.
func (w *world) repoOn(host, repo string) string {
	if p := w.spec[host].Prefix; p != "" {
		return p + "/" + repo
	}
	return repo
}

// normPath strips a mirror's path prefix so that the attempts of one logical
// request compare equal across hosts.
func (w *world) normPath(e *rm.Entry) string {
	if p := w.spec[e.Host].Prefix; p != "" {
		return strings.Replace(e.Path, "/v2/"+p+"/", "/v2/", 1)
	}
	return e.Path
}

// noHeadHosts counts the configured hosts that refuse HEAD (each costs a HEAD
// request one attempt without any HTTP request being sent).
func (w *world) noHeadHosts() int {
	n := 0
	for i, h := range w.names {
		if w.spec[h].NoHead {
			n++
			if i == 0 && w.dupFirst && w.nMirror > 0 {
				n++ // listed twice
			}
		}
	}
	return n
}

// ---------------------------------------------------------------------------
// log classification

type entryClass struct {
	kind    string        // ok | lack | nat-err | transient | lack-injected | other | noeffect | cap
	certain bool          // transient failure that certainly reached the client as a failure
	ra      time.Duration // valid Retry-After carried by a transient status
	raInt   bool
}

func rangeStart(h http.Header) int {
	v := h.Get("Range")
	if !strings.HasPrefix(v, "bytes=") {
		return 0
	}
	v = strings.TrimPrefix(v, "bytes=")
	if i := strings.IndexByte(v, '-'); i >= 0 {
		v = v[:i]
	}
	n, err := strconv.Atoi(v)
	if err != nil || n < 0 {
		return 0
	}
	return n
}

// classify tells what an entry meant for the client.
func (w *world) classify(e *rm.Entry) entryClass {
	switch {
	case e.Fault == "":
		switch {
		case e.Status >= 200 && e.Status < 400:
			return entryClass{kind: "ok"}
		case e.Status == 404:
			return entryClass{kind: "lack"}
		}
		return entryClass{kind: "nat-err"}
	case e.Fault == "cap":
		return entryClass{kind: "cap"}
	case strings.HasPrefix(e.Fault, "status-"):
		s, _ := strconv.Atoi(strings.TrimPrefix(e.Fault, "status-"))
		if transientStatus(s) {
			ec := entryClass{kind: "transient", certain: true}
			if e.RespHeader != nil {
				ec.ra, ec.raInt = raDuration(e.RespHeader.Get("Retry-After"))
			}
			return ec
		}
		if s == 404 || s == 416 {
			return entryClass{kind: "lack-injected"}
		}
		return entryClass{kind: "other"}
	case e.Fault == "reset-before":
		return entryClass{kind: "transient", certain: true}
	case e.Fault == "reset-after":
		if e.Method == "GET" || e.Method == "HEAD" {
			return entryClass{kind: "transient", certain: true}
		}
		return entryClass{kind: "other"}
	case e.Fault == "truncate":
		if e.Method != "GET" || e.Status < 200 || e.Status >= 300 {
			return entryClass{kind: "noeffect"}
		}
		l := w.letterAt(e.Host, e.HostSeq)
		if l.K != "trunc" {
			return entryClass{kind: "other"}
		}
		if e.Class == "blob-get" || e.Class == "external-get" {
			key := e.Ref
			if e.Class == "external-get" {
				key = "ext:" + e.Path
			}
			n, ok := w.blobLen[key]
			if !ok {
				return entryClass{kind: "other"}
			}
			rem := n - rangeStart(e.Header)
			if l.At >= rem {
				return entryClass{kind: "noeffect"}
			}
			// the client notices a cut body when it reads that far: at L1 that is right after the
			// response (nothing else is sent in between); RegClient operations stream bodies while
			// they send other requests, so the moment of the failure is not known there
			return entryClass{kind: "transient", certain: !w.l2}
		}
		if l.At == 0 {
			// every non-blob GET body of the model is non-empty JSON; a cut at 0 is
			// resumable by a plain repeat (no Range needed)
			return entryClass{kind: "transient", certain: false}
		}
		// cut inside a body served by an endpoint without Range support: not resumable
		return entryClass{kind: "other"}
	}
	return entryClass{kind: "other"}
}

// dimClasses labels the configuration dimensions of a case for the evidence histogram.
func dimClasses(c Case) []string {
	out := []string{}
	add := func(cond bool, l string) {
		if cond {
			out = append(out, "dim:"+l)
		}
	}
	add(c.Alias != "", "alias:"+c.Alias)
	add(c.DupMirror, "dup-mirror")
	add(c.Slots > 0, fmt.Sprintf("slots:%d", c.Slots))
	add(c.ReqPerSec > 0, "req-per-sec")
	add(c.RepoAuth, "repo-auth")
	add(c.Creds, "creds")
	add(c.Defaults, "client-defaults")
	add(c.DelayMaxMs > 0 && c.DelayMaxMs < c.DelayInitMs, "delaymax-below-init")
	add(c.DelayMaxMs == 0, "delaymax-unset")
	add(len(c.Mirrors) >= 12, "many-mirrors")
	pre, nh, raOther, raDate := false, c.Up.NoHead, false, false
	scan := func(l Letter) {
		if l.K == "st" && l.RA != "" {
			if _, err := strconv.ParseFloat(l.RA, 64); err != nil {
				raDate = true
			} else if l.S != 429 {
				raOther = true
			}
		}
	}
	for _, h := range append([]HostSpec{c.Up}, c.Mirrors...) {
		pre = pre || h.Prefix != ""
		nh = nh || h.NoHead
		for _, l := range h.Word {
			scan(l)
		}
		if h.Tail != nil {
			scan(*h.Tail)
		}
	}
	add(pre, "path-prefix")
	add(nh, "disable-head")
	add(raOther, "retry-after-on-5xx")
	add(raDate, "retry-after-http-date")
	for _, r := range c.Reqs {
		add(r.Ctx != "", "ctx:"+r.Ctx)
	}
	p := c.P
	add(p.CancelAt > 0, "ctx:cancel-at-request")
	add(p.Cache, "cache")
	add(p.HostChunk, "host-chunk")
	add(p.BlobLimit > 0, "blob-limit")
	add(p.Sha512, "sha512")
	add(p.Platform, "platform")
	add(p.RequireDigest, "require-digest")
	add(p.ByTag, "referrers-by-tag")
	add(p.ArtifactType, "referrers-artifact-type")
	add(p.RepoLimit > 0 || p.Last != "", "list-limit-last")
	add(p.ExtURLs > 0, fmt.Sprintf("external-urls:%d", p.ExtURLs))
	add(p.ExtDead != "", "external-first-url-dead:"+p.ExtDead)
	return out
}

func caseJSON(c Case) string {
	b, _ := json.Marshal(c)
	return string(b)
}

func sortedHostNames(m map[string]bool) []string {
	out := make([]string, 0, len(m))
	for k := range m {
		out = append(out, k)
	}
	sort.Strings(out)
	return out
}

func dumpLog(es []*rm.Entry) string {
	var sb strings.Builder
	for _, x := range es {
		q := ""
		if x.RawQuery != "" {
			q = "?" + x.RawQuery
		}
		fmt.Fprintf(&sb, "#%d %s[%d] %s %s%s cr=%q -> %d %s %s arr=%v done=%v\n", x.Seq, strings.TrimSuffix(x.Host, ".example.test"), x.HostSeq, x.Method, x.Path, q,
			x.Header.Get("Content-Range"), x.Status, x.Fault, x.Note, x.Arrive.Round(10*time.Microsecond), x.Done.Round(10*time.Microsecond))
	}
	return sb.String()
}
