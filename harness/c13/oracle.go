package c13

// oracle.go: the independent well-formedness audit of an image closure in raw
// storage. encoding/json into generic structures, crypto/sha256|sha512,
// compress/gzip and klauspost zstd only; nothing here goes through regclient.

import (
	"bytes"
	"compress/gzip"
	"crypto/sha256"
	"crypto/sha512"
	"encoding/base64"
	"encoding/hex"
	"encoding/json"
	"fmt"
	"io"
	"sort"
	"strings"

	"github.com/klauspost/compress/zstd"

	"github.com/regclient/regclient/zz_verif/audit"
)

// finding is one violated clause (the signature is completed by the caller).
type finding struct {
	Clause string
	Msg    string
	// evidence used to recognise catalogued defect mechanisms
	Digest      string // digest of the offending descriptor
	MediaType   string // its media type
	DataIsIndex bool   // offending inline data parses as an index body
}

func fnd(clause, format string, a ...any) *finding {
	return &finding{Clause: clause, Msg: fmt.Sprintf(format, a...)}
}

func hashAs(dig string, b []byte) (string, bool) {
	alg, hx, ok := strings.Cut(dig, ":")
	if !ok {
		return "", false
	}
	switch alg {
	case "sha256":
		if len(hx) != 64 {
			return "", false
		}
		s := sha256.Sum256(b)
		return "sha256:" + hex.EncodeToString(s[:]), true
	case "sha512":
		if len(hx) != 128 {
			return "", false
		}
		s := sha512.Sum512(b)
		return "sha512:" + hex.EncodeToString(s[:]), true
	}
	return "", false
}

// decompress sniffs the stream type and returns the uncompressed bytes.
func decompress(b []byte) (out []byte, comp string, err error) {
	switch {
	case bytes.HasPrefix(b, []byte{0x1f, 0x8b}):
		zr, err := gzip.NewReader(bytes.NewReader(b))
		if err != nil {
			return nil, "gzip", err
		}
		out, err = io.ReadAll(zr)
		return out, "gzip", err
	case bytes.HasPrefix(b, []byte{0x28, 0xb5, 0x2f, 0xfd}):
		zr, err := zstd.NewReader(bytes.NewReader(b), zstd.WithDecoderConcurrency(1))
		if err != nil {
			return nil, "zstd", err
		}
		defer zr.Close()
		out, err = io.ReadAll(zr)
		return out, "zstd", err
	}
	return b, "none", nil
}

// compOfMT returns the compression a known layer media type promises ("" = unknown type).
func compOfMT(mt string) string {
	switch mt {
	case mtOCILayer, mtDocLayer, mtOCIForeign:
		return "none"
	case mtOCILayerGz, mtDocLayerGz, mtOCIForeignGz, mtDocForeign:
		return "gzip"
	case mtOCILayerZs, mtDocLayerZs, mtOCIForeignZs:
		return "zstd"
	}
	return ""
}

type gDesc struct {
	MediaType   string            `json:"mediaType"`
	Digest      string            `json:"digest"`
	Size        *int64            `json:"size"`
	URLs        []string          `json:"urls"`
	Data        *string           `json:"data"`
	Annotations map[string]string `json:"annotations"`
}

type gManifest struct {
	SchemaVersion int      `json:"schemaVersion"`
	MediaType     string   `json:"mediaType"`
	Config        *gDesc   `json:"config"`
	Layers        []gDesc  `json:"layers"`
	Manifests     *[]gDesc `json:"manifests"`
	Subject       *gDesc   `json:"subject"`
}

type gConfig struct {
	RootFS struct {
		DiffIDs []string `json:"diff_ids"`
	} `json:"rootfs"`
	History []struct {
		EmptyLayer bool `json:"empty_layer"`
	} `json:"history"`
}

func isManifestMT(mt string) bool {
	switch mt {
	case mtOCIManifest, mtOCIIndex, mtDocManifest, mtDocList:
		return true
	}
	return false
}

// auditResult lists what the walk reached.
type auditResult struct {
	Manifests map[string]string // digest -> media type
	Blobs     map[string]bool
}

type auditor struct {
	v     audit.View
	isReg bool
	res   auditResult
}

// checkDesc verifies one descriptor against storage. kind names the role
// (config, layer, index-entry, subject). It returns the stored bytes (nil when
// the content is legitimately external).
func (a *auditor) checkDesc(kind, parent string, d gDesc) ([]byte, *finding) {
	if _, ok := hashAs(d.Digest, nil); !ok {
		return nil, fnd(kind+"-digest-malformed", "%s descriptor in %s has malformed digest %q", kind, parent, d.Digest)
	}
	if d.MediaType == "" {
		// required by the image spec; without it nothing says how the content is encoded
		f := fnd(kind+"-mediatype-empty", "%s descriptor %s in %s has no mediaType", kind, d.Digest, parent)
		f.Digest = d.Digest
		return nil, f
	}
	var inline []byte
	hasInline := false
	if d.Data != nil && *d.Data != "" {
		dec, err := base64.StdEncoding.DecodeString(*d.Data)
		if err != nil {
			return nil, fnd(kind+"-data-mismatch", "%s descriptor %s in %s: data field is not base64: %v", kind, d.Digest, parent, err)
		}
		inline, hasInline = dec, true
		if h, _ := hashAs(d.Digest, dec); h != d.Digest {
			f := fnd(kind+"-data-mismatch", "%s descriptor %s in %s carries inline data (%d bytes) that hashes to %s", kind, d.Digest, parent, len(dec), h)
			var probe struct {
				Manifests *[]json.RawMessage `json:"manifests"`
			}
			f.DataIsIndex = json.Unmarshal(dec, &probe) == nil && probe.Manifests != nil
			f.Digest, f.MediaType = d.Digest, d.MediaType
			return nil, f
		}
	}
	b, storedMT, ok := a.v.Get(d.Digest)
	if !ok {
		if len(d.URLs) > 0 {
			return nil, nil // external content is not stored at the target by design
		}
		f := fnd(kind+"-missing-at-target", "%s %s (%s) referenced by %s does not exist at the target", kind, d.Digest, d.MediaType, parent)
		f.Digest, f.MediaType = d.Digest, d.MediaType
		return nil, f
	}
	if h, _ := hashAs(d.Digest, b); h != d.Digest {
		return nil, fnd(kind+"-content-digest-mismatch", "%s %s referenced by %s: stored bytes hash to %s", kind, d.Digest, parent, h)
	}
	if d.Size == nil || *d.Size != int64(len(b)) {
		sz := int64(-1)
		if d.Size != nil {
			sz = *d.Size
		}
		return nil, fnd(kind+"-size-mismatch", "%s descriptor %s in %s states size %d, stored content has %d bytes", kind, d.Digest, parent, sz, len(b))
	}
	if hasInline && !bytes.Equal(inline, b) {
		return nil, fnd(kind+"-data-mismatch", "%s descriptor %s in %s: inline data differs from the stored content", kind, d.Digest, parent)
	}
	if kind == "index-entry" || kind == "subject" || kind == "referrer" {
		var probe struct {
			MediaType string `json:"mediaType"`
		}
		if err := json.Unmarshal(b, &probe); err != nil {
			return nil, fnd(kind+"-unparsable", "%s %s referenced by %s is not JSON: %v", kind, d.Digest, parent, err)
		}
		if probe.MediaType != "" && d.MediaType != "" && probe.MediaType != d.MediaType {
			return nil, fnd(kind+"-mediatype-mismatch", "%s descriptor %s in %s states media type %s, the manifest body says %s", kind, d.Digest, parent, d.MediaType, probe.MediaType)
		}
		if a.isReg && storedMT != "" && d.MediaType != "" && storedMT != d.MediaType {
			return nil, fnd(kind+"-mediatype-mismatch", "%s descriptor %s in %s states media type %s, the registry stores it as %s", kind, d.Digest, parent, d.MediaType, storedMT)
		}
	}
	return b, nil
}

// manifest audits the manifest stored under digest d (already verified by the
// caller's descriptor check, or the root) and everything below it.
func (a *auditor) manifest(d string, mt string, body []byte) *finding {
	if _, seen := a.res.Manifests[d]; seen {
		return nil
	}
	a.res.Manifests[d] = mt
	var m gManifest
	if err := json.Unmarshal(body, &m); err != nil {
		return fnd("manifest-unparsable", "manifest %s is not JSON: %v", d, err)
	}
	if m.MediaType != "" && mt != "" && m.MediaType != mt {
		return fnd("manifest-mediatype-mismatch", "manifest %s is stored/named as %s but its body says %s", d, mt, m.MediaType)
	}
	if m.Manifests != nil {
		for i, e := range *m.Manifests {
			b, f := a.checkDesc("index-entry", d, e)
			if f != nil {
				f.Msg = fmt.Sprintf("entry %d: %s", i, f.Msg)
				return f
			}
			if b == nil {
				continue
			}
			if !isManifestMT(e.MediaType) {
				a.res.Blobs[e.Digest] = true
				continue
			}
			if f := a.manifest(e.Digest, e.MediaType, b); f != nil {
				return f
			}
		}
		return nil
	}
	// image manifest
	var cfgBytes []byte
	if m.Config != nil && m.Config.Digest != "" {
		b, f := a.checkDesc("config", d, *m.Config)
		if f != nil {
			return f
		}
		cfgBytes = b
		a.res.Blobs[m.Config.Digest] = true
	}
	layerBytes := make([][]byte, len(m.Layers))
	for i, l := range m.Layers {
		b, f := a.checkDesc("layer", d, l)
		if f != nil {
			f.Msg = fmt.Sprintf("layer %d: %s", i, f.Msg)
			return f
		}
		layerBytes[i] = b
		a.res.Blobs[l.Digest] = true
	}
	if m.Subject != nil && m.Subject.Digest != "" {
		if _, f := a.checkDesc("subject", d, *m.Subject); f != nil {
			return f
		}
	}
	if cfgBytes == nil || m.Config == nil || (m.Config.MediaType != mtOCIConfig && m.Config.MediaType != mtDocConfig) {
		return nil
	}
	var cfg gConfig
	if err := json.Unmarshal(cfgBytes, &cfg); err != nil {
		return fnd("config-unparsable", "config %s of %s is not JSON: %v", m.Config.Digest, d, err)
	}
	if len(cfg.RootFS.DiffIDs) != len(m.Layers) {
		return fnd("diffids-count-mismatch", "manifest %s has %d layers, its config %s lists %d diff_ids", d, len(m.Layers), m.Config.Digest, len(cfg.RootFS.DiffIDs))
	}
	for i, l := range m.Layers {
		if layerBytes[i] == nil {
			continue
		}
		uc, comp, err := decompress(layerBytes[i])
		if err != nil {
			return fnd("layer-undecodable", "layer %d (%s, %s) of %s cannot be decompressed as %s: %v", i, l.Digest, l.MediaType, d, comp, err)
		}
		if want := compOfMT(l.MediaType); want != "" && want != comp {
			return fnd("layer-mediatype-compression-mismatch", "layer %d (%s) of %s has media type %s but its content is %s-encoded", i, l.Digest, d, l.MediaType, comp)
		}
		h, ok := hashAs(cfg.RootFS.DiffIDs[i], uc)
		if !ok {
			return fnd("diffid-malformed", "config %s of %s: diff_ids[%d] = %q is not a digest", m.Config.Digest, d, i, cfg.RootFS.DiffIDs[i])
		}
		if h != cfg.RootFS.DiffIDs[i] {
			f := fnd("diffid-mismatch", "manifest %s layer %d (%s, %q): uncompressed content hashes to %s, config %s says diff_ids[%d] = %s",
				d, i, l.Digest, l.MediaType, h, m.Config.Digest, i, cfg.RootFS.DiffIDs[i])
			f.Digest, f.MediaType = l.Digest, l.MediaType
			return f
		}
	}
	if len(cfg.History) > 0 {
		n := 0
		for _, h := range cfg.History {
			if !h.EmptyLayer {
				n++
			}
		}
		if n != len(m.Layers) {
			return fnd("history-layer-count-mismatch", "manifest %s has %d layers, its config %s has %d history entries that are not empty_layer (of %d)", d, len(m.Layers), m.Config.Digest, n, len(cfg.History))
		}
	}
	return nil
}

// auditWritten audits every manifest that exists in the view but not in the
// pre-state (i.e. was written by the call), whether or not the result refers to it.
func auditWritten(v audit.View, isReg bool, pre map[string][]byte) *finding {
	a := &auditor{v: v, isReg: isReg, res: auditResult{Manifests: map[string]string{}, Blobs: map[string]bool{}}}
	for _, d := range v.Digests() {
		if _, had := pre[d]; had {
			continue
		}
		body, mt, ok := v.Get(d)
		if !ok || len(body) == 0 || body[0] != '{' {
			continue
		}
		var probe struct {
			SchemaVersion *int   `json:"schemaVersion"`
			MediaType     string `json:"mediaType"`
		}
		if json.Unmarshal(body, &probe) != nil || probe.SchemaVersion == nil {
			continue // a blob
		}
		if h, _ := hashAs(d, body); h != d {
			return fnd("written-manifest-digest-mismatch", "manifest written under %s hashes to %s", d, h)
		}
		if mt == "" {
			mt = probe.MediaType
		}
		if f := a.manifest(d, mt, body); f != nil {
			f.Clause = "written-" + f.Clause
			return f
		}
	}
	return nil
}

// auditClosure audits the image rooted at root in view v, then the manifests
// at v whose subject is a manifest of that closure (referrers), and the
// referrers fall-back indexes of closure manifests.
func auditClosure(v audit.View, isReg bool, root string) (auditResult, *finding) {
	a := &auditor{v: v, isReg: isReg, res: auditResult{Manifests: map[string]string{}, Blobs: map[string]bool{}}}
	body, mt, ok := v.Get(root)
	if !ok {
		return a.res, fnd("result-manifest-missing-at-target", "the returned reference names %s, which does not exist at the target", root)
	}
	if h, okh := hashAs(root, body); !okh || h != root {
		return a.res, fnd("result-manifest-digest-mismatch", "content stored under the returned digest %s hashes to %s", root, h)
	}
	if mt == "" {
		var probe struct {
			MediaType string `json:"mediaType"`
		}
		_ = json.Unmarshal(body, &probe)
		mt = probe.MediaType
	}
	if f := a.manifest(root, mt, body); f != nil {
		return a.res, f
	}
	// referrers: every stored manifest whose subject is in the closure
	for changed := true; changed; {
		changed = false
		for _, dg := range v.Digests() {
			if _, seen := a.res.Manifests[dg]; seen {
				continue
			}
			data, smt, ok := v.Get(dg)
			if !ok || len(data) == 0 || data[0] != '{' {
				continue
			}
			var m gManifest
			if json.Unmarshal(data, &m) != nil || m.Subject == nil {
				continue
			}
			if _, in := a.res.Manifests[m.Subject.Digest]; !in {
				continue
			}
			if h, _ := hashAs(dg, data); h != dg {
				continue
			}
			if smt == "" {
				smt = m.MediaType
			}
			if f := a.manifest(dg, smt, data); f != nil {
				f.Clause = "referrer-" + f.Clause
				return a.res, f
			}
			changed = true
		}
	}
	// fall-back indexes of closure manifests
	mds := make([]string, 0, len(a.res.Manifests))
	for md := range a.res.Manifests {
		mds = append(mds, md)
	}
	sort.Strings(mds)
	for _, md := range mds {
		ft := strings.Replace(md, ":", "-", 1)
		fd, ok := v.Tag(ft)
		if !ok {
			continue
		}
		data, _, ok := v.Get(fd)
		if !ok {
			return a.res, fnd("fallback-index-missing", "referrers fall-back tag %s names %s, which does not exist", ft, fd)
		}
		var m gManifest
		if err := json.Unmarshal(data, &m); err != nil || m.Manifests == nil {
			return a.res, fnd("fallback-index-unparsable", "referrers fall-back tag %s names %s, which is not an index", ft, fd)
		}
		for _, e := range *m.Manifests {
			if _, f := a.checkDesc("referrer", fd, e); f != nil {
				f.Clause = "fallback-" + f.Clause
				return a.res, f
			}
		}
	}
	return a.res, nil
}
