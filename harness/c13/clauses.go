package c13

// clauses.go: the oracle clauses that need knowledge of the generated source (frame
// condition, history alignment, index correspondence, result resolution) and the
// recognisers of catalogued defect mechanisms. Shared by the API engine
// (c13_test.go) and the CLI engine (harness/inpkg/cmd/regctl/verif_c13_cli_test.go).

import (
	"bytes"
	"encoding/json"
	"fmt"
	"os"
	"regexp"
	"sort"
	"strings"

	"github.com/regclient/regclient/types/ref"
)

// sourceUntouched verifies the frame condition on raw source storage.
func sourceUntouched(e *env, stage string) *finding {
	if e.c.Tgt == "replace" && e.c.SrcForm != "digest" {
		return nil // the source tag is (part of) the target reference
	}
	v := e.src.view()
	d, ok := v.Tag(srcTag)
	if !ok {
		return fnd(stage+"source-tag-lost", "source tag %s no longer exists (target mode %s)", srcTag, e.c.Tgt)
	}
	if d != e.b.Top {
		return fnd(stage+"source-tag-moved", "source tag %s resolves to %s, was %s (target mode %s)", srcTag, d, e.b.Top, e.c.Tgt)
	}
	keys := make([]string, 0, len(e.b.Blobs)+len(e.b.Manifests))
	for k := range e.b.Blobs {
		keys = append(keys, k)
	}
	for k := range e.b.Manifests {
		keys = append(keys, k)
	}
	sort.Strings(keys)
	for _, k := range keys {
		want, isBlob := e.b.Blobs[k]
		if !isBlob {
			want = e.b.Manifests[k].Body
		}
		got, _, ok := v.Get(k)
		if !ok {
			return fnd(stage+"source-content-lost", "%s of the source closure no longer exists at the source (target mode %s)", k, e.c.Tgt)
		}
		if !bytes.Equal(got, want) {
			return fnd(stage+"source-content-changed", "%s of the source closure has different bytes at the source", k)
		}
	}
	// stores that list referrers through the fall-back tag: the source's listing must still name its referrers
	if e.src.Kind == "layout" || !e.c.RefAPI {
		subjs := make([]string, 0, len(e.b.RefBySubj))
		for s := range e.b.RefBySubj {
			subjs = append(subjs, s)
		}
		sort.Strings(subjs)
		for _, s := range subjs {
			ft := strings.Replace(s, ":", "-", 1)
			fd, ok := v.Tag(ft)
			if !ok {
				return fnd(stage+"source-referrers-listing-lost", "fall-back tag %s of source manifest %s no longer exists", ft, s)
			}
			body, _, _ := v.Get(fd)
			for _, rd := range e.b.RefBySubj[s] {
				if !bytes.Contains(body, []byte(rd)) {
					return fnd(stage+"source-referrers-listing-lost", "fall-back index %s of source manifest %s no longer lists referrer %s", fd, s, rd)
				}
			}
		}
	}
	return nil
}

// historyAlignment: a layer whose uncompressed content is that of a source or base
// layer (same diff_id: untouched or merely recompressed) must still be described
// by the history entry it had: the created_by of the non-empty history entry at
// its position is one the generator gave a layer with that content (every
// generated created_by is unique).
func historyAlignment(e *env, root string) *finding {
	if hasKind(e.c, func(k string) bool { return k == "buildarg-rm" }) {
		return nil // rewrites created_by texts
	}
	// diff_id -> set of created_by, from everything that was materialised (layers with
	// the same uncompressed content are interchangeable)
	by := map[string]map[string]bool{}
	add := func(layers []LayerSpec, hist []HistSpec) {
		j := 0
		for _, h := range hist {
			if h.Empty {
				continue
			}
			if j >= len(layers) {
				return
			}
			tokened := false
			for _, f := range layers[j].Files {
				tokened = tokened || f.Token != ""
			}
			if tokened { // only layers whose content no other layer can be rewritten into
				d := sha256Dig(tarBytes(layers[j].Files))
				if by[d] == nil {
					by[d] = map[string]bool{}
				}
				by[d][h.CreatedBy] = true
			}
			j++
		}
	}
	for _, im := range e.c.Images {
		if im.History == nil {
			continue
		}
		p := partsOf(e.c, im)
		add(p.layers, p.hist)
	}
	if e.c.Base != nil {
		add(e.c.Base.OldLayers, e.c.Base.OldHist)
		add(e.c.Base.NewLayers, e.c.Base.NewHist)
	}
	// an added layer may happen to have the content of a source layer: not judged
	for _, o := range e.c.Program {
		if o.Kind == "layer-add" && o.Layer != nil {
			delete(by, sha256Dig(tarBytes(o.Layer.Files)))
		}
	}
	v := e.tgt.view()
	var walk func(d string, depth int) *finding
	walk = func(d string, depth int) *finding {
		body, _, ok := v.Get(d)
		if !ok || depth > 3 {
			return nil
		}
		var m gManifest
		if json.Unmarshal(body, &m) != nil {
			return nil
		}
		if m.Manifests != nil {
			for _, en := range *m.Manifests {
				if isManifestMT(en.MediaType) {
					if f := walk(en.Digest, depth+1); f != nil {
						return f
					}
				}
			}
			return nil
		}
		if m.Config == nil || (m.Config.MediaType != mtOCIConfig && m.Config.MediaType != mtDocConfig) {
			return nil
		}
		cb, _, ok := v.Get(m.Config.Digest)
		if !ok {
			return nil
		}
		var cfg struct {
			RootFS struct {
				DiffIDs []string `json:"diff_ids"`
			} `json:"rootfs"`
			History []struct {
				CreatedBy  string `json:"created_by"`
				EmptyLayer bool   `json:"empty_layer"`
			} `json:"history"`
		}
		if json.Unmarshal(cb, &cfg) != nil || len(cfg.History) == 0 {
			return nil
		}
		var ne []string
		for _, h := range cfg.History {
			if !h.EmptyLayer {
				ne = append(ne, h.CreatedBy)
			}
		}
		if len(ne) != len(m.Layers) || len(cfg.RootFS.DiffIDs) != len(m.Layers) {
			return nil // reported by the count clauses
		}
		for j, l := range m.Layers {
			want, known := by[cfg.RootFS.DiffIDs[j]]
			if !known {
				continue // a rewritten or added layer
			}
			if !want[ne[j]] {
				return fnd("history-misaligned", "manifest %s: layer %d (%s, diff_id %s) has the content of a source layer created by %v, but the history entry at its position says %q", d, j, l.Digest, cfg.RootFS.DiffIDs[j], keysOf(want), ne[j])
			}
		}
		return nil
	}
	return walk(root, 0)
}

// indexCorrespondence: "index entries name the rewritten children". The result index
// has the source's entries in the source's order (only to-oci-referrers removes
// entries); entries that named the same child in the source name the same child in
// the result (the same input under the same options), and the child an entry names
// is the one derived from the source child of that entry (its config has that
// image's architecture / variant; the generator gives every image its own).
func indexCorrespondence(e *env, root string) *finding {
	b := e.b
	if !b.IsIndex || hasKind(e.c, func(k string) bool { return k == "to-oci-referrers" }) {
		return nil
	}
	v := e.tgt.view()
	read := func(d string) *gManifest {
		body, _, ok := v.Get(d)
		if !ok {
			return nil
		}
		var m gManifest
		if json.Unmarshal(body, &m) != nil {
			return nil
		}
		return &m
	}
	idx, idxDig := read(root), root
	if b.Nested && idx != nil && idx.Manifests != nil && len(*idx.Manifests) == 1 {
		idxDig = (*idx.Manifests)[0].Digest
		idx = read(idxDig)
	}
	if idx == nil || idx.Manifests == nil {
		return fnd("index-result-is-not-an-index", "the source is an index, the result %s is not", root)
	}
	res := *idx.Manifests
	if len(res) != len(b.EntryImage) {
		return fnd("index-entry-count-changed", "the source index has %d entries, the result index %s has %d (no option removes entries)", len(b.EntryImage), idxDig, len(res))
	}
	for i := range res {
		for j := i + 1; j < len(res); j++ {
			if b.EntryImage[i] == b.EntryImage[j] && res[i].Digest != res[j].Digest {
				return fnd("index-duplicate-entries-diverge", "entries %d and %d of the source index name the same child, in the result index %s they name %s and %s", i, j, idxDig, res[i].Digest, res[j].Digest)
			}
		}
	}
	if hasKind(e.c, func(k string) bool { return k == "config-platform" }) {
		return nil
	}
	for i, en := range res {
		img := b.EntryImage[i]
		if img < 0 || img >= len(e.c.Images) {
			continue
		}
		m := read(en.Digest)
		if m == nil || m.Config == nil {
			continue // reported by the closure audit
		}
		cb, _, ok := v.Get(m.Config.Digest)
		if !ok {
			continue
		}
		var cfg struct {
			Architecture string `json:"architecture"`
			Variant      string `json:"variant"`
		}
		if json.Unmarshal(cb, &cfg) != nil {
			continue
		}
		want := platOf(e.c.Images[img].Arch)
		if cfg.Architecture != want.Architecture || cfg.Variant != want.Variant {
			return fnd("index-entry-names-child-of-other-entry", "entry %d of the result index %s names %s, whose config is %s/%s; the source entry at that position names the %s/%s image",
				i, idxDig, en.Digest, cfg.Architecture, cfg.Variant, want.Architecture, want.Variant)
		}
	}
	return nil
}

func keysOf(m map[string]bool) []string {
	out := []string{}
	for k := range m {
		out = append(out, k)
	}
	sort.Strings(out)
	return out
}

// resultDigest resolves the returned reference in raw target storage. Not asserted:
// when the top manifest is not modified and the target is a tag in the source
// repository, Apply does not push the top manifest, so the tag is not created (or a
// pre-existing tag is not moved). The statement promises properties of what is
// written, not that a tag appears; if no manifest other than referrers (and their
// fall-back indexes) was written, the resulting image is the source image.
func (e *env) resultDigest(r ref.Ref, pre snapshot) (dig string, tagNotWritten bool, f *finding) {
	d, tag, ok := e.resolve(r)
	if ok && !(tag != "" && e.staleDigest != "" && d == e.staleDigest) {
		return d, false, nil
	}
	post := snap(e.tgt.view())
	if e.tgt.same(e.src) && onlyReferrersWritten(pre, post) {
		return e.b.Top, true, nil
	}
	if ok {
		return "", false, fnd("target-tag-not-updated", "Apply returned %s and wrote manifests to the target, but tag %q still names the manifest it named before the call (mode %s)", r.CommonName(), tag, e.c.Tgt)
	}
	return "", false, fnd("result-tag-absent-at-target", "Apply returned %s and wrote manifests to the target, but tag %q does not exist there (mode %s)", r.CommonName(), tag, e.c.Tgt)
}

// onlyReferrersWritten: every manifest present in post but not in pre carries a
// subject or is named by a referrers fall-back tag, and no pre-existing tag moved.
func onlyReferrersWritten(pre, post snapshot) bool {
	fallback := map[string]bool{}
	for t, d := range post.Tags {
		if strings.HasPrefix(t, "sha256-") || strings.HasPrefix(t, "sha512-") {
			fallback[d] = true
			continue
		}
		if pre.Tags[t] != d {
			return false
		}
	}
	for d, body := range post.Content {
		if _, had := pre.Content[d]; had || fallback[d] {
			continue
		}
		var probe struct {
			SchemaVersion *int            `json:"schemaVersion"`
			Subject       json.RawMessage `json:"subject"`
			Manifests     *[]gDesc        `json:"manifests"`
		}
		if len(body) == 0 || body[0] != '{' || json.Unmarshal(body, &probe) != nil || probe.SchemaVersion == nil {
			continue // a blob
		}
		if len(probe.Subject) > 0 {
			continue // a referrer
		}
		// an index that lists only referrers is a (possibly superseded) fall-back index
		isRefList := probe.Manifests != nil
		if isRefList {
			for _, en := range *probe.Manifests {
				var sub struct {
					Subject json.RawMessage `json:"subject"`
				}
				if eb, ok := post.Content[en.Digest]; !ok || json.Unmarshal(eb, &sub) != nil || len(sub.Subject) == 0 {
					isRefList = false
				}
			}
		}
		if !isRefList {
			return false
		}
	}
	return true
}

func snapEqual(a, b snapshot) bool {
	if len(a.Content) != len(b.Content) || len(a.Tags) != len(b.Tags) {
		return false
	}
	for k, v := range a.Content {
		if w, ok := b.Content[k]; !ok || !bytes.Equal(v, w) {
			return false
		}
	}
	for k, v := range a.Tags {
		if b.Tags[k] != v {
			return false
		}
	}
	return true
}

func truncate(s string, n int) string {
	if len(s) > n {
		return s[:n] + "…"
	}
	return s
}

func progString(p []OptSpec) string {
	parts := []string{}
	for _, o := range p {
		s := o.Kind
		switch {
		case o.Name != "" || o.Value != "":
			s += fmt.Sprintf("(%q,%q)", o.Name, o.Value)
		case o.Algo != "":
			s += "(" + o.Algo + ")"
		case o.Set != 0 || o.After != 0:
			s += fmt.Sprintf("(set=%d,after=%d)", o.Set, o.After)
		case o.Kind == "data" || o.Kind == "layer-rm-index":
			s += fmt.Sprintf("(%d)", o.N)
		}
		parts = append(parts, s)
	}
	return "[" + strings.Join(parts, " ") + "]"
}

const emptyBlobDigest = "sha256:e3b0c44298fc1c149afbf4c8996fb92427ae41e4649b934ca495991b7852b855"

func hasKind(c Case, pred func(string) bool) bool {
	for _, o := range c.Program {
		if pred(o.Kind) {
			return true
		}
	}
	return false
}

// recognise maps a finding onto the signature of a catalogued defect mechanism
// when the evidence (what exactly is wrong in the result) and the trigger match;
// "" = not recognised (the signature is then clause + responsible options).
// After a fix the mechanism's evidence no longer occurs; anything else that
// violates the same clause keeps its own, different signature.
func recognise(c Case, b *built, f *finding) string {
	if os.Getenv("VERIF_C13_NORECOGNISE") != "" {
		return "" // debugging aid: report catalogued mechanisms under their clause signature
	}
	if strings.HasPrefix(f.Clause, "chain-") {
		// the second program's options count as triggers too
		c.Program = append(append([]OptSpec{}, c.Program...), c.Chain...)
	}
	// a caching client (regctl's default) hands the SAME manifest object to both dag nodes of an index
	// entry pair that names one child: the second node finds the first one's edits already made (keeps the
	// stale digest) or applies an insertion twice (slice bounds panic in dagPut)
	if (c.Cache || c.CLI) && c.Src == "reg" && c.Index != "" && c.EntryOrder != nil {
		cl := strings.TrimPrefix(f.Clause, "chain-")
		cl = strings.TrimPrefix(strings.TrimPrefix(strings.TrimPrefix(cl, "after-close-"), "written-"), "referrer-")
		if cl == "index-duplicate-entries-diverge" || strings.Contains(cl, "panic@mod/") || strings.HasPrefix(cl, "layer-") || strings.HasPrefix(cl, "diffid") ||
			strings.HasPrefix(cl, "history-") || strings.HasPrefix(cl, "index-entry-") || strings.HasPrefix(cl, "config-") {
			return "duplicate-index-entries-share-cached-manifest"
		}
	}
	// index entries carried inline data that the first call removed; the child manifests it pushed stay in the
	// client's cache with the descriptor they were FETCHED with (data included), and dagPut of the next call
	// takes "this entry has a data field" from that descriptor: it puts the data back
	if strings.HasPrefix(f.Clause, "chain-") && c.Cache && c.ChildData && c.Src == "reg" && hasKind(c, func(k string) bool { return k == "data" }) {
		return "index-entry-data-taken-from-fetched-descriptor"
	}
	if i := strings.Index(f.Clause, "apply-panic@"); i >= 0 {
		frame := f.Clause[i+len("apply-panic@"):]
		noCreated := false
		hists := [][]HistSpec{}
		for _, im := range c.Images {
			hists = append(hists, im.History)
		}
		if c.Base != nil {
			hists = append(hists, c.Base.OldHist, c.Base.NewHist)
		}
		for _, hs := range hists {
			for _, h := range hs {
				noCreated = noCreated || h.NoCreated
			}
		}
		// a history entry without the (optional) created field is dereferenced
		if noCreated && (strings.HasPrefix(frame, "mod/config.go") || strings.HasPrefix(frame, "mod/manifest.go")) {
			return "apply-panic-history-entry-without-created"
		}
		// a manifest without an image config (artifact): dm.config is nil and dereferenced
		if c.Artifact != nil && strings.HasPrefix(frame, "mod/layer.go") {
			return "apply-panic-manifest-without-image-config"
		}
		return ""
	}
	clause := strings.TrimPrefix(strings.TrimPrefix(strings.TrimPrefix(strings.TrimPrefix(f.Clause, "chain-"), "after-close-"), "written-"), "referrer-")
	isFileStep := func(k string) bool { return fileStepKinds[k] }
	switch clause {
	case "index-entry-data-mismatch":
		// the data field of an index entry holds an index body (the parent's), not the child manifest
		if f.DataIsIndex {
			return "index-entry-data-is-parent-index-body"
		}
	case "diffid-mismatch":
		// an added layer was replaced by the empty blob with an empty descriptor
		if f.Digest == emptyBlobDigest && f.MediaType == "" && hasKind(c, func(k string) bool { return k == "layer-add" }) && hasKind(c, isFileStep) {
			return "added-layer-replaced-by-empty-blob-after-file-step"
		}
	case "layer-missing-at-target":
		// source in a layout, a digest-algorithm step followed by a compression step: the descriptor names a
		// sha512 digest that was never pushed (a second Close of the reader chain re-ran the digest side
		// effects of the digest-algorithm step after the compression step had set the real digest)
		if strings.HasPrefix(f.Digest, "sha512:") && c.Src == "layout" {
			seenAlgo := false
			for _, o := range c.Program {
				if (o.Kind == "layer-digest-algo" || o.Kind == "digest-algo") && o.Algo == "sha512" {
					seenAlgo = true
				}
				if o.Kind == "layer-compress" && seenAlgo {
					return "layer-digest-from-digest-algo-step-after-double-close"
				}
			}
		}
		// a formerly external layer whose urls were removed was not copied to the other repository
		if c.Tgt != "default" && c.Tgt != "tag" && c.Tgt != "replace" && hasKind(c, func(k string) bool { return k == "external-urls-rm" }) {
			for _, m := range b.Images {
				for _, l := range m.Layers {
					if l.Foreign && l.Digest == f.Digest {
						return "external-layer-not-copied-after-urls-removed"
					}
				}
			}
		}
	case "subject-data-mismatch":
		// index entries carry inline data, a child with a referrer gets a new digest algorithm: the rebuilt
		// manifest keeps the old descriptor's data field (the old, differently serialised body) and the
		// re-pushed referrer's subject carries it
		if c.ChildData && hasKind(c, func(k string) bool { return k == "manifest-digest-algo" || k == "digest-algo" }) {
			return "referrer-subject-keeps-stale-inline-data-after-digest-algo"
		}
	case "layer-mediatype-empty":
		// an added layer that no step changed is pushed a second time with an empty descriptor when a
		// whole-layer step is registered (no-op compression / digest algorithm): digest and size are filled
		// in from the push, the media type stays empty
		if hasKind(c, func(k string) bool { return k == "layer-add" }) &&
			hasKind(c, func(k string) bool { return k == "layer-compress" || k == "layer-digest-algo" || k == "digest-algo" }) {
			return "added-layer-empty-mediatype-after-noop-layer-step"
		}
	case "index-duplicate-entries-diverge":
		// annotation-promote intersects the annotations IN the first child's own map; when another option
		// serialises that child again it has lost its non-common annotations, its duplicate has not
		if hasKind(c, func(k string) bool { return k == "annotation-promote" }) {
			return "annotation-promote-deletes-annotations-of-first-child"
		}
	case "layer-mediatype-compression-mismatch":
		// a layer rewritten by a file-level step after a compression change is encoded per its original media type
		if hasKind(c, func(k string) bool { return k == "layer-compress" }) && hasKind(c, isFileStep) {
			return "rewritten-layer-encoded-per-original-mediatype"
		}
	}
	// rebase of >=2 platform images onto a base that is a single image (one cached manifest object):
	// the step builds each image's layer list with append(layersNew, own...) on the SAME slice; when
	// its capacity exceeds its length (3, 5, 6, 7 ... layers decoded from JSON) the images overwrite each
	// other's first own layer (or a later delete zeroes it)
	rebases := false
	for _, o := range c.Program {
		if c.Base != nil && ((o.Kind == "rebase" && !c.Base.SameNew) || (o.Kind == "rebase-refs" && o.N != 1)) {
			rebases = true
		}
	}
	if rebases && !c.Base.AsIndex {
		n, rebased := len(c.Base.NewLayers), 0
		for _, im := range c.Images {
			if im.UseBase {
				rebased++
			}
		}
		layerClause := strings.HasPrefix(clause, "layer-") || strings.HasPrefix(clause, "diffid") || strings.HasPrefix(clause, "history-")
		if rebased >= 2 && n >= 3 && n&(n-1) != 0 && layerClause {
			return "rebase-layer-slice-of-single-base-manifest-aliased-across-platforms"
		}
	}
	return ""
}

// fileStepKinds are the options that register a per-file step.
var fileStepKinds = map[string]bool{"layer-reproducible": true, "layer-strip-file": true, "layer-time": true, "layer-time-label": true,
	"layer-time-max": true, "file-tar-time": true, "file-tar-time-max": true, "time": true, "time-max": true}

func errClass(s string) string {
	s = tmpRE.ReplaceAllString(s, "<tmp>/")
	s = hexRE.ReplaceAllString(s, "<dig>")
	s = numRE.ReplaceAllString(s, "N")
	if len(s) > 70 {
		s = s[:70]
	}
	return s
}

var (
	hexRE = regexp.MustCompile(`(sha256|sha512):[0-9a-f]{8,}`)
	numRE = regexp.MustCompile(`[0-9]+`)
	tmpRE = regexp.MustCompile(`/[^ ]*c13[0-9]+/[^ :]*`)
)

func dedup(sorted []string) []string {
	out := []string{}
	for i, k := range sorted {
		if i == 0 || k != sorted[i-1] {
			out = append(out, k)
		}
	}
	if len(out) == 0 {
		return []string{"(no-options)"}
	}
	return out
}
