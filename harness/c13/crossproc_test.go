package c13

// crossproc_test.go: the same program on the same input in a SECOND PROCESS
// (SOURCE_DATE_EPOC pinned by the job environment) must return the same digest.

import (
	"bufio"
	"bytes"
	"encoding/json"
	"fmt"
	"os"
	"os/exec"
	"path/filepath"
	"strings"
	"testing"
	"time"

	"pgregory.net/rapid"

	"github.com/regclient/regclient/zz_verif/evid"
)

const childEnv = "VERIF_C13_CHILD"

type childResult struct {
	Status string `json:"status"` // success | error | panic | watchdog | harness
	Digest string `json:"digest"`
	Err    string `json:"err"`
}

// applyOnce materialises the case and applies the program once.
func applyOnce(c Case) childResult {
	b := build(c)
	e, err := setup(c, b)
	if err != nil {
		return childResult{Status: "harness", Err: err.Error()}
	}
	defer e.close()
	res := e.apply(c.Program)
	switch {
	case res.Panic != "":
		return childResult{Status: "panic", Err: truncate(res.Panic, 500)}
	case res.TimedOut:
		return childResult{Status: "watchdog"}
	case res.Err != nil:
		return childResult{Status: "error", Err: res.Err.Error()}
	}
	dig, _, ok := e.resolve(res.Ref)
	if !ok {
		dig = "(tag not created)"
	}
	return childResult{Status: "success", Digest: dig}
}

// TestVerifChild is the second process: it reads a case file, applies the
// program once and prints the outcome. It records no evidence.
func TestVerifChild(t *testing.T) {
	p := os.Getenv(childEnv)
	if p == "" {
		t.Skip("not a child process")
	}
	var c Case
	if err := evid.LoadCaseFile(p, &c); err != nil {
		t.Fatal(err)
	}
	out, _ := json.Marshal(applyOnce(c))
	fmt.Printf("\nC13CHILD %s\n", out)
}

func runChild(c Case) (childResult, error) {
	dir, err := os.MkdirTemp("", "c13child")
	if err != nil {
		return childResult{}, err
	}
	defer os.RemoveAll(dir)
	cf := filepath.Join(dir, "case.json")
	cb, _ := json.Marshal(c)
	if err := os.WriteFile(cf, cb, 0o644); err != nil {
		return childResult{}, err
	}
	cmd := exec.Command(os.Args[0], "-test.run", "^TestVerifChild$", "-test.v", "-test.timeout", "300s")
	env := []string{childEnv + "=" + cf}
	for _, kv := range os.Environ() {
		if strings.HasPrefix(kv, "VERIF_OUT=") || strings.HasPrefix(kv, "VERIF_REPLAY") || strings.HasPrefix(kv, childEnv+"=") {
			continue
		}
		env = append(env, kv)
	}
	cmd.Env = env
	cmd.Dir = dir
	var buf bytes.Buffer
	cmd.Stdout, cmd.Stderr = &buf, &buf
	done := make(chan error, 1)
	if err := cmd.Start(); err != nil {
		return childResult{}, err
	}
	go func() { done <- cmd.Wait() }()
	select {
	case <-done:
	case <-time.After(240 * time.Second):
		_ = cmd.Process.Kill()
		return childResult{Status: "watchdog"}, nil
	}
	sc := bufio.NewScanner(&buf)
	sc.Buffer(make([]byte, 1<<20), 1<<20)
	for sc.Scan() {
		if rest, ok := strings.CutPrefix(sc.Text(), "C13CHILD "); ok {
			var r childResult
			if err := json.Unmarshal([]byte(rest), &r); err != nil {
				return r, err
			}
			return r, nil
		}
	}
	return childResult{}, fmt.Errorf("child printed no result: %s", truncate(buf.String(), 600))
}

func checkCrossProc(c Case, ev *evid.Collector) (*evid.Violation, error) {
	first := applyOnce(c)
	classes := []string{"xproc:first-" + first.Status}
	if first.Status != "success" {
		ev.Case(false, "", classes...)
		return nil, nil
	}
	second, err := runChild(c)
	if err != nil {
		return nil, err
	}
	classes = append(classes, "xproc:second-"+second.Status)
	ks := kinds(c.Program)
	ev.Case(len(c.Program) >= 1, "xproc|"+strings.Join(ks, ",")+"|"+c.shape(), classes...)
	switch second.Status {
	case "watchdog", "harness":
		return nil, fmt.Errorf("second process inconclusive: %s %s", second.Status, second.Err)
	case "success":
		if second.Digest != first.Digest {
			return evid.V("cross-process-nondeterministic-digest:"+strings.Join(dedup(ks), "+"),
				"the same program on the same input returned %s in this process and %s in a second process (SOURCE_DATE_EPOC=%s)\n  case: %s %s",
				first.Digest, second.Digest, os.Getenv("SOURCE_DATE_EPOC"), c.shape(), progString(c.Program)), nil
		}
	default:
		return evid.V("cross-process-nondeterministic-outcome:"+strings.Join(dedup(ks), "+"),
			"Apply succeeded in this process (%s) and ended as %s in a second process: %s\n  case: %s %s", first.Digest, second.Status, second.Err, c.shape(), progString(c.Program)), nil
	}
	return nil, nil
}

func TestVerifCrossProc(t *testing.T) {
	if os.Getenv("SOURCE_DATE_EPOC") == "" {
		t.Skip("SOURCE_DATE_EPOC is not pinned")
	}
	ev := evid.For(prop)
	inconclusive := 0
	rapid.Check(t, func(rt *rapid.T) {
		c := gen(rt)
		var ierr error
		v := evid.Guard(func() *evid.Violation {
			v, err := checkCrossProc(c, ev)
			ierr = err
			return v
		})
		if ierr != nil {
			inconclusive++
			t.Logf("inconclusive: %v", ierr)
			return
		}
		if ev.Report(v, c) {
			rt.Fatalf("%v", v)
		}
	})
	if inconclusive > 0 {
		t.Errorf("inconclusive: %d second-process runs gave no verdict", inconclusive)
	}
}
