package c13

import (
	"context"
	"fmt"
	"os"
	"sort"
	"strings"
	"sync/atomic"
	"testing"
	"time"

	"pgregory.net/rapid"

	"github.com/regclient/regclient/zz_verif/evid"
)

const prop = "C13"

func TestMain(m *testing.M) {
	code := m.Run()
	evid.Flush(code)
	os.Exit(code)
}

// outcome is the result of evaluating one case.
type outcome struct {
	Status  string // success | error | panic | watchdog | harness
	ErrMsg  string
	F       *finding
	Noop    bool   // every option is a no-op on this source
	Digest  string // digest of the result
	Changed bool   // result digest differs from the source digest
	// TagNotCreated: nothing was written at all for a new tag in the source repository
	TagNotCreated bool
	B             *built
	ChainStatus   string
	ChainErr      string
}

var watchdogs atomic.Int64

// evaluate materialises the case, applies the program and runs every oracle clause.
func evaluate(c Case) outcome {
	b := build(c)
	out := outcome{Noop: allNoop(c, b), B: b}
	e, err := setup(c, b)
	if err != nil {
		out.Status, out.ErrMsg = "harness", err.Error()
		return out
	}
	defer e.close()
	pre := snap(e.tgt.view())
	res := e.apply(c.Program)
	switch {
	case res.Panic != "":
		out.Status, out.ErrMsg = "panic", res.Panic
		out.F = fnd("apply-panic@"+res.PanicAt, "mod.Apply panicked: %s", truncate(res.Panic, 2500))
		return out
	case res.TimedOut:
		out.Status = "watchdog"
		return out
	case res.Err != nil:
		out.Status, out.ErrMsg = "error", res.Err.Error()
		return out
	}
	out.Status = "success"
	dig, tagNotCreated, f0 := e.resultDigest(res.Ref, pre)
	if f0 != nil {
		out.F = f0
		return out
	}
	out.TagNotCreated = tagNotCreated
	out.Digest, out.Changed = dig, dig != b.Top
	if e.tgtTag != "" && !tagNotCreated {
		if td, ok := e.tgt.view().Tag(e.tgtTag); !ok || td != dig {
			out.F = fnd("target-tag-not-set", "Apply returned %s (digest %s) but the requested target tag %q resolves to %q", res.Ref.CommonName(), dig, e.tgtTag, td)
			return out
		}
	}
	if _, f := auditClosure(e.tgt.view(), e.tgt.Kind == "reg", dig); f != nil {
		out.F = f
		if os.Getenv("VERIF_DEBUG") != "" {
			fmt.Fprintf(os.Stderr, "DEBUG finding %s: %s\nresult %s\ntarget digests:\n", f.Clause, f.Msg, dig)
			tv := e.tgt.view()
			for _, d := range tv.Digests() {
				body, mt, _ := tv.Get(d)
				show := ""
				if len(body) > 0 && body[0] == '{' {
					show = truncate(string(body), 1200)
				}
				fmt.Fprintf(os.Stderr, "  %s %s %d %s\n", d, mt, len(body), show)
			}
			for _, x := range e.m.Entries() {
				fmt.Fprintf(os.Stderr, "#%d %s %s %s?%s -> %d %s\n", x.Seq, x.Host, x.Method, x.Path, x.RawQuery, x.Status, x.Note)
			}
		}
		return out
	}
	if f := auditWritten(e.tgt.view(), e.tgt.Kind == "reg", pre.Content); f != nil {
		out.F = f
		return out
	}
	if f := historyAlignment(e, dig); f != nil {
		out.F = f
		return out
	}
	if f := indexCorrespondence(e, dig); f != nil {
		out.F = f
		return out
	}
	if f := sourceUntouched(e, ""); f != nil {
		out.F = f
		return out
	}
	if out.Noop && dig != b.Top {
		out.F = fnd("noop-changed-digest", "every option of the program changes nothing on this source, but the result digest is %s, source is %s (program %s)", dig, b.Top, progString(c.Program))
		return out
	}
	if c.CancelAt != 0 {
		return out // a cancellation plan: the second run may be cut at a different place, not compared
	}
	// determinism: the same program on an identical, freshly materialised input
	e2, err := setup(c, b)
	if err != nil {
		out.Status, out.ErrMsg = "harness", err.Error()
		return out
	}
	defer e2.close()
	pre2 := snap(e2.tgt.view())
	res2 := e2.apply(c.Program)
	switch {
	case res2.TimedOut:
		out.Status = "watchdog"
		return out
	case res2.Panic != "":
		out.F = fnd("apply-panic@"+res2.PanicAt, "second mod.Apply panicked: %s", truncate(res2.Panic, 2500))
		return out
	case res2.Err != nil:
		out.F = fnd("nondeterministic-outcome", "first Apply succeeded (digest %s), the same program on an identical input failed: %v", dig, res2.Err)
		return out
	}
	dig2, _, f2 := e2.resultDigest(res2.Ref, pre2)
	if f2 != nil || dig2 != dig {
		out.F = fnd("nondeterministic-digest", "the same program on identical inputs returned %s and then %s (program %s)", dig, dig2, progString(c.Program))
		return out
	}
	// chain: a second program applied to the result with the same client (warm manifest / referrer
	// caches; sources that are sha512-addressed, converted, rebased ...)
	if c.HasChain && !out.TagNotCreated {
		pre3 := snap(e.tgt.view())
		src2 := res.Ref
		res3 := e.applyRef(src2, c.Chain, false, 0)
		switch {
		case res3.Panic != "":
			out.F = fnd("chain-apply-panic@"+res3.PanicAt, "mod.Apply on the result of the first call panicked: %s", truncate(res3.Panic, 2500))
			return out
		case res3.TimedOut:
			out.Status = "watchdog"
			return out
		case res3.Err != nil:
			out.ChainStatus = "error"
			out.ChainErr = res3.Err.Error()
		default:
			out.ChainStatus = "success"
			dig3, _, ok3 := e.resolve(res3.Ref)
			if !ok3 {
				out.F = fnd("chain-result-absent", "second Apply returned %s, which does not resolve at the target", res3.Ref.CommonName())
				return out
			}
			if _, f := auditClosure(e.tgt.view(), e.tgt.Kind == "reg", dig3); f != nil {
				f.Clause = "chain-" + f.Clause
				out.F = f
				return out
			}
			if f := auditWritten(e.tgt.view(), e.tgt.Kind == "reg", pre3.Content); f != nil {
				f.Clause = "chain-" + f.Clause
				out.F = f
				return out
			}
			if len(c.Chain) == 0 && dig3 != dig {
				out.F = fnd("chain-noop-changed-digest", "the empty program applied to the result %s of the first call returned %s", dig, dig3)
				return out
			}
			if f := sourceUntouched(e, "chain-"); f != nil {
				out.F = f
				return out
			}
		}
	}
	// layouts: what regctl does next is Close (garbage collection); the result must survive it
	if e.tgt.Kind == "layout" || e.src.Kind == "layout" {
		ctx, cancel := context.WithTimeout(context.Background(), 60*time.Second)
		defer cancel()
		if err := e.rc.Close(ctx, e.srcRef); err != nil {
			out.F = fnd("close-error", "Close(source) after a successful Apply failed: %v", err)
			return out
		}
		if err := e.rc.Close(ctx, res.Ref); err != nil {
			out.F = fnd("close-error", "Close(result) after a successful Apply failed: %v", err)
			return out
		}
		if _, f := auditClosure(e.tgt.view(), e.tgt.Kind == "reg", dig); f != nil {
			f.Clause = "after-close-" + f.Clause
			out.F = f
			return out
		}
		if f := sourceUntouched(e, "after-close-"); f != nil {
			out.F = f
			return out
		}
	}
	return out
}

// culprit finds the smallest sub-program (first in index order) that violates
// the same clause, so that signatures name the options responsible.
func culprit(c Case, clause string) string {
	n := len(c.Program)
	name := func(p []OptSpec) string {
		if len(p) == 0 {
			return "(no-options)"
		}
		ks := kinds(p)
		if len(ks) > 1 {
			// in multi-option culprits the file-level modifiers (one shared code path: the tar
			// rewrite loop of Apply) are named as a group, so one defect has one signature
			for i, k := range ks {
				if fileStepKinds[k] {
					ks[i] = "file-step"
				}
			}
			sort.Strings(ks)
		}
		uniq := ks[:0]
		for i, k := range ks {
			if i == 0 || k != ks[i-1] {
				uniq = append(uniq, k)
			}
		}
		return strings.Join(uniq, "+")
	}
	for size := 0; size < n; size++ {
		for mask := 0; mask < 1<<n; mask++ {
			if popcount(mask) != size {
				continue
			}
			sub := []OptSpec{}
			for i := 0; i < n; i++ {
				if mask&(1<<i) != 0 {
					sub = append(sub, c.Program[i])
				}
			}
			c2 := c
			c2.Program = sub
			if o := evaluate(c2); o.F != nil && o.F.Clause == clause {
				return name(sub)
			}
		}
	}
	return name(c.Program)
}

func popcount(x int) int {
	n := 0
	for ; x != 0; x &= x - 1 {
		n++
	}
	return n
}

func check(c Case, ev *evid.Collector) *evid.Violation {
	out := evaluate(c)
	ks := kinds(c.Program)
	classes := []string{"outcome:" + out.Status, "src:" + c.Src, "tgt:" + c.Tgt, fmt.Sprintf("nopts:%d", len(c.Program)), "mode:" + c.Mode}
	if c.Index != "" {
		classes = append(classes, "shape:index-"+c.Index, fmt.Sprintf("shape:index-children-%d", len(c.Images)))
	} else {
		classes = append(classes, "shape:single-"+c.Images[0].Family)
	}
	if len(c.Referrers) > 0 {
		classes = append(classes, "shape:referrers")
	}
	if c.Attest {
		classes = append(classes, "shape:attestation-entry")
	}
	if c.ChildData {
		classes = append(classes, "shape:index-entry-data")
	}
	if c.Base != nil {
		classes = append(classes, "shape:has-base", "base-loc:"+map[string]string{"": "other-repo"}[c.BaseLoc]+c.BaseLoc)
		if c.Base.AsIndex {
			classes = append(classes, "base:index")
		}
	}
	if c.Artifact != nil {
		classes = append(classes, "shape:artifact-source-"+c.Artifact.ConfigMT)
	}
	if c.Nested && c.Index != "" {
		classes = append(classes, "shape:nested-index")
	}
	if c.Index != "" && c.EntryOrder != nil {
		classes = append(classes, "shape:index-duplicate-child-digest")
		notLast := false
		for i, x := range c.EntryOrder {
			for j := i + 1; j < len(c.EntryOrder); j++ {
				if c.EntryOrder[j] == x && (j < len(c.EntryOrder)-1 || c.Attest) {
					notLast = true
				}
			}
		}
		if notLast {
			classes = append(classes, "shape:index-duplicate-not-last")
		}
	}
	if c.IdxNoMT || (c.Artifact == nil && c.Images[0].NoMTField) {
		classes = append(classes, "shape:no-mediatype-field")
	}
	classes = append(classes, "src-form:"+map[string]string{"": "tag"}[c.SrcForm]+c.SrcForm)
	if c.TgtPre != "" {
		classes = append(classes, "tgt-pre:"+c.TgtPre)
	}
	if c.CancelAt != 0 {
		classes = append(classes, "ctx:cancel-plan", "ctx:cancel-plan-"+out.Status)
	}
	if c.Cache {
		classes = append(classes, "client:manifest-cache")
	}
	if c.HasChain {
		classes = append(classes, "chain:drawn")
		if out.ChainStatus != "" {
			classes = append(classes, "chain:"+out.ChainStatus)
		}
	}
	if c.FeatA.LocStyle != 0 || c.FeatB.LocStyle != 0 {
		classes = append(classes, "feat:loc-style")
	}
	if c.FeatA.HeadNoDigest || c.FeatB.HeadNoDigest {
		classes = append(classes, "feat:head-no-digest")
	}
	if c.FeatA.AnonMount != 0 || c.FeatB.AnonMount != 0 {
		classes = append(classes, "feat:anon-mount")
	}
	if c.FeatA.ChunkMin != 0 || c.FeatB.ChunkMin != 0 {
		classes = append(classes, "feat:chunk-min")
	}
	for _, o := range c.Program {
		if o.Kind == "layer-add" {
			if o.Stream {
				classes = append(classes, "layer-add:stream-reader")
			}
			if o.Layer != nil && len(o.Layer.Files) == 0 {
				classes = append(classes, "layer-add:empty-tar")
			}
		}
		if o.BaseSelf {
			classes = append(classes, "opt-time:base-ref-is-source")
		}
	}
	comps := map[string]bool{}
	for _, im := range c.Images {
		for _, l := range im.Layers {
			comps["layer:"+l.Comp] = true
			if l.Foreign {
				comps["layer:foreign"] = true
			}
			if l.Data {
				comps["layer:inline-data"] = true
			}
			if len(l.Files) == 0 {
				comps["layer:empty-tar"] = true
			}
			if l.Foreign && l.ForeignAbsent {
				comps["layer:foreign-content-absent"] = true
			}
			for _, f := range l.Files {
				if f.Type == "h" {
					comps["layer:hardlink"] = true
				}
				if len(f.Name) > 99 {
					comps["layer:long-name"] = true
				}
				if f.Big >= 32768 {
					comps["layer:file>=32KiB"] = true
				}
				if f.Type == "w" {
					comps["layer:whiteout"] = true
				}
				if f.Type == "t" {
					comps["layer:inner-tar"] = true
				}
			}
		}
		if im.History == nil {
			comps["config:no-history"] = true
		}
		if len(im.Layers) == 0 {
			comps["shape:image-without-own-layers"] = true
		}
		for _, h := range im.History {
			if h.NoCreated {
				comps["config:history-entry-without-created"] = true
			}
		}
		if im.ConfigData {
			comps["config:inline-data"] = true
		}
	}
	for k := range comps {
		classes = append(classes, k)
	}
	seen := map[string]bool{}
	touchesLayers := false
	for _, k := range ks {
		if layerKinds[k] {
			touchesLayers = true
		}
		if seen[k] {
			continue
		}
		seen[k] = true
		classes = append(classes, "opt:"+k)
		if out.Status == "success" {
			classes = append(classes, "optok:"+k)
		}
		if len(c.Program) == 1 {
			classes = append(classes, "solo:"+k)
			if out.Status == "success" {
				classes = append(classes, "solook:"+k)
			}
		}
	}
	if out.Status == "success" {
		if out.Noop {
			classes = append(classes, "oracle:noop-claimed")
			for k := range seen {
				classes = append(classes, "noopok:"+k)
			}
		}
		if out.TagNotCreated {
			classes = append(classes, "result:nothing-written-tag-not-created")
		}
		if out.Changed {
			classes = append(classes, "result:changed")
		} else {
			classes = append(classes, "result:same-digest")
		}
	}
	if out.Status == "error" {
		classes = append(classes, "err:"+errClass(out.ErrMsg))
	}
	if out.Status == "watchdog" {
		watchdogs.Add(1)
	}
	nt := out.Status == "success" && len(c.Program) >= 2 && touchesLayers
	ev.Case(nt, strings.Join(ks, ",")+"|"+c.shape(), classes...)
	ev.Sample(map[string]any{"shape": c.shape(), "program": progString(c.Program), "outcome": out.Status, "err": truncate(out.ErrMsg, 200), "noop": out.Noop, "changed": out.Changed})
	if out.Status == "harness" {
		return &evid.Violation{Sig: "harness-setup", Msg: out.ErrMsg}
	}
	if out.F != nil {
		sig := recognise(c, out.B, out.F)
		if sig == "" {
			sig = out.F.Clause + ":" + culprit(c, out.F.Clause)
			if strings.HasPrefix(out.F.Clause, "chain-") {
				sig += ">" + strings.Join(dedup(kinds(c.Chain)), "+")
			}
		}
		return evid.V(sig, "%s\n  case: %s %s", out.F.Msg, c.shape(), progString(c.Program))
	}
	return nil
}

func TestVerifProp(t *testing.T) {
	ev := evid.For(prop)
	rapid.Check(t, func(rt *rapid.T) {
		c := gen(rt)
		v := evid.Guard(func() *evid.Violation { return check(c, ev) })
		if ev.Report(v, c) {
			rt.Fatalf("%v", v)
		}
	})
	if n := watchdogs.Load(); n > 0 {
		t.Errorf("inconclusive: %d Apply calls hit the wall-clock watchdog", n)
	}
}

func TestVerifReplayDir(t *testing.T) {
	ev := evid.For(prop)
	for _, f := range evid.ReplayFiles() {
		var c Case
		if err := evid.LoadCaseFile(f, &c); err != nil {
			t.Fatalf("%s: %v", f, err)
		}
		v := evid.Guard(func() *evid.Violation { return check(c, ev) })
		if ev.Report(v, c) {
			t.Errorf("%s: %v", f, v)
		}
	}
}

func TestVerifReplay(t *testing.T) {
	ev := evid.For(prop)
	var c Case
	ok, err := evid.LoadReplay(&c)
	if !ok {
		t.Skip("no VERIF_REPLAY")
	}
	if err != nil {
		t.Fatal(err)
	}
	for i := 0; i < 3; i++ {
		v := evid.Guard(func() *evid.Violation { return check(c, ev) })
		if ev.Report(v, c) {
			t.Fatalf("%v", v)
		}
	}
	// the cross-process clause needs the pinned epoch (export SOURCE_DATE_EPOC=1700000000 to replay such a case)
	if os.Getenv("SOURCE_DATE_EPOC") != "" {
		v, err := checkCrossProc(c, ev)
		if err != nil {
			t.Fatalf("inconclusive: %v", err)
		}
		if ev.Report(v, c) {
			t.Fatalf("%v", v)
		}
	}
}
