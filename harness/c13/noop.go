package c13

// noop.go: decides, from the built source alone, whether an option's arguments
// change nothing. The judgement is conservative: true only when the documented
// semantics of the option leave every manifest, config and layer as it is.

import (
	"slices"
	"strings"
)

func parseScope(name string) (all bool, plats []string, rest string) {
	name = strings.TrimSpace(name)
	if name != "" && name[0] == '[' && strings.Index(name, "]") > 0 {
		end := strings.Index(name, "]")
		for _, e := range strings.Split(name[1:end], ",") {
			e = strings.TrimSpace(e)
			if e == "*" {
				all = true
				continue
			}
			plats = append(plats, e)
		}
		return all, plats, name[end+1:]
	}
	return false, nil, name
}

// noPlatformMatches: the platform list names only platforms the generator never builds.
func noPlatformMatches(plats []string) bool {
	if len(plats) == 0 {
		return false
	}
	for _, p := range plats {
		if p != "linux/s390x" {
			return false
		}
	}
	return true
}

func mapCond(m map[string]string, name, value string) bool {
	cur, ok := m[name]
	if value == "" {
		return !ok
	}
	return ok && cur == value
}

func envCond(env []string, name, value string) bool {
	for _, kv := range env {
		k, v, _ := strings.Cut(kv, "=")
		if k != name {
			continue
		}
		if value == "" {
			return false
		}
		return strings.Contains(kv, "=") && v == value
	}
	return value == ""
}

func timeUnchanged(t, set, after int64) bool {
	if after != 0 && t <= after {
		return true
	}
	return t == set
}

func layerTimes(l layerModel) []int64 {
	var out []int64
	for _, f := range l.Files {
		out = append(out, timeTable[f.MTime])
		if f.PAX {
			out = append(out, timeTable[f.ATime])
		}
	}
	return out
}

func stripMatches(entry, file string) bool {
	file = strings.Trim(file, "/")
	entry = strings.TrimPrefix(entry, "/")
	return entry == file || strings.HasPrefix(entry, file+"/")
}

const labelTimeVal = 1420070400

// isNoop tells whether option o changes nothing on source b.
func isNoop(o OptSpec, c Case, b *built) bool {
	imgs := b.Images
	allImgs := func(f func(m imgModel) bool) bool {
		for _, m := range imgs {
			if !f(m) {
				return false
			}
		}
		return true
	}
	tarLayers := func(f func(l layerModel) bool) bool {
		for _, m := range imgs {
			for _, l := range m.Layers {
				if l.Tar && !l.Foreign && l.MT != mtInToto {
					// a tar without entries is dropped by every file-level step (not a no-op)
					if len(l.Files) == 0 && o.Kind != "layer-compress" {
						return false
					}
					if !f(l) {
						return false
					}
				}
			}
		}
		return true
	}
	hasLabelTime := func() bool {
		return allImgs(func(m imgModel) bool { return m.Labels[labelTimeKey] == "2015-01-01T00:00:00Z" })
	}
	switch o.Kind {
	case "time":
		oc, ol := o, o
		oc.Kind, ol.Kind = "config-time", "layer-time"
		return isNoop(oc, c, b) && isNoop(ol, c, b)
	case "time-max":
		oc, ol := o, o
		oc.Kind, ol.Kind = "config-time-max", "layer-time-max"
		return isNoop(oc, c, b) && isNoop(ol, c, b)
	case "annotation":
		all, plats, name := parseScope(o.Name)
		if name == "" {
			return false
		}
		switch {
		case all:
			return mapCond(b.TopAnnots, name, o.Value) && (!b.Nested || mapCond(b.InnerAnnots, name, o.Value)) && allImgs(func(m imgModel) bool { return mapCond(m.Annots, name, o.Value) })
		case len(plats) > 0:
			return noPlatformMatches(plats) || allImgs(func(m imgModel) bool { return mapCond(m.Annots, name, o.Value) })
		}
		return mapCond(b.TopAnnots, name, o.Value)
	case "label":
		_, plats, name := parseScope(o.Name)
		if name == "" {
			return false
		}
		return noPlatformMatches(plats) || allImgs(func(m imgModel) bool { return mapCond(m.Labels, name, o.Value) })
	case "env":
		_, plats, name := parseScope(o.Name)
		if name == "" {
			return false
		}
		return noPlatformMatches(plats) || allImgs(func(m imgModel) bool { return envCond(m.Env, name, o.Value) })
	case "expose-add":
		return allImgs(func(m imgModel) bool { return m.Ports[o.Name] })
	case "expose-rm":
		return allImgs(func(m imgModel) bool { return !m.Ports[o.Name] })
	case "volume-add":
		return allImgs(func(m imgModel) bool { return m.Volumes[o.Name] })
	case "volume-rm":
		return allImgs(func(m imgModel) bool { return !m.Volumes[o.Name] })
	case "config-cmd":
		return allImgs(func(m imgModel) bool { return slices.Equal(o.List, m.Cmd) })
	case "config-entrypoint":
		return allImgs(func(m imgModel) bool { return slices.Equal(o.List, m.Entrypoint) })
	case "config-platform":
		return o.Plat == "linux/amd64" && allImgs(func(m imgModel) bool { return m.Plat == "linux/amd64" })
	case "buildarg-rm":
		return allImgs(func(m imgModel) bool {
			for _, by := range m.CreatedBys {
				if strings.Contains(by, o.Name) {
					return false
				}
			}
			return true
		})
	case "config-time":
		if o.FromLabel != "" || o.Set == 0 {
			return false
		}
		return allImgs(func(m imgModel) bool {
			for _, t := range m.Times {
				if !timeUnchanged(t, o.Set, o.After) {
					return false
				}
			}
			return true
		})
	case "config-time-max":
		return o.Set != 0 && allImgs(func(m imgModel) bool {
			for _, t := range m.Times {
				if t > o.Set {
					return false
				}
			}
			return true
		})
	case "config-time-label":
		return o.FromLabel == labelTimeKey && hasLabelTime() && allImgs(func(m imgModel) bool {
			for _, t := range m.Times {
				if t > labelTimeVal {
					return false
				}
			}
			return true
		})
	case "layer-time":
		if o.FromLabel != "" || o.Set == 0 {
			return false
		}
		return tarLayers(func(l layerModel) bool {
			for _, t := range layerTimes(l) {
				if !timeUnchanged(t, o.Set, o.After) {
					return false
				}
			}
			return true
		})
	case "layer-time-max":
		return o.Set != 0 && tarLayers(func(l layerModel) bool {
			for _, t := range layerTimes(l) {
				if t > o.Set {
					return false
				}
			}
			return true
		})
	case "layer-time-label":
		return o.FromLabel == labelTimeKey && hasLabelTime() && tarLayers(func(l layerModel) bool {
			for _, t := range layerTimes(l) {
				if t > labelTimeVal {
					return false
				}
			}
			return true
		})
	case "file-tar-time", "file-tar-time-max":
		if o.Kind == "file-tar-time" && (o.FromLabel != "" || o.Set == 0) {
			return false
		}
		if o.Set == 0 {
			return false
		}
		name := strings.TrimPrefix(o.Name, "/")
		after := o.After
		if o.Kind == "file-tar-time-max" {
			after = o.Set
		}
		return tarLayers(func(l layerModel) bool {
			for _, f := range l.Files {
				if f.Type == "t" && f.Name == name {
					for _, t := range innerTimes(f) {
						if !timeUnchanged(t, o.Set, after) {
							return false
						}
					}
				}
			}
			return true
		})
	case "layer-strip-file":
		if strings.Trim(o.Name, "/") == "" {
			return false
		}
		return tarLayers(func(l layerModel) bool {
			for _, f := range l.Files {
				n := f.Name
				if f.Type == "d" {
					n += "/"
				}
				if stripMatches(n, o.Name) {
					return false
				}
			}
			return true
		})
	case "layer-reproducible":
		return tarLayers(func(l layerModel) bool {
			for _, f := range l.Files {
				if f.Owner != 0 {
					return false
				}
			}
			return true
		})
	case "layer-compress":
		return tarLayers(func(l layerModel) bool { return l.Comp == o.Algo })
	case "config-digest-algo", "layer-digest-algo", "manifest-digest-algo", "digest-algo":
		return o.Algo == "sha256"
	case "to-oci":
		return (c.Index == "" || c.Index == "oci") && allImgs(func(m imgModel) bool { return m.Family == "oci" })
	case "to-docker":
		return (c.Index == "" || c.Index == "docker") && allImgs(func(m imgModel) bool { return m.Family == "docker" && !m.IsAttest })
	case "to-oci-referrers":
		return !c.Attest
	case "external-urls-rm":
		return !b.HasForeign
	case "label-to-annotation":
		return allImgs(func(m imgModel) bool {
			for k, v := range m.Labels {
				if cur, ok := m.Annots[k]; !ok || cur != v {
					return false
				}
			}
			return true
		})
	case "annotation-promote":
		if !b.IsIndex {
			return true
		}
		if b.Nested {
			return false // the inner index' annotations are promoted to the outer one: not judged
		}
		var common map[string]string
		for i, m := range imgs {
			if i == 0 || common == nil {
				common = map[string]string{}
				for k, v := range m.Annots {
					common[k] = v
				}
			} else {
				for k, v := range common {
					if cv, ok := m.Annots[k]; !ok || cv != v {
						delete(common, k)
					}
				}
			}
			if len(common) == 0 {
				return true
			}
		}
		for k, v := range common {
			if cv, ok := b.TopAnnots[k]; !ok || cv != v {
				return false
			}
		}
		return true
	case "annotation-base":
		bh, br := baseLoc(c)
		name := bh + "/" + br + ":cur"
		cond := func(a map[string]string) bool { return a[annoBaseName] == name && a[annoBaseDig] == o.Value }
		return cond(b.TopAnnots) && (!b.Nested || cond(b.InnerAnnots)) && allImgs(func(m imgModel) bool { return cond(m.Annots) })
	case "data":
		if o.N < 0 {
			return true
		}
		ok := func(size int64, has bool) bool {
			if has {
				return size <= o.N
			}
			return size > o.N
		}
		for _, s := range b.ChildSize {
			if !ok(s, b.ChildData) {
				return false
			}
		}
		if b.Nested && !ok(b.InnerSize, false) {
			return false
		}
		return allImgs(func(m imgModel) bool {
			if !ok(m.ConfigSize, m.ConfigData) {
				return false
			}
			for _, l := range m.Layers {
				if !ok(l.Size, l.HasData) {
					return false
				}
			}
			return true
		})
	case "rebase":
		return c.Base != nil && c.Base.Annotate && c.Base.SameNew
	case "rebase-refs":
		return c.Base != nil && (o.N == 1 || false)
	}
	return false
}

// allNoop: every option of the program is a no-op on this source (true for the empty program).
func allNoop(c Case, b *built) bool {
	for _, o := range c.Program {
		if !isNoop(o, c, b) {
			return false
		}
	}
	return true
}
