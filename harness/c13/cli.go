package c13

// cli.go: the CLI engine's half that lives in this package. The in-package test
// of cmd/regctl (harness/inpkg/cmd/regctl/verif_c13_cli_test.go) supplies a
// runner that executes `regctl image mod ...` through NewRootCmd; everything
// else (generator, materialisation, flag syntax, oracle) is here, so that both
// engines share one set of clauses.
//
// What the CLI layer adds to mod.Apply: the mapping of flags to options (in
// flag order) and the choice of the target from --create / --replace, whose
// DOCUMENTED semantics are: --create X wins ("--replace ... ignored when
// "create" is used"); X without '/' or ':' is a tag in the source repository,
// otherwise a full reference; --replace alone names the source reference;
// neither pushes by digest to the source repository.

import (
	"context"
	"encoding/json"
	"fmt"
	"os"
	"path/filepath"
	"sort"
	"strings"
	"time"

	"pgregory.net/rapid"

	"github.com/regclient/regclient"
	"github.com/regclient/regclient/scheme/reg"
	"github.com/regclient/regclient/types/ref"
)

// cliKinds are the option kinds whose flag syntax maps 1:1.
var cliKinds = map[string]bool{
	"annotation": true, "annotation-base": true, "annotation-promote": true, "buildarg-rm": true, "config-cmd": true, "config-entrypoint": true,
	"config-platform": true, "config-time": true, "config-time-max": true, "data": true, "digest-algo": true, "env": true, "expose-add": true,
	"expose-rm": true, "external-urls-rm": true, "file-tar-time": true, "file-tar-time-max": true, "label": true, "label-to-annotation": true,
	"layer-add": true, "layer-compress": true, "layer-reproducible": true, "layer-rm-created-by": true, "layer-rm-index": true, "layer-strip-file": true,
	"layer-time": true, "layer-time-max": true, "rebase": true, "rebase-refs": true, "time": true, "time-max": true, "to-docker": true, "to-oci": true,
	"to-oci-referrers": true, "volume-add": true, "volume-rm": true,
}

// GenCLI draws a case for the CLI engine: the API generator's case restricted to
// flags, with a target flag combination.
func GenCLI(t *rapid.T) Case {
	c := gen(t)
	var prog []OptSpec
	for _, o := range c.Program {
		if !cliKinds[o.Kind] {
			continue
		}
		o.Stream = false // --layer-add tar=<file>
		prog = append(prog, o)
	}
	c.Program = prog
	c.Chain, c.HasChain, c.CancelAt = nil, false, 0
	if c.Tgt == "other-digest" {
		c.Tgt = "other-tag" // --create always carries a tag
	}
	if c.TgtPre == "stale-digest" {
		c.TgtPre = ""
	}
	c.CLI = true
	switch c.Tgt {
	case "tag", "other-tag", "host2", "cross":
		// --create X, optionally together with --replace (documented: ignored), in either order
		c.CLIBoth = rapid.IntRange(0, 2).Draw(t, "cli_both") == 0
		c.CLIReplaceFirst = rapid.Bool().Draw(t, "cli_replace_first")
		c.CLICreateFull = c.Tgt != "tag" || rapid.IntRange(0, 3).Draw(t, "cli_create_full") == 0
	}
	return c
}

func rfc(sec int64) string { return unix(sec).Format(time.RFC3339) }

func (e *env) cliOptTime(o OptSpec) string {
	var kv []string
	if o.Set != 0 {
		kv = append(kv, "set="+rfc(o.Set))
	}
	if o.FromLabel != "" {
		kv = append(kv, "from-label="+o.FromLabel)
	}
	if o.After != 0 {
		kv = append(kv, "after="+rfc(o.After))
	}
	if o.BaseRef {
		kv = append(kv, "base-ref="+e.baseRef("old").CommonName())
	}
	if o.BaseSelf {
		kv = append(kv, "base-ref="+e.srcRef.CommonName())
	}
	if o.BaseLayers != 0 {
		kv = append(kv, fmt.Sprintf("base-layers=%d", o.BaseLayers))
	}
	return strings.Join(kv, ",")
}

func nameValue(name, value string) string {
	if value == "" {
		return name
	}
	return name + "=" + value
}

func jsonList(l []string) string {
	if len(l) == 0 {
		return ""
	}
	b, _ := json.Marshal(l)
	return string(b)
}

// cliArgs renders the command line of the case.
func (e *env) cliArgs() ([]string, error) {
	c := e.c
	args := []string{"image", "mod", e.srcRef.CommonName()}
	var tflags []string
	create := ""
	switch c.Tgt {
	case "default":
	case "replace":
		tflags = []string{"--replace"}
	default:
		create = e.tgtTag
		if c.CLICreateFull {
			create = e.tgtRef.CommonName()
		}
		tflags = []string{"--create", create}
		if c.CLIBoth {
			if c.CLIReplaceFirst {
				tflags = append([]string{"--replace"}, tflags...)
			} else {
				tflags = append(tflags, "--replace")
			}
		}
	}
	var oflags []string
	add := func(a ...string) { oflags = append(oflags, a...) }
	for i, o := range c.Program {
		switch o.Kind {
		case "annotation":
			add("--annotation", nameValue(o.Name, o.Value))
		case "annotation-base":
			add("--annotation-base", e.baseRef("cur").CommonName()+","+o.Value)
		case "annotation-promote":
			add("--annotation-promote")
		case "buildarg-rm":
			add("--buildarg-rm-regex", o.Name+"="+o.Value)
		case "config-cmd":
			add("--config-cmd", jsonList(o.List))
		case "config-entrypoint":
			add("--config-entrypoint", jsonList(o.List))
		case "config-platform":
			add("--config-platform", o.Plat)
		case "config-time":
			add("--config-time", e.cliOptTime(o))
		case "config-time-max":
			add("--config-time-max", rfc(o.Set))
		case "data":
			add("--data-max", fmt.Sprint(o.N))
		case "digest-algo":
			add("--digest-algo", o.Algo)
		case "env":
			add("--env", nameValue(o.Name, o.Value))
		case "label":
			add("--label", nameValue(o.Name, o.Value))
		case "expose-add":
			add("--expose-add", o.Name)
		case "expose-rm":
			add("--expose-rm", o.Name)
		case "volume-add":
			add("--volume-add", o.Name)
		case "volume-rm":
			add("--volume-rm", o.Name)
		case "external-urls-rm":
			add("--external-urls-rm")
		case "file-tar-time":
			add("--file-tar-time", "filename="+o.Name+","+e.cliOptTime(o))
		case "file-tar-time-max":
			add("--file-tar-time-max", o.Name+","+rfc(o.Set))
		case "label-to-annotation":
			add("--label-to-annotation")
		case "layer-add":
			fn := filepath.Join(e.tmp, fmt.Sprintf("add-%d.tar", i))
			if err := os.WriteFile(fn, tarBytes(o.Layer.Files), 0o644); err != nil {
				return nil, err
			}
			v := "tar=" + fn
			if o.MT != "" {
				v += ",mediaType=" + o.MT
			}
			if o.Plat != "" {
				v += ",platform=" + o.Plat
			}
			add("--layer-add", v)
		case "layer-compress":
			add("--layer-compress", o.Algo)
		case "layer-reproducible":
			add("--reproducible")
		case "layer-rm-created-by":
			add("--layer-rm-created-by", o.Name)
		case "layer-rm-index":
			add("--layer-rm-index", fmt.Sprint(o.N))
		case "layer-strip-file":
			add("--layer-strip-file", o.Name)
		case "layer-time":
			add("--layer-time", e.cliOptTime(o))
		case "layer-time-max":
			add("--layer-time-max", rfc(o.Set))
		case "time":
			add("--time", e.cliOptTime(o))
		case "time-max":
			add("--time-max", rfc(o.Set))
		case "to-docker":
			add("--to-docker")
		case "to-oci":
			add("--to-oci")
		case "to-oci-referrers":
			add("--to-oci-referrers")
		case "rebase":
			add("--rebase")
		case "rebase-refs":
			nw := "new"
			if o.N == 1 {
				nw = "old"
			}
			add("--rebase-ref", e.baseRef("old").CommonName()+","+e.baseRef(nw).CommonName())
		default:
			return nil, fmt.Errorf("option kind %q has no flag", o.Kind)
		}
	}
	// the target flags may stand before or after the option flags
	if c.CLIReplaceFirst {
		args = append(append(args, tflags...), oflags...)
	} else {
		args = append(append(args, oflags...), tflags...)
	}
	return args, nil
}

// CLIRunner executes regctl with the arguments and client options and returns
// what it printed, its error, and a recovered panic (value + stack).
type CLIRunner func(ctx context.Context, args []string, rcOpts []regclient.Opt) (stdout string, err error, pan string)

// CLIResult is the verdict on one CLI case.
type CLIResult struct {
	Status   string // success | error | panic | watchdog | harness
	ErrMsg   string
	Sig, Msg string // non-empty Sig: violation
	NT       bool
	Key      string
	Classes  []string
	Sample   map[string]any
}

type cliOutcome struct {
	Status, ErrMsg string
	F              *finding
	Noop           bool
	Args           []string
	B              *built
}

func evaluateCLI(c Case, run CLIRunner) cliOutcome {
	b := build(c)
	out := cliOutcome{Noop: allNoop(c, b), B: b}
	e, err := setup(c, b)
	if err != nil {
		out.Status, out.ErrMsg = "harness", err.Error()
		return out
	}
	defer e.close()
	args, err := e.cliArgs()
	if err != nil {
		out.Status, out.ErrMsg = "harness", err.Error()
		return out
	}
	out.Args = args
	pre := snap(e.tgt.view())
	ctx, cancel := context.WithTimeout(context.Background(), applyWatchdog-10*time.Second)
	defer cancel()
	rcOpts := []regclient.Opt{regclient.WithRegOpts(reg.WithHTTPClient(e.m.Client()), reg.WithDelay(time.Millisecond, 10*time.Millisecond), reg.WithRetryLimit(3))}
	stdout, rerr, pan := run(ctx, args, rcOpts)
	switch {
	case pan != "":
		out.Status, out.ErrMsg = "panic", pan
		out.F = fnd("cli-panic@"+panicFrame(pan), "regctl %s panicked: %s", strings.Join(args, " "), truncate(pan, 2500))
		return out
	case ctx.Err() == context.DeadlineExceeded:
		out.Status = "watchdog"
		return out
	case rerr != nil:
		out.Status, out.ErrMsg = "error", rerr.Error()
		// the frame condition holds for a failed command too when a target other than the source tag was requested
		return out
	}
	out.Status = "success"
	line := strings.TrimSpace(stdout)
	if i := strings.LastIndexByte(line, '\n'); i >= 0 {
		line = strings.TrimSpace(line[i+1:])
	}
	rOut, err := ref.New(line)
	if err != nil {
		out.F = fnd("cli-output-is-not-a-reference", "regctl image mod printed %q, which does not parse as a reference: %v", truncate(stdout, 200), err)
		return out
	}
	// the printed reference names the documented target
	if e.tgtTag != "" {
		if !ref.EqualRepository(rOut, e.tgtRef) || rOut.Tag != e.tgtTag {
			out.F = fnd("cli-result-is-not-the-requested-target", "regctl %s\nprinted %s; the documented target of these flags is %s (--create wins over --replace)",
				strings.Join(args, " "), rOut.CommonName(), e.tgtRef.CommonName())
			return out
		}
	} else if !ref.EqualRepository(rOut, e.srcRef) {
		out.F = fnd("cli-result-is-not-the-requested-target", "regctl %s\nprinted %s; without --create the result belongs to the source repository", strings.Join(args, " "), rOut.CommonName())
		return out
	}
	dig, tagNotWritten, f0 := e.resultDigest(rOut, pre)
	if f0 != nil {
		out.F = f0
		return out
	}
	if e.tgtTag != "" && !tagNotWritten {
		if td, ok := e.tgt.view().Tag(e.tgtTag); !ok || td != dig {
			out.F = fnd("target-tag-not-set", "regctl printed %s (digest %s) but the requested target tag %q resolves to %q", rOut.CommonName(), dig, e.tgtTag, td)
			return out
		}
	}
	// regctl has already closed the references (layout garbage collection has run)
	if _, f := auditClosure(e.tgt.view(), e.tgt.Kind == "reg", dig); f != nil {
		out.F = f
		return out
	}
	for _, f := range []*finding{auditWritten(e.tgt.view(), e.tgt.Kind == "reg", pre.Content), historyAlignment(e, dig), indexCorrespondence(e, dig), sourceUntouched(e, "")} {
		if f != nil {
			out.F = f
			return out
		}
	}
	if out.Noop && dig != b.Top {
		out.F = fnd("noop-changed-digest", "every option changes nothing on this source, but the result digest is %s, source is %s (%s)", dig, b.Top, progString(c.Program))
		return out
	}
	return out
}

func culpritCLI(c Case, clause string, run CLIRunner) string {
	n := len(c.Program)
	for size := 0; size < n; size++ {
		for mask := 0; mask < 1<<n; mask++ {
			cnt := 0
			for x := mask; x != 0; x &= x - 1 {
				cnt++
			}
			if cnt != size {
				continue
			}
			sub := []OptSpec{}
			for i := 0; i < n; i++ {
				if mask&(1<<i) != 0 {
					sub = append(sub, c.Program[i])
				}
			}
			c2 := c
			c2.Program = sub
			if o := evaluateCLI(c2, run); o.F != nil && o.F.Clause == clause {
				return strings.Join(dedup(kinds(sub)), "+")
			}
		}
	}
	return strings.Join(dedup(kinds(c.Program)), "+")
}

// CheckCLI evaluates one CLI case.
func CheckCLI(c Case, run CLIRunner) CLIResult {
	out := evaluateCLI(c, run)
	flags := "neither"
	switch {
	case c.Tgt == "replace":
		flags = "replace"
	case c.Tgt != "default" && c.CLIBoth && c.CLIReplaceFirst:
		flags = "replace+create"
	case c.Tgt != "default" && c.CLIBoth:
		flags = "create+replace"
	case c.Tgt != "default":
		flags = "create"
	}
	res := CLIResult{Status: out.Status, ErrMsg: out.ErrMsg}
	res.Classes = []string{"cli:outcome-" + out.Status, "cli:flags-" + flags, "cli:src-" + c.Src, "cli:tgt-" + c.Tgt, fmt.Sprintf("cli:nopts-%d", len(c.Program))}
	if c.Tgt != "default" && c.Tgt != "replace" {
		if c.CLICreateFull {
			res.Classes = append(res.Classes, "cli:create-full-reference")
		} else {
			res.Classes = append(res.Classes, "cli:create-tag-only")
		}
	}
	if c.Index != "" {
		res.Classes = append(res.Classes, "cli:shape-index")
	}
	ks := dedup(kinds(c.Program))
	sort.Strings(ks)
	for _, k := range ks {
		if k == "(no-options)" {
			continue
		}
		res.Classes = append(res.Classes, "cli:flag-"+k)
		if out.Status == "success" {
			res.Classes = append(res.Classes, "cli:flagok-"+k)
		}
	}
	if out.Status == "error" {
		res.Classes = append(res.Classes, "cli:err-"+errClass(out.ErrMsg))
	}
	res.NT = out.Status == "success" && len(c.Program) >= 1 && flags != "neither"
	res.Key = "cli|" + flags + "|" + strings.Join(kinds(c.Program), ",") + "|" + c.shape()
	res.Sample = map[string]any{"args": truncate(strings.Join(out.Args, " "), 400), "outcome": out.Status, "err": truncate(out.ErrMsg, 200)}
	if out.Status == "harness" {
		res.Sig, res.Msg = "harness-setup", out.ErrMsg
		return res
	}
	if out.F != nil {
		sig := recognise(c, out.B, out.F)
		if sig == "" {
			sig = "cli-" + strings.TrimPrefix(out.F.Clause, "cli-") + ":" + flags + ":" + culpritCLI(c, out.F.Clause, run)
		}
		res.Sig = sig
		res.Msg = fmt.Sprintf("%s\n  regctl %s\n  case: %s", out.F.Msg, strings.Join(out.Args, " "), c.shape())
	}
	return res
}
