package c13

// build.go: turns a Case into raw bytes (tar layers, compressed blobs, configs,
// manifests, indexes, referrers, fallback indexes) with encoding/json,
// archive/tar, compress/gzip and klauspost zstd only — never with regclient's
// types — and records a model of what was built for the no-op analysis.

import (
	"archive/tar"
	"bytes"
	"compress/gzip"
	"crypto/sha256"
	"encoding/base64"
	"encoding/hex"
	"encoding/json"
	"fmt"
	"sort"
	"strings"
	"time"

	"github.com/klauspost/compress/zstd"
)

const (
	mtOCIManifest  = "application/vnd.oci.image.manifest.v1+json"
	mtOCIIndex     = "application/vnd.oci.image.index.v1+json"
	mtOCIConfig    = "application/vnd.oci.image.config.v1+json"
	mtOCIEmpty     = "application/vnd.oci.empty.v1+json"
	mtOCILayer     = "application/vnd.oci.image.layer.v1.tar"
	mtOCILayerGz   = "application/vnd.oci.image.layer.v1.tar+gzip"
	mtOCILayerZs   = "application/vnd.oci.image.layer.v1.tar+zstd"
	mtOCIForeign   = "application/vnd.oci.image.layer.nondistributable.v1.tar"
	mtOCIForeignGz = "application/vnd.oci.image.layer.nondistributable.v1.tar+gzip"
	mtOCIForeignZs = "application/vnd.oci.image.layer.nondistributable.v1.tar+zstd"
	mtDocManifest  = "application/vnd.docker.distribution.manifest.v2+json"
	mtDocList      = "application/vnd.docker.distribution.manifest.list.v2+json"
	mtDocConfig    = "application/vnd.docker.container.image.v1+json"
	mtDocLayer     = "application/vnd.docker.image.rootfs.diff.tar"
	mtDocLayerGz   = "application/vnd.docker.image.rootfs.diff.tar.gzip"
	mtDocLayerZs   = "application/vnd.docker.image.rootfs.diff.tar.zstd"
	mtDocForeign   = "application/vnd.docker.image.rootfs.foreign.diff.tar.gzip"
	mtInToto       = "application/vnd.in-toto+json"

	annoBaseName = "org.opencontainers.image.base.name"
	annoBaseDig  = "org.opencontainers.image.base.digest"

	hostA     = "a.example.test"
	hostB     = "b.example.test"
	repoSrc   = "proj/src"
	repoOther = "proj/other"
	repoBase  = "lib/base"
	srcTag    = "v1"
	modTag    = "mod"
)

func sha256Dig(b []byte) string {
	s := sha256.Sum256(b)
	return "sha256:" + hex.EncodeToString(s[:])
}

func unix(sec int64) time.Time { return time.Unix(sec, 0).UTC() }

func rfc3339(sec int64) string { return unix(sec).Format(time.RFC3339) }

func fileContent(f FileSpec) []byte {
	switch f.Type {
	case "f":
		if f.Big > 0 {
			pat := []byte("The quick brown fox jumps over the lazy dog. 0123456789\n")
			out := make([]byte, 0, f.Big)
			for len(out) < f.Big {
				out = append(out, pat...)
			}
			return append(out[:f.Big], f.Token...)
		}
		return []byte(f.Content + f.Token)
	case "t":
		// a tar archive inside the layer (two entries with times from the table)
		var buf bytes.Buffer
		tw := tar.NewWriter(&buf)
		for i, n := range []string{"inner/a", "inner/b"} {
			body := []byte("inner " + n + "\n")
			_ = tw.WriteHeader(&tar.Header{Name: n, Typeflag: tar.TypeReg, Mode: 0o644, Size: int64(len(body)),
				ModTime: unix(timeTable[(f.MTime+i)%len(timeTable)]), Format: tar.FormatUSTAR})
			_, _ = tw.Write(body)
		}
		_ = tw.Close()
		return buf.Bytes()
	}
	return nil
}

// innerTimes are the timestamps of the entries of an inner tar file.
func innerTimes(f FileSpec) []int64 {
	return []int64{timeTable[f.MTime%len(timeTable)], timeTable[(f.MTime+1)%len(timeTable)]}
}

// tarBytes serialises a layer's files.
func tarBytes(files []FileSpec) []byte {
	var buf bytes.Buffer
	tw := tar.NewWriter(&buf)
	for _, f := range files {
		h := &tar.Header{Name: f.Name, Mode: 0o644, ModTime: unix(timeTable[f.MTime]), Format: tar.FormatUSTAR}
		if len(f.Name) > 99 {
			h.Format = tar.FormatPAX
		}
		body := fileContent(f)
		switch f.Type {
		case "d":
			h.Typeflag, h.Mode, h.Name = tar.TypeDir, 0o755, f.Name+"/"
		case "l":
			h.Typeflag, h.Linkname, h.Mode = tar.TypeSymlink, "../bin/app", 0o777
		case "h":
			h.Typeflag, h.Linkname = tar.TypeLink, "bin/app"
		default:
			h.Typeflag, h.Size = tar.TypeReg, int64(len(body))
		}
		switch f.Owner {
		case 1:
			h.Uname, h.Gname = "root", "root"
		case 2:
			h.Uid, h.Gid, h.Uname, h.Gname = 1000, 50, "app", "staff"
		}
		if f.PAX {
			h.Format = tar.FormatPAX
			h.AccessTime = unix(timeTable[f.ATime])
			h.ChangeTime = unix(timeTable[f.MTime])
		}
		if err := tw.WriteHeader(h); err != nil {
			panic(fmt.Sprintf("harness tar header: %v", err))
		}
		if h.Typeflag == tar.TypeReg && len(body) > 0 {
			_, _ = tw.Write(body)
		}
	}
	_ = tw.Close()
	return buf.Bytes()
}

func compress(comp string, b []byte) []byte {
	switch comp {
	case "gzip":
		var buf bytes.Buffer
		gw := gzip.NewWriter(&buf)
		_, _ = gw.Write(b)
		_ = gw.Close()
		return buf.Bytes()
	case "zstd":
		enc, err := zstd.NewWriter(nil, zstd.WithEncoderConcurrency(1))
		if err != nil {
			panic(err)
		}
		defer enc.Close()
		return enc.EncodeAll(b, nil)
	}
	return b
}

func layerMT(family, comp string, foreign bool) string {
	if foreign {
		if family == "docker" {
			return mtDocForeign
		}
		return map[string]string{"none": mtOCIForeign, "gzip": mtOCIForeignGz, "zstd": mtOCIForeignZs}[comp]
	}
	if family == "docker" {
		return map[string]string{"none": mtDocLayer, "gzip": mtDocLayerGz, "zstd": mtDocLayerZs}[comp]
	}
	return map[string]string{"none": mtOCILayer, "gzip": mtOCILayerGz, "zstd": mtOCILayerZs}[comp]
}

// ---- raw JSON shapes (field order follows the specifications) ----

type jPlatform struct {
	Architecture string `json:"architecture"`
	OS           string `json:"os"`
	Variant      string `json:"variant,omitempty"`
}

type jDesc struct {
	MediaType    string            `json:"mediaType"`
	Digest       string            `json:"digest"`
	Size         int64             `json:"size"`
	URLs         []string          `json:"urls,omitempty"`
	Annotations  map[string]string `json:"annotations,omitempty"`
	Data         string            `json:"data,omitempty"`
	Platform     *jPlatform        `json:"platform,omitempty"`
	ArtifactType string            `json:"artifactType,omitempty"`
}

type jManifest struct {
	SchemaVersion int               `json:"schemaVersion"`
	MediaType     string            `json:"mediaType,omitempty"`
	ArtifactType  string            `json:"artifactType,omitempty"`
	Config        jDesc             `json:"config"`
	Layers        []jDesc           `json:"layers"`
	Subject       *jDesc            `json:"subject,omitempty"`
	Annotations   map[string]string `json:"annotations,omitempty"`
}

type jIndex struct {
	SchemaVersion int               `json:"schemaVersion"`
	MediaType     string            `json:"mediaType,omitempty"`
	Manifests     []jDesc           `json:"manifests"`
	Annotations   map[string]string `json:"annotations,omitempty"`
}

type jHist struct {
	Created    string `json:"created,omitempty"`
	CreatedBy  string `json:"created_by,omitempty"`
	Author     string `json:"author,omitempty"`
	Comment    string `json:"comment,omitempty"`
	EmptyLayer bool   `json:"empty_layer,omitempty"`
}

type jImgConfig struct {
	ExposedPorts map[string]struct{} `json:"ExposedPorts,omitempty"`
	Env          []string            `json:"Env,omitempty"`
	Entrypoint   []string            `json:"Entrypoint,omitempty"`
	Cmd          []string            `json:"Cmd,omitempty"`
	Volumes      map[string]struct{} `json:"Volumes,omitempty"`
	Labels       map[string]string   `json:"Labels,omitempty"`
}

type jRootFS struct {
	Type    string   `json:"type"`
	DiffIDs []string `json:"diff_ids"`
}

type jConfig struct {
	Created      string     `json:"created,omitempty"`
	Architecture string     `json:"architecture"`
	OS           string     `json:"os"`
	Variant      string     `json:"variant,omitempty"`
	Config       jImgConfig `json:"config"`
	RootFS       jRootFS    `json:"rootfs"`
	History      []jHist    `json:"history,omitempty"`
}

func mustJSON(v any) []byte {
	b, err := json.Marshal(v)
	if err != nil {
		panic(err)
	}
	return b
}

// styledJSON: pretty = indented with a trailing newline (what other tools write).
func styledJSON(v any, pretty bool) []byte {
	if !pretty {
		return mustJSON(v)
	}
	b, err := json.MarshalIndent(v, "", "   ")
	if err != nil {
		panic(err)
	}
	return append(b, '\n')
}

func pairsMap(p [][2]string) map[string]string {
	if len(p) == 0 {
		return nil
	}
	m := map[string]string{}
	for _, kv := range p {
		m[kv[0]] = kv[1]
	}
	return m
}

func setOf(s []string) map[string]struct{} {
	if len(s) == 0 {
		return nil
	}
	m := map[string]struct{}{}
	for _, x := range s {
		m[x] = struct{}{}
	}
	return m
}

// ---- the model of what was built (input of the no-op analysis) ----

type layerModel struct {
	MT      string
	Comp    string
	Foreign bool
	HasData bool
	Size    int64
	Digest  string
	DiffID  string
	Tar     bool // known tar media type (file-level steps apply)
	Files   []FileSpec
}

type imgModel struct {
	Family     string
	ManifestMT string
	ConfigMT   string
	Plat       string // os/arch[/variant]
	Annots     map[string]string
	Labels     map[string]string
	Env        []string
	Cmd        []string
	Entrypoint []string
	Ports      map[string]bool
	Volumes    map[string]bool
	Times      []int64 // created + every history created
	CreatedBys []string
	HasHistory bool
	Layers     []layerModel
	ConfigSize int64
	ConfigData bool
	Digest     string
	Size       int64
	IsAttest   bool
	IsArtifact bool
}

type manifestRec struct {
	MT   string
	Body []byte
}

// built is a fully serialised source.
type built struct {
	Blobs     map[string][]byte      // source repo blobs
	Manifests map[string]manifestRec // source repo manifests (without fallback indexes)
	Fallback  map[string]manifestRec // subject digest -> fallback index (for stores without referrers API)
	Top       string
	TopMT     string
	TopAnnots map[string]string
	IsIndex   bool
	ChildData bool
	ChildSize []int64
	Images    []imgModel // index children in order (attestation last), or the single image
	RefBySubj map[string][]string
	// base repo (registry host A, lib/base)
	BaseBlobs     map[string][]byte
	BaseManifests map[string]manifestRec
	BaseTags      map[string]string
	HasForeign    bool
	Nested        bool
	InnerAnnots   map[string]string // annotations of the inner index when the index is nested
	InnerSize     int64
	EntryImage    []int // per index entry: the image it names (-1 = attestation manifest)
}

type imgParts struct {
	layers []LayerSpec
	hist   []HistSpec
}

func platOf(arch string) jPlatform {
	a, v, _ := strings.Cut(arch, "/")
	return jPlatform{Architecture: a, OS: "linux", Variant: v}
}

func (p jPlatform) String() string {
	s := p.OS + "/" + p.Architecture
	if p.Variant != "" {
		s += "/" + p.Variant
	}
	return s
}

// buildImage serialises one image into blobs + manifest.
func buildImage(family string, arch string, layers []LayerSpec, hist []HistSpec, hasHist bool, im *ImageSpec, extraAnnots map[string]string,
	blobs map[string][]byte) (manifestRec, imgModel) {
	plat := platOf(arch)
	mdl := imgModel{Family: family, Plat: plat.String(), Ports: map[string]bool{}, Volumes: map[string]bool{}, HasHistory: hasHist}
	cfg := jConfig{Architecture: plat.Architecture, OS: plat.OS, Variant: plat.Variant, RootFS: jRootFS{Type: "layers", DiffIDs: []string{}}}
	man := jManifest{SchemaVersion: 2, Layers: []jDesc{}}
	cfgMT := mtOCIConfig
	man.MediaType = mtOCIManifest
	if family == "docker" {
		cfgMT, man.MediaType = mtDocConfig, mtDocManifest
	}
	for _, l := range layers {
		raw := tarBytes(l.Files)
		blob := compress(l.Comp, raw)
		d := sha256Dig(blob)
		if !(l.Foreign && l.ForeignAbsent) {
			blobs[d] = blob
		}
		mt := layerMT(family, l.Comp, l.Foreign)
		desc := jDesc{MediaType: mt, Digest: d, Size: int64(len(blob))}
		if l.Foreign {
			desc.URLs = []string{"https://ext.example.test/layers/" + strings.TrimPrefix(d, "sha256:")}
		}
		if l.Data {
			desc.Data = base64.StdEncoding.EncodeToString(blob)
		}
		man.Layers = append(man.Layers, desc)
		diff := sha256Dig(raw)
		cfg.RootFS.DiffIDs = append(cfg.RootFS.DiffIDs, diff)
		mdl.Layers = append(mdl.Layers, layerModel{MT: mt, Comp: l.Comp, Foreign: l.Foreign, HasData: l.Data, Size: int64(len(blob)), Digest: d, DiffID: diff, Tar: !l.Foreign, Files: l.Files})
	}
	if hasHist {
		for _, h := range hist {
			jh := jHist{Created: rfc3339(timeTable[h.Created]), CreatedBy: h.CreatedBy, Author: h.Author, Comment: h.Comment, EmptyLayer: h.Empty}
			if h.NoCreated {
				jh.Created = ""
			} else {
				mdl.Times = append(mdl.Times, timeTable[h.Created])
			}
			cfg.History = append(cfg.History, jh)
			mdl.CreatedBys = append(mdl.CreatedBys, h.CreatedBy)
		}
	}
	if im != nil {
		if im.Created >= 0 {
			cfg.Created = rfc3339(timeTable[im.Created])
			mdl.Times = append(mdl.Times, timeTable[im.Created])
		}
		cfg.Config = jImgConfig{ExposedPorts: setOf(im.Ports), Env: im.Env, Entrypoint: im.Entrypoint, Cmd: im.Cmd, Volumes: setOf(im.Volumes), Labels: pairsMap(im.Labels)}
		mdl.Labels, mdl.Env, mdl.Cmd, mdl.Entrypoint = pairsMap(im.Labels), im.Env, im.Cmd, im.Entrypoint
		for _, p := range im.Ports {
			mdl.Ports[p] = true
		}
		for _, v := range im.Volumes {
			mdl.Volumes[v] = true
		}
		ann := pairsMap(im.Annots)
		for k, v := range extraAnnots {
			if ann == nil {
				ann = map[string]string{}
			}
			ann[k] = v
		}
		man.Annotations = ann
		mdl.Annots = ann
	}
	pretty := im != nil && im.Pretty
	cb := styledJSON(cfg, pretty)
	cd := sha256Dig(cb)
	blobs[cd] = cb
	man.Config = jDesc{MediaType: cfgMT, Digest: cd, Size: int64(len(cb))}
	if im != nil && im.ConfigData {
		man.Config.Data = base64.StdEncoding.EncodeToString(cb)
		mdl.ConfigData = true
	}
	mdl.ConfigSize, mdl.ConfigMT, mdl.ManifestMT = int64(len(cb)), cfgMT, man.MediaType
	storeMT := man.MediaType
	if im != nil && im.NoMTField && family == "oci" {
		man.MediaType = "" // optional in the OCI image spec; the store / parent descriptor carries the type
	}
	body := styledJSON(man, pretty)
	mdl.Digest, mdl.Size = sha256Dig(body), int64(len(body))
	return manifestRec{MT: storeMT, Body: body}, mdl
}

// baseLoc tells where the base images live.
func baseLoc(c Case) (host, repo string) {
	switch c.BaseLoc {
	case "src-repo":
		return hostA, repoSrc
	case "host2":
		return hostB, repoBase
	}
	return hostA, repoBase
}

const mtCustomConfig = "application/vnd.example.config.v1+json"

// buildArtifact serialises an artifact source (no image config, non-tar blobs).
func buildArtifact(a *ArtSpec, b *built) {
	man := jManifest{SchemaVersion: 2, MediaType: mtOCIManifest, ArtifactType: a.ArtifactType, Layers: []jDesc{}, Annotations: pairsMap(a.Annots)}
	mdl := imgModel{Family: "oci", ManifestMT: mtOCIManifest, Ports: map[string]bool{}, Volumes: map[string]bool{}, Annots: pairsMap(a.Annots), IsArtifact: true}
	cfg, cfgMT := []byte("{}"), mtOCIEmpty
	if a.ConfigMT == "custom" {
		cfg, cfgMT = []byte(`{"kind":"example","version":1}`), mtCustomConfig
	}
	cd := sha256Dig(cfg)
	b.Blobs[cd] = cfg
	man.Config = jDesc{MediaType: cfgMT, Digest: cd, Size: int64(len(cfg))}
	mdl.ConfigMT, mdl.ConfigSize = cfgMT, int64(len(cfg))
	blobs := a.Blobs
	for _, x := range blobs {
		d := sha256Dig([]byte(x))
		b.Blobs[d] = []byte(x)
		man.Layers = append(man.Layers, jDesc{MediaType: a.ArtifactType, Digest: d, Size: int64(len(x))})
		mdl.Layers = append(mdl.Layers, layerModel{MT: a.ArtifactType, Comp: "none", Size: int64(len(x)), Digest: d})
	}
	if len(blobs) == 0 {
		d := sha256Dig([]byte("{}"))
		b.Blobs[d] = []byte("{}")
		man.Layers = append(man.Layers, jDesc{MediaType: mtOCIEmpty, Digest: d, Size: 2})
		mdl.Layers = append(mdl.Layers, layerModel{MT: mtOCIEmpty, Comp: "none", Size: 2, Digest: d})
	}
	body := mustJSON(man)
	mdl.Digest, mdl.Size = sha256Dig(body), int64(len(body))
	b.Manifests[mdl.Digest] = manifestRec{MT: mtOCIManifest, Body: body}
	b.Images = []imgModel{mdl}
	b.Top, b.TopMT, b.TopAnnots = mdl.Digest, mtOCIManifest, mdl.Annots
}

// partsOf returns the full layer and history lists of an image (base prefix included).
func partsOf(c Case, im ImageSpec) imgParts {
	p := imgParts{layers: im.Layers, hist: im.History}
	if c.Base != nil && im.UseBase {
		p.layers = append(append([]LayerSpec{}, c.Base.OldLayers...), im.Layers...)
		p.hist = append(append([]HistSpec{}, c.Base.OldHist...), im.History...)
	}
	return p
}

func build(c Case) *built {
	b := &built{Blobs: map[string][]byte{}, Manifests: map[string]manifestRec{}, Fallback: map[string]manifestRec{}, RefBySubj: map[string][]string{},
		BaseBlobs: map[string][]byte{}, BaseManifests: map[string]manifestRec{}, BaseTags: map[string]string{}}
	// base images first (their digest goes into the annotations of the top manifest)
	baseAnnots := map[string]string{}
	if c.Base != nil {
		mk := func(layers []LayerSpec, hist []HistSpec) string {
			fam := c.Base.Family
			if !c.Base.AsIndex {
				arch := c.Images[0].Arch
				rec, m := buildImage(fam, arch, layers, hist, true, nil, nil, b.BaseBlobs)
				b.BaseManifests[m.Digest] = rec
				return m.Digest
			}
			idx := jIndex{SchemaVersion: 2, MediaType: mtOCIIndex}
			if fam == "docker" {
				idx.MediaType = mtDocList
			}
			for _, im := range c.Images {
				rec, m := buildImage(fam, im.Arch, layers, hist, true, nil, nil, b.BaseBlobs)
				b.BaseManifests[m.Digest] = rec
				p := platOf(im.Arch)
				idx.Manifests = append(idx.Manifests, jDesc{MediaType: rec.MT, Digest: m.Digest, Size: m.Size, Platform: &p})
			}
			body := mustJSON(idx)
			d := sha256Dig(body)
			b.BaseManifests[d] = manifestRec{MT: idx.MediaType, Body: body}
			return d
		}
		oldD := mk(c.Base.OldLayers, c.Base.OldHist)
		newD := mk(c.Base.NewLayers, c.Base.NewHist)
		b.BaseTags["old"], b.BaseTags["new"] = oldD, newD
		b.BaseTags["cur"] = newD
		if c.Base.SameNew {
			b.BaseTags["cur"] = oldD
		}
		if c.Base.Annotate {
			bh, br := baseLoc(c)
			baseAnnots[annoBaseName] = bh + "/" + br + ":cur"
			baseAnnots[annoBaseDig] = oldD
		}
	}
	var recs []manifestRec
	if c.Artifact != nil {
		buildArtifact(c.Artifact, b)
	}
	for i := range c.Images {
		if c.Artifact != nil {
			break
		}
		im := c.Images[i]
		p := partsOf(c, im)
		var extra map[string]string
		if c.Index == "" {
			extra = baseAnnots
		}
		rec, m := buildImage(im.Family, im.Arch, p.layers, p.hist, im.History != nil, &im, extra, b.Blobs)
		for _, l := range m.Layers {
			if l.Foreign {
				b.HasForeign = true
			}
		}
		b.Manifests[m.Digest] = rec
		b.Images = append(b.Images, m)
		recs = append(recs, rec)
	}
	if c.Artifact != nil {
		// built above
	} else if c.Index == "" {
		b.Top, b.TopMT, b.TopAnnots = b.Images[0].Digest, recs[0].MT, b.Images[0].Annots
	} else {
		idx := jIndex{SchemaVersion: 2, MediaType: mtOCIIndex}
		if c.Index == "docker" {
			idx.MediaType = mtDocList
		}
		order := c.EntryOrder
		if order == nil {
			order = intRange(len(c.Images))
		}
		seenImg := map[int]int{}
		for _, i := range order {
			if i < 0 || i >= len(c.Images) {
				continue
			}
			m := b.Images[i]
			p := platOf(c.Images[i].Arch)
			d := jDesc{MediaType: m.ManifestMT, Digest: m.Digest, Size: m.Size, Platform: &p}
			if n := seenImg[i]; n > 0 {
				// a further entry for the same image: another variant of the platform, own annotation
				p.Variant = map[string]string{"amd64": "v2", "arm64": "v9", "arm": "v6", "ppc64le": "power8"}[p.Architecture] + strings.Repeat("x", n-1)
				d.Annotations = map[string]string{"org.example.entry": fmt.Sprintf("dup-%d", n)}
			}
			seenImg[i]++
			if c.ChildData {
				d.Data = base64.StdEncoding.EncodeToString(recs[i].Body)
			}
			idx.Manifests = append(idx.Manifests, d)
			b.ChildSize = append(b.ChildSize, m.Size)
			b.EntryImage = append(b.EntryImage, i)
		}
		if c.Attest {
			// buildkit-style attestation manifest attached to image 0 through descriptor annotations
			stmt := []byte(`{"_type":"https://in-toto.io/Statement/v0.1","predicateType":"https://slsa.dev/provenance/v0.2","subject":[{"name":"x","digest":{"sha256":"` +
				strings.TrimPrefix(b.Images[0].Digest, "sha256:") + `"}}],"predicate":{}}`)
			sd := sha256Dig(stmt)
			b.Blobs[sd] = stmt
			cfg := mustJSON(jConfig{Architecture: "unknown", OS: "unknown", RootFS: jRootFS{Type: "layers", DiffIDs: []string{sd}}})
			cd := sha256Dig(cfg)
			b.Blobs[cd] = cfg
			am := jManifest{SchemaVersion: 2, MediaType: mtOCIManifest, Config: jDesc{MediaType: mtOCIConfig, Digest: cd, Size: int64(len(cfg))},
				Layers: []jDesc{{MediaType: mtInToto, Digest: sd, Size: int64(len(stmt)), Annotations: map[string]string{"in-toto.io/predicate-type": "https://slsa.dev/provenance/v0.2"}}}}
			body := mustJSON(am)
			ad := sha256Dig(body)
			b.Manifests[ad] = manifestRec{MT: mtOCIManifest, Body: body}
			idx.Manifests = append(idx.Manifests, jDesc{MediaType: mtOCIManifest, Digest: ad, Size: int64(len(body)),
				Annotations: map[string]string{"vnd.docker.reference.type": "attestation-manifest", "vnd.docker.reference.digest": b.Images[0].Digest},
				Platform:    &jPlatform{Architecture: "unknown", OS: "unknown"}})
			b.ChildSize = append(b.ChildSize, int64(len(body)))
			b.EntryImage = append(b.EntryImage, -1)
			b.Images = append(b.Images, imgModel{Family: "oci", ManifestMT: mtOCIManifest, ConfigMT: mtOCIConfig, Plat: "unknown/unknown", IsAttest: true, Digest: ad,
				Size: int64(len(body)), ConfigSize: int64(len(cfg)), Ports: map[string]bool{}, Volumes: map[string]bool{},
				Layers: []layerModel{{MT: mtInToto, Comp: "none", Size: int64(len(stmt)), Digest: sd, DiffID: sd}}})
		}
		ann := pairsMap(c.IndexAnnots)
		if !c.Nested {
			for k, v := range baseAnnots {
				if ann == nil {
					ann = map[string]string{}
				}
				ann[k] = v
			}
		}
		idx.Annotations = ann
		storeMT := idx.MediaType
		if c.IdxNoMT && c.Index == "oci" {
			idx.MediaType = ""
		}
		body := styledJSON(idx, c.IndexPretty)
		b.Top, b.TopMT, b.TopAnnots = sha256Dig(body), storeMT, ann
		b.Manifests[b.Top] = manifestRec{MT: storeMT, Body: body}
		b.IsIndex, b.ChildData = true, c.ChildData
		if c.Nested {
			outer := jIndex{SchemaVersion: 2, MediaType: storeMT, Manifests: []jDesc{{MediaType: storeMT, Digest: b.Top, Size: int64(len(body))}}}
			if len(baseAnnots) > 0 {
				outer.Annotations = baseAnnots
			}
			ob := mustJSON(outer)
			b.Nested, b.InnerAnnots, b.InnerSize = true, ann, int64(len(body))
			b.Top, b.TopAnnots = sha256Dig(ob), outer.Annotations
			b.Manifests[b.Top] = manifestRec{MT: storeMT, Body: ob}
		}
	}
	// referrers
	for _, r := range c.Referrers {
		subj := b.Top
		if r.Subject >= 0 && r.Subject < len(c.Images) && c.Index != "" {
			subj = b.Images[r.Subject].Digest
		}
		srec := b.Manifests[subj]
		payload := []byte(r.Payload)
		pd := sha256Dig(payload)
		b.Blobs[pd] = payload
		empty := []byte("{}")
		ed := sha256Dig(empty)
		b.Blobs[ed] = empty
		am := jManifest{SchemaVersion: 2, MediaType: mtOCIManifest, ArtifactType: r.ArtifactType,
			Config:  jDesc{MediaType: mtOCIEmpty, Digest: ed, Size: 2},
			Layers:  []jDesc{{MediaType: r.ArtifactType, Digest: pd, Size: int64(len(payload))}},
			Subject: &jDesc{MediaType: srec.MT, Digest: subj, Size: int64(len(srec.Body))}, Annotations: pairsMap(r.Annots)}
		if r.ConfigData {
			am.Config.Data = base64.StdEncoding.EncodeToString(empty)
		}
		body := mustJSON(am)
		d := sha256Dig(body)
		if _, dup := b.Manifests[d]; dup {
			continue
		}
		b.Manifests[d] = manifestRec{MT: mtOCIManifest, Body: body}
		b.RefBySubj[subj] = append(b.RefBySubj[subj], d)
	}
	subjs := make([]string, 0, len(b.RefBySubj))
	for s := range b.RefBySubj {
		subjs = append(subjs, s)
	}
	sort.Strings(subjs)
	for _, s := range subjs {
		idx := jIndex{SchemaVersion: 2, MediaType: mtOCIIndex}
		for _, d := range b.RefBySubj[s] {
			rec := b.Manifests[d]
			var am jManifest
			_ = json.Unmarshal(rec.Body, &am)
			idx.Manifests = append(idx.Manifests, jDesc{MediaType: rec.MT, Digest: d, Size: int64(len(rec.Body)), ArtifactType: am.ArtifactType, Annotations: am.Annotations})
		}
		b.Fallback[s] = manifestRec{MT: mtOCIIndex, Body: mustJSON(idx)}
	}
	return b
}
