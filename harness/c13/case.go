// Package c13 decides C13: image modification (mod.Apply) yields a well-formed
// image at the target and leaves the source untouched.
//
// case.go: the Case record (plain data) and its generator.
package c13

import (
	"fmt"
	"regexp"
	"sort"
	"strings"

	"pgregory.net/rapid"
)

// ---- fixed tables (all generator choices are indexes into / members of these) ----

// timeTable holds the timestamps (unix seconds, UTC) used inside source images.
var timeTable = []int64{
	981158400,  // 2001-02-03T00:00:00Z
	1276560000, // 2010-06-15T00:00:00Z
	1420070400, // 2015-01-01T00:00:00Z
	1588636800, // 2020-05-05T00:00:00Z
	1691539200, // 2023-08-09T00:00:00Z
}

// optTimes are the timestamps options are given (Set / After).
var optTimes = []int64{
	631152000,  // 1990-01-01
	1104537600, // 2005-01-01
	1420070400, // 2015-01-01 (member of timeTable)
	1577836800, // 2020-01-01
	2208988800, // 2040-01-01 (after everything)
}

const labelTimeKey = "org.opencontainers.image.created"

var (
	archPool    = []string{"amd64", "arm64", "arm/v7", "ppc64le"}
	annotPool   = [][2]string{{"org.example.version", "1"}, {"common", "yes"}, {"org.example.team", "core"}, {"version", "1.0"}}
	labelPool   = [][2]string{{"version", "1.0"}, {"maintainer", "me"}, {labelTimeKey, "2015-01-01T00:00:00Z"}, {"common", "yes"}}
	envPool     = []string{"PATH=/usr/bin:/bin", "LANG=C", "APP_HOME=/app", "EMPTY="}
	portPool    = []string{"80/tcp", "8080", "53/udp"}
	volPool     = []string{"/data", "/volume"}
	cmdPool     = [][]string{nil, {"/bin/app"}, {"/bin/sh", "-c", "app -v"}}
	entryPool   = [][]string{nil, {"/entry"}, {"/bin/sh", "-c", "entry"}}
	createdPool = []string{
		"ADD file:abc in /", "COPY app /bin/app", "RUN |1 VERSION=1.2 /bin/sh -c make", "RUN apk add foo",
		"COPY layer2.txt /layer2", "RUN |2 VERSION=1.2 MODE=fast /bin/sh -c build", "ADD data /data",
	}
	emptyByPool = []string{"ARG VERSION", "ARG VERSION=1.2", "ARG MODE=fast", "ENV A=b", "CMD [\"app\"]", "LABEL x=y", "WORKDIR /app"}
	authorPool  = []string{"", "", "dev"}
	commentPool = []string{"", "", "buildkit.dockerfile.v0"}
	// files a layer is made of: name, type (f regular, d dir, w whiteout, l symlink, t inner tar)
	filePool = [][2]string{
		{"etc", "d"}, {"etc/app.conf", "f"}, {"bin/app", "f"}, {"data", "d"}, {"data/a.txt", "f"}, {"data/b.txt", "f"},
		{"README", "f"}, {"layer2", "f"}, {"tmp/.wh.cache", "w"}, {"data/.wh..wh..opq", "w"}, {"lib/link", "l"}, {"dir/inner.tar", "t"},
		{"bin/hard", "h"}, {"opt/a-very-long-directory-name-that-does-not-fit-into-a-ustar-header/and-another-quite-long-component/with-a-file-name-longer-than-one-hundred-characters.txt", "f"},
	}
	contentPool  = []string{"", "hello\n", "key=value\n", "#!/bin/sh\nexit 0\n", "0123456789abcdef0123456789abcdef"}
	artTypePool  = []string{"application/vnd.example.sbom", "application/vnd.example.sig"}
	scopePool    = []string{"", "", "[*]", "[linux/amd64]", "[linux/amd64,linux/arm64]", "[linux/s390x]", "[linux/arm/v7]"}
	stripPool    = []string{"README", "/data", "data/a.txt", "etc", "nosuch", "bin/app", "layer2", "/dir", "tmp"}
	platOptPool  = []string{"linux/amd64", "linux/arm64", "linux/amd64/v3", "linux/s390x"}
	rmByPool     = []string{"^COPY layer2.txt /layer2", "^RUN apk", "^ADD", "VERSION", "^NOSUCH", "^COPY"}
	buildArgPool = [][2]string{{"VERSION", "1\\.2"}, {"MODE", "fast"}, {"NOSUCH", "x"}, {"VERSION", "[0-9.]+"}}
)

// FileSpec is one entry of a layer tar.
type FileSpec struct {
	Name    string `json:"name"`
	Type    string `json:"type"` // f d w l t h(ard link)
	Content string `json:"content,omitempty"`
	Big     int    `json:"big,omitempty"` // >0: content is a repeated pattern of this many bytes
	MTime   int    `json:"mtime"`         // index into timeTable
	PAX     bool   `json:"pax,omitempty"` // PAX header with access / change time
	ATime   int    `json:"atime,omitempty"`
	Owner   int    `json:"owner,omitempty"` // 0 numeric only, 1 root/root, 2 app/staff
	Token   string `json:"token,omitempty"` // unique marker appended to the content (identifies the layer)
}

// LayerSpec is one layer.
type LayerSpec struct {
	Files   []FileSpec `json:"files"`
	Comp    string     `json:"comp"`              // none | gzip | zstd
	Data    bool       `json:"data,omitempty"`    // descriptor carries inline data
	Foreign bool       `json:"foreign,omitempty"` // foreign / non-distributable media type with urls (blob also stored)
	// ForeignAbsent: the foreign layer's content is NOT stored in the source repository (a truly external layer)
	ForeignAbsent bool `json:"foreign_absent,omitempty"`
}

// HistSpec is one history entry.
type HistSpec struct {
	Empty     bool   `json:"empty,omitempty"`
	CreatedBy string `json:"created_by"`
	Created   int    `json:"created"` // index into timeTable
	Author    string `json:"author,omitempty"`
	Comment   string `json:"comment,omitempty"`
	NoCreated bool   `json:"no_created,omitempty"` // the entry has no created field (optional in the image spec)
}

// ImageSpec is one platform image.
type ImageSpec struct {
	Family     string      `json:"family"` // oci | docker
	Arch       string      `json:"arch"`   // amd64 | arm64 | arm/v7 | ppc64le
	Layers     []LayerSpec `json:"layers"`
	History    []HistSpec  `json:"history"` // nil = config without history; else aligned with Layers
	Created    int         `json:"created"` // index into timeTable, -1 absent
	Labels     [][2]string `json:"labels,omitempty"`
	Env        []string    `json:"env,omitempty"`
	Annots     [][2]string `json:"annots,omitempty"`
	Cmd        []string    `json:"cmd,omitempty"`
	Entrypoint []string    `json:"entrypoint,omitempty"`
	Ports      []string    `json:"ports,omitempty"`
	Volumes    []string    `json:"volumes,omitempty"`
	ConfigData bool        `json:"config_data,omitempty"` // config descriptor carries inline data
	UseBase    bool        `json:"use_base,omitempty"`    // layers/history start with the (old) base image
	Pretty     bool        `json:"pretty,omitempty"`      // config and manifest are indented JSON (not regclient's canonical form)
	NoMTField  bool        `json:"no_mt_field,omitempty"` // OCI manifest body without the (optional) mediaType field
}

// BaseSpec describes the old and the new base image (always on registry host A, repo lib/base).
type BaseSpec struct {
	OldLayers []LayerSpec `json:"old_layers"`
	OldHist   []HistSpec  `json:"old_hist"`
	NewLayers []LayerSpec `json:"new_layers"`
	NewHist   []HistSpec  `json:"new_hist"`
	SameNew   bool        `json:"same_new,omitempty"` // the tag the annotations name still points at the old base
	AsIndex   bool        `json:"as_index,omitempty"` // base images are published as an index over the case's platforms
	Annotate  bool        `json:"annotate,omitempty"` // top manifest carries org.opencontainers.image.base.{name,digest}
	Family    string      `json:"family"`
}

// RefSpec is one referrer artifact.
type RefSpec struct {
	Subject      int         `json:"subject"` // -1 top manifest, i = i-th image
	ArtifactType string      `json:"artifact_type"`
	Annots       [][2]string `json:"annots,omitempty"`
	Payload      string      `json:"payload"`
	ConfigData   bool        `json:"config_data,omitempty"`
}

// OptSpec is one generated option (interpreted into a mod.Opts).
type OptSpec struct {
	Kind       string     `json:"kind"`
	Name       string     `json:"name,omitempty"`
	Value      string     `json:"value,omitempty"`
	List       []string   `json:"list,omitempty"`
	N          int64      `json:"n,omitempty"`
	Set        int64      `json:"set,omitempty"`   // unix seconds, 0 = unset
	After      int64      `json:"after,omitempty"` // unix seconds, 0 = unset
	BaseLayers int        `json:"base_layers,omitempty"`
	FromLabel  string     `json:"from_label,omitempty"`
	BaseRef    bool       `json:"base_ref,omitempty"`
	Algo       string     `json:"algo,omitempty"` // sha256|sha512 or none|gzip|zstd
	Layer      *LayerSpec `json:"layer,omitempty"`
	MT         string     `json:"mt,omitempty"`
	Plat       string     `json:"plat,omitempty"`
	Stream     bool       `json:"stream,omitempty"`    // layer-add: the tar reader is not seekable (regctl --layer-add dir=...)
	BaseSelf   bool       `json:"base_self,omitempty"` // time options: BaseRef names the source image itself
}

// Case is one generated scenario.
type Case struct {
	Images      []ImageSpec `json:"images"`
	Index       string      `json:"index"` // "" single image | oci | docker
	IndexAnnots [][2]string `json:"index_annots,omitempty"`
	IndexPretty bool        `json:"index_pretty,omitempty"`
	ChildData   bool        `json:"child_data,omitempty"` // index entries carry inline data
	Attest      bool        `json:"attest,omitempty"`     // index has a docker-reference attestation entry for image 0
	Referrers   []RefSpec   `json:"referrers,omitempty"`
	Base        *BaseSpec   `json:"base,omitempty"`
	Src         string      `json:"src"`      // reg | layout
	Tgt         string      `json:"tgt"`      // default | tag | replace | other-tag | other-digest | host2 | cross
	RefAPI      bool        `json:"ref_api"`  // source registry implements the referrers API
	RefAPI2     bool        `json:"ref_api2"` // second registry implements the referrers API
	Mode        string      `json:"mode"`     // normal | noop (generator intent only; the oracle re-derives)
	// AllTimeLabel: generator intent only (every image got the created label); not read by build or oracle
	AllTimeLabel bool      `json:"all_time_label,omitempty"`
	Program      []OptSpec `json:"program"`
	// dimensions added by the generator-domain audit
	// EntryOrder lists, per index entry, the image it names (nil = one entry per image in order);
	// an image named more than once gives duplicate child digests under different platforms
	EntryOrder []int     `json:"entry_order,omitempty"`
	Artifact   *ArtSpec  `json:"artifact,omitempty"` // the source is an OCI artifact manifest (Images[0] is then not materialised)
	Nested     bool      `json:"nested,omitempty"`   // the index is wrapped in an outer index
	IdxNoMT    bool      `json:"idx_no_mt,omitempty"`
	SrcForm    string    `json:"src_form,omitempty"`  // "" tag | digest | tag+digest
	BaseLoc    string    `json:"base_loc,omitempty"`  // "" other repo on host A | src-repo | host2
	TgtPre     string    `json:"tgt_pre,omitempty"`   // "" | stale-tag | stale-digest
	CancelAt   int       `json:"cancel_at,omitempty"` // >0: the context is cancelled when the k-th request arrives; -1: cancelled before the call
	Chain      []OptSpec `json:"chain,omitempty"`     // second program applied to the result with the same client
	HasChain   bool      `json:"has_chain,omitempty"`
	FeatA      FeatSpec  `json:"feat_a"`
	FeatB      FeatSpec  `json:"feat_b"`
	// Cache: the client caches manifests (reg.WithCache, as regctl configures it)
	Cache bool `json:"cache,omitempty"`
	// CLI engine (regctl image mod): the target is requested with --create / --replace
	CLI             bool `json:"cli,omitempty"`
	CLIBoth         bool `json:"cli_both,omitempty"`          // --create X together with --replace (documented: --replace is ignored)
	CLIReplaceFirst bool `json:"cli_replace_first,omitempty"` // the target flags stand before the option flags, --replace before --create
	CLICreateFull   bool `json:"cli_create_full,omitempty"`   // --create carries a full reference (else a tag only)
}

// ArtSpec is an artifact source.
type ArtSpec struct {
	ArtifactType string      `json:"artifact_type"`
	ConfigMT     string      `json:"config_mt"` // empty (application/vnd.oci.empty.v1+json) | custom
	Blobs        []string    `json:"blobs"`
	Annots       [][2]string `json:"annots,omitempty"`
}

// FeatSpec is the generated part of a registry feature set.
type FeatSpec struct {
	MountGrant   bool `json:"mount_grant"`
	AnonMount    int  `json:"anon_mount"`
	HeadNoDigest bool `json:"head_no_digest"`
	LocStyle     int  `json:"loc_style"`
	TagDelete    bool `json:"tag_delete"`
	ChunkMin     int  `json:"chunk_min,omitempty"`
}

func genFeat(t *rapid.T, label string) FeatSpec {
	return FeatSpec{
		MountGrant:   rapid.Bool().Draw(t, label+"_mount"),
		AnonMount:    rapid.SampledFrom([]int{0, 0, 201, 405}).Draw(t, label+"_anon"),
		HeadNoDigest: rapid.IntRange(0, 3).Draw(t, label+"_hnd") == 0,
		LocStyle:     rapid.IntRange(0, 3).Draw(t, label+"_loc"),
		TagDelete:    rapid.Bool().Draw(t, label+"_tagdel"),
		ChunkMin:     rapid.SampledFrom([]int{0, 0, 0, 64, 4096}).Draw(t, label+"_chunkmin"),
	}
}

var tgtModes = []string{"default", "default", "tag", "tag", "replace", "other-tag", "other-tag", "other-digest", "host2", "cross", "cross"}

// ---- generator ----

func subsetPairs(t *rapid.T, pool [][2]string, label string) [][2]string {
	var out [][2]string
	for i, p := range pool {
		if rapid.IntRange(0, 2).Draw(t, fmt.Sprintf("%s%d", label, i)) == 0 {
			out = append(out, p)
		}
	}
	return out
}

func subsetStr(t *rapid.T, pool []string, label string) []string {
	var out []string
	for i, p := range pool {
		if rapid.IntRange(0, 2).Draw(t, fmt.Sprintf("%s%d", label, i)) == 0 {
			out = append(out, p)
		}
	}
	return out
}

func genFiles(t *rapid.T, label string, allowInner bool) []FileSpec {
	n := rapid.IntRange(1, 4).Draw(t, label+"_nfiles")
	if uniformInt(t, label+"_emptytar", 40) == 0 {
		return []FileSpec{} // a tar without entries (an "empty" layer as old builders emit it)
	}
	idx := rapid.Permutation(intRange(len(filePool))).Draw(t, label+"_perm")
	var out []FileSpec
	for _, i := range idx {
		if len(out) == n {
			break
		}
		fp := filePool[i]
		if fp[1] == "t" && !allowInner {
			continue
		}
		f := FileSpec{Name: fp[0], Type: fp[1], MTime: rapid.IntRange(0, len(timeTable)-1).Draw(t, label+"_mtime")}
		switch fp[1] {
		case "f":
			if rapid.IntRange(0, 7).Draw(t, label+"_big") == 0 {
				f.Big = rapid.SampledFrom([]int{600, 3000, 9000, 32768, 40000, 140000}).Draw(t, label+"_bigsz")
			} else {
				f.Content = rapid.SampledFrom(contentPool).Draw(t, label+"_content")
			}
		}
		if rapid.IntRange(0, 3).Draw(t, label+"_pax") == 0 {
			f.PAX = true
			f.ATime = rapid.IntRange(0, len(timeTable)-1).Draw(t, label+"_atime")
		}
		f.Owner = rapid.SampledFrom([]int{0, 0, 1, 2}).Draw(t, label+"_owner")
		out = append(out, f)
	}
	sort.SliceStable(out, func(i, j int) bool { return out[i].Name < out[j].Name })
	// the first regular file carries a token that is unique to this generated layer, so that
	// no rewriting of another layer can ever produce this layer's content
	for i := range out {
		if out[i].Type == "f" {
			out[i].Token = "#" + label
			break
		}
	}
	return out
}

func intRange(n int) []int {
	out := make([]int, n)
	for i := range out {
		out[i] = i
	}
	return out
}

func genLayer(t *rapid.T, label string) LayerSpec {
	return LayerSpec{
		Files: genFiles(t, label, true),
		Comp:  rapid.SampledFrom([]string{"gzip", "gzip", "zstd", "none"}).Draw(t, label+"_comp"),
	}
}

func genHist(t *rapid.T, label string, empty bool, seq int) HistSpec {
	h := HistSpec{Empty: empty, Created: rapid.IntRange(0, len(timeTable)-1).Draw(t, label+"_hcreated"),
		Author: rapid.SampledFrom(authorPool).Draw(t, label+"_hauthor"), Comment: rapid.SampledFrom(commentPool).Draw(t, label+"_hcomment")}
	if empty {
		h.CreatedBy = rapid.SampledFrom(emptyByPool).Draw(t, label+"_hby")
	} else {
		h.CreatedBy = rapid.SampledFrom(createdPool).Draw(t, label+"_hby")
	}
	h.NoCreated = uniformInt(t, label+"_hnocreated", 60) == 0
	// a unique suffix makes every entry identifiable (history alignment oracle)
	h.CreatedBy += fmt.Sprintf(" #%s.%d", label, seq)
	return h
}

// genAlignedHist draws a history whose non-empty entries line up with n layers.
func genAlignedHist(t *rapid.T, label string, n int, trailing bool) []HistSpec {
	out := []HistSpec{}
	for i := 0; i < n; i++ {
		for k := rapid.SampledFrom([]int{0, 0, 1, 2}).Draw(t, fmt.Sprintf("%s_pre%d", label, i)); k > 0; k-- {
			out = append(out, genHist(t, label, true, len(out)))
		}
		out = append(out, genHist(t, label, false, len(out)))
	}
	if trailing {
		for k := rapid.SampledFrom([]int{0, 1, 2}).Draw(t, label+"_post"); k > 0; k-- {
			out = append(out, genHist(t, label, true, len(out)))
		}
	}
	return out
}

func genImage(t *rapid.T, label, family, arch string, hasBase bool) ImageSpec {
	im := ImageSpec{Family: family, Arch: arch}
	n := rapid.IntRange(1, 4).Draw(t, label+"_nlayers")
	if uniformInt(t, label+"_nolayers", 25) == 0 || (hasBase && uniformInt(t, label+"_onlybase", 5) == 0) {
		n = 0
	}
	for i := 0; i < n; i++ {
		ll := fmt.Sprintf("%s_l%d", label, i)
		if i > 0 && rapid.IntRange(0, 7).Draw(t, ll+"_dup") == 0 {
			im.Layers = append(im.Layers, im.Layers[rapid.IntRange(0, i-1).Draw(t, ll+"_dupof")])
			continue
		}
		l := genLayer(t, ll)
		if rapid.IntRange(0, 9).Draw(t, ll+"_data") == 0 {
			l.Data = true
		}
		if l.Comp != "zstd" || family == "oci" {
			if rapid.IntRange(0, 11).Draw(t, ll+"_foreign") == 0 && !(family == "docker" && l.Comp != "gzip") {
				l.Foreign = true
				l.Data = false
				l.ForeignAbsent = uniformInt(t, ll+"_foreignabsent", 3) == 0
			}
		}
		im.Layers = append(im.Layers, l)
	}
	if rapid.IntRange(0, 5).Draw(t, label+"_nohist") != 0 || hasBase {
		im.History = genAlignedHist(t, label, n, true)
	}
	im.Created = rapid.IntRange(-1, len(timeTable)-1).Draw(t, label+"_created")
	im.Labels = subsetPairs(t, labelPool, label+"_lab")
	im.Env = subsetStr(t, envPool, label+"_env")
	if family == "oci" || rapid.IntRange(0, 5).Draw(t, label+"_dockerannot") == 0 {
		im.Annots = subsetPairs(t, annotPool, label+"_ann")
	}
	im.Cmd = rapid.SampledFrom(cmdPool).Draw(t, label+"_cmd")
	im.Entrypoint = rapid.SampledFrom(entryPool).Draw(t, label+"_entry")
	im.Ports = subsetStr(t, portPool, label+"_port")
	im.Volumes = subsetStr(t, volPool, label+"_vol")
	im.ConfigData = rapid.IntRange(0, 9).Draw(t, label+"_cfgdata") == 0
	im.Pretty = rapid.Bool().Draw(t, label+"_pretty")
	im.NoMTField = family == "oci" && uniformInt(t, label+"_nomt", 12) == 0
	if hasBase {
		im.UseBase = rapid.IntRange(0, 9).Draw(t, label+"_usebase") != 0
	}
	return im
}

func genBase(t *rapid.T, family string) *BaseSpec {
	b := &BaseSpec{Family: family}
	no := rapid.IntRange(1, 2).Draw(t, "base_nold")
	for i := 0; i < no; i++ {
		l := genLayer(t, fmt.Sprintf("base_old%d", i))
		b.OldLayers = append(b.OldLayers, l)
	}
	b.OldHist = genAlignedHist(t, "base_oldh", no, rapid.Bool().Draw(t, "base_oldtrail"))
	nn := rapid.IntRange(1, 3).Draw(t, "base_nnew")
	for i := 0; i < nn; i++ {
		b.NewLayers = append(b.NewLayers, genLayer(t, fmt.Sprintf("base_new%d", i)))
	}
	b.NewHist = genAlignedHist(t, "base_newh", nn, rapid.Bool().Draw(t, "base_newtrail"))
	b.SameNew = rapid.IntRange(0, 7).Draw(t, "base_same") == 0
	b.AsIndex = rapid.IntRange(0, 2).Draw(t, "base_asindex") == 0
	b.Annotate = rapid.IntRange(0, 4).Draw(t, "base_annotate") != 0
	return b
}

// gen draws a Case.
func gen(t *rapid.T) Case {
	var c Case
	c.Src = rapid.SampledFrom([]string{"reg", "reg", "layout"}).Draw(t, "src")
	c.Tgt = tgtModes[uniformInt(t, "tgt", len(tgtModes))]
	c.RefAPI = rapid.Bool().Draw(t, "refapi")
	c.RefAPI2 = rapid.Bool().Draw(t, "refapi2")
	family := rapid.SampledFrom([]string{"oci", "oci", "docker"}).Draw(t, "family")
	nimg := rapid.SampledFrom([]int{1, 1, 1, 1, 2, 2, 3}).Draw(t, "nimages")
	if nimg > 1 || rapid.IntRange(0, 9).Draw(t, "index1") == 0 {
		c.Index = family
	}
	hasBase := rapid.IntRange(0, 2).Draw(t, "hasbase") == 0
	c.AllTimeLabel = rapid.IntRange(0, 2).Draw(t, "alltimelabel") == 0
	if hasBase {
		c.Base = genBase(t, family)
	}
	archs := rapid.Permutation(archPool).Draw(t, "archs")
	if c.Index == "" {
		archs[0] = rapid.SampledFrom([]string{"amd64", "amd64", "arm64"}).Draw(t, "arch1")
	}
	for i := 0; i < nimg; i++ {
		fam := family
		if c.Index != "" && rapid.IntRange(0, 9).Draw(t, fmt.Sprintf("mixfam%d", i)) == 0 {
			fam = map[string]string{"oci": "docker", "docker": "oci"}[family]
		}
		im := genImage(t, fmt.Sprintf("img%d", i), fam, archs[i], hasBase)
		if c.AllTimeLabel {
			has := false
			for _, kv := range im.Labels {
				has = has || kv[0] == labelTimeKey
			}
			if !has {
				im.Labels = append(im.Labels, labelPool[2])
			}
		}
		c.Images = append(c.Images, im)
	}
	if c.Index != "" {
		if c.Index == "oci" || rapid.IntRange(0, 5).Draw(t, "dockerlistannot") == 0 {
			c.IndexAnnots = subsetPairs(t, annotPool, "idxann")
		}
		c.ChildData = rapid.IntRange(0, 9).Draw(t, "childdata") == 0
		c.IdxNoMT = c.Index == "oci" && uniformInt(t, "idxnomt", 12) == 0
		c.Nested = uniformInt(t, "nested", 12) == 0
		// the same child listed more than once (e.g. one image for linux/arm/v6 and linux/arm/v7)
		if uniformInt(t, "dupentries", 4) == 0 {
			order := intRange(nimg)
			for k, n := 0, rapid.SampledFrom([]int{1, 1, 2}).Draw(t, "ndup"); k < n; k++ {
				img := rapid.IntRange(0, nimg-1).Draw(t, "dupimg")
				at := rapid.IntRange(0, len(order)).Draw(t, "dupat") // == len: appended last
				if at == len(order) && uniformInt(t, "duplast", 3) != 0 {
					at = rapid.IntRange(0, len(order)-1).Draw(t, "dupat2")
				}
				order = append(order[:at], append([]int{img}, order[at:]...)...)
			}
			c.EntryOrder = order
		}
		// a body without mediaType is typed by its first entry (documented duck typing): only OCI children
		for _, im := range c.Images {
			if im.Family != "oci" {
				c.IdxNoMT = false
			}
		}
		c.IndexPretty = rapid.Bool().Draw(t, "indexpretty")
		c.Attest = rapid.IntRange(0, 4).Draw(t, "attest") == 0
	}
	for i, n := 0, rapid.SampledFrom([]int{0, 0, 0, 1, 1, 2}).Draw(t, "nref"); i < n; i++ {
		l := fmt.Sprintf("ref%d", i)
		r := RefSpec{Subject: -1, ArtifactType: rapid.SampledFrom(artTypePool).Draw(t, l+"_at"),
			Payload: rapid.SampledFrom([]string{"sbom-a", "sbom-b", "sig"}).Draw(t, l+"_payload") + fmt.Sprint(i),
			Annots:  subsetPairs(t, annotPool[:2], l+"_ann"), ConfigData: rapid.Bool().Draw(t, l+"_cfgdata")}
		if c.Index != "" && rapid.IntRange(0, 2).Draw(t, l+"_child") == 0 {
			r.Subject = rapid.IntRange(0, nimg-1).Draw(t, l+"_subj")
		}
		c.Referrers = append(c.Referrers, r)
	}
	// audit dimensions
	if c.Index == "" && c.Base == nil && uniformInt(t, "artifact", 12) == 0 {
		a := &ArtSpec{ArtifactType: rapid.SampledFrom(artTypePool).Draw(t, "art_type"), ConfigMT: rapid.SampledFrom([]string{"empty", "custom"}).Draw(t, "art_cfg"),
			Annots: subsetPairs(t, annotPool, "art_ann")}
		for i, n := 0, rapid.IntRange(0, 2).Draw(t, "art_nblobs"); i < n; i++ {
			a.Blobs = append(a.Blobs, rapid.SampledFrom([]string{"payload-a", "payload-b", "{}"}).Draw(t, "art_blob")+fmt.Sprint(i))
		}
		c.Artifact = a
	}
	c.SrcForm = rapid.SampledFrom([]string{"", "", "", "", "digest", "tag+digest"}).Draw(t, "srcform")
	if c.Base != nil {
		c.BaseLoc = rapid.SampledFrom([]string{"", "", "src-repo", "host2"}).Draw(t, "baseloc")
		if c.Src == "layout" && c.BaseLoc == "src-repo" {
			c.BaseLoc = ""
		}
	}
	switch c.Tgt {
	case "tag", "other-tag", "host2", "cross":
		if rapid.IntRange(0, 5).Draw(t, "tgtpre") == 0 {
			c.TgtPre = "stale-tag"
		}
	case "other-digest":
		if rapid.IntRange(0, 2).Draw(t, "tgtpre") == 0 {
			c.TgtPre = "stale-digest"
		}
	}
	c.FeatA, c.FeatB = genFeat(t, "feata"), genFeat(t, "featb")
	c.Cache = rapid.Bool().Draw(t, "cache")
	if uniformInt(t, "cancel", 20) == 0 {
		c.CancelAt = rapid.SampledFrom([]int{-1, 1, 2, 3, 5, 8, 13, 21, 34}).Draw(t, "cancelat")
	}
	// program
	c.Mode = "normal"
	if rapid.IntRange(0, 5).Draw(t, "noopmode") == 0 {
		c.Mode = "noop"
	}
	nopt := rapid.SampledFrom([]int{0, 1, 1, 2, 2, 2, 3, 3, 4, 5}).Draw(t, "nopts")
	if c.Mode == "noop" {
		nopt = rapid.IntRange(1, 3).Draw(t, "nnoop")
	}
	for i := 0; i < nopt; i++ {
		c.Program = append(c.Program, genOpt(t, &c, fmt.Sprintf("o%d", i)))
	}
	// a second program for the result, run with the same client (warm caches, sha512 / converted sources)
	if c.CancelAt == 0 && rapid.IntRange(0, 3).Draw(t, "haschain") == 0 {
		c.HasChain = true
		save := c.Mode
		c.Mode = "normal"
		for i, n := 0, rapid.IntRange(0, 2).Draw(t, "nchain"); i < n; i++ {
			o := genOpt(t, &c, fmt.Sprintf("c%d", i))
			if o.Kind == "external-urls-rm" && c.Tgt != "default" && c.Tgt != "tag" && c.Tgt != "replace" {
				// documented precondition: the external content was copied into the (result's) repository first
				continue
			}
			c.Chain = append(c.Chain, o)
		}
		c.Mode = save
	}
	// documented precondition of external-urls-rm: the layer content was copied into the repository first
	for _, o := range append(append([]OptSpec{}, c.Program...), c.Chain...) {
		if o.Kind == "external-urls-rm" {
			for i := range c.Images {
				for j := range c.Images[i].Layers {
					c.Images[i].Layers[j].ForeignAbsent = false
				}
			}
		}
	}
	return c
}

// optKinds lists every option kind (one per exported mod.With* function except
// WithRefTgt, which is the Tgt mode) with its weight in normal mode.
var optKinds = []struct {
	Kind string
	W    int
}{
	{"annotation", 5}, {"annotation-base", 1}, {"annotation-promote", 2}, {"buildarg-rm", 2}, {"config-cmd", 2},
	{"config-digest-algo", 2}, {"config-entrypoint", 2}, {"config-platform", 2}, {"config-time", 4}, {"config-time-label", 1},
	{"config-time-max", 2}, {"data", 4}, {"digest-algo", 3}, {"env", 4}, {"expose-add", 2}, {"expose-rm", 2},
	{"external-urls-rm", 3}, {"file-tar-time", 2}, {"file-tar-time-max", 1}, {"label", 4}, {"label-to-annotation", 2},
	{"layer-add", 6}, {"layer-compress", 7}, {"layer-digest-algo", 2}, {"layer-reproducible", 4}, {"layer-rm-created-by", 4},
	{"layer-rm-index", 5}, {"layer-strip-file", 7}, {"layer-time", 5}, {"layer-time-label", 1}, {"layer-time-max", 2},
	{"manifest-digest-algo", 2}, {"to-docker", 4}, {"to-oci", 4}, {"to-oci-referrers", 3}, {"rebase", 3}, {"rebase-refs", 3},
	{"volume-add", 2}, {"volume-rm", 2},
	// compositions regctl builds for --time / --time-max (WithConfigTimestamp + WithLayerTimestamp with one OptTime)
	{"time", 3}, {"time-max", 1},
}

// layerKinds are the options that touch layers or media types (non-trivial rule).
var layerKinds = map[string]bool{
	"layer-add": true, "layer-compress": true, "layer-digest-algo": true, "layer-reproducible": true, "layer-rm-created-by": true,
	"layer-rm-index": true, "layer-strip-file": true, "layer-time": true, "layer-time-label": true, "layer-time-max": true,
	"file-tar-time": true, "file-tar-time-max": true, "to-docker": true, "to-oci": true, "to-oci-referrers": true, "rebase": true,
	"rebase-refs": true, "digest-algo": true, "external-urls-rm": true, "data": true, "time": true, "time-max": true,
}

// uniformInt draws an (almost) uniform integer in [0,n) from fair coin flips;
// rapid's integer generators are deliberately biased towards small values,
// which would starve the options at the end of the table.
func uniformInt(t *rapid.T, label string, n int) int {
	x := 0
	for i := 0; i < 12; i++ {
		x <<= 1
		if rapid.Bool().Draw(t, label) {
			x |= 1
		}
	}
	return x % n
}

func pickKind(t *rapid.T, label string) string {
	total := 0
	for _, k := range optKinds {
		total += k.W
	}
	x := uniformInt(t, label+"_kind", total)
	for _, k := range optKinds {
		if x < k.W {
			return k.Kind
		}
		x -= k.W
	}
	return optKinds[0].Kind
}

func genOptTime(t *rapid.T, c *Case, label string, o *OptSpec) {
	switch rapid.IntRange(0, 9).Draw(t, label+"_tmode") {
	case 0:
		o.FromLabel = rapid.SampledFrom([]string{labelTimeKey, labelTimeKey, "missing"}).Draw(t, label+"_fromlabel")
	default:
		o.Set = rapid.SampledFrom(optTimes).Draw(t, label+"_set")
	}
	if rapid.IntRange(0, 2).Draw(t, label+"_hasafter") == 0 || c.Mode == "noop" {
		o.After = rapid.SampledFrom(optTimes).Draw(t, label+"_after")
		if c.Mode == "noop" {
			o.After = optTimes[len(optTimes)-1]
		}
	}
	switch rapid.IntRange(0, 5).Draw(t, label+"_base") {
	case 0:
		o.BaseLayers = rapid.SampledFrom([]int{1, 2, 99}).Draw(t, label+"_baselayers")
	case 1:
		o.BaseRef = c.Base != nil
		if !o.BaseRef {
			o.BaseSelf = true
		}
	}
}

// inapplicable: the option is bound to fail (or to do nothing) on this case; such
// draws are mostly re-drawn so that the program exercises the modifiers.
func inapplicable(kind string, c *Case) bool {
	switch kind {
	case "rebase":
		return c.Base == nil || !c.Base.Annotate
	case "rebase-refs":
		return c.Base == nil
	case "layer-rm-index":
		return c.Index != ""
	case "to-oci-referrers":
		return !c.Attest
	case "annotation-promote":
		return c.Index == ""
	case "config-time-label", "layer-time-label":
		return !c.AllTimeLabel || c.Attest
	case "external-urls-rm":
		for _, im := range c.Images {
			for _, l := range im.Layers {
				if l.Foreign {
					return false
				}
			}
		}
		return true
	}
	return false
}

// genOpt draws one option. In noop mode arguments are chosen so that the option
// is likely to change nothing (whether it really is a no-op is decided by
// isNoop from the built source, never by the generator's intent).
func genOpt(t *rapid.T, c *Case, label string) OptSpec {
	kind := pickKind(t, label)
	for try := 0; try < 4 && inapplicable(kind, c) && uniformInt(t, label+"_keep", 8) != 0; try++ {
		kind = pickKind(t, label)
	}
	noop := c.Mode == "noop"
	o := OptSpec{Kind: kind}
	im0 := c.Images[0]
	scope := func() string {
		if noop {
			return rapid.SampledFrom([]string{"", "[*]", "[linux/s390x]"}).Draw(t, label+"_scope")
		}
		return rapid.SampledFrom(scopePool).Draw(t, label+"_scope")
	}
	pairArg := func(pool [][2]string, cur [][2]string) (string, string) {
		p := rapid.SampledFrom(pool).Draw(t, label+"_pair")
		switch m := rapid.IntRange(0, 3).Draw(t, label+"_pairmode"); {
		case noop:
			// set to the current value where present, delete where absent
			for _, kv := range cur {
				if kv[0] == p[0] {
					return p[0], kv[1]
				}
			}
			return p[0], ""
		case m == 0:
			return p[0], ""
		case m == 1:
			return p[0], p[1]
		case m == 2:
			return p[0], "changed"
		}
		return "fresh.key", "v"
	}
	switch kind {
	case "annotation":
		cur := im0.Annots
		if c.Index != "" {
			cur = c.IndexAnnots
		}
		n, v := pairArg(annotPool, cur)
		o.Name, o.Value = scope()+n, v
	case "annotation-base":
		o.Value = rapid.SampledFrom([]string{"sha256:" + strings.Repeat("ab", 32), "sha512:" + strings.Repeat("cd", 64)}).Draw(t, label+"_dig")
	case "annotation-promote", "label-to-annotation", "layer-reproducible", "to-docker", "to-oci", "to-oci-referrers", "external-urls-rm", "rebase", "rebase-refs":
		if kind == "rebase-refs" && noop {
			o.N = 1 // old == new
		}
	case "buildarg-rm":
		p := rapid.SampledFrom(buildArgPool).Draw(t, label+"_arg")
		if noop {
			p = buildArgPool[2]
		}
		o.Name, o.Value = p[0], p[1]
	case "config-cmd":
		o.List = rapid.SampledFrom(append(cmdPool, []string{})).Draw(t, label+"_cmd")
		if noop {
			o.List = im0.Cmd
		}
	case "config-entrypoint":
		o.List = rapid.SampledFrom(append(entryPool, []string{})).Draw(t, label+"_entry")
		if noop {
			o.List = im0.Entrypoint
		}
	case "config-digest-algo", "layer-digest-algo", "manifest-digest-algo", "digest-algo":
		o.Algo = rapid.SampledFrom([]string{"sha512", "sha512", "sha256"}).Draw(t, label+"_algo")
		if noop {
			o.Algo = "sha256"
		}
	case "config-platform":
		o.Plat = rapid.SampledFrom(platOptPool).Draw(t, label+"_plat")
		if noop {
			o.Plat = "linux/" + im0.Arch
		}
	case "config-time", "layer-time", "time":
		genOptTime(t, c, label, &o)
	case "config-time-label", "layer-time-label":
		o.FromLabel = rapid.SampledFrom([]string{labelTimeKey, labelTimeKey, labelTimeKey, "missing"}).Draw(t, label+"_fromlabel")
	case "config-time-max", "layer-time-max", "time-max":
		o.Set = rapid.SampledFrom(optTimes).Draw(t, label+"_set")
		if noop {
			o.Set = optTimes[len(optTimes)-1]
		}
	case "file-tar-time":
		o.Name = rapid.SampledFrom([]string{"dir/inner.tar", "/dir/inner.tar", "nosuch.tar"}).Draw(t, label+"_fname")
		genOptTime(t, c, label, &o)
	case "file-tar-time-max":
		o.Name = rapid.SampledFrom([]string{"dir/inner.tar", "/dir/inner.tar", "nosuch.tar"}).Draw(t, label+"_fname")
		o.Set = rapid.SampledFrom(optTimes).Draw(t, label+"_set")
		if noop {
			o.Set = optTimes[len(optTimes)-1]
		}
	case "data":
		o.N = rapid.SampledFrom([]int64{-1, 0, 2, 64, 300, 2048, 100000}).Draw(t, label+"_datamax")
		if noop {
			o.N = rapid.SampledFrom([]int64{-1, -1, 0, 1}).Draw(t, label+"_datanoop")
		}
	case "env":
		var cur [][2]string
		for _, e := range im0.Env {
			k, v, _ := strings.Cut(e, "=")
			cur = append(cur, [2]string{k, v})
		}
		pool := [][2]string{{"PATH", "/usr/bin:/bin"}, {"LANG", "C"}, {"APP_HOME", "/app"}, {"NEWVAR", "x"}}
		n, v := pairArg(pool, cur)
		sc := scope()
		if sc == "[*]" && !noop {
			sc = ""
		}
		o.Name, o.Value = sc+n, v
	case "label":
		n, v := pairArg(labelPool, im0.Labels)
		o.Name, o.Value = scope()+n, v
	case "expose-add", "expose-rm":
		o.Name = rapid.SampledFrom(append(portPool, "9999/tcp")).Draw(t, label+"_port")
		if noop && kind == "expose-rm" {
			o.Name = "9999/tcp"
		}
		if noop && kind == "expose-add" && len(im0.Ports) > 0 {
			o.Name = im0.Ports[0]
		}
	case "volume-add", "volume-rm":
		o.Name = rapid.SampledFrom(append(volPool, "/nosuch")).Draw(t, label+"_vol")
		if noop && kind == "volume-rm" {
			o.Name = "/nosuch"
		}
		if noop && kind == "volume-add" && len(im0.Volumes) > 0 {
			o.Name = im0.Volumes[0]
		}
	case "layer-add":
		l := LayerSpec{Files: genFiles(t, label+"_add", false)}
		o.Layer = &l
		o.Stream = rapid.IntRange(0, 2).Draw(t, label+"_stream") == 0
		fam := im0.Family
		if rapid.IntRange(0, 7).Draw(t, label+"_crossfam") == 0 {
			fam = map[string]string{"oci": "docker", "docker": "oci"}[fam]
		}
		mts := map[string][]string{
			"oci":    {"", "", "application/vnd.oci.image.layer.v1.tar", "application/vnd.oci.image.layer.v1.tar+gzip", "application/vnd.oci.image.layer.v1.tar+zstd"},
			"docker": {"", "", "application/vnd.docker.image.rootfs.diff.tar", "application/vnd.docker.image.rootfs.diff.tar.gzip", "application/vnd.docker.image.rootfs.diff.tar.zstd"},
		}
		o.MT = rapid.SampledFrom(mts[fam]).Draw(t, label+"_mt")
		if rapid.IntRange(0, 3).Draw(t, label+"_hasplat") == 0 {
			o.Plat = rapid.SampledFrom(platOptPool).Draw(t, label+"_plat")
		}
	case "layer-compress":
		o.Algo = rapid.SampledFrom([]string{"gzip", "zstd", "none"}).Draw(t, label+"_comp")
		if noop && len(im0.Layers) > 0 {
			o.Algo = im0.Layers[0].Comp
		}
	case "layer-rm-created-by":
		o.Name = rapid.SampledFrom(rmByPool).Draw(t, label+"_re")
		var bys []string
		for _, h := range append(append([]HistSpec{}, baseHist(c)...), im0.History...) {
			if !h.Empty {
				bys = append(bys, h.CreatedBy)
			}
		}
		if len(bys) > 0 && rapid.IntRange(0, 3).Draw(t, label+"_refromhist") != 0 {
			by := rapid.SampledFrom(bys).Draw(t, label+"_reby")
			if len(by) > 8 {
				by = by[:8]
			}
			o.Name = "^" + regexp.QuoteMeta(by)
		}
	case "layer-rm-index":
		o.N = int64(rapid.SampledFrom([]int{0, 0, 1, 1, 2, 3, 7}).Draw(t, label+"_idx"))
		if n := len(im0.Layers) + len(baseLayers(c, im0)); n > 0 && rapid.IntRange(0, 4).Draw(t, label+"_idxin") != 0 {
			o.N = int64(rapid.IntRange(0, n-1).Draw(t, label+"_idxv"))
		}
	case "layer-strip-file":
		o.Name = rapid.SampledFrom(stripPool).Draw(t, label+"_strip")
		if noop {
			o.Name = "nosuch"
		}
	}
	return o
}

func baseHist(c *Case) []HistSpec {
	if c.Base != nil && c.Images[0].UseBase {
		return c.Base.OldHist
	}
	return nil
}

func baseLayers(c *Case, im ImageSpec) []LayerSpec {
	if c.Base != nil && im.UseBase {
		return c.Base.OldLayers
	}
	return nil
}

// kinds returns the sorted option kinds of a program.
func kinds(p []OptSpec) []string {
	out := make([]string, 0, len(p))
	for _, o := range p {
		out = append(out, o.Kind)
	}
	sort.Strings(out)
	return out
}

// shape is the image-shape part of the distinctness key.
func (c Case) shape() string {
	var sb strings.Builder
	if c.Index != "" {
		sb.WriteString("idx:" + c.Index)
		if c.ChildData {
			sb.WriteString("+cd")
		}
		if c.Attest {
			sb.WriteString("+att")
		}
	}
	for _, im := range c.Images {
		sb.WriteString("[" + im.Family[:1])
		for _, l := range im.Layers {
			sb.WriteString(l.Comp[:1])
			if l.Foreign {
				sb.WriteString("F")
			}
			if l.Data {
				sb.WriteString("D")
			}
		}
		if im.History == nil {
			sb.WriteString("-nohist")
		} else {
			sb.WriteString(fmt.Sprintf("-h%d", len(im.History)))
		}
		if im.UseBase {
			sb.WriteString("-b")
		}
		sb.WriteString("]")
	}
	sb.WriteString(fmt.Sprintf("+ref%d", len(c.Referrers)))
	if c.Base != nil {
		sb.WriteString("+base")
	}
	if c.Artifact != nil {
		sb.WriteString("+artifact:" + c.Artifact.ConfigMT)
	}
	if c.Nested && c.Index != "" {
		sb.WriteString("+nested")
	}
	if c.Index != "" && c.EntryOrder != nil {
		sb.WriteString(fmt.Sprintf("+order%v", c.EntryOrder))
	}
	sb.WriteString("|" + c.Src + c.SrcForm + ">" + c.Tgt + c.TgtPre)
	return sb.String()
}
