package c13

// env.go: materialises a built source raw (regmodel maps or layout files),
// wires a client, interprets the option program and runs mod.Apply under a
// watchdog.

import (
	"bytes"
	"context"
	"encoding/json"
	"fmt"
	"io"
	"os"
	"path/filepath"
	"regexp"
	"runtime/debug"
	"sort"
	"strings"
	"time"

	"github.com/opencontainers/go-digest"

	"github.com/regclient/regclient"
	"github.com/regclient/regclient/mod"
	"github.com/regclient/regclient/pkg/archive"
	"github.com/regclient/regclient/scheme/reg"
	"github.com/regclient/regclient/types/platform"
	"github.com/regclient/regclient/types/ref"
	"github.com/regclient/regclient/zz_verif/audit"
	"github.com/regclient/regclient/zz_verif/rcutil"
	rm "github.com/regclient/regclient/zz_verif/regmodel"
)

type endpoint struct {
	Kind string // reg | layout
	Host *rm.Host
	Repo string
	Dir  string
}

func (e endpoint) view() audit.View {
	if e.Kind == "layout" {
		return audit.OpenLayout(e.Dir)
	}
	return audit.RepoView{R: e.Host.Repos[e.Repo]}
}

func (e endpoint) same(o endpoint) bool {
	if e.Kind != o.Kind {
		return false
	}
	if e.Kind == "layout" {
		return e.Dir == o.Dir
	}
	return e.Host == o.Host && e.Repo == o.Repo
}

func (e endpoint) ref(tag string) (ref.Ref, error) {
	var r ref.Ref
	var err error
	if e.Kind == "layout" {
		r, err = ref.New("ocidir://" + e.Dir + ":" + srcTag)
	} else {
		r, err = ref.New(e.Host.Name + "/" + e.Repo + ":" + srcTag)
	}
	if err != nil {
		return r, err
	}
	return r.SetTag(tag), nil
}

type env struct {
	c        Case
	b        *built
	m        *rm.Model
	rc       *regclient.RegClient
	src, tgt endpoint
	srcRef   ref.Ref
	tgtRef   ref.Ref // zero when Tgt == default
	tgtTag   string  // "" when the target is named by digest only
	// staleDigest: the manifest the target tag named before the call ("" = the tag did not exist)
	staleDigest string
	tmp         string
}

func writeLayout(dir string, b *built) error {
	write := func(d string, data []byte) error {
		alg, hx, _ := strings.Cut(d, ":")
		p := filepath.Join(dir, "blobs", alg)
		if err := os.MkdirAll(p, 0o777); err != nil {
			return err
		}
		return os.WriteFile(filepath.Join(p, hx), data, 0o666)
	}
	for d, x := range b.Blobs {
		if err := write(d, x); err != nil {
			return err
		}
	}
	for d, x := range b.Manifests {
		if err := write(d, x.Body); err != nil {
			return err
		}
	}
	type entry struct {
		MediaType   string            `json:"mediaType"`
		Digest      string            `json:"digest"`
		Size        int               `json:"size"`
		Annotations map[string]string `json:"annotations,omitempty"`
	}
	top := b.Manifests[b.Top]
	entries := []entry{{MediaType: top.MT, Digest: b.Top, Size: len(top.Body), Annotations: map[string]string{"org.opencontainers.image.ref.name": srcTag}}}
	subjs := make([]string, 0, len(b.Fallback))
	for s := range b.Fallback {
		subjs = append(subjs, s)
	}
	sort.Strings(subjs)
	for _, s := range subjs {
		fb := b.Fallback[s]
		d := sha256Dig(fb.Body)
		if err := write(d, fb.Body); err != nil {
			return err
		}
		entries = append(entries, entry{MediaType: fb.MT, Digest: d, Size: len(fb.Body), Annotations: map[string]string{"org.opencontainers.image.ref.name": strings.Replace(s, ":", "-", 1)}})
	}
	if err := os.WriteFile(filepath.Join(dir, "oci-layout"), []byte(`{"imageLayoutVersion":"1.0.0"}`), 0o666); err != nil {
		return err
	}
	idx, _ := json.Marshal(map[string]any{"schemaVersion": 2, "mediaType": mtOCIIndex, "manifests": entries})
	return os.WriteFile(filepath.Join(dir, "index.json"), idx, 0o666)
}

func putRepo(r *rm.Repo, blobs map[string][]byte, mans map[string]manifestRec, tags map[string]string) {
	for d, x := range blobs {
		r.Blobs[d] = x
	}
	for d, x := range mans {
		r.Manifests[d] = &rm.Manifest{MediaType: x.MT, Body: x.Body}
	}
	for t, d := range tags {
		r.Tags[t] = d
	}
}

func setup(c Case, b *built) (*env, error) {
	e := &env{c: c, b: b, m: rm.New()}
	tmp, err := os.MkdirTemp("", "c13")
	if err != nil {
		return nil, err
	}
	e.tmp = tmp
	ha := e.m.AddHost(hostA)
	hb := e.m.AddHost(hostB)
	feat := func(f FeatSpec, refAPI bool) rm.Features {
		return rm.Features{Referrers: refAPI, MountGrant: f.MountGrant, AnonMountStatus: f.AnonMount, HeadNoDigest: f.HeadNoDigest,
			LocStyle: f.LocStyle, TagDelete: f.TagDelete, ChunkMin: f.ChunkMin}
	}
	ha.Feat, hb.Feat = feat(c.FeatA, c.RefAPI), feat(c.FeatB, c.RefAPI2)
	// base images live on a registry (another repository of host A, the source repository, or host B)
	if c.Base != nil {
		bh, br := baseLoc(c)
		putRepo(e.m.Hosts[bh].Repo(br), b.BaseBlobs, b.BaseManifests, b.BaseTags)
	}
	if c.Src == "layout" {
		e.src = endpoint{Kind: "layout", Dir: filepath.Join(tmp, "src")}
		if err := writeLayout(e.src.Dir, b); err != nil {
			return nil, err
		}
	} else {
		e.src = endpoint{Kind: "reg", Host: ha, Repo: repoSrc}
		r := ha.Repo(repoSrc)
		putRepo(r, b.Blobs, b.Manifests, map[string]string{srcTag: b.Top})
		if !c.RefAPI {
			for s, fb := range b.Fallback {
				d := sha256Dig(fb.Body)
				r.Manifests[d] = &rm.Manifest{MediaType: fb.MT, Body: fb.Body}
				r.Tags[strings.Replace(s, ":", "-", 1)] = d
			}
		}
	}
	other := func() endpoint {
		if c.Src == "layout" {
			return endpoint{Kind: "layout", Dir: filepath.Join(tmp, "other")}
		}
		ha.Repo(repoOther)
		return endpoint{Kind: "reg", Host: ha, Repo: repoOther}
	}
	e.tgt, e.tgtTag = e.src, ""
	switch c.Tgt {
	case "default":
	case "tag":
		e.tgtTag = modTag
	case "replace":
		e.tgtTag = srcTag
	case "other-tag":
		e.tgt, e.tgtTag = other(), modTag
	case "other-digest":
		e.tgt = other()
	case "host2":
		if c.Src == "layout" {
			e.tgt, e.tgtTag = other(), srcTag
		} else {
			hb.Repo(repoOther)
			e.tgt, e.tgtTag = endpoint{Kind: "reg", Host: hb, Repo: repoOther}, srcTag
		}
	case "cross":
		if c.Src == "layout" {
			hb.Repo(repoOther)
			e.tgt, e.tgtTag = endpoint{Kind: "reg", Host: hb, Repo: repoOther}, modTag
		} else {
			e.tgt, e.tgtTag = endpoint{Kind: "layout", Dir: filepath.Join(tmp, "tgt")}, modTag
		}
	default:
		return nil, fmt.Errorf("unknown target mode %q", c.Tgt)
	}
	if e.srcRef, err = e.src.ref(srcTag); err != nil {
		return nil, err
	}
	switch c.SrcForm {
	case "digest":
		e.srcRef = e.srcRef.SetDigest(b.Top)
	case "tag+digest":
		e.srcRef = e.srcRef.AddDigest(b.Top)
	}
	if c.Tgt != "default" {
		if e.tgtRef, err = e.tgt.ref(e.tgtTag); err != nil {
			return nil, err
		}
	}
	if c.Tgt == "replace" {
		// regctl --replace: the target is the source reference as given
		e.tgtRef = e.srcRef
		if c.SrcForm != "" {
			e.tgtTag = ""
		}
	}
	// pre-existing target state
	switch c.TgtPre {
	case "stale-tag":
		if e.tgtTag != "" {
			if err := e.putStale(e.tgt, e.tgtTag); err != nil {
				return nil, err
			}
			e.staleDigest = sha256Dig(staleBody)
		}
	case "stale-digest":
		e.tgtRef = e.tgtRef.SetDigest(b.Top)
	}
	conf := rcutil.Conf{}
	if c.Cache {
		conf.RegOpts = append(conf.RegOpts, reg.WithCache(5*time.Minute, 500)) // what regctl's root command sets
	}
	e.rc = rcutil.New(e.m, conf)
	return e, nil
}

var staleBody = []byte(`{"schemaVersion":2,"mediaType":"application/vnd.oci.image.manifest.v1+json","config":{"mediaType":"application/vnd.oci.empty.v1+json","digest":"sha256:44136fa355b3678a1146ad16f7e8649e94fb4fc21fe77e8310c060f61caaff8a","size":2,"data":"e30="},"layers":[{"mediaType":"application/vnd.oci.empty.v1+json","digest":"sha256:44136fa355b3678a1146ad16f7e8649e94fb4fc21fe77e8310c060f61caaff8a","size":2}],"annotations":{"stale":"yes"}}`)

const emptyJSONDigest = "sha256:44136fa355b3678a1146ad16f7e8649e94fb4fc21fe77e8310c060f61caaff8a"

// putStale makes tag name an unrelated (well-formed) manifest at the endpoint before the call.
func (e *env) putStale(ep endpoint, tag string) error {
	d := sha256Dig(staleBody)
	if ep.Kind == "reg" {
		r := ep.Host.Repo(ep.Repo)
		r.Manifests[d] = &rm.Manifest{MediaType: mtOCIManifest, Body: staleBody}
		r.Blobs[emptyJSONDigest] = []byte("{}")
		r.Tags[tag] = d
		return nil
	}
	// layout: create it if needed and append an index.json entry
	if _, err := os.Stat(filepath.Join(ep.Dir, "index.json")); err != nil {
		if err := os.MkdirAll(filepath.Join(ep.Dir, "blobs", "sha256"), 0o777); err != nil {
			return err
		}
		if err := os.WriteFile(filepath.Join(ep.Dir, "oci-layout"), []byte(`{"imageLayoutVersion":"1.0.0"}`), 0o666); err != nil {
			return err
		}
		if err := os.WriteFile(filepath.Join(ep.Dir, "index.json"), []byte(`{"schemaVersion":2,"mediaType":"`+mtOCIIndex+`","manifests":[]}`), 0o666); err != nil {
			return err
		}
	}
	for dg, data := range map[string][]byte{d: staleBody, emptyJSONDigest: []byte("{}")} {
		if err := os.WriteFile(filepath.Join(ep.Dir, "blobs", "sha256", strings.TrimPrefix(dg, "sha256:")), data, 0o666); err != nil {
			return err
		}
	}
	ib, err := os.ReadFile(filepath.Join(ep.Dir, "index.json"))
	if err != nil {
		return err
	}
	var idx map[string]any
	if err := json.Unmarshal(ib, &idx); err != nil {
		return err
	}
	ms, _ := idx["manifests"].([]any)
	ms = append(ms, map[string]any{"mediaType": mtOCIManifest, "digest": d, "size": len(staleBody), "annotations": map[string]string{"org.opencontainers.image.ref.name": tag}})
	idx["manifests"] = ms
	ob, _ := json.Marshal(idx)
	return os.WriteFile(filepath.Join(ep.Dir, "index.json"), ob, 0o666)
}

func (e *env) close() { os.RemoveAll(e.tmp) }

// snapshot is the raw content of a store view at one instant.
type snapshot struct {
	Content map[string][]byte
	Tags    map[string]string
}

func snap(v audit.View) snapshot {
	s := snapshot{Content: map[string][]byte{}, Tags: map[string]string{}}
	for _, d := range v.Digests() {
		if b, _, ok := v.Get(d); ok {
			s.Content[d] = append([]byte{}, b...)
		}
	}
	for _, t := range v.Tags() {
		if d, ok := v.Tag(t); ok {
			s.Tags[t] = d
		}
	}
	return s
}

// ---- option interpretation ----

func (e *env) baseRef(tag string) ref.Ref {
	bh, br := baseLoc(e.c)
	r, _ := ref.New(bh + "/" + br + ":" + tag)
	return r
}

// streamReader hides Seek (what regctl hands over for --layer-add dir=...: a pipe).
type streamReader struct{ r io.Reader }

func (s streamReader) Read(p []byte) (int, error) { return s.r.Read(p) }

func (e *env) optTime(o OptSpec) mod.OptTime {
	ot := mod.OptTime{FromLabel: o.FromLabel, BaseLayers: o.BaseLayers}
	if o.Set != 0 {
		ot.Set = unix(o.Set)
	}
	if o.After != 0 {
		ot.After = unix(o.After)
	}
	if o.BaseRef {
		ot.BaseRef = e.baseRef("old")
	}
	if o.BaseSelf {
		ot.BaseRef = e.srcRef
	}
	return ot
}

var compTypes = map[string]archive.CompressType{"none": archive.CompressNone, "gzip": archive.CompressGzip, "zstd": archive.CompressZstd}

// modOpts interprets the program (fresh readers on every call).
func (e *env) modOpts(prog []OptSpec, withTgt bool) ([]mod.Opts, error) {
	var out []mod.Opts
	for _, o := range prog {
		switch o.Kind {
		case "annotation":
			out = append(out, mod.WithAnnotation(o.Name, o.Value))
		case "annotation-base":
			out = append(out, mod.WithAnnotationOCIBase(e.baseRef("cur"), digest.Digest(o.Value)))
		case "annotation-promote":
			out = append(out, mod.WithAnnotationPromoteCommon())
		case "buildarg-rm":
			re, err := regexp.Compile(o.Value)
			if err != nil {
				return nil, err
			}
			out = append(out, mod.WithBuildArgRm(o.Name, re))
		case "config-cmd":
			out = append(out, mod.WithConfigCmd(o.List))
		case "config-entrypoint":
			out = append(out, mod.WithConfigEntrypoint(o.List))
		case "config-digest-algo":
			out = append(out, mod.WithConfigDigestAlgo(digest.Algorithm(o.Algo)))
		case "layer-digest-algo":
			out = append(out, mod.WithLayerDigestAlgo(digest.Algorithm(o.Algo)))
		case "manifest-digest-algo":
			out = append(out, mod.WithManifestDigestAlgo(digest.Algorithm(o.Algo)))
		case "digest-algo":
			out = append(out, mod.WithDigestAlgo(digest.Algorithm(o.Algo)))
		case "config-platform":
			p, err := platform.Parse(o.Plat)
			if err != nil {
				return nil, err
			}
			out = append(out, mod.WithConfigPlatform(p))
		case "config-time":
			out = append(out, mod.WithConfigTimestamp(e.optTime(o)))
		case "time": // regctl --time
			ot := e.optTime(o)
			out = append(out, mod.WithConfigTimestamp(ot), mod.WithLayerTimestamp(ot))
		case "time-max": // regctl --time-max
			out = append(out, mod.WithConfigTimestamp(mod.OptTime{Set: unix(o.Set), After: unix(o.Set)}),
				mod.WithLayerTimestamp(mod.OptTime{Set: unix(o.Set), After: unix(o.Set)}))
		case "config-time-label":
			out = append(out, mod.WithConfigTimestampFromLabel(o.FromLabel))
		case "config-time-max":
			out = append(out, mod.WithConfigTimestampMax(unix(o.Set)))
		case "data":
			out = append(out, mod.WithData(o.N))
		case "env":
			out = append(out, mod.WithEnv(o.Name, o.Value))
		case "label":
			out = append(out, mod.WithLabel(o.Name, o.Value))
		case "expose-add":
			out = append(out, mod.WithExposeAdd(o.Name))
		case "expose-rm":
			out = append(out, mod.WithExposeRm(o.Name))
		case "volume-add":
			out = append(out, mod.WithVolumeAdd(o.Name))
		case "volume-rm":
			out = append(out, mod.WithVolumeRm(o.Name))
		case "external-urls-rm":
			out = append(out, mod.WithExternalURLsRm())
		case "file-tar-time":
			out = append(out, mod.WithFileTarTime(o.Name, e.optTime(o)))
		case "file-tar-time-max":
			out = append(out, mod.WithFileTarTimeMax(o.Name, unix(o.Set)))
		case "label-to-annotation":
			out = append(out, mod.WithLabelToAnnotation())
		case "layer-add":
			var plats []platform.Platform
			if o.Plat != "" {
				p, err := platform.Parse(o.Plat)
				if err != nil {
					return nil, err
				}
				plats = append(plats, p)
			}
			var rdr io.Reader = bytes.NewReader(tarBytes(o.Layer.Files))
			if o.Stream {
				rdr = streamReader{r: rdr}
			}
			out = append(out, mod.WithLayerAddTar(rdr, o.MT, plats))
		case "layer-compress":
			out = append(out, mod.WithLayerCompression(compTypes[o.Algo]))
		case "layer-reproducible":
			out = append(out, mod.WithLayerReproducible())
		case "layer-rm-created-by":
			re, err := regexp.Compile(o.Name)
			if err != nil {
				return nil, err
			}
			out = append(out, mod.WithLayerRmCreatedBy(*re))
		case "layer-rm-index":
			out = append(out, mod.WithLayerRmIndex(int(o.N)))
		case "layer-strip-file":
			out = append(out, mod.WithLayerStripFile(o.Name))
		case "layer-time":
			out = append(out, mod.WithLayerTimestamp(e.optTime(o)))
		case "layer-time-label":
			out = append(out, mod.WithLayerTimestampFromLabel(o.FromLabel))
		case "layer-time-max":
			out = append(out, mod.WithLayerTimestampMax(unix(o.Set)))
		case "to-docker":
			out = append(out, mod.WithManifestToDocker())
		case "to-oci":
			out = append(out, mod.WithManifestToOCI())
		case "to-oci-referrers":
			out = append(out, mod.WithManifestToOCIReferrers())
		case "rebase":
			out = append(out, mod.WithRebase())
		case "rebase-refs":
			if o.N == 1 {
				out = append(out, mod.WithRebaseRefs(e.baseRef("old"), e.baseRef("old")))
			} else {
				out = append(out, mod.WithRebaseRefs(e.baseRef("old"), e.baseRef("new")))
			}
		default:
			return nil, fmt.Errorf("unknown option kind %q", o.Kind)
		}
	}
	if e.c.Tgt != "default" && withTgt {
		out = append(out, mod.WithRefTgt(e.tgtRef))
	}
	return out, nil
}

// applyResult is the outcome of one mod.Apply.
type applyResult struct {
	Ref      ref.Ref
	Err      error
	Panic    string // non-empty: Apply panicked (value + stack)
	PanicAt  string // innermost regclient frame of the panic
	TimedOut bool
}

var frameRE = regexp.MustCompile(`/(mod|types|scheme|internal|pkg)/([A-Za-z0-9_./-]+\.go):([0-9]+)`)

// panicFrame names the innermost regclient source line of a panic stack
// (file:line below the module root; harness frames are skipped).
func panicFrame(stack string) string {
	for _, line := range strings.Split(stack, "\n") {
		if !strings.HasPrefix(line, "\t") || strings.Contains(line, "zz_verif") || strings.Contains(line, "/runtime/") {
			continue
		}
		if m := frameRE.FindStringSubmatch(line); m != nil {
			return m[1] + "/" + m[2] + ":" + m[3]
		}
	}
	return "unknown"
}

const applyWatchdog = 120 * time.Second

// apply runs mod.Apply on the source with the given program under a watchdog
// (and the case's context plan).
func (e *env) apply(prog []OptSpec) applyResult {
	return e.applyRef(e.srcRef, prog, true, e.c.CancelAt)
}

// applyRef runs mod.Apply on src. cancelAt > 0 cancels the context when the k-th
// request (counted from this call) arrives at the model; -1 cancels it before the call.
func (e *env) applyRef(src ref.Ref, prog []OptSpec, withTgt bool, cancelAt int) applyResult {
	opts, err := e.modOpts(prog, withTgt)
	if err != nil {
		return applyResult{Err: fmt.Errorf("harness: %w", err)}
	}
	ctx, cancel := context.WithTimeout(context.Background(), applyWatchdog-10*time.Second)
	defer cancel()
	if cancelAt < 0 {
		cancel()
	}
	if cancelAt > 0 {
		base := e.m.Requests()
		e.m.OnArrive = func(en *rm.Entry) {
			if en.Seq-base+1 >= cancelAt {
				cancel()
			}
		}
		defer func() { e.m.OnArrive = nil }()
	}
	done := make(chan applyResult, 1)
	go func() {
		var res applyResult
		defer func() {
			if r := recover(); r != nil {
				st := string(debug.Stack())
				res.Panic = fmt.Sprintf("%v\n%s", r, st)
				res.PanicAt = panicFrame(st)
			}
			done <- res
		}()
		res.Ref, res.Err = mod.Apply(ctx, e.rc, src, opts...)
	}()
	select {
	case res := <-done:
		if ctx.Err() == context.DeadlineExceeded {
			res.TimedOut = true
		}
		return res
	case <-time.After(applyWatchdog):
		return applyResult{TimedOut: true}
	}
}

// resolve returns the digest the returned reference names at the target
// (through raw storage) and the tag it was resolved through ("" = by digest).
func (e *env) resolve(r ref.Ref) (dig string, tag string, ok bool) {
	if r.Digest != "" {
		return r.Digest, "", true
	}
	d, ok := e.tgt.view().Tag(r.Tag)
	return d, r.Tag, ok
}
