package c17

// copy.go: engine 3, the throttle as /repo's own callers use it. Concurrent
// RegClient.BlobCopy calls between model registries (and an OCI layout) whose
// hosts are configured with small reqConcurrent values, mirrors and hosts
// without a limit: blob.go takes the throttles of source (incl. mirrors) and
// target with AcquireMulti, reghttp acquires per request with the context
// AcquireMulti returned, ocidir acquires around BlobPut, response bodies give
// their slot back on Close. Free-running goroutines, no hook.
//
// Oracles (all black box, through the public API):
//   - every copy returns (a hang is a violation only when a goroutine dump shows
//     every unfinished copy parked in the select of pqueue.Acquire: nobody is left
//     to release; any other non-termination is inconclusive);
//   - no copy fails with one of pqueue's own errors (a blob copy never leaves
//     its AcquireMulti transaction by construction of blob.go/reg.Throttle);
//   - afterwards every host's throttle has all its slots: `limit` blob readers
//     can be held open at the same time on each host (a leaked slot blocks one).

import (
	"context"
	"fmt"
	"net/http"
	"os"
	"runtime"
	"strings"
	"sync"
	"sync/atomic"
	"time"

	"github.com/opencontainers/go-digest"

	"github.com/regclient/regclient"
	"github.com/regclient/regclient/config"
	"github.com/regclient/regclient/internal/pqueue"
	"github.com/regclient/regclient/scheme/reg"
	"github.com/regclient/regclient/types/blob"
	"github.com/regclient/regclient/types/descriptor"
	"github.com/regclient/regclient/types/ref"
	"github.com/regclient/regclient/zz_verif/evid"
	"github.com/regclient/regclient/zz_verif/rcutil"
	rm "github.com/regclient/regclient/zz_verif/regmodel"
)

// CopyHost configures one registry host.
type CopyHost struct {
	Conc    int   `json:"conc"`              // config.Host.ReqConcurrent: <0 = no throttle (nil queue), 0 = default (3), 1..3
	Mirrors []int `json:"mirrors,omitempty"` // indexes of other hosts listed as mirrors
}

// CopyJob is one BlobCopy. Endpoints: 0..len(Hosts)-1 = registry host, len(Hosts) = the OCI layout.
type CopyJob struct {
	Src    int `json:"src"`
	Tgt    int `json:"tgt"`
	Blob   int `json:"blob"`
	Cancel int `json:"cancel,omitempty"` // 0 = live context, 1 = cancelled before the call, k>1 = cancelled when the job's (k-1)th request arrives
}

// CopyCase is the input of engine 3 (Case.Engine == "copy").
type CopyCase struct {
	Hosts []CopyHost `json:"hosts"`
	Jobs  []CopyJob  `json:"jobs"`
}

func (c *CopyCase) normalise() {
	if len(c.Hosts) < 1 {
		c.Hosts = []CopyHost{{Conc: 1}}
	}
	if len(c.Hosts) > 3 {
		c.Hosts = c.Hosts[:3]
	}
	if len(c.Jobs) > 8 {
		c.Jobs = c.Jobs[:8]
	}
}

func (h CopyHost) limit() int {
	switch {
	case h.Conc < 0:
		return 0 // unlimited
	case h.Conc == 0:
		return 3
	}
	return h.Conc
}

var copyBlobs = func() [][]byte {
	var out [][]byte
	for i, n := range []int{7, 3000, 70000} {
		b := make([]byte, n)
		for j := range b {
			b[j] = byte(j*7 + i*13 + 1)
		}
		out = append(out, b)
	}
	return out
}()

type copyResult struct {
	v            *evid.Violation
	inconclusive string
	events       map[string]int
}

type copyJobState struct {
	id     int
	fin    atomic.Bool
	err    error
	ctx    context.Context
	cancel context.CancelFunc
	reqs   atomic.Int32
}

type jobKey struct{}

// goroutinesParked: how many goroutines run marker frame `marker`, and how many of them are parked in the select
// of pqueue.Acquire.
func goroutinesParked(marker string) (n, parked int, dump string) {
	buf := make([]byte, 4<<20)
	buf = buf[:runtime.Stack(buf, true)]
	dump = string(buf)
	for _, g := range strings.Split(dump, "\n\n") {
		if !strings.Contains(g, marker) {
			continue
		}
		n++
		nl := strings.IndexByte(g, '\n')
		if nl < 0 {
			continue
		}
		hdr := g[:nl]
		if i := strings.IndexByte(hdr, '['); i >= 0 && strings.HasPrefix(hdr[i+1:], "select") &&
			strings.Contains(g, "internal/pqueue.") && strings.Contains(g, ".Acquire(") {
			parked++
		}
	}
	return
}

type countingTransport struct {
	inner http.RoundTripper
	onReq func(ctx context.Context)
}

func (c *countingTransport) RoundTrip(req *http.Request) (*http.Response, error) {
	c.onReq(req.Context())
	return c.inner.RoundTrip(req)
}

func hostName(i int) string { return fmt.Sprintf("h%d.example.test", i) }

func runCopy(cc CopyCase) copyResult {
	pqueue.VerifHook = nil
	cc.normalise()
	res := copyResult{events: map[string]int{}}
	var evmu sync.Mutex
	event := func(l string) { evmu.Lock(); res.events[l]++; evmu.Unlock() }

	m := rm.New()
	nh := len(cc.Hosts)
	var hosts []config.Host
	for i, hc := range cc.Hosts {
		h := m.AddHost(hostName(i))
		// "src" exists everywhere (a mirror can serve it); "drain<i>" only on host i: a read of it ends at, and keeps
		// the slot of, host i itself
		for _, rn := range []string{"src", fmt.Sprintf("drain%d", i)} {
			rp := h.Repo(rn)
			for _, b := range copyBlobs {
				rp.Blobs[rm.Digest("sha256", b)] = b
			}
		}
		ch := config.HostNewName(hostName(i))
		ch.ReqConcurrent = int64(hc.Conc)
		for _, mi := range hc.Mirrors {
			mi %= nh
			if mi < 0 {
				mi += nh
			}
			if mi != i {
				ch.Mirrors = append(ch.Mirrors, hostName(mi))
				event("copy:host-with-mirror")
			}
		}
		switch {
		case hc.Conc < 0:
			event("copy:host-without-throttle")
		case hc.Conc == 1:
			event("copy:host-limit-1")
		}
		hosts = append(hosts, *ch)
	}
	jobs := make([]*copyJobState, len(cc.Jobs))
	cancelAt := make([]int32, len(cc.Jobs))
	for i, jc := range cc.Jobs {
		js := &copyJobState{id: i}
		js.ctx, js.cancel = context.WithCancel(context.WithValue(context.Background(), jobKey{}, js))
		jobs[i] = js
		cancelAt[i] = int32(jc.Cancel - 1)
		if jc.Cancel == 1 {
			js.cancel()
			event("copy:job-cancelled-before-call")
		} else if jc.Cancel > 1 {
			event("copy:job-cancelled-at-a-request")
		}
	}
	// cancel at the k-th request of a job: the request's context carries the job
	tr := &countingTransport{inner: m, onReq: func(ctx context.Context) {
		if js, ok := ctx.Value(jobKey{}).(*copyJobState); ok {
			if n := js.reqs.Add(1); cancelAt[js.id] > 0 && n == cancelAt[js.id] {
				js.cancel()
			}
		}
	}}
	rc := rcutil.New(m, rcutil.Conf{Hosts: hosts, RetryLimit: 2, RegOpts: []reg.Opts{reg.WithHTTPClient(&http.Client{Transport: tr})}})
	dir, err := os.MkdirTemp("", "c17copy")
	if err != nil {
		res.inconclusive = "tempdir: " + err.Error()
		return res
	}
	defer os.RemoveAll(dir)
	// the layout is a source as well: fill it first (sequentially, live context)
	layoutRef, _ := ref.New("ocidir://" + dir + "/layout")
	for _, b := range copyBlobs {
		d := descriptor.Descriptor{Digest: digest.Digest(rm.Digest("sha256", b)), Size: int64(len(b))}
		if _, err := rc.BlobPut(context.Background(), layoutRef, d, strings.NewReader(string(b))); err != nil {
			res.inconclusive = "layout setup: " + err.Error()
			return res
		}
	}

	endpoint := func(e int, repo string) (ref.Ref, bool) {
		e %= nh + 1
		if e < 0 {
			e += nh + 1
		}
		if e == nh {
			return layoutRef, true
		}
		r, _ := ref.New(hostName(e) + "/" + repo)
		return r, false
	}

	var wg sync.WaitGroup
	start := make(chan struct{})
	for i, jc := range cc.Jobs {
		i, jc := i, jc
		js := jobs[i]
		src, srcLayout := endpoint(jc.Src, "src")
		tgt, tgtLayout := endpoint(jc.Tgt, fmt.Sprintf("tgt%d", i))
		if tgtLayout {
			tgt, _ = ref.New(fmt.Sprintf("ocidir://%s/out%d", dir, i%2)) // two jobs may share a target layout
		}
		switch {
		case srcLayout && tgtLayout:
			event("copy:layout-to-layout")
		case srcLayout:
			event("copy:layout-to-registry")
		case tgtLayout:
			event("copy:registry-to-layout")
		case src.Registry == tgt.Registry:
			event("copy:same-registry")
		default:
			event("copy:registry-to-registry")
		}
		b := copyBlobs[((jc.Blob%len(copyBlobs))+len(copyBlobs))%len(copyBlobs)]
		d := descriptor.Descriptor{Digest: digest.Digest(rm.Digest("sha256", b)), Size: int64(len(b))}
		wg.Add(1)
		go func() {
			defer wg.Done()
			<-start
			copyJobRun(rc, js, src, tgt, d)
		}()
	}
	done := make(chan struct{})
	go func() { wg.Wait(); close(done) }()
	close(start)

	if v, inc := awaitOrProve(done, "c17.copyJobRun", func() int {
		n := 0
		for _, js := range jobs {
			if !js.fin.Load() {
				n++
			}
		}
		return n
	}, "copy-deadlock-all-parked-in-acquire", "concurrent BlobCopy calls"); v != nil || inc != "" {
		res.v, res.inconclusive = v, inc
		if v != nil {
			v.Msg += "\n" + describeCopy(cc, jobs)
		}
		for _, js := range jobs {
			js.cancel()
		}
		// the cancelled callers leave pqueue; do not leave parked goroutines behind for the next execution
		select {
		case <-done:
		case <-time.After(30 * time.Second):
			if res.inconclusive == "" {
				res.inconclusive = "copy teardown did not finish"
			}
		}
		return res
	}
	for _, js := range jobs {
		js.cancel()
		switch {
		case js.err == nil:
			event("copy:job-ok")
		case strings.Contains(js.err.Error(), "cannot acquire new locks during a transaction") || strings.Contains(js.err.Error(), "context already used by another AcquireMulti"):
			res.v = evid.V("copy-fails-with-throttle-error", "BlobCopy job %d failed with an error of the throttle itself: %v\n%s", js.id, js.err, describeCopy(cc, jobs))
			return res
		case js.ctx.Err() != nil && cc.Jobs[js.id].Cancel > 0:
			event("copy:job-cancelled-error")
		default:
			event("copy:job-other-error") // not judged here (not a throttle matter)
		}
	}

	// ---- drain through the API: `limit` readers held open at once on every throttled host
	for i, hc := range cc.Hosts {
		lim := hc.limit()
		if lim == 0 {
			continue
		}
		r, _ := ref.New(fmt.Sprintf("%s/drain%d", hostName(i), i))
		b := copyBlobs[0]
		d := descriptor.Descriptor{Digest: digest.Digest(rm.Digest("sha256", b)), Size: int64(len(b))}
		var readers []blob.Reader
		var rmu sync.Mutex
		var nfin atomic.Int32
		var gerr error
		ddone := make(chan struct{})
		dctx, dcancel := context.WithCancel(context.Background())
		go func() {
			defer close(ddone)
			copyDrainRun(dctx, rc, r, d, lim, &readers, &rmu, &nfin, &gerr)
		}()
		v, inc := awaitOrProve(ddone, "c17.copyDrainRun", func() int { return 1 }, "copy-leaks-throttle-slot",
			fmt.Sprintf("after all copies returned, opening %d blob readers on %s (reqConcurrent %d); %d were opened", lim, hostName(i), hc.Conc, nfin.Load()))
		dcancel()
		select {
		case <-ddone:
		case <-time.After(30 * time.Second):
			if inc == "" {
				inc = "drain teardown did not finish"
			}
		}
		rmu.Lock()
		for _, br := range readers {
			_ = br.Close()
		}
		rmu.Unlock()
		if v != nil || inc != "" {
			res.v, res.inconclusive = v, inc
			if v != nil {
				v.Msg += "\n" + describeCopy(cc, jobs)
			}
			return res
		}
		if gerr != nil {
			event("copy:drain-read-error")
		}
	}
	return res
}

func copyJobRun(rc *regclient.RegClient, js *copyJobState, src, tgt ref.Ref, d descriptor.Descriptor) {
	js.err = rc.BlobCopy(js.ctx, src, tgt, d)
	js.fin.Store(true)
}

func copyDrainRun(ctx context.Context, rc *regclient.RegClient, r ref.Ref, d descriptor.Descriptor, lim int, readers *[]blob.Reader, mu *sync.Mutex, nfin *atomic.Int32, gerr *error) {
	for k := 0; k < lim; k++ {
		br, err := rc.BlobGet(ctx, r, d)
		if err != nil {
			if ctx.Err() == nil {
				*gerr = err
			}
			return
		}
		mu.Lock()
		*readers = append(*readers, br)
		mu.Unlock()
		nfin.Add(1)
	}
}

// awaitOrProve waits for done. When it does not come, the run is a violation only if a goroutine dump shows all
// `unfinished()` goroutines running `marker` parked in the select of pqueue.Acquire on three consecutive looks.
func awaitOrProve(done chan struct{}, marker string, unfinished func() int, sig, what string) (*evid.Violation, string) {
	t0 := time.Now()
	wd := time.NewTimer(3 * time.Second)
	defer wd.Stop()
	select {
	case <-done:
		return nil, ""
	case <-wd.C:
	}
	same := 0
	for time.Since(t0) < freeHardCap {
		select {
		case <-done:
			return nil, ""
		case <-time.After(150 * time.Millisecond):
		}
		u := unfinished()
		n, parked, _ := goroutinesParked(marker)
		if u > 0 && n == u && parked == u {
			same++
		} else {
			same = 0
		}
		if same >= 3 {
			_, _, dump := goroutinesParked(marker)
			if len(dump) > 5000 {
				dump = dump[:5000]
			}
			return evid.V(sig, "%s: every unfinished caller (%d) is parked in the select of pqueue.Acquire and nobody is left to release a slot (goroutine dump)\n%s", what, u, dump), ""
		}
	}
	_, _, dump := goroutinesParked(marker)
	if len(dump) > 5000 {
		dump = dump[:5000]
	}
	return nil, fmt.Sprintf("%s did not finish within %v and is not provably stuck inside pqueue\n%s", what, time.Since(t0).Round(time.Second), dump)
}

func describeCopy(cc CopyCase, jobs []*copyJobState) string {
	var sb strings.Builder
	for i, h := range cc.Hosts {
		fmt.Fprintf(&sb, "%s{reqConcurrent=%d mirrors=%v} ", hostName(i), h.Conc, h.Mirrors)
	}
	for i, j := range cc.Jobs {
		fmt.Fprintf(&sb, "\n  job%d %d->%d blob%d cancel=%d finished=%v err=%v", i, j.Src, j.Tgt, j.Blob, j.Cancel, jobs[i].fin.Load(), jobs[i].err)
	}
	return sb.String()
}
